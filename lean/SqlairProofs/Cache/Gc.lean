/-
  Garbage collection to quiescence: every enabled finalizer strictly decreases a measure,
  so `gc` with enough fuel ends in a state where no finalizer is enabled.
-/
import SqlairProofs.Cache.IterClose

namespace Sqlair.Cache

/-- number of evicted statements awaiting their finalizer -/
def finCount (ds : List DStmt) : Nat := (ds.map (·.finalizer)).count true

/-- the measure every finalizer step decreases -/
def gcMeasure (st : St) : Nat := finCount st.ds + st.stmtDB.length + st.dbStmt.length

/-- what the finalizer bodies leave alone -/
structure FinFrame (st st' : St) : Prop where
  ops : st'.ops = st.ops
  liveS : st'.liveS = st.liveS
  liveD : st'.liveD = st.liveD
  iters : st'.iters = st.iters
  fins : st'.ds.map (·.finalizer) = st.ds.map (·.finalizer)
  sLen : st'.stmtDB.length = st.stmtDB.length
  dLen : st'.dbStmt.length = st.dbStmt.length

theorem FinFrame.refl (st : St) : FinFrame st st := ⟨rfl, rfl, rfl, rfl, rfl, rfl, rfl⟩

theorem FinFrame.trans {a b c : St} (h1 : FinFrame a b) (h2 : FinFrame b c) : FinFrame a c :=
  ⟨h2.ops.trans h1.ops, h2.liveS.trans h1.liveS, h2.liveD.trans h1.liveD, h2.iters.trans h1.iters,
   h2.fins.trans h1.fins, h2.sLen.trans h1.sLen, h2.dLen.trans h1.dLen⟩

theorem fins_upd (ds : List DStmt) (id : Nat) (f : DStmt → DStmt) (hf : ∀ x, (f x).finalizer = x.finalizer) :
    (dsUpd ds id f).map (·.finalizer) = ds.map (·.finalizer) := by
  unfold dsUpd
  rw [List.map_map]
  apply List.map_congr_left
  intro x _
  simp only [Function.comp]
  split <;> simp [hf]

theorem closeStmt_finFrame (st : St) (id : Nat) : FinFrame st (st.closeStmt id) := by
  unfold St.closeStmt
  cases hx : st.getDS id with
  | none => exact FinFrame.refl st
  | some x =>
    simp only [updDS_eq, iterHolds_eq, St.emit]
    by_cases h : (!x.closeCalled && !st.iters.any (·.2 == id)) = true
    · simp only [h]
      refine ⟨rfl, rfl, rfl, rfl, ?_, rfl, rfl⟩
      simp only [if_true]
      rw [fins_upd _ _ _ (by intro x; rfl), fins_upd _ _ _ (by intro x; rfl)]
    · simp only [h]
      refine ⟨rfl, rfl, rfl, rfl, ?_, rfl, rfl⟩
      simp only [Bool.false_eq_true, if_false]
      rw [fins_upd _ _ _ (by intro x; rfl)]

theorem finSBody_finFrame (s : Nat) (st : St) (p : Nat × Nat) : FinFrame st (finSBody s st p) := by
  have h := closeStmt_finFrame st p.2
  unfold finSBody
  refine ⟨h.ops, h.liveS, h.liveD, h.iters, h.fins, h.sLen, ?_⟩
  show (delIdx _ _ _).length = _
  rw [delIdx_eq, List.length_map]; exact h.dLen

theorem finDBody_finFrame (d : Nat) (st : St) (s : Nat) : FinFrame st (finDBody d st s) := by
  unfold finDBody
  split
  · rename_i id _
    have h := closeStmt_finFrame st id
    refine ⟨h.ops, h.liveS, h.liveD, h.iters, h.fins, ?_, h.dLen⟩
    show (del2 _ _ _).length = _
    rw [del2_eq, List.length_map]; exact h.sLen
  · exact FinFrame.refl st

theorem foldl_finFrame {α : Type} (f : St → α → St) (hf : ∀ st a, FinFrame st (f st a)) (l : List α) (st : St) :
    FinFrame st (l.foldl f st) := by
  induction l generalizing st with
  | nil => exact FinFrame.refl st
  | cons a l ih => exact (hf st a).trans (ih (f st a))

theorem foldl_finSBody_stmtDB (s : Nat) (row : List (Nat × Nat)) (st : St) :
    (row.foldl (finSBody s) st).stmtDB = st.stmtDB := by
  induction row generalizing st with
  | nil => rfl
  | cons p row ih =>
    simp only [List.foldl_cons]
    rw [ih]
    obtain ⟨ds', log', e⟩ := closeStmt_frame st p.2
    unfold finSBody; rw [e]

theorem foldl_finDBody_dbStmt (d : Nat) (ss : List Nat) (st : St) :
    (ss.foldl (finDBody d) st).dbStmt = st.dbStmt := by
  induction ss generalizing st with
  | nil => rfl
  | cons s ss ih =>
    simp only [List.foldl_cons]
    rw [ih]
    unfold finDBody
    split
    · rename_i id _
      obtain ⟨ds', log', e⟩ := closeStmt_frame st id
      rw [e]
    · rfl

theorem length_erase_lt {β : Type} (m : List (Nat × β)) (k : Nat) (h : (alook m k).isSome) :
    (m.filter (·.1 != k)).length < m.length := by
  have hk : k ∈ m.map (·.1) := alook_isSome_iff.1 h
  obtain ⟨p, hp, rfl⟩ := List.mem_map.1 hk
  apply List.length_filter_lt_length_iff_exists.2
  exact ⟨p, hp, by simp⟩

/-- a finalizer step does not touch handles, operations and iterators, and decreases the measure -/
structure FinStep (st st' : St) : Prop where
  ops : st'.ops = st.ops
  liveS : st'.liveS = st.liveS
  liveD : st'.liveD = st.liveD
  iters : st'.iters = st.iters
  dsLen : st'.ds.length = st.ds.length
  dec : gcMeasure st' < gcMeasure st

theorem finS_finStep {st st' : St} {s : Nat} (h : step st (.finS s) = some st') : FinStep st st' := by
  obtain ⟨_, hkey, rfl⟩ := step_finS h
  have hf := foldl_finFrame (finSBody s) (finSBody_finFrame s) (getRow st.stmtDB s) st
  have hsdb := foldl_finSBody_stmtDB s (getRow st.stmtDB s) st
  refine ⟨hf.ops, hf.liveS, hf.liveD, hf.iters, by simpa [eraseS] using congrArg List.length hf.fins, ?_⟩
  unfold gcMeasure eraseS finCount
  simp only
  rw [hf.fins, hf.dLen, hsdb]
  have := length_erase_lt st.stmtDB s hkey
  omega

theorem finD_finStep {st st' : St} {d : Nat} (h : step st (.finD d) = some st') : FinStep st st' := by
  obtain ⟨_, hkey, rfl⟩ := step_finD h
  have hf := foldl_finFrame (finDBody d) (finDBody_finFrame d) (getIdx st.dbStmt d) st
  have hsdb := foldl_finDBody_dbStmt d (getIdx st.dbStmt d) st
  refine ⟨hf.ops, hf.liveS, hf.liveD, hf.iters, by simpa [eraseD] using congrArg List.length hf.fins, ?_⟩
  unfold gcMeasure eraseD finCount
  simp only
  rw [hf.fins, hf.sLen, hsdb]
  have := length_erase_lt st.dbStmt d hkey
  omega

theorem finCount_cons (y : DStmt) (l : List DStmt) :
    finCount (y :: l) = finCount l + if y.finalizer = true then 1 else 0 := by
  unfold finCount
  simp only [List.map_cons, List.count_cons, beq_iff_eq]

theorem count_map_lt (g : DStmt → DStmt) (hg : ∀ y, (g y).finalizer = true → y.finalizer = true) {x : DStmt}
    (hx1 : x.finalizer = true) (hx2 : (g x).finalizer = false) :
    ∀ (l : List DStmt), x ∈ l → finCount (l.map g) < finCount l := by
  have hle : ∀ (l : List DStmt), finCount (l.map g) ≤ finCount l := by
    intro l
    induction l with
    | nil => exact Nat.le_refl _
    | cons y l ih =>
      rw [List.map_cons, finCount_cons, finCount_cons]
      have := hg y
      split <;> split <;> simp_all <;> omega
  intro l
  induction l with
  | nil => intro h; simp at h
  | cons y l ih =>
    intro hm
    rw [List.map_cons, finCount_cons, finCount_cons]
    rcases List.mem_cons.1 hm with rfl | hm
    · have := hle l
      simp only [hx1, hx2, if_true, Bool.false_eq_true, if_false]
      omega
    · have := ih hm
      have := hg y
      split <;> split <;> simp_all <;> omega

theorem finDS_finStep {st st' : St} {id : Nat} (hi : Inv st) (h : step st (.finDS id) = some st') : FinStep st st' := by
  obtain ⟨x, hx, hfin, _, rfl⟩ := step_finDS h
  have hcc := hi.dsOK.fin_open id x hx hfin
  rw [closeStmt_eq hx hcc, updDS_eq]
  refine ⟨rfl, rfl, rfl, rfl, by simp [dsUpd], ?_⟩
  unfold gcMeasure
  simp only
  rw [dsUpd_dsUpd _ _ _ _ (by intro x; rfl)]
  refine Nat.add_lt_add_right (Nat.add_lt_add_right ?_ _) _
  unfold dsUpd
  apply count_map_lt _ _ hfin _ _ (dsGet_some hx).2
  · intro y hy
    split at hy
    · cases hy
    · exact hy
  · have : x.id = id := (dsGet_some hx).1
    simp [this]

/-! ### enabled finalizers are enabled -/

theorem mem_enabledFinalizers {st : St} {x : Step} (h : x ∈ enabledFinalizers st) :
    (∃ y ∈ st.ds, y.finalizer = true ∧ st.dsReachable y.id = false ∧ x = .finDS y.id) ∨
    (∃ p ∈ st.stmtDB, st.sReachable p.1 = false ∧ x = .finS p.1) ∨
    (∃ p ∈ st.dbStmt, st.dReachable p.1 = false ∧ x = .finD p.1) := by
  unfold enabledFinalizers at h
  simp only [List.mem_append, List.mem_map, List.mem_filter] at h
  rcases h with (⟨y, ⟨hy, hc⟩, rfl⟩ | ⟨p, ⟨hp, hc⟩, rfl⟩) | ⟨p, ⟨hp, hc⟩, rfl⟩
  · left; simp at hc; exact ⟨y, hy, hc.1, hc.2, rfl⟩
  · right; left; simp at hc; exact ⟨p, hp, hc, rfl⟩
  · right; right; simp at hc; exact ⟨p, hp, hc, rfl⟩

theorem enabledFinalizers_enabled {st : St} (hi : Inv st) {x : Step} (h : x ∈ enabledFinalizers st) :
    ∃ st', step st x = some st' ∧ FinStep st st' := by
  rcases mem_enabledFinalizers h with ⟨y, hy, hf, hr, rfl⟩ | ⟨p, hp, hr, rfl⟩ | ⟨p, hp, hr, rfl⟩
  · have hg := hi.dsOK.ids.get_of_mem hy
    have : (step st (.finDS y.id)).isSome := by
      simp [step, getDS_eq, hg, hf, hr]
    obtain ⟨st', hs⟩ := Option.isSome_iff_exists.1 this
    exact ⟨st', hs, finDS_finStep hi hs⟩
  · have hk : st.stmtDB.any (·.1 == p.1) = true := List.any_eq_true.2 ⟨p, hp, by simp⟩
    have : (step st (.finS p.1)).isSome := by
      simp only [step, hr, hk]; rfl
    obtain ⟨st', hs⟩ := Option.isSome_iff_exists.1 this
    exact ⟨st', hs, finS_finStep hs⟩
  · have hk : st.dbStmt.any (·.1 == p.1) = true := List.any_eq_true.2 ⟨p, hp, by simp⟩
    have : (step st (.finD p.1)).isSome := by
      simp only [step, hr, hk]; rfl
    obtain ⟨st', hs⟩ := Option.isSome_iff_exists.1 this
    exact ⟨st', hs, finD_finStep hs⟩

theorem enabledFinalizers_nil_of_measure {st : St} (h : gcMeasure st = 0) : enabledFinalizers st = [] := by
  unfold gcMeasure at h
  have h1 : st.stmtDB = [] := List.eq_nil_of_length_eq_zero (by omega)
  have h2 : st.dbStmt = [] := List.eq_nil_of_length_eq_zero (by omega)
  have h3 : finCount st.ds = 0 := by omega
  unfold enabledFinalizers
  rw [h1, h2]
  simp only [List.filter_nil, List.map_nil, List.append_nil, List.map_eq_nil_iff, List.filter_eq_nil_iff]
  intro y hy
  unfold finCount at h3
  have := List.count_eq_zero.1 h3
  have hf : y.finalizer = false := by
    cases hf : y.finalizer with
    | false => rfl
    | true => exact absurd (List.mem_map.2 ⟨y, hy, hf⟩) this
  simp [hf]

/-- `gc` with fuel at least the measure runs finalizers until none is enabled; it is a run of
    enabled steps that leaves handles, operations and iterators alone -/
theorem gc_spec : ∀ (fuel : Nat) (st : St), Inv st → gcMeasure st ≤ fuel →
    ∃ steps, gc fuel st = run st steps ∧ enabledFinalizers (gc fuel st) = [] ∧
      (gc fuel st).ops = st.ops ∧ (gc fuel st).liveS = st.liveS ∧ (gc fuel st).liveD = st.liveD ∧
      (gc fuel st).iters = st.iters ∧ (gc fuel st).ds.length = st.ds.length := by
  intro fuel
  induction fuel with
  | zero =>
    intro st _ hm
    exact ⟨[], rfl, enabledFinalizers_nil_of_measure (st := st) (by omega), rfl, rfl, rfl, rfl, rfl⟩
  | succ f ih =>
    intro st hi hm
    unfold gc
    cases he : enabledFinalizers st with
    | nil => exact ⟨[], rfl, he, rfl, rfl, rfl, rfl, rfl⟩
    | cons x rest =>
      simp only
      obtain ⟨st', hs, hfs⟩ := enabledFinalizers_enabled hi (by rw [he]; exact List.mem_cons_self ..)
      rw [hs]
      simp only [Option.getD_some]
      obtain ⟨steps, h1, h2, h3, h4, h5, h6, h7⟩ := ih st' (inv_step hi x hs) (by have := hfs.dec; omega)
      refine ⟨x :: steps, ?_, h2, h3.trans hfs.ops, h4.trans hfs.liveS, h5.trans hfs.liveD, h6.trans hfs.iters,
        h7.trans hfs.dsLen⟩
      rw [run_cons, hs]; exact h1

theorem gcMeasure_le (st : St) : gcMeasure st ≤ st.ds.length + st.stmtDB.length + st.dbStmt.length := by
  unfold gcMeasure finCount
  have := List.count_le_length (a := true) (l := st.ds.map (·.finalizer))
  simp only [List.length_map] at this
  omega


/-! ### quiescence -/

/-- the caller has dropped every handle, closed every iterator, and no operation is in flight -/
def Quiescent (st : St) : Prop :=
  st.liveS = [] ∧ st.liveD = [] ∧ st.iters = [] ∧ ∀ p ∈ st.ops, p.2.pc = .done

theorem Quiescent.sReachable {st : St} (h : Quiescent st) (s : Nat) : st.sReachable s = false := by
  unfold St.sReachable
  rw [h.1]
  simp only [List.contains_nil, Bool.false_or]
  apply List.any_eq_false.2
  intro p hp
  simp [h.2.2.2 p hp]

theorem Quiescent.dReachable {st : St} (h : Quiescent st) (d : Nat) : st.dReachable d = false := by
  unfold St.dReachable
  rw [h.2.1]
  simp only [List.contains_nil, Bool.false_or]
  apply List.any_eq_false.2
  intro p hp
  simp [h.2.2.2 p hp]

theorem Quiescent.dsReachable {st : St} (h : Quiescent st) (hs : st.stmtDB = []) (id : Nat) :
    st.dsReachable id = false := by
  unfold St.dsReachable St.inCache St.opHolds St.iterHolds
  rw [hs, h.2.2.1]
  simp only [List.any_nil, Bool.false_or, Bool.or_false]
  apply List.any_eq_false.2
  intro p hp
  simp [h.2.2.2 p hp]

theorem quiescent_final {st : St} (hi : Inv st) (hq : Quiescent st) (he : enabledFinalizers st = []) :
    st.stmtDB = [] ∧ st.dbStmt = [] ∧
      ∀ x ∈ st.ds, x.closeCalled = true ∧ x.closeCalls = 1 ∧ x.driverClosed = true ∧ x.finalizer = false := by
  unfold enabledFinalizers at he
  simp only [List.append_eq_nil_iff, List.map_eq_nil_iff] at he
  obtain ⟨⟨he1, he2⟩, he3⟩ := he
  have hs : st.stmtDB = [] := by
    cases h : st.stmtDB with
    | nil => rfl
    | cons p rest =>
      have := List.filter_eq_nil_iff.1 he2 p (by rw [h]; exact List.mem_cons_self ..)
      simp [hq.sReachable] at this
  have hd : st.dbStmt = [] := by
    cases h : st.dbStmt with
    | nil => rfl
    | cons p rest =>
      have := List.filter_eq_nil_iff.1 he3 p (by rw [h]; exact List.mem_cons_self ..)
      simp [hq.dReachable] at this
  refine ⟨hs, hd, ?_⟩
  intro x hx
  have hg := hi.dsOK.ids.get_of_mem hx
  have hfin : x.finalizer = false := by
    have := List.filter_eq_nil_iff.1 he1 x hx
    simpa [hq.dsReachable hs] using this
  have hcc : x.closeCalled = true := by
    rcases hi.noLeak x.id x hg with h | h | ⟨s, d, h⟩ | ⟨t, o, hm, hpc⟩
    · exact h
    · rw [hfin] at h; cases h
    · rw [hs] at h; simp [lookup2] at h
    · have := hq.2.2.2 (t, o) hm; simp only at this; rw [hpc] at this; cases this
  have hdc : x.driverClosed = true := by
    cases h : x.driverClosed with
    | true => rfl
    | false =>
      obtain ⟨hd', hm⟩ := hi.iters.waiting x.id x hg hcc h
      rw [hq.2.2.1] at hm; simp at hm
  refine ⟨hcc, ?_, hdc, hfin⟩
  have := hi.dsOK.calls x.id x hg
  rw [this, hcc]; rfl

end Sqlair.Cache
