/-
  L2Rows/ByTag: the member search by tag (`valueByTag`, `tagsOfVal`) against the index paths
  `getStructFields` computes.  For a well-formed struct value whose embedded pointers do not
  point to maps or pointers (`embPtrOK`), whenever `tagsOfVal` succeeds:
    * it lists the tags of `getStructFields` in the same order (`RowSpec.tags`);
    * for every field `f`, `valueByTag … f.tag` is the value `fieldByIndex … f.index` reaches
      (`RowSpec.vals`, given that the tags are pairwise different).
-/
import SqlairModel.Spec.L2Rows
import SqlairProofs.NoPanic.ValWF

namespace Sqlair

theorem embPtrOK_field {tt : TypeTable} (h : embPtrOK tt = true) (i : Nat) (f : FieldDesc)
    (hf : f ∈ (tt.get i).fields) (ha : f.anon = true) (he : f.exported = true) (ht : f.tag.size = 0)
    (hk : (tt.get f.ty).kind = .ptr) :
    (tt.get (tt.get f.ty).elem).kind ≠ .map ∧ (tt.get (tt.get f.ty).elem).kind ≠ .ptr := by
  unfold TypeTable.get at hf
  by_cases hi : i < tt.size
  · have hmem : tt.getD i default ∈ tt := by
      simp [Array.getD, hi]
    unfold embPtrOK at h
    rw [Array.all_eq_true'] at h
    have := h _ hmem
    rw [List.all_eq_true] at this
    have := this f hf
    simpa [ha, he, ht, hk] using this
  · have : tt.getD i default = default := by simp [Array.getD, hi]
    rw [this] at hf
    cases hf

/-- one step of the fold of `tagsOfVal` over the (descriptor, value) pairs of a struct -/
def tovStep (C : Cls) (tt : TypeTable) (k : Nat) (acc : Option (List Bytes)) (p : FieldDesc × GoVal) :
    Option (List Bytes) :=
  match acc with
  | none => none
  | some l =>
    if p.1.tag.size != 0 then
      match parseTag C p.1.tag with
      | .ok (name, _) => if p.1.exported then some (l ++ [name]) else some l
      | .error _ => none
    else if p.1.anon && p.1.exported then
      match p.2 with
      | .struct .. => (tagsOfVal C tt k p.2).map (l ++ ·)
      | .ptr _ (some q) => (tagsOfVal C tt k q).map (l ++ ·)
      | .ptr _ none => none
      | _ => some l
    else some l

/-- one step of the search of `valueByTag` -/
def vbtStep (C : Cls) (tt : TypeTable) (k : Nat) (tag : Bytes) (p : FieldDesc × GoVal) : Option GoVal :=
  if p.1.tag.size != 0 then
    match parseTag C p.1.tag with
    | .ok (name, _) => if name == tag && p.1.exported then some p.2 else none
    | .error _ => none
  else if p.1.anon && p.1.exported then
    match p.2 with
    | .struct .. => valueByTag C tt k p.2 tag
    | .ptr _ (some q) => valueByTag C tt k q tag
    | _ => none
  else none

theorem tagsOfVal_struct (C : Cls) (tt : TypeTable) (k : Nat) (h : VH) (fs : List GoVal) :
    tagsOfVal C tt (k + 1) (.struct h fs) = ((tt.get h.t).fields.zip fs).foldl (tovStep C tt k) (some []) := by
  simp only [tagsOfVal]
  rfl

theorem valueByTag_struct (C : Cls) (tt : TypeTable) (k : Nat) (h : VH) (fs : List GoVal) (tag : Bytes) :
    valueByTag C tt (k + 1) (.struct h fs) tag = ((tt.get h.t).fields.zip fs).findSome? (vbtStep C tt k tag) := by
  simp only [valueByTag]
  rfl

theorem tovStep_foldl_none (C : Cls) (tt : TypeTable) (k : Nat) : ∀ ps : List (FieldDesc × GoVal),
    ps.foldl (tovStep C tt k) none = none := by
  intro ps
  induction ps with
  | nil => rfl
  | cons p rest ih => simpa [List.foldl_cons, tovStep] using ih

/-- a tag `tagsOfVal` does not list is not found by `valueByTag` (no hypothesis on the value) -/
theorem valueByTag_none_of_not_mem (C : Cls) (tt : TypeTable) (tag : Bytes) : ∀ (k : Nat) (v : GoVal) (tags : List Bytes),
    tagsOfVal C tt k v = some tags → tag ∉ tags → valueByTag C tt k v tag = none := by
  intro k
  induction k with
  | zero => intro v tags h; simp [tagsOfVal] at h
  | succ k ih =>
    have step : ∀ (p : FieldDesc × GoVal) (l l' : List Bytes), tovStep C tt k (some l) p = some l' →
        ∃ t1, l' = l ++ t1 ∧ (tag ∉ t1 → vbtStep C tt k tag p = none) := by
      intro p l l' h
      unfold tovStep at h
      unfold vbtStep
      simp only at h
      by_cases ht : (p.1.tag.size != 0) = true
      · simp only [ht, if_true] at h ⊢
        cases hp : parseTag C p.1.tag with
        | error e => simp [hp] at h
        | ok r =>
          obtain ⟨name, om⟩ := r
          simp only [hp] at h ⊢
          by_cases he : p.1.exported = true
          · simp only [he, if_true, Option.some.injEq] at h
            refine ⟨[name], h.symm, ?_⟩
            intro hn
            have : (name == tag) = false := by
              simp only [List.mem_singleton] at hn
              simpa using fun e => hn e.symm
            simp [this]
          · simp only [he, Bool.false_eq_true, if_false, Option.some.injEq] at h
            exact ⟨[], by simp [h], fun _ => by simp [he]⟩
      · simp only [ht, Bool.false_eq_true, if_false] at h ⊢
        by_cases hae : (p.1.anon && p.1.exported) = true
        · simp only [hae, if_true] at h ⊢
          obtain ⟨fd, fv⟩ := p
          simp only at h ⊢
          cases fv with
          | struct hd fs =>
            simp only [Option.map_eq_some_iff] at h
            obtain ⟨t1, h1, rfl⟩ := h
            exact ⟨t1, rfl, fun hn => ih _ _ h1 hn⟩
          | ptr hd q =>
            cases q with
            | none => simp at h
            | some q =>
              simp only [Option.map_eq_some_iff] at h
              obtain ⟨t1, h1, rfl⟩ := h
              exact ⟨t1, rfl, fun hn => ih _ _ h1 hn⟩
          | _ =>
            simp only [Option.some.injEq] at h
            exact ⟨[], by simp [h], fun _ => rfl⟩
        · simp only [hae, Bool.false_eq_true, if_false, Option.some.injEq] at h ⊢
          exact ⟨[], by simp [h], fun _ => trivial⟩
    have fold : ∀ (ps : List (FieldDesc × GoVal)) (l0 tags : List Bytes),
        ps.foldl (tovStep C tt k) (some l0) = some tags →
        ∃ t, tags = l0 ++ t ∧ (tag ∉ t → ps.findSome? (vbtStep C tt k tag) = none) := by
      intro ps
      induction ps with
      | nil =>
        intro l0 tags h
        simp only [List.foldl_nil, Option.some.injEq] at h
        exact ⟨[], by simp [h], fun _ => rfl⟩
      | cons p rest ihp =>
        intro l0 tags h
        rw [List.foldl_cons] at h
        cases hs : tovStep C tt k (some l0) p with
        | none => rw [hs, tovStep_foldl_none] at h; cases h
        | some l1 =>
          rw [hs] at h
          obtain ⟨t1, rfl, hv1⟩ := step p l0 l1 hs
          obtain ⟨t2, rfl, hv2⟩ := ihp _ _ h
          refine ⟨t1 ++ t2, by simp, ?_⟩
          intro hn
          simp only [List.mem_append, not_or] at hn
          rw [List.findSome?_cons, hv1 hn.1]
          exact hv2 hn.2
    intro v tags h hn
    cases v with
    | struct hd fs =>
      rw [tagsOfVal_struct] at h
      rw [valueByTag_struct]
      obtain ⟨t, rfl, hv⟩ := fold _ _ _ h
      exact hv (by simpa using hn)
    | ptr hd q =>
      cases q with
      | none => simp [tagsOfVal] at h
      | some q =>
        simp only [tagsOfVal] at h
        simp only [valueByTag]
        exact ih _ _ h hn
    | map hd kv =>
      cases kv with
      | none => simp [tagsOfVal] at h
      | some kv =>
        simp only [tagsOfVal, Option.some.injEq] at h
        subst h
        simp only [valueByTag, mapIndex, Option.map_eq_none_iff, List.find?_eq_none]
        intro e he heq
        apply hn
        rw [List.mem_map]
        exact ⟨e, he, by simpa using heq⟩
    | _ => simp [tagsOfVal] at h

/-! ### `fieldByIndex` steps -/

theorem fbi_struct_cons (h : VH) (fs : List GoVal) (j : Nat) (rest : List Nat) (first : Bool) :
    fieldByIndex (.struct h fs) (j :: rest) first =
      match fs[j]? with
      | some x => fieldByIndex x rest false
      | none => .error "panic-field-index" := by
  cases first <;> rfl

theorem fbi_ptr_cons (h : VH) (p : GoVal) (j : Nat) (rest : List Nat) :
    fieldByIndex (.ptr h (some p)) (j :: rest) false = fieldByIndex p (j :: rest) true := rfl

theorem fbi_struct_first (h : VH) (fs : List GoVal) (idx : List Nat) (hne : idx ≠ []) :
    fieldByIndex (.struct h fs) idx false = fieldByIndex (.struct h fs) idx true := by
  cases idx with
  | nil => exact absurd rfl hne
  | cons j rest => rfl

/-- what the search by tag yields on a row `w` against the field list of its struct type -/
structure RowSpec (C : Cls) (tt : TypeTable) (k : Nat) (fields : List SField) (w : GoVal) (tags : List Bytes) : Prop where
  tags : tags = fields.map (·.tag)
  idx : ∀ f ∈ fields, f.index ≠ []
  vals : (fields.map (·.tag)).Nodup → ∀ f ∈ fields, ∃ fv, fieldByIndex w f.index true = .ok fv ∧
    valueByTag C tt k w f.tag = some fv

/-- the side condition `embPtrOK`, for one field descriptor -/
def EmbCond (tt : TypeTable) (fd : FieldDesc) : Prop :=
  fd.anon = true → fd.exported = true → fd.tag.size = 0 → (tt.get fd.ty).kind = .ptr →
    (tt.get (tt.get fd.ty).elem).kind ≠ .map ∧ (tt.get (tt.get fd.ty).elem).kind ≠ .ptr

theorem tagsOfVal_none_of_kind {C : Cls} {tt : TypeTable} {q : GoVal} (hq : ValWF tt q)
    (h1 : (tt.get q.tid).kind ≠ .struct) (h2 : (tt.get q.tid).kind ≠ .map) (h3 : (tt.get q.tid).kind ≠ .ptr)
    (k : Nat) : tagsOfVal C tt k q = none := by
  cases k with
  | zero => rfl
  | succ k =>
    cases hq with
    | struct hd fs hk _ _ _ => exact absurd hk h1
    | ptrNil hd hk => exact absurd hk h3
    | ptr hd p hk _ _ => exact absurd hk h3
    | mapNil hd hk => exact absurd hk h2
    | map hd kv hk _ _ => exact absurd hk h2
    | _ => rfl

theorem fieldsLoop_rowSpec (C : Cls) (tt : TypeTable) (k : Nat) (recur : Nat → Except String (List SField))
    (hrec : ∀ stid nested, recur stid = .ok nested → ∀ hw fsw, ValWF tt (.struct hw fsw) → hw.t = stid →
      ∀ tags, tagsOfVal C tt k (.struct hw fsw) = some tags → RowSpec C tt k nested (.struct hw fsw) tags) :
    ∀ (fds : List FieldDesc) (fvs : List GoVal) (i : Nat) (acc res : List SField),
      fieldsLoop C tt recur fds i acc = .ok res →
      (∀ x ∈ fvs, ValWF tt x) → fds.length = fvs.length →
      (∀ (j : Nat) (fd : FieldDesc) (fv : GoVal), fds[j]? = some fd → fvs[j]? = some fv → fv.tid = fd.ty) →
      (∀ fd ∈ fds, EmbCond tt fd) →
      ∀ l0 tags, (fds.zip fvs).foldl (tovStep C tt k) (some l0) = some tags →
      ∃ new, res = acc ++ new ∧ tags = l0 ++ new.map (·.tag) ∧ (∀ f ∈ new, f.index ≠ []) ∧
        ((new.map (·.tag)).Nodup → ∀ f ∈ new, ∃ j rest x fv, f.index = (i + j) :: rest ∧ fvs[j]? = some x ∧
          fieldByIndex x rest false = .ok fv ∧ (fds.zip fvs).findSome? (vbtStep C tt k f.tag) = some fv) := by
  intro fds
  induction fds with
  | nil =>
    intro fvs i acc res h _ _ _ _ l0 tags hf
    simp only [fieldsLoop] at h
    cases h
    simp only [List.zip_nil_left, List.foldl_nil, Option.some.injEq] at hf
    exact ⟨[], by simp, by simp [hf], by simp, by simp⟩
  | cons fd rest ih =>
    intro fvs i acc res h hwf hlen hty hemb l0 tags hf
    cases fvs with
    | nil => simp at hlen
    | cons fv fvs =>
    have hwf' : ∀ x ∈ fvs, ValWF tt x := fun x hx => hwf x (List.mem_cons_of_mem _ hx)
    have hfvwf : ValWF tt fv := hwf fv (by simp)
    have hlen' : rest.length = fvs.length := by simpa using hlen
    have hty' : ∀ (j : Nat) (fd' : FieldDesc) (fv' : GoVal), rest[j]? = some fd' → fvs[j]? = some fv' → fv'.tid = fd'.ty := by
      intro j fd' fv' h1 h2
      exact hty (j + 1) fd' fv' (by simpa using h1) (by simpa using h2)
    have hfvty : fv.tid = fd.ty := hty 0 fd fv (by simp) (by simp)
    have hemb' : ∀ fd' ∈ rest, EmbCond tt fd' := fun fd' h' => hemb fd' (List.mem_cons_of_mem _ h')
    have hembfd : EmbCond tt fd := hemb fd (by simp)
    rw [List.zip_cons_cons, List.foldl_cons] at hf
    -- a descriptor that contributes nothing
    have skipCase : fieldsLoop C tt recur rest (i + 1) acc = .ok res →
        tovStep C tt k (some l0) (fd, fv) = some l0 → (∀ t, vbtStep C tt k t (fd, fv) = none) →
        ∃ new, res = acc ++ new ∧ tags = l0 ++ new.map (·.tag) ∧ (∀ f ∈ new, f.index ≠ []) ∧
        ((new.map (·.tag)).Nodup → ∀ f ∈ new, ∃ j rest' x fvv, f.index = (i + j) :: rest' ∧ (fv :: fvs)[j]? = some x ∧
          fieldByIndex x rest' false = .ok fvv ∧
          ((fd, fv) :: rest.zip fvs).findSome? (vbtStep C tt k f.tag) = some fvv) := by
      intro h' hs hv
      rw [hs] at hf
      obtain ⟨new, h1, h2, h3, h4⟩ := ih fvs (i + 1) acc res h' hwf' hlen' hty' hemb' l0 tags hf
      refine ⟨new, h1, h2, h3, ?_⟩
      intro hnd f hfm
      obtain ⟨j, rest', x, fvv, e1, e2, e3, e4⟩ := h4 hnd f hfm
      refine ⟨j + 1, rest', x, fvv, by rw [e1]; congr 1; omega, by simpa using e2, e3, ?_⟩
      rw [List.findSome?_cons, hv]
      exact e4
    -- an embedded struct `w` reached from the field value
    have embCase : ∀ (nested : List SField) (w : GoVal) (t1 : List Bytes),
        fieldsLoop C tt recur rest (i + 1) (acc ++ nested.map (fun nf => { nf with index := i :: nf.index })) = .ok res →
        RowSpec C tt k nested w t1 → tagsOfVal C tt k w = some t1 →
        tovStep C tt k (some l0) (fd, fv) = some (l0 ++ t1) →
        (∀ t, vbtStep C tt k t (fd, fv) = valueByTag C tt k w t) →
        (∀ idx, idx ≠ [] → fieldByIndex fv idx false = fieldByIndex w idx true) →
        ∃ new, res = acc ++ new ∧ tags = l0 ++ new.map (·.tag) ∧ (∀ f ∈ new, f.index ≠ []) ∧
        ((new.map (·.tag)).Nodup → ∀ f ∈ new, ∃ j rest' x fvv, f.index = (i + j) :: rest' ∧ (fv :: fvs)[j]? = some x ∧
          fieldByIndex x rest' false = .ok fvv ∧
          ((fd, fv) :: rest.zip fvs).findSome? (vbtStep C tt k f.tag) = some fvv) := by
      intro nested w t1 h' hrs htw hs hv hfbi
      rw [hs] at hf
      obtain ⟨new, h1, h2, h3, h4⟩ := ih fvs (i + 1) _ res h' hwf' hlen' hty' hemb' _ tags hf
      have hmaptag : (nested.map (fun nf => ({ nf with index := i :: nf.index } : SField))).map (·.tag) = t1 := by
        rw [hrs.tags]; simp
      refine ⟨nested.map (fun nf => { nf with index := i :: nf.index }) ++ new, by rw [h1]; simp, ?_, ?_, ?_⟩
      · rw [h2, List.map_append, hmaptag]; simp
      · intro f hfm
        rcases List.mem_append.1 hfm with hfm | hfm
        · obtain ⟨nf, _, rfl⟩ := List.mem_map.1 hfm
          simp
        · exact h3 f hfm
      · intro hnd f hfm
        rw [List.map_append, hmaptag, List.nodup_append] at hnd
        obtain ⟨hnd1, hnd2, hdisj⟩ := hnd
        rcases List.mem_append.1 hfm with hfm | hfm
        · obtain ⟨nf, hnf, rfl⟩ := List.mem_map.1 hfm
          obtain ⟨fvv, e1, e2⟩ := hrs.vals (by rw [← hrs.tags]; exact hnd1) nf hnf
          refine ⟨0, nf.index, fv, fvv, rfl, by simp, ?_, ?_⟩
          · rw [hfbi _ (hrs.idx nf hnf)]; exact e1
          · rw [List.findSome?_cons, hv, e2]
        · obtain ⟨j, rest', x, fvv, e1, e2, e3, e4⟩ := h4 hnd2 f hfm
          refine ⟨j + 1, rest', x, fvv, by rw [e1]; congr 1; omega, by simpa using e2, e3, ?_⟩
          have hnot : f.tag ∉ t1 := by
            intro hin
            exact hdisj _ hin _ (List.mem_map_of_mem (f := (·.tag)) hfm) rfl
          rw [List.findSome?_cons, hv, valueByTag_none_of_not_mem C tt f.tag k w t1 htw hnot]
          exact e4
    simp only [fieldsLoop] at h
    by_cases hA : (fd.anon && fd.tag.size == 0) = true
    · simp only [hA, if_true] at h
      simp only [Bool.and_eq_true, beq_iff_eq] at hA
      have htag0 : (fd.tag.size != 0) = false := by simp [hA.2]
      by_cases hexp : fd.exported = true
      · simp only [hexp, Bool.not_true, Bool.false_eq_true, if_false] at h
        by_cases hkp : (tt.get fd.ty).kind = .ptr
        · -- pointer field
          have hkp' : ((tt.get fd.ty).kind == Kind.ptr) = true := by simp [hkp]
          simp only [hkp', if_true] at h
          have hcond := hembfd hA.1 hexp hA.2 hkp
          rcases hfvwf.ptr_inv (by rw [hfvty]; exact hkp) with ⟨hd, rfl⟩ | ⟨hd, q, rfl, hqt, hqwf⟩
          · -- nil: `tagsOfVal` fails
            have : tovStep C tt k (some l0) (fd, GoVal.ptr hd none) = none := by
              simp [tovStep, htag0, hA.1, hexp]
            rw [this, tovStep_foldl_none] at hf; cases hf
          · have hqt' : q.tid = (tt.get fd.ty).elem := by rw [hqt, hfvty]
            by_cases hk : (tt.get (tt.get fd.ty).elem).kind = .struct
            · have hk' : ((tt.get (tt.get fd.ty).elem).kind != Kind.struct) = false := by simp [hk]
              simp only [hk', Bool.false_eq_true, if_false] at h
              obtain ⟨hw, fsw, rfl, _⟩ := hqwf.struct_inv (by rw [hqt']; exact hk)
              cases hrc : recur (tt.get fd.ty).elem with
              | error e => simp [hrc] at h
              | ok nested =>
                simp only [hrc] at h
                cases htq : tagsOfVal C tt k (.struct hw fsw) with
                | none =>
                  have : tovStep C tt k (some l0) (fd, GoVal.ptr hd (some (.struct hw fsw))) = none := by
                    simp [tovStep, htag0, hA.1, hexp, htq]
                  rw [this, tovStep_foldl_none] at hf; cases hf
                | some t1 =>
                  refine embCase nested (.struct hw fsw) t1 h (hrec _ _ hrc hw fsw hqwf hqt' t1 htq) htq ?_ ?_ ?_
                  · simp [tovStep, htag0, hA.1, hexp, htq]
                  · intro t; simp [vbtStep, htag0, hA.1, hexp]
                  · intro idx hne
                    cases idx with
                    | nil => exact absurd rfl hne
                    | cons j r => rfl
            · have hk' : ((tt.get (tt.get fd.ty).elem).kind != Kind.struct) = true := by simp [hk]
              simp only [hk', if_true] at h
              have hnone : tagsOfVal C tt k q = none :=
                tagsOfVal_none_of_kind hqwf (by rw [hqt']; exact hk) (by rw [hqt']; exact hcond.1)
                  (by rw [hqt']; exact hcond.2) k
              have : tovStep C tt k (some l0) (fd, GoVal.ptr hd (some q)) = none := by
                simp [tovStep, htag0, hA.1, hexp, hnone]
              rw [this, tovStep_foldl_none] at hf; cases hf
        · -- not a pointer field
          have hkp' : ((tt.get fd.ty).kind == Kind.ptr) = false := by simp [hkp]
          simp only [hkp', Bool.false_eq_true, if_false] at h
          by_cases hk : (tt.get fd.ty).kind = .struct
          · have hk' : ((tt.get fd.ty).kind != Kind.struct) = false := by simp [hk]
            simp only [hk', Bool.false_eq_true, if_false] at h
            obtain ⟨hw, fsw, rfl, _⟩ := hfvwf.struct_inv (by rw [hfvty]; exact hk)
            cases hrc : recur fd.ty with
            | error e => simp [hrc] at h
            | ok nested =>
              simp only [hrc] at h
              cases htq : tagsOfVal C tt k (.struct hw fsw) with
              | none =>
                have : tovStep C tt k (some l0) (fd, GoVal.struct hw fsw) = none := by
                  simp [tovStep, htag0, hA.1, hexp, htq]
                rw [this, tovStep_foldl_none] at hf; cases hf
              | some t1 =>
                refine embCase nested (.struct hw fsw) t1 h (hrec _ _ hrc hw fsw hfvwf hfvty t1 htq) htq ?_ ?_ ?_
                · simp [tovStep, htag0, hA.1, hexp, htq]
                · intro t; simp [vbtStep, htag0, hA.1, hexp]
                · intro idx hne; exact fbi_struct_first hw fsw idx hne
          · have hk' : ((tt.get fd.ty).kind != Kind.struct) = true := by simp [hk]
            simp only [hk', if_true] at h
            -- the value is neither a struct nor a pointer node
            cases hfvwf with
            | struct hd fs hks _ _ _ => exact absurd (by rw [← hfvty]; exact hks) hk
            | ptrNil hd hkk => exact absurd (by rw [← hfvty]; exact hkk) hkp
            | ptr hd p hkk _ _ => exact absurd (by rw [← hfvty]; exact hkk) hkp
            | _ =>
              refine skipCase h ?_ ?_
              · simp [tovStep, htag0, hA.1, hexp]
              · intro t; simp [vbtStep, htag0, hA.1, hexp]
      · have hexp' : fd.exported = false := by simpa using hexp
        simp only [hexp', Bool.not_false, if_true] at h
        refine skipCase h ?_ ?_
        · simp [tovStep, htag0, hexp']
        · intro t; simp [vbtStep, htag0, hexp']
    · simp only [hA, Bool.false_eq_true, if_false] at h
      by_cases htag : fd.tag.size = 0
      · simp only [htag, beq_self_eq_true, if_true] at h
        have hanon : fd.anon = false := by
          cases ha : fd.anon with
          | false => rfl
          | true => exact absurd (by simp [ha, htag]) hA
        refine skipCase h ?_ ?_
        · simp [tovStep, htag, hanon]
        · intro t; simp [vbtStep, htag, hanon]
      · have htag' : (fd.tag.size == 0) = false := by simpa using htag
        have htag'' : (fd.tag.size != 0) = true := by simpa using htag
        simp only [htag', Bool.false_eq_true, if_false] at h
        by_cases hexp : fd.exported = true
        · simp only [hexp, Bool.not_true, Bool.false_eq_true, if_false] at h
          cases hp : parseTag C fd.tag with
          | error e => simp [hp] at h
          | ok r =>
            obtain ⟨name, om⟩ := r
            simp only [hp] at h
            have hs : tovStep C tt k (some l0) (fd, fv) = some (l0 ++ [name]) := by
              simp [tovStep, htag'', hp, hexp]
            rw [hs] at hf
            obtain ⟨new, h1, h2, h3, h4⟩ := ih fvs (i + 1) _ res h hwf' hlen' hty' hemb' _ tags hf
            refine ⟨{ name := fd.name, tag := name, omitEmpty := om, index := [i] } :: new, by rw [h1]; simp,
              by rw [h2]; simp, ?_, ?_⟩
            · intro f hfm
              rcases List.mem_cons.1 hfm with rfl | hfm
              · simp
              · exact h3 f hfm
            · intro hnd f hfm
              rw [List.map_cons, List.nodup_cons] at hnd
              rcases List.mem_cons.1 hfm with rfl | hfm
              · refine ⟨0, [], fv, fv, rfl, by simp, rfl, ?_⟩
                rw [List.zip_cons_cons, List.findSome?_cons]
                simp [vbtStep, htag'', hp, hexp]
              · obtain ⟨j, rest', x, fvv, e1, e2, e3, e4⟩ := h4 hnd.2 f hfm
                refine ⟨j + 1, rest', x, fvv, by rw [e1]; congr 1; omega, by simpa using e2, e3, ?_⟩
                have hne : (name == f.tag) = false := by
                  have : name ≠ f.tag := fun e => hnd.1 (e ▸ List.mem_map_of_mem (f := (·.tag)) hfm)
                  simpa using this
                rw [List.zip_cons_cons, List.findSome?_cons]
                simp only [vbtStep, htag'', hp, hne, Bool.false_and, if_true, Bool.false_eq_true, if_false]
                exact e4
        · have hexp' : fd.exported = false := by simpa using hexp
          simp [hexp'] at h

/-- the search by tag against `getStructFields`, on a well-formed struct value -/
theorem getStructFields_rowSpec (C : Cls) (tt : TypeTable) (hemb : embPtrOK tt = true) :
    ∀ (n : Nat) (visiting : List Nat) (tid : Nat) (fields : List SField),
      getStructFields C tt n visiting tid = .ok fields →
      ∀ (k : Nat) (hw : VH) (fsw : List GoVal), ValWF tt (.struct hw fsw) → hw.t = tid →
      ∀ tags, tagsOfVal C tt k (.struct hw fsw) = some tags → RowSpec C tt k fields (.struct hw fsw) tags := by
  intro n
  induction n with
  | zero => intro visiting tid fields h; simp [getStructFields] at h
  | succ n ih =>
    intro visiting tid fields h k hw fsw hwf htid tags htags
    cases k with
    | zero => simp [tagsOfVal] at htags
    | succ k =>
      simp only [getStructFields] at h
      split at h
      · cases h
      · rw [tagsOfVal_struct] at htags
        cases hwf with
        | struct _ _ hk hlen hty hwfs =>
          subst htid
          obtain ⟨new, h1, h2, h3, h4⟩ := fieldsLoop_rowSpec C tt k _
            (fun stid nested hr hw' fsw' hwf' ht' tags' htg' => ih _ stid nested hr k hw' fsw' hwf' ht' tags' htg')
            (tt.get hw.t).fields fsw 0 [] fields h hwfs hlen.symm
            (fun j fd fv h1 h2 => hty j fv fd h2 h1)
            (fun fd hfd ha he ht hkp => embPtrOK_field hemb hw.t fd hfd ha he ht hkp) [] tags htags
          simp only [List.nil_append] at h1 h2
          subst h1
          refine ⟨h2, h3, ?_⟩
          intro hnd f hf
          obtain ⟨j, rest, x, fv, e1, e2, e3, e4⟩ := h4 hnd f hf
          refine ⟨fv, ?_, ?_⟩
          · rw [e1, fbi_struct_cons]
            simp only [Nat.zero_add, e2]
            exact e3
          · rw [valueByTag_struct]; exact e4

end Sqlair
