/-
  L5Sound/General: the general clause of C11 (what the checker evaluates at the end of a
  history whose handles were not all dropped): right after a `gc`, no driver statement has
  two `close` events and the open driver statements are at most the cached pairs.
-/
import SqlairProofs.L5Sound.CloseOut

namespace Sqlair.Cache

theorem l5s_lookup2_of_mem {st : St} (hi : Inv st) {s d id : Nat} {row : List (Nat × Nat)}
    (hrow : (s, row) ∈ st.stmtDB) (hid : (d, id) ∈ row) : lookup2 st.stmtDB s d = some id := by
  rw [lookup2_eq, alook_of_mem_nodup hi.maps.sKeys_nodup hrow]
  exact alook_of_mem_nodup (hi.maps.row_nodup (s, row) hrow) hid

/-- at a fixpoint of the collection, in a state of a sequential history, no evicted
    statement is still waiting for its finalizer -/
theorem l5s_fixpoint_finCount {st : St} (hs : L5sSeq st) (he : enabledFinalizers st = []) : finCount st.ds = 0 := by
  have hi := hs.reach.inv
  unfold enabledFinalizers at he
  simp only [List.append_eq_nil_iff, List.map_eq_nil_iff] at he
  obtain ⟨⟨he1, _⟩, _⟩ := he
  unfold finCount
  rw [List.count_eq_zero]
  intro hm
  obtain ⟨x, hx, hfin⟩ := List.mem_map.1 hm
  have hnot := List.filter_eq_nil_iff.1 he1 x hx
  simp only [hfin, Bool.true_and, Bool.not_eq_true', Bool.not_eq_false] at hnot
  unfold St.dsReachable at hnot
  simp only [Bool.or_eq_true] at hnot
  rcases hnot with (hc | ho) | hit
  · unfold St.inCache at hc
    obtain ⟨p, hp, hr⟩ := List.any_eq_true.1 hc
    obtain ⟨e, hem, hee⟩ := List.any_eq_true.1 hr
    simp only [beq_iff_eq] at hee
    have hl : lookup2 st.stmtDB p.1 e.1 = some x.id :=
      l5s_lookup2_of_mem hi (row := p.2) hp (by rw [← hee]; exact hem)
    obtain ⟨y, hy, _, _, hyf⟩ := hi.cache.ok _ _ _ hl
    rw [hi.dsOK.ids.get_of_mem hx] at hy
    cases hy
    rw [hfin] at hyf; cases hyf
  · unfold St.opHolds at ho
    obtain ⟨p, hp, hh⟩ := List.any_eq_true.1 ho
    rcases hs.idle p hp with h | h <;> simp [h] at hh
  · unfold St.iterHolds at hit
    rw [hs.noIter] at hit
    simp at hit

theorem l5s_filter_length_le {α : Type} (p q : α → Bool) : ∀ (l : List α), (∀ a ∈ l, p a = true → q a = true) →
    (l.filter p).length ≤ (l.filter q).length := by
  intro l
  induction l with
  | nil => intro _; exact Nat.le_refl _
  | cons a l ih =>
    intro h
    have ih' := ih (fun b hb => h b (List.mem_cons_of_mem _ hb))
    have ha := h a (List.mem_cons_self ..)
    rw [List.filter_cons, List.filter_cons]
    cases hp : p a with
    | false =>
      simp only [Bool.false_eq_true, if_false]
      split
      · simp only [List.length_cons]; omega
      · exact ih'
    | true =>
      rw [ha hp]
      simp only [if_true, List.length_cons]
      omega

/-- without open iterators, a driver statement without `close` event is one on which `Close`
    was not called -/
theorem l5s_openStmts_le {st : St} (hs : L5sSeq st) : l5s_openStmts st ≤ openCount st := by
  have hi := hs.reach.inv
  unfold l5s_openStmts openCount
  apply l5s_filter_length_le
  intro x hx hc
  simp only [beq_iff_eq] at hc
  cases hcc : x.closeCalled with
  | false => rfl
  | true =>
    exfalso
    have hg := hi.dsOK.ids.get_of_mem hx
    have hdc : x.driverClosed = true := by
      cases hdc : x.driverClosed with
      | true => rfl
      | false =>
        obtain ⟨hd, hm⟩ := hi.iters.waiting x.id x hg hcc hdc
        rw [hs.noIter] at hm; simp at hm
    have hm := hi.log.logged x.id x hg hdc
    rw [l5s_closes_eq_count] at hc
    exact absurd hm (List.count_eq_zero.1 hc)

theorem l5s_foldl_append_length {α β : Type} (f : α → List β) : ∀ (l : List α) (acc : List β),
    (l.foldl (fun acc a => acc ++ f a) acc).length = acc.length + (l.map fun a => (f a).length).sum := by
  intro l
  induction l with
  | nil => intro acc; simp
  | cons a l ih =>
    intro acc
    rw [List.foldl_cons, ih, List.length_append, List.map_cons, List.sum_cons]
    omega

theorem l5s_filterMap_length {α β : Type} (f : α → Option β) : ∀ (l : List α), (∀ a ∈ l, (f a).isSome) →
    (l.filterMap f).length = l.length := by
  intro l
  induction l with
  | nil => intro _; rfl
  | cons a l ih =>
    intro h
    have ha := h a (List.mem_cons_self ..)
    obtain ⟨b, hb⟩ := Option.isSome_iff_exists.1 ha
    rw [List.filterMap_cons, hb]
    simp only [List.length_cons]
    rw [ih (fun c hc => h c (List.mem_cons_of_mem _ hc))]

/-- the cached pairs are the cache entries -/
theorem l5s_pairs_length {st : St} (hi : Inv st) : st.pairs.length = entryCount st := by
  unfold St.pairs entryCount
  have := l5s_foldl_append_length
    (fun (p : Nat × List (Nat × Nat)) => p.2.filterMap fun (e : Nat × Nat) => (st.getDS e.2).map fun x => (p.1, e.1, x.sql))
    st.stmtDB []
  simp only [List.length_nil, Nat.zero_add] at this
  rw [this]
  congr 1
  apply List.map_congr_left
  intro p hp
  apply l5s_filterMap_length
  intro e he
  have hl := l5s_lookup2_of_mem hi (s := p.1) (row := p.2) hp (d := e.1) (id := e.2) he
  obtain ⟨y, hy, _⟩ := hi.cache.ok _ _ _ hl
  rw [getDS_eq, hy]
  rfl

theorem l5s_doubleClose_zero {st : St} (hr : Reachable st) : l5s_doubleClose st = 0 := by
  unfold l5s_doubleClose
  rw [List.length_eq_zero_iff, List.filter_eq_nil_iff]
  intro x _
  rw [l5s_closes_eq_count]
  have := hr.inv.log.close1 x.id
  simp only [decide_eq_true_eq]
  omega

/-- in a state of a sequential history in which no finalizer is enabled -/
theorem l5s_fixpoint_general {st : St} (hs : L5sSeq st) (he : enabledFinalizers st = []) :
    l5s_doubleClose st = 0 ∧ l5s_openStmts st ≤ st.pairs.length := by
  refine ⟨l5s_doubleClose_zero hs.reach, ?_⟩
  have h1 := l5s_openStmts_le hs
  have h2 := open_bound hs.reach (by
    intro p hp
    unfold Op.isPrepared
    rcases hs.idle p hp with h | h <;> rw [h])
  have h3 := l5s_fixpoint_finCount hs he
  rw [l5s_pairs_length hs.reach.inv]
  omega

end Sqlair.Cache
