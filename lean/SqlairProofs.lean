import SqlairModel
import SqlairProofs.Parser.Defs
