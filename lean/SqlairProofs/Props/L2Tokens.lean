/-
  Props/L2Tokens: the token-scanning predicates `holdsC03` / `holdsC05` of `Spec/L2.lean`
  under the guards the driver uses (`cleanForTokens segs`, `tagsClean tt`).

  PART 1 (findings).  The driver's guards are NOT enough: each theorem `…_false_alarm_…`
  below is a kernel-checked statement / type table for which `cleanForTokens segs = true`,
  `tagsClean tt = true`, the model prepares and binds, and the predicate is FALSE of the
  model's own observation - a false alarm of the harness on a correct implementation.  The
  first four are read by the reference parser from a query text (`…_parsed`).
  Every one of them is excluded by `tokensGuards` (`L2Sound/Tokens.lean`).

  PART 2.  Under the guard: the mode half of `holdsC05` (`holdsC05_mode_model`) and the names
  half of `holdsC03` (`holdsC03_names_model_partial`) are theorems of the model.  The
  substring-scan halves are not proved (see the end of the file).
-/
import SqlairProofs.L2Sound.Tokens
import SqlairProofs.Props.Parser

namespace Sqlair

namespace L2Tok

def C : Cls := PrepExample.C

/-- `type M map[string]string` -/
def ttM : TypeTable := #[
  { kind := .map, kindStr := "map", name := bs "M", key := 1, elem := 1 },
  { kind := .string, kindStr := "string", name := #[] } ]

def byp (s : String) : OSeg := { kind := .bypass, raw := bs s }
def outQ : OSeg := { kind := .output, raw := bs "&Q.*", types := [{ ty := bs "Q", member := bs "*" }] }
def slS : OSeg := { kind := .slice, raw := bs "$S[:]", types := [{ ty := bs "S", member := #[] }] }
def emptyS : GoVal := .slice { t := 1, zero := false, r := "[S]" } []

/-- the nodes the reference parser reads in `q` (ASCII classifiers) -/
def nodesOf (q : String) : Option (List OSeg) :=
  match parse (asciiEnv q) with
  | .ok ms => some (ms.map (Seg.toOSeg (Bytes.ofString q)))
  | .error _ => none

/-- the model's observation of a run, if the model prepares and binds -/
def obsOf (tt : TypeTable) (segs : List OSeg) (samples : List (Option Nat)) (args : List GoVal) : Option BindObs :=
  match (runModel C tt segs samples args).bind with
  | .ok pq => some (modelBindObs pq)
  | .error _ => none

/-! ### (A) a generated name completed across the border of two texts -/

/-- `SELECT @sqlair&Q.* FROM t` with `type Q struct { F string "db:_9" }` -/
def segsA1 : List OSeg := [byp "SELECT @sqlair", outQ, byp " FROM t"]
def pqA1 : Primed :=
  { pieces := [.text (bs "SELECT @sqlair"), .outputs 0 [bs "_9"], .text (bs " FROM t")], params := [],
    outputs := [.field 0 (bs "Q") { name := bs "F", tag := bs "_9", omitEmpty := false, index := [0] }] }

/-- `SELECT x AS _sqlair&Q.* FROM t` with the tag `_7` -/
def segsA2 : List OSeg := [byp "SELECT x AS _sqlair", outQ, byp " FROM t"]
def pqA2 : Primed :=
  { pieces := [.text (bs "SELECT x AS _sqlair"), .outputs 0 [bs "_7"], .text (bs " FROM t")], params := [],
    outputs := [.field 0 (bs "Q") { name := bs "F", tag := bs "_7", omitEmpty := false, index := [0] }] }

/-- `SELECT @sqlair$S[:]_9 FROM t` with an EMPTY slice: the expansion is empty and glues the
    two bypass chunks together -/
def segsA3 : List OSeg := [byp "SELECT @sqlair", slS, byp "_9 FROM t"]
def pqA3 : Primed :=
  { pieces := [.text (bs "SELECT @sqlair"), .inputs 0 0, .text (bs "_9 FROM t")], params := [], outputs := [] }

/-- `SELECT x AS _sqlair$S[:]_3 FROM t` with an empty slice -/
def segsA4 : List OSeg := [byp "SELECT x AS _sqlair", slS, byp "_3 FROM t"]
def pqA4 : Primed :=
  { pieces := [.text (bs "SELECT x AS _sqlair"), .inputs 0 0, .text (bs "_3 FROM t")], params := [], outputs := [] }

end L2Tok

open L2Tok

/-- FALSE ALARM of `holdsC03` under the driver's guards: bypass text ending in `@sqlair`
    followed by an output column whose db tag is `_9`.  SQL `SELECT @sqlair_9 AS _sqlair_0 FROM t`,
    no parameters, "placeholder" 9. -/
theorem c03_false_alarm_tag_completes :
    (∃ tes, bindTypes C (l2sTagTT "_9") segsA1 [some 0] = .ok tes ∧
      bindInputs (l2sTagTT "_9") tes [] = .ok pqA1) ∧
    renderSQL pqA1.pieces = bs "SELECT @sqlair_9 AS _sqlair_0 FROM t" ∧
    cleanForTokens segsA1 = true ∧ tagsClean (l2sTagTT "_9") = true ∧
    holdsC03 segsA1 (modelBindObs pqA1) = false ∧
    tokensGuards (l2sTagTT "_9") segsA1 = false :=
  ⟨⟨_, by rfl, by rfl⟩, by decide +kernel, by decide +kernel, by decide +kernel, by decide +kernel,
    by decide +kernel⟩

/-- FALSE ALARM of `holdsC05`: bypass text ending in ` AS _sqlair` followed by an output
    column whose db tag is `_7`: aliases read `[7, 0]` -/
theorem c05_false_alarm_tag_completes :
    (∃ tes, bindTypes C (l2sTagTT "_7") segsA2 [some 0] = .ok tes ∧
      bindInputs (l2sTagTT "_7") tes [] = .ok pqA2) ∧
    renderSQL pqA2.pieces = bs "SELECT x AS _sqlair_7 AS _sqlair_0 FROM t" ∧
    cleanForTokens segsA2 = true ∧ tagsClean (l2sTagTT "_7") = true ∧
    holdsC05 segsA2 (modelBindObs pqA2) = false ∧
    tokensGuards (l2sTagTT "_7") segsA2 = false :=
  ⟨⟨_, by rfl, by rfl⟩, by decide +kernel, by decide +kernel, by decide +kernel, by decide +kernel,
    by decide +kernel⟩

/-- FALSE ALARM of `holdsC03`: an EMPTY slice between `@sqlair` and `_9`; no db tag, no column
    name and no map key is involved at all -/
theorem c03_false_alarm_empty_slice :
    (∃ tes, bindTypes C L2sEx.tt segsA3 [some 1] = .ok tes ∧ bindInputs L2sEx.tt tes [emptyS] = .ok pqA3) ∧
    renderSQL pqA3.pieces = bs "SELECT @sqlair_9 FROM t" ∧
    cleanForTokens segsA3 = true ∧ tagsClean L2sEx.tt = true ∧
    holdsC03 segsA3 (modelBindObs pqA3) = false ∧
    tokensGuards L2sEx.tt segsA3 = false :=
  ⟨⟨_, by rfl, by rfl⟩, by decide +kernel, by decide +kernel, by decide +kernel, by decide +kernel,
    by decide +kernel⟩

/-- FALSE ALARM of `holdsC05`: an empty slice between ` AS _sqlair` and `_3`: an alias in a
    statement without output expression -/
theorem c05_false_alarm_empty_slice :
    (∃ tes, bindTypes C L2sEx.tt segsA4 [some 1] = .ok tes ∧ bindInputs L2sEx.tt tes [emptyS] = .ok pqA4) ∧
    renderSQL pqA4.pieces = bs "SELECT x AS _sqlair_3 FROM t" ∧
    cleanForTokens segsA4 = true ∧ tagsClean L2sEx.tt = true ∧
    holdsC05 segsA4 (modelBindObs pqA4) = false ∧
    tokensGuards L2sEx.tt segsA4 = false :=
  ⟨⟨_, by rfl, by rfl⟩, by decide +kernel, by decide +kernel, by decide +kernel, by decide +kernel,
    by decide +kernel⟩

/-- the four node lists above are what the reference parser reads in a query text: these
    false alarms need no hand-made nodes -/
theorem false_alarms_parsed :
    nodesOf "SELECT @sqlair&Q.* FROM t" = some segsA1 ∧
    nodesOf "SELECT x AS _sqlair&Q.* FROM t" = some segsA2 ∧
    nodesOf "SELECT @sqlair$S[:]_9 FROM t" = some segsA3 ∧
    nodesOf "SELECT x AS _sqlair$S[:]_3 FROM t" = some segsA4 :=
  ⟨by decide +kernel, by decide +kernel, by decide +kernel, by decide +kernel⟩

/-! ### (B) further false alarms, on node lists (the nodes are the implementation's, the
  predicates are stated for all node lists; the parser does not produce these) -/

/-- map key `_9` after `@sqlair` (like (A) with a map instead of a tag) -/
def segsB1 : List OSeg := [byp "SELECT @sqlair",
  { kind := .output, raw := bs "&M._9", types := [{ ty := bs "M", member := bs "_9" }] }]

/-- two adjacent bypass nodes `@sqlair`, `_9` -/
def segsB2 : List OSeg := [byp "SELECT @sqlair", byp "_9"]

/-- a node whose raw text does not show its member name: `cleanForTokens` looks for `sqlair_`
    in the RAW text only -/
def segsB3 : List OSeg := [byp "SELECT ",
  { kind := .output, raw := #[], types := [{ ty := bs "M", member := bs "@sqlair_5" }] }]

/-- an explicit column ending in `*` -/
def segsB4 : List OSeg := [byp "SELECT ",
  { kind := .output, raw := bs "a* AS &M.x", cols := [{ table := #[], column := bs "a*", func := false }],
    types := [{ ty := bs "M", member := bs "x" }] }]

/-- an empty map key after a bypass chunk ending in `*` -/
def segsB5 : List OSeg := [byp "SELECT *",
  { kind := .output, raw := bs "&M.", types := [{ ty := bs "M", member := #[] }] }]

/-- an output node without types and columns: no output column, `hasOutputSeg` all the same
    (the mode half of `holdsC05`, which is NOT guarded by `cleanForTokens`) -/
def segsB6 : List OSeg := [byp "SELECT 1", { kind := .output, raw := #[] }]

theorem c03_false_alarms_nodes :
    (obsOf ttM segsB1 [some 0] []).map (·.sql) = some (bs "SELECT @sqlair_9 AS _sqlair_0") ∧
    (obsOf ttM segsB1 [some 0] []).map (holdsC03 segsB1) = some false ∧
    cleanForTokens segsB1 = true ∧ tokensGuards ttM segsB1 = false ∧
    (obsOf ttM segsB2 [] []).map (·.sql) = some (bs "SELECT @sqlair_9") ∧
    (obsOf ttM segsB2 [] []).map (holdsC03 segsB2) = some false ∧
    cleanForTokens segsB2 = true ∧ tokensGuards ttM segsB2 = false ∧
    (obsOf ttM segsB3 [some 0] []).map (·.sql) = some (bs "SELECT @sqlair_5 AS _sqlair_0") ∧
    (obsOf ttM segsB3 [some 0] []).map (holdsC03 segsB3) = some false ∧
    cleanForTokens segsB3 = true ∧ tokensGuards ttM segsB3 = false ∧ tagsClean ttM = true := by
  decide +kernel

theorem c05_false_alarms_nodes :
    (obsOf ttM segsB4 [some 0] []).map (·.sql) = some (bs "SELECT a* AS _sqlair_0") ∧
    (obsOf ttM segsB4 [some 0] []).map (holdsC05 segsB4) = some false ∧
    cleanForTokens segsB4 = true ∧ tokensGuards ttM segsB4 = false ∧
    (obsOf ttM segsB5 [some 0] []).map (·.sql) = some (bs "SELECT * AS _sqlair_0") ∧
    (obsOf ttM segsB5 [some 0] []).map (holdsC05 segsB5) = some false ∧
    cleanForTokens segsB5 = true ∧ tokensGuards ttM segsB5 = false ∧
    (obsOf ttM segsB6 [] []).map (·.sql) = some (bs "SELECT 1") ∧
    (obsOf ttM segsB6 [] []).map (·.mode) = some "exec" ∧
    (obsOf ttM segsB6 [] []).map (holdsC05 segsB6) = some false ∧
    cleanForTokens segsB6 = true ∧ tokensGuards ttM segsB6 = false ∧ outputsTyped segsB6 = false := by
  decide +kernel

/-! ### what is NOT a false alarm: the last conjunct of `holdsC05` looks for
  `c.str ++ " AS _sqlair_"`; the model prints `newOutputColumn c.tableName c.column`, which is
  `c.str` (function call, bare column, `table.column`) -/

theorem c05_explicit_column_text (c : Col) (l : Loc) : (newOutputColumn c.tableName c.column l).1 = c.str := by
  unfold newOutputColumn Col.tableName Col.str
  by_cases hf : c.func = true
  · simp [hf]
  · by_cases ht : c.table.size = 0 <;> simp [hf, ht]

/-! the guard is not vacuous: the fixtures of `Props/L2Sound.lean` and the explicit-column
  statement `SELECT t.c AS &M.x, f(*) AS &M.y` pass it, and the predicates hold -/

def segsOK : List OSeg := [byp "SELECT ",
  { kind := .output, raw := bs "t.c AS &M.x", cols := [{ table := bs "t", column := bs "c", func := false }],
    types := [{ ty := bs "M", member := bs "x" }] }, byp " FROM t WHERE a=",
  { kind := .member, raw := bs "$M.k", types := [{ ty := bs "M", member := bs "k" }] }]

def argM : GoVal := .map { t := 0, zero := false, r := "map" } (some [(bs "k", .leaf { t := 1, zero := false, r := "v" })])

example : tokensGuards L2sEx.tt L2sEx.segsIn = true ∧ tokensGuards (l2sTagTT "col") l2sTagSegs = true ∧
    tokensGuards ttM segsOK = true ∧
    (obsOf ttM segsOK [some 0] [argM]).map (·.sql) = some (bs "SELECT t.c AS _sqlair_0 FROM t WHERE a=@sqlair_0") ∧
    (obsOf ttM segsOK [some 0] [argM]).map (holdsC05 segsOK) = some true ∧
    holdsC05 L2sEx.segsIn (modelBindObs L2sEx.pqIn) = true ∧
    holdsC03 l2sTagSegs (modelBindObs (l2sTagPq "col")) = true ∧
    holdsC05 l2sTagSegs (modelBindObs (l2sTagPq "col")) = true := by decide +kernel

/-! (`holdsC03` of an observation WITH parameters is not evaluated here: `paramNum` is built
  from `String.startsWith` / `String.drop` / `String.toNat?`, which the kernel does not
  unfold; the false alarms above have no parameters, so their `holdsC03 = false` is decided.) -/

/-! ## PART 2: the halves that do not scan the text -/

-- `holdsC05mode` (the mode half of `holdsC05`) is defined in `SqlairModel/Spec/L2Tokens.lean`

/-- `holdsC05`, first conjunct, is a theorem of the model for every statement whose output
    nodes have at least one type (`outputsTyped`, part (G2) of `tokensGuards`; needed:
    `segsB6` above): the statement is run through `Query` iff it has an output node. -/
theorem holdsC05_mode_model {C : Cls} {tt : TypeTable} {segs : List OSeg} {samples : List (Option Nat)}
    {tes : List TExpr} {args : List GoVal} {pq : Primed}
    (hp : bindTypes C tt segs samples = .ok tes) (hb : bindInputs tt tes args = .ok pq)
    (hty : outputsTyped segs = true) :
    (((modelBindObs pq).mode == "query") == hasOutputSeg segs) = true := by
  have hiff := hasOutputs_iff hb
  cases hseg : hasOutputSeg segs with
  | true =>
    have hne : pq.outputs ≠ [] := hiff.2 (tok_bindTypes_output hp hty hseg)
    have : pq.outputs.isEmpty = false := by
      cases h : pq.outputs with
      | nil => exact absurd h hne
      | cons _ _ => rfl
    simp [modelBindObs, this]
  | false =>
    have : pq.outputs.isEmpty = true := by
      cases h : pq.outputs with
      | nil => rfl
      | cons x xs =>
        obtain ⟨cols, hm, _⟩ := hiff.1 (by rw [h]; simp)
        rw [tok_output_node hp hm] at hseg
        cases hseg
    simp only [modelBindObs, this, if_true]
    decide

theorem holdsC05_mode_model_guards {C : Cls} {tt : TypeTable} {segs : List OSeg} {samples : List (Option Nat)}
    {tes : List TExpr} {args : List GoVal} {pq : Primed}
    (hp : bindTypes C tt segs samples = .ok tes) (hb : bindInputs tt tes args = .ok pq)
    (hg : tokensGuards tt segs = true) :
    holdsC05mode segs (modelBindObs pq) = true :=
  holdsC05_mode_model hp hb (tok_outputsTyped_of_guards hg)

/-- non-vacuity: an exec (no output node) and a query (the `&Q.*` statement) -/
example : holdsC05mode L2sEx.segsIn (modelBindObs L2sEx.pqIn) = true :=
  holdsC05_mode_model L2sEx.prepIn L2sEx.bindIn (by decide)

example : hasOutputSeg l2sTagSegs = true ∧ (modelBindObs (l2sTagPq "col")).mode = "query" ∧
    holdsC05mode l2sTagSegs (modelBindObs (l2sTagPq "col")) = true :=
  ⟨by decide, by decide +kernel,
   holdsC05_mode_model (C := PrepExample.C) (tt := l2sTagTT "col") (samples := [some 0]) (args := [])
     (by rfl) (by rfl) (by decide)⟩

/-- not trivially true: the query statement run through `Exec` is rejected -/
example : holdsC05mode l2sTagSegs { modelBindObs (l2sTagPq "col") with mode := "exec" } = false := by
  decide +kernel

/-! ### names half of `holdsC03` -/

/-- the names half of `holdsC03`: every argument name is `sqlair_<number>`, no name twice -/
def holdsC03names (o : BindObs) : Bool :=
  let names := o.params.map (·.1)
  let nums := names.filterMap paramNum
  nums.length == names.length && names.eraseDups.length == names.length

theorem tok_eraseDups_of_nodup {α : Type} [BEq α] [LawfulBEq α] : ∀ (n : Nat) (l : List α), l.length ≤ n →
    l.Nodup → l.eraseDups = l := by
  intro n
  induction n with
  | zero =>
    intro l hl _
    cases l with
    | nil => rfl
    | cons _ _ => simp at hl
  | succ n ih =>
    intro l hl hnd
    cases l with
    | nil => rfl
    | cons a as =>
      rw [List.nodup_cons] at hnd
      have hf : as.filter (fun b => !b == a) = as := by
        rw [List.filter_eq_self]
        intro b hb
        cases hba : b == a with
        | false => rfl
        | true => rw [eq_of_beq hba] at hb; exact absurd hb hnd.1
      rw [List.eraseDups_cons, hf, ih as (by simpa using hl) hnd.2]

theorem tok_nodup_map {α β : Type} (f : α → β) (hinj : ∀ a b, f a = f b → a = b) : ∀ (l : List α),
    l.Nodup → (l.map f).Nodup := by
  intro l
  induction l with
  | nil => intro _; simp
  | cons a as ih =>
    intro h
    rw [List.nodup_cons] at h
    rw [List.map_cons, List.nodup_cons]
    refine ⟨?_, ih h.2⟩
    intro hm
    obtain ⟨b, hb, hfb⟩ := List.mem_map.1 hm
    rw [hinj b a hfb] at hb
    exact h.1 hb

/-- names half of `holdsC03` on the model's observation, for all inputs.  PARTIAL: the
    hypothesis `hnum` (the reader `paramNum` reads the number back from the name the model
    prints) is a fact about `String.startsWith` / `String.drop` / `String.toNat?` and
    `Nat.repr`, not about the model; it is NOT proved (the kernel does not even evaluate
    `paramNum "sqlair_3"`: the String functions do not unfold), so it stays a hypothesis. -/
theorem holdsC03_names_model_partial {tt : TypeTable} {tes : List TExpr} {args : List GoVal} {pq : Primed}
    (hb : bindInputs tt tes args = .ok pq)
    (hnum : ∀ n : Nat, paramNum s!"sqlair_{n}" = some n) :
    holdsC03names (modelBindObs pq) = true := by
  have hnames : (modelBindObs pq).params.map (·.1) = (pq.params.map (·.1)).map (fun n : Nat => s!"sqlair_{n}") := by
    simp only [modelBindObs, List.map_map]
    apply List.map_congr_left
    rintro ⟨n, v⟩ _
    rfl
  have hinj : ∀ a b : Nat, (s!"sqlair_{a}" : String) = s!"sqlair_{b}" → a = b := by
    intro a b h
    have := hnum a
    rw [h, hnum b] at this
    exact (Option.some.inj this).symm
  have hnd := tok_nodup_map (fun n : Nat => (s!"sqlair_{n}" : String)) hinj _ (params_nodup hb)
  have hfm : ∀ l : List Nat, (l.map (fun n : Nat => (s!"sqlair_{n}" : String))).filterMap paramNum = l := by
    intro l
    induction l with
    | nil => rfl
    | cons a as ih => rw [List.map_cons, List.filterMap_cons, hnum a]; simp only; rw [ih]
  unfold holdsC03names
  simp only [hnames, hfm, tok_eraseDups_of_nodup _ _ (Nat.le_refl _) hnd, List.length_map, beq_self_eq_true,
    Bool.and_self]

/-- non-vacuity: six parameters `sqlair_0, sqlair_2, sqlair_4, sqlair_1, sqlair_3, sqlair_5`
    (not numbered in driver order); a member and a slice input -/
example (hnum : ∀ n : Nat, paramNum s!"sqlair_{n}" = some n) :
    holdsC03names (modelBindObs BindExample.expected) = true ∧
    holdsC03names (modelBindObs L2sEx.pqIn) = true :=
  ⟨holdsC03_names_model_partial BindExample.bindInputs_example hnum,
   holdsC03_names_model_partial L2sEx.bindIn hnum⟩

example : (modelBindObs BindExample.expected).params.map (·.1) =
    ["sqlair_0", "sqlair_2", "sqlair_4", "sqlair_1", "sqlair_3", "sqlair_5"] := by decide +kernel

/-! ## what is missing

  NOT proved: under `tokensGuards tt segs`, the scanning conjuncts
  `sameSet (dedup (numbersAfter "@sqlair_" sql)) nums` of `holdsC03` and `als == List.range …`,
  `countOcc … == als.length`, `!(containsSub sql "* AS _sqlair_")`, and the explicit-column
  conjunct of `holdsC05` on `sql = renderSQL pq.pieces`.  The argument (not formalised): by (G1)
  every occurrence of the word `sqlair` in the SQL lies inside ONE generated token
  (`@sqlair_N` or ` AS _sqlair_N`: no generated fragment starts or ends with a proper part of
  the word), the byte before it tells the two kinds apart, the digits after it end at `, `,
  `)`, the end, or a bypass chunk that is non-empty and does not start with a digit
  (`cleanForTokens`), and by (G2) the byte before ` AS` is the last byte of a column name, which
  is not `*`.  The explicit-column conjunct needs only `c05_explicit_column_text` and the
  infix lemma `l2s_findFrom_isSome_of_infix`. -/

end Sqlair
