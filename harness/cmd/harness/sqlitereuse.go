package main

// Directed scenario of the SQLite layer (C17): rows are read back one by one into the SAME
// destination variable whose pointer members are still set from the row before (a pointer to
// a Scanner, a plain pointer), a NULL among them; the values read are the values inserted, as
// with hand-written database/sql reading into the same reused variable (C17n: a non-nil
// pointer to a Scanner is handed to Scan as it is, so rows share one pointee and a NULL leaves
// the old value).

import (
	"context"
	"database/sql"
	"fmt"

	"github.com/canonical/sqlair"
)

type OvNick struct {
	ID   int64           `db:"id"`
	Nick *sql.NullString `db:"nick"`
	Age  *int64          `db:"age"`
}

func sqliteReuse() []string {
	var why []string
	sqldb, err := sql.Open("sqlite3", ":memory:")
	if err != nil {
		return nil
	}
	defer sqldb.Close()
	sqldb.SetMaxOpenConns(1)
	if _, err := sqldb.Exec("CREATE TABLE tn (id integer, nick text, age integer)"); err != nil {
		return nil
	}
	db := sqlair.NewDB(sqldb)
	ctx := context.Background()
	a1, a3 := int64(31), int64(33)
	in := []OvNick{{1, &sql.NullString{String: "al", Valid: true}, &a1}, {2, nil, nil}, {3, &sql.NullString{String: "cy", Valid: true}, &a3}, {4, nil, nil}}
	ins, err := sqlair.Prepare("INSERT INTO tn (*) VALUES ($OvNick.*)", OvNick{})
	if err != nil {
		return []string{"prepare insert: " + err.Error()}
	}
	if err := db.Query(ctx, ins, in).Run(); err != nil {
		return []string{"bulk insert: " + err.Error()}
	}
	show := func(p OvNick) string {
		n, a := "NULL", "NULL"
		if p.Nick != nil {
			n = fmt.Sprintf("%s/%v", p.Nick.String, p.Nick.Valid)
		}
		if p.Age != nil {
			a = fmt.Sprint(*p.Age)
		}
		return fmt.Sprintf("%d:%s:%s", p.ID, n, a)
	}
	// hand-written database/sql, the same reused destination
	var want []OvNick
	rows, err := sqldb.Query("SELECT id, nick, age FROM tn ORDER BY id")
	if err != nil {
		return nil
	}
	var hp OvNick
	for rows.Next() {
		if err := rows.Scan(&hp.ID, &hp.Nick, &hp.Age); err != nil {
			rows.Close()
			return nil
		}
		want = append(want, hp)
	}
	rows.Close()
	sel, err := sqlair.Prepare("SELECT &OvNick.* FROM tn ORDER BY id", OvNick{})
	if err != nil {
		return []string{"prepare select: " + err.Error()}
	}
	var got []OvNick
	var p OvNick
	it := db.Query(ctx, sel).Iter()
	for it.Next() {
		if err := it.Get(&p); err != nil {
			why = append(why, "Get into a reused destination: "+err.Error())
			break
		}
		got = append(got, p)
	}
	if err := it.Close(); err != nil {
		why = append(why, "iteration: "+err.Error())
	}
	gs, ws := "", ""
	for _, x := range got {
		gs += show(x) + " "
	}
	for _, x := range want {
		ws += show(x) + " "
	}
	if gs != ws {
		why = append(why, fmt.Sprintf("rows read one by one into the same destination variable (pointer members still set from the row before): kept copies show [%s], hand-written database/sql reading into the same reused variable shows [%s]", gs, ws))
	}
	return why
}
