/-
  L4Sound: the operation proper (`l4s_mid`), by operation; its effect on the world.
-/
import SqlairProofs.L4Sound.MidWorld

namespace Sqlair.Rt

theorem l4s_mid_of_err {c : Case} {e : Err} (hq : l4s_queryErr c = some e) (td : Bool) (w1 : World) :
    l4s_mid c td w1 = l4s_midErr c e w1 := by
  unfold l4s_mid; rw [hq]

theorem l4s_mid_run {c : Case} (hq : l4s_queryErr c = none) (h : c.op = "run") (td : Bool) (w1 : World) :
    l4s_mid c td w1 = l4s_midRun (c.script td) w1 := by
  unfold l4s_mid; rw [hq]; simp only [h]

theorem l4s_mid_get {c : Case} (hq : l4s_queryErr c = none) (h : c.op = "get") (td : Bool) (w1 : World) :
    l4s_mid c td w1 = l4s_midGet c (c.script td) w1 := by
  unfold l4s_mid; rw [hq]; simp only [h]

theorem l4s_mid_getall {c : Case} (hq : l4s_queryErr c = none) (h : c.op = "getall") (td : Bool) (w1 : World) :
    l4s_mid c td w1 = l4s_midGetAll c (c.script td) w1 := by
  unfold l4s_mid; rw [hq]; simp only [h]

theorem l4s_mid_iter {c : Case} (hq : l4s_queryErr c = none) (h1 : c.op ≠ "run") (h2 : c.op ≠ "get")
    (h3 : c.op ≠ "getall") (td : Bool) (w1 : World) :
    l4s_mid c td w1 = l4s_midIter c (c.script td) w1 := by
  unfold l4s_mid; rw [hq]
  dsimp only
  split
  · exact absurd ‹_› h1
  · exact absurd ‹_› h2
  · exact absurd ‹_› h3
  · rfl

theorem l4s_midErr_iter {c : Case} (h : c.op = "iter") (e : Err) (w1 : World) :
    l4s_midErr c e w1 =
      ({ returns := (runCalls c.calls c.cancelAt 0 { hasOutputs := c.hasOutputs, err := some e } w1 c.calls).2.2 },
       (runCalls c.calls c.cancelAt 0 { hasOutputs := c.hasOutputs, err := some e } w1 c.calls).2.1) := by
  unfold l4s_midErr; simp only [h]

theorem l4s_midErr_other {c : Case} (h : c.op ≠ "iter") (e : Err) (w1 : World) :
    l4s_midErr c e w1 =
      ({ returns := [e.render], outcome := if c.dests.startsWith "outcome" then "nil" else "" }, w1) := by
  unfold l4s_midErr
  split
  · exact absurd ‹_› h
  · rfl

/-- a Query carrying an error runs nothing -/
theorem l4s_midErr_world (c : Case) (e : Err) (w1 : World) : (l4s_midErr c e w1).2 = w1 := by
  by_cases h : c.op = "iter"
  · rw [l4s_midErr_iter h, runCalls_eq_run]
    exact l4s_run_world_of_rows_none rfl _ _
  · rw [l4s_midErr_other h]

/-- the operation is complete: the result set, if any, has been closed -/
def Case.l4s_complete (c : Case) : Prop :=
  c.op = "run" ∨ c.op = "get" ∨ c.op = "getall" ∨ "close" ∈ c.calls

theorem l4s_mid_effect (c : Case) (td : Bool) (w1 : World) :
    l4s_Effect (c.script td) c.l4s_complete w1 (l4s_mid c td w1).2 := by
  cases hq : l4s_queryErr c with
  | some e => rw [l4s_mid_of_err hq, l4s_midErr_world]; exact .inl rfl
  | none =>
    by_cases h1 : c.op = "run"
    · rw [l4s_mid_run hq h1]; exact l4s_queryGet_effect _ _ _ _
    · by_cases h2 : c.op = "get"
      · rw [l4s_mid_get hq h2]; exact l4s_queryGet_effect _ _ _ _
      · by_cases h3 : c.op = "getall"
        · rw [l4s_mid_getall hq h3]; exact l4s_queryGetAllArgs_effect _ _ _ _ _
        · rw [l4s_mid_iter hq h1 h2 h3]
          have := l4s_midIter_effect c (c.script td) w1
          rcases this with h | ⟨evs, h⟩
          · exact .inl h
          · refine .inr ⟨evs, h.log, h.rows, h.none, ?_, h.most⟩
            intro hc
            apply h.bal
            rcases hc with hc | hc | hc | hc
            · exact absurd hc h1
            · exact absurd hc h2
            · exact absurd hc h3
            · exact hc

end Sqlair.Rt
