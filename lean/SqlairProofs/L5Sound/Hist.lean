/-
  L5Sound/Hist: the states of sequential histories.  `runHistory`, `runHistoryW` and
  `prepCounts` all iterate `l5s_op`; every state on the way is reachable, has no open
  iterator, and each of its Queries is either built and not yet run or finished.
-/
import SqlairProofs.L5Sound.Ops

namespace Sqlair.Cache

/-! ### the three recursions agree on the state -/

theorem l5s_runHistory_fst (h : List HOp) : ∀ (st : St) (mark : Nat) (segs : List Segment) (t : Nat),
    (runHistory h st mark segs t).1 = (l5s_final h st t).1 := by
  induction h with
  | nil => intro st mark segs t; rfl
  | cons op rest ih =>
    intro st mark segs t
    cases op <;> simp only [runHistory, l5s_final, l5s_op, l5s_gc] <;> exact ih ..

theorem l5s_runHistoryW_fst (h : List HOp) : ∀ (st : St) (t : Nat) (qs w : List (Nat × Nat × Nat)),
    (runHistoryW h st t qs w).1 = (l5s_final h st t).1 := by
  induction h with
  | nil => intro st t qs w; rfl
  | cons op rest ih =>
    intro st t qs w
    simp only [runHistoryW, l5s_final]
    exact ih ..

/-- the instrumented run ends in the state (hence with the log) of `runHistory` -/
theorem runHistoryW_state (h : List HOp) :
    (runHistoryW h {} 1 [] []).1 = (runHistory h {} 0 [] 1).1 := by
  rw [l5s_runHistoryW_fst, l5s_runHistory_fst]

theorem l5s_final_append (h1 h2 : List HOp) : ∀ (st : St) (t : Nat),
    l5s_final (h1 ++ h2) st t = l5s_final h2 (l5s_final h1 st t).1 (l5s_final h1 st t).2 := by
  induction h1 with
  | nil => intro st t; rfl
  | cons op rest ih => intro st t; simp only [List.cons_append, l5s_final]; exact ih ..

/-! ### the invariant of sequential histories -/

/-- every Query is either built and not yet run, or finished -/
def L5sIdle (st : St) : Prop := ∀ p ∈ st.ops, p.2.pc = .start ∨ p.2.pc = .done

structure L5sSeq (st : St) : Prop where
  reach : Reachable st
  idle : L5sIdle st
  noIter : st.iters = []
  oneS : 1 ≤ st.nextS
  oneD : 1 ≤ st.nextD
  boundS : ∀ s ∈ st.liveS, 1 ≤ s ∧ s < st.nextS
  boundD : ∀ d ∈ st.liveD, 1 ≤ d ∧ d < st.nextD

theorem l5s_seq_init : L5sSeq ({} : St) :=
  ⟨Reachable.init, by intro p hp; simp at hp, rfl, Nat.le_refl _, Nat.le_refl _,
    by intro s hs; simp at hs, by intro s hs; simp at hs⟩

/-- `gc` with the fuel of `runHistory`: a run of enabled finalizers up to the fixpoint -/
theorem l5s_gc_spec {st : St} (hr : Reachable st) :
    Reachable (l5s_gc st) ∧ enabledFinalizers (l5s_gc st) = [] ∧ (l5s_gc st).ops = st.ops ∧
      (l5s_gc st).liveS = st.liveS ∧ (l5s_gc st).liveD = st.liveD ∧ (l5s_gc st).iters = st.iters ∧
      (l5s_gc st).ds.length = st.ds.length := by
  have hm := gcMeasure_le st
  obtain ⟨steps, h1, h2, h3, h4, h5, h6, h7⟩ :=
    gc_spec (st.ds.length + st.stmtDB.length + st.dbStmt.length + 1) st hr.inv (by omega)
  refine ⟨?_, h2, h3, h4, h5, h6, h7⟩
  show Reachable (gc _ st)
  rw [h1]; exact hr.runs steps

theorem L5sRan.seq {st st' : St} {t : Nat} {o : Op} (hs : L5sSeq st) (hr : L5sRan st st' t o)
    (hreach : Reachable st') : L5sSeq st' := by
  refine ⟨hreach, ?_, hr.iters.trans hs.noIter, by rw [hr.nextS]; exact hs.oneS, by rw [hr.nextD]; exact hs.oneD,
    by rw [hr.liveS, hr.nextS]; exact hs.boundS, by rw [hr.liveD, hr.nextD]; exact hs.boundD⟩
  intro p hp
  rcases hr.ops.mem p hp with e | ⟨hm, _⟩
  · rw [e]; exact Or.inr rfl
  · exact hs.idle p hm

/-- running the operation with id `k`: nothing to run, or the Query `o` is run -/
theorem l5s_tail_cases {st : St} (hs : L5sSeq st) (k : Nat) :
    ((alook st.ops k = none ∨ ∃ o, alook st.ops k = some o ∧ o.pc = .done) ∧ run st (l5s_tail k) = st) ∨
    (∃ o, alook st.ops k = some o ∧ o.pc = .start ∧ L5sRan st (run st (l5s_tail k)) k o) := by
  cases ho : alook st.ops k with
  | none => exact Or.inl ⟨Or.inl rfl, l5s_tail_none ho⟩
  | some o =>
    rcases hs.idle (k, o) (alook_some_mem ho) with hpc | hpc
    · exact Or.inr ⟨o, rfl, hpc, l5s_tail_start hs.reach.inv ho hpc⟩
    · exact Or.inl ⟨Or.inr ⟨o, rfl, hpc⟩, l5s_tail_done ho hpc⟩

theorem l5s_op_run_eq (st : St) (t s d shape : Nat) :
    (l5s_op st t (.run s d shape)).1 = run ((step st (.query t s d shape)).getD st) (l5s_tail t) := by
  show run st (Step.query t s d shape :: l5s_tail t) = _
  rw [run_cons]

theorem l5s_op_runq_eq (st : St) (t q : Nat) : (l5s_op st t (.runq q)).1 = run st (l5s_tail (1000 + q)) := rfl

/-- running operation `t` after its `query` step -/
theorem l5s_query_tail_cases {st : St} (hs : L5sSeq st) (t s d shape : Nat) (st' : St)
    (he : st' = run ((step st (.query t s d shape)).getD st) (l5s_tail t)) :
    (step st (.query t s d shape) = none ∧
      (alook st.ops t = none ∨ ∃ o, alook st.ops t = some o ∧ o.pc = .done) ∧ st' = st) ∨
    (step st (.query t s d shape) = none ∧
      ∃ o, alook st.ops t = some o ∧ o.pc = .start ∧ L5sRan st st' t o) ∨
    ((step st (.query t s d shape)).isSome ∧ s ∈ st.liveS ∧ d ∈ st.liveD ∧ alook st.ops t = none ∧
      L5sRan st st' t { s := s, d := d, sql := shape }) := by
  cases hq : step st (.query t s d shape) with
  | none =>
    rw [hq, Option.getD_none] at he
    rcases l5s_tail_cases hs t with ⟨h1, h2⟩ | h
    · exact Or.inl ⟨rfl, h1, he.trans h2⟩
    · rw [← he] at h
      exact Or.inr (Or.inl ⟨rfl, h⟩)
  | some st0 =>
    rw [hq, Option.getD_some] at he
    have hi0 := inv_step hs.reach.inv _ hq
    obtain ⟨h1, h2, h3, e0⟩ := step_query hq
    refine Or.inr (Or.inr ⟨rfl, h1, h2, h3, ?_⟩)
    have ho0 : alook st0.ops t = some { s := s, d := d, sql := shape } := by
      rw [e0]; simp [alook_ainsert]
    have hr := l5s_tail_start hi0 (t := t) ho0 rfl
    rw [← he] at hr
    have hset : L5sSet st.ops st0.ops t { s := s, d := d, sql := shape } := by
      rw [e0]; exact L5sSet.ainsert _ _ _
    have e1 : st0.liveS = st.liveS := by rw [e0]
    have e2 : st0.liveD = st.liveD := by rw [e0]
    have e3 : st0.nextS = st.nextS := by rw [e0]
    have e4 : st0.nextD = st.nextD := by rw [e0]
    have e5 : st0.iters = st.iters := by rw [e0]
    have e6 : st0.ds = st.ds := by rw [e0]
    have e7 : st0.stmtDB = st.stmtDB := by rw [e0]
    have e8 : st0.dbStmt = st.dbStmt := by rw [e0]
    have e9 : st0.log = st.log := by rw [e0]
    have e10 : ∀ a b c, l5s_hit st0 a b c = l5s_hit st a b c := by
      intro a b c; unfold l5s_hit St.getDS; rw [e6, e7]
    refine ⟨hset.trans hr.ops, hr.liveS.trans e1, hr.liveD.trans e2, hr.nextS.trans e3, hr.nextD.trans e4,
      hr.iters.trans e5, ?_⟩
    have hev := hr.events
    rw [e10, e6, e7, e8, e9] at hev
    exact hev

/-- a `run` operation: ill-formed and nothing happens; or (operation id in use by a Query that
    was built and not run) that Query is run; or it builds and runs its own Query -/
theorem l5s_run_cases {st : St} (hs : L5sSeq st) (t s d shape : Nat) :
    (step st (.query t s d shape) = none ∧
      (alook st.ops t = none ∨ ∃ o, alook st.ops t = some o ∧ o.pc = .done) ∧
      (l5s_op st t (.run s d shape)).1 = st) ∨
    (step st (.query t s d shape) = none ∧
      ∃ o, alook st.ops t = some o ∧ o.pc = .start ∧ L5sRan st (l5s_op st t (.run s d shape)).1 t o) ∨
    ((step st (.query t s d shape)).isSome ∧ s ∈ st.liveS ∧ d ∈ st.liveD ∧ alook st.ops t = none ∧
      L5sRan st (l5s_op st t (.run s d shape)).1 t { s := s, d := d, sql := shape }) :=
  l5s_query_tail_cases hs t s d shape _ (l5s_op_run_eq st t s d shape)

/-! ### every operation preserves the invariant -/

theorem l5s_reach_op {st : St} (hr : Reachable st) (t : Nat) (op : HOp) : Reachable (l5s_op st t op).1 := by
  have h1 : ∀ x, Reachable ((step st x).getD st) := by
    intro x
    cases hx : step st x with
    | none => exact hr
    | some st' => exact hr.next x hx
  cases op with
  | newS => exact h1 .newS
  | newD => exact h1 .newD
  | run s d shape => exact hr.runs _
  | mkq q s d shape => exact h1 (.query (1000 + q) s d shape)
  | runq q => exact hr.runs _
  | dropS s => exact h1 (.dropS s)
  | dropD d => exact h1 (.dropD d)
  | gc => exact (l5s_gc_spec hr).1

theorem l5s_seq_op {st : St} (hs : L5sSeq st) (t : Nat) (op : HOp) : L5sSeq (l5s_op st t op).1 := by
  have hreach := l5s_reach_op hs.reach t op
  cases op with
  | newS =>
    refine ⟨hreach, hs.idle, hs.noIter, Nat.le_succ_of_le hs.oneS, hs.oneD, ?_, hs.boundD⟩
    intro s hm
    rcases List.mem_append.1 hm with hm | hm
    · have := hs.boundS s hm
      exact ⟨this.1, Nat.lt_succ_of_lt this.2⟩
    · simp only [List.mem_singleton] at hm
      subst hm
      exact ⟨hs.oneS, Nat.lt_succ_self _⟩
  | newD =>
    refine ⟨hreach, hs.idle, hs.noIter, hs.oneS, Nat.le_succ_of_le hs.oneD, hs.boundS, ?_⟩
    intro s hm
    rcases List.mem_append.1 hm with hm | hm
    · have := hs.boundD s hm
      exact ⟨this.1, Nat.lt_succ_of_lt this.2⟩
    · simp only [List.mem_singleton] at hm
      subst hm
      exact ⟨hs.oneD, Nat.lt_succ_self _⟩
  | run s d shape =>
    rcases l5s_run_cases hs t s d shape with ⟨_, _, h⟩ | ⟨_, o, _, _, h⟩ | ⟨_, _, _, _, h⟩
    · rw [h]; exact hs
    · exact h.seq hs hreach
    · exact h.seq hs hreach
  | mkq q s d shape =>
    show L5sSeq ((step st (.query (1000 + q) s d shape)).getD st)
    cases hq : step st (.query (1000 + q) s d shape) with
    | none => exact hs
    | some st0 =>
      have hr0 : Reachable st0 := hs.reach.next _ hq
      obtain ⟨_, _, _, rfl⟩ := step_query hq
      refine ⟨hr0, ?_, hs.noIter, hs.oneS, hs.oneD, hs.boundS, hs.boundD⟩
      intro p hp
      rcases mem_ainsert.1 hp with e | ⟨hm, _⟩
      · rw [e]; exact Or.inl rfl
      · exact hs.idle p hm
  | runq q =>
    rw [l5s_op_runq_eq] at hreach ⊢
    rcases l5s_tail_cases hs (1000 + q) with ⟨_, h⟩ | ⟨o, _, _, h⟩
    · rw [h]; exact hs
    · exact h.seq hs hreach
  | dropS s =>
    show L5sSeq ((step st (.dropS s)).getD st)
    cases hq : step st (.dropS s) with
    | none => exact hs
    | some st0 =>
      have hr0 : Reachable st0 := hs.reach.next _ hq
      obtain ⟨_, rfl⟩ := step_dropS hq
      refine ⟨hr0, hs.idle, hs.noIter, hs.oneS, hs.oneD, ?_, hs.boundD⟩
      intro s' hm
      exact hs.boundS s' (List.mem_filter.1 hm).1
  | dropD d =>
    show L5sSeq ((step st (.dropD d)).getD st)
    cases hq : step st (.dropD d) with
    | none => exact hs
    | some st0 =>
      have hr0 : Reachable st0 := hs.reach.next _ hq
      obtain ⟨_, rfl⟩ := step_dropD hq
      refine ⟨hr0, hs.idle, hs.noIter, hs.oneS, hs.oneD, hs.boundS, ?_⟩
      intro s' hm
      exact hs.boundD s' (List.mem_filter.1 hm).1
  | gc =>
    obtain ⟨h1, _, h3, h4, h5, h6, _⟩ := l5s_gc_spec hs.reach
    have hq := l5s_gc_quiet st
    show L5sSeq (l5s_gc st)
    refine ⟨h1, ?_, h6.trans hs.noIter, by rw [hq.nextS]; exact hs.oneS, by rw [hq.nextD]; exact hs.oneD,
      by rw [h4, hq.nextS]; exact hs.boundS, by rw [h5, hq.nextD]; exact hs.boundD⟩
    intro p hp
    rw [h3] at hp
    exact hs.idle p hp

theorem l5s_seq_final (h : List HOp) : ∀ {st : St} (_ : L5sSeq st) (t : Nat), L5sSeq (l5s_final h st t).1 := by
  induction h with
  | nil => intro st hs t; exact hs
  | cons op rest ih => intro st hs t; exact ih (l5s_seq_op hs t op) _

/-- every state of every sequential history is a reachable state of the transition system -/
theorem l5s_runHistory_reachable (h : List HOp) : Reachable (runHistory h {} 0 [] 1).1 := by
  rw [l5s_runHistory_fst]
  exact (l5s_seq_final h l5s_seq_init 1).reach

end Sqlair.Cache
