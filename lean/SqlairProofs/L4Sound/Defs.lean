/-
  L4Sound, definitions: the observation a faithful implementation (one that behaves exactly
  as the model predicts) produces for a case, and the well-formedness of cases: what the
  harness generator (`genL4` / `genL4Pair` of harness/cmd/harness/l4.go) can produce.
-/
import SqlairModel.Spec.L4

namespace Sqlair.Rt

/-- the context mark a faithful implementation hands to the driver for the case's context -/
def l4s_mark (c : Case) : String := if c.ctx == "nil" then "-" else "MARK"

/-- the context marks of the context-carrying driver calls, as the harness records them:
    one mark per prepare / exec / query event; in pair cases "kind@mark" -/
def l4s_eventCtx (c : Case) (p : Pred) : List String :=
  if c.op == "pair" then
    p.evA.map (fun k => k ++ "@" ++ "MARK-A") ++ p.evB.map (fun k => k ++ "@" ++ c.markB)
  else (p.log.filter ctxBearing).map fun _ => l4s_mark c

/-- concurrent finishers on a transaction: the model does not predict which of them reaches
    the driver (nor, hence, the finisher event and the release of the connection) -/
def Case.l4s_conc (c : Case) : Bool := c.op != "pair" && c.onTx && c.concurrent > 0

/-- the driver events of an implementation that agrees with the model.  With concurrent
    finishers the single finisher event `win` the model leaves open is put where the
    finishers run: at the end, or (transaction ended before the operation) after `begin`. -/
def l4s_events (win : String) (c : Case) (p : Pred) : List String :=
  let plog := p.log.map Ev.render
  if c.l4s_conc then
    if c.txEnd == "after" then plog ++ [win]
    else plog.take 1 ++ [win] ++ plog.drop 1
  else plog

/-- the observation of an implementation that does exactly what the model predicts; `win`
    is the finisher event of the winner among concurrent finishers (not predicted) -/
def predObsW (win : String) (c : Case) (p : Pred) : Obs :=
  { returns := p.returns, events := l4s_events win c p,
    -- the model releases the connection when it runs the finishers; concurrent finishers
    -- after the operation are not run by the model
    inUse := if c.l4s_conc && c.txEnd == "after" then p.inUse - 1 else p.inUse,
    stored := p.stored,
    appended := p.appended, outcome := p.outcome, finish := p.finish, preReturn := c.preReturn,
    -- fields the model does not produce: the values of a faithful implementation
    eventCtx := l4s_eventCtx c p,
    eventConn := (l4s_events win c p).map (fun _ => 1), openRows := 0, doubleClose := 0, closedUse := 0,
    priorKept := true, rowsFaithful := true, winners := 1 }

/-- the observation with `commit` winning among concurrent finishers -/
def predObs (c : Case) (p : Pred) : Obs := predObsW "commit" c p

/-! ### the image of the harness generator -/

def l4s_callNames : List String :=
  ["next", "get", "getoutcome", "getniloutcome", "getinvalid", "getnone", "close"]

def l4s_getDests : List String :=
  ["valid", "invalid", "none", "outcome+valid", "niloutcome+valid", "outcome", "outcome+invalid", "validmap"]

def l4s_getAllDests : List String :=
  ["valid", "validptr", "validcap", "validmap", "invalid", "none", "nonptr", "nilptr", "ptrnonslice",
   "sliceint", "sliceptrint"]

/-- exactly the pair cases `genL4Pair` produces (numbers unbounded) -/
def l4s_genPair (c : Case) : Bool :=
  c.op == "pair" && c.path == "db" &&
  (c.ctx == "marker" || c.ctx == "nil" || c.ctx == "deadline-live") &&
  (c.pairOp == "run" || c.pairOp == "get" || c.pairOp == "getall") &&
  (c.hasOutputs || c.pairOp == "run") &&
  (c.aEnd == "cancel" || c.aEnd == "deadline" || c.aEnd == "release") &&
  c.badRow.isNone && c.fetchErrAt.isNone && c.cancelAt.isNone &&
  !c.closeErr && !c.prepareErr && !c.runErr && c.txEnd == "" && c.finishers.isEmpty &&
  c.concurrent == 0 && c.dests == "" && c.calls.isEmpty && c.preCtx == "" && c.extraSets == 0 &&
  !c.fewCols && !c.otherShape && !c.beginCancel

/-- exactly the single-operation cases `genL4` produces (numbers and lengths unbounded) -/
def l4s_genSingle (c : Case) : Bool :=
  (c.path == "db" || c.path == "dbcached" || c.path == "tx" || c.path == "txcached") &&
  (c.ctx == "marker" || c.ctx == "nil" || c.ctx == "cancelled-before" || c.ctx == "cancelled-between" ||
    c.ctx == "deadline") &&
  (match c.badRow with | none => true | some b => c.hasOutputs && b < c.nrows && c.dests != "validmap") &&
  (match c.fetchErrAt with | none => true | some k => c.hasOutputs && k ≤ c.nrows) &&
  (!c.closeErr || c.hasOutputs) &&
  (if c.onTx then
     (c.txEnd == "after" || c.txEnd == "before-query" || c.txEnd == "between") &&
     !c.finishers.isEmpty && c.finishers.all (fun f => f == "commit" || f == "rollback") &&
     c.concurrent != 1
   else c.txEnd == "" && c.finishers.isEmpty && c.concurrent == 0) &&
  (c.op == "get" || c.op == "getall" || c.op == "run" || c.op == "iter") &&
  (c.preCtx == "" || ((c.preCtx == "live" || c.preCtx == "cancelled") && !(c.onTx && c.txEnd == "before-query"))) &&
  (c.extraSets == 0 || (c.hasOutputs && c.op != "iter")) &&
  (if c.op == "get" then l4s_getDests.contains c.dests && (c.dests != "validmap" || c.hasOutputs)
   else if c.op == "getall" then l4s_getAllDests.contains c.dests && (c.dests != "validmap" || c.hasOutputs)
   else c.dests == "") &&
  (if c.op == "iter" then !c.calls.isEmpty && c.calls.all l4s_callNames.contains else c.calls.isEmpty) &&
  (match c.cancelAt with
   | none => true
   | some k => c.op == "iter" && c.ctx == "marker" && c.hasOutputs && k < c.calls.length) &&
  (!c.fewCols || c.hasOutputs) &&
  (!c.otherShape || c.path.endsWith "cached" || c.preCtx == "live") &&
  (!c.beginCancel || (c.onTx && c.txEnd == "after" && c.concurrent == 0)) &&
  c.pairOp == "" && c.aEnd == ""

/-- the image of the generator -/
def l4s_genWF (c : Case) : Bool := l4s_genPair c || l4s_genSingle c

/-! ### well-formed cases -/

/-- Well-formedness of a case, much weaker than the image of the generator: the operation is
    one of the five; a pair case is not on a transaction and its B operation refers to
    outputs only if the statement has some; a case on a transaction says when the
    transaction ends, has at least one finisher (sequential or concurrent), and the Begin
    context is not cancelled when sequential finishers end the transaction before the
    operation (the harness cancels it only when they come after the operation). -/
def l4s_caseWF (c : Case) : Bool :=
  if c.op == "pair" then !c.onTx && (c.hasOutputs || (c.pairOp != "get" && c.pairOp != "getall"))
  else
    (c.op == "run" || c.op == "get" || c.op == "getall" || c.op == "iter") &&
    (!c.onTx ||
      ((c.txEnd == "after" || c.txEnd == "before-query" || c.txEnd == "between") &&
       (decide (c.concurrent > 0) || !c.finishers.isEmpty) &&
       (!c.beginCancel || c.txEnd == "after" || decide (c.concurrent > 0))))

def CaseWF (c : Case) : Prop := l4s_caseWF c = true

instance (c : Case) : Decidable (CaseWF c) := inferInstanceAs (Decidable (l4s_caseWF c = true))

end Sqlair.Rt
