#!/usr/bin/env python3
"""Confirms a seeded change (made by a sub-agent in /tmp/seed/<id>) and runs the checks against it.

  tools/seedeval.py C09 [--name variant] [--all]    # --all: run every claimed check, not only the target's
Steps: (1) in the scratch worktree: existing suite passes with the change (demo moved away); demo fails with
the change and passes without; (2) the patch and demo are stored under /verif/seeded/<name>/; (3) the patch
is applied to /repo, the check(s) run, and the patch is undone straight afterwards.
"""
import json, os, subprocess, sys, shutil, time
ENV = dict(os.environ, GOFLAGS='-mod=mod', GOPROXY='off', GOSUMDB='off', GOTOOLCHAIN='local')

def sh(cmd, cwd=None, timeout=1200):
    r = subprocess.run(cmd, shell=True, cwd=cwd, env=ENV, capture_output=True, text=True, timeout=timeout)
    return r.returncode, (r.stdout + r.stderr)

def main():
    pid = sys.argv[1]
    name = pid
    if '--name' in sys.argv:
        name = sys.argv[sys.argv.index('--name') + 1]
    wt = f'/tmp/seed/{pid}' if '--wt' not in sys.argv else sys.argv[sys.argv.index('--wt') + 1]
    out = f'/verif/seeded/{name}'
    os.makedirs(out, exist_ok=True)
    meta = {'property': pid, 'worktree': wt, 'ran': []}
    # demo files (anything untracked ending in _test.go)
    rc, untracked = sh('git ls-files --others --exclude-standard', wt)
    demos = [f for f in untracked.split() if f.endswith('_test.go')]
    rc, changed = sh('git diff --name-only', wt)
    changed = [f for f in changed.split() if f]
    if not changed:
        print('no library change in', wt); sys.exit(2)
    rc, patch = sh('git diff', wt)
    open(f'{out}/patch.diff', 'w').write(patch)
    for d in demos:
        shutil.copy(f'{wt}/{d}', f'{out}/{os.path.basename(d)}')
    if os.path.exists(f'{wt}/SEED_NOTES.md'):
        shutil.copy(f'{wt}/SEED_NOTES.md', f'{out}/SEED_NOTES.md')
    # (1a) suite with change, demos moved away
    for d in demos:
        os.rename(f'{wt}/{d}', f'{wt}/{d}.away')
    rc_suite, o = sh('go build ./... && go test -vet=off -count=1 ./...', wt)
    meta['ran'].append({'cmd': 'go build ./... && go test -vet=off -count=1 ./...  (change applied, demo moved away)', 'rc': rc_suite, 'tail': o[-400:]})
    for d in demos:
        os.rename(f'{wt}/{d}.away', f'{wt}/{d}')
    # (1b) demo with change
    pkgs = sorted({'./' + os.path.dirname(d) if os.path.dirname(d) else '.' for d in demos})
    rc_demo_with, o1 = sh('go test -vet=off -count=1 -run TestSeededDemo ' + ' '.join(pkgs), wt)
    meta['ran'].append({'cmd': 'go test -run TestSeededDemo (change applied)', 'rc': rc_demo_with, 'tail': o1[-600:]})
    # (1c) demo without change
    # (no git stash: the stash is shared by all worktrees of a repository)
    sh('git checkout -- ' + ' '.join(changed), wt)
    rc_demo_without, o2 = sh('go test -vet=off -count=1 -run TestSeededDemo ' + ' '.join(pkgs), wt)
    sh(f'git apply {out}/patch.diff', wt)
    meta['ran'].append({'cmd': 'go test -run TestSeededDemo (change stashed)', 'rc': rc_demo_without, 'tail': o2[-300:]})
    confirmed = rc_suite == 0 and rc_demo_with != 0 and rc_demo_without == 0
    meta['confirmed'] = confirmed
    print(f'{name}: suite rc={rc_suite} demo-with rc={rc_demo_with} demo-without rc={rc_demo_without} confirmed={confirmed}')
    # (3) run checks against /repo
    rc, st = sh('git status --porcelain', '/repo')
    if st.strip():
        print('/repo not clean:', st); sys.exit(2)
    props = [pid]
    if '--all' in sys.argv:
        m = json.load(open('/verif/MANIFEST.json'))
        props = [c['property_id'] for c in m['checks']]
    results = {}
    rc, o = sh(f'git apply {out}/patch.diff', '/repo')
    if rc != 0:
        print('patch does not apply to /repo:', o); sys.exit(2)
    try:
        for p in props:
            t0 = time.time()
            rc, o = sh(f'./check {p}', '/verif', timeout=1800)
            lines = [l for l in o.splitlines() if l.startswith('VIOLATION') or l.startswith('KNOWN') or l.startswith('INCONCLUSIVE')]
            results[p] = {'rc': rc, 'lines': lines[:6], 'summary': o.strip().splitlines()[-1] if o.strip() else '', 's': round(time.time() - t0, 1)}
            print(f'  check {p}: rc={rc} {lines[:2]}')
    finally:
        sh('git checkout -- .', '/repo')
    # rebuild harness for the unchanged tree
    sh('go build -tags verif -o /verif/build/harness ./cmd/harness', '/verif/harness')
    meta['checks'] = results
    meta['detected_by_target'] = results.get(pid, {}).get('rc') == 1
    meta['other_alarms'] = [p for p, r in results.items() if p != pid and r['rc'] != 0]
    old = {}
    if os.path.exists(f'{out}/meta.json'):
        old = json.load(open(f'{out}/meta.json'))
    old.update(meta)
    json.dump(old, open(f'{out}/meta.json', 'w'), indent=1)

if __name__ == '__main__':
    main()
