/-
  Opacity of literals and comments, expression level: output, input and insert expressions,
  and `advanceToNextExpression`.
-/
import SqlairProofs.Opaque.Items

namespace Sqlair

section
variable {E : Env} {inp' : Bytes}

/-! ### what is looked at in the results of the item parsers -/

theorem opq_beq_star {a b : Bytes} (h : a = star ↔ b = star) : (a == star) = (b == star) := by
  rw [Bool.eq_iff_iff, beq_iff_eq, beq_iff_eq]; exact h

theorem opq_starCount {ts ts' : List Acc} (h : OpqList OpqAcc ts ts') :
    starCountTypes ts = starCountTypes ts' := by
  unfold starCountTypes
  induction h with
  | nil => rfl
  | cons hab _ ih =>
    rw [List.filter_cons, List.filter_cons, opq_beq_star hab]
    split
    · simp only [List.length_cons, ih]
    · exact ih

/-- a function-call column is found in both lists or in neither -/
theorem opq_find_func {cs cs' : List Col} (h : OpqList OpqCol cs cs') :
    (∃ c c', cs.find? (·.func) = some c ∧ cs'.find? (·.func) = some c') ∨
    (cs.find? (·.func) = none ∧ cs'.find? (·.func) = none) := by
  induction h with
  | nil => exact Or.inr ⟨rfl, rfl⟩
  | @cons a b l l' hab _ ih =>
    rw [List.find?_cons, List.find?_cons]
    have hab' : a.func = b.func := hab
    rw [hab']
    cases b.func with
    | true => exact Or.inl ⟨_, _, rfl, rfl⟩
    | false => exact ih

/-! ### output expressions -/

theorem opq_parseOutputExpr (R : OpqEnv E inp') {s : Sc} (l : LC E s) :
    OpqR OpqSeg (parseOutputExpr E s) (parseOutputExpr (opqEnv E inp') s) := by
  unfold parseOutputExpr
  rcases (opq_parseTargetType R l).elim with
    ⟨s1, a, b, hx, hy, hab⟩ | ⟨cp, hx, hy⟩ | ⟨s1, e, e', hx, hy, he⟩
  · rw [hx, hy]; exact OpqR.mk_ok ⟨rfl, rfl, rfl⟩
  · rw [hx, hy]
    simp only []
    have lcp : LC E cp := (parseTargetType_lc R.decE R.cls l).of_eq hx
    rcases opq_parseColumns R lcp with ⟨s2, cs, cs', b, hx2, hy2, hcs⟩ | ⟨s2, hx2, hy2⟩
    · rw [hx2, hy2]
      simp only []
      have l2 : LC E s2 := (parseColumns_lc R.decE R.cls lcp).of_eq hx2
      have l3 := skipBlanks_lc R.decE l2
      have lr := skipString_AS_lc R.decE R.asciiE l3
      have l4 := skipBlanks_lc R.decE lr
      rw [opq_skipBlanks R l2, opq_skipString_AS R l3, opq_skipBlanks R lr]
      split
      · exact OpqR.mk_no
      rcases (opq_parseTargetTypes R l4).elim with
        ⟨s5, t, t', hx3, hy3, ht⟩ | ⟨s5, hx3, hy3⟩ | ⟨s5, e3, e3', hx3, hy3, he3⟩
      · obtain ⟨types, pt⟩ := t
        obtain ⟨types', pt'⟩ := t'
        obtain ⟨hty, hpt⟩ := ht
        simp only [] at hty hpt
        subst hpt
        rw [hx3, hy3]
        simp only []
        split
        · exact OpqR.mk_err_same _
        split
        · exact OpqR.mk_err_same _
        rw [← opq_starCount hty]
        by_cases hsc : starCountTypes types > 0
        · simp only [if_pos hsc]
          rcases opq_find_func hcs with ⟨c, c', h1, h2⟩ | ⟨h1, h2⟩
          · rw [h1, h2]; exact OpqR.mk_err ⟨rfl, rfl⟩
          · rw [h1, h2]; exact OpqR.mk_ok ⟨rfl, rfl, rfl⟩
        · simp only [if_neg hsc]
          exact OpqR.mk_ok ⟨rfl, rfl, rfl⟩
      · rw [hx3, hy3]; exact OpqR.mk_no
      · rw [hx3, hy3]; exact OpqR.mk_err he3
    · rw [hx2, hy2]; exact OpqR.mk_no
  · rw [hx, hy]; exact OpqR.mk_err he

/-! ### input expressions -/

theorem opq_parseSliceInputExpr (R : OpqEnv E inp') {s : Sc} (l : LC E s) :
    OpqR OpqSeg (parseSliceInputExpr E s) (parseSliceInputExpr (opqEnv E inp') s) := by
  unfold parseSliceInputExpr
  rw [opq_skipChar R (c := 36) (by decide) l]
  simp only []
  split
  · exact OpqR.mk_no
  have lr := skipChar_lc R.decE (c := 36) (by decide) l
  rcases (opq_parseSliceAccessor R lr).elim with
    ⟨s1, a, b, hx, hy, _⟩ | ⟨s1, hx, hy⟩ | ⟨s1, e, e', hx, hy, he⟩
  · rw [hx, hy]; exact OpqR.mk_ok ⟨rfl, rfl, rfl⟩
  · rw [hx, hy]; exact OpqR.mk_no
  · rw [hx, hy]; exact OpqR.mk_err he

theorem opq_parseMemberInputExpr (R : OpqEnv E inp') {s : Sc} (l : LC E s) :
    OpqR OpqSeg (parseMemberInputExpr E s) (parseMemberInputExpr (opqEnv E inp') s) := by
  unfold parseMemberInputExpr
  rcases (opq_parseInputMemberAccessor R l).elim with
    ⟨s1, a, b, hx, hy, hab⟩ | ⟨s1, hx, hy⟩ | ⟨s1, e, e', hx, hy, he⟩
  · rw [hx, hy]
    simp only []
    rw [opq_beq_star hab]
    split
    · exact OpqR.mk_err ⟨rfl, rfl⟩
    · exact OpqR.mk_ok ⟨rfl, rfl, rfl⟩
  · rw [hx, hy]; exact OpqR.mk_no
  · rw [hx, hy]; exact OpqR.mk_err he

theorem opq_parseComplexInsertValues (R : OpqEnv E inp') {s : Sc} (l : LC E s) :
    OpqR (OpqList OpqAcc) (parseComplexInsertValues E s)
      (parseComplexInsertValues (opqEnv E inp') s) := by
  unfold parseComplexInsertValues
  rcases (opq_parseList_inputs R l).elim with
    ⟨s1, a, b, hx, hy, hab⟩ | ⟨s1, hx, hy⟩ | ⟨s1, e, e', hx, hy, he⟩
  · rw [hx, hy]; exact OpqR.mk_ok hab
  · rw [hx, hy]
    simp only []
    have l1 : LC E s1 :=
      (parseList_lc R.decE (fun s l => parseInputMemberAccessor_lc R.decE R.cls l) l).of_eq hx
    rcases (opq_parseInputMemberAccessor R l1).elim with
      ⟨s2, a2, b2, hx2, hy2, _⟩ | ⟨s2, hx2, hy2⟩ | ⟨s2, e2, e2', hx2, hy2, _⟩
    · rw [hx2, hy2]; exact OpqR.mk_err_same _
    · rw [hx2, hy2]; exact OpqR.mk_no
    · rw [hx2, hy2]; exact OpqR.mk_no
  · rw [hx, hy]; exact OpqR.mk_err he

theorem opq_parseAsteriskInsertExpr (R : OpqEnv E inp') {s : Sc} (l : LC E s) :
    OpqR OpqSeg (parseAsteriskInsertExpr E s) (parseAsteriskInsertExpr (opqEnv E inp') s) := by
  unfold parseAsteriskInsertExpr
  have lr1 := skipChar_lc R.decE (c := 40) (by decide) l
  have lb1 := skipBlanks_lc R.decE lr1
  have lr2 := skipChar_lc R.decE (c := 42) (by decide) lb1
  have lb2 := skipBlanks_lc R.decE lr2
  have lr3 := skipChar_lc R.decE (c := 41) (by decide) lb2
  have lb3 := skipBlanks_lc R.decE lr3
  have lr4 := skipString_VALUES_lc R.decE R.asciiE lb3
  have lb4 := skipBlanks_lc R.decE lr4
  simp only []
  rw [opq_skipChar R (c := 40) (by decide) l, opq_skipBlanks R lr1,
    opq_skipChar R (c := 42) (by decide) lb1, opq_skipBlanks R lr2,
    opq_skipChar R (c := 41) (by decide) lb2, opq_skipBlanks R lr3,
    opq_skipString_VALUES R lb3, opq_skipBlanks R lr4]
  split
  · exact OpqR.mk_no
  split
  · exact OpqR.mk_no
  split
  · exact OpqR.mk_no
  split
  · exact OpqR.mk_no
  rcases (opq_parseComplexInsertValues R lb4).elim with
    ⟨s1, a, b, hx, hy, hab⟩ | ⟨s1, hx, hy⟩ | ⟨s1, e, e', hx, hy, he⟩
  · rw [hx, hy]; exact OpqR.mk_ok ⟨rfl, rfl, rfl⟩
  · rw [hx, hy]; exact OpqR.mk_no
  · rw [hx, hy]; exact OpqR.mk_err he

/-! ### basic insert values -/

/-- the part of the body of `basicLoop` after one item has been read -/
theorem opq_basicLoop_tail (R : OpqEnv E inp') (cp : Sc) (f : Nat)
    (ih : ∀ (ip : Bool) (vs vs' : List Val) {s : Sc}, LC E s →
      OpqR OpqAny (basicLoop E cp f ip vs s) (basicLoop (opqEnv E inp') cp f ip vs' s))
    (ip : Bool) (vs vs' : List Val) {s2 : Sc} (l2 : LC E s2) :
    OpqR OpqAny
      (if (skipChar E 41 (skipBlanks E s2)).2 = true then
          (if ip = true then ((skipChar E 41 (skipBlanks E s2)).1, Res.ok vs)
            else ((skipChar E 41 (skipBlanks E s2)).1, Res.no))
        else if (skipChar E 44 (skipBlanks E s2)).2 = true then
          basicLoop E cp f ip vs (skipChar E 44 (skipBlanks E s2)).1
        else (cp, Res.no))
      (if (skipChar (opqEnv E inp') 41 (skipBlanks (opqEnv E inp') s2)).2 = true then
          (if ip = true then ((skipChar (opqEnv E inp') 41 (skipBlanks (opqEnv E inp') s2)).1, Res.ok vs')
            else ((skipChar (opqEnv E inp') 41 (skipBlanks (opqEnv E inp') s2)).1, Res.no))
        else if (skipChar (opqEnv E inp') 44 (skipBlanks (opqEnv E inp') s2)).2 = true then
          basicLoop (opqEnv E inp') cp f ip vs' (skipChar (opqEnv E inp') 44 (skipBlanks (opqEnv E inp') s2)).1
        else (cp, Res.no)) := by
  have l3 := skipBlanks_lc R.decE l2
  rw [opq_skipBlanks R l2, opq_skipChar R (c := 41) (by decide) l3,
    opq_skipChar R (c := 44) (by decide) l3]
  split
  · split
    · exact OpqR.mk_ok trivial
    · exact OpqR.mk_no
  split
  · exact ih _ _ _ (skipChar_lc R.decE (by decide) l3)
  · exact OpqR.mk_no

theorem opq_basicLoop (R : OpqEnv E inp') (cp : Sc) : ∀ (f : Nat) (ip : Bool) (vs vs' : List Val)
    {s : Sc}, LC E s →
      OpqR OpqAny (basicLoop E cp f ip vs s) (basicLoop (opqEnv E inp') cp f ip vs' s) := by
  intro f
  induction f with
  | zero => intro ip vs vs' s l; unfold basicLoop; exact OpqR.mk_err_same _
  | succ f ih =>
    intro ip vs vs' s l
    unfold basicLoop
    rw [opq_skipBlanks R l]
    simp only []
    have l1 : LC E (skipBlanks E s) := skipBlanks_lc R.decE l
    rcases (opq_parseInputMemberAccessor R l1).elim with
      ⟨s2, a, b, hx, hy, hab⟩ | ⟨s2, hx, hy⟩ | ⟨s2, e, e', hx, hy, he⟩
    · rw [hx, hy]
      simp only []
      rw [opq_beq_star hab]
      have l2 : LC E s2 := (parseInputMemberAccessor_lc R.decE R.cls l1).of_eq hx
      by_cases hm : (b.member == star) = true
      · simp only [if_pos hm]
        exact OpqR.mk_err_same _
      · simp only [if_neg hm]
        exact opq_basicLoop_tail R cp f ih true _ _ l2
    · rw [hx, hy]
      simp only []
      have l2 : LC E s2 := (parseInputMemberAccessor_lc R.decE R.cls l1).of_eq hx
      rw [opq_skipLiteralInList R l2]
      rcases hq : skipLiteralInList E s2 with ⟨s3, _ | _ | e3⟩
      · simp only []
        exact opq_basicLoop_tail R cp f ih ip _ _ ((skipLiteralInList_lc R.decE l2).of_eq hq)
      · exact OpqR.mk_no
      · exact OpqR.mk_err_same _
    · rw [hx, hy]
      exact OpqR.mk_err he

theorem opq_parseBasicInsertValues (R : OpqEnv E inp') {s : Sc} (l : LC E s) :
    OpqR OpqAny (parseBasicInsertValues E s) (parseBasicInsertValues (opqEnv E inp') s) := by
  unfold parseBasicInsertValues
  rw [opq_len R, opq_skipChar R (c := 40) (by decide) l]
  simp only []
  split
  · rcases (opq_parseInputMemberAccessor R l).elim with
      ⟨s2, a2, b2, hx2, hy2, _⟩ | ⟨s2, hx2, hy2⟩ | ⟨s2, e2, e2', hx2, hy2, _⟩
    · rw [hx2, hy2]; exact OpqR.mk_err_same _
    · rw [hx2, hy2]; exact OpqR.mk_no
    · rw [hx2, hy2]; exact OpqR.mk_no
  · exact opq_basicLoop R s _ _ _ _ (skipChar_lc R.decE (by decide) l)

/-! ### insert expressions -/

theorem opq_parseInsertExpr (R : OpqEnv E inp') {s : Sc} (l : LC E s) :
    OpqR OpqSeg (parseInsertExpr E s) (parseInsertExpr (opqEnv E inp') s) := by
  unfold parseInsertExpr
  rcases (opq_parseAsteriskInsertExpr R l).elim with
    ⟨s1, a, b, hx, hy, hab⟩ | ⟨cp, hx, hy⟩ | ⟨s1, e, e', hx, hy, he⟩
  · rw [hx, hy]; exact OpqR.mk_ok hab
  · rw [hx, hy]
    simp only []
    have lcp : LC E cp := (parseAsteriskInsertExpr_lc R.decE R.asciiE R.cls l).of_eq hx
    rcases opq_parseColumns R lcp with ⟨s1, cs, cs', b, hx2, hy2, hcs⟩ | ⟨s1, hx2, hy2⟩
    · rw [hx2, hy2]
      cases b with
      | false => exact OpqR.mk_no
      | true =>
        simp only []
        have l1 : LC E s1 := (parseColumns_lc R.decE R.cls lcp).of_eq hx2
        have lb1 := skipBlanks_lc R.decE l1
        have lr := skipString_VALUES_lc R.decE R.asciiE lb1
        have lcol := skipBlanks_lc R.decE lr
        rw [opq_skipBlanks R l1, opq_skipString_VALUES R lb1, opq_skipBlanks R lr]
        split
        · exact OpqR.mk_no
        have hbasic : OpqR OpqSeg
            (match parseBasicInsertValues E
                (skipBlanks E (skipString E kwVALUES (skipBlanks E s1)).1) with
              | (_, .err e) => (cp, .err e)
              | (s3, .ok vals) =>
                (s3, .ok { kind := .basicInsert, a := cp.pos, b := s3.pos, cols := cs, vals := vals })
              | (_, .no) => (cp, .no))
            (match parseBasicInsertValues (opqEnv E inp')
                (skipBlanks E (skipString E kwVALUES (skipBlanks E s1)).1) with
              | (_, .err e) => (cp, .err e)
              | (s3, .ok vals) =>
                (s3, .ok { kind := .basicInsert, a := cp.pos, b := s3.pos, cols := cs', vals := vals })
              | (_, .no) => (cp, .no)) := by
          rcases (opq_parseBasicInsertValues R lcol).elim with
            ⟨s3, a3, b3, hx3, hy3, _⟩ | ⟨s3, hx3, hy3⟩ | ⟨s3, e3, e3', hx3, hy3, he3⟩
          · rw [hx3, hy3]; exact OpqR.mk_ok ⟨rfl, rfl, rfl⟩
          · rw [hx3, hy3]; exact OpqR.mk_no
          · rw [hx3, hy3]; exact OpqR.mk_err he3
        rcases (opq_parseComplexInsertValues R lcol).elim with
          ⟨s2, a2, b2, hx4, hy4, hab4⟩ | ⟨s2, hx4, hy4⟩ | ⟨s2, e4, e4', hx4, hy4, _⟩
        · rw [hx4, hy4]
          simp only []
          rw [← opq_starCount hab4]
          by_cases hsc : (starCountTypes a2 != 0) = true
          · simp only [if_pos hsc]
            exact OpqR.mk_ok ⟨rfl, rfl, rfl⟩
          · simp only [if_neg hsc]
            exact hbasic
        · rw [hx4, hy4]; exact hbasic
        · rw [hx4, hy4]; exact hbasic
    · rw [hx2, hy2]; exact OpqR.mk_no
  · rw [hx, hy]; exact OpqR.mk_err he

theorem opq_parseInputExpr (R : OpqEnv E inp') {s : Sc} (l : LC E s) :
    OpqR OpqSeg (parseInputExpr E s) (parseInputExpr (opqEnv E inp') s) := by
  unfold parseInputExpr
  rcases (opq_parseSliceInputExpr R l).elim with
    ⟨s1, a, b, hx, hy, hab⟩ | ⟨s1, hx, hy⟩ | ⟨s1, e, e', hx, hy, he⟩
  · rw [hx, hy]; exact OpqR.mk_ok hab
  · rw [hx, hy]
    simp only []
    have l1 : LC E s1 := (parseSliceInputExpr_lc R.decE R.cls l).of_eq hx
    rcases (opq_parseMemberInputExpr R l1).elim with
      ⟨s2, a2, b2, hx2, hy2, hab2⟩ | ⟨s2, hx2, hy2⟩ | ⟨s2, e2, e2', hx2, hy2, he2⟩
    · rw [hx2, hy2]; exact OpqR.mk_ok hab2
    · rw [hx2, hy2]
      exact opq_parseInsertExpr R ((parseMemberInputExpr_lc R.decE R.cls l1).of_eq hx2)
    · rw [hx2, hy2]; exact OpqR.mk_err he2
  · rw [hx, hy]; exact OpqR.mk_err he

/-! ### advanceToNextExpression -/

theorem opq_advLoop (R : OpqEnv E inp') : ∀ (f : Nat) {s : Sc}, LC E s →
    advLoop (opqEnv E inp') f s = advLoop E f s := by
  intro f
  induction f with
  | zero => intros; rfl
  | succ f ih =>
    intro s l
    unfold advLoop
    rw [opq_len R, opq_skipStringLiteral R l]
    split
    · split
      · rfl
      · next heq => exact ih ((skipStringLiteral_lc R.decE l).of_eq heq)
      · next heq =>
        simp only [opq_skipComment R l]
        split
        · exact ih (skipComment_lc R.decE l)
        next hf =>
        have l1 : LC E (advanceChar E s) := advanceChar_lc_code R.decE l heq hf
        rw [opq_advanceChar_code R l heq hf, opq_isNameChar]
        split
        · rfl
        split
        · split
          · rfl
          split
          · rfl
          · exact ih l1
        · exact ih l1
    · rfl

theorem opq_advanceToNextExpression (R : OpqEnv E inp') {s : Sc} (l : LC E s) :
    advanceToNextExpression (opqEnv E inp') s = advanceToNextExpression E s := by
  unfold advanceToNextExpression
  rw [opq_len R, opq_advLoop R _ l, opq_isNameChar]
  split
  · rfl
  · split
    · rfl
    · next s1 heq => rw [opq_skipBlanks R ((advLoop_lc R.decE _ l).1.of_eq heq)]
    · rfl

end
end Sqlair
