/-
  L5Sound/Execs: C09 and C10 hold of the model's own observation of any history.
-/
import SqlairProofs.L5Sound.Hist

namespace Sqlair.Cache

/-! ### C10: no closed driver statement is executed -/

theorem l5s_closedErrs_zero {st : St} (hr : Reachable st) : l5s_closedErrs st.log = 0 := by
  unfold l5s_closedErrs
  rw [List.length_eq_zero_iff, List.filter_eq_nil_iff]
  intro e he
  cases e with
  | execClosed id => exact absurd he (no_use_after_close hr id)
  | prepare _ _ _ => simp
  | exec _ _ _ => simp
  | close _ => simp

theorem l5s_obsAt_closedBefore {st : St} (hr : Reachable st) (w : List (Nat × Nat × Nat)) {i : Nat} {e : ExecObs}
    (he : l5s_obsAt st.log w i = some e) : e.closedBefore = false := by
  unfold l5s_obsAt at he
  simp only at he
  split at he
  · rename_i ds d q hev
    cases he
    simp only
    cases hc : (List.take i st.log).contains (Ev.close ds) with
    | false => rfl
    | true =>
      exfalso
      rw [List.contains_iff_mem, List.mem_iff_getElem?] at hc
      obtain ⟨j, hj⟩ := hc
      rw [List.getElem?_take] at hj
      split at hj
      · rename_i hlt
        have := (l5s_log_reachable hr).order j i ds d q hj hev
        omega
      · cases hj
  · rename_i ds hev
    exact absurd (List.mem_of_getElem? hev) (no_use_after_close hr ds)
  · cases he

theorem l5s_execsOf_c10 {st : St} (hr : Reachable st) (w : List (Nat × Nat × Nat)) :
    holdsC10 (l5s_execsOf st.log w) (l5s_closedErrs st.log) = true := by
  unfold holdsC10
  rw [l5s_closedErrs_zero hr, Bool.and_eq_true]
  refine ⟨?_, rfl⟩
  rw [List.all_eq_true]
  intro e he
  unfold l5s_execsOf at he
  obtain ⟨i, _, hi⟩ := List.mem_filterMap.1 he
  rw [l5s_obsAt_closedBefore hr w hi]
  rfl

/-- `l5s_execsOf` misses no execution: every `exec` / `execClosed` event of the log yields an
    observation (of that driver statement) -/
theorem l5s_execsOf_complete (log : List Ev) (w : List (Nat × Nat × Nat)) {i ds : Nat}
    (h : (∃ db sql, log[i]? = some (Ev.exec ds db sql)) ∨ log[i]? = some (Ev.execClosed ds)) :
    ∃ e ∈ l5s_execsOf log w, l5s_obsAt log w i = some e ∧ e.ds = ds := by
  have hlt : i < log.length := by
    rcases h with ⟨db, sql, h⟩ | h <;> exact (List.getElem?_eq_some_iff.1 h).1
  have hsome : ∃ e, l5s_obsAt log w i = some e ∧ e.ds = ds := by
    unfold l5s_obsAt
    rcases h with ⟨db, sql, h⟩ | h <;> rw [h] <;> exact ⟨_, rfl, rfl⟩
  obtain ⟨e, he, hds⟩ := hsome
  exact ⟨e, List.mem_filterMap.2 ⟨i, List.mem_range.2 hlt, he⟩, he, hds⟩

/-! ### C09: the attribution of wanted pairs to the events -/

/-- the invariant that links the instrumentation (`qs`: built Queries, `w`: wanted pair per
    event index) to the model state; `T` bounds the operation ids of `run` operations -/
structure L5sW (st : St) (qs w : List (Nat × Nat × Nat)) (T : Nat) : Prop where
  wlt : ∀ e ∈ w, e.1 < st.log.length
  wexec : ∀ i ds db sql, st.log[i]? = some (Ev.exec ds db sql) → w.lookup i = some (db, sql)
  link : ∀ q o, alook st.ops (1000 + q) = some o → o.pc = .start → qs.lookup q = some (o.d, o.sql)
  far : ∀ k o, alook st.ops k = some o → o.pc = .start → T ≤ k

theorem l5s_w_init (T : Nat) : L5sW ({} : St) [] [] T :=
  ⟨by intro e he; simp at he, by intro i ds db sql h; simp at h,
   by intro q o h; simp [alook] at h, by intro k o h; simp [alook] at h⟩

theorem l5s_lookup_range (p : Nat × Nat) : ∀ (n a i : Nat), a ≤ i → i < a + n →
    ((List.range' a n).map fun i => (i, p)).lookup i = some p := by
  intro n
  induction n with
  | zero => intro a i h1 h2; omega
  | succ n ih =>
    intro a i h1 h2
    rw [List.range'_succ, List.map_cons, List.lookup_cons]
    by_cases e : i = a
    · subst e; simp
    · have : (i == a) = false := by simp [e]
      rw [this]
      exact ih (a + 1) i (by omega) (by omega)

/-- appending events whose executions all want `p`, with `p` attached to their indices -/
theorem l5s_w_extend {log evs : List Ev} {w : List (Nat × Nat × Nat)} {p : Nat × Nat}
    (wlt : ∀ e ∈ w, e.1 < log.length)
    (wexec : ∀ i ds db sql, log[i]? = some (Ev.exec ds db sql) → w.lookup i = some (db, sql))
    (hev : ∀ ds db sql, Ev.exec ds db sql ∈ evs → (db, sql) = p) :
    (∀ e ∈ w ++ (List.range' log.length evs.length).map (fun i => (i, p)), e.1 < (log ++ evs).length) ∧
    (∀ i ds db sql, (log ++ evs)[i]? = some (Ev.exec ds db sql) →
      (w ++ (List.range' log.length evs.length).map (fun i => (i, p))).lookup i = some (db, sql)) := by
  constructor
  · intro e he
    rw [List.length_append]
    rcases List.mem_append.1 he with he | he
    · have := wlt e he; omega
    · obtain ⟨i, hi, rfl⟩ := List.mem_map.1 he
      rw [List.mem_range'_1] at hi
      exact hi.2
  · intro i ds db sql h
    rw [List.lookup_append]
    by_cases hi : i < log.length
    · rw [List.getElem?_append_left hi] at h
      rw [wexec i ds db sql h]; rfl
    · have hn : w.lookup i = none := by
        rw [List.lookup_eq_none_iff]
        intro e he
        have := wlt e he
        simp only [bne_iff_ne, ne_eq]
        omega
      rw [hn, Option.none_or]
      have hlt : i < (log ++ evs).length := (List.getElem?_eq_some_iff.1 h).1
      rw [List.length_append] at hlt
      rw [List.getElem?_append_right (by omega)] at h
      rw [← hev ds db sql (List.mem_of_getElem? h)]
      exact l5s_lookup_range _ _ _ _ (by omega) hlt

/-- appending events none of which is an execution -/
theorem l5s_w_quiet {log evs : List Ev} {w : List (Nat × Nat × Nat)}
    (wlt : ∀ e ∈ w, e.1 < log.length)
    (wexec : ∀ i ds db sql, log[i]? = some (Ev.exec ds db sql) → w.lookup i = some (db, sql))
    (hev : ∀ ds db sql, Ev.exec ds db sql ∉ evs) :
    (∀ e ∈ w, e.1 < (log ++ evs).length) ∧
    (∀ i ds db sql, (log ++ evs)[i]? = some (Ev.exec ds db sql) → w.lookup i = some (db, sql)) := by
  constructor
  · intro e he
    rw [List.length_append]
    have := wlt e he; omega
  · intro i ds db sql h
    by_cases hi : i < log.length
    · rw [List.getElem?_append_left hi] at h
      exact wexec i ds db sql h
    · rw [List.getElem?_append_right (by omega)] at h
      exact absurd (List.mem_of_getElem? h) (hev ds db sql)

theorem l5s_wants_same {st st' : St} (hl : st'.log = st.log) (qs : List (Nat × Nat × Nat)) (op : HOp) :
    l5s_wants st st' qs op = [] := by
  unfold l5s_wants
  split
  · rw [hl, Nat.sub_self]; rfl
  · rfl

/-- the wanted pair attached to the events of an operation that ran the Query `o` -/
theorem l5s_w_ran {st st' : St} {qs w : List (Nat × Nat × Nat)} {T k : Nat} {o : Op} {op : HOp}
    (hw : L5sW st qs w T) (hr : L5sRan st st' k o) (hwant : l5s_want qs op = some (o.d, o.sql)) :
    (∀ e ∈ w ++ l5s_wants st st' qs op, e.1 < st'.log.length) ∧
    (∀ i ds db sql, st'.log[i]? = some (Ev.exec ds db sql) →
      (w ++ l5s_wants st st' qs op).lookup i = some (db, sql)) := by
  unfold l5s_wants
  rw [hwant]
  simp only
  rcases hr.events with ⟨_, _, _, _, id, _, hl⟩ | ⟨_, _, hl⟩
  · rw [hl]
    have := l5s_w_extend (evs := [Ev.exec id o.d o.sql]) (p := (o.d, o.sql)) hw.wlt hw.wexec
      (by intro ds db sql hm; simp at hm; rw [hm.2.1, hm.2.2])
    simpa using this
  · rw [hl]
    have := l5s_w_extend (evs := [Ev.prepare (st.ds.length + 1) o.d o.sql, Ev.exec (st.ds.length + 1) o.d o.sql])
      (p := (o.d, o.sql)) hw.wlt hw.wexec
      (by intro ds db sql hm; simp at hm; rw [hm.2.1, hm.2.2])
    simpa using this

/-- an operation that changes neither the log nor the table of operations -/
theorem l5s_w_frame {st st' : St} {qs w : List (Nat × Nat × Nat)} {T : Nat} (hw : L5sW st qs w T)
    (hl : st'.log = st.log) (ho : st'.ops = st.ops) : L5sW st' qs w T :=
  ⟨by rw [hl]; exact hw.wlt, by rw [hl]; exact hw.wexec, by rw [ho]; exact hw.link, by rw [ho]; exact hw.far⟩

theorem l5s_getD_frame {st : St} {x : Step} (h : ∀ st', step st x = some st' → st'.log = st.log ∧ st'.ops = st.ops) :
    ((step st x).getD st).log = st.log ∧ ((step st x).getD st).ops = st.ops := by
  cases hx : step st x with
  | none => exact ⟨rfl, rfl⟩
  | some st' => exact h st' hx

/-- the table of operations after an operation that ran the Query `o` with id `k` -/
theorem l5s_w_ran_ops {st st' : St} {qs w w' : List (Nat × Nat × Nat)} {T k : Nat} {o : Op}
    (hw : L5sW st qs w T) (hr : L5sRan st st' k o)
    (h1 : ∀ e ∈ w', e.1 < st'.log.length)
    (h2 : ∀ i ds db sql, st'.log[i]? = some (Ev.exec ds db sql) → w'.lookup i = some (db, sql)) :
    L5sW st' qs w' T := by
  refine ⟨h1, h2, ?_, ?_⟩
  · intro q o' ho' hpc
    rw [hr.ops.look] at ho'
    split at ho'
    · cases ho'; cases hpc
    · exact hw.link q o' ho' hpc
  · intro k' o' ho' hpc
    rw [hr.ops.look] at ho'
    split at ho'
    · cases ho'; cases hpc
    · exact hw.far k' o' ho' hpc

theorem l5s_w_op {st : St} {qs w : List (Nat × Nat × Nat)} {T : Nat} (hs : L5sSeq st) (hw : L5sW st qs w T)
    (t : Nat) (op : HOp) (ht : ∀ s d k, op = .run s d k → t < T)
    (hq : ∀ q s d k, op = .mkq q s d k → T ≤ 1000 + q) :
    L5sW (l5s_op st t op).1 (l5s_qs st qs op) (w ++ l5s_wants st (l5s_op st t op).1 qs op) T := by
  cases op with
  | newS =>
    have h := l5s_getD_frame (st := st) (x := .newS) (by intro st' h; rw [step_newS h]; exact ⟨rfl, rfl⟩)
    show L5sW ((step st .newS).getD st) qs (w ++ l5s_wants st ((step st .newS).getD st) qs .newS) T
    rw [l5s_wants_same h.1, List.append_nil]
    exact l5s_w_frame hw h.1 h.2
  | newD =>
    have h := l5s_getD_frame (st := st) (x := .newD) (by intro st' h; rw [step_newD h]; exact ⟨rfl, rfl⟩)
    show L5sW ((step st .newD).getD st) qs (w ++ l5s_wants st ((step st .newD).getD st) qs .newD) T
    rw [l5s_wants_same h.1, List.append_nil]
    exact l5s_w_frame hw h.1 h.2
  | dropS s =>
    have h := l5s_getD_frame (st := st) (x := .dropS s)
      (by intro st' h; obtain ⟨_, rfl⟩ := step_dropS h; exact ⟨rfl, rfl⟩)
    show L5sW ((step st (.dropS s)).getD st) qs (w ++ l5s_wants st ((step st (.dropS s)).getD st) qs (.dropS s)) T
    rw [l5s_wants_same h.1, List.append_nil]
    exact l5s_w_frame hw h.1 h.2
  | dropD d =>
    have h := l5s_getD_frame (st := st) (x := .dropD d)
      (by intro st' h; obtain ⟨_, rfl⟩ := step_dropD h; exact ⟨rfl, rfl⟩)
    show L5sW ((step st (.dropD d)).getD st) qs (w ++ l5s_wants st ((step st (.dropD d)).getD st) qs (.dropD d)) T
    rw [l5s_wants_same h.1, List.append_nil]
    exact l5s_w_frame hw h.1 h.2
  | gc =>
    obtain ⟨_, _, h3, _⟩ := l5s_gc_spec hs.reach
    obtain ⟨evs, hl, hev⟩ := (l5s_gc_quiet st).log
    show L5sW (l5s_gc st) qs (w ++ l5s_wants st (l5s_gc st) qs .gc) T
    have : l5s_wants st (l5s_gc st) qs .gc = [] := rfl
    rw [this, List.append_nil]
    have hq := l5s_w_quiet (evs := evs) hw.wlt hw.wexec
      (by intro ds db sql hm; obtain ⟨_, e⟩ := hev _ hm; cases e)
    rw [← hl] at hq
    exact ⟨hq.1, hq.2, by rw [h3]; exact hw.link, by rw [h3]; exact hw.far⟩
  | mkq q s d shape =>
    have hT := hq q s d shape rfl
    show L5sW ((step st (.query (1000 + q) s d shape)).getD st)
      (if (step st (.query (1000 + q) s d shape)).isSome then (q, d, shape) :: qs else qs)
      (w ++ l5s_wants st ((step st (.query (1000 + q) s d shape)).getD st) qs (.mkq q s d shape)) T
    have : ∀ st', l5s_wants st st' qs (.mkq q s d shape) = [] := fun _ => rfl
    rw [this, List.append_nil]
    cases hstep : step st (.query (1000 + q) s d shape) with
    | none => exact hw
    | some st0 =>
      obtain ⟨_, _, hnone, rfl⟩ := step_query hstep
      simp only [Option.getD_some, Option.isSome_some, if_true]
      refine ⟨hw.wlt, hw.wexec, ?_, ?_⟩
      · intro q' o ho hpc
        simp only [alook_ainsert] at ho
        by_cases e : q' = q
        · subst e
          simp only [if_true, Option.some.injEq] at ho
          subst ho
          simp
        · have e' : ¬ (1000 + q' = 1000 + q) := by omega
          rw [if_neg e'] at ho
          have : (q' == q) = false := by simp [e]
          rw [List.lookup_cons, this]
          exact hw.link q' o ho hpc
      · intro k o ho hpc
        simp only [alook_ainsert] at ho
        split at ho
        · omega
        · exact hw.far k o ho hpc
  | runq q =>
    rw [l5s_op_runq_eq]
    show L5sW _ qs _ T
    rcases l5s_tail_cases hs (1000 + q) with ⟨_, h⟩ | ⟨o, ho, hpc, h⟩
    · rw [h, l5s_wants_same rfl, List.append_nil]; exact hw
    · have hwant : l5s_want qs (.runq q) = some (o.d, o.sql) := hw.link q o ho hpc
      obtain ⟨h1, h2⟩ := l5s_w_ran hw h hwant
      exact l5s_w_ran_ops hw h h1 h2
  | run s d shape =>
    have hT := ht s d shape rfl
    show L5sW _ qs _ T
    rcases l5s_run_cases hs t s d shape with ⟨_, _, h⟩ | ⟨_, o, ho, hpc, _⟩ | ⟨_, _, _, _, h⟩
    · rw [h, l5s_wants_same rfl, List.append_nil]; exact hw
    · have := hw.far t o ho hpc
      omega
    · have hwant : l5s_want qs (.run s d shape) = some (d, shape) := rfl
      obtain ⟨h1, h2⟩ := l5s_w_ran (o := { s := s, d := d, sql := shape }) hw h hwant
      exact l5s_w_ran_ops hw h h1 h2

/-- the history never lets the operation id of a `run` meet that of a Query -/
theorem l5s_w_final : ∀ (h : List HOp) {st : St} {qs w : List (Nat × Nat × Nat)} {T : Nat} (t : Nat),
    L5sSeq st → L5sW st qs w T → t + l5s_runs h ≤ T →
    (∀ q s d k, HOp.mkq q s d k ∈ h → T ≤ 1000 + q) →
    ∃ qs', L5sW (runHistoryW h st t qs w).1 qs' (runHistoryW h st t qs w).2 T := by
  intro h
  induction h with
  | nil => intro st qs w T t _ hw _ _; exact ⟨qs, hw⟩
  | cons op rest ih =>
    intro st qs w T t hs hw ht hq
    simp only [runHistoryW]
    have hruns : l5s_runs (op :: rest) = l5s_runs rest + (match op with | .run .. => 1 | _ => 0) := by
      unfold l5s_runs
      rw [List.filter_cons]
      cases op <;> simp
    apply ih _ (l5s_seq_op hs t op)
      (l5s_w_op hs hw t op (by intro s d k e; subst e; simp only at hruns; omega)
        (by intro q s d k e; subst e; exact hq q s d k (List.mem_cons_self ..)))
    · cases op <;> simp only [l5s_op] <;> simp only at hruns <;> omega
    · intro q s d k hm
      exact hq q s d k (List.mem_cons_of_mem _ hm)

theorem l5s_fresh_mem {h : List HOp} (hf : l5s_fresh h = true) {q s d k : Nat} (hm : HOp.mkq q s d k ∈ h) :
    l5s_runs h + 1 ≤ 1000 + q := by
  unfold l5s_fresh at hf
  rw [List.all_eq_true] at hf
  have := hf _ hm
  simp only [decide_eq_true_eq] at this
  omega

/-- C09 of the model's observation of any state with a sound attribution -/
theorem l5s_execsOf_c09 {st : St} (hr : Reachable st) {qs w : List (Nat × Nat × Nat)} {T : Nat}
    (hw : L5sW st qs w T) : holdsC09 (l5s_execsOf st.log w) = true := by
  unfold holdsC09
  rw [List.all_eq_true]
  intro e he
  unfold l5s_execsOf at he
  obtain ⟨i, _, hi⟩ := List.mem_filterMap.1 he
  unfold l5s_obsAt at hi
  simp only at hi
  split at hi
  · rename_i ds d q hev
    cases hi
    simp only [l5s_prepOf_exec hr hev, hw.wexec i ds d q hev, Option.getD_some, beq_self_eq_true, Bool.and_self]
  · rename_i ds hev
    exact absurd (List.mem_of_getElem? hev) (no_use_after_close hr ds)
  · cases hi

end Sqlair.Cache
