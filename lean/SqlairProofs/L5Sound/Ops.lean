/-
  L5Sound/Ops: what one operation of a sequential history does to the model state.

  Between the operations of a history every Query of the model is either built and not run
  (`pc = start`) or finished (`pc = done`); running one (`lookup, prepare, insert, exec`) is
  either a cache hit - one `exec` event of the cached statement - or a miss - one `prepare`
  and one `exec` event of a new statement -, and in both cases DB and SQL of the statement
  are the Query's.
-/
import SqlairProofs.L5Sound.Log

namespace Sqlair.Cache

/-! ### enabledness of the steps of an operation (converses of `step_lookup` etc.) -/

theorem l5s_hit_iff {st : St} {s d q : Nat} :
    l5s_hit st s d q = true ↔ ∃ id x, lookup2 st.stmtDB s d = some id ∧ dsGet st.ds id = some x ∧ x.sql = q := by
  unfold l5s_hit
  cases hl : lookup2 st.stmtDB s d with
  | none => simp
  | some id =>
    simp only [getDS_eq]
    cases hx : dsGet st.ds id with
    | none => simp [hx]
    | some x => simp [hx]

theorem l5s_step_lookup_hit {st : St} {t id : Nat} {o : Op} {x : DStmt} (ho : alook st.ops t = some o)
    (hpc : o.pc = .start) (hl : lookup2 st.stmtDB o.s o.d = some id) (hx : dsGet st.ds id = some x)
    (hq : x.sql = o.sql) :
    step st (.lookup t) = some { st with ops := ainsert st.ops t { o with pc := .ready id } } := by
  simp [step, getOp_eq, ho, hpc, hl, getDS_eq, hx, hq, setOp_eq]

theorem l5s_step_lookup_miss {st : St} {t : Nat} {o : Op} (ho : alook st.ops t = some o)
    (hpc : o.pc = .start) (hm : l5s_hit st o.s o.d o.sql = false) :
    step st (.lookup t) = some { st with ops := ainsert st.ops t { o with pc := .missed } } := by
  unfold l5s_hit at hm
  simp only [getDS_eq] at hm
  cases hl : lookup2 st.stmtDB o.s o.d with
  | none => simp [step, getOp_eq, ho, hpc, hl, setOp_eq]
  | some id =>
    rw [hl] at hm
    simp only at hm
    cases hx : dsGet st.ds id with
    | none => simp [step, getOp_eq, ho, hpc, hl, getDS_eq, hx, setOp_eq]
    | some x =>
      rw [hx] at hm
      simp only [beq_eq_false_iff_ne, ne_eq] at hm
      simp [step, getOp_eq, ho, hpc, hl, getDS_eq, hx, hm, setOp_eq]

theorem l5s_step_prepare {st : St} {t : Nat} {o : Op} (ho : alook st.ops t = some o) (hpc : o.pc = .missed) :
    step st (.prepare t) = some { st with
        ds := st.ds ++ [({ id := st.ds.length + 1, db := o.d, sql := o.sql } : DStmt)],
        log := st.log ++ [.prepare (st.ds.length + 1) o.d o.sql],
        ops := ainsert st.ops t { o with pc := .prepared (st.ds.length + 1) } } := by
  simp [step, getOp_eq, ho, hpc, setOp_eq, St.emit]

theorem l5s_step_insert {st : St} {t id : Nat} {o : Op} (ho : alook st.ops t = some o) (hpc : o.pc = .prepared id) :
    step st (.insert t) = some { st with
        ds := evictDs st o.s o.d,
        stmtDB := set2 st.stmtDB o.s o.d id,
        dbStmt := addIdx st.dbStmt o.d o.s,
        ops := ainsert st.ops t { o with pc := .ready id } } := by
  simp only [step, getOp_eq, ho, hpc, setOp_eq, updDS_eq]
  unfold evictDs
  cases lookup2 st.stmtDB o.s o.d <;> rfl

theorem l5s_step_exec {st : St} (hi : Inv st) {t id : Nat} {o : Op} (ho : alook st.ops t = some o)
    (hpc : o.pc = .ready id) :
    step st (.exec t none) = some { st with
        ops := ainsert st.ops t { o with pc := .done },
        log := st.log ++ [.exec id o.d o.sql] } := by
  obtain ⟨x, hx, hdb, hsql, hcc, _⟩ := hi.ops.ready t o id (alook_some_mem ho) hpc
  simp [step, getOp_eq, ho, hpc, getDS_eq, hx, hcc, setOp_eq, St.emit, hdb, hsql]

theorem l5s_step_prepare_none {st : St} {t : Nat} (h : ∀ o, alook st.ops t = some o → o.pc ≠ .missed) :
    step st (.prepare t) = none := by
  cases ho : alook st.ops t with
  | none => simp [step, getOp_eq, ho]
  | some o => have := h o ho; simp [step, getOp_eq, ho, this]

theorem l5s_step_lookup_none {st : St} {t : Nat} (h : ∀ o, alook st.ops t = some o → o.pc ≠ .start) :
    step st (.lookup t) = none := by
  cases ho : alook st.ops t with
  | none => simp [step, getOp_eq, ho]
  | some o => have := h o ho; simp [step, getOp_eq, ho, this]

theorem l5s_step_insert_none {st : St} {t : Nat} (h : ∀ o id, alook st.ops t = some o → o.pc ≠ .prepared id) :
    step st (.insert t) = none := by
  cases ho : alook st.ops t with
  | none => simp [step, getOp_eq, ho]
  | some o =>
    have := h o
    simp only [step, getOp_eq, ho]
    split
    · rename_i id hpc; exact absurd hpc (this id ho)
    · rfl

theorem l5s_step_exec_none {st : St} {t : Nat} {it : Option Nat} (h : ∀ o id, alook st.ops t = some o → o.pc ≠ .ready id) :
    step st (.exec t it) = none := by
  cases ho : alook st.ops t with
  | none => simp [step, getOp_eq, ho]
  | some o =>
    have := h o
    simp only [step, getOp_eq, ho]
    split
    · rename_i id hpc; exact absurd hpc (this id ho)
    · rfl

/-! ### updating the entry of one operation -/

structure L5sSet (ops ops' : List (Nat × Op)) (t : Nat) (v : Op) : Prop where
  look : ∀ k, alook ops' k = if k = t then some v else alook ops k
  mem : ∀ p ∈ ops', p = (t, v) ∨ (p ∈ ops ∧ p.1 ≠ t)

theorem L5sSet.ainsert (ops : List (Nat × Op)) (t : Nat) (v : Op) : L5sSet ops (ainsert ops t v) t v :=
  ⟨fun k => alook_ainsert ops t v k, fun _ hp => mem_ainsert.1 hp⟩

theorem L5sSet.trans {a b c : List (Nat × Op)} {t : Nat} {v v' : Op} (h1 : L5sSet a b t v) (h2 : L5sSet b c t v') :
    L5sSet a c t v' := by
  constructor
  · intro k
    rw [h2.look k]
    by_cases e : k = t
    · simp [e]
    · rw [if_neg e, if_neg e, h1.look k, if_neg e]
  · intro p hp
    rcases h2.mem p hp with e | ⟨hb, hne⟩
    · exact Or.inl e
    · rcases h1.mem p hb with e | ha
      · rw [e] at hne; exact absurd rfl hne
      · exact Or.inr ha

/-! ### running an operation to completion -/

/-- the four steps that run the operation with id `t` -/
def l5s_tail (t : Nat) : List Step := [.lookup t, .prepare t, .insert t, .exec t none]

/-- the effect of running operation `t`, whose Query is `o` -/
structure L5sRan (st st' : St) (t : Nat) (o : Op) : Prop where
  ops : L5sSet st.ops st'.ops t { o with pc := .done }
  liveS : st'.liveS = st.liveS
  liveD : st'.liveD = st.liveD
  nextS : st'.nextS = st.nextS
  nextD : st'.nextD = st.nextD
  iters : st'.iters = st.iters
  events :
    (l5s_hit st o.s o.d o.sql = true ∧ st'.ds = st.ds ∧ st'.stmtDB = st.stmtDB ∧ st'.dbStmt = st.dbStmt ∧
      ∃ id, lookup2 st.stmtDB o.s o.d = some id ∧ st'.log = st.log ++ [.exec id o.d o.sql]) ∨
    (l5s_hit st o.s o.d o.sql = false ∧ st'.ds.length = st.ds.length + 1 ∧
      st'.log = st.log ++ [.prepare (st.ds.length + 1) o.d o.sql, .exec (st.ds.length + 1) o.d o.sql])

theorem l5s_run4 (st : St) (a b c d : Step) :
    run st [a, b, c, d] =
      (step ((step ((step ((step st a).getD st) b).getD ((step st a).getD st)) c).getD
        ((step ((step st a).getD st) b).getD ((step st a).getD st))) d).getD
        ((step ((step ((step st a).getD st) b).getD ((step st a).getD st)) c).getD
          ((step ((step st a).getD st) b).getD ((step st a).getD st))) := rfl

/-- nothing to run: no such operation -/
theorem l5s_tail_none {st : St} {t : Nat} (ho : alook st.ops t = none) : run st (l5s_tail t) = st := by
  have h1 : step st (.lookup t) = none := l5s_step_lookup_none (by intro o h; rw [ho] at h; cases h)
  have h2 : step st (.prepare t) = none := l5s_step_prepare_none (by intro o h; rw [ho] at h; cases h)
  have h3 : step st (.insert t) = none := l5s_step_insert_none (by intro o id h; rw [ho] at h; cases h)
  have h4 : step st (.exec t none) = none := l5s_step_exec_none (by intro o id h; rw [ho] at h; cases h)
  simp only [l5s_tail, l5s_run4, h1, h2, h3, h4, Option.getD_none]

/-- nothing to run: the operation has finished -/
theorem l5s_tail_done {st : St} {t : Nat} {o : Op} (ho : alook st.ops t = some o) (hpc : o.pc = .done) :
    run st (l5s_tail t) = st := by
  have hne : ∀ o', alook st.ops t = some o' → o'.pc = .done := by
    intro o' h; rw [ho] at h; cases h; exact hpc
  have h1 : step st (.lookup t) = none := l5s_step_lookup_none (by intro o' h e; rw [hne o' h] at e; cases e)
  have h2 : step st (.prepare t) = none := l5s_step_prepare_none (by intro o' h e; rw [hne o' h] at e; cases e)
  have h3 : step st (.insert t) = none := l5s_step_insert_none (by intro o' id h e; rw [hne o' h] at e; cases e)
  have h4 : step st (.exec t none) = none := l5s_step_exec_none (by intro o' id h e; rw [hne o' h] at e; cases e)
  simp only [l5s_tail, l5s_run4, h1, h2, h3, h4, Option.getD_none]

/-- running a Query that was built and not yet run -/
theorem l5s_tail_start {st : St} (hi : Inv st) {t : Nat} {o : Op} (ho : alook st.ops t = some o)
    (hpc : o.pc = .start) : L5sRan st (run st (l5s_tail t)) t o := by
  cases hh : l5s_hit st o.s o.d o.sql with
  | true =>
    obtain ⟨id, x, hl, hx, hq⟩ := l5s_hit_iff.1 hh
    have h1 := l5s_step_lookup_hit ho hpc hl hx hq
    obtain ⟨st1, e1⟩ : ∃ st1, st1 = ({ st with ops := ainsert st.ops t { o with pc := .ready id } } : St) := ⟨_, rfl⟩
    rw [← e1] at h1
    have hi1 : Inv st1 := inv_step hi _ h1
    have ho1 : alook st1.ops t = some { o with pc := .ready id } := by rw [e1]; simp [alook_ainsert]
    have hne : ∀ o', alook st1.ops t = some o' → o'.pc = .ready id := by
      intro o' h; rw [ho1] at h; cases h; rfl
    have h2 : step st1 (.prepare t) = none := l5s_step_prepare_none (by intro o' h e; rw [hne o' h] at e; cases e)
    have h3 : step st1 (.insert t) = none := l5s_step_insert_none (by intro o' id' h e; rw [hne o' h] at e; cases e)
    have h4 := l5s_step_exec hi1 ho1 rfl
    simp only [l5s_tail, l5s_run4, h1, h2, h3, h4, Option.getD_none, Option.getD_some]
    rw [e1]
    refine ⟨(L5sSet.ainsert _ _ _).trans (L5sSet.ainsert _ _ _), rfl, rfl, rfl, rfl, rfl, ?_⟩
    exact Or.inl ⟨hh, rfl, rfl, rfl, id, hl, rfl⟩
  | false =>
    have h1 := l5s_step_lookup_miss ho hpc hh
    obtain ⟨st1, e1⟩ : ∃ st1, st1 = ({ st with ops := ainsert st.ops t { o with pc := .missed } } : St) := ⟨_, rfl⟩
    rw [← e1] at h1
    have hi1 : Inv st1 := inv_step hi _ h1
    have ho1 : alook st1.ops t = some { o with pc := .missed } := by rw [e1]; simp [alook_ainsert]
    have h2 := l5s_step_prepare ho1 rfl
    obtain ⟨st2, e2⟩ : ∃ st2, st2 = ({ st1 with
        ds := st1.ds ++ [({ id := st1.ds.length + 1, db := o.d, sql := o.sql } : DStmt)],
        log := st1.log ++ [.prepare (st1.ds.length + 1) o.d o.sql],
        ops := ainsert st1.ops t { o with pc := .prepared (st1.ds.length + 1) } } : St) := ⟨_, rfl⟩
    have h2' : step st1 (.prepare t) = some st2 := by rw [e2]; exact h2
    have hi2 : Inv st2 := inv_step hi1 _ h2'
    have ho2 : alook st2.ops t = some { o with pc := .prepared (st1.ds.length + 1) } := by rw [e2]; simp [alook_ainsert]
    have h3 := l5s_step_insert ho2 rfl
    obtain ⟨st3, e3⟩ : ∃ st3, st3 = ({ st2 with
        ds := evictDs st2 o.s o.d,
        stmtDB := set2 st2.stmtDB o.s o.d (st1.ds.length + 1),
        dbStmt := addIdx st2.dbStmt o.d o.s,
        ops := ainsert st2.ops t { o with pc := .ready (st1.ds.length + 1) } } : St) := ⟨_, rfl⟩
    have h3' : step st2 (.insert t) = some st3 := by rw [e3]; exact h3
    have hi3 : Inv st3 := inv_step hi2 _ h3'
    have ho3 : alook st3.ops t = some { o with pc := .ready (st1.ds.length + 1) } := by rw [e3]; simp [alook_ainsert]
    have h4 := l5s_step_exec hi3 ho3 rfl
    simp only [l5s_tail, l5s_run4, h1, h2', h3', h4, Option.getD_some]
    have hlen : st1.ds.length = st.ds.length := by rw [e1]
    have hev : (evictDs st2 o.s o.d).length = st.ds.length + 1 := by
      unfold evictDs
      split
      · rw [length_upd, e2, e1]; simp
      · rw [e2, e1]; simp
    refine ⟨?_, ?_, ?_, ?_, ?_, ?_, Or.inr ⟨hh, ?_, ?_⟩⟩
    · have s1 : L5sSet st.ops st1.ops t { o with pc := .missed } := by rw [e1]; exact L5sSet.ainsert _ _ _
      have s2 : L5sSet st1.ops st2.ops t { o with pc := .prepared (st1.ds.length + 1) } := by
        rw [e2]; exact L5sSet.ainsert _ _ _
      have s3 : L5sSet st2.ops st3.ops t { o with pc := .ready (st1.ds.length + 1) } := by
        rw [e3]; exact L5sSet.ainsert _ _ _
      exact ((s1.trans s2).trans s3).trans (L5sSet.ainsert _ _ _)
    · show st3.liveS = _; rw [e3, e2, e1]
    · show st3.liveD = _; rw [e3, e2, e1]
    · show st3.nextS = _; rw [e3, e2, e1]
    · show st3.nextD = _; rw [e3, e2, e1]
    · show st3.iters = _; rw [e3, e2, e1]
    · show st3.ds.length = _; rw [e3]; exact hev
    · show st3.log ++ _ = _
      rw [e3, e2, hlen, e1]; simp

end Sqlair.Cache
