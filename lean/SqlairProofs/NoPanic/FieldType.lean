/-
  NoPanic/FieldType (scan side): along a path of the table, `fieldTypeOf` follows existing
  fields — it never takes its degenerate `none` branch (type id 0).  `fieldTypeOf?` is
  `fieldTypeOf` with that branch made visible.
-/
import SqlairProofs.NoPanic.Locs

namespace Sqlair

theorem fieldTypeOf?_aux {tt : TypeTable} : ∀ (path : List Nat) (ty : Nat) (first : Bool),
    (first = true → (tt.get ty).kind ≠ .ptr) →
    (path ≠ [] → (tt.get (npEmbTarget tt ty)).kind = .struct) → PathOK tt (npEmbTarget tt ty) path →
    fieldTypeOf? tt ty path first = some (fieldTypeOf tt ty path first) := by
  intro path
  induction path with
  | nil => intro ty first _ _ _; simp [fieldTypeOf?, fieldTypeOf]
  | cons i rest ih =>
    intro ty first hfirst _ hp
    obtain ⟨fd, hfd, hrest⟩ := hp
    have htd : (if (!first && (tt.get ty).kind == .ptr) = true then tt.get (tt.get ty).elem else tt.get ty)
        = tt.get (npEmbTarget tt ty) := by
      unfold npEmbTarget
      by_cases hkp : (tt.get ty).kind = .ptr
      · have hf : first = false := by
          cases first
          · rfl
          · exact absurd hkp (hfirst rfl)
        simp [hkp, hf]
      · simp [hkp]
    simp only [fieldTypeOf?, fieldTypeOf, htd, hfd]
    rcases hrest with rfl | ⟨hk2, hp2⟩
    · simp [fieldTypeOf?, fieldTypeOf]
    · exact ih fd.ty false (by simp) (fun _ => hk2) hp2

/-- from a struct type, along a path of the table, `fieldTypeOf` follows existing fields -/
theorem fieldTypeOf?_of_pathOK {tt : TypeTable} {sid : Nat} {path : List Nat}
    (hk : (tt.get sid).kind = .struct) (hp : PathOK tt sid path) :
    fieldTypeOf? tt sid path true = some (fieldTypeOf tt sid path true) := by
  have hnp : (tt.get sid).kind ≠ .ptr := by rw [hk]; simp
  have he : npEmbTarget tt sid = sid := by simp [npEmbTarget, hnp]
  exact fieldTypeOf?_aux path sid true (fun _ => hnp) (fun _ => by rw [he]; exact hk) (by rw [he]; exact hp)

/-- the type `locateTarget` reports for a `GenOK` field locator is the type of an existing
    field of the table -/
theorem locateTarget_field_type {C : Cls} {tt : TypeTable} {dests : List Dest} {m : List (Nat × Nat)}
    {l : Loc} (hl : l.GenOK C tt) {di fty : Nat} {idx : List Nat} {cat : FieldCat}
    (h : locateTarget tt dests m l = .ok (.field di idx fty cat)) :
    fieldTypeOf? tt l.tid idx true = some fty := by
  cases l with
  | slice tid n => simp [locateTarget] at h
  | mapKey tid n key =>
    simp only [locateTarget] at h
    split at h <;> cases h
  | field tid n f =>
    have hp := hl.pathOK
    obtain ⟨hk, _⟩ := hl
    simp only [locateTarget] at h
    split at h
    · cases h
    · split at h
      · cases h
        exact fieldTypeOf?_of_pathOK hk hp
      · cases h

end Sqlair
