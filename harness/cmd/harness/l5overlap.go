package main

// Directed scenario of the cache layer (C16): two retrievals from Queries of one Statement
// overlap at the granularity of a single row's scan.  Goroutine A is held inside rows.Scan
// (through a Scanner member of its destination) while goroutine B runs a whole retrieval on
// another Query of the same Statement (or of a Statement prepared separately from the same
// text); A then finishes.  Each must end up with exactly the rows the driver served to its own
// query, and the driver must have seen each query with its own arguments.  Random schedules of
// the concurrent runs practically never put one goroutine between another's ScanArgs and
// OnSuccess; this scenario does, deterministically (added for the seeded change C16l).

import (
	"context"
	"database/sql/driver"
	"fmt"
	"time"

	"github.com/canonical/sqlair"

	"verifharness/internal/fakedrv"
)

type ovHold struct {
	V    int64
	hook func()
}

func (h *ovHold) Scan(v any) error {
	if f := h.hook; f != nil {
		h.hook = nil
		f()
	}
	x, ok := v.(int64)
	if !ok {
		return fmt.Errorf("ovHold: unexpected %T", v)
	}
	h.V = x
	return nil
}

type ovRow struct {
	ID int64  `db:"id"`
	Z  ovHold `db:"z"`
}

type ovArg struct {
	K int64 `db:"k"`
}

type ovCase struct {
	Inputs   bool   `json:"inputs"`   // the statement has an input expression
	A        string `json:"a"`        // get | iter1 | iter2 : where A is held
	B        string `json:"b"`        // get | getall | iter
	Separate bool   `json:"separate"` // B uses a Statement prepared separately from the same text
}

func ovCases() []ovCase {
	var cs []ovCase
	for _, in := range []bool{false, true} {
		for _, a := range []string{"get", "iter1", "iter2"} {
			for _, b := range []string{"get", "getall", "iter"} {
				for _, sep := range []bool{false, true} {
					cs = append(cs, ovCase{Inputs: in, A: a, B: b, Separate: sep})
				}
			}
		}
	}
	return cs
}

// runOverlap returns "" when both retrievals saw their own rows and arguments.
func runOverlap(c ovCase) (why string) {
	defer func() {
		if p := recover(); p != nil {
			why = fmt.Sprint("panic: ", p)
		}
	}()
	text := "SELECT &ovRow.* FROM t"
	if c.Inputs {
		text += " WHERE k = $ovArg.k"
	}
	sA, err := sqlair.Prepare(text, ovRow{}, ovArg{})
	if !c.Inputs {
		sA, err = sqlair.Prepare(text, ovRow{})
	}
	if err != nil {
		return "prepare: " + err.Error()
	}
	sB := sA
	if c.Separate {
		if c.Inputs {
			sB, err = sqlair.Prepare(text, ovRow{}, ovArg{})
		} else {
			sB, err = sqlair.Prepare(text, ovRow{})
		}
		if err != nil {
			return "prepare: " + err.Error()
		}
	}
	sqldb, st := fakedrv.Open()
	defer sqldb.Close()
	db := sqlair.NewDB(sqldb)
	st.SetScript(fakedrv.Script{Columns: []string{"_sqlair_0", "_sqlair_1"}})
	ctx := context.Background()
	args := func(k int64) []any {
		if c.Inputs {
			return []any{ovArg{K: k}}
		}
		return nil
	}
	rowsA := [][]driver.Value{{int64(1), int64(10)}, {int64(2), int64(20)}}
	rowsB := [][]driver.Value{{int64(3), int64(30)}, {int64(4), int64(40)}, {int64(5), int64(50)}}

	inScan := make(chan struct{})
	bDone := make(chan struct{})
	hold := func() {
		close(inScan)
		select {
		case <-bDone:
		case <-time.After(8 * time.Second):
		}
	}
	var gotA []ovRow
	errA := make(chan error, 1)
	st.SetRows(rowsA)
	qA := db.Query(ctx, sA, args(7)...)
	started := make(chan struct{})
	go func() {
		var e error
		defer func() {
			if p := recover(); p != nil {
				e = fmt.Errorf("panic: %v", p)
			}
			errA <- e
		}()
		switch c.A {
		case "get":
			var a ovRow
			a.Z.hook = hold
			close(started)
			e = qA.Get(&a)
			gotA = []ovRow{a}
		default:
			it := qA.Iter()
			close(started)
			n := 0
			for it.Next() {
				var a ovRow
				n++
				if (c.A == "iter1" && n == 1) || (c.A == "iter2" && n == 2) {
					a.Z.hook = hold
				}
				if e = it.Get(&a); e != nil {
					break
				}
				gotA = append(gotA, a)
			}
			if ce := it.Close(); e == nil {
				e = ce
			}
		}
	}()
	<-started
	select {
	case <-inScan:
	case e := <-errA:
		return fmt.Sprint("A finished without being held in a scan: ", e)
	case <-time.After(8 * time.Second):
		return "A never reached the scan of its row"
	}
	// A has issued its query (its rows are fixed); B now retrieves other rows
	st.SetRows(rowsB)
	qB := db.Query(ctx, sB, args(9)...)
	var gotB []ovRow
	var errB error
	switch c.B {
	case "get":
		var b ovRow
		errB = qB.Get(&b)
		gotB = []ovRow{b}
	case "getall":
		errB = qB.GetAll(&gotB)
	default:
		it := qB.Iter()
		for it.Next() {
			var b ovRow
			if errB = it.Get(&b); errB != nil {
				break
			}
			gotB = append(gotB, b)
		}
		if ce := it.Close(); errB == nil {
			errB = ce
		}
	}
	close(bDone)
	var eA error
	select {
	case eA = <-errA:
	case <-time.After(10 * time.Second):
		return "A did not finish after B had"
	}
	if eA != nil {
		return "A: " + eA.Error()
	}
	if errB != nil {
		return "B: " + errB.Error()
	}
	want := func(rows [][]driver.Value, n int) string {
		s := ""
		for _, r := range rows[:n] {
			s += fmt.Sprint(r[0], ":", r[1], " ")
		}
		return s
	}
	have := func(rs []ovRow) string {
		s := ""
		for _, r := range rs {
			s += fmt.Sprint(r.ID, ":", r.Z.V, " ")
		}
		return s
	}
	nA := len(rowsA)
	if c.A == "get" {
		nA = 1
	}
	nB := len(rowsB)
	if c.B == "get" {
		nB = 1
	}
	if have(gotA) != want(rowsA, nA) {
		return fmt.Sprintf("A (held in the scan of a row while B retrieved) ended with rows [%s], the driver served it [%s]", have(gotA), want(rowsA, nA))
	}
	if have(gotB) != want(rowsB, nB) {
		return fmt.Sprintf("B (retrieving while A was held in a scan) ended with rows [%s], the driver served it [%s]", have(gotB), want(rowsB, nB))
	}
	// the driver saw two queries with the same SQL, each with its own argument
	var qs []fakedrv.Event
	for _, e := range st.Events() {
		if e.Kind == "query" {
			qs = append(qs, e)
		}
	}
	if len(qs) != 2 {
		return fmt.Sprintf("the driver saw %d queries, 2 were run", len(qs))
	}
	if qs[0].SQL != qs[1].SQL {
		return fmt.Sprintf("the two runs sent different SQL: %q and %q", qs[0].SQL, qs[1].SQL)
	}
	if c.Inputs && (fmt.Sprint(qs[0].Args) != "[int64:7]" || fmt.Sprint(qs[1].Args) != "[int64:9]") {
		return fmt.Sprintf("arguments at the driver: %v and %v, wanted [int64:7] and [int64:9]", qs[0].Args, qs[1].Args)
	}
	return ""
}
