/-
  L4Sound, the call sequence of an `iter` case: one step of `runCalls` by kind of call, and
  induction over the calls zipped with their results.
-/
import SqlairProofs.L4Sound.C15

namespace Sqlair.Rt

/-- the argument list a Get-like call name stands for -/
def l4s_argsOf (call : String) : GetArgs :=
  if call == "get" then .valid else if call == "getoutcome" then .outcome
  else if call == "getniloutcome" then .nilOutcome else .invalid

/-- how `runCalls` prints the result of a Get -/
def l4s_renderGet : GetOut → String
  | .row id => l4s_rowStr id
  | .outcome none => "outcome:nil"
  | .outcome (some n) => s!"outcome:{n}"
  | .err e => e.render

theorem l4s_callStep_next (it : Iter) (w : World) :
    callStep "next" it w = ((it.next w).1, (it.next w).2.1, toString (it.next w).2.2) := rfl

theorem l4s_callStep_close (it : Iter) (w : World) :
    callStep "close" it w = ((it.close w).1, (it.close w).2.1, renderOpt (it.close w).2.2) := rfl

theorem l4s_callStep_get {call : String} (h1 : call ≠ "next") (h2 : call ≠ "close") (it : Iter) (w : World) :
    callStep call it w = (it, w, l4s_renderGet (it.get (l4s_argsOf call))) := by
  unfold callStep
  split
  · exact absurd rfl h1
  · exact absurd rfl h2
  · show (match it.get (l4s_argsOf call) with
      | .row id => (it, w, s!"row:{id}")
      | .outcome none => (it, w, "outcome:nil")
      | .outcome (some n) => (it, w, s!"outcome:{n}")
      | .err e => (it, w, e.render)) = _
    cases hg : it.get (l4s_argsOf call) with
    | row id => rfl
    | err e => rfl
    | outcome r => cases r <;> rfl

/-- the call the model's iterator receives: with too few columns every `get` is refused -/
def l4s_callMap (fewCols : Bool) (x : String) : String :=
  if fewCols then (if x == "get" then "getinvalid" else x) else x

theorem l4s_calls_eq (c : Case) : l4s_calls c = c.calls.map (l4s_callMap c.fewCols) := by
  unfold l4s_calls l4s_callMap
  cases c.fewCols <;> simp

theorem l4s_callMap_next (b : Bool) (x : String) : l4s_callMap b x = "next" ↔ x = "next" := by
  unfold l4s_callMap
  cases b
  · simp
  · by_cases h : x = "get"
    · subst h; simp
    · simp [h]

theorem l4s_callMap_close (b : Bool) (x : String) : l4s_callMap b x = "close" ↔ x = "close" := by
  unfold l4s_callMap
  cases b
  · simp
  · by_cases h : x = "get"
    · subst h; simp
    · simp [h]

/-- the arguments of a Get-like call as the model's iterator receives it -/
theorem l4s_argsOf_callMap (b : Bool) (x : String) :
    l4s_argsOf (l4s_callMap b x) = if b && x == "get" then .invalid else l4s_argsOf x := by
  unfold l4s_callMap
  cases b
  · simp
  · by_cases h : x = "get"
    · subst h; simp [l4s_argsOf]
    · simp [h]

/-- induction over the calls of a case zipped with their results: an invariant of the
    iterator, kept by cancellation and by every call, gives a property of every pair -/
theorem l4s_runCalls_zip_all (f : String → String) (cancelAt : Option Nat) (Inv : Iter → World → Prop)
    (Q : String × String → Prop)
    (hcancel : ∀ i it w, Inv it w → Inv (preCancel cancelAt i it w).1 (preCancel cancelAt i it w).2)
    (hstep : ∀ call it w, Inv it w →
      Inv (callStep (f call) it w).1 (callStep (f call) it w).2.1 ∧ Q (call, (callStep (f call) it w).2.2))
    (cs : List String) : ∀ (l : List String) (i : Nat) (it : Iter) (w : World), Inv it w →
      ∀ p ∈ l.zip (runCalls cs cancelAt i it w (l.map f)).2.2, Q p := by
  intro l
  induction l with
  | nil => intro i it w _ p hp; simp at hp
  | cons call rest ih =>
    intro i it w hinv p hp
    rw [List.map_cons, runCalls_cons] at hp
    simp only [List.zip_cons_cons, List.mem_cons] at hp
    have h1 := hcancel i it w hinv
    have h2 := hstep call _ _ h1
    rcases hp with rfl | hp
    · exact h2.2
    · exact ih _ _ _ h2.1 p hp

theorem l4s_runCalls_length (cs : List String) (cancelAt : Option Nat) :
    ∀ (l : List String) (i : Nat) (it : Iter) (w : World), (runCalls cs cancelAt i it w l).2.2.length = l.length := by
  intro l
  induction l with
  | nil => intro i it w; rfl
  | cons call rest ih => intro i it w; rw [runCalls_cons]; simp [ih]

end Sqlair.Rt
