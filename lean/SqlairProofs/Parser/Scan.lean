/-
  Scanner primitives: `advanceChar`, `skipChar`, `skipCharFind`, `skipString`,
  `skipComment`, `skipStringLiteral`, `skipBlanks`, the name loop.
  Each keeps the scanner invariant `Good`, never moves backwards, and the fuel of its
  loop is never exhausted.
-/
import SqlairProofs.Parser.Lines

namespace Sqlair

section
variable {E : Env}

/-! ### contracts -/

/-- contract of a `Sc × Bool` skipper: on `true` it moved forward, on `false` it is the
    entry state -/
structure BOK (E : Env) (s : Sc) (r : Sc × Bool) : Prop where
  good : Good E r.1
  mono : s.pos ≤ r.1.pos
  prog : r.2 = true → s.pos < r.1.pos
  rest : r.2 = false → r.1 = s

/-- an error position is the position of some offset of the input -/
def ErrPos (E : Env) (e : PErr) : Prop := ∃ off, off ≤ E.len ∧ (e.line, e.col) = lineColOf E.inp off

/-- a reported error is not the fuel artefact, and it is positioned inside the input; for
    the `unqualified` error (whose line is taken after the type name and whose column
    before it) the latter needs that names cannot span lines -/
structure ErrOK (E : Env) (e : PErr) : Prop where
  not_fuel : e.kind ≠ EKind.fuel
  pos : (ClassOK E ∨ ∀ n, e.kind ≠ EKind.unqualified n) → ErrPos E e

/-- contract of a `Sc × Res α` parse function relative to the state `s` -/
structure ROK {α : Type} (E : Env) (s : Sc) (r : Sc × Res α) : Prop where
  good : Good E r.1
  mono : s.pos ≤ r.1.pos
  err : ∀ e, r.2 = .err e → ErrOK E e

theorem errAt_ok {s : Sc} (g : Good E s) {k : EKind} (hk : k ≠ EKind.fuel) : ErrOK E (errAt s k) where
  not_fuel := hk
  pos := fun _ => ⟨s.pos, g.pos_le, g.lineCol⟩

/-! ### advanceChar -/

theorem advanceChar_pos (s : Sc) : (advanceChar E s).pos = s.nextPos := by
  unfold advanceChar; simp only []; split <;> split <;> rfl

theorem advanceChar_lineNum (s : Sc) :
    (advanceChar E s).lineNum = if s.char = 10 ∧ s.pos < E.len then s.lineNum + 1 else s.lineNum := by
  unfold advanceChar; simp only []; split <;> split <;> rfl

theorem advanceChar_lineStart (s : Sc) :
    (advanceChar E s).lineStart = if s.char = 10 ∧ s.pos < E.len then s.nextPos else s.lineStart := by
  unfold advanceChar; simp only []; split <;> split <;> rfl

theorem advanceChar_nextPos (s : Sc) :
    (advanceChar E s).nextPos =
      if s.nextPos ≥ E.len then s.nextPos else s.nextPos + (E.dec E.inp s.nextPos).2 := by
  unfold advanceChar; simp only []; split <;> split <;> rfl

theorem advanceChar_char (s : Sc) :
    (advanceChar E s).char = if s.nextPos ≥ E.len then 0 else (E.dec E.inp s.nextPos).1 := by
  unfold advanceChar; simp only []; split <;> split <;> rfl

theorem advanceChar_good (h : DecOK E) {s : Sc} (g : Good E s) : Good E (advanceChar E s) := by
  have hle := g.pos_le
  by_cases hp : s.pos < E.len
  · obtain ⟨hn, hc⟩ := g.next hp
    have h1 := h.size_pos s.pos hp
    have h2 := h.size_le s.pos hp
    apply Good.mk'
    · rw [advanceChar_pos]; omega
    · intro hlt
      rw [advanceChar_pos] at hlt
      rw [advanceChar_pos, advanceChar_nextPos, advanceChar_char, if_neg (by omega), if_neg (by omega)]
      exact ⟨rfl, rfl⟩
    · intro heq
      rw [advanceChar_pos] at heq
      rw [advanceChar_pos, advanceChar_nextPos, if_pos (by omega)]
    · rw [advanceChar_lineNum, advanceChar_pos]
      by_cases h10 : s.char = 10
      · rw [if_pos ⟨h10, hp⟩]
        obtain ⟨hsz, hb⟩ := h.nl s.pos hp (hc ▸ h10)
        rw [hn, hsz, nlCount_succ _ _ hp, if_pos hb, g.lineNum_eq]; omega
      · rw [if_neg (fun hc' => h10 hc'.1), hn]
        have := no_nl_stretch E.inp s.pos _ h2 (h.no_nl s.pos hp (hc ▸ h10))
        rw [this.1, g.lineNum_eq]
    · rw [advanceChar_lineStart, advanceChar_pos]
      by_cases h10 : s.char = 10
      · rw [if_pos ⟨h10, hp⟩]
        obtain ⟨hsz, hb⟩ := h.nl s.pos hp (hc ▸ h10)
        rw [hn, hsz, lastNl_succ_nl _ _ hb]
      · rw [if_neg (fun hc' => h10 hc'.1), hn]
        have := no_nl_stretch E.inp s.pos _ h2 (h.no_nl s.pos hp (hc ▸ h10))
        rw [this.2, g.lineStart_eq]
  · have hpe : s.pos = E.len := by omega
    have hn := g.next_eof hpe
    apply Good.mk'
    · rw [advanceChar_pos]; omega
    · intro hlt; rw [advanceChar_pos] at hlt; omega
    · intro _; rw [advanceChar_pos, advanceChar_nextPos, if_pos (by omega)]
    · rw [advanceChar_lineNum, advanceChar_pos, if_neg (fun hc => hp hc.2), hn, g.lineNum_eq]
    · rw [advanceChar_lineStart, advanceChar_pos, if_neg (fun hc => hp hc.2), hn, g.lineStart_eq]

theorem advanceChar_mono {s : Sc} (g : Good E s) : s.pos ≤ (advanceChar E s).pos := by
  rw [advanceChar_pos]
  by_cases hp : s.pos < E.len
  · have := (g.next hp).1; omega
  · have := g.next_eof (by have := g.pos_le; omega); omega

theorem advanceChar_lt (h : DecOK E) {s : Sc} (g : Good E s) (hp : s.pos < E.len) :
    s.pos < (advanceChar E s).pos := by
  rw [advanceChar_pos]
  have := (g.next hp).1
  have := h.size_pos s.pos hp
  omega

/-- plain contract of a state transformer -/
structure Post (E : Env) (s s' : Sc) : Prop where
  good : Good E s'
  mono : s.pos ≤ s'.pos

theorem advanceChar_post (h : DecOK E) {s : Sc} (g : Good E s) : Post E s (advanceChar E s) :=
  ⟨advanceChar_good h g, advanceChar_mono g⟩

theorem BOK.refl {s : Sc} (g : Good E s) : BOK E s (s, false) :=
  ⟨g, Nat.le_refl _, fun hf => Bool.noConfusion hf, fun _ => rfl⟩

theorem BOK.adv {s s' : Sc} (g : Good E s') (hlt : s.pos < s'.pos) : BOK E s (s', true) :=
  ⟨g, Nat.le_of_lt hlt, fun _ => hlt, fun hf => Bool.noConfusion hf⟩

/-! ### skipChar -/

theorem skipChar_bok (h : DecOK E) (c : Nat) {s : Sc} (g : Good E s) : BOK E s (skipChar E c s) := by
  unfold skipChar
  split
  · next hc =>
    exact BOK.adv (advanceChar_good h g) (advanceChar_lt h g hc.1)
  · exact BOK.refl g

theorem skipChar_true {c : Nat} {s : Sc} (ht : (skipChar E c s).2 = true) :
    s.pos < E.len ∧ s.char = c ∧ (skipChar E c s).1 = advanceChar E s := by
  unfold skipChar at ht ⊢
  split
  · next hc => exact ⟨hc.1, hc.2, rfl⟩
  · next hc => rw [if_neg hc] at ht; cases ht

/-- skipping a character other than the newline stays on the line, strictly after its start -/
theorem skipChar_sameLine {c : Nat} (hc : c ≠ 10) (h : DecOK E) {s : Sc} (g : Good E s)
    (ht : (skipChar E c s).2 = true) :
    (skipChar E c s).1.lineNum = s.lineNum ∧ (skipChar E c s).1.lineStart < (skipChar E c s).1.pos := by
  obtain ⟨hp, hch, heq⟩ := skipChar_true ht
  rw [heq, advanceChar_lineNum, advanceChar_lineStart,
    if_neg (fun hx => hc (hch ▸ hx.1)), if_neg (fun hx => hc (hch ▸ hx.1))]
  have := advanceChar_lt h g hp
  have := g.lineStart_le
  exact ⟨rfl, by omega⟩

/-! ### skipCharFind -/

theorem skipCharFindLoop_spec (h : DecOK E) (c : Nat) (f : Nat) {s : Sc} (g : Good E s)
    (hf : E.len - s.pos < f) :
    ∃ r, skipCharFindLoop E c f s = some r ∧ ∀ s', r = some s' → Good E s' ∧ s.pos < s'.pos := by
  induction f generalizing s with
  | zero => omega
  | succ f ih =>
    unfold skipCharFindLoop
    split
    · next hp =>
      split
      · exact ⟨_, rfl, fun s' hs' => by cases hs'; exact ⟨advanceChar_good h g, advanceChar_lt h g hp⟩⟩
      · have hlt := advanceChar_lt h g hp
        obtain ⟨r, hr, hr'⟩ := ih (advanceChar_good h g) (by omega)
        exact ⟨r, hr, fun s' hs' => ⟨(hr' s' hs').1, by have := (hr' s' hs').2; omega⟩⟩
    · exact ⟨_, rfl, fun s' hs' => by cases hs'⟩

theorem skipCharFindLoop_isSome (h : DecOK E) (c : Nat) {s : Sc} (g : Good E s) :
    (skipCharFindLoop E c (E.len + 1) s).isSome = true := by
  obtain ⟨r, hr, _⟩ := skipCharFindLoop_spec h c (E.len + 1) g (by omega)
  rw [hr]; rfl

theorem skipCharFind_bok (h : DecOK E) (c : Nat) {s : Sc} (g : Good E s) :
    BOK E s (skipCharFind E c s) := by
  unfold skipCharFind
  obtain ⟨r, hr, hr'⟩ := skipCharFindLoop_spec h c (E.len + 1) g (by omega)
  rw [hr]
  cases r with
  | none => exact BOK.refl g
  | some s' =>
    obtain ⟨g', hlt⟩ := hr' s' rfl
    exact BOK.adv g' hlt

/-! ### skipString -/

theorem asciiLower_eq_10 {k : Nat} (h : asciiLower k = 10) : k = 10 := by
  unfold asciiLower at h; split at h <;> omega

theorem foldEqAt_no_nl (inp : Bytes) (kw : List Nat) (hkw : ∀ k, k ∈ kw → k ≠ 10) (p : Nat)
    (h : foldEqAt inp p kw = true) : ∀ i, p ≤ i → i < p + kw.length → bAt inp i ≠ 10 := by
  induction kw generalizing p with
  | nil => intro i h1 h2; simp at h2; omega
  | cons k ks ih =>
    unfold foldEqAt at h
    rw [Bool.and_eq_true, beq_iff_eq] at h
    intro i h1 h2
    by_cases hi : i = p
    · subst hi
      intro hc
      rw [hc] at h
      have : asciiLower k = 10 := by rw [← h.1]; rfl
      exact hkw k (List.mem_cons_self) (asciiLower_eq_10 this)
    · exact ih (fun k hk => hkw k (List.mem_cons_of_mem _ hk)) (p+1) h.2 i (by omega)
        (by simp only [List.length_cons] at h2; omega)

theorem skipString_bok (kw : List Nat) (hne : 0 < kw.length) (hkw : ∀ k, k ∈ kw → k ≠ 10)
    {s : Sc} (g : Good E s) : BOK E s (skipString E kw s) := by
  unfold skipString
  split
  · next hc =>
    obtain ⟨hle, hfold⟩ := hc
    have hst := no_nl_stretch E.inp s.pos kw.length hle (foldEqAt_no_nl E.inp kw hkw s.pos hfold)
    refine BOK.adv ?_ (by simp only []; omega)
    apply Good.mk'
    · exact hle
    · intro hlt
      simp only [] at hlt ⊢
      rw [if_pos hlt]; exact ⟨rfl, rfl⟩
    · intro heq
      simp only [] at heq ⊢
      rw [if_neg (by omega)]; rfl
    · simp only []; rw [hst.1]; exact g.lineNum_eq
    · simp only []; rw [hst.2]; exact g.lineStart_eq
  · exact BOK.refl g

theorem kwAS_ok : 0 < kwAS.length ∧ ∀ k, k ∈ kwAS → k ≠ 10 := by decide
theorem kwVALUES_ok : 0 < kwVALUES.length ∧ ∀ k, k ∈ kwVALUES → k ≠ 10 := by decide

theorem skipString_AS_bok {s : Sc} (g : Good E s) : BOK E s (skipString E kwAS s) :=
  skipString_bok kwAS kwAS_ok.1 kwAS_ok.2 g

theorem skipString_VALUES_bok {s : Sc} (g : Good E s) : BOK E s (skipString E kwVALUES s) :=
  skipString_bok kwVALUES kwVALUES_ok.1 kwVALUES_ok.2 g


/-! ### skipComment -/

theorem commentLoop_spec (h : DecOK E) (endc : Nat) (f : Nat) {s : Sc} (g : Good E s)
    (hf : E.len - s.pos < f) :
    ∃ s', commentLoop E endc f s = some s' ∧ Post E s s' := by
  induction f generalizing s with
  | zero => omega
  | succ f ih =>
    unfold commentLoop
    split
    · next hp =>
      have ha := advanceChar_post h g
      have hlt := advanceChar_lt h g hp
      split
      · split
        · have hb := skipChar_bok h 47 ha.good
          simp only []
          split
          · exact ⟨_, rfl, hb.good, by have := hb.mono; omega⟩
          · obtain ⟨s', hs', hp'⟩ := ih hb.good (by have := hb.mono; omega)
            exact ⟨s', hs', hp'.good, by have := hb.mono; have := hp'.mono; omega⟩
        · exact ⟨_, rfl, g, Nat.le_refl _⟩
      · obtain ⟨s', hs', hp'⟩ := ih ha.good (by omega)
        exact ⟨s', hs', hp'.good, by have := hp'.mono; omega⟩
    · exact ⟨_, rfl, g, Nat.le_refl _⟩

theorem skipComment_bok (h : DecOK E) {s : Sc} (g : Good E s) : BOK E s (skipComment E s) := by
  unfold skipComment
  extract_lets c r1 r1' r2
  have hb1 : BOK E s r1' := by
    unfold r1'
    split
    · exact skipChar_bok h 45 g
    · exact skipChar_bok h 47 g
  have hb2 : Post E r1'.1 r2.1 := by
    unfold r2
    split
    · have := skipChar_bok h 45 hb1.good; exact ⟨this.good, this.mono⟩
    · split
      · have := skipChar_bok h 42 hb1.good; exact ⟨this.good, this.mono⟩
      · exact ⟨hb1.good, Nat.le_refl _⟩
  split
  · next hr1 =>
    have hlt := hb1.prog hr1
    split
    · obtain ⟨s3, hs3, hp3⟩ := commentLoop_spec h (if c = 45 then 10 else 42) (E.len + 1) hb2.good (by omega)
      rw [hs3]
      exact BOK.adv hp3.good (by have := hp3.mono; have := hb2.mono; omega)
    · exact BOK.refl g
  · exact BOK.refl g


theorem commentLoop_isSome (h : DecOK E) (endc : Nat) {s : Sc} (g : Good E s) :
    (commentLoop E endc (E.len + 1) s).isSome = true := by
  obtain ⟨r, hr, _⟩ := commentLoop_spec h endc (E.len + 1) g (by omega)
  rw [hr]; rfl

/-! ### skipStringLiteral -/

theorem strLitLoop_spec (h : DecOK E) (c : Nat) (f : Nat) (b : Bool) {s : Sc} (g : Good E s)
    (hf : E.len - s.pos < f) :
    ∃ r, strLitLoop E c f b s = some r ∧ ∀ s', r = some s' → Good E s' ∧ s.pos < s'.pos := by
  induction f generalizing s b with
  | zero => omega
  | succ f ih =>
    unfold strLitLoop
    extract_lets r
    have hb : BOK E s r := skipCharFind_bok h c g
    split
    · next hr =>
      have hlt := hb.prog hr
      split
      · exact ⟨_, rfl, fun s' hs' => by cases hs'; exact ⟨hb.good, hlt⟩⟩
      · have := hb.good.pos_le
        obtain ⟨r', hr', hr''⟩ := ih (!b) hb.good (by omega)
        exact ⟨r', hr', fun s' hs' => ⟨(hr'' s' hs').1, by have := (hr'' s' hs').2; omega⟩⟩
    · exact ⟨_, rfl, fun s' hs' => by cases hs'⟩

theorem strLitLoop_isSome (h : DecOK E) (c : Nat) (b : Bool) {s : Sc} (g : Good E s) :
    (strLitLoop E c (E.len + 1) b s).isSome = true := by
  obtain ⟨r, hr, _⟩ := strLitLoop_spec h c (E.len + 1) b g (by omega)
  rw [hr]; rfl

/-- contract of `skipStringLiteral`, `skipEnclosedParentheses`: `ROK` and strict progress on
    success -/
structure SOK {α : Type} (E : Env) (s : Sc) (r : Sc × Res α) : Prop extends ROK E s r where
  prog : ∀ x, r.2 = .ok x → s.pos < r.1.pos

theorem ROK.refl_no {α : Type} {s : Sc} (g : Good E s) : ROK (α := α) E s (s, .no) :=
  ⟨g, Nat.le_refl _, fun _ he => by cases he⟩

theorem ROK.refl_err {α : Type} {s : Sc} (g : Good E s) {e : PErr} (he : ErrOK E e) :
    ROK (α := α) E s (s, .err e) :=
  ⟨g, Nat.le_refl _, fun _ h => by cases h; exact he⟩

theorem ROK.mk_ok {α : Type} {s s' : Sc} (g : Good E s') (hle : s.pos ≤ s'.pos) (x : α) :
    ROK E s (s', .ok x) :=
  ⟨g, hle, fun _ he => by cases he⟩

theorem ROK.mk_no {α : Type} {s s' : Sc} (g : Good E s') (hle : s.pos ≤ s'.pos) :
    ROK (α := α) E s (s', .no) :=
  ⟨g, hle, fun _ he => by cases he⟩

theorem ROK.mk_err {α : Type} {s s' : Sc} (g : Good E s') (hle : s.pos ≤ s'.pos) {e : PErr}
    (he : ErrOK E e) : ROK (α := α) E s (s', .err e) :=
  ⟨g, hle, fun _ h => by cases h; exact he⟩

theorem SOK.refl_no {α : Type} {s : Sc} (g : Good E s) : SOK (α := α) E s (s, .no) :=
  ⟨ROK.refl_no g, fun _ hx => (by cases hx)⟩

theorem SOK.refl_err {α : Type} {s : Sc} (g : Good E s) {e : PErr} (he : ErrOK E e) :
    SOK (α := α) E s (s, .err e) :=
  ⟨ROK.refl_err g he, fun _ hx => (by cases hx)⟩

theorem SOK.mk_ok {α : Type} {s s' : Sc} (g : Good E s') (hlt : s.pos < s'.pos) (x : α) :
    SOK E s (s', .ok x) :=
  ⟨ROK.mk_ok g (Nat.le_of_lt hlt) x, fun _ _ => hlt⟩

theorem skipStringLiteral_sok (h : DecOK E) {s : Sc} (g : Good E s) :
    SOK E s (skipStringLiteral E s) := by
  unfold skipStringLiteral
  extract_lets c r r'
  have hb : BOK E s r' := by
    unfold r'
    split
    · exact skipChar_bok h 34 g
    · exact skipChar_bok h 39 g
  split
  · next hr =>
    have hlt := hb.prog hr
    obtain ⟨x, hx, hx'⟩ := strLitLoop_spec h c (E.len + 1) true hb.good (by omega)
    rw [hx]
    cases x with
    | none =>
      exact SOK.refl_err g (errAt_ok g (by simp))
    | some s' =>
      obtain ⟨g', hlt'⟩ := hx' s' rfl
      exact SOK.mk_ok g' (by omega) ()
  · exact SOK.refl_no g

/-! ### skipBlanks -/

theorem blanksLoop_spec (h : DecOK E) (f : Nat) {s : Sc} (g : Good E s) (hf : E.len - s.pos < f) :
    ∃ s', blanksLoop E f s = some s' ∧ Post E s s' := by
  induction f generalizing s with
  | zero => omega
  | succ f ih =>
    unfold blanksLoop
    split
    · next hp =>
      extract_lets r
      have hb : BOK E s r := skipComment_bok h g
      split
      · next hr =>
        have hlt := hb.prog hr
        obtain ⟨s', hs', hp'⟩ := ih hb.good (by omega)
        exact ⟨s', hs', hp'.good, by have := hp'.mono; omega⟩
      · split
        · have hlt := advanceChar_lt h g hp
          obtain ⟨s', hs', hp'⟩ := ih (advanceChar_good h g) (by omega)
          exact ⟨s', hs', hp'.good, by have := hp'.mono; omega⟩
        · exact ⟨_, rfl, g, Nat.le_refl _⟩
    · exact ⟨_, rfl, g, Nat.le_refl _⟩

theorem blanksLoop_isSome (h : DecOK E) {s : Sc} (g : Good E s) :
    (blanksLoop E (E.len + 1) s).isSome = true := by
  obtain ⟨r, hr, _⟩ := blanksLoop_spec h (E.len + 1) g (by omega)
  rw [hr]; rfl

theorem skipBlanks_post (h : DecOK E) {s : Sc} (g : Good E s) : Post E s (skipBlanks E s) := by
  unfold skipBlanks
  obtain ⟨r, hr, hp⟩ := blanksLoop_spec h (E.len + 1) g (by omega)
  rw [hr]; exact hp

/-! ### names -/

theorem isNameChar_ne_nl (hc : ClassOK E) {c : Nat} (h : isNameChar E c = true) : c ≠ 10 := by
  intro h10; subst h10
  unfold isNameChar at h
  rw [hc.letter_nl, hc.digit_nl] at h
  cases h

theorem isInitialNameChar_ne_nl (hc : ClassOK E) {c : Nat} (h : isInitialNameChar E c = true) : c ≠ 10 := by
  intro h10; subst h10
  unfold isInitialNameChar at h
  rw [hc.letter_nl] at h
  cases h

theorem nameLoop_spec (h : DecOK E) (f : Nat) {s : Sc} (g : Good E s) (hf : E.len - s.pos < f) :
    ∃ s', nameLoop E f s = some s' ∧ Post E s s' ∧ (ClassOK E → s'.lineNum = s.lineNum) := by
  induction f generalizing s with
  | zero => omega
  | succ f ih =>
    unfold nameLoop
    split
    · next hp =>
      have hlt := advanceChar_lt h g hp.1
      obtain ⟨s', hs', hp', hl⟩ := ih (advanceChar_good h g) (by omega)
      refine ⟨s', hs', ⟨hp'.good, by have := hp'.mono; omega⟩, fun hc => ?_⟩
      rw [hl hc, advanceChar_lineNum, if_neg (fun hx => isNameChar_ne_nl hc hp.2 hx.1)]
    · exact ⟨_, rfl, ⟨g, Nat.le_refl _⟩, fun _ => rfl⟩

theorem nameLoop_isSome (h : DecOK E) {s : Sc} (g : Good E s) :
    (nameLoop E (E.len + 1) s).isSome = true := by
  obtain ⟨r, hr, _⟩ := nameLoop_spec h (E.len + 1) g (by omega)
  rw [hr]; rfl

/-- `parseTypeName`: the result state is good, not before the entry; a name stays on its line -/
theorem parseTypeName_post (h : DecOK E) {s : Sc} (g : Good E s) :
    Post E s (parseTypeName E s).1 ∧ (ClassOK E → (parseTypeName E s).1.lineNum = s.lineNum) ∧
    ((parseTypeName E s).2 = none → (parseTypeName E s).1.pos = s.pos) := by
  unfold parseTypeName
  extract_lets s1
  have hs1 : Post E s s1 ∧ (ClassOK E → s1.lineNum = s.lineNum) := by
    unfold s1
    split
    · next hi =>
      have ha := advanceChar_post h g
      obtain ⟨s', hs', hp', hl⟩ := nameLoop_spec h (E.len + 1) ha.good (by omega)
      rw [hs']
      refine ⟨⟨hp'.good, by have := hp'.mono; have := ha.mono; simp only [Option.getD_some]; omega⟩, fun hc => ?_⟩
      simp only [Option.getD_some]
      rw [hl hc, advanceChar_lineNum, if_neg (fun hx => isInitialNameChar_ne_nl hc hi hx.1)]
    · exact ⟨⟨g, Nat.le_refl _⟩, fun _ => rfl⟩
  split
  · exact ⟨hs1.1, hs1.2, fun hn => by cases hn⟩
  · next hgt => exact ⟨hs1.1, hs1.2, fun _ => by have := hs1.1.mono; simp only []; omega⟩

end
end Sqlair
