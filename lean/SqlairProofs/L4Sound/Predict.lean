/-
  L4Sound: `predict` of Spec/L4 cut into its phases (transaction start and early finishers,
  the operation proper, late finishers), each a named function.
-/
import SqlairProofs.L4Sound.Strings
import SqlairProofs.Runtime.L4Link

namespace Sqlair.Rt

/-- the world when the scenario starts -/
def l4s_w0 (c : Case) : World := if c.onTx then { log := [.begin], inUse := 1 } else {}

/-- the transaction is ended before the operation runs -/
def Case.l4s_isEarly (c : Case) : Bool := c.onTx && (c.txEnd == "before-query" || c.txEnd == "between")

/-- transaction, world and finisher results when the operation starts -/
def l4s_pre (c : Case) : TX × World × List String :=
  let r : TX × World × List String :=
    if c.onTx && (c.txEnd == "before-query" || c.txEnd == "between") && c.concurrent == 0
    then runFinishers c.finishers {} (l4s_w0 c) else ({}, l4s_w0 c, [])
  let q : TX × World :=
    if c.onTx && (c.txEnd == "before-query" || c.txEnd == "between") && decide (c.concurrent > 0)
    then ({ done := true }, { r.2.1 with inUse := r.2.1.inUse - 1 }) else (r.1, r.2.1)
  (q.1, q.2, r.2.2)

def l4s_queryErr (c : Case) : Option Err := if c.onTx && c.txEnd == "before-query" then some .txDone else none

/-- the calls an `iter` case makes on the model's iterator -/
def l4s_calls (c : Case) : List String :=
  if c.fewCols then c.calls.map (fun x => if x == "get" then "getinvalid" else x) else c.calls

def l4s_getCall (c : Case) : GetCall :=
  { outcome := c.dests.startsWith "outcome", nilOutcome := c.dests.startsWith "niloutcome",
    dests := if c.dests == "none" || c.dests == "outcome" then 0 else 1,
    destsValid := !(c.dests.endsWith "invalid") && !c.fewCols }

def l4s_getAllArgs (c : Case) : List SliceArg :=
  if c.dests == "none" then [] else
  if c.dests == "nonptr" then [.notPointer] else
  if c.dests == "nilptr" then [.nilPointer] else
  if c.dests == "ptrnonslice" then [.ok, .notSlice] else
  if c.dests == "sliceint" then [.badElem] else
  if c.dests == "sliceptrint" then [.ok, .badElem] else [.ok]

/-- the operation on a Query that carries an error -/
def l4s_midErr (c : Case) (e : Err) (w1 : World) : Pred × World :=
  match c.op with
  | "iter" =>
    let it : Iter := { hasOutputs := c.hasOutputs, err := some e }
    let r := runCalls c.calls c.cancelAt 0 it w1 c.calls
    ({ returns := r.2.2 }, r.2.1)
  | _ => ({ returns := [e.render], outcome := if c.dests.startsWith "outcome" then "nil" else "" }, w1)

def l4s_midRun (s : Script) (w1 : World) : Pred × World :=
  let r := queryGet s {} w1
  ({ returns := [renderOpt r.1.err] }, r.2)

def l4s_midGet (c : Case) (s : Script) (w1 : World) : Pred × World :=
  let r := queryGet s (l4s_getCall c) w1
  ({ returns := [renderOpt r.1.err], stored := r.1.stored.getD 0,
     outcome := if (l4s_getCall c).outcome then (match r.1.outcome with | some (some n) => s!"r:{n}" | _ => "nil") else "" }, r.2)

def l4s_midGetAll (c : Case) (s : Script) (w1 : World) : Pred × World :=
  let r := queryGetAllArgs s (l4s_getAllArgs c) (c.dests.startsWith "valid" && !c.fewCols) w1
  ({ returns := [renderOpt r.1.err], appended := r.1.appended }, r.2)

/-- the state of an `iter` case after its calls -/
def l4s_iterRun (c : Case) (s : Script) (w1 : World) : Iter × World × List String :=
  runCalls (l4s_calls c) c.cancelAt 0 (iterOpen s w1).1 (iterOpen s w1).2 (l4s_calls c)

def l4s_midIter (c : Case) (s : Script) (w1 : World) : Pred × World :=
  let r := l4s_iterRun c s w1
  ({ returns := r.2.2 },
   match r.1.rows with
   | some rows => if c.onTx then (rows.close r.2.1).2.1 else r.2.1
   | none => r.2.1)

/-- the operation proper -/
def l4s_mid (c : Case) (txDone : Bool) (w1 : World) : Pred × World :=
  match l4s_queryErr c with
  | some e => l4s_midErr c e w1
  | none =>
    match c.op with
    | "run" => l4s_midRun (c.script txDone) w1
    | "get" => l4s_midGet c (c.script txDone) w1
    | "getall" => l4s_midGetAll c (c.script txDone) w1
    | _ => l4s_midIter c (c.script txDone) w1

/-- the finishers after the operation -/
def l4s_post (c : Case) (tx1 : TX) (w2 : World) : TX × World × List String :=
  let late := c.onTx && c.txEnd == "after" && c.concurrent == 0
  if late && c.beginCancel then
    (tx1, { (w2.emit .rollback) with inUse := w2.inUse - 1 }, c.finishers.map fun _ => "txDone")
  else if late then runFinishers c.finishers tx1 w2 else (tx1, w2, [])

/-- the prediction of a case that is not a pair case -/
def l4s_predictSingle (c : Case) : Pred :=
  let pre := l4s_pre c
  let m := l4s_mid c pre.1.done pre.2.1
  let post := l4s_post c pre.1 m.2
  { m.1 with log := post.2.1.log, inUse := post.2.1.inUse, finish := pre.2.2 ++ post.2.2 }

theorem l4s_predict_eq (c : Case) :
    predict c = if c.op == "pair" then predictPair c else l4s_predictSingle c := by
  unfold predict
  split
  · rfl
  · rfl
