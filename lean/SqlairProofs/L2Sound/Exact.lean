/-
  L2Sound/Exact: for a statement whose nodes are only bypass chunks, member inputs and slice
  inputs, the SQL the model renders is matched by `matchInputsOnly` (`holdsC01exact` holds of
  the model's own observation).

  Structure: node `i` becomes piece `i` (`.text raw`, `.inputs n 1`, `.inputs n k`); the SQL is
  the concatenation of the renderings; a rendered placeholder `@sqlair_<n>` is read back
  exactly by `placeholderAt` because whatever follows it does not start with a digit (another
  placeholder starts with `@`, a separator with `,`, a bypass chunk with a non-digit — this is
  the `cleanForTokens` guard); the end of a rendered placeholder list is one of the offsets
  `placeholderListEnds` enumerates.
-/
import SqlairProofs.L2Sound.Defs
import SqlairProofs.L2Sound.Nodes
import SqlairProofs.L2Sound.Bytes
import SqlairProofs.Bind.Fold

namespace Sqlair

/-! ### rendering of `.inputs` -/

/-- the text of placeholder `n` -/
def l2s_ph (n : Nat) : Bytes := bs "@sqlair_" ++ natBytes n

theorem l2s_range_map_succ {α : Type} (f : Nat → α) (k : Nat) :
    (List.range (k + 1)).map f = f 0 :: (List.range k).map (fun i => f (i + 1)) := by
  rw [List.range_succ_eq_map, List.map_cons, List.map_map]
  rfl

theorem l2s_render_inputs_zero (n : Nat) : (Piece.inputs n 0).render = #[] := rfl

theorem l2s_render_inputs_one (n : Nat) : (Piece.inputs n 1).render = l2s_ph n := rfl

theorem l2s_render_inputs_succ_succ (n k : Nat) :
    (Piece.inputs n (k + 2)).render = l2s_ph n ++ bs ", " ++ (Piece.inputs (n + 1) (k + 1)).render := by
  have hf : (fun i => bs "@sqlair_" ++ natBytes (n + (i + 1))) = fun i => bs "@sqlair_" ++ natBytes (n + 1 + i) := by
    funext i
    rw [show n + (i + 1) = n + 1 + i by omega]
  simp only [Piece.render]
  rw [l2s_range_map_succ, hf, l2s_range_map_succ, l2s_joinComma_cons_cons]
  rfl

/-- a non-empty placeholder list starts with `@sqlair_` -/
theorem l2s_render_inputs_prefix (n k : Nat) :
    ∃ t, (Piece.inputs n (k + 1)).render = bs "@sqlair_" ++ t := by
  cases k with
  | zero => exact ⟨natBytes n, rfl⟩
  | succ k =>
    rw [l2s_render_inputs_succ_succ]
    exact ⟨natBytes n ++ bs ", " ++ (Piece.inputs (n + 1) (k + 1)).render, by simp [l2s_ph, Array.append_assoc]⟩

theorem l2s_render_inputs_size : ∀ (k n : Nat), k ≤ (Piece.inputs n k).render.size := by
  intro k
  induction k with
  | zero => intro n; exact Nat.zero_le _
  | succ k ih =>
    intro n
    cases k with
    | zero =>
      rw [l2s_render_inputs_one]
      have := l2s_natBytes_pos n
      simp only [l2s_ph, Array.size_append]
      omega
    | succ k =>
      rw [l2s_render_inputs_succ_succ]
      have := ih (n + 1)
      have h8 : (bs "@sqlair_").size = 8 := by decide
      simp only [l2s_ph, Array.size_append, h8]
      omega

theorem l2s_noDigitStart_render_inputs (n k : Nat) : L2sNoDigitStart (Piece.inputs n k).render := by
  cases k with
  | zero => exact l2s_noDigitStart_empty
  | succ k =>
    obtain ⟨t, ht⟩ := l2s_render_inputs_prefix n k
    rw [ht]
    exact l2s_noDigitStart_append_of_pos (by unfold L2sNoDigitStart; decide) (by decide)

/-! ### `placeholderListEnds` -/

theorem l2s_ph_size_pos (n : Nat) : 0 < (l2s_ph n).size := by
  have h8 : (bs "@sqlair_").size = 8 := by decide
  simp only [l2s_ph, Array.size_append, h8]
  omega

/-- the end of a rendered, non-empty placeholder list is one of the offsets
    `placeholderListEnds` enumerates after the start offset -/
theorem l2s_listEnds_tail : ∀ (k n : Nat) (a c : Bytes) (fuel : Nat), k + 1 ≤ fuel → L2sNoDigitStart c →
    a.size + (Piece.inputs n (k + 1)).render.size ∈
      (placeholderListEnds (a ++ (Piece.inputs n (k + 1)).render ++ c) fuel a.size).tail := by
  intro k
  induction k with
  | zero =>
    intro n a c fuel hf hc
    obtain ⟨f, rfl⟩ : ∃ f, fuel = f + 1 := ⟨fuel - 1, by omega⟩
    rw [l2s_render_inputs_one]
    simp only [placeholderListEnds]
    rw [show a ++ l2s_ph n ++ c = a ++ (bs "@sqlair_" ++ natBytes n) ++ c from rfl,
      l2s_placeholderAt a c n hc]
    simp [l2s_ph]
  | succ k ih =>
    intro n a c fuel hf hc
    obtain ⟨f, rfl⟩ : ∃ f, fuel = f + 1 := ⟨fuel - 1, by omega⟩
    obtain ⟨t, ht⟩ := l2s_render_inputs_prefix (n + 1) k
    have hsql1 : a ++ (Piece.inputs n (k + 2)).render ++ c =
        a ++ (bs "@sqlair_" ++ natBytes n) ++ (bs ", " ++ (Piece.inputs (n + 1) (k + 1)).render ++ c) := by
      rw [l2s_render_inputs_succ_succ]; simp [l2s_ph, Array.append_assoc]
    have hc' : L2sNoDigitStart (bs ", " ++ (Piece.inputs (n + 1) (k + 1)).render ++ c) := by
      rw [Array.append_assoc]
      exact l2s_noDigitStart_append_of_pos (by unfold L2sNoDigitStart; decide) (by decide)
    have hsql2 : a ++ (Piece.inputs n (k + 2)).render ++ c =
        (a ++ l2s_ph n) ++ bs ", @sqlair_" ++ (t ++ c) := by
      rw [hsql1, ht]
      have : bs ", @sqlair_" = bs ", " ++ bs "@sqlair_" := by decide
      rw [this]; simp [l2s_ph, Array.append_assoc]
    have hsql3 : a ++ (Piece.inputs n (k + 2)).render ++ c =
        (a ++ l2s_ph n ++ bs ", ") ++ (Piece.inputs (n + 1) (k + 1)).render ++ c := by
      rw [hsql1]; simp [l2s_ph, Array.append_assoc]
    have hpa : placeholderAt (a ++ (Piece.inputs n (k + 2)).render ++ c) a.size =
        some (a.size + (l2s_ph n).size) := by
      rw [hsql1]; exact l2s_placeholderAt a _ n hc'
    have hpre : (a ++ (Piece.inputs n (k + 2)).render ++ c).hasPrefixAt (a.size + (l2s_ph n).size)
        (bs ", @sqlair_") = true :=
      l2s_hasPrefixAt_mid' hsql2 (by simp [Array.size_append])
    have hih := ih (n + 1) (a ++ l2s_ph n ++ bs ", ") c f (by omega) hc
    rw [← hsql3] at hih
    have hsz : (a ++ l2s_ph n ++ bs ", ").size = a.size + (l2s_ph n).size + 2 := by
      have h2 : (bs ", ").size = 2 := by decide
      simp only [Array.size_append, h2]
    rw [hsz] at hih
    have htarget : a.size + (Piece.inputs n (k + 2)).render.size =
        a.size + (l2s_ph n).size + 2 + (Piece.inputs (n + 1) (k + 1)).render.size := by
      have h2 : (bs ", ").size = 2 := by decide
      rw [l2s_render_inputs_succ_succ]
      simp only [Array.size_append, h2]
      omega
    simp only [placeholderListEnds, hpa, hpre, if_true, List.cons_append, List.tail_cons]
    rw [htarget]
    exact List.mem_append_left _ hih

/-- the start offset is always among the ends (the empty list) -/
theorem l2s_listEnds_head (sql : Bytes) (fuel off : Nat) : off ∈ placeholderListEnds sql fuel off := by
  cases fuel with
  | zero => simp [placeholderListEnds]
  | succ f =>
    simp only [placeholderListEnds]
    split <;> simp

/-- the end of a rendered placeholder list (empty or not) is among the ends -/
theorem l2s_listEnds (k n : Nat) (a c : Bytes) (hc : L2sNoDigitStart c) :
    a.size + (Piece.inputs n k).render.size ∈
      placeholderListEnds (a ++ (Piece.inputs n k).render ++ c) (a ++ (Piece.inputs n k).render ++ c).size a.size := by
  cases k with
  | zero =>
    rw [l2s_render_inputs_zero]
    simpa using l2s_listEnds_head _ _ _
  | succ k =>
    apply List.mem_of_mem_tail
    apply l2s_listEnds_tail k n a c _ _ hc
    have := l2s_render_inputs_size (k + 1) n
    simp only [Array.size_append]
    omega

/-! ### nodes and pieces of an inputs-only statement -/

/-- the piece of a bypass / member / slice node -/
def L2sSegPiece (s : OSeg) (p : Piece) : Prop :=
  match s.kind with
  | .bypass => p = .text s.raw
  | .member => ∃ n, p = .inputs n 1
  | .slice => ∃ n k, p = .inputs n k
  | _ => True

/-- `p` is the piece some successful `addToQuery` step appends for the typed expression `e` -/
def L2sQStep (tt : TypeTable) (m : TypeToValue) (e : TExpr) (p : Piece) : Prop :=
  ∃ qb qb', addToQuery tt m qb e = .ok qb' ∧ qb'.pieces = qb.pieces ++ [p]

theorem l2s_foldlM_steps {tt : TypeTable} {m : TypeToValue} :
    ∀ (tes : List TExpr) (qb qb' : QB), tes.foldlM (addToQuery tt m) qb = .ok qb' →
    ∃ ps, qb'.pieces = qb.pieces ++ ps ∧ Corr (L2sQStep tt m) tes ps := by
  intro tes
  induction tes with
  | nil => intro qb qb' h; cases h; exact ⟨[], by simp, .nil⟩
  | cons te rest ih =>
    intro qb qb' h
    rw [foldlM_except_cons] at h
    cases hs : addToQuery tt m qb te with
    | error e => rw [hs] at h; cases h
    | ok q1 =>
      rw [hs] at h
      obtain ⟨p, hp, _⟩ := addToQuery_piece hs
      obtain ⟨ps, hps, hc⟩ := ih q1 qb' h
      exact ⟨p :: ps, by rw [hps, hp]; simp, .cons ⟨qb, q1, hs, hp⟩ hc⟩

theorem l2s_bindInputs_steps {tt : TypeTable} {tes : List TExpr} {args : List GoVal} {pq : Primed}
    (h : bindInputs tt tes args = .ok pq) : ∃ m, Corr (L2sQStep tt m) tes pq.pieces := by
  obtain ⟨m, qb, _, hq, _, rfl⟩ := bindInputs_ok_unfold h
  obtain ⟨ps, hps, hc⟩ := l2s_foldlM_steps _ _ _ hq
  simp only [List.nil_append] at hps
  exact ⟨m, by rw [hps]; exact hc⟩

theorem l2s_qstep_bypass {tt : TypeTable} {m : TypeToValue} {chunk : Bytes} {p : Piece}
    (h : L2sQStep tt m (.bypass chunk) p) : p = .text chunk := by
  obtain ⟨qb, qb', hs, hp⟩ := h
  simp [addToQuery] at hs
  subst hs
  simpa using (List.append_cancel_left hp).symm

theorem l2s_qstep_input {tt : TypeTable} {m : TypeToValue} {l : Loc} {p : Piece}
    (h : L2sQStep tt m (.input l) p) : ∃ n k, p = .inputs n k ∧ (l.nonSlice → k = 1) := by
  obtain ⟨qb, qb', hs, hp⟩ := h
  obtain ⟨pr, s⟩ := addToQuery_input_spec hs
  rw [s.pieces] at hp
  have := List.append_cancel_left hp
  simp only [List.cons.injEq, and_true] at this
  exact ⟨_, _, this.symm, fun hl => locateParams_single s.located s.not_bulk ((Loc.nonSlice_iff l).1 hl)⟩

/-- node `i` of an inputs-only statement and piece `i` of the model's SQL -/
theorem l2s_segs_pieces {C : Cls} {tt : TypeTable} {segs : List OSeg} {samples : List (Option Nat)}
    {tes : List TExpr} {args : List GoVal} {pq : Primed}
    (hp : bindTypes C tt segs samples = .ok tes) (hb : bindInputs tt tes args = .ok pq) :
    Corr L2sSegPiece segs pq.pieces := by
  obtain ⟨m, hq⟩ := l2s_bindInputs_steps hb
  refine Corr.trans (R := L2sStep) (S := L2sQStep tt m) ?_ (l2s_bindTypes_steps hp) hq
  intro s e p h1 h2
  unfold L2sSegPiece
  cases hk : s.kind with
  | bypass => rw [l2s_step_bypass h1 hk] at h2; exact l2s_qstep_bypass h2
  | member =>
    obtain ⟨l, rfl, hl⟩ := l2s_step_member h1 hk
    obtain ⟨n, k, rfl, hk1⟩ := l2s_qstep_input h2
    exact ⟨n, by rw [hk1 hl]⟩
  | slice =>
    obtain ⟨l, rfl⟩ := l2s_step_slice h1 hk
    obtain ⟨n, k, rfl, _⟩ := l2s_qstep_input h2
    exact ⟨n, k, rfl⟩
  | _ => trivial

/-! ### the match -/

theorem l2s_noDigitStart_piece {s : OSeg} {p : Piece} (h : L2sSegPiece s p)
    (hio : (s.kind == .bypass || s.kind == .member || s.kind == .slice) = true)
    (hclean : s.kind = .bypass → L2sNoDigitStart s.raw) : L2sNoDigitStart p.render := by
  unfold L2sSegPiece at h
  cases hk : s.kind <;> simp only [hk] at h hio
  · subst h; exact hclean hk
  · simp at hio
  · obtain ⟨n, rfl⟩ := h; exact l2s_noDigitStart_render_inputs _ _
  · obtain ⟨n, k, rfl⟩ := h; exact l2s_noDigitStart_render_inputs _ _
  · simp at hio
  · simp at hio
  · simp at hio

theorem l2s_noDigitStart_pieces : ∀ (segs : List OSeg) (ps : List Piece), Corr L2sSegPiece segs ps →
    inputsOnly segs = true → (∀ s ∈ segs, s.kind = .bypass → L2sNoDigitStart s.raw) →
    L2sNoDigitStart (concatBytes (ps.map Piece.render)) := by
  intro segs
  induction segs with
  | nil =>
    intro ps hc _ _
    have : ps = [] := by simpa using hc.1
    subst this
    exact l2s_noDigitStart_empty
  | cons s rest ih =>
    intro ps hc hio hclean
    obtain ⟨p, ps', rfl, hr, hc'⟩ := hc.l2s_cons_inv
    simp only [inputsOnly, List.all_cons, Bool.and_eq_true] at hio
    rw [List.map_cons, concatBytes_cons]
    exact l2s_noDigitStart_append
      (l2s_noDigitStart_piece hr hio.1 (hclean s List.mem_cons_self))
      (ih ps' hc' (by simpa [inputsOnly] using hio.2) fun s' hs' => hclean s' (List.mem_cons_of_mem _ hs'))

/-- the matcher accepts the rendering of the pieces of an inputs-only statement, from any
    offset at which that rendering starts -/
theorem l2s_matchInputsOnly : ∀ (segs : List OSeg) (ps : List Piece) (a : Bytes),
    Corr L2sSegPiece segs ps → inputsOnly segs = true →
    (∀ s ∈ segs, s.kind = .bypass → L2sNoDigitStart s.raw) →
    matchInputsOnly segs (a ++ concatBytes (ps.map Piece.render)) a.size = true := by
  intro segs
  induction segs with
  | nil =>
    intro ps a hc _ _
    have : ps = [] := by simpa using hc.1
    subst this
    simp [matchInputsOnly, concatBytes_nil]
  | cons s rest ih =>
    intro ps a hc hio hclean
    obtain ⟨p, ps', rfl, hr, hc'⟩ := hc.l2s_cons_inv
    have hio' : inputsOnly rest = true := by
      simp only [inputsOnly, List.all_cons, Bool.and_eq_true] at hio
      simpa [inputsOnly] using hio.2
    have hio1 : (s.kind == .bypass || s.kind == .member || s.kind == .slice) = true := by
      simp only [inputsOnly, List.all_cons, Bool.and_eq_true] at hio
      exact hio.1
    have hclean' : ∀ s' ∈ rest, s'.kind = .bypass → L2sNoDigitStart s'.raw :=
      fun s' hs' => hclean s' (List.mem_cons_of_mem _ hs')
    have hrestND := l2s_noDigitStart_pieces rest ps' hc' hio' hclean'
    -- the SQL, with the rendering of the first piece made visible
    have hsql : a ++ concatBytes ((p :: ps').map Piece.render) =
        (a ++ p.render) ++ concatBytes (ps'.map Piece.render) := by
      rw [List.map_cons, concatBytes_cons, Array.append_assoc]
    have hnext := ih ps' (a ++ p.render) hc' hio' hclean'
    rw [← hsql, Array.size_append] at hnext
    unfold L2sSegPiece at hr
    unfold matchInputsOnly
    cases hk : s.kind with
    | bypass =>
      simp only [hk] at hr ⊢
      subst hr
      simp only [Piece.render] at hnext hsql ⊢
      rw [Bool.and_eq_true]
      exact ⟨l2s_hasPrefixAt_mid' hsql rfl, hnext⟩
    | member =>
      simp only [hk] at hr ⊢
      obtain ⟨n, rfl⟩ := hr
      have hpa : placeholderAt (a ++ concatBytes ((Piece.inputs n 1 :: ps').map Piece.render)) a.size =
          some (a.size + (Piece.inputs n 1).render.size) := by
        rw [hsql, l2s_render_inputs_one]
        exact l2s_placeholderAt a _ n hrestND
      rw [hpa]
      exact hnext
    | slice =>
      simp only [hk] at hr ⊢
      obtain ⟨n, k, rfl⟩ := hr
      rw [List.any_eq_true]
      refine ⟨a.size + (Piece.inputs n k).render.size, ?_, hnext⟩
      rw [hsql]
      exact l2s_listEnds k n a _ hrestND
    | _ => simp [hk] at hio1

/-- the `cleanForTokens` guard: no bypass chunk starts with a digit -/
theorem l2s_clean_bypass {segs : List OSeg} (h : cleanForTokens segs = true) :
    ∀ s ∈ segs, s.kind = .bypass → L2sNoDigitStart s.raw := by
  intro s hs hk
  unfold cleanForTokens at h
  simp only [Bool.and_eq_true, List.all_eq_true] at h
  have := (h.2 s hs).1.1.2
  unfold L2sNoDigitStart
  simpa [hk] using this

/-- C01, exact form: the matcher accepts the SQL the model renders for an inputs-only
    statement without digit-initial bypass chunks -/
theorem l2s_matchInputsOnly_model {C : Cls} {tt : TypeTable} {segs : List OSeg} {samples : List (Option Nat)}
    {tes : List TExpr} {args : List GoVal} {pq : Primed}
    (hp : bindTypes C tt segs samples = .ok tes) (hb : bindInputs tt tes args = .ok pq)
    (hio : inputsOnly segs = true) (hclean : ∀ s ∈ segs, s.kind = .bypass → L2sNoDigitStart s.raw) :
    matchInputsOnly segs (renderSQL pq.pieces) 0 = true := by
  have := l2s_matchInputsOnly segs pq.pieces #[] (l2s_segs_pieces hp hb) hio hclean
  rw [renderSQL_eq_concat]
  simpa using this

end Sqlair
