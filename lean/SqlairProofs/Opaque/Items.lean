/-
  Opacity of literals and comments, item level: parentheses, literals in lists, identifiers,
  column and type accessors, lists.  Each item parser, started on the same state at a code
  offset, ends in the same state on both inputs, with results related by `OpqR`.
-/
import SqlairProofs.Opaque.Scan

namespace Sqlair

section
variable {E : Env} {inp' : Bytes}

/-- after `skipStringLiteral` said not-this and `skipComment` failed, `advanceChar` steps over
    a plain rune -/
theorem opq_advanceChar_code (R : OpqEnv E inp') {s s1 : Sc} (l : LC E s)
    (heq : skipStringLiteral E s = (s1, .no)) (hf : ¬ (skipComment E s).2 = true) :
    advanceChar (opqEnv E inp') s = advanceChar E s :=
  opq_advanceChar R l
    (plainAt_of_noComment R.decE l.good (Bool.eq_false_iff.mpr hf) (not_quote_of_no R.decE l.good heq))

/-! ### skipEnclosedParentheses -/

theorem opq_parenLoop (R : OpqEnv E inp') (cp : Sc) : ∀ (f count : Nat) {s : Sc}, LC E s →
    parenLoop (opqEnv E inp') cp f count s = parenLoop E cp f count s := by
  intro f
  induction f with
  | zero => intros; rfl
  | succ f ih =>
    intro count s l
    unfold parenLoop
    rw [opq_len R, opq_skipStringLiteral R l]
    split
    · split
      · rfl
      · next heq => exact ih count ((skipStringLiteral_lc R.decE l).of_eq heq)
      · next heq =>
        simp only [opq_skipComment R l, opq_skipChar R (c := 40) (by decide) l,
          opq_skipChar R (c := 41) (by decide) l]
        split
        · exact ih count (skipComment_lc R.decE l)
        next hf =>
        split
        · exact ih _ (skipChar_lc R.decE (by decide) l)
        split
        · exact ih _ (skipChar_lc R.decE (by decide) l)
        rw [opq_advanceChar_code R l heq hf]
        exact ih _ (advanceChar_lc_code R.decE l heq hf)
    · rfl

theorem opq_skipEnclosedParentheses (R : OpqEnv E inp') {s : Sc} (l : LC E s) :
    skipEnclosedParentheses (opqEnv E inp') s = skipEnclosedParentheses E s := by
  unfold skipEnclosedParentheses
  rw [opq_len R, opq_skipChar R (c := 40) (by decide) l]
  simp only []
  split
  · exact opq_parenLoop R s _ _ (skipChar_lc R.decE (by decide) l)
  · rfl

/-! ### skipLiteralInList -/

theorem opq_litLoop (R : OpqEnv E inp') : ∀ (f : Nat) {s : Sc}, LC E s →
    litLoop (opqEnv E inp') f s = litLoop E f s := by
  intro f
  induction f with
  | zero => intros; rfl
  | succ f ih =>
    intro s l
    unfold litLoop
    rw [opq_len R, opq_skipStringLiteral R l, opq_skipEnclosedParentheses R l]
    split
    · split
      · rfl
      · next heq => exact ih ((skipStringLiteral_lc R.decE l).of_eq heq)
      · next heq =>
        split
        · rfl
        · next heq2 => exact ih ((skipEnclosedParentheses_lc R.decE l).of_eq heq2)
        · simp only [opq_skipComment R l]
          split
          · exact ih (skipComment_lc R.decE l)
          next hf =>
          split
          · rfl
          · rw [opq_advanceChar_code R l heq hf]
            exact ih (advanceChar_lc_code R.decE l heq hf)
    · rfl

theorem opq_skipLiteralInList (R : OpqEnv E inp') {s : Sc} (l : LC E s) :
    skipLiteralInList (opqEnv E inp') s = skipLiteralInList E s := by
  unfold skipLiteralInList
  rw [opq_len R, opq_litLoop R _ l]

/-! ### identifiers -/

theorem opq_extract_star_aux (inp inp2 : Bytes) (a b : Nat) (hs : inp.size = inp2.size)
    (hb : inp.getD a 0 = inp2.getD a 0) (h : inp.extract a b = star) : inp2.extract a b = star := by
  have hsz : (inp.extract a b).size = 1 := by rw [h]; rfl
  rw [Array.size_extract] at hsz
  have ha : a < inp.size := by omega
  have h0 : (inp.extract a b)[0]? = some 42 := by rw [h]; rfl
  rw [Array.getElem?_extract] at h0
  apply Array.ext
  · rw [Array.size_extract, ← hs, hsz]; rfl
  · intro i h1 h2
    have hi : i = 0 := by
      rw [Array.size_extract, ← hs] at h1; omega
    subst hi
    rw [Array.getElem_extract]
    have ha2 : a < inp2.size := by omega
    simp only [Array.getD_eq_getD_getElem?, Array.getElem?_eq_getElem ha, Array.getElem?_eq_getElem ha2,
      Option.getD_some] at hb
    simp only [Nat.add_zero] at h0 ⊢
    rw [if_pos (by omega), Array.getElem?_eq_getElem ha] at h0
    rw [← hb, Option.some.inj h0]
    rfl

/-- the text from a code offset on is the asterisk in both inputs or in neither -/
theorem opq_extract_star (R : OpqEnv E inp') {a : Nat} (hc : LexCode E a) (b : Nat) :
    OpqStar (E.inp.extract a b) (inp'.extract a b) :=
  ⟨opq_extract_star_aux _ _ a b R.size.symm (R.byte a hc).symm,
   opq_extract_star_aux _ _ a b R.size (R.byte a hc)⟩

theorem opq_parseIdentifier (R : OpqEnv E inp') {s : Sc} (l : LC E s) :
    OpqR OpqStar (parseIdentifier E s) (parseIdentifier (opqEnv E inp') s) := by
  unfold parseIdentifier
  rw [opq_skipStringLiteral R l, opq_nameLoop_getD R l]
  split
  · exact OpqR.mk_err_same _
  · exact OpqR.mk_ok (opq_extract_star R l.code _)
  · simp only []
    split
    · exact OpqR.mk_ok (opq_extract_star R l.code _)
    · exact OpqR.mk_no

theorem opq_star_refl : OpqStar star star := Iff.rfl

theorem opq_parseIdentifierAsterisk (R : OpqEnv E inp') {s : Sc} (l : LC E s) :
    OpqR OpqStar (parseIdentifierAsterisk E s) (parseIdentifierAsterisk (opqEnv E inp') s) := by
  unfold parseIdentifierAsterisk
  rw [opq_skipChar R (c := 42) (by decide) l]
  simp only []
  split
  · exact OpqR.mk_ok opq_star_refl
  · exact opq_parseIdentifier R l

theorem opq_parseColumnAccessor (R : OpqEnv E inp') {s : Sc} (l : LC E s) :
    OpqR OpqCol (parseColumnAccessor E s) (parseColumnAccessor (opqEnv E inp') s) := by
  unfold parseColumnAccessor
  rw [opq_skipChar R (c := 42) (by decide) l]
  simp only []
  split
  · exact OpqR.mk_ok rfl
  rcases (opq_parseIdentifier R l).elim with ⟨s1, a, b, hx, hy, _⟩ | ⟨s1, hx, hy⟩ | ⟨s1, e, e', hx, hy, he⟩
  · rw [hx, hy]
    simp only []
    have l1 : LC E s1 := (parseIdentifier_lc R.decE R.cls l).of_eq hx
    rw [opq_skipChar R (c := 46) (by decide) l1, opq_skipEnclosedParentheses R l1]
    split
    · have lr := skipChar_lc R.decE (c := 46) (by decide) l1
      rcases (opq_parseIdentifierAsterisk R lr).elim with
        ⟨s2, a2, b2, hx2, hy2, _⟩ | ⟨s2, hx2, hy2⟩ | ⟨s2, e2, e2', hx2, hy2, he2⟩
      · rw [hx2, hy2]; exact OpqR.mk_ok rfl
      · rw [hx2, hy2]; exact OpqR.mk_no
      · rw [hx2, hy2]; exact OpqR.mk_err he2
    · split
      · exact OpqR.mk_err_same _
      · exact OpqR.mk_ok rfl
      · exact OpqR.mk_ok rfl
  · rw [hx, hy]; exact OpqR.mk_no
  · rw [hx, hy]; exact OpqR.mk_err he

/-! ### type accessors -/

theorem opq_parseSliceAccessor (R : OpqEnv E inp') {s : Sc} (l : LC E s) :
    OpqR OpqAny (parseSliceAccessor E s) (parseSliceAccessor (opqEnv E inp') s) := by
  unfold parseSliceAccessor
  rcases opq_parseTypeName R l with ⟨s1, a, b, hx, hy⟩ | ⟨s1, hx, hy⟩
  · rw [hx, hy]
    simp only []
    have l1 : LC E s1 := (parseTypeName_lc R.decE R.cls l).of_eq hx
    have lr1 := skipChar_lc R.decE (c := 91) (by decide) l1
    have l2 := skipBlanks_lc R.decE lr1
    have lr2 := skipChar_lc R.decE (c := 58) (by decide) l2
    have l3 := skipBlanks_lc R.decE lr2
    rw [opq_skipChar R (c := 91) (by decide) l1, opq_skipBlanks R lr1,
      opq_skipChar R (c := 58) (by decide) l2, opq_skipBlanks R lr2,
      opq_skipChar R (c := 93) (by decide) l3]
    split
    · exact OpqR.mk_no
    split
    · exact OpqR.mk_err ⟨rfl, rfl⟩
    split
    · exact OpqR.mk_err ⟨rfl, rfl⟩
    · exact OpqR.mk_ok trivial
  · rw [hx, hy]; exact OpqR.mk_no

theorem opq_parseTypeAndMember (R : OpqEnv E inp') {s : Sc} (l : LC E s) :
    OpqR OpqAcc (parseTypeAndMember E s) (parseTypeAndMember (opqEnv E inp') s) := by
  unfold parseTypeAndMember
  rcases opq_parseTypeName R l with ⟨s1, a, b, hx, hy⟩ | ⟨s1, hx, hy⟩
  · rw [hx, hy]
    simp only []
    have l1 : LC E s1 := (parseTypeName_lc R.decE R.cls l).of_eq hx
    rw [opq_skipChar R (c := 46) (by decide) l1]
    split
    · exact OpqR.mk_err ⟨rfl, rfl⟩
    · have lr := skipChar_lc R.decE (c := 46) (by decide) l1
      rcases (opq_parseIdentifierAsterisk R lr).elim with
        ⟨s2, a2, b2, hx2, hy2, hab⟩ | ⟨s2, hx2, hy2⟩ | ⟨s2, e2, e2', hx2, hy2, he2⟩
      · rw [hx2, hy2]; exact OpqR.mk_ok hab
      · rw [hx2, hy2]; exact OpqR.mk_err ⟨rfl, rfl⟩
      · rw [hx2, hy2]; exact OpqR.mk_err he2
  · rw [hx, hy]; exact OpqR.mk_no

theorem opq_parseTargetType (R : OpqEnv E inp') {s : Sc} (l : LC E s) :
    OpqR OpqAcc (parseTargetType E s) (parseTargetType (opqEnv E inp') s) := by
  unfold parseTargetType
  rw [opq_skipChar R (c := 38) (by decide) l]
  simp only []
  split
  · have lr := skipChar_lc R.decE (c := 38) (by decide) l
    rcases (opq_parseSliceAccessor R lr).elim with
      ⟨s1, a, b, hx, hy, _⟩ | ⟨s1, hx, hy⟩ | ⟨s1, e, e', hx, hy, he⟩
    · rw [hx, hy]; exact OpqR.mk_err ⟨rfl, rfl⟩
    · rw [hx, hy]
      simp only []
      have l1 : LC E s1 := (parseSliceAccessor_lc R.decE R.cls lr).of_eq hx
      rcases (opq_parseTypeAndMember R l1).elim with
        ⟨s2, a2, b2, hx2, hy2, hab⟩ | ⟨s2, hx2, hy2⟩ | ⟨s2, e2, e2', hx2, hy2, he2⟩
      · rw [hx2, hy2]; exact OpqR.mk_ok hab
      · rw [hx2, hy2]; exact OpqR.mk_no
      · rw [hx2, hy2]; exact OpqR.mk_err he2
    · rw [hx, hy]; exact OpqR.mk_err ⟨rfl, rfl⟩
  · exact OpqR.mk_no

theorem opq_parseInputMemberAccessor (R : OpqEnv E inp') {s : Sc} (l : LC E s) :
    OpqR OpqAcc (parseInputMemberAccessor E s) (parseInputMemberAccessor (opqEnv E inp') s) := by
  unfold parseInputMemberAccessor
  rw [opq_skipChar R (c := 36) (by decide) l]
  simp only []
  split
  · exact opq_parseTypeAndMember R (skipChar_lc R.decE (by decide) l)
  · exact OpqR.mk_no

/-! ### lists -/

theorem opq_forall2_snoc {α : Type} {Rα : α → α → Prop} {l l' : List α} {a b : α}
    (h : OpqList Rα l l') (hab : Rα a b) : OpqList Rα (l ++ [a]) (l' ++ [b]) := by
  induction h with
  | nil => exact .cons hab .nil
  | cons h1 _ ih => exact .cons h1 ih

theorem opq_listLoop (R : OpqEnv E inp') {α : Type} {Rα : α → α → Prop} {fn fn' : Sc → Sc × Res α}
    (hlc : ∀ s, LC E s → LC E (fn s).1) (hfn : ∀ s, LC E s → OpqR Rα (fn s) (fn' s)) (cp : Sc) :
    ∀ (f : Nat) (first : Bool) (acc acc' : List α), OpqList Rα acc acc' → ∀ {s : Sc}, LC E s →
      OpqR (OpqList Rα) (listLoop E fn cp f first acc s)
        (listLoop (opqEnv E inp') fn' cp f first acc' s) := by
  intro f
  induction f with
  | zero => intro first acc acc' _ s l; unfold listLoop; exact OpqR.mk_err_same _
  | succ f ih =>
    intro first acc acc' hacc s l
    unfold listLoop
    rw [opq_skipBlanks R l]
    simp only []
    have l1 : LC E (skipBlanks E s) := skipBlanks_lc R.decE l
    rcases (hfn _ l1).elim with ⟨s2, a, b, hx, hy, hab⟩ | ⟨s2, hx, hy⟩ | ⟨s2, e, e', hx, hy, he⟩
    · rw [hx, hy]
      simp only []
      have l2 : LC E s2 := (hlc _ l1).of_eq hx
      have l3 : LC E (skipBlanks E s2) := skipBlanks_lc R.decE l2
      rw [opq_skipBlanks R l2, opq_skipChar R (c := 41) (by decide) l3,
        opq_skipChar R (c := 44) (by decide) l3]
      split
      · exact OpqR.mk_ok (opq_forall2_snoc hacc hab)
      split
      · exact ih false _ _ (opq_forall2_snoc hacc hab) (skipChar_lc R.decE (by decide) l3)
      · exact OpqR.mk_err_same _
    · rw [hx, hy]
      simp only []
      split
      · exact OpqR.mk_no
      · exact OpqR.mk_err_same _
    · rw [hx, hy]; exact OpqR.mk_err he

theorem opq_parseList (R : OpqEnv E inp') {α : Type} {Rα : α → α → Prop} {fn fn' : Sc → Sc × Res α}
    (hlc : ∀ s, LC E s → LC E (fn s).1) (hfn : ∀ s, LC E s → OpqR Rα (fn s) (fn' s)) {s : Sc}
    (l : LC E s) :
    OpqR (OpqList Rα) (parseList E fn s) (parseList (opqEnv E inp') fn' s) := by
  unfold parseList
  rw [opq_len R, opq_skipChar R (c := 40) (by decide) l]
  simp only []
  split
  · exact opq_listLoop R hlc hfn s _ true [] [] .nil (skipChar_lc R.decE (by decide) l)
  · exact OpqR.mk_no

theorem opq_parseList_cols (R : OpqEnv E inp') {s : Sc} (l : LC E s) :
    OpqR (OpqList OpqCol) (parseList E (parseColumnAccessor E) s)
      (parseList (opqEnv E inp') (parseColumnAccessor (opqEnv E inp')) s) :=
  opq_parseList R (fun _ l => parseColumnAccessor_lc R.decE R.cls l)
    (fun _ l => opq_parseColumnAccessor R l) l

theorem opq_parseList_targets (R : OpqEnv E inp') {s : Sc} (l : LC E s) :
    OpqR (OpqList OpqAcc) (parseList E (parseTargetType E) s)
      (parseList (opqEnv E inp') (parseTargetType (opqEnv E inp')) s) :=
  opq_parseList R (fun _ l => parseTargetType_lc R.decE R.cls l)
    (fun _ l => opq_parseTargetType R l) l

theorem opq_parseList_inputs (R : OpqEnv E inp') {s : Sc} (l : LC E s) :
    OpqR (OpqList OpqAcc) (parseList E (parseInputMemberAccessor E) s)
      (parseList (opqEnv E inp') (parseInputMemberAccessor (opqEnv E inp')) s) :=
  opq_parseList R (fun _ l => parseInputMemberAccessor_lc R.decE R.cls l)
    (fun _ l => opq_parseInputMemberAccessor R l) l

/-- `parseColumns`: the same state; columns on both sides (related, with the same
    parenthesis flag) or on neither -/
theorem opq_parseColumns (R : OpqEnv E inp') {s : Sc} (l : LC E s) :
    (∃ s1 cs cs' b, parseColumns E s = (s1, some (cs, b)) ∧
      parseColumns (opqEnv E inp') s = (s1, some (cs', b)) ∧ OpqList OpqCol cs cs') ∨
    (∃ s1, parseColumns E s = (s1, none) ∧ parseColumns (opqEnv E inp') s = (s1, none)) := by
  unfold parseColumns
  have hlist : ∀ s1, LC E s1 →
      (∃ s2 cs cs' b,
        (match parseList E (parseColumnAccessor E) s1 with
          | (s2, .ok cs) => (s2, some (cs, true))
          | (s2, _) => (s2, none)) = (s2, some (cs, b)) ∧
        (match parseList (opqEnv E inp') (parseColumnAccessor (opqEnv E inp')) s1 with
          | (s2, .ok cs) => (s2, some (cs, true))
          | (s2, _) => (s2, none)) = (s2, some (cs', b)) ∧ OpqList OpqCol cs cs') ∨
      (∃ s2,
        (match parseList E (parseColumnAccessor E) s1 with
          | (s2, .ok cs) => (s2, some (cs, true))
          | (s2, _) => (s2, none)) = (s2, none) ∧
        (match parseList (opqEnv E inp') (parseColumnAccessor (opqEnv E inp')) s1 with
          | (s2, .ok cs) => (s2, some (cs, true))
          | (s2, _) => (s2, none)) = ((s2, none) : Sc × Option (List Col × Bool))) := by
    intro s1 l1
    rcases (opq_parseList_cols R l1).elim with
      ⟨s2, a, b, hx, hy, hab⟩ | ⟨s2, hx, hy⟩ | ⟨s2, e, e', hx, hy, he⟩
    · rw [hx, hy]; exact Or.inl ⟨_, _, _, _, rfl, rfl, hab⟩
    · rw [hx, hy]; exact Or.inr ⟨_, rfl, rfl⟩
    · rw [hx, hy]; exact Or.inr ⟨_, rfl, rfl⟩
  rcases (opq_parseColumnAccessor R l).elim with
    ⟨s1, a, b, hx, hy, hab⟩ | ⟨s1, hx, hy⟩ | ⟨s1, e, e', hx, hy, he⟩
  · rw [hx, hy]; exact Or.inl ⟨_, _, _, _, rfl, rfl, .cons hab .nil⟩
  · rw [hx, hy]; exact hlist s1 ((parseColumnAccessor_lc R.decE R.cls l).of_eq hx)
  · rw [hx, hy]; exact hlist s1 ((parseColumnAccessor_lc R.decE R.cls l).of_eq hx)

/-- payload relation of `parseTargetTypes` -/
def OpqTypes (x y : List Acc × Bool) : Prop := OpqList OpqAcc x.1 y.1 ∧ x.2 = y.2

theorem opq_parseTargetTypes (R : OpqEnv E inp') {s : Sc} (l : LC E s) :
    OpqR OpqTypes (parseTargetTypes E s) (parseTargetTypes (opqEnv E inp') s) := by
  unfold parseTargetTypes
  rcases (opq_parseTargetType R l).elim with
    ⟨s1, a, b, hx, hy, hab⟩ | ⟨s1, hx, hy⟩ | ⟨s1, e, e', hx, hy, he⟩
  · rw [hx, hy]; exact OpqR.mk_ok ⟨.cons hab .nil, rfl⟩
  · rw [hx, hy]
    simp only []
    have l1 : LC E s1 := (parseTargetType_lc R.decE R.cls l).of_eq hx
    rcases (opq_parseList_targets R l1).elim with
      ⟨s2, a2, b2, hx2, hy2, hab2⟩ | ⟨s2, hx2, hy2⟩ | ⟨s2, e2, e2', hx2, hy2, he2⟩
    · rw [hx2, hy2]; exact OpqR.mk_ok ⟨hab2, rfl⟩
    · rw [hx2, hy2]; exact OpqR.mk_no
    · rw [hx2, hy2]; exact OpqR.mk_err he2
  · rw [hx, hy]; exact OpqR.mk_err he

end
end Sqlair
