#!/bin/sh
# Unchanged-tree sweep: every claimed check, several seeds. Usage: tools/sweep.sh "<seeds>" [tier]
# Under `vp run --with-repo` the repository snapshot is used (VERIF_REPO).
cd "$(dirname "$0")/.." || exit 2
[ -n "$VP_RUN_REPO" ] && export VERIF_REPO="$VP_RUN_REPO"
./setup.sh >/dev/null 2>&1 || { echo setup failed; exit 2; }
SEEDS="${1:-11 12 13}"
TIER="${2:-quick}"
props=$(python3 -c "import json; print(' '.join(c['property_id'] for c in json.load(open('MANIFEST.json'))['checks']))")
bad=0
for seed in $SEEDS; do
  for p in $props; do
    out=$(VERIF_SEED=$seed ./check $p --tier $TIER 2>&1)
    rc=$?
    echo "$out" | tail -1
    if [ $rc -ne 0 ]; then bad=$((bad+1)); echo "$out" | grep -E "VIOLATION|INCONCLUSIVE" | head -5; fi
  done
done
echo "sweep done: alarms=$bad"
