/-
  Property C02, lexer side: the extra assumptions about the decoder and the classifier, the
  code offsets of the reference lexer (`LexCode`), and the characterisation of `lexRegions`
  in those terms:
  * if the lexer reports an unclosed literal, the end of the input is not a code offset;
  * no code offset lies strictly inside a region.
-/
import SqlairProofs.Parser.Defs

namespace Sqlair

/-! ### assumptions -/

/-- The decoder decodes an ASCII byte to itself, with size 1.  (True of Go's
    `utf8.DecodeRuneInString`; proved for `decodeRune` in `SqlairProofs/Props/C02.lean`.)
    Needed because `skipString` compares the keywords `AS` / `VALUES` byte-wise and then
    re-synchronises the scanner after the keyword. -/
structure AsciiDec (E : Env) : Prop where
  ascii : ∀ p, p < E.len → bAt E.inp p < 128 → E.dec E.inp p = (bAt E.inp p, 1)

/-- The quote characters, the two comment-opening characters and the four blank characters
    are not name characters.  (True of every classifier that agrees with the ASCII tables
    below 128, in particular of `unicode.IsLetter` / `unicode.IsDigit`; see
    `classAscii_of_agree` in `SqlairProofs/Props/C02.lean`.) -/
structure ClassAscii (E : Env) : Prop where
  dquote : isNameChar E 34 = false
  squote : isNameChar E 39 = false
  minus : isNameChar E 45 = false
  slash : isNameChar E 47 = false
  space : isNameChar E 32 = false
  tab : isNameChar E 9 = false
  cr : isNameChar E 13 = false
  nl : isNameChar E 10 = false

section
variable {E : Env}

/-- rune at an offset -/
abbrev rn (E : Env) (p : Nat) : Nat := (E.dec E.inp p).1
/-- size of the rune at an offset -/
abbrev sz (E : Env) (p : Nat) : Nat := (E.dec E.inp p).2

/-! ### the three scanning functions of the lexer with the canonical fuel -/

/-- `litEnd` with the fuel `lexLoop` gives it -/
abbrev LE (E : Env) (q p : Nat) : Option Nat := litEnd E q (E.len + 1) p
/-- `lineCommentEnd` with the fuel `lexLoop` gives it -/
abbrev LCE (E : Env) (p : Nat) : Nat := lineCommentEnd E (E.len + 1) p
/-- `blockCommentEnd` with the fuel `lexLoop` gives it -/
abbrev BCE (E : Env) (p : Nat) : Nat := blockCommentEnd E (E.len + 1) p

theorem sz_pos (h : DecOK E) (p : Nat) (hp : p < E.len) : 1 ≤ sz E p := h.size_pos p hp

theorem sz_le (h : DecOK E) (p : Nat) (hp : p < E.len) : p + sz E p ≤ E.len := h.size_le p hp

theorem max_sz (h : DecOK E) {p : Nat} (hp : p < E.len) : max (sz E p) 1 = sz E p :=
  Nat.max_eq_left (sz_pos h p hp)

/-! #### litEnd -/

theorem litEnd_succ (q f p : Nat) : litEnd E q (f+1) p =
    if p ≥ E.len then none else
    if rn E p = q then
      if p + sz E p < E.len ∧ rn E (p + sz E p) = q then litEnd E q f (p + sz E p + sz E (p + sz E p))
      else some (p + sz E p)
    else litEnd E q f (p + max (sz E p) 1) := by
  rw [litEnd]; rfl

theorem litEnd_fuel (h : DecOK E) (q : Nat) : ∀ (f f' p : Nat), E.len - p < f → E.len - p < f' →
    litEnd E q f p = litEnd E q f' p := by
  intro f
  induction f with
  | zero => intros; omega
  | succ f ih =>
    intro f' p hf hf'
    cases f' with
    | zero => omega
    | succ f' =>
      rw [litEnd_succ, litEnd_succ]
      by_cases hp : p ≥ E.len
      · rw [if_pos hp, if_pos hp]
      · rw [if_neg hp, if_neg hp]
        have hp : p < E.len := by omega
        have h1 := sz_pos h p hp
        by_cases hq : rn E p = q
        · rw [if_pos hq, if_pos hq]
          by_cases hd : p + sz E p < E.len ∧ rn E (p + sz E p) = q
          · rw [if_pos hd, if_pos hd]
            have := sz_pos h _ hd.1
            apply ih <;> omega
          · rw [if_neg hd, if_neg hd]
        · rw [if_neg hq, if_neg hq]
          apply ih <;> omega

theorem LE_eof (q : Nat) {p : Nat} (hp : E.len ≤ p) : LE E q p = none := by
  show litEnd E q (E.len + 1) p = none
  rw [litEnd_succ, if_pos hp]

theorem LE_skip (h : DecOK E) {q p : Nat} (hp : p < E.len) (hq : rn E p ≠ q) :
    LE E q p = LE E q (p + sz E p) := by
  show litEnd E q (E.len + 1) p = _
  have h1 := sz_pos h p hp
  rw [litEnd_succ, if_neg (Nat.not_le.mpr hp), if_neg hq, max_sz h hp]
  exact litEnd_fuel h q _ _ _ (by omega) (by omega)

theorem LE_close {q p : Nat} (hp : p < E.len) (hq : rn E p = q)
    (hn : ¬ (p + sz E p < E.len ∧ rn E (p + sz E p) = q)) : LE E q p = some (p + sz E p) := by
  show litEnd E q (E.len + 1) p = _
  rw [litEnd_succ, if_neg (Nat.not_le.mpr hp), if_pos hq, if_neg hn]

theorem LE_dbl (h : DecOK E) {q p : Nat} (hp : p < E.len) (hq : rn E p = q)
    (hp1 : p + sz E p < E.len) (hq1 : rn E (p + sz E p) = q) :
    LE E q p = LE E q (p + sz E p + sz E (p + sz E p)) := by
  show litEnd E q (E.len + 1) p = _
  have h1 := sz_pos h p hp
  have h2 := sz_pos h _ hp1
  rw [litEnd_succ, if_neg (Nat.not_le.mpr hp), if_pos hq, if_pos ⟨hp1, hq1⟩]
  exact litEnd_fuel h q _ _ _ (by omega) (by omega)

theorem litEnd_bounds (h : DecOK E) (q : Nat) : ∀ (f p e : Nat), litEnd E q f p = some e →
    p < e ∧ e ≤ E.len := by
  intro f
  induction f with
  | zero => intro p e he; rw [litEnd] at he; cases he
  | succ f ih =>
    intro p e he
    rw [litEnd_succ] at he
    by_cases hp : p ≥ E.len
    · rw [if_pos hp] at he; cases he
    · rw [if_neg hp] at he
      have hp : p < E.len := by omega
      have h1 := sz_pos h p hp
      have h2 := sz_le h p hp
      by_cases hq : rn E p = q
      · rw [if_pos hq] at he
        by_cases hd : p + sz E p < E.len ∧ rn E (p + sz E p) = q
        · rw [if_pos hd] at he
          have := sz_pos h _ hd.1
          have := ih _ _ he
          omega
        · rw [if_neg hd] at he
          cases he; omega
      · rw [if_neg hq, max_sz h hp] at he
        have := ih _ _ he
        omega

theorem LE_bounds (h : DecOK E) {q p e : Nat} (he : LE E q p = some e) : p < e ∧ e ≤ E.len :=
  litEnd_bounds h q _ _ _ he

/-! #### lineCommentEnd -/

theorem lineCommentEnd_succ (f p : Nat) : lineCommentEnd E (f+1) p =
    if p ≥ E.len then E.len else
    if rn E p = 10 then p else lineCommentEnd E f (p + max (sz E p) 1) := by
  rw [lineCommentEnd]; rfl

theorem lineCommentEnd_fuel : ∀ (f f' p : Nat), E.len - p < f → E.len - p < f' →
    lineCommentEnd E f p = lineCommentEnd E f' p := by
  intro f
  induction f with
  | zero => intros; omega
  | succ f ih =>
    intro f' p hf hf'
    cases f' with
    | zero => omega
    | succ f' =>
      rw [lineCommentEnd_succ, lineCommentEnd_succ]
      by_cases hp : p ≥ E.len
      · rw [if_pos hp, if_pos hp]
      · rw [if_neg hp, if_neg hp]
        by_cases hq : rn E p = 10
        · rw [if_pos hq, if_pos hq]
        · rw [if_neg hq, if_neg hq]
          apply ih <;> omega

theorem LCE_eof {p : Nat} (hp : E.len ≤ p) : LCE E p = E.len := by
  show lineCommentEnd E (E.len + 1) p = _
  rw [lineCommentEnd_succ, if_pos hp]

theorem LCE_nl {p : Nat} (hp : p < E.len) (hq : rn E p = 10) : LCE E p = p := by
  show lineCommentEnd E (E.len + 1) p = _
  rw [lineCommentEnd_succ, if_neg (Nat.not_le.mpr hp), if_pos hq]

theorem LCE_skip (h : DecOK E) {p : Nat} (hp : p < E.len) (hq : rn E p ≠ 10) :
    LCE E p = LCE E (p + sz E p) := by
  show lineCommentEnd E (E.len + 1) p = _
  have h1 := sz_pos h p hp
  rw [lineCommentEnd_succ, if_neg (Nat.not_le.mpr hp), if_neg hq, max_sz h hp]
  exact lineCommentEnd_fuel _ _ _ (by omega) (by omega)

theorem lineCommentEnd_bounds (h : DecOK E) : ∀ (f p : Nat), p ≤ E.len →
    p ≤ lineCommentEnd E f p ∧ lineCommentEnd E f p ≤ E.len := by
  intro f
  induction f with
  | zero => intro p hp; rw [lineCommentEnd]; omega
  | succ f ih =>
    intro p hp
    rw [lineCommentEnd_succ]
    by_cases hge : p ≥ E.len
    · rw [if_pos hge]; omega
    · rw [if_neg hge]
      have hlt : p < E.len := by omega
      have h1 := sz_pos h p hlt
      have h2 := sz_le h p hlt
      by_cases hq : rn E p = 10
      · rw [if_pos hq]; omega
      · rw [if_neg hq, max_sz h hlt]
        have := ih (p + sz E p) h2
        omega

theorem LCE_bounds (h : DecOK E) {p : Nat} (hp : p ≤ E.len) : p ≤ LCE E p ∧ LCE E p ≤ E.len :=
  lineCommentEnd_bounds h _ _ hp

/-! #### blockCommentEnd -/

theorem blockCommentEnd_succ (f p : Nat) : blockCommentEnd E (f+1) p =
    if p ≥ E.len then E.len else
    if rn E p = 42 ∧ p + sz E p < E.len ∧ rn E (p + sz E p) = 47
    then p + sz E p + sz E (p + sz E p)
    else blockCommentEnd E f (p + max (sz E p) 1) := by
  rw [blockCommentEnd]; rfl

theorem blockCommentEnd_fuel : ∀ (f f' p : Nat), E.len - p < f → E.len - p < f' →
    blockCommentEnd E f p = blockCommentEnd E f' p := by
  intro f
  induction f with
  | zero => intros; omega
  | succ f ih =>
    intro f' p hf hf'
    cases f' with
    | zero => omega
    | succ f' =>
      rw [blockCommentEnd_succ, blockCommentEnd_succ]
      by_cases hp : p ≥ E.len
      · rw [if_pos hp, if_pos hp]
      · rw [if_neg hp, if_neg hp]
        by_cases hq : rn E p = 42 ∧ p + sz E p < E.len ∧ rn E (p + sz E p) = 47
        · rw [if_pos hq, if_pos hq]
        · rw [if_neg hq, if_neg hq]
          apply ih <;> omega

theorem BCE_eof {p : Nat} (hp : E.len ≤ p) : BCE E p = E.len := by
  show blockCommentEnd E (E.len + 1) p = _
  rw [blockCommentEnd_succ, if_pos hp]

theorem BCE_close {p : Nat} (hp : p < E.len) (hq : rn E p = 42) (hp1 : p + sz E p < E.len)
    (hq1 : rn E (p + sz E p) = 47) : BCE E p = p + sz E p + sz E (p + sz E p) := by
  show blockCommentEnd E (E.len + 1) p = _
  rw [blockCommentEnd_succ, if_neg (Nat.not_le.mpr hp), if_pos ⟨hq, hp1, hq1⟩]

theorem BCE_skip (h : DecOK E) {p : Nat} (hp : p < E.len)
    (hn : ¬ (rn E p = 42 ∧ p + sz E p < E.len ∧ rn E (p + sz E p) = 47)) :
    BCE E p = BCE E (p + sz E p) := by
  show blockCommentEnd E (E.len + 1) p = _
  have h1 := sz_pos h p hp
  rw [blockCommentEnd_succ, if_neg (Nat.not_le.mpr hp), if_neg hn, max_sz h hp]
  exact blockCommentEnd_fuel _ _ _ (by omega) (by omega)

theorem blockCommentEnd_bounds (h : DecOK E) : ∀ (f p : Nat), p ≤ E.len →
    p ≤ blockCommentEnd E f p ∧ blockCommentEnd E f p ≤ E.len := by
  intro f
  induction f with
  | zero => intro p hp; rw [blockCommentEnd]; omega
  | succ f ih =>
    intro p hp
    rw [blockCommentEnd_succ]
    by_cases hge : p ≥ E.len
    · rw [if_pos hge]; omega
    · rw [if_neg hge]
      have hlt : p < E.len := by omega
      have h1 := sz_pos h p hlt
      have h2 := sz_le h p hlt
      by_cases hq : rn E p = 42 ∧ p + sz E p < E.len ∧ rn E (p + sz E p) = 47
      · rw [if_pos hq]
        have := sz_le h _ hq.2.1
        omega
      · rw [if_neg hq, max_sz h hlt]
        have := ih (p + sz E p) h2
        omega

theorem BCE_bounds (h : DecOK E) {p : Nat} (hp : p ≤ E.len) : p ≤ BCE E p ∧ BCE E p ≤ E.len :=
  blockCommentEnd_bounds h _ _ hp

/-! ### one step of the lexer in state *code* -/

/-- the next code offset after the code offset `p < len`; `none` = the literal opened at
    `p` never closes.  (Mirrors the body of `lexLoop`.) -/
def lexNext (E : Env) (p : Nat) : Option Nat :=
  let p1 := p + max (sz E p) 1
  if rn E p = 34 ∨ rn E p = 39 then litEnd E (rn E p) (E.len + 1) p1
  else if rn E p = 45 ∧ p1 < E.len ∧ rn E p1 = 45 then
    some (lineCommentEnd E (E.len + 1) (p1 + sz E p1))
  else if rn E p = 47 ∧ p1 < E.len ∧ rn E p1 = 42 then
    some (blockCommentEnd E (E.len + 1) (p1 + sz E p1))
  else some p1

theorem lexLoop_succ (f p : Nat) (acc : List Region) : lexLoop E (f+1) p acc =
    if p ≥ E.len then .ok acc.reverse else
    if rn E p = 34 ∨ rn E p = 39 then
      match litEnd E (rn E p) (E.len + 1) (p + max (sz E p) 1) with
      | none => .error p
      | some e => lexLoop E f e ({ kind := .lit, a := p, b := e } :: acc)
    else if rn E p = 45 ∧ p + max (sz E p) 1 < E.len ∧ rn E (p + max (sz E p) 1) = 45 then
      lexLoop E f (lineCommentEnd E (E.len + 1) (p + max (sz E p) 1 + sz E (p + max (sz E p) 1)))
        ({ kind := .comment, a := p,
           b := lineCommentEnd E (E.len + 1) (p + max (sz E p) 1 + sz E (p + max (sz E p) 1)) } :: acc)
    else if rn E p = 47 ∧ p + max (sz E p) 1 < E.len ∧ rn E (p + max (sz E p) 1) = 42 then
      lexLoop E f (blockCommentEnd E (E.len + 1) (p + max (sz E p) 1 + sz E (p + max (sz E p) 1)))
        ({ kind := .comment, a := p,
           b := blockCommentEnd E (E.len + 1) (p + max (sz E p) 1 + sz E (p + max (sz E p) 1)) } :: acc)
    else lexLoop E f (p + max (sz E p) 1) acc := by
  rw [lexLoop]; rfl

/-- `lexLoop` in terms of `lexNext`: an unclosed literal is an error at `p`; otherwise the
    loop continues at the next code offset, possibly with one more region `[p, e)` -/
theorem lexLoop_step (f p : Nat) (acc : List Region) (hp : p < E.len) :
    (lexNext E p = none → lexLoop E (f+1) p acc = .error p) ∧
    (∀ e, lexNext E p = some e → ∃ acc', lexLoop E (f+1) p acc = lexLoop E f e acc' ∧
      ∀ r, r ∈ acc' → r ∈ acc ∨ (r.a = p ∧ r.b = e)) := by
  rw [lexLoop_succ, if_neg (Nat.not_le.mpr hp)]
  unfold lexNext
  simp only []
  have hcons : ∀ (r0 : Region) (e : Nat), r0.a = p → r0.b = e →
      ∀ r, r ∈ r0 :: acc → r ∈ acc ∨ (r.a = p ∧ r.b = e) := by
    intro r0 e ha hb r hr
    rcases List.mem_cons.mp hr with rfl | hr
    · exact Or.inr ⟨ha, hb⟩
    · exact Or.inl hr
  by_cases hq : rn E p = 34 ∨ rn E p = 39
  · rw [if_pos hq, if_pos hq]
    cases hl : litEnd E (rn E p) (E.len + 1) (p + max (sz E p) 1) with
    | none => exact ⟨fun _ => rfl, fun e he => (by cases he)⟩
    | some e' =>
      refine ⟨fun hn => (by cases hn), fun e he => ?_⟩
      cases he
      exact ⟨_, rfl, hcons _ _ rfl rfl⟩
  · rw [if_neg hq, if_neg hq]
    by_cases hl : rn E p = 45 ∧ p + max (sz E p) 1 < E.len ∧ rn E (p + max (sz E p) 1) = 45
    · rw [if_pos hl, if_pos hl]
      refine ⟨fun hn => (by cases hn), fun e he => ?_⟩
      cases he
      exact ⟨_, rfl, hcons _ _ rfl rfl⟩
    · rw [if_neg hl, if_neg hl]
      by_cases hb : rn E p = 47 ∧ p + max (sz E p) 1 < E.len ∧ rn E (p + max (sz E p) 1) = 42
      · rw [if_pos hb, if_pos hb]
        refine ⟨fun hn => (by cases hn), fun e he => ?_⟩
        cases he
        exact ⟨_, rfl, hcons _ _ rfl rfl⟩
      · rw [if_neg hb, if_neg hb]
        refine ⟨fun hn => (by cases hn), fun e he => ?_⟩
        cases he
        exact ⟨acc, rfl, fun r hr => Or.inl hr⟩

/-! #### `lexNext` in the four cases (the decoder makes progress, so `max size 1 = size`) -/

theorem lexNext_lit (h : DecOK E) {p : Nat} (hp : p < E.len) (hq : rn E p = 34 ∨ rn E p = 39) :
    lexNext E p = LE E (rn E p) (p + sz E p) := by
  unfold lexNext
  simp only []
  rw [if_pos hq, max_sz h hp]

theorem lexNext_line (h : DecOK E) {p : Nat} (hp : p < E.len) (hq : rn E p = 45)
    (hp1 : p + sz E p < E.len) (hq1 : rn E (p + sz E p) = 45) :
    lexNext E p = some (LCE E (p + sz E p + sz E (p + sz E p))) := by
  unfold lexNext
  simp only []
  rw [max_sz h hp, if_neg (by omega), if_pos ⟨hq, hp1, hq1⟩]

theorem lexNext_block (h : DecOK E) {p : Nat} (hp : p < E.len) (hq : rn E p = 47)
    (hp1 : p + sz E p < E.len) (hq1 : rn E (p + sz E p) = 42) :
    lexNext E p = some (BCE E (p + sz E p + sz E (p + sz E p))) := by
  unfold lexNext
  simp only []
  rw [max_sz h hp, if_neg (by omega), if_neg (by omega), if_pos ⟨hq, hp1, hq1⟩]

theorem lexNext_plain (h : DecOK E) {p : Nat} (hp : p < E.len) (h34 : rn E p ≠ 34) (h39 : rn E p ≠ 39)
    (hline : ¬ (rn E p = 45 ∧ p + sz E p < E.len ∧ rn E (p + sz E p) = 45))
    (hblock : ¬ (rn E p = 47 ∧ p + sz E p < E.len ∧ rn E (p + sz E p) = 42)) :
    lexNext E p = some (p + sz E p) := by
  unfold lexNext
  simp only []
  rw [max_sz h hp, if_neg (by omega), if_neg hline, if_neg hblock]

/-- a step of the lexer moves strictly forward and stays inside the input -/
theorem lexNext_bounds (h : DecOK E) {p e : Nat} (hp : p < E.len) (he : lexNext E p = some e) :
    p < e ∧ e ≤ E.len := by
  have h1 := sz_pos h p hp
  have h2 := sz_le h p hp
  by_cases hq : rn E p = 34 ∨ rn E p = 39
  · rw [lexNext_lit h hp hq] at he
    have := LE_bounds h he
    omega
  by_cases hl : rn E p = 45 ∧ p + sz E p < E.len ∧ rn E (p + sz E p) = 45
  · rw [lexNext_line h hp hl.1 hl.2.1 hl.2.2] at he
    cases he
    have := sz_pos h _ hl.2.1
    have := sz_le h _ hl.2.1
    have := LCE_bounds h (p := p + sz E p + sz E (p + sz E p)) (by omega)
    omega
  by_cases hb : rn E p = 47 ∧ p + sz E p < E.len ∧ rn E (p + sz E p) = 42
  · rw [lexNext_block h hp hb.1 hb.2.1 hb.2.2] at he
    cases he
    have := sz_pos h _ hb.2.1
    have := sz_le h _ hb.2.1
    have := BCE_bounds h (p := p + sz E p + sz E (p + sz E p)) (by omega)
    omega
  · rw [lexNext_plain h hp (by omega) (by omega) hl hb] at he
    cases he
    omega

/-! ### code offsets -/

/-- `Reach E p x`: the lexer, in state *code* at offset `p`, later is in state *code* at
    offset `x` -/
inductive Reach (E : Env) : Nat → Nat → Prop where
  | refl (p : Nat) : Reach E p p
  | step {p e x : Nat} : p < E.len → lexNext E p = some e → Reach E e x → Reach E p x

/-- `LexCode E x`: the reference lexer, started at offset 0 in state *code*, reaches offset
    `x` in state *code* -/
def LexCode (E : Env) (x : Nat) : Prop := Reach E 0 x

theorem Reach.trans {a b c : Nat} (h1 : Reach E a b) (h2 : Reach E b c) : Reach E a c := by
  induction h1 with
  | refl p => exact h2
  | step hp he _ ih => exact Reach.step hp he (ih h2)

theorem Reach.le (h : DecOK E) {p x : Nat} (hr : Reach E p x) : p ≤ x := by
  induction hr with
  | refl p => exact Nat.le_refl _
  | step hp he _ ih => have := lexNext_bounds h hp he; omega

theorem LexCode.zero : LexCode E 0 := Reach.refl 0

theorem LexCode.next {p e : Nat} (hc : LexCode E p) (hp : p < E.len) (he : lexNext E p = some e) :
    LexCode E e :=
  Reach.trans hc (Reach.step hp he (Reach.refl e))

/-! ### `lexLoop` and the code offsets -/

/-- if the lexer reports an unclosed literal, the end of the input is not reachable -/
theorem lexLoop_error : ∀ (f p : Nat) (acc : List Region) (q : Nat),
    lexLoop E f p acc = .error q → ¬ Reach E p E.len := by
  intro f
  induction f with
  | zero => intro p acc q he; unfold lexLoop at he; cases he
  | succ f ih =>
    intro p acc q he hr
    by_cases hp : p < E.len
    · obtain ⟨_, hsome⟩ := lexLoop_step f p acc hp
      cases hr with
      | refl => omega
      | step _ hn hr' =>
        obtain ⟨acc', hl, _⟩ := hsome _ hn
        rw [hl] at he
        exact ih _ _ _ he hr'
    · unfold lexLoop at he
      rw [if_pos (by omega)] at he
      cases he

/-- no offset reachable from `p` lies strictly inside a region found from `p` on -/
theorem lexLoop_regions (h : DecOK E) : ∀ (f p : Nat) (acc regions : List Region),
    lexLoop E f p acc = .ok regions → E.len - p < f → ∀ r, r ∈ regions →
      r ∈ acc ∨ (p ≤ r.a ∧ ∀ x, Reach E p x → ¬ (r.a < x ∧ x < r.b)) := by
  intro f
  induction f with
  | zero => intros; omega
  | succ f ih =>
    intro p acc regions he hf r hr
    by_cases hp : p < E.len
    · obtain ⟨hnone, hsome⟩ := lexLoop_step f p acc hp
      cases hn : lexNext E p with
      | none => rw [hnone hn] at he; cases he
      | some e =>
        obtain ⟨acc', hl, hacc⟩ := hsome e hn
        have hb := lexNext_bounds h hp hn
        rw [hl] at he
        rcases ih e acc' regions he (by omega) r hr with hm | ⟨hle, hx⟩
        · rcases hacc r hm with hm | ⟨ha, hb'⟩
          · exact Or.inl hm
          · refine Or.inr ⟨by omega, fun x hrx => ?_⟩
            cases hrx with
            | refl => omega
            | step _ hn' hr' =>
              rw [hn] at hn'; cases hn'
              have := hr'.le h
              omega
        · refine Or.inr ⟨by omega, fun x hrx => ?_⟩
          cases hrx with
          | refl => omega
          | step _ hn' hr' =>
            rw [hn] at hn'; cases hn'
            exact hx x hr'
    · unfold lexLoop at he
      rw [if_pos (by omega)] at he
      cases he
      exact Or.inl (List.mem_reverse.mp hr)

/-- an unclosed literal: the end of the input is not a code offset -/
theorem lexRegions_error {q : Nat} (he : lexRegions E = .error q) :
    ¬ LexCode E E.len :=
  lexLoop_error _ _ _ _ he

/-- a code offset does not lie strictly inside a region -/
theorem lexRegions_ok (h : DecOK E) {regions : List Region} (he : lexRegions E = .ok regions)
    {r : Region} (hr : r ∈ regions) {x : Nat} (hx : LexCode E x) :
    r.strictlyInside x = false := by
  rcases lexLoop_regions h _ _ _ _ he (by omega) r hr with hm | ⟨_, hn⟩
  · cases hm
  · have := hn x hx
    unfold Region.strictlyInside
    rw [Bool.and_eq_false_iff, decide_eq_false_iff_not, decide_eq_false_iff_not]
    omega

end
end Sqlair
