import Lean.Data.Json
open Lean
namespace Driver
def handleL2 (_ : Json) : Except String Json := throw "l2 not built"
end Driver
