/-
  Bind/Step: what one `addToQuery` step does to the query-builder state, for each kind of
  typed expression, and the invariant `QBInv` of the state along the fold of `bindInputs`.
-/
import SqlairProofs.Bind.Rows

namespace Sqlair


theorem insRows_length (bcs : List BCol) (numRows : Nat) : (insRows bcs numRows).length = numRows := by
  simp [insRows]

theorem insRows_rect (bcs : List BCol) (numRows : Nat) :
    ∀ r ∈ insRows bcs numRows, r.length = (insNames bcs).length := by
  intro r hr
  simp only [insRows, List.mem_map] at hr
  obtain ⟨_, _, rfl⟩ := hr
  simp [insNames]

/-- everything `addToQuery` does for an `.insert` expression -/
structure InsertStep (tt : TypeTable) (m : TypeToValue) (qb : QB) (cols : List TCol) (qb' : QB)
    (bcs : List BCol) (numRows : Nat) : Prop where
  bound : ∃ qb1, bindCols tt m cols qb [] false 1 = .ok (qb1, bcs, numRows)
  cols : ColsBound tt m cols bcs
  ok : BColsOK qb.inputCount bcs numRows
  rows_pos : 1 ≤ numRows
  bulk_len : ∀ bc ∈ bcs, bc.bulk = true → bc.vals.length = numRows
  no_bulk : (∀ bc ∈ bcs, bc.bulk = false) → numRows = 1
  single : ∀ bc ∈ bcs, bc.bulk = false → bc.vals.length ≤ 1
  inputCount : qb'.inputCount = bcsEnd qb.inputCount bcs
  pieces : qb'.pieces = qb.pieces ++ [.insert (insNames bcs) (insRows bcs numRows)]
  params : qb'.params = qb.params ++ insParams bcs numRows
  outputs : qb'.outputs = qb.outputs
  outputCount : qb'.outputCount = qb.outputCount

theorem addToQuery_insert_spec {tt : TypeTable} {m : TypeToValue} {qb qb' : QB} {cols : List TCol}
    (h : addToQuery tt m qb (.insert cols) = .ok qb') :
    ∃ bcs numRows, InsertStep tt m qb cols qb' bcs numRows := by
  unfold addToQuery at h
  simp only at h
  split at h
  · cases h
  · rename_i qb1 bcs numRows hb
    obtain ⟨new, hbcs, hcols, hchain, hend, hframe, h1, h2, h3, h4, h5⟩ := bindCols_spec _ _ _ _ _ _ _ _ hb
    simp only [List.nil_append] at hbcs
    subst hbcs
    have hq := addInsert_spec h
    subst hq
    refine ⟨bcs, numRows, ⟨qb1, hb⟩, hcols, ⟨hchain, ?_⟩, h5 (Nat.le_refl 1), h2, h4, h1, ?_, ?_, ?_, ?_, ?_⟩
    · intro bc hbc _
      cases hbk : bc.bulk
      · exact Or.inl (h1 bc hbc hbk)
      · exact Or.inr (h2 bc hbc hbk)
    · exact hend
    · simp [hframe.pieces]
    · simp [hframe.params]
    · exact hframe.outputs
    · exact hframe.outputCount




/-- the parameters of a plain input expression -/
def inputParams (first : Nat) (vals : List String) : List (Nat × String) :=
  ((List.range vals.length).zip vals).map (fun (i, v) => (first + i, v))

theorem inputParams_fst (first : Nat) (vals : List String) :
    (inputParams first vals).map (·.1) = (List.range vals.length).map (first + ·) := by
  unfold inputParams
  rw [List.map_map]
  have : ((fun x : Nat × String => x.1) ∘ fun (x : Nat × String) => (first + x.1, x.2)) = (fun i => first + i) ∘ Prod.fst := by
    funext x; rfl
  rw [show (fun (x : Nat × String) => match x with | (i, v) => (first + i, v)) = fun (x : Nat × String) => (first + x.1, x.2) from by funext ⟨_, _⟩; rfl]
  rw [this, ← List.map_map, List.map_fst_zip (by simp)]

/-- everything `addToQuery` does for an `.input` expression -/
structure InputStep (tt : TypeTable) (m : TypeToValue) (qb : QB) (loc : Loc) (qb' : QB) (p : Params) : Prop where
  located : locateParams tt m loc = .ok p
  not_om : p.om = false
  not_bulk : p.bulk = false
  inputCount : qb'.inputCount = qb.inputCount + p.vals.length
  pieces : qb'.pieces = qb.pieces ++ [.inputs qb.inputCount p.vals.length]
  params : qb'.params = qb.params ++ inputParams qb.inputCount p.vals
  outputs : qb'.outputs = qb.outputs
  outputCount : qb'.outputCount = qb.outputCount

theorem addToQuery_input_spec {tt : TypeTable} {m : TypeToValue} {qb qb' : QB} {loc : Loc}
    (h : addToQuery tt m qb (.input loc) = .ok qb') : ∃ p, InputStep tt m qb loc qb' p := by
  unfold addToQuery at h
  simp only at h
  split at h
  · cases h
  · rename_i p hp
    split at h
    · cases h
    · split at h
      · cases h
      · rename_i h1 h2
        cases h
        exact ⟨p, hp, by simpa using h1, by simpa using h2, rfl, rfl, rfl, rfl, rfl⟩


/-- the effect of one `addToQuery` step on the state: one new piece `p` and new
    parameters `ps` with fresh numbers -/
structure StepSpec (qb qb' : QB) (te : TExpr) (p : Piece) (ps : List (Nat × String)) : Prop where
  pieces : qb'.pieces = qb.pieces ++ [p]
  params : qb'.params = qb.params ++ ps
  mono : qb.inputCount ≤ qb'.inputCount
  bounds : ∀ n ∈ p.phs, qb.inputCount ≤ n ∧ n < qb'.inputCount
  nodup : (ps.map (·.1)).Nodup
  iff : ∀ n, n ∈ p.phs ↔ n ∈ ps.map (·.1)
  rect : ∀ cols rows, p = .insert cols rows → ∀ r ∈ rows, r.length = cols.length
  outCount : qb'.outputCount = qb.outputCount + p.numOut
  outputs : qb'.outputs = qb.outputs ++ te.outCols.map (·.2)
  outCols : p.outCols = te.outCols.map (·.1)
  numOut : p.numOut = te.outCols.length
  alias : p.aliases = (List.range p.numOut).map (qb.outputCount + ·)
  first : ∀ f cs, p = .outputs f cs → f = qb.outputCount
  cover : ∀ n, qb.inputCount ≤ n → n < qb'.inputCount → n ∈ p.phs

theorem addToQuery_step {tt : TypeTable} {m : TypeToValue} {qb qb' : QB} {te : TExpr}
    (h : addToQuery tt m qb te = .ok qb') : ∃ p ps, StepSpec qb qb' te p ps := by
  cases te with
  | bypass chunk =>
    simp [addToQuery] at h; subst h
    exact ⟨.text chunk, [], by simp, by simp, Nat.le_refl _, by simp [Piece.phs], by simp,
      by simp [Piece.phs], by simp, by simp [Piece.numOut], by simp [TExpr.outCols],
      by simp [Piece.outCols, TExpr.outCols], by simp [Piece.numOut, TExpr.outCols],
      by simp [Piece.aliases, Piece.numOut], by simp, by intro n h1 h2; simp only at h2; omega⟩
  | input loc =>
    obtain ⟨p, hs⟩ := addToQuery_input_spec h
    refine ⟨_, _, hs.pieces, hs.params, by rw [hs.inputCount]; omega, ?_, ?_, ?_, by simp,
      by simp [Piece.numOut, hs.outputCount], by simp [TExpr.outCols, hs.outputs],
      by simp [Piece.outCols, TExpr.outCols], by simp [Piece.numOut, TExpr.outCols],
      by simp [Piece.aliases, Piece.numOut], by simp, ?_⟩
    · intro n hn
      simp only [Piece.phs, List.mem_map, List.mem_range] at hn
      obtain ⟨i, hi, rfl⟩ := hn
      rw [hs.inputCount]; omega
    · rw [inputParams_fst, ← List.range'_eq_map_range]; exact List.nodup_range' _
    · intro n; rw [inputParams_fst]; simp [Piece.phs]
    · intro n h1 h2
      rw [hs.inputCount] at h2
      simp only [Piece.phs, List.mem_map, List.mem_range]
      exact ⟨n - qb.inputCount, by omega, by omega⟩
  | insert cols =>
    obtain ⟨bcs, numRows, hs⟩ := addToQuery_insert_spec h
    refine ⟨_, _, hs.pieces, hs.params, by rw [hs.inputCount]; exact le_bcsEnd _ _, ?_,
      insParams_nodup hs.ok, insert_phs_iff_params hs.ok, ?_,
      by simp [Piece.numOut, hs.outputCount], by simp [TExpr.outCols, hs.outputs],
      by simp [Piece.outCols, TExpr.outCols], by simp [Piece.numOut, TExpr.outCols],
      by simp [Piece.aliases, Piece.numOut], by simp, ?_⟩
    · intro n hn; rw [hs.inputCount]; exact insert_phs_bounds hs.ok hn
    · intro cs rows heq
      cases heq
      exact insRows_rect bcs numRows
    · intro n h1 h2
      rw [hs.inputCount] at h2
      exact insert_phs_cover hs.ok hs.rows_pos h1 h2
  | output cols =>
    simp [addToQuery] at h; subst h
    exact ⟨.outputs qb.outputCount (cols.map (·.1)), [], by simp, by simp, Nat.le_refl _,
      by simp [Piece.phs], by simp, by simp [Piece.phs], by simp, by simp [Piece.numOut],
      by simp [TExpr.outCols], by simp [Piece.outCols, TExpr.outCols],
      by simp [Piece.numOut, TExpr.outCols], by simp [Piece.aliases, Piece.numOut],
      by intro f cs h; cases h; rfl, by intro n h1 h2; simp only at h2; omega⟩

/-- the `first` of every `.outputs` piece is the number of output columns before it -/
def outFirstsOK : Nat → List Piece → Prop
  | _, [] => True
  | c, .outputs f cols :: rest => f = c ∧ outFirstsOK (c + cols.length) rest
  | c, _ :: rest => outFirstsOK c rest

theorem outFirstsOK_cons (c : Nat) (p : Piece) (rest : List Piece) :
    outFirstsOK c (p :: rest) ↔
      (∀ f cs, p = .outputs f cs → f = c) ∧ outFirstsOK (c + p.numOut) rest := by
  cases p <;> simp [outFirstsOK, Piece.numOut]

theorem outFirstsOK_append : ∀ (a b : List Piece) (c : Nat),
    outFirstsOK c (a ++ b) ↔ outFirstsOK c a ∧ outFirstsOK (c + (a.map Piece.numOut).sum) b := by
  intro a
  induction a with
  | nil => intro b c; simp [outFirstsOK]
  | cons p rest ih =>
    intro b c
    rw [List.cons_append, outFirstsOK_cons, outFirstsOK_cons, ih]
    simp [Nat.add_assoc, and_assoc]

/-- invariant of the query-builder state along `bindInputs` -/
structure QBInv (qb : QB) : Prop where
  bound : ∀ n ∈ phsOf qb.pieces, n < qb.inputCount
  nodup : (qb.params.map (·.1)).Nodup
  iff : ∀ n, n ∈ phsOf qb.pieces ↔ n ∈ qb.params.map (·.1)
  ordered : qb.pieces.Pairwise (fun p p' => ∀ a ∈ p.phs, ∀ b ∈ p'.phs, a < b)
  rect : ∀ cols rows, Piece.insert cols rows ∈ qb.pieces → ∀ r ∈ rows, r.length = cols.length
  outCount : qb.outputCount = (qb.pieces.map Piece.numOut).sum
  outLen : qb.outputs.length = qb.outputCount
  aliases : aliasesOf qb.pieces = List.range qb.outputCount
  firsts : outFirstsOK 0 qb.pieces
  dense : ∀ n, n < qb.inputCount → n ∈ phsOf qb.pieces

theorem QBInv.init : QBInv {} := by
  refine ⟨by simp [phsOf], by simp, by simp [phsOf], by simp, by simp, by simp, by simp, by simp [aliasesOf], trivial, by simp⟩

theorem phsOf_append (a b : List Piece) : phsOf (a ++ b) = phsOf a ++ phsOf b := by
  simp [phsOf]

theorem mem_phsOf {ps : List Piece} {n : Nat} : n ∈ phsOf ps ↔ ∃ p ∈ ps, n ∈ p.phs := by
  simp [phsOf]

theorem QBInv.step {qb qb' : QB} {te : TExpr} {p : Piece} {ps : List (Nat × String)}
    (inv : QBInv qb) (s : StepSpec qb qb' te p ps) : QBInv qb' := by
  have hfresh : ∀ n ∈ ps.map (·.1), qb.inputCount ≤ n := fun n hn => (s.bounds n ((s.iff n).2 hn)).1
  refine ⟨?_, ?_, ?_, ?_, ?_, ?_, ?_, ?_, ?_, ?_⟩
  · intro n hn
    rw [s.pieces, phsOf_append] at hn
    rcases List.mem_append.1 hn with hn | hn
    · have := inv.bound n hn; have := s.mono; omega
    · simp [phsOf] at hn; exact (s.bounds n hn).2
  · rw [s.params, List.map_append, List.nodup_append]
    refine ⟨inv.nodup, s.nodup, ?_⟩
    intro a ha b hb hab
    subst hab
    have h1 := inv.bound a ((inv.iff a).2 ha)
    have h2 := hfresh a hb
    omega
  · intro n
    rw [s.pieces, s.params, phsOf_append, List.map_append, List.mem_append, List.mem_append, inv.iff n]
    simp [phsOf, s.iff n]
  · rw [s.pieces, List.pairwise_append]
    refine ⟨inv.ordered, by simp, ?_⟩
    intro a ha b hb x hx y hy
    simp at hb; subst hb
    have h1 := inv.bound x (mem_phsOf.2 ⟨a, ha, hx⟩)
    have h2 := (s.bounds y hy).1
    omega
  · intro cols rows hmem
    rw [s.pieces] at hmem
    rcases List.mem_append.1 hmem with hmem | hmem
    · exact inv.rect cols rows hmem
    · simp at hmem; exact s.rect cols rows hmem.symm
  · rw [s.outCount, s.pieces, inv.outCount]; simp
  · rw [s.outputs, s.outCount, List.length_append, inv.outLen, s.numOut]; simp
  · rw [s.pieces, s.outCount]
    unfold aliasesOf
    rw [List.flatMap_append]
    have := inv.aliases
    unfold aliasesOf at this
    rw [this]
    simp [s.alias, List.range_add]
  · rw [s.pieces, outFirstsOK_append]
    refine ⟨inv.firsts, ?_⟩
    rw [outFirstsOK_cons]
    refine ⟨?_, trivial⟩
    intro f cs hp
    rw [s.first f cs hp, inv.outCount]; simp
  · intro n hn
    rw [s.pieces, phsOf_append, List.mem_append]
    rcases Nat.lt_or_ge n qb.inputCount with h | h
    · exact Or.inl (inv.dense n h)
    · right; simp only [phsOf, List.flatMap_cons, List.flatMap_nil, List.append_nil]
      exact s.cover n h hn

/-- the invariant holds of every state reached by the fold of `bindInputs` -/
theorem foldlM_addToQuery_inv {tt : TypeTable} {m : TypeToValue} {tes : List TExpr} {qb qb' : QB}
    (inv : QBInv qb) (h : tes.foldlM (addToQuery tt m) qb = .ok qb') : QBInv qb' := by
  refine foldlM_except_inv (addToQuery tt m) QBInv tes ?_ qb qb' inv h
  intro b a b' _ hb hstep
  obtain ⟨p, ps, s⟩ := addToQuery_step hstep
  exact hb.step s


end Sqlair
