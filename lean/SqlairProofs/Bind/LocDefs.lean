/-
  Bind/LocDefs: the input locators of typed expressions and their kind discipline
  (what `bindTypes` guarantees about the type ids in locators).
-/
import SqlairModel.Bind

namespace Sqlair

/-- the type id of a locator has the kind its constructor promises; a slice locator names a
    NAMED slice type (samples must be named types) -/
def Loc.kindOK (tt : TypeTable) : Loc → Prop
  | .field tid _ _ => (tt.get tid).kind = .struct
  | .mapKey tid _ _ => (tt.get tid).kind = .map
  | .slice tid _ => (tt.get tid).kind = .slice ∧ (tt.get tid).name.size ≠ 0

instance (tt : TypeTable) (l : Loc) : Decidable (l.kindOK tt) := by
  cases l <;> unfold Loc.kindOK <;> infer_instance

/-- the locator of an insert column, if any -/
def TCol.loc? : TCol → Option Loc
  | .insert l _ _ => some l
  | .literal _ _ => none

/-- the input locators of a typed expression (those that `addToQuery` passes to `locateParams`) -/
def TExpr.inputLocs : TExpr → List Loc
  | .input l => [l]
  | .insert cols => cols.filterMap TCol.loc?
  | _ => []

/-- all input locators of the typed expressions are well-kinded -/
def InputLocsKindOK (tt : TypeTable) (tes : List TExpr) : Prop :=
  ∀ te ∈ tes, ∀ l ∈ te.inputLocs, l.kindOK tt

end Sqlair
