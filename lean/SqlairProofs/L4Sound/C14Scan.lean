/-
  L4Sound, C14 on `iter` cases: the three recursive checks (`chk`: rows in driver order,
  `ended`: Get after the end is an error, `live`: the current row stays available) hold of any
  call sequence on the model's iterator.
-/
import SqlairProofs.L4Sound.IterStep

namespace Sqlair.Rt

/-- call names the fewCols map sends to themselves -/
def l4s_fmap (f : String → String) : Prop :=
  (∀ x, f x = "next" ↔ x = "next") ∧ (∀ x, f x = "close" ↔ x = "close")

theorem l4s_fmap_callMap (b : Bool) : l4s_fmap (l4s_callMap b) :=
  ⟨l4s_callMap_next b, l4s_callMap_close b⟩

theorem l4s_fmap_id : l4s_fmap id := ⟨fun _ => Iff.rfl, fun _ => Iff.rfl⟩

/-! ### rows in driver order -/

def l4s_InvC (bad : Option Nat) (k : Nat) (it : Iter) (_ : World) : Prop :=
  it.WF ∧ l4s_Seq bad k it.remaining ∧ ∀ id, it.curId = some id → id = k

theorem l4s_curId_of_rows_none {it : Iter} (h : it.rows = none) : it.curId = none := by
  simp [Iter.curId, h]

theorem l4s_InvC_cancel {bad : Option Nat} {k : Nat} {it : Iter} {w : World} (h : l4s_InvC bad k it w)
    (ca : Option Nat) (i : Nat) :
    l4s_InvC bad k (preCancel ca i it w).1 (preCancel ca i it w).2 := by
  rw [preCancel_eq]
  split
  · obtain ⟨h1, h2, h3⟩ := h
    refine ⟨Iter.cancel_WF h1 w, ?_, ?_⟩
    · rcases Iter.cancel_remaining it w with h' | h'
      · rw [h']; trivial
      · rw [h']; exact h2
    · rcases Iter.cancel_ended it w with h' | h'
      · intro id hid
        rw [Iter.curId_of_ended (Iter.cancel_WF h1 w) h'] at hid; cases hid
      · rw [h']; exact h3
  · exact h

theorem l4s_InvC_step {bad : Option Nat} {f : String → String} (hf : l4s_fmap f) (k : Nat) (call : String)
    (it : Iter) (w : World) (h : l4s_InvC bad k it w) :
    l4s_chkG call (callStep (f call) it w).2.2 k = true ∧
    l4s_InvC bad (l4s_chkN call (callStep (f call) it w).2.2 k) (callStep (f call) it w).1 (callStep (f call) it w).2.1 := by
  obtain ⟨h1, h2, h3⟩ := h
  by_cases hn : call = "next"
  · subst hn
    rw [(hf.1 "next").2 rfl, l4s_callStep_next]
    refine ⟨by simp [l4s_chkG], ?_⟩
    simp only [l4s_chkN, beq_self_eq_true, if_true]
    rcases Iter.next_remaining it w with ⟨g1, _, g3⟩ | ⟨row, rest, g1, g2, g3, g4⟩
    · rw [g1, l4s_toString_false]
      simp only [Bool.false_eq_true, if_false]
      refine ⟨Iter.next_WF h1 w, by rw [g3]; trivial, ?_⟩
      intro id hid
      rw [Iter.curId_of_ended (Iter.next_WF h1 w) (Iter.ended_of_next_false it w g1)] at hid; cases hid
    · rw [g2, l4s_toString_true]
      simp only [if_true]
      rw [g1] at h2
      obtain ⟨s1, _, s3⟩ := h2
      refine ⟨Iter.next_WF h1 w, by rw [g4]; exact s3, ?_⟩
      intro id hid; rw [g3] at hid; cases hid; exact s1
  · have hn' : f call ≠ "next" := fun h => hn ((hf.1 call).1 h)
    have hnb : (call == "next") = false := by simpa using hn
    by_cases hc : call = "close"
    · subst hc
      rw [(hf.2 "close").2 rfl, l4s_callStep_close]
      refine ⟨by simp [l4s_chkG], ?_⟩
      simp only [l4s_chkN]
      refine ⟨Iter.close_WF it w, by rw [Iter.remaining_of_rows_none (by simp)]; trivial, ?_⟩
      intro id hid; rw [l4s_curId_of_rows_none (by simp)] at hid; cases hid
    · have hc' : f call ≠ "close" := fun h => hc ((hf.2 call).1 h)
      rw [l4s_callStep_get hn' hc']
      refine ⟨?_, by simp only [l4s_chkN, hnb]; exact ⟨h1, h2, h3⟩⟩
      simp only [l4s_chkG, hnb, Bool.false_eq_true, if_false]
      split
      · rename_i hcond
        simp only [Bool.and_eq_true] at hcond
        obtain ⟨id, hid⟩ := l4s_renderGet_row hcond.2
        rw [hid]
        have := h3 id (Iter.get_row_cur hid)
        subst this
        simp [l4s_renderGet]
      · rfl

theorem l4s_chk_runCalls (bad : Option Nat) {f : String → String} (hf : l4s_fmap f) (ca : Option Nat)
    (cs l : List String) (i : Nat) {it : Iter} (w : World) (hwf : it.WF) (hseq : l4s_Seq bad 0 it.remaining)
    (hcur : it.curId = none) :
    holdsC14.chk (l.zip (runCalls cs ca i it w (l.map f)).2.2) 0 = true := by
  rw [l4s_chk_eq]
  exact l4s_scan_runCalls l4s_chkG l4s_chkN f ca (l4s_InvC bad)
    (fun a i it w h => l4s_InvC_cancel h ca i) (fun a call it w h => l4s_InvC_step hf a call it w h)
    cs l i it w 0 ⟨hwf, hseq, by intro id hid; rw [hcur] at hid; cases hid⟩

/-! ### Get after the end -/

def l4s_InvE (over : Bool) (it : Iter) (_ : World) : Prop :=
  over = true → it.ended = true ∧ it.started = true

theorem l4s_InvE_cancel {over : Bool} {it : Iter} {w : World} (h : l4s_InvE over it w) (ca : Option Nat) (i : Nat) :
    l4s_InvE over (preCancel ca i it w).1 (preCancel ca i it w).2 := by
  rw [preCancel_eq]
  split
  · intro ho
    obtain ⟨h1, h2⟩ := h ho
    exact ⟨step_ended h1 w .cancel, by rw [l4s_cancel_started]; exact h2⟩
  · exact h

theorem l4s_ended_of_rows_none {it : Iter} (h : it.rows = none) : it.ended = true := by
  simp [Iter.ended, h]

theorem l4s_InvE_step {f : String → String} (hf : l4s_fmap f) (over : Bool) (call : String)
    (it : Iter) (w : World) (h : l4s_InvE over it w) :
    l4s_endedG call (callStep (f call) it w).2.2 over = true ∧
    l4s_InvE (l4s_endedN call (callStep (f call) it w).2.2 over) (callStep (f call) it w).1
      (callStep (f call) it w).2.1 := by
  by_cases hn : call = "next"
  · subst hn
    rw [(hf.1 "next").2 rfl, l4s_callStep_next]
    refine ⟨by simp [l4s_endedG], ?_⟩
    simp only [l4s_endedN, beq_self_eq_true, if_true]
    intro ho
    refine ⟨?_, Iter.next_started it w⟩
    cases hover : over
    · rw [hover] at ho
      simp only [Bool.false_or] at ho
      cases hb : (it.next w).2.2
      · exact Iter.ended_of_next_false it w hb
      · rw [hb, l4s_toString_true'] at ho; cases ho
    · have := (h hover).1
      exact step_ended this w .next
  · have hn' : f call ≠ "next" := fun h => hn ((hf.1 call).1 h)
    have hnb : (call == "next") = false := by simpa using hn
    by_cases hc : call = "close"
    · subst hc
      rw [(hf.2 "close").2 rfl, l4s_callStep_close]
      refine ⟨by simp [l4s_endedG], ?_⟩
      simp only [l4s_endedN]
      intro _
      exact ⟨l4s_ended_of_rows_none (by simp), Iter.close_started it w⟩
    · have hc' : f call ≠ "close" := fun h => hc ((hf.2 call).1 h)
      have hcb : (call == "close") = false := by simpa using hc
      rw [l4s_callStep_get hn' hc']
      refine ⟨?_, by simp only [l4s_endedN, hnb, hcb]; exact h⟩
      simp only [l4s_endedG, hnb, hcb, Bool.false_eq_true, if_false]
      cases hover : over
      · rfl
      · obtain ⟨h1, h2⟩ := h hover
        obtain ⟨e, he⟩ := l4s_get_of_ended h1 h2 (l4s_argsOf (f call))
        rw [he, l4s_renderGet_err_facts]; rfl

theorem l4s_ended_runCalls {f : String → String} (hf : l4s_fmap f) (ca : Option Nat)
    (cs l : List String) (i : Nat) (it : Iter) (w : World) :
    holdsC14.ended (l.zip (runCalls cs ca i it w (l.map f)).2.2) false = true := by
  rw [l4s_ended_eq]
  exact l4s_scan_runCalls l4s_endedG l4s_endedN f ca l4s_InvE
    (fun a i it w h => l4s_InvE_cancel h ca i) (fun a call it w h => l4s_InvE_step hf a call it w h)
    cs l i it w false (by intro h; cases h)

/-! ### the current row stays available -/

def l4s_InvL (bad : Option Nat) (a : Nat × Bool) (it : Iter) (_ : World) : Prop :=
  it.WF ∧ l4s_Seq bad a.1 it.remaining ∧
  (a.2 = true → it.err = none ∧ it.started = true ∧
    ∃ r row, it.rows = some r ∧ r.closed = false ∧ r.cur = some row ∧ row.id = a.1 ∧
      row.scanOK = (some (a.1 - 1) != bad))

theorem l4s_InvL_step (bad : Option Nat) (a : Nat × Bool) (call : String) (it : Iter) (w : World)
    (h : l4s_InvL bad a it w) :
    l4s_liveG { (default : Case) with badRow := bad } call (callStep call it w).2.2 a = true ∧
    l4s_InvL bad (l4s_liveN call (callStep call it w).2.2 a) (callStep call it w).1 (callStep call it w).2.1 := by
  obtain ⟨k, cur⟩ := a
  obtain ⟨h1, h2, h3⟩ := h
  by_cases hn : call = "next"
  · subst hn
    rw [l4s_callStep_next]
    refine ⟨by simp [l4s_liveG], ?_⟩
    simp only [l4s_liveN, beq_self_eq_true, if_true]
    rcases Iter.next_cases it w with hnx | ⟨r, he, hr, hnx⟩
    · rw [hnx, l4s_toString_false]
      simp only [Bool.false_eq_true, if_false]
      refine ⟨⟨h1.err_rows, h1.rows_out, h1.rows_wf⟩, ?_, by intro h; cases h⟩
      have : ({ it with started := true } : Iter).remaining = it.remaining := rfl
      rw [this]; exact h2
    · have hwf' := Iter.next_WF h1 w
      rw [hnx] at hwf'
      cases hc : r.closed
      · have hl := (h1.rows_wf r hr).lasterr_none hc
        have hrem : it.remaining = r.fetch := by rw [Iter.remaining_of_rows he hr, hc]; rfl
        cases hf : r.fetch with
        | nil =>
          obtain ⟨g1, g2, _⟩ := Rows.next_nil hc hf w
          rw [hnx, g1, l4s_toString_false]
          simp only [Bool.false_eq_true, if_false]
          refine ⟨hwf', ?_, by intro h; cases h⟩
          rw [Iter.remaining_of_rows (by simpa using he) rfl, g2]; trivial
        | cons x rest =>
          cases x with
          | error e =>
            obtain ⟨g1, g2, _⟩ := Rows.next_error hc hf w
            rw [hnx, g1, l4s_toString_false]
            simp only [Bool.false_eq_true, if_false]
            refine ⟨hwf', ?_, by intro h; cases h⟩
            rw [Iter.remaining_of_rows (by simpa using he) rfl, g2]; trivial
          | ok row =>
            have g := Rows.next_ok hc hf w
            rw [g] at hwf'
            rw [hnx, g, l4s_toString_true]
            simp only [if_true]
            rw [hrem, hf] at h2
            obtain ⟨s1, s2, s3⟩ := h2
            refine ⟨hwf', ?_, ?_⟩
            · rw [Iter.remaining_of_rows (by simpa using he) rfl]; simpa [hc] using s3
            · intro _
              exact ⟨he, rfl, _, row, rfl, hc, rfl, s1, by simpa using s2⟩
      · have hnc := Rows.next_of_closed hc w
        rw [hnx, hnc, l4s_toString_false]
        simp only [Bool.false_eq_true, if_false]
        refine ⟨?_, ?_, by intro h; cases h⟩
        · refine ⟨by simp [he], fun r' hr' => h1.rows_out r hr, ?_⟩
          intro r' hr'; simp at hr'; subst hr'; exact h1.rows_wf r hr
        · rw [Iter.remaining_of_rows (r := r) (by simpa using he) rfl, hc]; trivial
  · have hnb : (call == "next") = false := by simpa using hn
    by_cases hc : call = "close"
    · subst hc
      rw [l4s_callStep_close]
      refine ⟨by simp [l4s_liveG], ?_⟩
      simp only [l4s_liveN]
      exact ⟨Iter.close_WF it w, by rw [Iter.remaining_of_rows_none (by simp)]; trivial, by intro h; cases h⟩
    · have hcb : (call == "close") = false := by simpa using hc
      rw [l4s_callStep_get hn hc]
      refine ⟨?_, by simp only [l4s_liveN, hnb, hcb]; exact ⟨h1, h2, h3⟩⟩
      simp only [l4s_liveG, hnb, hcb, Bool.false_eq_true, if_false]
      split
      · rename_i hcond
        simp only [Bool.and_eq_true, beq_iff_eq] at hcond
        obtain ⟨⟨hget, hcur⟩, hbad⟩ := hcond
        obtain ⟨he, hs, r, row, hr, hcl, hrc, hid, hok⟩ := h3 hcur
        have hl := (h1.rows_wf r hr).lasterr_none hcl
        have hargs : l4s_argsOf call = .valid := by rw [hget]; rfl
        have hok' : row.scanOK = true := by rw [hok]; exact hbad
        rw [hargs, Iter.get_valid_cur he hs hr hl hcl hrc, hok', if_pos rfl, hid]
        simp [l4s_renderGet]
      · rfl

theorem l4s_live_runCalls (c : Case) (cs l : List String) (i : Nat) {it : Iter} (w : World) (hwf : it.WF)
    (hseq : l4s_Seq c.badRow 0 it.remaining) :
    holdsC14.live c (l.zip (runCalls cs none i it w l).2.2) 0 false = true := by
  rw [l4s_live_eq]
  have hG : l4s_liveG c = l4s_liveG { (default : Case) with badRow := c.badRow } := rfl
  rw [hG]
  have := l4s_scan_runCalls (l4s_liveG { (default : Case) with badRow := c.badRow }) l4s_liveN id none
    (l4s_InvL c.badRow)
    (fun a i it w h => by simpa [preCancel] using h)
    (fun a call it w h => l4s_InvL_step c.badRow a call it w h)
    cs l i it w (0, false) ⟨hwf, hseq, by intro h; cases h⟩
  rwa [List.map_id] at this

end Sqlair.Rt
