/-
  Translation invariance, main loop.

  * the preamble: on the shifted input the first call of `advanceToNextExpression` eats the
    `k` new newlines and lands in the shifted counterpart of the state the base run reaches
    with its first call (this is where the only position-absolute test of the parser, the
    name at offset 0, is dealt with);
  * the main loop: from then on both runs proceed in lockstep;
  * the nodes: all spans move by `k`, except that the shifted run has the `k` newlines in
    its first bypass node.
-/
import SqlairProofs.Parser.ShiftExprs

namespace Sqlair

section
variable {E : Env} {k : Nat}

/-! ### a state whose rune starts nothing -/

theorem skipChar_ne {c : Nat} {s : Sc} (hc : s.char ≠ c) : skipChar E c s = (s, false) := by
  unfold skipChar; rw [if_neg (fun hx => hc hx.2)]

theorem skipComment_ne {s : Sc} (h45 : s.char ≠ 45) (h47 : s.char ≠ 47) :
    skipComment E s = (s, false) := by
  unfold skipComment
  simp only [skipChar_ne h45, skipChar_ne h47, Bool.false_eq_true, if_false]

theorem skipStringLiteral_ne {s : Sc} (h34 : s.char ≠ 34) (h39 : s.char ≠ 39) :
    skipStringLiteral E s = (s, .no) := by
  unfold skipStringLiteral
  simp only [skipChar_ne h34, skipChar_ne h39, Bool.false_eq_true, if_false]

/-- `skipBlanks` does nothing in front of a name -/
theorem skipBlanks_nameChar (hsep : ClassSep E) {s : Sc} (hn : isNameChar E s.char = true) :
    skipBlanks E s = s := by
  obtain ⟨h9, h10, h13, h32, h45, h47⟩ := hsep.nameChar_ne hn
  unfold skipBlanks
  rw [blanksLoop]
  split
  · simp only [skipComment_ne h45 h47, Bool.false_eq_true, if_false]
    rw [if_neg (by omega)]; rfl
  · rfl

/-! ### the preamble -/

/-- the state of the shifted run at the `j`-th of the new newlines -/
def nlState (j : Nat) : Sc :=
  { pos := j, nextPos := j + 1, char := 10, lineNum := 1 + j, lineStart := j }

theorem initSc_shift (hl : DecLocal E) (hk : 0 < k) : initSc (shiftEnv k E) = nlState 0 := by
  unfold initSc
  have hd := hl.dec_lt (k := k) (i := 0) hk
  have hlen : ¬ ((0 : Nat) ≥ (shiftEnv k E).len) := by rw [shiftEnv_len]; omega
  apply Sc.ext'
  · rw [advanceChar_pos]; rfl
  · rw [advanceChar_nextPos, show Sc.zero.nextPos = 0 from rfl, if_neg hlen, hd]; rfl
  · rw [advanceChar_char, show Sc.zero.nextPos = 0 from rfl, if_neg hlen, hd]; rfl
  · rw [advanceChar_lineNum, if_neg (fun hc => by cases hc.1)]; rfl
  · rw [advanceChar_lineStart, if_neg (fun hc => by cases hc.1)]; rfl

/-- stepping over one of the new newlines -/
theorem advanceChar_nlState (hl : DecLocal E) {j : Nat} (hj : j < k) :
    advanceChar (shiftEnv k E) (nlState j) =
      if j + 1 < k then nlState (j + 1) else (initSc E).sh k := by
  have hc : (nlState j).char = 10 ∧ (nlState j).pos < (shiftEnv k E).len := by
    rw [shiftEnv_len]; exact ⟨rfl, by show j < _; omega⟩
  have hnp : (nlState j).nextPos = j + 1 := rfl
  split
  · next hlt =>
    have hd := hl.dec_lt (k := k) (i := j + 1) hlt
    have hlen : ¬ (j + 1 ≥ (shiftEnv k E).len) := by rw [shiftEnv_len]; omega
    apply Sc.ext'
    · rw [advanceChar_pos]; rfl
    · rw [advanceChar_nextPos, hnp, if_neg hlen, hd]; rfl
    · rw [advanceChar_char, hnp, if_neg hlen, hd]; rfl
    · rw [advanceChar_lineNum, if_pos hc]; show 1 + j + 1 = 1 + (j + 1); omega
    · rw [advanceChar_lineStart, if_pos hc]; rfl
  · next hge =>
    have hjk : j + 1 = k := by omega
    unfold initSc
    apply Sc.ext'
    · rw [advanceChar_pos, Sc.sh_pos, advanceChar_pos, hnp]; show j + 1 = 0 + k; omega
    · rw [advanceChar_nextPos, Sc.sh_nextPos, advanceChar_nextPos, hnp, shiftEnv_len]
      show _ = (if 0 ≥ E.len then 0 else 0 + (E.dec E.inp 0).2) + k
      by_cases hE : 0 ≥ E.len
      · rw [if_pos hE, if_pos (by omega)]; omega
      · have hd := hl.dec_ge (k := k) (p := 0) (by omega)
        rw [Nat.zero_add] at hd
        rw [if_neg hE, if_neg (by omega), hjk, hd]; omega
    · rw [advanceChar_char, Sc.sh_char, advanceChar_char, hnp, shiftEnv_len]
      show _ = (if 0 ≥ E.len then 0 else (E.dec E.inp 0).1)
      by_cases hE : 0 ≥ E.len
      · rw [if_pos hE, if_pos (by omega)]
      · have hd := hl.dec_ge (k := k) (p := 0) (by omega)
        rw [Nat.zero_add] at hd
        rw [if_neg hE, if_neg (by omega), hjk, hd]
    · rw [advanceChar_lineNum, if_pos hc, Sc.sh_lineNum, advanceChar_lineNum,
        if_neg (fun hx => by cases hx.1)]
      show 1 + j + 1 = 1 + k; omega
    · rw [advanceChar_lineStart, if_pos hc, Sc.sh_lineStart, advanceChar_lineStart,
        if_neg (fun hx => by cases hx.1), hnp]
      show j + 1 = 0 + k; omega

/-- one round of the loop of `advanceToNextExpression` on one of the new newlines -/
theorem advLoop_nlState (f j : Nat) (hj : j < k) :
    advLoop (shiftEnv k E) (f + 1) (nlState j) =
      if (advanceChar (shiftEnv k E) (nlState j)).pos ≥ E.len + k then
        (advanceChar (shiftEnv k E) (nlState j), .ok false)
      else if isNameChar E (advanceChar (shiftEnv k E) (nlState j)).char = true then
        (advanceChar (shiftEnv k E) (nlState j), .ok true)
      else advLoop (shiftEnv k E) f (advanceChar (shiftEnv k E) (nlState j)) := by
  have h34 : (nlState j).char ≠ 34 := by show (10 : Nat) ≠ 34; decide
  have h39 : (nlState j).char ≠ 39 := by show (10 : Nat) ≠ 39; decide
  have h45 : (nlState j).char ≠ 45 := by show (10 : Nat) ≠ 45; decide
  have h47 : (nlState j).char ≠ 47 := by show (10 : Nat) ≠ 47; decide
  have hp : (nlState j).pos < (shiftEnv k E).len := by rw [shiftEnv_len]; show j < _; omega
  rw [advLoop, if_pos hp]
  simp only [skipStringLiteral_ne h34 h39, skipComment_ne h45 h47, Bool.false_eq_true,
    if_false, shiftEnv_len, shiftEnv_isNameChar]
  have h1 : isExprTrigger (nlState j).char = false := by show isExprTrigger 10 = false; decide
  have h2 : isBlankLikeTrigger (nlState j).char = true := by show isBlankLikeTrigger 10 = true; decide
  rw [h1, h2]
  simp only [Bool.false_eq_true, if_false, if_true]
  rfl

/-- where the loop of `advanceToNextExpression` gets to once the new newlines are eaten -/
def afterNewlines (E : Env) (k f : Nat) : Sc × Res Bool :=
  if E.len = 0 then ((initSc E).sh k, .ok false)
  else if isNameChar E (initSc E).char = true then ((initSc E).sh k, .ok true)
  else advLoop (shiftEnv k E) f ((initSc E).sh k)

theorem advLoop_newlines (hl : DecLocal E) (hsep : ClassSep E) (f d j : Nat) (hjd : j + d + 1 = k) :
    advLoop (shiftEnv k E) (f + d + 1) (nlState j) = afterNewlines E k f := by
  induction d generalizing j with
  | zero =>
    have hadv := advanceChar_nlState (E := E) hl (show j < k by omega)
    rw [if_neg (show ¬ (j + 1 < k) by omega)] at hadv
    rw [Nat.add_zero, advLoop_nlState f j (by omega), hadv]
    unfold afterNewlines
    have hp0 : (initSc E).pos = 0 := initSc_good.2
    by_cases hE : E.len = 0
    · rw [if_pos hE, if_pos (by rw [Sc.sh_pos, hp0]; omega)]
    · rw [if_neg hE, if_neg (by rw [Sc.sh_pos, hp0]; omega)]
      rfl
  | succ d ih =>
    have hadv := advanceChar_nlState (E := E) hl (show j < k by omega)
    rw [if_pos (show j + 1 < k by omega)] at hadv
    rw [show f + (d + 1) + 1 = (f + d + 1) + 1 by omega, advLoop_nlState _ j (by omega), hadv]
    have hnl : isNameChar E (nlState (j + 1)).char = false := hsep.not_nameChar (by right; left; rfl)
    rw [if_neg (by show ¬ (j + 1 ≥ E.len + k); omega), hnl]
    simp only [Bool.false_eq_true, if_false]
    exact ih (j + 1) (by omega)

/-- the first `advanceToNextExpression` of the shifted run gets to the shifted counterpart of
    where the first `advanceToNextExpression` of the base run gets to -/
theorem preamble_shift (h : DecOK E) (hl : DecLocal E) (hsep : ClassSep E) (hk : 0 < k) :
    advanceToNextExpression (shiftEnv k E) (initSc (shiftEnv k E)) =
      shA k (advanceToNextExpression E (initSc E)) := by
  obtain ⟨g0, hp0⟩ := initSc_good (E := E)
  have hnl : isNameChar E (nlState 0).char = false := hsep.not_nameChar (by right; left; rfl)
  rw [initSc_shift hl hk, advanceToNextExpression_eq, advanceToNextExpression_eq,
    if_neg (fun hc => by rw [shiftEnv_isNameChar, hnl] at hc; cases hc.2.2), shiftEnv_len]
  unfold advFrom
  rw [show E.len + k + 1 = (E.len + 1) + (k - 1) + 1 by omega,
    advLoop_newlines hl hsep (E.len + 1) (k - 1) 0 (by omega)]
  unfold afterNewlines
  by_cases hE : E.len = 0
  · rw [if_pos hE, if_neg (fun hc => by omega)]
    have hno : ¬ (initSc E).pos < E.len := by omega
    have : advLoop E (E.len + 1) (initSc E) = (initSc E, .ok true) := by
      rw [advLoop, if_neg hno]
    rw [this]
    have hsb : skipBlanks E (initSc E) = initSc E := by
      unfold skipBlanks blanksLoop
      rw [if_neg hno]; rfl
    simp only [hsb]
    rfl
  · rw [if_neg hE]
    by_cases hn : isNameChar E (initSc E).char = true
    · rw [if_pos hn, if_pos ⟨by omega, hp0, hn⟩]
      simp only []
      rw [skipBlanks_shift h hl g0, skipBlanks_nameChar hsep hn]
      rfl
    · rw [if_neg hn, if_neg (fun hc => hn hc.2.2)]
      exact advFrom_shift h hl (E.len + 1) g0 (by omega)

/-! ### the nodes -/

/-- the nodes of the shifted run: all spans move by `k`, and the `k` new newlines form a new
    first bypass node (`fresh`: the base run starts with an expression, or has no node at
    all) or are added to the first bypass node of the base run (`merged`) -/
inductive SegsShift (k : Nat) : List Seg → List Seg → Prop where
  | fresh (l : List Seg) :
      SegsShift k l ({ kind := .bypass, a := 0, b := k } :: l.map (Seg.sh k))
  | merged (b : Nat) (rest : List Seg) :
      SegsShift k ({ kind := .bypass, a := 0, b := b } :: rest)
        ({ kind := .bypass, a := 0, b := b + k } :: rest.map (Seg.sh k))

theorem SegsShift.snoc {l l' : List Seg} (hs : SegsShift k l l') (y : Seg) :
    SegsShift k (l ++ [y]) (l' ++ [y.sh k]) := by
  cases hs with
  | fresh l =>
    have := SegsShift.fresh (k := k) (l ++ [y])
    rwa [List.map_append] at this
  | merged b rest =>
    have := SegsShift.merged (k := k) b (rest ++ [y])
    rwa [List.map_append] at this

theorem SegsShift.snoc_opt {l l' : List Seg} (hs : SegsShift k l l') (e : Option Seg) :
    SegsShift k (match e with | some x => l ++ [x] | none => l)
      (match e.map (Seg.sh k) with | some x => l' ++ [x] | none => l') := by
  cases e with
  | none => exact hs
  | some y => exact hs.snoc y

/-- the node part of the main-loop relation: nothing emitted yet on either side, or the
    nodes correspond and so do the ends of the last node -/
def NodesRel (k : Nat) (st st' : PS) : Prop :=
  (st.exprs = [] ∧ st'.exprs = [] ∧ st.prevExprEnd = 0 ∧ st'.prevExprEnd = 0) ∨
  (SegsShift k st.exprs st'.exprs ∧ st'.prevExprEnd = st.prevExprEnd + k)

/-- the main-loop relation -/
structure PSRel (k : Nat) (st st' : PS) : Prop where
  sc : st'.sc = st.sc.sh k
  nodes : NodesRel k st st'

/-- `add` on related states (with related starts of the current expression) gives related
    states, and from then on the node lists correspond -/
theorem add_rel (hk : 0 < k) {st st' : PS} (hrel : PSRel k st st')
    (hcur : st'.currentExprStart = st.currentExprStart + k) (e : Option Seg) :
    PSRel k (st.add e) (st'.add (e.map (Seg.sh k))) ∧
      SegsShift k (st.add e).exprs (st'.add (e.map (Seg.sh k))).exprs := by
  have hpos : st'.sc.pos = st.sc.pos + k := by rw [hrel.sc]; rfl
  have key : SegsShift k (st.add e).exprs (st'.add (e.map (Seg.sh k))).exprs := by
    unfold PS.add
    simp only []
    apply SegsShift.snoc_opt
    rcases hrel.nodes with ⟨h1, h2, h3, h4⟩ | ⟨hs, hp⟩
    · have hne : (0 : Nat) ≠ st.currentExprStart + k := by omega
      rw [h1, h2, h3, h4, hcur, if_pos hne]
      by_cases hc : 0 = st.currentExprStart
      · have hc' : ¬ (0 ≠ st.currentExprStart) := fun hx => hx hc
        rw [if_neg hc', ← hc, Nat.zero_add]
        exact SegsShift.fresh []
      · have hc' : 0 ≠ st.currentExprStart := hc
        rw [if_pos hc']
        exact SegsShift.merged _ []
    · rw [hp, hcur]
      by_cases hc : st.prevExprEnd = st.currentExprStart
      · have hc1 : ¬ (st.prevExprEnd ≠ st.currentExprStart) := fun hx => hx hc
        have hc2 : ¬ (st.prevExprEnd + k ≠ st.currentExprStart + k) := fun hx => hx (by omega)
        rw [if_neg hc1, if_neg hc2]
        exact hs
      · have hc1 : st.prevExprEnd ≠ st.currentExprStart := hc
        have hc2 : st.prevExprEnd + k ≠ st.currentExprStart + k := by omega
        rw [if_pos hc1, if_pos hc2]
        exact hs.snoc _
  exact ⟨⟨hrel.sc, Or.inr ⟨key, hpos⟩⟩, key⟩

/-! ### the main loop -/

/-- one round of the main loop after its `advanceToNextExpression` -/
def loopBody (E : Env) (f : Nat) (st : PS) : Sc × Option PErr → Except PErr PS
  | (_, some e) => .error e
  | (sc1, none) =>
    let st1 : PS := { st with sc := sc1, currentExprStart := sc1.pos }
    if sc1.pos = E.len then .ok st1 else
    match parseOutputExpr E sc1 with
    | (_, .err e) => .error e
    | (sc2, .ok seg) => parseLoop E f (PS.add { st1 with sc := sc2 } (some seg))
    | (sc2, .no) =>
      match parseInputExpr E sc2 with
      | (_, .err e) => .error e
      | (sc3, .ok seg) => parseLoop E f (PS.add { st1 with sc := sc3 } (some seg))
      | (sc3, .no) => parseLoop E f { st1 with sc := advanceChar E sc3 }

theorem parseLoop_succ (f : Nat) (st : PS) :
    parseLoop E (f+1) st = loopBody E f st (advanceToNextExpression E st.sc) := by
  rw [parseLoop]
  unfold loopBody
  rfl

/-- corresponding results of the main loop -/
def LRel (k : Nat) : Except PErr PS → Except PErr PS → Prop
  | .ok st, .ok st' => PSRel k st st' ∧ st'.currentExprStart = st.currentExprStart + k
  | .error e, .error e' => e' = e.sh k
  | _, _ => False

theorem loopBody_shift (h : DecOK E) (hl : DecLocal E) (hk : 0 < k) (f : Nat)
    (ih : ∀ st st', PSRel k st st' → Good E st.sc → 0 < st.sc.pos →
      LRel k (parseLoop E f st) (parseLoop (shiftEnv k E) f st'))
    {st st' : PS} (hn : NodesRel k st st') (r : Sc × Option PErr) (gr : r.2 = none → Good E r.1) :
    LRel k (loopBody E f st r) (loopBody (shiftEnv k E) f st' (shA k r)) := by
  obtain ⟨sc1, _ | e⟩ := r
  case some => exact rfl
  have g1 : Good E sc1 := gr rfl
  have hpl := g1.pos_le
  show LRel k (loopBody E f st (sc1, none)) (loopBody (shiftEnv k E) f st' (sc1.sh k, none))
  unfold loopBody
  shsimp [parseOutputExpr_shift h hl g1]
  by_cases hlen : sc1.pos = E.len
  · rw [if_pos hlen, if_pos hlen]
    exact ⟨⟨rfl, hn⟩, rfl⟩
  rw [if_neg hlen, if_neg hlen]
  have ho := parseOutputExpr_eok h g1
  rcases hq : parseOutputExpr E sc1 with ⟨sc2, (seg | _ | e)⟩ <;> shsimp
  · obtain ⟨g2, hlt2, _, _⟩ := ho.elim_ok hq
    refine ih _ _ ?_ g2 (by show 0 < sc2.pos; omega)
    exact (add_rel hk (st := { st with sc := sc2, currentExprStart := sc1.pos })
      (st' := { st' with sc := sc2.sh k, currentExprStart := sc1.pos + k }) ⟨rfl, hn⟩ rfl (some seg)).1
  · have hsc2 : sc2 = sc1 := ho.elim_no hq
    subst hsc2
    rw [parseInputExpr_shift h hl g1]
    have hi := parseInputExpr_eok h g1
    rcases hq2 : parseInputExpr E sc2 with ⟨sc3, (seg | _ | e)⟩ <;> shsimp
    · obtain ⟨g3, hlt3, _, _⟩ := hi.elim_ok hq2
      refine ih _ _ ?_ g3 (by show 0 < sc3.pos; omega)
      exact (add_rel hk (st := { st with sc := sc3, currentExprStart := sc2.pos })
        (st' := { st' with sc := sc3.sh k, currentExprStart := sc2.pos + k }) ⟨rfl, hn⟩ rfl (some seg)).1
    · have hsc3 : sc3 = sc2 := hi.elim_no hq2
      subst hsc3
      have hlt := advanceChar_lt h g1 (by omega)
      rw [advanceChar_shift hl]
      exact ih _ _ ⟨rfl, hn⟩ (advanceChar_good h g1) (by show 0 < (advanceChar E sc3).pos; omega)
    · exact rfl
  · exact rfl

/-- away from offset 0 the two runs of the main loop proceed in lockstep -/
theorem parseLoop_shift (h : DecOK E) (hl : DecLocal E) (hk : 0 < k) (f : Nat) (st st' : PS)
    (hrel : PSRel k st st') (g : Good E st.sc) (hpos : 0 < st.sc.pos) :
    LRel k (parseLoop E f st) (parseLoop (shiftEnv k E) f st') := by
  induction f generalizing st st' with
  | zero =>
    unfold parseLoop
    show errAt st'.sc .fuel = (errAt st.sc .fuel).sh k
    rw [hrel.sc, errAt_sh]
  | succ f ih =>
    rw [parseLoop_succ, parseLoop_succ, hrel.sc, advanceToNextExpression_shift h hl g hpos]
    exact loopBody_shift h hl hk f ih hrel.nodes _ (fun _ => (advanceToNextExpression_post h g).1.good)

/-- a result of the main loop that is not the fuel artefact -/
def NoFuelX (r : Except PErr PS) : Prop := ∀ e, r = .error e → e.kind ≠ EKind.fuel

theorem parseLoop_mono (f : Nat) (st : PS) :
    NoFuelX (parseLoop E f st) → parseLoop E (f+1) st = parseLoop E f st := by
  induction f generalizing st with
  | zero => intro hr; unfold parseLoop at hr; exact absurd rfl (hr _ rfl)
  | succ f ih =>
    unfold parseLoop
    simp only []
    repeat' split
    all_goals first | exact ih _ | exact fun _ => rfl

/-- corresponding results of `parse` -/
def PRel (k : Nat) : Except PErr (List Seg) → Except PErr (List Seg) → Prop
  | .ok segs, .ok segs' => SegsShift k segs segs'
  | .error e, .error e' => e' = e.sh k
  | _, _ => False

/-- `parse` on the shifted input: the same verdict, the nodes moved, the error `k` lines
    further down -/
theorem parse_shift (h : DecOK E) (hl : DecLocal E) (hsep : ClassSep E) (hk : 0 < k) :
    PRel k (parse E) (parse (shiftEnv k E)) := by
  obtain ⟨g0, hp0⟩ := initSc_good (E := E)
  have hinv : Inv E { sc := initSc E, prevExprEnd := 0, currentExprStart := 0, exprs := [] } :=
    ⟨g0, Nat.zero_le _, SpansChain.nil 0⟩
  have hspec := parseLoop_spec h (E.len + 2) hinv (by show E.len - (initSc E).pos < E.len + 2; omega)
  have hnf : NoFuelX (parseLoop E (E.len + 2)
      { sc := initSc E, prevExprEnd := 0, currentExprStart := 0, exprs := [] }) := by
    intro e he
    rw [he] at hspec
    exact hspec.not_fuel
  have hfuel : parseLoop E (E.len + 2 + k)
      { sc := initSc E, prevExprEnd := 0, currentExprStart := 0, exprs := [] } =
      parseLoop E (E.len + 2) { sc := initSc E, prevExprEnd := 0, currentExprStart := 0, exprs := [] } :=
    fuel_stable_err (fun f => parseLoop E f
      { sc := initSc E, prevExprEnd := 0, currentExprStart := 0, exprs := [] }) NoFuelX
      (fun f => parseLoop_mono f _) (E.len + 2) k hnf
  have hL := loopBody_shift h hl hk (E.len + k + 1)
    (fun st st' => parseLoop_shift h hl hk (E.len + k + 1) st st')
    (st := { sc := initSc E, prevExprEnd := 0, currentExprStart := 0, exprs := [] })
    (st' := { sc := initSc (shiftEnv k E), prevExprEnd := 0, currentExprStart := 0, exprs := [] })
    (Or.inl ⟨rfl, rfl, rfl, rfl⟩) (advanceToNextExpression E (initSc E))
    (fun _ => (advanceToNextExpression_post h g0).1.good)
  rw [← preamble_shift h hl hsep hk] at hL
  have e1 : loopBody E (E.len + k + 1)
      { sc := initSc E, prevExprEnd := 0, currentExprStart := 0, exprs := [] }
      (advanceToNextExpression E (initSc E)) =
      parseLoop E (E.len + 2) { sc := initSc E, prevExprEnd := 0, currentExprStart := 0, exprs := [] } := by
    rw [← hfuel, show E.len + 2 + k = (E.len + k + 1) + 1 by omega, parseLoop_succ]
  have e2 : loopBody (shiftEnv k E) (E.len + k + 1)
      { sc := initSc (shiftEnv k E), prevExprEnd := 0, currentExprStart := 0, exprs := [] }
      (advanceToNextExpression (shiftEnv k E) (initSc (shiftEnv k E))) =
      parseLoop (shiftEnv k E) ((shiftEnv k E).len + 2)
        { sc := initSc (shiftEnv k E), prevExprEnd := 0, currentExprStart := 0, exprs := [] } := by
    rw [shiftEnv_len, show E.len + k + 2 = (E.len + k + 1) + 1 by omega, parseLoop_succ]
  rw [e1, e2] at hL
  unfold parse
  rcases hq : parseLoop E (E.len + 2)
      { sc := initSc E, prevExprEnd := 0, currentExprStart := 0, exprs := [] } with e | st <;>
    rcases hq' : parseLoop (shiftEnv k E) ((shiftEnv k E).len + 2)
      { sc := initSc (shiftEnv k E), prevExprEnd := 0, currentExprStart := 0, exprs := [] } with e' | st' <;>
    rw [hq, hq'] at hL
  · exact hL
  · exact hL
  · exact hL
  · exact (add_rel hk hL.1 hL.2 none).2

end
end Sqlair
