/-
  The item parsers: parentheses, literals in lists, identifiers, column and type
  accessors, and the generic list parser.
-/
import SqlairProofs.Parser.Scan

namespace Sqlair

section
variable {E : Env}

/-! ### elimination forms of the contracts -/

theorem ROK.elim {α : Type} {s : Sc} {r : Sc × Res α} (hr : ROK E s r) {s1 : Sc} {res : Res α}
    (heq : r = (s1, res)) : Good E s1 ∧ s.pos ≤ s1.pos ∧ ∀ e, res = .err e → ErrOK E e := by
  subst heq; exact ⟨hr.good, hr.mono, hr.err⟩

theorem SOK.elim_ok {α : Type} {s : Sc} {r : Sc × Res α} (hr : SOK E s r) {s1 : Sc} {x : α}
    (heq : r = (s1, .ok x)) : Good E s1 ∧ s.pos < s1.pos := by
  subst heq; exact ⟨hr.good, hr.prog x rfl⟩

theorem ROK.elim_err {α : Type} {s : Sc} {r : Sc × Res α} (hr : ROK E s r) {s1 : Sc} {e : PErr}
    (heq : r = (s1, .err e)) : Good E s1 ∧ s.pos ≤ s1.pos ∧ ErrOK E e := by
  subst heq; exact ⟨hr.good, hr.mono, hr.err e rfl⟩

theorem ROK.elim' {α : Type} {s : Sc} {r : Sc × Res α} (hr : ROK E s r) {s1 : Sc} {res : Res α}
    (heq : r = (s1, res)) : Good E s1 ∧ s.pos ≤ s1.pos := by
  subst heq; exact ⟨hr.good, hr.mono⟩

theorem BOK.elim_true {s : Sc} {r : Sc × Bool} (hr : BOK E s r) (ht : r.2 = true) :
    Good E r.1 ∧ s.pos < r.1.pos := ⟨hr.good, hr.prog ht⟩

/-- contract of a loop with checkpoint `cp` and current state `s` -/
structure LOK {α : Type} (E : Env) (cp s : Sc) (r : Sc × Res α) : Prop extends ROK E cp r where
  okmono : ∀ x, r.2 = .ok x → s.pos ≤ r.1.pos

theorem LOK.step {α : Type} {cp s s' : Sc} {r : Sc × Res α} (hr : LOK E cp s' r) (hle : s.pos ≤ s'.pos) :
    LOK E cp s r :=
  ⟨hr.toROK, fun x hx => Nat.le_trans hle (hr.okmono x hx)⟩

theorem LOK.cp_err {α : Type} {cp s : Sc} (g : Good E cp) {e : PErr} (he : ErrOK E e) :
    LOK (α := α) E cp s (cp, .err e) :=
  ⟨ROK.refl_err g he, fun _ hx => (by cases hx)⟩

theorem LOK.cp_no {α : Type} {cp s : Sc} (g : Good E cp) : LOK (α := α) E cp s (cp, .no) :=
  ⟨ROK.refl_no g, fun _ hx => (by cases hx)⟩

theorem LOK.mk_err {α : Type} {cp s s' : Sc} (g : Good E s') (hle : cp.pos ≤ s'.pos) {e : PErr}
    (he : ErrOK E e) : LOK (α := α) E cp s (s', .err e) :=
  ⟨ROK.mk_err g hle he, fun _ hx => (by cases hx)⟩

theorem LOK.mk_no {α : Type} {cp s s' : Sc} (g : Good E s') (hle : cp.pos ≤ s'.pos) :
    LOK (α := α) E cp s (s', .no) :=
  ⟨ROK.mk_no g hle, fun _ hx => (by cases hx)⟩

theorem LOK.mk_ok {α : Type} {cp s s' : Sc} (g : Good E s') (hle : cp.pos ≤ s'.pos)
    (hle' : s.pos ≤ s'.pos) (x : α) : LOK E cp s (s', .ok x) :=
  ⟨ROK.mk_ok g hle x, fun _ _ => hle'⟩

/-- contract of a restoring parser: `ROK`, strict progress on success, the entry state on
    not-this -/
structure XOK {α : Type} (E : Env) (s : Sc) (r : Sc × Res α) : Prop extends ROK E s r where
  prog : ∀ x, r.2 = .ok x → s.pos < r.1.pos
  no : r.2 = .no → r.1 = s

theorem XOK.refl_no {α : Type} {s : Sc} (g : Good E s) : XOK (α := α) E s (s, .no) :=
  ⟨ROK.refl_no g, fun _ hx => (by cases hx), fun _ => rfl⟩

theorem XOK.refl_err {α : Type} {s : Sc} (g : Good E s) {e : PErr} (he : ErrOK E e) :
    XOK (α := α) E s (s, .err e) :=
  ⟨ROK.refl_err g he, fun _ hx => (by cases hx), fun hx => (by cases hx)⟩

theorem XOK.mk_err {α : Type} {s s' : Sc} (g : Good E s') (hle : s.pos ≤ s'.pos) {e : PErr}
    (he : ErrOK E e) : XOK (α := α) E s (s', .err e) :=
  ⟨ROK.mk_err g hle he, fun _ hx => (by cases hx), fun hx => (by cases hx)⟩

theorem XOK.mk_ok {α : Type} {s s' : Sc} (g : Good E s') (hlt : s.pos < s'.pos) (x : α) :
    XOK E s (s', .ok x) :=
  ⟨ROK.mk_ok g (Nat.le_of_lt hlt) x, fun _ _ => hlt, fun hx => (by cases hx)⟩

theorem XOK.elim_ok {α : Type} {s : Sc} {r : Sc × Res α} (hr : XOK E s r) {s1 : Sc} {x : α}
    (heq : r = (s1, .ok x)) : Good E s1 ∧ s.pos < s1.pos := by
  subst heq; exact ⟨hr.good, hr.prog x rfl⟩

theorem XOK.elim_no {α : Type} {s : Sc} {r : Sc × Res α} (hr : XOK E s r) {s1 : Sc}
    (heq : r = (s1, .no)) : s1 = s := by
  subst heq; exact hr.no rfl

/-! ### skipEnclosedParentheses -/

theorem parenLoop_lok (h : DecOK E) {cp : Sc} (gcp : Good E cp) (f count : Nat) {s : Sc} (g : Good E s)
    (hle : cp.pos ≤ s.pos) (hf : E.len - s.pos < f) : LOK E cp s (parenLoop E cp f count s) := by
  induction f generalizing s count with
  | zero => omega
  | succ f ih =>
    unfold parenLoop
    have hpl := g.pos_le
    split
    · next hc =>
      have hp : s.pos < E.len := by omega
      have hsl := skipStringLiteral_sok h g
      split
      · next heq => exact LOK.cp_err gcp (hsl.elim_err heq).2.2
      · next heq =>
        obtain ⟨g1, hlt⟩ := hsl.elim_ok heq
        exact (ih count g1 (by omega) (by omega)).step (by omega)
      · extract_lets r1 r2 r3
        have hb1 : BOK E s r1 := skipComment_bok h g
        split
        · next ht =>
          obtain ⟨g1, hlt⟩ := hb1.elim_true ht
          exact (ih count g1 (by omega) (by omega)).step (by omega)
        have hb2 : BOK E s r2 := skipChar_bok h 40 g
        split
        · next ht =>
          obtain ⟨g1, hlt⟩ := hb2.elim_true ht
          exact (ih _ g1 (by omega) (by omega)).step (by omega)
        have hb3 : BOK E s r3 := skipChar_bok h 41 g
        split
        · next ht =>
          obtain ⟨g1, hlt⟩ := hb3.elim_true ht
          exact (ih _ g1 (by omega) (by omega)).step (by omega)
        have hlt := advanceChar_lt h g hp
        exact (ih _ (advanceChar_good h g) (by omega) (by omega)).step (by omega)
    · split
      · exact LOK.cp_err gcp (errAt_ok gcp (by simp))
      · exact LOK.mk_ok g hle (Nat.le_refl _) ()

theorem skipEnclosedParentheses_sok (h : DecOK E) {s : Sc} (g : Good E s) :
    SOK E s (skipEnclosedParentheses E s) := by
  unfold skipEnclosedParentheses
  extract_lets r
  have hb : BOK E s r := skipChar_bok h 40 g
  split
  · next ht =>
    obtain ⟨g1, hlt⟩ := hb.elim_true ht
    have := g1.pos_le
    have hl := parenLoop_lok h g (E.len + 1) 1 g1 (by omega) (by omega)
    exact ⟨hl.toROK, fun x hx => by have := hl.okmono x hx; omega⟩
  · exact SOK.refl_no g

/-! ### skipLiteralInList -/

theorem litLoop_rok (h : DecOK E) (f : Nat) {s : Sc} (g : Good E s) (hf : E.len - s.pos < f) :
    ROK E s (litLoop E f s) := by
  induction f generalizing s with
  | zero => omega
  | succ f ih =>
    unfold litLoop
    have hpl := g.pos_le
    have step : ∀ {s1 : Sc}, Good E s1 → s.pos < s1.pos → ROK E s (litLoop E f s1) := by
      intro s1 g1 hlt
      have := g1.pos_le
      have hr := ih g1 (by omega)
      exact ⟨hr.good, by have := hr.mono; omega, hr.err⟩
    split
    · next hp =>
      have hsl := skipStringLiteral_sok h g
      split
      · next heq =>
        obtain ⟨g1, hle, he⟩ := hsl.elim_err heq
        exact ROK.mk_err g1 hle he
      · next heq =>
        obtain ⟨g1, hlt⟩ := hsl.elim_ok heq
        exact step g1 hlt
      · have hpar := skipEnclosedParentheses_sok h g
        split
        · next heq =>
          obtain ⟨g1, hle, he⟩ := hpar.elim_err heq
          exact ROK.mk_err g1 hle he
        · next heq =>
          obtain ⟨g1, hlt⟩ := hpar.elim_ok heq
          exact step g1 hlt
        · extract_lets r1
          have hb1 : BOK E s r1 := skipComment_bok h g
          split
          · next ht =>
            obtain ⟨g1, hlt⟩ := hb1.elim_true ht
            exact step g1 hlt
          split
          · exact ROK.mk_ok g (Nat.le_refl _) ()
          · exact step (advanceChar_good h g) (advanceChar_lt h g hp)
    · exact ROK.refl_no g

theorem skipLiteralInList_rok (h : DecOK E) {s : Sc} (g : Good E s) :
    ROK E s (skipLiteralInList E s) :=
  litLoop_rok h (E.len + 1) g (by omega)

/-! ### identifiers -/

theorem parseIdentifier_rok (h : DecOK E) {s : Sc} (g : Good E s) : ROK E s (parseIdentifier E s) := by
  unfold parseIdentifier
  have hsl := skipStringLiteral_sok h g
  split
  · next heq =>
    obtain ⟨g1, hle, he⟩ := hsl.elim_err heq
    exact ROK.mk_err g1 hle he
  · next heq =>
    obtain ⟨g1, hlt⟩ := hsl.elim_ok heq
    exact ROK.mk_ok g1 (by omega) _
  · extract_lets s2
    have hp2 : Post E s s2 := by
      unfold s2
      obtain ⟨s', hs', hp', _⟩ := nameLoop_spec h (E.len + 1) g (by omega)
      rw [hs']; exact hp'
    split
    · exact ROK.mk_ok hp2.good hp2.mono _
    · exact ROK.mk_no hp2.good hp2.mono

theorem parseIdentifierAsterisk_rok (h : DecOK E) {s : Sc} (g : Good E s) :
    ROK E s (parseIdentifierAsterisk E s) := by
  unfold parseIdentifierAsterisk
  extract_lets r
  have hb : BOK E s r := skipChar_bok h 42 g
  split
  · exact ROK.mk_ok hb.good hb.mono _
  · exact parseIdentifier_rok h g

theorem parseColumnAccessor_rok (h : DecOK E) {s : Sc} (g : Good E s) :
    ROK E s (parseColumnAccessor E s) := by
  unfold parseColumnAccessor
  extract_lets r
  have hb : BOK E s r := skipChar_bok h 42 g
  split
  · exact ROK.mk_ok hb.good hb.mono _
  have hid := parseIdentifier_rok h g
  split
  · next heq => exact ROK.refl_err g (hid.elim_err heq).2.2
  · exact ROK.refl_no g
  · next s1 id heq =>
    obtain ⟨g1, hle1⟩ := hid.elim' heq
    extract_lets r1
    have hb1 : BOK E s1 r1 := skipChar_bok h 46 g1
    split
    · have hia := parseIdentifierAsterisk_rok h hb1.good
      have hm := hb1.mono
      split
      · next heq2 =>
        obtain ⟨g2, hle2, he⟩ := hia.elim_err heq2
        exact ROK.mk_err g2 (by omega) he
      · next heq2 =>
        obtain ⟨g2, hle2⟩ := hia.elim' heq2
        exact ROK.mk_ok g2 (by omega) _
      · exact ROK.refl_no g
    · have hpar := skipEnclosedParentheses_sok h g1
      split
      · next heq2 => exact ROK.refl_err g (hpar.elim_err heq2).2.2
      · next heq2 =>
        obtain ⟨g2, hle2⟩ := hpar.elim' heq2
        exact ROK.mk_ok g2 (by omega) _
      · exact ROK.mk_ok g1 hle1 _

/-! ### type accessors -/

theorem parseSliceAccessor_rok (h : DecOK E) {s : Sc} (g : Good E s) :
    ROK E s (parseSliceAccessor E s) ∧
      ((parseSliceAccessor E s).2 = .no → (parseSliceAccessor E s).1.pos = s.pos) := by
  unfold parseSliceAccessor
  obtain ⟨hp1, _, hnone⟩ := parseTypeName_post h g
  split
  · next s1 heq =>
    rw [heq] at hp1 hnone
    exact ⟨ROK.mk_no hp1.good hp1.mono, fun _ => hnone rfl⟩
  · next s1 id heq =>
    rw [heq] at hp1
    have g1 : Good E s1 := hp1.good
    have hle1 : s.pos ≤ s1.pos := hp1.mono
    extract_lets r1 s2 r2 s3 r3
    have hb1 : BOK E s1 r1 := skipChar_bok h 91 g1
    have hp2 : Post E r1.1 s2 := skipBlanks_post h hb1.good
    have hb2 : BOK E s2 r2 := skipChar_bok h 58 hp2.good
    have hp3 : Post E r2.1 s3 := skipBlanks_post h hb2.good
    have hb3 : BOK E s3 r3 := skipChar_bok h 93 hp3.good
    have := hb1.mono; have := hp2.mono; have := hb2.mono; have := hp3.mono; have := hb3.mono
    split
    · exact ⟨ROK.refl_no g, fun _ => rfl⟩
    split
    · exact ⟨ROK.mk_err hb2.good (by omega) (errAt_ok g (by simp)), fun hn => by cases hn⟩
    split
    · exact ⟨ROK.mk_err hb3.good (by omega) (errAt_ok g (by simp)), fun hn => by cases hn⟩
    · exact ⟨ROK.mk_ok hb3.good (by omega) _, fun hn => by cases hn⟩

/-- the position just before a state that is not at the start of its line -/
theorem Good.prev_col {s : Sc} (g : Good E s) (hls : s.lineStart < s.pos) :
    (s.lineNum, colNum s - 1) = lineColOf E.inp (s.pos - 1) := by
  have hpl := g.pos_le
  have hpl' : s.pos ≤ E.inp.size := hpl
  obtain ⟨q, hq⟩ : ∃ q, s.pos = q + 1 := ⟨s.pos - 1, by omega⟩
  have hls' := g.lineStart_eq
  have hln := g.lineNum_eq
  rw [hq] at hls' hln
  have hb : bAt E.inp q ≠ 10 := by
    intro hb
    rw [lastNl_succ_nl _ _ hb] at hls'
    omega
  rw [lastNl_succ_not_nl _ _ hb] at hls'
  rw [nlCount_succ _ _ (by omega), if_neg hb] at hln
  have hmin : min q E.inp.size = q := Nat.min_eq_left (by omega)
  rw [lineColOf_eq, hq, Nat.add_sub_cancel, hmin, ← hls', hln]
  unfold colNum
  have := lastNl_le E.inp q
  congr 1
  omega

theorem parseTypeAndMember_rok (h : DecOK E) {s : Sc} (g : Good E s) (hls : s.lineStart < s.pos) :
    ROK E s (parseTypeAndMember E s) := by
  unfold parseTypeAndMember
  extract_lets identifierCol
  obtain ⟨hp1, hline, _⟩ := parseTypeName_post h g
  split
  · next s1 id heq =>
    rw [heq] at hp1 hline
    have g1 : Good E s1 := hp1.good
    have hle1 : s.pos ≤ s1.pos := hp1.mono
    extract_lets r
    have hb : BOK E s1 r := skipChar_bok h 46 g1
    have := hb.mono
    split
    · next hf =>
      refine ROK.mk_err hb.good (by omega) ⟨by simp, fun hc' => ?_⟩
      have hc : ClassOK E := by
        rcases hc' with hc | hk
        · exact hc
        · exact (hk id rfl).elim
      refine ⟨s.pos - 1, by have := g.pos_le; omega, ?_⟩
      have hrs : r.1 = s1 := hb.rest (by simpa using hf)
      rw [hrs]
      show (s1.lineNum, colNum s - 1) = _
      rw [hline hc]
      exact g.prev_col hls
    · have hia := parseIdentifierAsterisk_rok h hb.good
      split
      · next heq2 =>
        obtain ⟨g2, hle2, he⟩ := hia.elim_err heq2
        exact ROK.mk_err g2 (by omega) he
      · next heq2 =>
        obtain ⟨g2, hle2⟩ := hia.elim' heq2
        exact ROK.mk_err g2 (by omega) (errAt_ok g2 (by simp))
      · next heq2 =>
        obtain ⟨g2, hle2⟩ := hia.elim' heq2
        exact ROK.mk_ok g2 (by omega) _
  · exact ROK.refl_no g

theorem parseTargetType_xok (h : DecOK E) {s : Sc} (g : Good E s) : XOK E s (parseTargetType E s) := by
  unfold parseTargetType
  extract_lets r
  have hb : BOK E s r := skipChar_bok h 38 g
  split
  · next ht =>
    have hsame := skipChar_sameLine (c := 38) (by decide) h g ht
    obtain ⟨hsl, hno⟩ := parseSliceAccessor_rok h hb.good
    have hm := hb.prog ht
    split
    · next heq =>
      obtain ⟨g1, hle1⟩ := hsl.elim' heq
      exact XOK.mk_err g1 (by omega) (errAt_ok g (by simp))
    · next heq =>
      obtain ⟨g1, hle1⟩ := hsl.elim' heq
      exact XOK.mk_err g1 (by omega) (errAt_ok g (by simp))
    · next s1 heq =>
      obtain ⟨g1, hle1⟩ := hsl.elim' heq
      rw [heq] at hno
      have hpos : s1.pos = r.1.pos := hno rfl
      have hls : s1.lineStart < s1.pos := by
        rw [(hb.good.same_pos g1 hpos).2, hpos]; exact hsame.2
      have htm := parseTypeAndMember_rok h g1 hls
      split
      · exact XOK.refl_no g
      · next hnn =>
        refine ⟨⟨htm.good, by have := htm.mono; omega, htm.err⟩,
          fun _ _ => by have := htm.mono; omega, fun hn => ?_⟩
        exact (hnn (parseTypeAndMember E s1).1 (Prod.ext rfl hn)).elim
  · exact XOK.refl_no g

theorem parseTargetType_rok (h : DecOK E) {s : Sc} (g : Good E s) : ROK E s (parseTargetType E s) :=
  (parseTargetType_xok h g).toROK

theorem parseInputMemberAccessor_sok (h : DecOK E) {s : Sc} (g : Good E s) :
    SOK E s (parseInputMemberAccessor E s) := by
  unfold parseInputMemberAccessor
  extract_lets r
  have hb : BOK E s r := skipChar_bok h 36 g
  split
  · next ht =>
    have hsame := skipChar_sameLine (c := 36) (by decide) h g ht
    have htm := parseTypeAndMember_rok h hb.good hsame.2
    have := hb.prog ht
    exact ⟨⟨htm.good, by have := htm.mono; omega, htm.err⟩, fun _ _ => by have := htm.mono; omega⟩
  · exact SOK.refl_no g

theorem parseInputMemberAccessor_rok (h : DecOK E) {s : Sc} (g : Good E s) :
    ROK E s (parseInputMemberAccessor E s) :=
  (parseInputMemberAccessor_sok h g).toROK

/-! ### lists -/

theorem listLoop_lok (h : DecOK E) {α : Type} {fn : Sc → Sc × Res α}
    (hfn : ∀ s, Good E s → ROK E s (fn s)) {cp : Sc} (gcp : Good E cp)
    (f : Nat) (first : Bool) (acc : List α) {s : Sc} (g : Good E s)
    (hle : cp.pos ≤ s.pos) (hf : E.len - s.pos < f) :
    LOK E cp s (listLoop E fn cp f first acc s) := by
  induction f generalizing s first acc with
  | zero => omega
  | succ f ih =>
    unfold listLoop
    extract_lets s1
    have hp1 : Post E s s1 := skipBlanks_post h g
    have hr := hfn s1 hp1.good
    have := hp1.mono
    split
    · next s2 x heq =>
      obtain ⟨g2, hle2⟩ := hr.elim' heq
      extract_lets s3 r1 r2
      have hp3 : Post E s2 s3 := skipBlanks_post h g2
      have hb1 : BOK E s3 r1 := skipChar_bok h 41 hp3.good
      have hb2 : BOK E s3 r2 := skipChar_bok h 44 hp3.good
      have := hp3.mono; have := hb1.mono
      split
      · exact LOK.mk_ok hb1.good (by omega) (by omega) _
      split
      · next ht =>
        obtain ⟨g4, hlt⟩ := hb2.elim_true ht
        have := g4.pos_le
        exact (ih false _ g4 (by omega) (by omega)).step (by omega)
      · exact LOK.cp_err gcp (errAt_ok gcp (by simp))
    · next s2 e heq =>
      obtain ⟨g2, hle2, he⟩ := hr.elim_err heq
      exact LOK.mk_err g2 (by omega) he
    · next s2 heq =>
      obtain ⟨g2, hle2⟩ := hr.elim' heq
      split
      · exact LOK.cp_no gcp
      · exact LOK.cp_err gcp (errAt_ok g2 (by simp))

theorem parseList_rok (h : DecOK E) {α : Type} {fn : Sc → Sc × Res α}
    (hfn : ∀ s, Good E s → ROK E s (fn s)) {s : Sc} (g : Good E s) :
    ROK E s (parseList E fn s) := by
  unfold parseList
  extract_lets r
  have hb : BOK E s r := skipChar_bok h 40 g
  split
  · exact (listLoop_lok h hfn g (E.len + 1) true [] hb.good hb.mono (by omega)).toROK
  · exact ROK.refl_no g

theorem parseColumns_post (h : DecOK E) {s : Sc} (g : Good E s) : Post E s (parseColumns E s).1 := by
  unfold parseColumns
  have hc := parseColumnAccessor_rok h g
  split
  · next heq => obtain ⟨g1, hle1⟩ := hc.elim' heq; exact ⟨g1, hle1⟩
  · next s1 res _ heq =>
    obtain ⟨g1, hle1⟩ := hc.elim' heq
    have hl := parseList_rok h (fun s g => parseColumnAccessor_rok h g) g1
    split
    · next heq2 => obtain ⟨g2, hle2⟩ := hl.elim' heq2; exact ⟨g2, by simp only []; omega⟩
    · next heq2 => obtain ⟨g2, hle2⟩ := hl.elim' heq2; exact ⟨g2, by simp only []; omega⟩

theorem parseTargetTypes_rok (h : DecOK E) {s : Sc} (g : Good E s) :
    ROK E s (parseTargetTypes E s) := by
  unfold parseTargetTypes
  have ht := parseTargetType_rok h g
  split
  · next heq => obtain ⟨g1, hle1, he⟩ := ht.elim_err heq; exact ROK.mk_err g1 hle1 he
  · next heq => obtain ⟨g1, hle1⟩ := ht.elim' heq; exact ROK.mk_ok g1 hle1 _
  · next heq =>
    obtain ⟨g1, hle1⟩ := ht.elim' heq
    have hl := parseList_rok h (fun s g => parseTargetType_rok h g) g1
    split
    · next heq2 => obtain ⟨g2, hle2, he⟩ := hl.elim_err heq2; exact ROK.mk_err g2 (by omega) he
    · next heq2 => obtain ⟨g2, hle2⟩ := hl.elim' heq2; exact ROK.mk_ok g2 (by omega) _
    · next heq2 => obtain ⟨g2, hle2⟩ := hl.elim' heq2; exact ROK.mk_no g2 (by omega)

end
end Sqlair
