/-
  Runtime proofs: closed form of `Query.Iter` (`iterOpen`).
-/
import SqlairProofs.Runtime.Basic

namespace Sqlair.Rt

/-- the error `Query.Iter` ends with, if any -/
def Script.openErr (s : Script) : Option Err :=
  if s.onTx && s.txDone && s.cached then some .txDone else
  if s.ctxDone then some .ctx else
  if s.onTx && s.txDone then some .txDone else
  match (if !s.cached then s.prepareErr else none) with
  | some e => some e
  | none => s.runErr

/-- the statement is run without any error -/
def Script.runsOK (s : Script) : Bool := s.openErr.isNone

/-- the rows `Query.Iter` opens, if any -/
def Script.openRows (s : Script) : Option Rows :=
  if s.hasOutputs && s.runsOK then
    some { fetch := s.fetch, closeErr := s.closeErr, closeStmt := s.onTx && !s.cached, holdsConn := !s.onTx }
  else none

/-- a result set is opened -/
def Script.opensRows (s : Script) : Bool := s.hasOutputs && s.runsOK

/-- the driver events of `Query.Iter` -/
def Script.openEvents (s : Script) : List Ev :=
  if s.onTx && s.txDone && s.cached then [] else
  if s.ctxDone then [] else
  if s.onTx && s.txDone then [] else
  (if !s.cached then [.prepare] else []) ++
  match (if !s.cached then s.prepareErr else none) with
  | some _ => []
  | none =>
    if s.hasOutputs then
      .query :: (if s.runErr.isSome && s.onTx && !s.cached then [.stmtClose] else [])
    else
      .exec :: (if s.onTx && !s.cached then [.stmtClose] else [])

theorem iterOpen_eq (s : Script) (w : World) :
    iterOpen s w =
      ({ hasOutputs := s.hasOutputs, rows := s.openRows, err := s.openErr, started := false,
         result := if !s.hasOutputs && s.runsOK then some s.result else none },
       { log := w.log ++ s.openEvents,
         inUse := w.inUse + (if s.opensRows && !s.onTx then 1 else 0) }) := by
  obtain ⟨ho, ca, tx, td, cd, pe, re, fe, ce, res⟩ := s
  obtain ⟨lg, iu⟩ := w
  cases ho <;> cases ca <;> cases tx <;> cases td <;> cases cd <;> cases pe <;> cases re <;>
    simp [iterOpen, Script.openRows, Script.openErr, Script.runsOK, Script.openEvents,
      Script.opensRows, World.emit]

theorem iterOpen_err (s : Script) (w : World) : (iterOpen s w).1.err = s.openErr := by
  rw [iterOpen_eq]

theorem iterOpen_rows (s : Script) (w : World) : (iterOpen s w).1.rows = s.openRows := by
  rw [iterOpen_eq]

theorem iterOpen_started (s : Script) (w : World) : (iterOpen s w).1.started = false := by
  rw [iterOpen_eq]

theorem iterOpen_hasOutputs (s : Script) (w : World) : (iterOpen s w).1.hasOutputs = s.hasOutputs := by
  rw [iterOpen_eq]

theorem Script.openRows_isSome (s : Script) : s.openRows.isSome = s.opensRows := by
  unfold Script.openRows Script.opensRows; split <;> simp_all

theorem Script.openRows_of_opensRows {s : Script} (h : s.opensRows = true) :
    s.openRows = some { fetch := s.fetch, closeErr := s.closeErr, closeStmt := s.onTx && !s.cached, holdsConn := !s.onTx } := by
  unfold Script.opensRows at h
  simp [Script.openRows, h]

theorem Script.openRows_of_not_opensRows {s : Script} (h : s.opensRows = false) : s.openRows = none := by
  unfold Script.opensRows at h
  simp [Script.openRows, h]

theorem Script.runsOK_iff (s : Script) :
    s.runsOK = true ↔ s.ctxDone = false ∧ ¬ (s.onTx = true ∧ s.txDone = true) ∧
      (s.cached = true ∨ s.prepareErr = none) ∧ s.runErr = none := by
  obtain ⟨ho, ca, tx, td, cd, pe, re, fe, ce, res⟩ := s
  cases ca <;> cases tx <;> cases td <;> cases cd <;> cases pe <;> cases re <;>
    simp [Script.runsOK, Script.openErr]

/-- a result set is opened iff the driver's Query was called and succeeded -/
theorem Script.opensRows_iff_query (s : Script) :
    s.opensRows = true ↔ Ev.query ∈ s.openEvents ∧ s.runErr = none := by
  obtain ⟨ho, ca, tx, td, cd, pe, re, fe, ce, res⟩ := s
  cases ho <;> cases ca <;> cases tx <;> cases td <;> cases cd <;> cases pe <;> cases re <;>
    simp [Script.opensRows, Script.runsOK, Script.openErr, Script.openEvents]

/-- a done context (or a finished transaction) runs nothing -/
theorem Script.openEvents_of_ctxDone {s : Script} (h : s.ctxDone = true) : s.openEvents = [] := by
  unfold Script.openEvents; simp [h]

theorem Script.openEvents_of_txDone {s : Script} (h1 : s.onTx = true) (h2 : s.txDone = true) :
    s.openEvents = [] := by
  unfold Script.openEvents; simp [h1, h2]

theorem Script.openErr_of_ctxDone {s : Script} (h : s.ctxDone = true) :
    s.openErr = some (if s.onTx && s.txDone && s.cached then .txDone else .ctx) := by
  unfold Script.openErr; split <;> simp_all

theorem Script.openErr_of_txDone {s : Script} (h1 : s.onTx = true) (h2 : s.txDone = true) :
    s.openErr = some (if !s.cached && s.ctxDone then .ctx else .txDone) := by
  unfold Script.openErr; cases s.cached <;> cases s.ctxDone <;> simp_all

theorem Script.not_opensRows_of_openErr {s : Script} {e : Err} (h : s.openErr = some e) :
    s.opensRows = false := by
  simp [Script.opensRows, Script.runsOK, h]

/-- when the statement does not run at all the world is untouched -/
theorem iterOpen_world_of_no_events {s : Script} (h : s.openEvents = []) {e : Err} (he : s.openErr = some e)
    (w : World) : (iterOpen s w).2 = w := by
  rw [iterOpen_eq]
  simp [h, Script.not_opensRows_of_openErr he]

end Sqlair.Rt
