/-
  Main lemmas about a successful `scanGet`: what it unfolds to, which locations the writes go
  to, untouched locations, last write wins.
-/
import SqlairProofs.Scan.Row

namespace Sqlair

/-! ### definitions used in the statements -/

/-- two outputs designate the same member (same type and same field path / same map key) -/
def Loc.sameMember : Loc → Loc → Bool
  | .field t _ f, .field t' _ f' => t == t' && f.index == f'.index
  | .mapKey t _ k, .mapKey t' _ k' => t == t' && k == k'
  | _, _ => false

theorem Loc.sameMember_symm (a b : Loc) : a.sameMember b = b.sameMember a := by
  cases a <;> cases b <;> simp only [Loc.sameMember]
  · rw [Bool.beq_comm (a := _) (b := _), Bool.beq_comm (a := SField.index _)]
  · rw [Bool.beq_comm (a := _) (b := _)]
    congr 1
    exact Bool.beq_comm

theorem Loc.sameMember_of {l l' : Loc} {s : Slot} (ht : l.tid = l'.tid) (hs : l.slot? = some s)
    (hs' : l'.slot? = some s) : l.sameMember l' = true := by
  cases l <;> cases l' <;> simp only [Loc.slot?, Option.some.injEq, reduceCtorEq] at hs hs'
  · subst hs; simp only [Slot.field.injEq] at hs'
    simp only [Loc.tid] at ht
    simp [Loc.sameMember, ht, hs']
  · subst hs; cases hs'
  · subst hs; cases hs'
  · subst hs; simp only [Slot.key.injEq] at hs'
    simp only [Loc.tid] at ht
    simp [Loc.sameMember, ht, hs']

theorem pairwise_sameMember_inj {outputs : List Loc} (h : outputs.Pairwise (fun a b => a.sameMember b = false))
    {k k' : Nat} {l l' : Loc} (hk : outputs[k]? = some l) (hk' : outputs[k']? = some l')
    (hs : l.sameMember l' = true) : k = k' := by
  rw [List.pairwise_iff_getElem] at h
  obtain ⟨h1, e1⟩ := List.getElem?_eq_some_iff.mp hk
  obtain ⟨h2, e2⟩ := List.getElem?_eq_some_iff.mp hk'
  rcases Nat.lt_trichotomy k k' with hlt | heq | hgt
  · have := h k k' h1 h2 hlt
    rw [e1, e2, hs] at this; cases this
  · exact heq
  · have := h k' k h2 h1 hgt
    rw [e1, e2, Loc.sameMember_symm, hs] at this; cases this

/-- the text that ends up in the member designated by output `l` when the driver value of its
    column is `v` (`none` = the conversion fails) -/
def expectedText (E : ScanEnv) (tt : TypeTable) (l : Loc) (v : DV) : Option String :=
  match l with
  | .field tid _ f =>
    let fty := fieldTypeOf tt tid f.index true
    match fieldCat tt fty with
    | .proxy => match v with
      | none => some (E.zeroText fty)          -- NULL: zero value
      | some x => E.conv (some x) fty
    | .directPtr elem => match v with
      | none => some E.nilText                  -- NULL: nil pointer
      | some x => E.conv (some x) elem
    | .directScanner => E.conv v fty            -- the Scanner sees the raw value, NULL included
  | .mapKey tid _ _ => E.conv v (tt.get tid).elem
  | .slice .. => none

theorem text_target (E : ScanEnv) (tt : TypeTable) (l : Loc) (di : Nat) (v : DV) {s : Slot} (hs : l.slot? = some s) :
    (l.target tt di).text E v = expectedText E tt l v := by
  cases l with
  | slice => cases hs
  | mapKey tid n k => rfl
  | field tid n f =>
    simp only [Loc.target, expectedText]
    cases fieldCat tt (fieldTypeOf tt tid f.index true) with
    | proxy => cases v <;> rfl
    | directPtr e => cases v <;> rfl
    | directScanner => rfl

/-! ### unfolding a successful scanGet -/

/-- (target, value) pairs of a row -/
def tvs (tt : TypeTable) (outputs : List Loc) (dests : List Dest) (m : List (Nat × Nat))
    (cv : List (Bytes × DV)) : List (Target × DV) := cv.map (Prod.map (tgt tt outputs dests m) id)

/-- all writes of a scan in the order they are performed: the direct ones, then the proxies -/
def writesOf (E : ScanEnv) (l : List (Target × DV)) : List Pending :=
  l.filterMap (dwrite E) ++ l.filterMap (pwrite E)

theorem scanGet_ok_unfold (E : ScanEnv) (tt : TypeTable) (outputs : List Loc) (cols : List Bytes) (row : List DV)
    (dests dests' : List Dest) :
    scanGet E tt outputs cols row dests = (dests', none) ↔
      ∃ m, validateOutputs dests [] 0 = .ok m ∧ outputs.length ≤ cols.length ∧
        (∀ c ∈ cols, ∃ t, colTarget tt outputs dests m c = .ok t) ∧
        (∀ k, k < outputs.length → ∃ c ∈ cols, markerIndex c = some k) ∧
        (∀ p ∈ m, ∃ c ∈ cols, ∃ l, colOutput outputs c = some l ∧ l.tid = p.1) ∧
        cols.length ≤ row.length ∧
        (∀ tv ∈ tvs tt outputs dests m (cols.zip row), (tv.1.text E tv.2).isSome = true) ∧
        dests' = applyWrites dests (writesOf E (tvs tt outputs dests m (cols.zip row))) := by
  rw [scanGet_ok_iff]
  constructor
  · rintro ⟨ts, hsa, hlen, htx, hfin⟩
    obtain ⟨m, h1, h2, h3, h4, h5, h6⟩ := (scanArgs_ok_iff ..).mp hsa
    subst h6
    rw [List.zip_map_left] at htx hfin
    exact ⟨m, h1, h2, h3, h4, h5, by simpa using hlen, htx, hfin⟩
  · rintro ⟨m, h1, h2, h3, h4, h5, hlen, htx, hfin⟩
    refine ⟨cols.map (tgt tt outputs dests m), (scanArgs_ok_iff ..).mpr ⟨m, h1, h2, h3, h4, h5, rfl⟩,
      by simpa using hlen, ?_, ?_⟩
    · rw [List.zip_map_left]; exact htx
    · rw [List.zip_map_left]; exact hfin

/-! ### where the writes go -/

/-- a column whose target is a member `loc` is the alias of an output designating `loc` -/
theorem tgt_loc_spec {tt : TypeTable} {outputs : List Loc} {dests : List Dest} {m : List (Nat × Nat)}
    (hm : ValidMap dests m) {c : Bytes} {loc : Nat × Slot} (h : (tgt tt outputs dests m c).loc = some loc) :
    ∃ k l d, markerIndex c = some k ∧ outputs[k]? = some l ∧ dests[loc.1]? = some d ∧ d.tid = l.tid ∧
      l.slot? = some loc.2 ∧ tgt tt outputs dests m c = l.target tt loc.1 ∧ Writable dests loc := by
  unfold tgt at h ⊢
  cases hct : colTarget tt outputs dests m c with
  | error e => rw [hct] at h; cases h
  | ok t =>
    rw [hct] at h
    simp only at h ⊢
    unfold colTarget at hct
    cases hmi : markerIndex c with
    | none =>
      rw [hmi] at hct
      simp only [Except.ok.injEq] at hct
      subst hct; cases h
    | some k =>
      rw [hmi] at hct
      simp only at hct
      cases hout : outputs[k]? with
      | none => rw [hout] at hct; cases hct
      | some l =>
        rw [hout] at hct
        simp only at hct
        obtain ⟨di, d, s, hd, ht, hs, htl, hw⟩ := locateTarget_ok hm hct
        have hloc : loc = (di, s) := by
          rw [htl, Loc.target_loc, hs] at h
          simpa using h.symm
        subst hloc
        exact ⟨k, l, d, rfl, hout, hd, ht, hs, htl, hw⟩

theorem mem_writesOf {E : ScanEnv} {l : List (Target × DV)} {w : Pending} (h : w ∈ writesOf E l) :
    ∃ tv ∈ l, awrite E tv = some w := by
  unfold writesOf at h
  rcases List.mem_append.mp h with h | h
  · obtain ⟨tv, htv, hd⟩ := List.mem_filterMap.mp h
    exact ⟨tv, htv, (dwrite_some hd).2⟩
  · obtain ⟨tv, htv, hd⟩ := List.mem_filterMap.mp h
    exact ⟨tv, htv, (pwrite_some hd).2⟩

theorem mem_tvs {tt : TypeTable} {outputs : List Loc} {dests : List Dest} {m : List (Nat × Nat)}
    {cv : List (Bytes × DV)} {tv : Target × DV} (h : tv ∈ tvs tt outputs dests m cv) :
    ∃ c, (c, tv.2) ∈ cv ∧ tv.1 = tgt tt outputs dests m c := by
  unfold tvs at h
  obtain ⟨⟨c, v⟩, hcv, rfl⟩ := List.mem_map.mp h
  exact ⟨c, hcv, rfl⟩

/-- every write of a scan goes to the member designated by an output whose alias is a column -/
theorem write_loc_spec {E : ScanEnv} {tt : TypeTable} {outputs : List Loc} {dests : List Dest}
    {m : List (Nat × Nat)} (hm : ValidMap dests m) {cv : List (Bytes × DV)} {w : Pending}
    (h : w ∈ writesOf E (tvs tt outputs dests m cv)) :
    ∃ c v k l d, (c, v) ∈ cv ∧ markerIndex c = some k ∧ outputs[k]? = some l ∧ dests[w.loc.1]? = some d ∧
      d.tid = l.tid ∧ l.slot? = some w.loc.2 := by
  obtain ⟨tv, htv, haw⟩ := mem_writesOf h
  obtain ⟨c, hc, hct⟩ := mem_tvs htv
  have hloc := (awrite_loc haw).1
  rw [hct] at hloc
  obtain ⟨k, l, d, h1, h2, h3, h4, h5, _, _⟩ := tgt_loc_spec hm hloc
  exact ⟨c, tv.2, k, l, d, hc, h1, h2, h3, h4, h5⟩

/-! ### untouched locations -/

theorem untouched_valAt {E : ScanEnv} {tt : TypeTable} {outputs : List Loc} {cols : List Bytes} {row : List DV}
    {dests dests' : List Dest} (hget : scanGet E tt outputs cols row dests = (dests', none))
    (loc : Nat × Slot)
    (hno : ∀ c ∈ cols, ∀ k l d, markerIndex c = some k → outputs[k]? = some l → dests[loc.1]? = some d →
      d.tid = l.tid → l.slot? ≠ some loc.2) :
    valAt dests' loc = valAt dests loc := by
  obtain ⟨m, hv, _, _, _, _, _, _, hfin⟩ := (scanGet_ok_unfold ..).mp hget
  subst hfin
  apply valAt_applyWrites_of_not_mem
  intro w hw e
  obtain ⟨c, v, k, l, d, hc, h1, h2, h3, h4, h5⟩ := write_loc_spec (validMap_of_ok hv) hw
  rw [e] at h3 h5
  exact hno c (List.of_mem_zip hc).1 k l d h1 h2 h3 h4 h5

/-! ### the last write to a location wins -/

theorem valAt_writesOf_last (E : ScanEnv) (ds : List Dest) (l1 l2 : List (Target × DV)) (t : Target) (v : DV)
    (w : Pending) (haw : awrite E (t, v) = some w) (hW : Writable ds w.loc)
    (h2 : ∀ tv ∈ l2, tv.1.loc ≠ some w.loc)
    (hsame : ∀ tv ∈ l1 ++ l2, tv.1.loc = some w.loc → tv.1.isDirect = t.isDirect) :
    valAt (applyWrites ds (writesOf E (l1 ++ (t, v) :: l2))) w.loc = some (some w.val) := by
  unfold writesOf
  simp only [List.filterMap_append, List.filterMap_cons]
  have hd2 : ∀ w' ∈ l2.filterMap (dwrite E), w'.loc ≠ w.loc := by
    intro w' hw' e
    obtain ⟨tv, htv, hd⟩ := List.mem_filterMap.mp hw'
    have := (awrite_loc (dwrite_some hd).2).1
    exact h2 tv htv (by rw [this, e])
  have hp2 : ∀ w' ∈ l2.filterMap (pwrite E), w'.loc ≠ w.loc := by
    intro w' hw' e
    obtain ⟨tv, htv, hd⟩ := List.mem_filterMap.mp hw'
    have := (awrite_loc (pwrite_some hd).2).1
    exact h2 tv htv (by rw [this, e])
  cases hdir : t.isDirect with
  | true =>
    have e1 : dwrite E (t, v) = some w := by simp [dwrite, hdir, haw]
    have e2 : pwrite E (t, v) = none := by simp [pwrite, hdir]
    rw [e1, e2]
    simp only [List.append_assoc, List.cons_append]
    apply valAt_applyWrites_last _ _ _ _ hW
    intro w' hw'
    simp only [List.mem_append] at hw'
    rcases hw' with hw' | hw' | hw'
    · exact hd2 w' hw'
    · intro e
      obtain ⟨tv, htv, hd⟩ := List.mem_filterMap.mp hw'
      have h3 := pwrite_some hd
      have := hsame tv (List.mem_append_left _ htv) (by rw [(awrite_loc h3.2).1, e])
      rw [h3.1, hdir] at this; cases this
    · exact hp2 w' hw'
  | false =>
    have e1 : dwrite E (t, v) = none := by simp [dwrite, hdir]
    have e2 : pwrite E (t, v) = some w := by simp [pwrite, hdir, haw]
    rw [e1, e2]
    simp only [← List.append_assoc]
    exact valAt_applyWrites_last _ _ _ _ hW hp2

end Sqlair
