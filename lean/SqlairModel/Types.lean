/-
  Types: the reflect universe of the model (DESIGN §3) and a port of
  /repo/internal/typeinfo/arginfo.go (GenerateArgInfo, getArgInfo, getStructFields,
  parseTag) on type descriptors.

  A *type table* is an array of descriptors indexed by type id; identity of
  `reflect.Type` is identity of ids (the harness guarantees it).  Values are trees
  carrying, at every node, the type id, `IsZero()` and the canonical text `r` of the value
  as the database driver receives it (database/sql's conversion is not modelled).
-/
import SqlairModel.Parser

namespace Sqlair

inductive Kind where
  | struct | map | slice | ptr | string | iface | other
deriving DecidableEq, Repr, Inhabited

structure FieldDesc where
  name : Bytes
  tag : Bytes          -- value of the `db` key of the struct tag ("" when absent)
  exported : Bool
  anon : Bool
  ty : Nat
deriving Repr, Inhabited

structure TypeDesc where
  kind : Kind
  kindStr : String     -- reflect.Kind.String(), for messages only
  name : Bytes         -- reflect.Type.Name()
  elem : Nat := 0
  key : Nat := 0
  fields : List FieldDesc := []
  /-- PointerTo(t) implements sql.Scanner -/
  ptrScanner : Bool := false
deriving Repr, Inhabited

abbrev TypeTable := Array TypeDesc

def TypeTable.get (tt : TypeTable) (i : Nat) : TypeDesc := tt.getD i default

/-- classifier for runes in tags -/
structure Cls where
  letter : Nat → Bool
  digit : Nat → Bool

/-! ### parseTag -/

def splitOn (b : Bytes) (sep : UInt8) : List Bytes :=
  let r := b.foldl (fun (acc : List Bytes × Bytes) x =>
    if x == sep then (acc.2 :: acc.1, #[]) else (acc.1, acc.2.push x)) ([], #[])
  (r.2 :: r.1).reverse

def isSpaceByte (x : UInt8) : Bool := x == 32 || x == 9 || x == 10 || x == 11 || x == 12 || x == 13

/-- `strings.TrimSpace` restricted to ASCII white space (non-ASCII space in a tag option
    is outside the modelled domain) -/
def trimSpace (b : Bytes) : Bytes :=
  let l := b.toList.dropWhile isSpaceByte
  (l.reverse.dropWhile isSpaceByte).reverse.toArray

/-- all runes of `b` from offset `pos` satisfy `p` (port of the checker loop) -/
def allRunesFrom (p : Nat → Bool) (b : Bytes) : Nat → Nat → Bool
  | 0, _ => true
  | f+1, pos =>
    if pos < b.size then
      let d := decodeRune b pos
      p d.1 && allRunesFrom p b f (pos + max d.2 1)
    else true

/-- `parseTag`: (name, omitempty) or an error class -/
def parseTag (C : Cls) (tag : Bytes) : Except String (Bytes × Bool) :=
  let options := splitOn tag 44
  let flags := options.drop 1
  -- flags are checked in order; the first unsupported one is an error
  if flags.any (fun f => trimSpace f != bytesOmitEmpty) then .error "tag-unsupported-flag" else
  let om := !flags.isEmpty
  let name := options.headD #[]
  if name.size == 0 then .error "tag-empty" else
  let c0 := name.getD 0 0
  if c0 == 34 || c0 == 39 then
    if name.getD (name.size - 1) 0 != c0 then .error "tag-missing-quote" else .ok (name, om)
  else
    let d := decodeRune name 0
    if C.digit d.1 then
      if allRunesFrom C.digit name name.size d.2 then .ok (name, om) else .error "tag-invalid-column"
    else if C.letter d.1 || d.1 == 95 then
      if allRunesFrom (fun c => C.letter c || C.digit c || c == 95) name name.size d.2
      then .ok (name, om) else .error "tag-invalid-column"
    else .error "tag-invalid-column"
where
  bytesOmitEmpty : Bytes := "omitempty".toUTF8.data

/-! ### getStructFields -/

structure SField where
  name : Bytes        -- Go field name
  tag : Bytes
  omitEmpty : Bool
  index : List Nat
deriving Repr, Inhabited, DecidableEq

/-- the field loop of `getStructFields`; `recur` analyses an embedded struct type -/
def fieldsLoop (C : Cls) (tt : TypeTable) (recur : Nat → Except String (List SField)) :
    List FieldDesc → Nat → List SField → Except String (List SField)
  | [], _, acc => .ok acc
  | f :: rest, i, acc =>
    if f.anon && f.tag.size == 0 then
      if !f.exported then fieldsLoop C tt recur rest (i+1) acc else
      let ft := tt.get f.ty
      let stid := if ft.kind == .ptr then ft.elem else f.ty
      if (tt.get stid).kind != .struct then fieldsLoop C tt recur rest (i+1) acc else
      match recur stid with
      | .error e => .error e
      | .ok nested =>
        fieldsLoop C tt recur rest (i+1) (acc ++ nested.map (fun nf => { nf with index := i :: nf.index }))
    else
      if f.tag.size == 0 then fieldsLoop C tt recur rest (i+1) acc else
      if !f.exported then .error "field-not-exported" else
      match parseTag C f.tag with
      | .error e => .error e
      | .ok (tag, om) =>
        fieldsLoop C tt recur rest (i+1) (acc ++ [{ name := f.name, tag := tag, omitEmpty := om, index := [i] }])

/-- `getStructFields` (repaired: `visiting` detects recursive embedding).  `fuel` bounds
    the nesting depth; `tt.size + 1` suffices because `visiting` holds distinct ids. -/
def getStructFields (C : Cls) (tt : TypeTable) : Nat → List Nat → Nat → Except String (List SField)
  | 0, _, _ => .error "fuel"
  | fuel+1, visiting, tid =>
    if visiting.contains tid then .error "recursive-embedding" else
    fieldsLoop C tt (fun stid => getStructFields C tt fuel (tid :: visiting) stid) (tt.get tid).fields 0 []

/-! ### ArgInfo -/

def bytesLt (a b : Bytes) : Bool :=
  let rec go : List UInt8 → List UInt8 → Bool
    | [], [] => false
    | [], _ :: _ => true
    | _ :: _, [] => false
    | x :: xs, y :: ys => if x < y then true else if y < x then false else go xs ys
  go a.toList b.toList

def insertSorted (x : Bytes) : List Bytes → List Bytes
  | [] => [x]
  | y :: ys => if bytesLt y x then y :: insertSorted x ys else x :: y :: ys

/-- `sort.Strings` -/
def sortBytes (l : List Bytes) : List Bytes := l.foldl (fun acc x => insertSorted x acc) []

inductive ArgInfo where
  | struct (tid : Nat) (name : Bytes) (fields : List SField) (tags : List Bytes)
  | map (tid : Nat) (name : Bytes)
  | slice (tid : Nat) (name : Bytes)
deriving Repr, Inhabited

def ArgInfo.tid : ArgInfo → Nat
  | .struct t .. => t | .map t _ => t | .slice t _ => t
def ArgInfo.name : ArgInfo → Bytes
  | .struct _ n .. => n | .map _ n => n | .slice _ n => n

/-- first duplicate tag in field order, as the Go loop finds it -/
def firstDupTag : List SField → List Bytes → Bool
  | [], _ => false
  | f :: rest, seen => if seen.contains f.tag then true else firstDupTag rest (f.tag :: seen)

/-- `getArgInfo` -/
def getArgInfo (C : Cls) (tt : TypeTable) (tid : Nat) : Except String ArgInfo :=
  let td := tt.get tid
  match td.kind with
  | .map => if (tt.get td.key).kind != .string then .error "map-key-not-string" else .ok (.map tid td.name)
  | .struct =>
    match getStructFields C tt (tt.size + 1) [] tid with
    | .error e => .error e
    | .ok fields =>
      if firstDupTag fields [] then .error "duplicate-tag"
      else .ok (.struct tid td.name fields (sortBytes (fields.map (·.tag))))
  | .slice => .ok (.slice tid td.name)
  | _ => .error "internal-unsupported-type"

/-- `GenerateArgInfo`: samples are type ids (`none` = untyped nil) -/
def generateArgInfo (C : Cls) (tt : TypeTable) : List (Option Nat) → List (Bytes × ArgInfo) → Except String (List (Bytes × ArgInfo))
  | [], acc => .ok acc
  | none :: _, _ => .error "sample-nil"
  | some tid :: rest, acc =>
    let td := tt.get tid
    match td.kind with
    | .struct | .map | .slice =>
      if td.name.size == 0 then .error "sample-anonymous" else
      match getArgInfo C tt tid with
      | .error e => .error e
      | .ok info =>
        if acc.any (fun p => p.1 == td.name) then .error "sample-duplicate-name"
        else generateArgInfo C tt rest (acc ++ [(td.name, info)])
    | .ptr => .error "sample-pointer"
    | _ => .error "sample-unsupported"

/-! ### values -/

structure VH where
  t : Nat
  zero : Bool
  r : String
deriving Repr, Inhabited

inductive GoVal where
  | invalid
  | leaf (h : VH)
  | struct (h : VH) (fields : List GoVal)
  | ptr (h : VH) (p : Option GoVal)
  | map (h : VH) (kv : Option (List (Bytes × GoVal)))
  | slice (h : VH) (els : List GoVal)
  | iface (h : VH) (p : Option GoVal)
deriving Repr, Inhabited

def GoVal.h : GoVal → VH
  | .invalid => default
  | .leaf h | .struct h _ | .ptr h _ | .map h _ | .slice h _ | .iface h _ => h

def GoVal.tid (v : GoVal) : Nat := v.h.t

/-- `reflect.Value.FieldByIndexErr`: a nil embedded pointer on the way is an error -/
def fieldByIndex : GoVal → List Nat → Bool → Except String GoVal
  | v, [], _ => .ok v
  | v, i :: rest, first =>
    let v1 : Except String GoVal :=
      if first then .ok v else
      match v with
      | .ptr _ none => .error "nil-embedded-pointer"
      | .ptr _ (some p) => .ok p
      | v => .ok v
    match v1 with
    | .error e => .error e
    | .ok (.struct _ fs) =>
      match fs[i]? with
      | some f => fieldByIndex f rest false
      | none => .error "panic-field-index"
    | .ok _ => .error "panic-field-of-non-struct"

end Sqlair
