/-
  Exactness of expression spans (C01, second half): definitions and primitive facts.

  `exaEnv E a b` is `E` whose input is cut down to the bytes `[a, b)`.  A scanner state `s`
  of the run on `E` with `a ≤ s.pos ≤ b` corresponds to a state `s'` of the run on
  `exaEnv E a b` at offset `s.pos - a` (`ExaSync`).  The relational pass of
  `Exact/Scan.lean`, `Exact/Items.lean`, `Exact/Exprs.lean` shows: whenever a parse function
  succeeds on `E` from `s` and ends at an offset `≤ b`, it succeeds on `exaEnv E a b` from
  `s'` with the same payload and ends at the corresponding state.
-/
import SqlairProofs.Parser.ShiftMain
import SqlairProofs.Parser.LexDefs

namespace Sqlair

/-- the environment of the extracted text `inp[a:b)` -/
def exaEnv (E : Env) (a b : Nat) : Env := { E with inp := E.inp.extract a b }

/-! ### the extra assumptions -/

/-- The rune decoder is local: the decoder assumptions hold of every extracted text, and a
    rune that lies inside the extracted range decodes there as it does in the whole input.
    Proved for `decodeRune` in `Exact/Utf8.lean`. -/
structure ExaDecLocal (E : Env) : Prop where
  sub_ok : ∀ a b, DecOK (exaEnv E a b)
  sub_dec : ∀ a b p, a ≤ p → p < b → b ≤ E.len → p + (E.dec E.inp p).2 ≤ b →
    E.dec (E.inp.extract a b) (p - a) = E.dec E.inp p

/-- `$` and `(` — the two characters an input expression starts with — are not name
    characters.  (True of every classifier that agrees with the ASCII tables below 128.) -/
structure ExaClass (E : Env) : Prop where
  dollar : isNameChar E 36 = false
  lparen : isNameChar E 40 = false

theorem ExaClass.of_ascii (E : Env)
    (hletter : ∀ c, c < 128 → E.letter c = ((65 ≤ c && c ≤ 90) || (97 ≤ c && c ≤ 122)))
    (hdigit : ∀ c, c < 128 → E.digit c = (48 ≤ c && c ≤ 57)) : ExaClass E where
  dollar := by unfold isNameChar; rw [hletter 36 (by omega), hdigit 36 (by omega)]; rfl
  lparen := by unfold isNameChar; rw [hletter 40 (by omega), hdigit 40 (by omega)]; rfl

/-! ### the extracted environment -/

section
variable (E : Env) (a b : Nat)

theorem exaEnv_inp : (exaEnv E a b).inp = E.inp.extract a b := rfl
theorem exaEnv_dec : (exaEnv E a b).dec = E.dec := rfl
@[simp] theorem exaEnv_letter : (exaEnv E a b).letter = E.letter := rfl
@[simp] theorem exaEnv_digit : (exaEnv E a b).digit = E.digit := rfl
@[simp] theorem exaEnv_isNameChar (c : Nat) : isNameChar (exaEnv E a b) c = isNameChar E c := rfl
@[simp] theorem exaEnv_isInitialNameChar (c : Nat) :
    isInitialNameChar (exaEnv E a b) c = isInitialNameChar E c := rfl

theorem exaEnv_len (hb : b ≤ E.len) : (exaEnv E a b).len = b - a := by
  show (E.inp.extract a b).size = b - a
  have hb' : b ≤ E.inp.size := hb
  rw [Array.size_extract, Nat.min_eq_left hb']

end

/-! ### bytes of the extracted input -/

theorem exa_bAt (inp : Bytes) (a b i : Nat) (h : a + i < b) (hb : b ≤ inp.size) :
    bAt (inp.extract a b) i = bAt inp (a + i) := by
  unfold bAt
  rw [Array.getD_eq_getD_getElem?, Array.getD_eq_getD_getElem?, Array.getElem?_extract,
    if_pos (by rw [Nat.min_eq_left hb]; omega)]

theorem exa_foldEqAt (inp : Bytes) (a b : Nat) (hb : b ≤ inp.size) (kw : List Nat) (p : Nat)
    (h : a + p + kw.length ≤ b) :
    foldEqAt (inp.extract a b) p kw = foldEqAt inp (a + p) kw := by
  induction kw generalizing p with
  | nil => rfl
  | cons c cs ih =>
    simp only [List.length_cons] at h
    unfold foldEqAt
    rw [exa_bAt inp a b p (by omega) hb, ih (p + 1) (by omega), Nat.add_assoc]

/-- a piece of the extracted input is the piece of the whole input -/
theorem exa_extract (inp : Bytes) (a b p q : Nat) (hq : a + q ≤ b) :
    (inp.extract a b).extract p q = inp.extract (a + p) (a + q) := by
  rw [Array.extract_extract, Nat.min_eq_left hq]

/-! ### rune boundaries -/

/-- `ExaReach E p q`: stepping rune by rune from offset `p` one arrives at offset `q` -/
inductive ExaReach (E : Env) : Nat → Nat → Prop where
  | refl (p : Nat) : ExaReach E p p
  | step {p q : Nat} : p < E.len → ExaReach E (p + (E.dec E.inp p).2) q → ExaReach E p q

section
variable {E : Env}

theorem ExaReach.trans {p q r : Nat} (h1 : ExaReach E p q) (h2 : ExaReach E q r) : ExaReach E p r := by
  induction h1 with
  | refl p => exact h2
  | step hp _ ih => exact ExaReach.step hp (ih h2)

theorem ExaReach.snoc {p q : Nat} (h1 : ExaReach E p q) (hq : q < E.len) :
    ExaReach E p (q + (E.dec E.inp q).2) :=
  h1.trans (ExaReach.step hq (ExaReach.refl _))

theorem ExaReach.le {p q : Nat} (h1 : ExaReach E p q) : p ≤ q := by
  induction h1 with
  | refl p => exact Nat.le_refl _
  | step _ _ ih => omega

/-- two offsets on the chain from `a`: the later one is on the chain from the earlier one -/
theorem ExaReach.between (h : DecOK E) {a p q : Nat} (h1 : ExaReach E a p) (h2 : ExaReach E a q)
    (hpq : p ≤ q) : ExaReach E p q := by
  induction h1 with
  | refl p => exact h2
  | step hp hr ih =>
    apply ih _ hpq
    cases h2 with
    | refl _ =>
      have := hr.le
      have := h.size_pos _ hp
      omega
    | step _ h2' => exact h2'

/-- the rune at an offset of the chain strictly before `q` ends at or before `q` -/
theorem ExaReach.next_le (h : DecOK E) {a p q : Nat} (h1 : ExaReach E a p) (h2 : ExaReach E a q)
    (hpq : p < q) : p + (E.dec E.inp p).2 ≤ q := by
  have hb := ExaReach.between h h1 h2 (Nat.le_of_lt hpq)
  cases hb with
  | refl _ => omega
  | step _ hr => exact hr.le

/-- the end of the input is on the chain from every offset -/
theorem ExaReach.to_len (h : DecOK E) (p : Nat) (hp : p ≤ E.len) : ExaReach E p E.len := by
  generalize hn : E.len - p = n
  induction n using Nat.strongRecOn generalizing p with
  | _ n ih =>
    by_cases hlt : p < E.len
    · have h1 := h.size_pos p hlt
      have h2 := h.size_le p hlt
      exact ExaReach.step hlt (ih (E.len - (p + (E.dec E.inp p).2)) (by omega) _ h2 rfl)
    · have : p = E.len := by omega
      subst this; exact ExaReach.refl _

/-- a matched ASCII keyword is a stretch of one-byte runes -/
theorem exa_reach_kw (ha : AsciiDec E) (kw : List Nat) (hkw : ∀ k, k ∈ kw → k < 128) (p : Nat)
    (hle : p + kw.length ≤ E.len) (hf : foldEqAt E.inp p kw = true) :
    ExaReach E p (p + kw.length) := by
  induction kw generalizing p with
  | nil => exact ExaReach.refl _
  | cons k ks ih =>
    simp only [List.length_cons] at hle
    unfold foldEqAt at hf
    rw [Bool.and_eq_true, beq_iff_eq] at hf
    have hk : k < 128 := hkw k List.mem_cons_self
    have hb : bAt E.inp p < 128 := by
      have h1 := hf.1
      unfold asciiLower at h1
      split at h1 <;> split at h1 <;> omega
    have hd := ha.ascii p (by show p < E.inp.size; have : E.len = E.inp.size := rfl; omega) hb
    refine ExaReach.step (by omega) ?_
    rw [hd]
    have := ih (fun k hk => hkw k (List.mem_cons_of_mem _ hk)) (p + 1) (by omega) hf.2
    simp only [List.length_cons]
    rw [show p + (ks.length + 1) = p + 1 + ks.length by omega]
    exact this

end

/-! ### the context and the correspondence of states -/

/-- what the relational pass assumes about the range `[a, b)` -/
structure ExaCtx (E : Env) (a b : Nat) : Prop where
  dok : DecOK E
  dok' : DecOK (exaEnv E a b)
  asc : AsciiDec E
  ab : a ≤ b
  blen : b ≤ E.len
  reach : ExaReach E a b
  dec : ∀ p, a ≤ p → p < b → p + (E.dec E.inp p).2 ≤ b →
    E.dec (E.inp.extract a b) (p - a) = E.dec E.inp p

theorem ExaCtx.mk' {E : Env} (h : DecOK E) (hl : ExaDecLocal E) (ha : AsciiDec E) {a b : Nat}
    (hab : a ≤ b) (hb : b ≤ E.len) (hr : ExaReach E a b) : ExaCtx E a b :=
  ⟨h, hl.sub_ok a b, ha, hab, hb, hr, fun p h1 h2 h3 => hl.sub_dec a b p h1 h2 hb h3⟩

/-- `s` (run on `E`) and `s'` (run on the extracted text) are at corresponding offsets -/
structure ExaSync (E : Env) (a b : Nat) (s s' : Sc) : Prop where
  good : Good E s
  good' : Good (exaEnv E a b) s'
  pos : s.pos = s'.pos + a
  le : s.pos ≤ b
  reach : ExaReach E a s.pos

section
variable {E : Env} {a b : Nat} {s s' : Sc}

theorem ExaCtx.len' (C : ExaCtx E a b) : (exaEnv E a b).len = b - a := exaEnv_len E a b C.blen

theorem ExaSync.pos' (hs : ExaSync E a b s s') : s'.pos = s.pos - a := by have := hs.pos; omega

theorem ExaSync.ge (hs : ExaSync E a b s s') : a ≤ s.pos := by have := hs.pos; omega

/-- before the end of the range: the same rune, corresponding next offsets, inside the range -/
theorem ExaSync.lt (C : ExaCtx E a b) (hs : ExaSync E a b s s') (hlt : s.pos < b) :
    s.pos < E.len ∧ s'.pos < (exaEnv E a b).len ∧ s'.char = s.char ∧ s.nextPos = s'.nextPos + a ∧
      s.nextPos ≤ b ∧ s.pos < s.nextPos := by
  have hp := hs.pos
  have hb := C.blen
  have hlen : s.pos < E.len := by omega
  have hlen' : s'.pos < (exaEnv E a b).len := by rw [C.len']; omega
  obtain ⟨hn, hc⟩ := hs.good.next hlen
  obtain ⟨hn', hc'⟩ := hs.good'.next hlen'
  have hnl := ExaReach.next_le C.dok hs.reach C.reach hlt
  have hd := C.dec s.pos hs.ge hlt hnl
  have hd' : (exaEnv E a b).dec (exaEnv E a b).inp s'.pos = E.dec E.inp s.pos := by
    rw [hs.pos', exaEnv_dec, exaEnv_inp]; exact hd
  rw [hd'] at hn' hc'
  have := C.dok.size_pos s.pos hlen
  exact ⟨hlen, hlen', by rw [hc, hc'], by omega, by omega, by omega⟩

/-- at the end of the range the extracted text is at its end -/
theorem ExaSync.eof (C : ExaCtx E a b) (hs : ExaSync E a b s s') (he : s.pos = b) :
    s'.pos = (exaEnv E a b).len := by
  rw [C.len', hs.pos']; omega

theorem ExaSync.not_lt' (C : ExaCtx E a b) (hs : ExaSync E a b s s') (he : ¬ s.pos < b) :
    ¬ s'.pos < (exaEnv E a b).len := by
  have := hs.le
  have := hs.eof C (by omega)
  omega

theorem ExaSync.lt_iff (C : ExaCtx E a b) (hs : ExaSync E a b s s') :
    s'.pos < (exaEnv E a b).len ↔ s.pos < b := by
  rw [C.len']; have := hs.pos; have := hs.le; have := C.ab; omega

/-- good states at the same offsets as a synchronised pair are synchronised -/
theorem ExaSync.of_pos_eq (hs : ExaSync E a b s s') {t t' : Sc} (g : Good E t)
    (g' : Good (exaEnv E a b) t') (h1 : t.pos = s.pos) (h2 : t'.pos = s'.pos) : ExaSync E a b t t' :=
  ⟨g, g', by rw [h1, h2]; exact hs.pos, by rw [h1]; exact hs.le, by rw [h1]; exact hs.reach⟩

/-- the texts between corresponding offsets agree -/
theorem ExaSync.extract (hs : ExaSync E a b s s') {t t' : Sc}
    (ht : ExaSync E a b t t') :
    (exaEnv E a b).inp.extract s'.pos t'.pos = E.inp.extract s.pos t.pos := by
  rw [exaEnv_inp, exa_extract _ _ _ _ _ (by have := ht.pos; have := ht.le; omega)]
  have := hs.pos; have := ht.pos
  rw [show a + s'.pos = s.pos by omega, show a + t'.pos = t.pos by omega]

end

end Sqlair
