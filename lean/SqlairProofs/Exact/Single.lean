/-
  Exactness of expression spans: single-environment facts about the parse functions
  (what a successful or failed run tells about the entry state), used by the relational
  pass over `E` and `exaEnv E a b`.
-/
import SqlairProofs.Exact.Defs

namespace Sqlair

section
variable {E : Env}

/-! ### string literals, identifiers -/

theorem exa_skipStringLiteral_err {s t : Sc} {e : PErr}
    (h : skipStringLiteral E s = (t, .err e)) : t = s ∧ (s.char = 34 ∨ s.char = 39) := by
  have hq : s.char = 34 ∨ s.char = 39 := by
    by_cases h34 : s.char = 34
    · exact Or.inl h34
    · by_cases h39 : s.char = 39
      · exact Or.inr h39
      · rw [skipStringLiteral_ne h34 h39] at h
        cases h
  refine ⟨?_, hq⟩
  unfold skipStringLiteral at h
  extract_lets c r r' at h
  split at h
  · split at h
    · cases h
    · cases h; rfl
    · cases h; rfl
  · cases h

theorem exa_parseIdentifier_err {s t : Sc} {e : PErr}
    (h : parseIdentifier E s = (t, .err e)) : t = s ∧ (s.char = 34 ∨ s.char = 39) := by
  unfold parseIdentifier at h
  split at h
  · next heq => cases h; exact exa_skipStringLiteral_err heq
  · cases h
  · simp only [] at h
    split at h <;> cases h

theorem exa_parseIdentifierAsterisk_err {s t : Sc} {e : PErr}
    (h : parseIdentifierAsterisk E s = (t, .err e)) : t = s ∧ (s.char = 34 ∨ s.char = 39) := by
  unfold parseIdentifierAsterisk at h
  simp only [] at h
  split at h
  · cases h
  · exact exa_parseIdentifier_err h

/-- no identifier starts at a character that is neither a quote nor a name character -/
theorem exa_parseIdentifier_nonname {s : Sc} (h34 : s.char ≠ 34) (h39 : s.char ≠ 39)
    (hn : isNameChar E s.char = false) : parseIdentifier E s = (s, .no) := by
  unfold parseIdentifier
  rw [skipStringLiteral_ne h34 h39]
  simp only []
  have hnl : nameLoop E (E.len + 1) s = some s := by
    rw [nameLoop]
    exact if_neg (fun hx => by rw [hn] at hx; cases hx.2)
  rw [hnl]
  simp only [Option.getD_some]
  rw [if_neg (by omega)]

/-! ### column accessors -/

theorem exa_pca_nonname {s : Sc} (h42 : s.char ≠ 42) (h34 : s.char ≠ 34) (h39 : s.char ≠ 39)
    (hn : isNameChar E s.char = false) : parseColumnAccessor E s = (s, .no) := by
  unfold parseColumnAccessor
  rw [skipChar_ne h42]
  simp only [Bool.false_eq_true, if_false]
  rw [exa_parseIdentifier_nonname h34 h39 hn]

theorem exa_pca_at_lparen (hc : ExaClass E) {s : Sc} (h40 : s.char = 40) :
    parseColumnAccessor E s = (s, .no) :=
  exa_pca_nonname (by omega) (by omega) (by omega) (by rw [h40]; exact hc.lparen)

theorem exa_pca_at_dollar (hc : ExaClass E) {s : Sc} (h36 : s.char = 36) :
    parseColumnAccessor E s = (s, .no) :=
  exa_pca_nonname (by omega) (by omega) (by omega) (by rw [h36]; exact hc.dollar)

theorem exa_pca_star {s : Sc} (h : (skipChar E 42 s).2 = true) :
    parseColumnAccessor E s =
      ((skipChar E 42 s).1, .ok { table := #[], column := star, func := false }) := by
  unfold parseColumnAccessor
  simp only []
  rw [if_pos h]

theorem exa_pca_fail {s sA : Sc} {res : Res Col} (h : parseColumnAccessor E s = (sA, res))
    (hn : ∀ c, res ≠ .ok c) : sA = s ∨ sA.char = 34 ∨ sA.char = 39 := by
  unfold parseColumnAccessor at h
  simp only [] at h
  split at h
  · cases h; exact absurd rfl (hn _)
  split at h
  · cases h; exact Or.inl rfl
  · cases h; exact Or.inl rfl
  · split at h
    · split at h
      · next heq2 =>
        cases h
        obtain ⟨h1, h2⟩ := exa_parseIdentifierAsterisk_err heq2
        rw [h1]
        exact Or.inr h2
      · cases h; exact absurd rfl (hn _)
      · cases h; exact Or.inl rfl
    · split at h
      · cases h; exact Or.inl rfl
      · cases h; exact absurd rfl (hn _)
      · cases h; exact absurd rfl (hn _)

/-! ### parenthesised columns -/

theorem exa_parseList_ok {α : Type} {fn : Sc → Sc × Res α} {s t : Sc} {xs : List α}
    (h : parseList E fn s = (t, .ok xs)) : s.pos < E.len ∧ s.char = 40 := by
  unfold parseList at h
  simp only [] at h
  split at h
  · next hr => exact ⟨(skipChar_true hr).1, (skipChar_true hr).2.1⟩
  · cases h

theorem exa_parseColumns_paren {s s1 : Sc} {cols : List Col}
    (h : parseColumns E s = (s1, some (cols, true))) :
    s.pos < E.len ∧ s.char = 40 ∧ parseList E (parseColumnAccessor E) s = (s1, .ok cols) := by
  unfold parseColumns at h
  split at h
  · cases h
  · next sA res hres heq =>
    split at h
    · next s2 cs heq2 =>
      cases h
      obtain ⟨hp, h40⟩ := exa_parseList_ok heq2
      have hs : sA = s := by
        rcases exa_pca_fail heq (fun c hc => hres c hc) with h1 | h1 | h1
        · exact h1
        · omega
        · omega
      subst hs
      exact ⟨hp, h40, heq2⟩
    · cases h

/-! ### VALUES is not AS -/

theorem exa_values_not_as {inp : Bytes} {p : Nat} (h : foldEqAt inp p kwVALUES = true) :
    foldEqAt inp p kwAS = false := by
  unfold kwVALUES at h
  unfold kwAS
  unfold foldEqAt at h ⊢
  rw [Bool.and_eq_true, beq_iff_eq] at h
  rw [h.1]
  have : (asciiLower 86 == asciiLower 65) = false := by decide
  rw [this]
  rfl

theorem exa_skipString_AS_of_VALUES {s : Sc} (h : (skipString E kwVALUES s).2 = true) :
    skipString E kwAS s = (s, false) := by
  unfold skipString at h ⊢
  split at h
  · next hc =>
    rw [if_neg (fun hx => by rw [exa_values_not_as hc.2] at hx; cases hx.2)]
  · cases h

/-! ### no output expression at `$` -/

theorem exa_output_at_dollar (hc : ExaClass E) {s : Sc} (h36 : s.char = 36) :
    parseOutputExpr E s = (s, .no) := by
  have hpt : parseTargetType E s = (s, .no) := by
    unfold parseTargetType
    rw [skipChar_ne (by omega)]
    simp only [Bool.false_eq_true, if_false]
  have hpl : parseList E (parseColumnAccessor E) s = (s, .no) := by
    unfold parseList
    rw [skipChar_ne (by omega)]
    simp only [Bool.false_eq_true, if_false]
  have hpc : parseColumns E s = (s, none) := by
    unfold parseColumns
    rw [exa_pca_at_dollar hc h36]
    simp only []
    rw [hpl]
  unfold parseOutputExpr
  rw [hpt]
  simp only []
  rw [hpc]

/-! ### a star among the sources makes the basic values fail -/

theorem exa_basicLoop_star {cp st s2 : Sc} {f : Nat} {ip : Bool} {vs : List Val} {x : Acc}
    (h1 : parseInputMemberAccessor E (skipBlanks E st) = (s2, .ok x))
    (hx : (x.member == star) = true) :
    basicLoop E cp (f + 1) ip vs st = (s2, .err (errAt (skipBlanks E st) .starInBasic)) := by
  rw [basicLoop]
  simp only [h1, hx, if_true]

theorem exa_basicLoop_next {cp st s2 : Sc} {f : Nat} {ip : Bool} {vs : List Val} {x : Acc}
    (h1 : parseInputMemberAccessor E (skipBlanks E st) = (s2, .ok x))
    (hx : ¬ (x.member == star) = true)
    (h41 : ¬ (skipChar E 41 (skipBlanks E s2)).2 = true)
    (h44 : (skipChar E 44 (skipBlanks E s2)).2 = true) :
    basicLoop E cp (f + 1) ip vs st =
      basicLoop E cp f true (vs ++ [.acc x]) (skipChar E 44 (skipBlanks E s2)).1 := by
  have hx' : (x.member == star) = false := by simpa using hx
  have h41' : (skipChar E 41 (skipBlanks E s2)).2 = false := by simpa using h41
  rw [basicLoop]
  simp only [h1, hx', h41', h44, if_true, Bool.false_eq_true, if_false]

theorem exa_lockstep (cp cp' : Sc) (f : Nat) :
    ∀ (first : Bool) (acc : List Acc) (st t : Sc) (srcs : List Acc),
      listLoop E (parseInputMemberAccessor E) cp f first acc st = (t, .ok srcs) →
      ∃ rest, srcs = acc ++ rest ∧
        ((∃ x, x ∈ rest ∧ (x.member == star) = true) →
          ∀ (ip : Bool) (vs : List Val), ∃ t2 e, basicLoop E cp' f ip vs st = (t2, .err e)) := by
  induction f with
  | zero =>
    intro first acc st t srcs h
    unfold listLoop at h
    cases h
  | succ f ih =>
    intro first acc st t srcs h
    unfold listLoop at h
    simp only [] at h
    split at h
    · next s2 x heq =>
      by_cases hx : (x.member == star) = true
      · -- the basic loop fails at once, whatever the list loop does
        have hb : ∀ (ip : Bool) (vs : List Val), ∃ t2 e,
            basicLoop E cp' (f + 1) ip vs st = (t2, .err e) :=
          fun ip vs => ⟨_, _, exa_basicLoop_star heq hx⟩
        split at h
        · cases h
          exact ⟨[x], rfl, fun _ => hb⟩
        · split at h
          · obtain ⟨rest, hrest, _⟩ := ih false (acc ++ [x]) _ t srcs h
            exact ⟨x :: rest, by rw [hrest, List.append_assoc]; rfl, fun _ => hb⟩
          · cases h
      · split at h
        · cases h
          refine ⟨[x], rfl, fun hex => ?_⟩
          obtain ⟨y, hy, hys⟩ := hex
          rw [List.mem_singleton] at hy
          rw [hy] at hys
          exact absurd hys hx
        · next h41 =>
          split at h
          · next h44 =>
            obtain ⟨rest, hrest, hstar⟩ := ih false (acc ++ [x]) _ t srcs h
            refine ⟨x :: rest, by rw [hrest, List.append_assoc]; rfl, fun hex ip vs => ?_⟩
            obtain ⟨y, hy, hys⟩ := hex
            have hy' : y ∈ rest := by
              rcases List.mem_cons.mp hy with hy | hy
              · rw [hy] at hys; exact absurd hys hx
              · exact hy
            rw [exa_basicLoop_next heq hx h41 h44]
            exact hstar ⟨y, hy', hys⟩ true _
          · cases h
    · cases h
    · split at h <;> cases h

theorem exa_star_mem {srcs : List Acc} (hstar : starCountTypes srcs ≠ 0) :
    ∃ x, x ∈ srcs ∧ (x.member == star) = true := by
  unfold starCountTypes at hstar
  obtain ⟨x, hx⟩ := List.exists_mem_of_length_pos (Nat.pos_of_ne_zero hstar)
  rw [List.mem_filter] at hx
  exact ⟨x, hx.1, hx.2⟩

theorem exa_complex_ok {s t : Sc} {srcs : List Acc}
    (h : parseComplexInsertValues E s = (t, .ok srcs)) :
    parseList E (parseInputMemberAccessor E) s = (t, .ok srcs) := by
  unfold parseComplexInsertValues at h
  split at h
  · cases h
  · next heq => cases h; exact heq
  · split at h <;> cases h

theorem exa_complex_star_basic_err (hd : DecOK E) {s t : Sc} {srcs : List Acc} (g : Good E s)
    (h : parseComplexInsertValues E s = (t, .ok srcs)) (hstar : starCountTypes srcs ≠ 0) :
    ∃ t2 e, parseBasicInsertValues E s = (t2, .err e) := by
  have hl := exa_complex_ok h
  unfold parseList at hl
  simp only [] at hl
  split at hl
  · next hr =>
    obtain ⟨rest, hrest, hb⟩ := exa_lockstep s s (E.len + 1) true [] _ t srcs hl
    rw [List.nil_append] at hrest
    subst hrest
    obtain ⟨t2, e, he⟩ := hb (exa_star_mem hstar) false []
    refine ⟨t2, e, ?_⟩
    unfold parseBasicInsertValues
    simp only [hr, Bool.not_true, Bool.false_eq_true, if_false]
    exact he
  · cases hl

/-! ### the shape of an insert expression -/

theorem exa_listLoop_one {α : Type} {fn : Sc → Sc × Res α} {cp st s2 : Sc} {f : Nat} {first : Bool}
    {acc : List α} {x : α} (h1 : fn (skipBlanks E st) = (s2, .ok x))
    (h41 : (skipChar E 41 (skipBlanks E s2)).2 = true) :
    listLoop E fn cp (f + 1) first acc st = ((skipChar E 41 (skipBlanks E s2)).1, .ok (acc ++ [x])) := by
  rw [listLoop]
  simp only [h1, h41, if_true]

theorem exa_asterisk_columns (hd : DecOK E) (hc : ExaClass E) {s t : Sc} {seg : Seg} (g : Good E s)
    (h : parseAsteriskInsertExpr E s = (t, .ok seg)) :
    ∃ s1 cols, parseColumns E s = (s1, some (cols, true)) ∧
      (skipString E kwVALUES (skipBlanks E s1)).2 = true ∧
      (skipString E kwVALUES (skipBlanks E s1)).1.pos ≤ t.pos := by
  unfold parseAsteriskInsertExpr at h
  extract_lets r1 r2 r3 r4 at h
  split at h
  · cases h
  next hr1 =>
  split at h
  · cases h
  next hr2 =>
  split at h
  · cases h
  next hr3 =>
  split at h
  · cases h
  next hr4 =>
  have hr1' : r1.2 = true := by simpa using hr1
  have hr2' : r2.2 = true := by simpa using hr2
  have hr3' : r3.2 = true := by simpa using hr3
  have hr4' : r4.2 = true := by simpa using hr4
  have hb1 : BOK E s r1 := skipChar_bok hd 40 g
  have hp1 := skipBlanks_post hd hb1.good
  have hb2 : BOK E _ r2 := skipChar_bok hd 42 hp1.good
  have hp2 := skipBlanks_post hd hb2.good
  have hb3 : BOK E _ r3 := skipChar_bok hd 41 hp2.good
  have hp3 := skipBlanks_post hd hb3.good
  have hb4 : BOK E _ r4 := skipString_VALUES_bok hp3.good
  have hp4 := skipBlanks_post hd hb4.good
  have hcv := parseComplexInsertValues_rok hd hp4.good
  have h40 : s.char = 40 := (skipChar_true hr1').2.1
  have hcols : parseColumns E s = (r3.1, some ([{ table := #[], column := star, func := false }], true)) := by
    unfold parseColumns
    rw [exa_pca_at_lparen hc h40]
    simp only []
    have hpl : parseList E (parseColumnAccessor E) s =
        (r3.1, .ok [{ table := #[], column := star, func := false }]) := by
      unfold parseList
      simp only []
      rw [if_pos hr1']
      exact exa_listLoop_one (exa_pca_star hr2') hr3'
    rw [hpl]
  split at h
  · next s1 srcs heq =>
    cases h
    obtain ⟨_, hle⟩ := hcv.elim' heq
    exact ⟨r3.1, _, hcols, hr4', Nat.le_trans hp4.mono hle⟩
  · cases h
  · cases h

theorem exa_insert_shape (hd : DecOK E) (hc : ExaClass E) {s t : Sc} {seg : Seg} (g : Good E s)
    (h : parseInsertExpr E s = (t, .ok seg)) :
    ∃ s1 cols, parseColumns E s = (s1, some (cols, true)) ∧
      (skipString E kwVALUES (skipBlanks E s1)).2 = true ∧
      (skipString E kwVALUES (skipBlanks E s1)).1.pos ≤ t.pos := by
  unfold parseInsertExpr at h
  have ha := parseAsteriskInsertExpr_eok hd g
  split at h
  · cases h
  · next heq =>
    cases h
    exact exa_asterisk_columns hd hc g heq
  · next cp heq =>
    have hcp : cp = s := ha.elim_no heq
    subst hcp
    have hpc := parseColumns_post hd g
    split at h
    · next s1 columns heq2 =>
      rw [heq2] at hpc
      have g1 : Good E s1 := hpc.good
      extract_lets r colcp complex at h
      have hp1 := skipBlanks_post hd g1
      have hb : BOK E _ r := skipString_VALUES_bok hp1.good
      have hp2 : Post E r.1 colcp := skipBlanks_post hd hb.good
      split at h
      · cases h
      next hr =>
      have hr' : r.2 = true := by simpa using hr
      have hcx : ∀ s2 srcs, complex = some (s2, srcs) → colcp.pos ≤ s2.pos := by
        intro s2 srcs hc
        unfold complex at hc
        have hcv := parseComplexInsertValues_rok hd hp2.good
        split at hc
        · next heq3 =>
          obtain ⟨g2, hle2⟩ := hcv.elim' heq3
          split at hc
          · cases hc; exact hle2
          · cases hc
        · cases hc
      clear_value complex
      split at h
      · next s2 srcs =>
        cases h
        exact ⟨s1, columns, heq2, hr', Nat.le_trans hp2.mono (hcx _ _ rfl)⟩
      · have hbv := parseBasicInsertValues_rok hd hp2.good
        split at h
        · cases h
        · next heq3 =>
          cases h
          obtain ⟨_, hle3⟩ := hbv.elim' heq3
          exact ⟨s1, columns, heq2, hr', Nat.le_trans hp2.mono hle3⟩
        · cases h
    · cases h

/-! ### the cases of an input expression -/

theorem exa_slice_ok {s t : Sc} {seg : Seg} (h : parseSliceInputExpr E s = (t, .ok seg)) :
    s.pos < E.len ∧ s.char = 36 := by
  unfold parseSliceInputExpr at h
  extract_lets r at h
  split at h
  · cases h
  · next hr =>
    have hr' : r.2 = true := by simpa using hr
    exact ⟨(skipChar_true hr').1, (skipChar_true hr').2.1⟩

theorem exa_member_ok {s t : Sc} {seg : Seg} (h : parseMemberInputExpr E s = (t, .ok seg)) :
    s.pos < E.len ∧ s.char = 36 := by
  unfold parseMemberInputExpr at h
  split at h
  · cases h
  · cases h
  · next heq =>
    unfold parseInputMemberAccessor at heq
    simp only [] at heq
    split at heq
    · next hr => exact ⟨(skipChar_true hr).1, (skipChar_true hr).2.1⟩
    · cases heq

theorem exa_asterisk_lparen {s t : Sc} {seg : Seg}
    (h : parseAsteriskInsertExpr E s = (t, .ok seg)) : s.char = 40 := by
  unfold parseAsteriskInsertExpr at h
  extract_lets r1 r2 r3 r4 at h
  split at h
  · cases h
  · next hr1 =>
    have hr1' : r1.2 = true := by simpa using hr1
    exact (skipChar_true hr1').2.1

/-- an insert expression starts with `(` (no assumption on the classifier) -/
theorem exa_insert_lparen (hd : DecOK E) {s t : Sc} {seg : Seg} (g : Good E s)
    (h : parseInsertExpr E s = (t, .ok seg)) : s.char = 40 := by
  unfold parseInsertExpr at h
  have ha := parseAsteriskInsertExpr_eok hd g
  split at h
  · cases h
  · next heq => exact exa_asterisk_lparen heq
  · next cp heq =>
    have hcp : cp = s := ha.elim_no heq
    subst hcp
    split at h
    · next s1 columns heq2 => exact (exa_parseColumns_paren heq2).2.1
    · cases h

theorem exa_inputExpr_cases (hd : DecOK E) {s t : Sc} {seg : Seg} (g : Good E s)
    (h : parseInputExpr E s = (t, .ok seg)) :
    (s.pos < E.len ∧ s.char = 36) ∨
      (s.char = 40 ∧ parseSliceInputExpr E s = (s, .no) ∧ parseMemberInputExpr E s = (s, .no) ∧
        parseInsertExpr E s = (t, .ok seg)) := by
  unfold parseInputExpr at h
  have h1 := parseSliceInputExpr_eok hd g
  split at h
  · cases h
  · next heq => exact Or.inl (exa_slice_ok heq)
  · next s1 heq =>
    have hs1 : s1 = s := h1.elim_no heq
    subst hs1
    have h2 := parseMemberInputExpr_eok hd g
    split at h
    · cases h
    · next heq2 => exact Or.inl (exa_member_ok heq2)
    · next s2 heq2 =>
      have hs2 : s2 = s1 := h2.elim_no heq2
      subst hs2
      exact Or.inr ⟨exa_insert_lparen hd g h, heq, heq2, h⟩

end
end Sqlair
