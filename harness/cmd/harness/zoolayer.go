package main

import (
	"context"
	"database/sql/driver"
	"encoding/json"
	"errors"
	"flag"
	"fmt"
	"os"
	"reflect"
	"time"
	"unsafe"

	"github.com/canonical/sqlair"

	"verifharness/internal/fakedrv"
	"verifharness/internal/qgen"
	"verifharness/internal/rng"
	"verifharness/internal/zoo"
	"verifharness/internal/zoo/other"
)

// valueZoo returns Go values of every kind, nil-ness and nesting (C18).
func valueZoo() []any {
	var nilPerson *zoo.Person
	var nilM zoo.M
	var nilMK zoo.MK
	var nilInts zoo.Ints
	var nilIface any
	var nilErr error
	var nilFunc func()
	var nilChan chan int
	var nilOutcome *sqlair.Outcome
	var nilSliceP *[]zoo.Person
	var nilPP **zoo.Person
	one := 1
	str := "s"
	p := &zoo.Person{ID: 1, Name: "n"}
	pp := &p
	m := zoo.M{"k": 1, "id": 2, "name": "x"}
	mk := zoo.MK{"k": 1}
	emptyM := zoo.M{}
	ptrNilM := new(zoo.M)
	ptrNilMK := new(zoo.MK)
	ints := zoo.Ints{1, 2}
	persons := []zoo.Person{{ID: 1}, {ID: 2}}
	ptrPersons := []*zoo.Person{{ID: 1}, nil}
	var ifaceHoldingPtr any = p
	return []any{
		nil, nilPerson, nilM, nilMK, nilInts, nilIface, nilErr, nilFunc, nilChan, nilOutcome, nilSliceP, nilPP,
		&nilPerson, &nilM, &nilPP, &nilInts, ptrCycle(), &nilOutcome,
		0, one, &one, "str", &str, 1.5, true, 'x', uint8(3), uintptr(7), complex(1, 2), unsafe.Pointer(&one),
		[2]int{1, 2}, &[2]int{1, 2}, make(chan int), func() {}, struct{}{}, &struct{}{},
		struct {
			A int `db:"a"`
		}{1}, &struct {
			A int `db:"a"`
		}{1},
		zoo.Person{ID: 1}, p, pp, &pp, ifaceHoldingPtr, &ifaceHoldingPtr,
		zoo.Emb{}, &zoo.Emb{}, zoo.EmbPtr{}, &zoo.EmbPtr{}, &zoo.EmbPtr{Loc: &zoo.Loc{Lat: 1}}, zoo.Deep{}, &zoo.Deep{},
		zoo.Rec{}, &zoo.Rec{}, &zoo.Rec{Rec: &zoo.Rec{}}, zoo.Rec2{}, &zoo.Rec3{},
		zoo.BadUnexported{}, &zoo.BadUnexported{}, zoo.EmbUnexp{}, &zoo.EmbUnexp{}, zoo.EmbNonStruct{}, &zoo.EmbNonStruct{},
		zoo.DupTags{}, zoo.BadFlag{}, zoo.BadTag1{}, zoo.BadTag2{}, zoo.BadTag3{}, zoo.BadTag4{}, zoo.BadTag5{}, zoo.BadTag6{}, &zoo.BadTag7{},
		zoo.BadTag8{}, zoo.BadTag9{}, zoo.BadTag10{}, zoo.BadTag11{}, zoo.BadTag12{}, zoo.BadTag13{}, []zoo.BadTag6{{}}, zoo.OmitKinds{}, &zoo.OmitKinds{Bs: []byte{}}, zoo.NoTags{}, &zoo.NoTags{}, zoo.Empty{}, &zoo.Empty{},
		zoo.HHome{}, &zoo.HHome{}, []zoo.HHome{{}}, zoo.ROuter{}, &zoo.ROuter{}, zoo.ROuter2{}, zoo.RNode{}, zoo.Kinds{}, &zoo.Kinds{}, zoo.Omit{}, &zoo.Omit{}, zoo.Tags{}, &zoo.Tags{}, zoo.EmbTagged{}, &zoo.EmbTagged{},
		m, &m, mk, &mk, emptyM, &emptyM, ptrNilM, ptrNilMK, zoo.MS{"k": "v"}, zoo.MI{"k": 1}, zoo.BadMapInt{1: "a"}, zoo.BadMapAny{"k": 1},
		map[string]any{"k": 1}, &map[string]any{}, map[int]int{}, other.M{"k": 1}, other.Person{ID: 1}, &other.Person{},
		ints, &ints, []int{1}, &[]int{1}, zoo.S{1, "a", nil}, zoo.Strs{}, zoo.Bytes("ab"), []byte("ab"), [][]int{{1}},
		persons, &persons, ptrPersons, &ptrPersons, []*zoo.Person{}, []zoo.Person{}, []zoo.M{m, nilM}, []*zoo.M{&m, nil}, []zoo.EmbPtr{{}, {}},
		[]*zoo.EmbPtr{{}, nil}, zoo.Persons{{ID: 1}}, zoo.PtrPersons{nil}, []any{1, nil}, []zoo.Omit{{ID: 1}, {}},
		sqlair.Outcome{}, &sqlair.Outcome{}, []sqlair.Outcome{}, &[]sqlair.Outcome{},
		zoo.MyV{X: 1}, &zoo.MyV{}, zoo.MyInt(1), zoo.KeyT("k"), time.Now(), &time.Time{}, driver.Value(int64(1)),
		context.Background(), reflect.ValueOf(1), reflect.TypeOf(1), os.Stdout, fmt.Errorf("e"),
	}
}

type zooStmt struct {
	q       string
	samples []any
	args    []any // valid arguments
}

func zooStatements() []zooStmt {
	return []zooStmt{
		{"SELECT &Person.* FROM t", []any{zoo.Person{}}, nil},
		{"SELECT &HHome.* FROM t", []any{zoo.HHome{}}, nil},
		{"INSERT INTO t (*) VALUES ($HHome.*)", []any{zoo.HHome{}}, []any{zoo.HHome{}}},
		{"SELECT &Emb.*, &M.k FROM t", []any{zoo.Emb{}, zoo.M{}}, nil},
		{"SELECT &EmbPtr.* FROM t", []any{zoo.EmbPtr{}}, nil},
		{"SELECT &Deep.* FROM t", []any{zoo.Deep{}}, nil},
		{"SELECT (a, b) AS (&MK.*) FROM t", []any{zoo.MK{}}, nil},
		{"SELECT &Kinds.* FROM t", []any{zoo.Kinds{}}, nil},
		{"SELECT &Person.* FROM t WHERE id = $Person.id AND n = $M.k AND x IN ($Ints[:])", []any{zoo.Person{}, zoo.M{}, zoo.Ints{}},
			[]any{zoo.Person{ID: 1}, zoo.M{"k": 1}, zoo.Ints{1}}},
		{"INSERT INTO t (*) VALUES ($EmbPtr.*, $MK.k)", []any{zoo.EmbPtr{}, zoo.MK{}}, []any{zoo.EmbPtr{Loc: &zoo.Loc{}}, zoo.MK{"k": 1}}},
		{"INSERT INTO t (*) VALUES ($Deep.*)", []any{zoo.Deep{}}, []any{zoo.Deep{EmbPtr: &zoo.EmbPtr{Loc: &zoo.Loc{}}}}},
		{"INSERT INTO t (id, name, k) VALUES ($Person.*, $M.*)", []any{zoo.Person{}, zoo.M{}}, []any{zoo.Person{}, zoo.M{"k": 1}}},
		{"INSERT INTO t (a, b) VALUES ($Omit.id, 'lit')", []any{zoo.Omit{}}, []any{zoo.Omit{ID: 1}}},
		{"UPDATE t SET x = $Kinds.pv, y = $Kinds.anyf WHERE z = $Tags.名前", []any{zoo.Kinds{}, zoo.Tags{}}, []any{zoo.Kinds{}, zoo.Tags{}}},
		{"UPDATE t SET x = 1", nil, nil},
	}
}

// guard runs f, converting a panic into text; a hang kills the process (reported by the
// orchestrator together with the case recorded in the progress file).
func guard(desc string, f func()) (panicked string) {
	done := make(chan string, 1)
	go func() {
		defer func() {
			if p := recover(); p != nil {
				done <- fmt.Sprint(p)
				return
			}
			done <- ""
		}()
		f()
	}()
	select {
	case s := <-done:
		return s
	case <-time.After(20 * time.Second):
		fmt.Fprintf(os.Stderr, "HANG in case: %s\n", desc)
		os.Exit(4)
		return ""
	}
}

// cyc is a pointer type that can point at itself.
type cyc *cyc

func ptrCycle() any {
	var l cyc
	l = &l
	return l
}

var errZooHang = errors.New("zoo: the following call hung")

func runZoo(args []string) {
	fs := flag.NewFlagSet("zoo", flag.ExitOnError)
	n := fs.Int("n", 1500, "number of random query/sample combinations in addition to the systematic sweep")
	seed := fs.Uint64("seed", 1, "seed")
	tier := fs.String("tier", "quick", "tier")
	fs.String("driver", "", "unused")
	out := fs.String("out", "", "report file")
	repo := fs.String("repo", "/repo", "repository")
	fs.String("replay", "", "unused")
	progress := fs.String("progress", "/verif/build/zoo_progress.txt", "file naming the case in flight")
	fs.Parse(args)

	rep := newReport("zoo", *seed, *tier)
	rep.Rule = "systematic sweep: every value of a zoo of ~150 Go values (every kind, nil and typed-nil values, pointers to nil maps, nil embedded struct " +
		"pointers, recursive embedded types, unexported fields, foreign same-named types, channels, funcs, arrays, ...) in every argument position of Prepare, DB.Query, " +
		"Query.Get, Query.GetAll, Iterator.Get over 13 statements, one position varied at a time plus random pairs; plus random queries (incl. raw bytes) with random zoo samples; " +
		"every call on a pool of one connection and followed by an ordinary call under a deadline; " +
		"outcome must be a returned error or success, never a panic, fatal error or hang; non-trivial = the call reached sqlair with a non-standard value; distinct by case description"
	r := rng.New(*seed)
	vz := valueZoo()
	stmts := zooStatements()
	dist := map[string]int{}
	var pf *os.File
	if *progress != "" {
		pf, _ = os.Create(*progress)
		defer os.Remove(*progress)
	}
	note := func(s string) {
		if pf != nil {
			pf.Truncate(0)
			pf.WriteAt([]byte(s), 0)
		}
	}
	check := func(pos, desc string, f func() error) {
		full := pos + ": " + desc
		note(full)
		var err error
		p := guard(full, func() { err = f() })
		rep.countCase(full, true)
		dist[pos]++
		if p != "" {
			rep.addCrash(Finding{Case: map[string]any{"position": pos, "case": desc}, Kind: "crash", Detail: "panic: " + p})
			dist["panics"]++
		} else if err == errZooHang {
			rep.addCrash(Finding{Case: map[string]any{"position": pos, "case": desc}, Kind: "crash",
				Detail: "hang: after this call returned, the next ordinary call on the same DB (one pooled connection, no deadline) would never return"})
			dist["hangs"]++
		} else if err != nil {
			dist["errors"]++
		} else {
			dist["successes"]++
		}
	}
	// directed: maps whose elements are pointers / Scanners as destinations of every retrieval method
	for _, w := range ptrElemMaps() {
		rep.addCrash(Finding{Case: map[string]any{"directed": "map destinations with pointer, Scanner and interface elements"}, Kind: "crash", Detail: w})
		dist["panics"]++
	}
	rep.countCase("directed: map destinations with pointer elements", true)
	vdesc := func(v any) string { return fmt.Sprintf("%T(%.60v)", v, fmt.Sprintf("%#v", v)) }
	newDB := func(rows int) (*sqlair.DB, func()) {
		sqldb, st := fakedrv.Open()
		sc := fakedrv.Script{Columns: []string{"_sqlair_0", "_sqlair_1", "_sqlair_2", "_sqlair_3"}}
		for i := 0; i < rows; i++ {
			sc.Rows = append(sc.Rows, []driver.Value{int64(i + 1), "x", int64(3), nil})
		}
		st.SetScript(sc)
		// a single pooled connection: a call that returns without giving it back makes the
		// next call wait for ever
		sqldb.SetMaxOpenConns(1)
		return sqlair.NewDB(sqldb), func() { sqldb.Close() }
	}
	ctx := context.Background()
	// follow runs one more ordinary call on the DB after the call under test: it must
	// return. (It is given a deadline instead of a watchdog; a deadline that expires means
	// the call would have hung.)
	hangs := 0
	follow := func(db *sqlair.DB, stmt *sqlair.Statement, args []any, err error) error {
		if hangs >= 3 {
			return err
		}
		c2, cancel := context.WithTimeout(ctx, 2*time.Second)
		defer cancel()
		if e2 := db.Query(c2, stmt, args...).Run(); errors.Is(e2, context.DeadlineExceeded) {
			hangs++
			return errZooHang
		}
		return err
	}

	// 1. Prepare: every zoo value as the only sample, and appended to valid samples
	for _, s := range stmts {
		for _, v := range vz {
			v := v
			check("Prepare(sample)", s.q+" / "+vdesc(v), func() error { _, err := sqlair.Prepare(s.q, v); return err })
			check("Prepare(samples+sample)", s.q+" / "+vdesc(v), func() error {
				_, err := sqlair.Prepare(s.q, append(append([]any{}, s.samples...), v)...)
				return err
			})
		}
	}
	// 2. Query arguments, 3. outputs
	for _, s := range stmts {
		stmt, err := sqlair.Prepare(s.q, s.samples...)
		if err != nil {
			rep.Notes = append(rep.Notes, "zoo statement does not prepare: "+s.q+": "+err.Error())
			continue
		}
		for _, v := range vz {
			v := v
			check("Query(arg)", s.q+" / "+vdesc(v), func() error {
				db, cl := newDB(1)
				defer cl()
				return follow(db, stmt, s.args, db.Query(ctx, stmt, v).Run())
			})
			check("Query(args+arg)", s.q+" / "+vdesc(v), func() error {
				db, cl := newDB(1)
				defer cl()
				return follow(db, stmt, s.args, db.Query(ctx, stmt, append(append([]any{}, s.args...), v)...).Run())
			})
			for i := range s.args {
				i := i
				check("Query(arg replaced)", fmt.Sprint(s.q, " / #", i, " ", vdesc(v)), func() error {
					db, cl := newDB(1)
					defer cl()
					a := append([]any{}, s.args...)
					a[i] = v
					return follow(db, stmt, s.args, db.Query(ctx, stmt, a...).Run())
				})
			}
			check("Get(output)", s.q+" / "+vdesc(v), func() error {
				db, cl := newDB(1)
				defer cl()
				return follow(db, stmt, s.args, db.Query(ctx, stmt, s.args...).Get(v))
			})
			check("Get(outcome,output)", s.q+" / "+vdesc(v), func() error {
				db, cl := newDB(1)
				defer cl()
				return follow(db, stmt, s.args, db.Query(ctx, stmt, s.args...).Get(&sqlair.Outcome{}, v))
			})
			check("GetAll(slice)", s.q+" / "+vdesc(v), func() error {
				db, cl := newDB(2)
				defer cl()
				return follow(db, stmt, s.args, db.Query(ctx, stmt, s.args...).GetAll(v))
			})
			check("Iterator.Get(output)", s.q+" / "+vdesc(v), func() error {
				db, cl := newDB(2)
				defer cl()
				it := db.Query(ctx, stmt, s.args...).Iter()
				defer it.Close()
				e1 := it.Get(v) // before Next
				it.Next()
				e2 := it.Get(v)
				it.Next()
				it.Next()
				e3 := it.Get(v) // after the end
				it.Close()
				e4 := it.Get(v)
				for _, e := range []error{e1, e2, e3, e4} {
					if e != nil {
						return follow(db, stmt, s.args, e)
					}
				}
				return follow(db, stmt, s.args, nil)
			})
		}
		// random pairs of outputs
		for k := 0; k < 40; k++ {
			a, b := vz[r.Intn(len(vz))], vz[r.Intn(len(vz))]
			check("Get(output,output)", s.q+" / "+vdesc(a)+" , "+vdesc(b), func() error {
				db, cl := newDB(1)
				defer cl()
				return follow(db, stmt, s.args, db.Query(ctx, stmt, s.args...).Get(a, b))
			})
			check("GetAll(slice,slice)", s.q+" / "+vdesc(a)+" , "+vdesc(b), func() error {
				db, cl := newDB(2)
				defer cl()
				return follow(db, stmt, s.args, db.Query(ctx, stmt, s.args...).GetAll(a, b))
			})
		}
	}
	// 4. odd result columns
	for _, colset := range [][]string{{"_sqlair_-1"}, {"_sqlair_0", "_sqlair_0"}, {"_sqlair_99999999999999999999"}, {"_sqlair_1"}, {}, {"_sqlair_+0", "_sqlair_00"}, {"_sqlair_0", "_sqlair_1", "_sqlair_2", "_sqlair_3", "_sqlair_4"}} {
		colset := colset
		for _, s := range stmts[:6] {
			stmt, err := sqlair.Prepare(s.q, s.samples...)
			if err != nil {
				continue
			}
			check("Get(odd columns)", fmt.Sprint(s.q, " / ", colset), func() error {
				sqldb, st := fakedrv.Open()
				defer sqldb.Close()
				row := make([]driver.Value, len(colset))
				for i := range row {
					row[i] = int64(1)
				}
				st.SetScript(fakedrv.Script{Columns: colset, Rows: [][]driver.Value{row}})
				dest := reflect.New(reflect.TypeOf(s.samples[0]))
				if dest.Elem().Kind() == reflect.Map {
					dest.Elem().Set(reflect.MakeMap(dest.Elem().Type()))
				}
				return sqlair.NewDB(sqldb).Query(ctx, stmt).Get(dest.Interface())
			})
		}
	}
	// 5. random queries with random samples
	g := qgen.New(r.Fork(), zooSchema())
	seeds := repoTestQueries(*repo)
	for i := 0; i < *n; i++ {
		q := g.Query(seeds)
		k := r.Intn(3)
		var ss []any
		for j := 0; j < k; j++ {
			ss = append(ss, vz[r.Intn(len(vz))])
		}
		check("Prepare(random query, random samples)", printable(q)+" / "+fmt.Sprintf("%T", ss), func() error { _, err := sqlair.Prepare(q, ss...); return err })
	}
	rep.Distribution["positions"] = dist
	rep.Distribution["zoo_values"] = len(vz)
	rep.Distribution["statements"] = len(stmts)
	for i := 0; i < 4 && i < len(vz); i++ {
		rep.Samples = append(rep.Samples, map[string]any{"position": "Query(arg)", "value": vdesc(vz[(i*37+5)%len(vz)])})
	}
	if *out != "" {
		if err := rep.write(*out); err != nil {
			fatalf("write report: %v", err)
		}
	} else {
		b, _ := json.MarshalIndent(rep, "", " ")
		fmt.Println(string(b))
	}
}
