/-
  NoPanic/Prepare: the closed world of the Prepare side.  `bindTypes` (for ALL type tables,
  nodes and samples) only fails with a class of the list `prepareErrorClasses`; in
  particular never with "fuel" (no hang on a type sample), never with a panic class, and
  never with "internal-unsupported-type".
-/
import SqlairProofs.NoPanic.Fuel
import SqlairProofs.Bind.Errors

namespace Sqlair

/-- the error classes of `bindTypes` -/
def prepareErrorClasses : List String := [
  -- generateArgInfo / getArgInfo / getStructFields / parseTag
  "sample-nil", "sample-anonymous", "sample-duplicate-name", "sample-pointer", "sample-unsupported",
  "map-key-not-string", "duplicate-tag", "recursive-embedding", "field-not-exported",
  "tag-unsupported-flag", "tag-empty", "tag-missing-quote", "tag-invalid-column",
  -- the typed expression builder
  "type-missing", "no-such-tag", "member-of-slice", "no-tags", "map-with-asterisk",
  "slice-with-asterisk", "slice-syntax-on-struct", "slice-syntax-on-map", "output-used-twice",
  "more-than-one-asterisk-map", "more-than-one-provider", "missing-provider", "malformed-ast",
  "mismatched-columns-values", "invalid-asterisk-in-columns", "invalid-asterisk-in-types",
  "mismatched-columns-types", "sample-not-used"]

/-- no class of the list is "fuel", a panic class or an internal error -/
theorem prepareErrorClasses_ok : ∀ e ∈ prepareErrorClasses,
    e ≠ "fuel" ∧ ¬ IsPanic e ∧ e ≠ "internal-unsupported-type" ∧ ¬ isInternal e := by
  decide +kernel

/-- closes goals `"literal" ∈ prepareErrorClasses` -/
macro "pcls" : tactic => `(tactic| (simp [prepareErrorClasses]))

/-! ### generateArgInfo -/

theorem parseTag_classes {C : Cls} {tag : Bytes} {e : String} (h : parseTag C tag = .error e) :
    e ∈ prepareErrorClasses := by
  unfold parseTag at h
  simp only [] at h
  repeat' split at h
  all_goals first | (cases h; done) | (cases h; pcls)

theorem fieldsLoop_classes {C : Cls} {tt : TypeTable} (recur : Nat → Except String (List SField))
    (hrec : ∀ stid e, recur stid = .error e → e = "fuel" ∨ e ∈ prepareErrorClasses) :
    ∀ (fds : List FieldDesc) (i : Nat) (acc : List SField) (e : String),
      fieldsLoop C tt recur fds i acc = .error e → e = "fuel" ∨ e ∈ prepareErrorClasses := by
  intro fds
  induction fds with
  | nil => intro i acc e h; simp [fieldsLoop] at h
  | cons fd rest ih =>
    intro i acc e h
    simp only [fieldsLoop] at h
    generalize (if ((tt.get fd.ty).kind == Kind.ptr) = true then (tt.get fd.ty).elem else fd.ty) = stid at h
    split at h
    · split at h
      · exact ih _ _ _ h
      · split at h
        · exact ih _ _ _ h
        · split at h
          · rename_i e' hr
            cases h
            exact hrec _ _ hr
          · exact ih _ _ _ h
    · split at h
      · exact ih _ _ _ h
      · split at h
        · cases h; exact Or.inr (by pcls)
        · split at h
          · rename_i e' hp
            cases h
            exact Or.inr (parseTag_classes hp)
          · exact ih _ _ _ h

theorem getStructFields_classes {C : Cls} {tt : TypeTable} :
    ∀ (fuel : Nat) (visiting : List Nat) (tid : Nat) (e : String),
      getStructFields C tt fuel visiting tid = .error e → e = "fuel" ∨ e ∈ prepareErrorClasses := by
  intro fuel
  induction fuel with
  | zero => intro visiting tid e h; simp only [getStructFields] at h; cases h; exact Or.inl rfl
  | succ n ih =>
    intro visiting tid e h
    simp only [getStructFields] at h
    split at h
    · cases h; exact Or.inr (by pcls)
    · exact fieldsLoop_classes _ (fun stid e' hr => ih _ _ _ hr) _ _ _ _ h

theorem getArgInfo_classes {C : Cls} {tt : TypeTable} {tid : Nat} {e : String}
    (hk : (tt.get tid).kind = .struct ∨ (tt.get tid).kind = .map ∨ (tt.get tid).kind = .slice)
    (h : getArgInfo C tt tid = .error e) : e ∈ prepareErrorClasses := by
  unfold getArgInfo at h
  simp only [] at h
  split at h
  · split at h
    · cases h; pcls
    · cases h
  · split at h
    · rename_i e' hg
      cases h
      rcases getStructFields_classes _ _ _ _ hg with rfl | hc
      · exact absurd hg (getStructFields_no_fuel_aux (tt.size + 1) [] tid List.nodup_nil
          (by intro x hx; cases hx) (by simp))
      · exact hc
    · split at h
      · cases h; pcls
      · cases h
  · cases h
  · rename_i h1 h2 h3
    rcases hk with hk | hk | hk
    · exact absurd hk h2
    · exact absurd hk h1
    · exact absurd hk h3

theorem generateArgInfo_classes {C : Cls} {tt : TypeTable} :
    ∀ (samples : List (Option Nat)) (acc : List (Bytes × ArgInfo)) (e : String),
    generateArgInfo C tt samples acc = .error e → e ∈ prepareErrorClasses := by
  intro samples
  induction samples with
  | nil => intro acc e h; simp only [generateArgInfo] at h; cases h
  | cons smp rest ih =>
    intro acc e h
    cases smp with
    | none => simp only [generateArgInfo] at h; cases h; pcls
    | some tid =>
      simp only [generateArgInfo] at h
      generalize hkd : (tt.get tid).kind = k at h
      cases k
      case ptr => simp only [] at h; cases h; pcls
      case string => simp only [] at h; cases h; pcls
      case iface => simp only [] at h; cases h; pcls
      case other => simp only [] at h; cases h; pcls
      all_goals
        simp only [] at h
        split at h
        · cases h; pcls
        · split at h
          · rename_i e' hg
            cases h
            exact getArgInfo_classes (by simp [hkd]) hg
          · split at h
            · cases h; pcls
            · exact ih _ _ h

/-! ### the typed expression builder -/

theorem getArg_classes {st : TEB} {n : Bytes} {e : String} (h : getArg st n = .error e) :
    e ∈ prepareErrorClasses := by
  unfold getArg at h
  split at h
  · cases h; pcls
  · cases h

theorem getMember_classes {a : ArgInfo} {m : Bytes} {e : String} (h : a.getMember m = .error e) :
    e ∈ prepareErrorClasses := by
  unfold ArgInfo.getMember at h
  repeat' split at h
  all_goals first | (cases h; done) | (cases h; pcls)

theorem getAll_classes {a : ArgInfo} {e : String} (h : a.getAll = .error e) :
    e ∈ prepareErrorClasses := by
  unfold ArgInfo.getAll at h
  repeat' split at h
  all_goals first | (cases h; done) | (cases h; pcls)

theorem getSlice_classes {a : ArgInfo} {e : String} (h : a.getSlice = .error e) :
    e ∈ prepareErrorClasses := by
  unfold ArgInfo.getSlice at h
  repeat' split at h
  all_goals first | (cases h; done) | (cases h; pcls)

theorem inputMember_classes {st : TEB} {ty m : Bytes} {e : String}
    (h : inputMember st ty m = .error e) : e ∈ prepareErrorClasses := by
  unfold inputMember at h
  split at h
  · rename_i hx; cases h; exact getArg_classes hx
  · split at h
    · rename_i hx; cases h; exact getMember_classes hx
    · cases h

theorem markOutput_classes {st : TEB} {l : Loc} {e : String} (h : markOutput st l = .error e) :
    e ∈ prepareErrorClasses := by
  unfold markOutput at h
  split at h
  · cases h; pcls
  · cases h

theorem markOutputs_classes : ∀ (ms : List (Loc × Bytes)) (st : TEB) (e : String),
    markOutputs st ms = .error e → e ∈ prepareErrorClasses := by
  intro ms
  induction ms with
  | nil => intro st e h; simp only [markOutputs] at h; cases h
  | cons p rest ih =>
    intro st e h
    obtain ⟨l, t⟩ := p
    simp only [markOutputs] at h
    split at h
    · rename_i hx; cases h; exact markOutput_classes hx
    · exact ih _ _ h

theorem outputMember_classes {st : TEB} {ty m : Bytes} {e : String}
    (h : outputMember st ty m = .error e) : e ∈ prepareErrorClasses := by
  unfold outputMember at h
  split at h
  · rename_i hx; cases h; exact getArg_classes hx
  · split at h
    · rename_i hx; cases h; exact getMember_classes hx
    · split at h
      · rename_i hx; cases h; exact markOutput_classes hx
      · cases h

theorem allStructInputs_classes {st : TEB} {ty : Bytes} {e : String}
    (h : allStructInputs st ty = .error e) : e ∈ prepareErrorClasses := by
  unfold allStructInputs at h
  split at h
  · rename_i hx; cases h; exact getArg_classes hx
  · split at h
    · rename_i hx; cases h; exact getAll_classes hx
    · cases h

theorem allStructOutputs_classes {st : TEB} {ty : Bytes} {e : String}
    (h : allStructOutputs st ty = .error e) : e ∈ prepareErrorClasses := by
  unfold allStructOutputs at h
  split at h
  · rename_i hx; cases h; exact getArg_classes hx
  · split at h
    · rename_i hx; cases h; exact getAll_classes hx
    · split at h
      · rename_i hx; cases h; exact markOutputs_classes _ _ _ hx
      · cases h

theorem astInsertCols_classes : ∀ (srcs : List Acc) (st : TEB) (cols : List TCol) (e : String),
    astInsertCols st srcs cols = .error e → e ∈ prepareErrorClasses := by
  intro srcs
  induction srcs with
  | nil => intro st cols e h; simp only [astInsertCols] at h; cases h
  | cons src rest ih =>
    intro st cols e h
    simp only [astInsertCols] at h
    split at h
    · split at h
      · rename_i hx; cases h; exact allStructInputs_classes hx
      · exact ih _ _ _ h
    · split at h
      · rename_i hx; cases h; exact inputMember_classes hx
      · exact ih _ _ _ h

theorem colInsertProviders_classes : ∀ (srcs : List Acc) (st : TEB) (prov : List (Bytes × List Loc))
    (rem : Option Bytes) (e : String),
    colInsertProviders st srcs prov rem = .error e → e ∈ prepareErrorClasses := by
  intro srcs
  induction srcs with
  | nil => intro st prov rem e h; simp only [colInsertProviders] at h; cases h
  | cons src rest ih =>
    intro st prov rem e h
    simp only [colInsertProviders] at h
    split at h
    · split at h
      · rename_i hx; cases h; exact getArg_classes hx
      · split at h
        · cases h; pcls
        · exact ih _ _ _ _ h
      · split at h
        · rename_i hx; cases h; exact allStructInputs_classes hx
        · exact ih _ _ _ _ h
    · split at h
      · rename_i hx; cases h; exact inputMember_classes hx
      · exact ih _ _ _ _ h

theorem colInsertCols_classes (prov : List (Bytes × List Loc)) (rem : Option Bytes) :
    ∀ (cs : List Col) (st : TEB) (cols : List TCol) (e : String),
    colInsertCols prov rem st cs cols = .error e → e ∈ prepareErrorClasses := by
  intro cs
  induction cs with
  | nil => intro st cols e h; simp only [colInsertCols] at h; cases h
  | cons c rest ih =>
    intro st cols e h
    simp only [colInsertCols] at h
    split at h
    · exact ih _ _ _ h
    · cases h; pcls
    · split at h
      · rename_i hx; cases h; exact inputMember_classes hx
      · exact ih _ _ _ h
    · cases h; pcls

theorem basicInsertCols_classes : ∀ (ps : List (Col × Val)) (st : TEB) (cols : List TCol) (e : String),
    basicInsertCols st ps cols = .error e → e ∈ prepareErrorClasses := by
  intro ps
  induction ps with
  | nil => intro st cols e h; simp only [basicInsertCols] at h; cases h
  | cons p rest ih =>
    intro st cols e h
    obtain ⟨c, v⟩ := p
    simp only [basicInsertCols] at h
    split at h
    · exact ih _ _ _ h
    · split at h
      · rename_i hx; cases h; exact inputMember_classes hx
      · exact ih _ _ _ h

theorem outGenerated_classes (pref : Bytes) : ∀ (ts : List Acc) (st : TEB) (ocs : List (Bytes × Loc)) (e : String),
    outGenerated pref st ts ocs = .error e → e ∈ prepareErrorClasses := by
  intro ts
  induction ts with
  | nil => intro st ocs e h; simp only [outGenerated] at h; cases h
  | cons t rest ih =>
    intro st ocs e h
    simp only [outGenerated] at h
    split at h
    · split at h
      · rename_i hx; cases h; exact allStructOutputs_classes hx
      · exact ih _ _ _ h
    · split at h
      · rename_i hx; cases h; exact outputMember_classes hx
      · exact ih _ _ _ h

theorem outIntoStar_classes (ty : Bytes) : ∀ (cs : List Col) (st : TEB) (ocs : List (Bytes × Loc)) (e : String),
    outIntoStar ty st cs ocs = .error e → e ∈ prepareErrorClasses := by
  intro cs
  induction cs with
  | nil => intro st ocs e h; simp only [outIntoStar] at h; cases h
  | cons c rest ih =>
    intro st ocs e h
    simp only [outIntoStar] at h
    split at h
    · rename_i hx; cases h; exact outputMember_classes hx
    · exact ih _ _ _ h

theorem outPairwise_classes : ∀ (ps : List (Col × Acc)) (st : TEB) (ocs : List (Bytes × Loc)) (e : String),
    outPairwise st ps ocs = .error e → e ∈ prepareErrorClasses := by
  intro ps
  induction ps with
  | nil => intro st ocs e h; simp only [outPairwise] at h; cases h
  | cons p rest ih =>
    intro st ocs e h
    obtain ⟨c, t⟩ := p
    simp only [outPairwise] at h
    split at h
    · rename_i hx; cases h; exact outputMember_classes hx
    · exact ih _ _ _ h

theorem bindSeg_classes {st : TEB} {s : OSeg} {e : String} (h : bindSeg st s = .error e) :
    e ∈ prepareErrorClasses := by
  unfold bindSeg at h
  split at h
  · cases h
  · -- member
    split at h
    · split at h
      · rename_i hx; cases h; exact inputMember_classes hx
      · cases h
    · cases h; pcls
  · -- slice
    split at h
    · split at h
      · rename_i hx; cases h; exact getArg_classes hx
      · split at h
        · rename_i hx; cases h; exact getSlice_classes hx
        · cases h
    · cases h; pcls
  · -- astInsert
    split at h
    · rename_i hx; cases h; exact astInsertCols_classes _ _ _ _ hx
    · cases h
  · -- colInsert
    split at h
    · rename_i hx; cases h; exact colInsertProviders_classes _ _ _ _ _ hx
    · split at h
      · rename_i hx; cases h; exact colInsertCols_classes _ _ _ _ _ _ hx
      · cases h
  · -- basicInsert
    split at h
    · cases h; pcls
    · split at h
      · rename_i hx; cases h; exact basicInsertCols_classes _ _ _ _ hx
      · cases h
  · -- output
    simp only [] at h
    split at h
    · split at h
      · rename_i hx; cases h; exact outGenerated_classes _ _ _ _ _ hx
      · cases h
    · split at h
      · cases h; pcls
      · split at h
        · split at h
          · rename_i hx; cases h; exact outIntoStar_classes _ _ _ _ _ hx
          · cases h
        · split at h
          · cases h; pcls
          · split at h
            · split at h
              · rename_i hx; cases h; exact outPairwise_classes _ _ _ _ hx
              · cases h
            · cases h; pcls

theorem bindSegs_classes : ∀ (segs : List OSeg) (st : TEB) (e : String),
    bindSegs st segs = .error e → e ∈ prepareErrorClasses := by
  intro segs
  induction segs with
  | nil => intro st e h; simp only [bindSegs] at h; cases h
  | cons s rest ih =>
    intro st e h
    simp only [bindSegs] at h
    split at h
    · rename_i hx; cases h; exact bindSeg_classes hx
    · exact ih _ _ h

/-- the closed world of Prepare: for ALL type tables, nodes and samples -/
theorem bindTypes_classes {C : Cls} {tt : TypeTable} {segs : List OSeg} {samples : List (Option Nat)}
    {e : String} (h : bindTypes C tt segs samples = .error e) : e ∈ prepareErrorClasses := by
  unfold bindTypes at h
  split at h
  · rename_i hx; cases h; exact generateArgInfo_classes _ _ _ hx
  · split at h
    · rename_i hx; cases h; exact bindSegs_classes _ _ _ hx
    · split at h
      · cases h
      · cases h; pcls

end Sqlair
