/-
  Lexer: an independent reference lexer for SQL string literals / quoted identifiers and
  comments (the specification side of property C02).  It shares no code with the parser
  model beyond the rune decoder of `Env`.

  A left-to-right automaton over runes: in state *code*, a `'` or `"` opens a literal
  that runs to the matching quote (a doubled quote is an escape); `--` opens a comment
  that runs to just before the next newline or the end of input; `/*` opens a comment
  that runs to after the next `*/` or the end of input.  An unclosed literal is an error.
-/
import SqlairModel.Parser

namespace Sqlair

inductive RKind where
  | lit | comment
deriving DecidableEq, Repr, Inhabited

structure Region where
  kind : RKind
  a : Nat
  b : Nat
deriving DecidableEq, Repr, Inhabited

section
variable (E : Env)

/-- rune and size at `p` (callers guard `p < len`) -/
@[inline] def runeAt (p : Nat) : Nat × Nat := E.dec E.inp p

/-- from a position inside a literal opened with quote `q`: offset just after the
    closing quote, or `none` if the literal never closes -/
def litEnd (q : Nat) : Nat → Nat → Option Nat
  | 0, _ => none
  | f+1, p =>
    if p ≥ E.len then none else
    let d := runeAt E p
    if d.1 = q then
      let p1 := p + d.2
      if p1 < E.len ∧ (runeAt E p1).1 = q then litEnd q f (p1 + (runeAt E p1).2)
      else some p1
    else litEnd q f (p + max d.2 1)

/-- end of a line comment: offset of the next newline, or the end of input -/
def lineCommentEnd : Nat → Nat → Nat
  | 0, p => p
  | f+1, p =>
    if p ≥ E.len then E.len else
    let d := runeAt E p
    if d.1 = 10 then p else lineCommentEnd f (p + max d.2 1)

/-- end of a block comment: offset after the next `*/`, or the end of input -/
def blockCommentEnd : Nat → Nat → Nat
  | 0, p => p
  | f+1, p =>
    if p ≥ E.len then E.len else
    let d := runeAt E p
    if d.1 = 42 ∧ p + d.2 < E.len ∧ (runeAt E (p + d.2)).1 = 47
    then p + d.2 + (runeAt E (p + d.2)).2
    else blockCommentEnd f (p + max d.2 1)

/-- the regions of the input, in order; `.error p` = the literal opened at `p` never closes -/
def lexLoop : Nat → Nat → List Region → Except Nat (List Region)
  | 0, _, acc => .ok acc.reverse
  | f+1, p, acc =>
    if p ≥ E.len then .ok acc.reverse else
    let d := runeAt E p
    let p1 := p + max d.2 1
    if d.1 = 34 ∨ d.1 = 39 then
      match litEnd E d.1 (E.len + 1) p1 with
      | none => .error p
      | some e => lexLoop f e ({ kind := .lit, a := p, b := e } :: acc)
    else if d.1 = 45 ∧ p1 < E.len ∧ (runeAt E p1).1 = 45 then
      let e := lineCommentEnd E (E.len + 1) (p1 + (runeAt E p1).2)
      lexLoop f e ({ kind := .comment, a := p, b := e } :: acc)
    else if d.1 = 47 ∧ p1 < E.len ∧ (runeAt E p1).1 = 42 then
      let e := blockCommentEnd E (E.len + 1) (p1 + (runeAt E p1).2)
      lexLoop f e ({ kind := .comment, a := p, b := e } :: acc)
    else lexLoop f p1 acc

def lexRegions : Except Nat (List Region) := lexLoop E (E.len + 1) 0 []

end

/-- offset `x` lies strictly inside region `r` -/
@[inline] def Region.strictlyInside (r : Region) (x : Nat) : Bool := r.a < x && x < r.b

end Sqlair
