/-
  Property C02, metamorphic form ("what a literal or comment contains does not matter"):
  definitions.

  Two runs of the parser are compared: one on `E`, one on `opqEnv E inp'` (the same decoder
  and classifier, another input of the same length).  `OpqEnv E inp'` is the interface
  between the two halves of the proof:
  * the byte-level half (`Opaque/Regions.lean`, `Opaque/Blank.lean`) shows that the input
    with blanked literal and comment interiors satisfies it;
  * the relational pass over the parser (`Opaque/Scan.lean` … `Opaque/Main.lean`) uses
    nothing else about the second input.
  At every code offset of the reference lexer the two runs are in *the same* scanner state;
  they differ only while a skipper is inside a literal or a comment, and in the byte
  strings carried by the results (`OpqR` relates results up to those).
-/
import SqlairProofs.Parser.LexMain

namespace Sqlair

/-- `E` with another input -/
@[reducible] def opqEnv (E : Env) (inp' : Bytes) : Env := { E with inp := inp' }

/-! ### assumptions about the decoder

  The abstract decoder `E.dec` is applied to two different inputs, so the assumptions are
  about the decoder on every input.  All of them hold of the Go-faithful `decodeRune`
  (`decodeRune_OpqDec` in `SqlairProofs/Props/Opaque.lean`). -/

/-- The decoder is a UTF-8 style decoder on every input: it satisfies `DecOK` and `AsciiDec`,
    a rune below 128 is always one ASCII byte (no over-long encodings), and decoding never
    looks behind the first ASCII byte (or the end of the input). -/
structure OpqDec (E : Env) : Prop where
  ok : ∀ inp, DecOK (opqEnv E inp)
  ascii : ∀ inp, AsciiDec (opqEnv E inp)
  small : ∀ (inp : Bytes) (p : Nat), p < inp.size → (E.dec inp p).1 < 128 →
    E.dec inp p = (bAt inp p, 1)
  window : ∀ (inp inp' : Bytes) (p q : Nat), inp.size = inp'.size → p ≤ q →
    (∀ i, p ≤ i → i ≤ q → bAt inp i = bAt inp' i) → (inp.size ≤ q ∨ bAt inp q < 128) →
    E.dec inp p = E.dec inp' p

/-! ### the interface between the byte level and the parser level -/

/-- What the relational pass needs to know about the second input `inp'`: it has the same
    length and the same newlines; at every code offset of the lexer on `E` the two inputs
    have the same byte and decode to the same rune, the same kind of comment opens, and the
    lexer makes the same step. -/
structure OpqEnv (E : Env) (inp' : Bytes) : Prop where
  decE : DecOK E
  asciiE : AsciiDec E
  cls : ClassAscii E
  size : inp'.size = E.inp.size
  decOK : DecOK (opqEnv E inp')
  lineCol : ∀ off, lineColOf inp' off = lineColOf E.inp off
  hasNl : hasNewline inp' = hasNewline E.inp
  byte : ∀ p, LexCode E p → inp'.getD p 0 = E.inp.getD p 0
  dec : ∀ p, LexCode E p → p < E.len → E.dec inp' p = E.dec E.inp p
  lineOpen : ∀ p, LexCode E p → p < E.len → (LineOpen (opqEnv E inp') p ↔ LineOpen E p)
  blockOpen : ∀ p, LexCode E p → p < E.len → (BlockOpen (opqEnv E inp') p ↔ BlockOpen E p)
  next : ∀ p, LexCode E p → p < E.len → lexNext (opqEnv E inp') p = lexNext E p

section
variable {E : Env} {inp' : Bytes}

theorem opq_len (R : OpqEnv E inp') : (opqEnv E inp').len = E.len := R.size

@[simp] theorem opq_isNameChar (c : Nat) : isNameChar (opqEnv E inp') c = isNameChar E c := rfl
@[simp] theorem opq_isInitialNameChar (c : Nat) :
    isInitialNameChar (opqEnv E inp') c = isInitialNameChar E c := rfl
theorem opq_inp : (opqEnv E inp').inp = inp' := rfl
theorem opq_dec : (opqEnv E inp').dec = E.dec := rfl

end

/-! ### results up to the carried byte strings -/

/-- two errors at the same position -/
def OpqErr (e e' : PErr) : Prop := e.line = e'.line ∧ e.col = e'.col

/-- results of the same kind with related payloads, or errors at the same position -/
inductive OpqRes {α : Type} (Rα : α → α → Prop) : Res α → Res α → Prop where
  | ok {a b : α} : Rα a b → OpqRes Rα (.ok a) (.ok b)
  | no : OpqRes Rα .no .no
  | err {e e' : PErr} : OpqErr e e' → OpqRes Rα (.err e) (.err e')

/-- the same scanner state and related results -/
def OpqR {α : Type} (Rα : α → α → Prop) (x y : Sc × Res α) : Prop := y.1 = x.1 ∧ OpqRes Rα x.2 y.2

/-- byte strings: only "is it the asterisk" is ever looked at -/
def OpqStar (a b : Bytes) : Prop := a = star ↔ b = star

/-- accessors: only "is the member the asterisk" is ever looked at -/
def OpqAcc (a b : Acc) : Prop := a.member = star ↔ b.member = star

/-- columns: only "is it a function call" is ever looked at -/
def OpqCol (a b : Col) : Prop := a.func = b.func

/-- nodes: same kind, same span -/
def OpqSeg (a b : Seg) : Prop := a.kind = b.kind ∧ a.a = b.a ∧ a.b = b.b

/-- anything goes -/
def OpqAny {α : Type} (_ _ : α) : Prop := True

/-- lists of the same length with related elements -/
inductive OpqList {α : Type} (Rα : α → α → Prop) : List α → List α → Prop where
  | nil : OpqList Rα [] []
  | cons {a b : α} {l l' : List α} : Rα a b → OpqList Rα l l' → OpqList Rα (a :: l) (b :: l')

section
variable {α : Type} {Rα : α → α → Prop}

theorem OpqErr.rfl' (e : PErr) : OpqErr e e := ⟨rfl, rfl⟩

theorem OpqR.mk_ok {s : Sc} {a b : α} (h : Rα a b) : OpqR Rα (s, .ok a) (s, .ok b) := ⟨rfl, .ok h⟩
theorem OpqR.mk_no {s : Sc} : OpqR Rα (s, .no) (s, .no) := ⟨rfl, .no⟩
theorem OpqR.mk_err {s : Sc} {e e' : PErr} (h : OpqErr e e') : OpqR Rα (s, .err e) (s, .err e') :=
  ⟨rfl, .err h⟩
theorem OpqR.mk_err_same {s : Sc} (e : PErr) : OpqR Rα (s, .err e) (s, .err e) :=
  ⟨rfl, .err (OpqErr.rfl' e)⟩

/-- the three shapes of a pair of related results -/
theorem OpqR.elim {x y : Sc × Res α} (h : OpqR Rα x y) :
    (∃ s1 a b, x = (s1, .ok a) ∧ y = (s1, .ok b) ∧ Rα a b) ∨
    (∃ s1, x = (s1, .no) ∧ y = (s1, .no)) ∨
    (∃ s1 e e', x = (s1, .err e) ∧ y = (s1, .err e') ∧ OpqErr e e') := by
  obtain ⟨s1, r⟩ := x
  obtain ⟨s1', r'⟩ := y
  obtain ⟨hs, hr⟩ := h
  simp only [] at hs hr
  subst hs
  cases hr with
  | ok hab => exact Or.inl ⟨_, _, _, rfl, rfl, hab⟩
  | no => exact Or.inr (Or.inl ⟨_, rfl, rfl⟩)
  | err he => exact Or.inr (Or.inr ⟨_, _, _, rfl, rfl, he⟩)

/-- equal results are related (for a reflexive payload relation) -/
theorem OpqR.of_eq {x y : Sc × Res α} (hr : ∀ a, Rα a a) (h : y = x) : OpqR Rα x y := by
  subst h
  refine ⟨rfl, ?_⟩
  cases y.2 with
  | ok a => exact .ok (hr a)
  | no => exact .no
  | err e => exact .err (OpqErr.rfl' e)

/-- weakening of the payload relation -/
theorem OpqR.mono {Rβ : α → α → Prop} {x y : Sc × Res α} (h : OpqR Rα x y)
    (hm : ∀ a b, Rα a b → Rβ a b) : OpqR Rβ x y := by
  rcases h.elim with ⟨s1, a, b, rfl, rfl, hab⟩ | ⟨s1, rfl, rfl⟩ | ⟨s1, e, e', rfl, rfl, he⟩
  · exact OpqR.mk_ok (hm _ _ hab)
  · exact OpqR.mk_no
  · exact OpqR.mk_err he

end

end Sqlair
