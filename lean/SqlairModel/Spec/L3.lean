/-
  Spec/L3: the predicate the scan layer evaluates on what the implementation's `Get` left in
  the destinations (C06), as a function of the model's result and the observation.
-/
import SqlairModel.Scan

namespace Sqlair

/-- destinations are compared as sets of fields / keys; a field the model marks
    `unspecified` (the failing direct target of a conversion error) matches anything -/
def destEq (a b : Dest) : Bool :=
  a.fields.all (fun p => p.2 == some unspecified || b.fields.contains p) &&
  b.fields.all (fun p => a.fields.contains p || a.fields.contains (p.1, some unspecified)) &&
  a.keys.all (fun p => b.keys.contains p) && b.keys.all (fun p => a.keys.contains p)

def destsEq (as bs : List Dest) : Bool :=
  as.length == bs.length && (as.zip bs).all fun (a, b) => destEq a b

/-- an error raised before the scan (missing column, unused destination, invalid argument):
    everything but the two errors `Rows.Scan` itself can end with -/
def preScanErr (merr : Option String) : Bool :=
  match merr with
  | some e => e != "conversion" && e != "row-too-short"
  | none => false

/-- C06 on the observation: the implementation reports an error exactly when the model does,
    the destinations are the model's, and an error raised before the scan leaves every
    destination as it was (`dests`: the destinations before the call) -/
def holdsC06obs (dests : List Dest) (m : List Dest × Option String) (oerr : Bool) (odests : List Dest) : Bool :=
  let errAgree := m.2.isSome == oerr
  let destsAgree := destsEq m.1 odests
  let untouched := destsEq dests odests
  errAgree && destsAgree && (!(oerr && preScanErr m.2) || untouched)

end Sqlair
