/-
  Link between the proof-side definitions (`run`, `runFinish`) and the executable drivers of
  Spec/L4 (`runCalls`, `runFinishers`) that the differential tests exercise.
-/
import SqlairModel.Spec.L4
import SqlairProofs.Runtime.Tx

namespace Sqlair.Rt

/-- the call a harness call name stands for -/
def callOf (call : String) : Call :=
  if call = "next" then .next
  else if call = "close" then .close
  else .get (if call == "get" then .valid else if call == "getoutcome" then .outcome
    else if call == "getniloutcome" then .nilOutcome else .invalid)

/-- the call sequence of an `iter` case: the harness's calls, with the cancellation inserted
    before call number `cancelAt` -/
def expandCalls (cancelAt : Option Nat) : Nat → List String → List Call
  | _, [] => []
  | i, c :: rest =>
    (if cancelAt == some i then [Call.cancel] else []) ++ callOf c :: expandCalls cancelAt (i + 1) rest

/-- how `runCalls` prints a result (a cancellation prints nothing) -/
def Out.render? : Out → Option String
  | .bool b => some (toString b)
  | .closed e => some (renderOpt e)
  | .got (.row id) => some s!"row:{id}"
  | .got (.outcome Option.none) => some "outcome:nil"
  | .got (.outcome (some n)) => some s!"outcome:{n}"
  | .got (.err e) => some e.render
  | .none => Option.none

/-- the cancellation step of `runCalls` -/
def preCancel (cancelAt : Option Nat) (i : Nat) (it : Iter) (w : World) : Iter × World :=
  if cancelAt == some i then
    match it.rows with
    | some r => let (r, w) := r.cancel w; ({ it with rows := some r }, w)
    | none => (it, w)
  else (it, w)

/-- the call step of `runCalls` -/
def callStep (call : String) (it : Iter) (w : World) : Iter × World × String :=
  match call with
  | "next" => let (it, w, b) := it.next w; (it, w, toString b)
  | "close" => let (it, w, e) := it.close w; (it, w, renderOpt e)
  | _ =>
    let a : GetArgs := if call == "get" then .valid else if call == "getoutcome" then .outcome
      else if call == "getniloutcome" then .nilOutcome else .invalid
    match it.get a with
    | .row id => (it, w, s!"row:{id}")
    | .outcome none => (it, w, "outcome:nil")
    | .outcome (some n) => (it, w, s!"outcome:{n}")
    | .err e => (it, w, e.render)

theorem runCalls_cons (calls : List String) (cancelAt : Option Nat) (i : Nat) (it : Iter) (w : World)
    (call : String) (rest : List String) :
    runCalls calls cancelAt i it w (call :: rest) =
      (let p := preCancel cancelAt i it w
       let q := callStep call p.1 p.2
       let r := runCalls calls cancelAt (i + 1) q.1 q.2.1 rest
       (r.1, r.2.1, q.2.2 :: r.2.2)) := rfl

theorem preCancel_eq (cancelAt : Option Nat) (i : Nat) (it : Iter) (w : World) :
    preCancel cancelAt i it w = if cancelAt == some i then it.cancel w else (it, w) := rfl

theorem callStep_eq (call : String) (it : Iter) (w : World) :
    (callStep call it w).1 = (step it w (callOf call)).1 ∧
    (callStep call it w).2.1 = (step it w (callOf call)).2.1 ∧
    some (callStep call it w).2.2 = (step it w (callOf call)).2.2.render? := by
  unfold callStep
  split
  · simp [callOf, Out.render?]
  · simp [callOf, Out.render?]
  · rename_i h1 h2
    have h1' : ¬ call = "next" := fun h => h1 h
    have h2' : ¬ call = "close" := fun h => h2 h
    simp only [callOf, h1', h2', if_false, step_get]
    generalize (if (call == "get") = true then GetArgs.valid
      else if (call == "getoutcome") = true then GetArgs.outcome
      else if (call == "getniloutcome") = true then GetArgs.nilOutcome else GetArgs.invalid) = a
    cases hg : it.get a with
    | row id => simp [Out.render?]
    | err e => simp [Out.render?]
    | outcome r => cases r <;> simp [Out.render?]

theorem runCalls_eq_run (calls : List String) (cancelAt : Option Nat) (i : Nat) (it : Iter) (w : World)
    (rest : List String) :
    runCalls calls cancelAt i it w rest =
      ((run it w (expandCalls cancelAt i rest)).1, (run it w (expandCalls cancelAt i rest)).2.1,
       (run it w (expandCalls cancelAt i rest)).2.2.filterMap Out.render?) := by
  induction rest generalizing i it w with
  | nil => simp [runCalls, expandCalls]
  | cons call rest ih =>
    rw [runCalls_cons]
    simp only [ih, preCancel_eq]
    by_cases hc : (cancelAt == some i) = true
    · obtain ⟨h1, h2, h3⟩ := callStep_eq call (it.cancel w).1 (it.cancel w).2
      simp only [hc, if_true, expandCalls, List.singleton_append, run_cons, step_cancel, h1, h2]
      rw [List.filterMap_cons, List.filterMap_cons, ← h3]
      simp [Out.render?]
    · obtain ⟨h1, h2, h3⟩ := callStep_eq call it w
      simp only [hc, Bool.false_eq_true, if_false, expandCalls, List.nil_append, run_cons, h1, h2]
      rw [List.filterMap_cons, ← h3]

theorem runFinishers_eq_runFinish (fs : List String) (tx : TX) (w : World) :
    runFinishers fs tx w =
      ((runFinish tx w (fs.map fun f => (f == "commit", none))).1,
       (runFinish tx w (fs.map fun f => (f == "commit", none))).2.1,
       (runFinish tx w (fs.map fun f => (f == "commit", none))).2.2.map renderOpt) := by
  have key : ∀ (fs : List String) (tx : TX) (w : World) (acc : List String),
      fs.foldl (fun (acc : TX × World × List String) f =>
        let (tx, w, e) := acc.1.finish (f == "commit") none acc.2.1
        (tx, w, acc.2.2 ++ [renderOpt e])) (tx, w, acc) =
      ((runFinish tx w (fs.map fun f => (f == "commit", none))).1,
       (runFinish tx w (fs.map fun f => (f == "commit", none))).2.1,
       acc ++ (runFinish tx w (fs.map fun f => (f == "commit", none))).2.2.map renderOpt) := by
    intro fs
    induction fs with
    | nil => intro tx w acc; simp [runFinish]
    | cons f fs ih =>
      intro tx w acc
      simp only [List.foldl_cons, List.map_cons, runFinish_cons]
      rw [ih]
      simp
  unfold runFinishers
  rw [key]
  simp

end Sqlair.Rt
