/-
  Driver/L2: JSON glue for the bind layer.
-/
import Lean.Data.Json
import SqlairModel.Spec.L2
import SqlairModel.Spec.L2Tokens
import SqlairProofs.NoPanic.Defs
import SqlairProofs.L2Sound.C03ValsGuard
import Driver.Json
import Driver.L2Rows
import SqlairModel.Spec.DriverClauses

open Lean Sqlair

namespace Driver

def kindOf : String → Kind
  | "struct" => .struct | "map" => .map | "slice" => .slice | "ptr" => .ptr
  | "string" => .string | "interface" => .iface | _ => .other

def parseField (j : Json) : Except String FieldDesc := do
  pure { name := ← optHex j "name", tag := ← optHex j "tag", exported := (getBool j "exp").toOption.getD false,
         anon := (getBool j "anon").toOption.getD false, ty := ← getNat j "t" }

def parseTypeDesc (j : Json) : Except String TypeDesc := do
  let ks ← getStr j "kind"
  let fields ← (optList j "fields").toList.mapM parseField
  pure { kind := kindOf ks, kindStr := ks, name := ← optHex j "name",
         elem := (optNat j "elem").getD 0, key := (optNat j "key").getD 0, fields := fields,
         ptrScanner := (getBool j "pscan").toOption.getD false }

def parseVH (j : Json) : VH :=
  { t := (optNat j "t").getD 0, zero := (getBool j "z").toOption.getD false,
    r := (getStr j "r").toOption.getD "" }

partial def parseGoVal (j : Json) : Except String GoVal := do
  match j with
  | .null => pure .invalid
  | _ =>
    let h := parseVH j
    match (getStr j "k").toOption.getD "leaf" with
    | "invalid" => pure .invalid
    | "struct" =>
      let fs ← (optList j "f").toList.mapM parseGoVal
      pure (.struct h fs)
    | "ptr" =>
      match j.getObjVal? "p" with
      | .ok pj => pure (.ptr h (some (← parseGoVal pj)))
      | .error _ => pure (.ptr h none)
    | "iface" =>
      match j.getObjVal? "p" with
      | .ok pj => pure (.iface h (some (← parseGoVal pj)))
      | .error _ => pure (.iface h none)
    | "map" =>
      if (getBool j "nil").toOption.getD false then pure (.map h none) else
      let kv ← (optList j "kv").toList.mapM fun e => do
        match e with
        | .arr #[k, v] =>
          let ks ← k.getStr?
          match Bytes.ofHex ks with
          | some kb => pure (kb, ← parseGoVal v)
          | none => throw "bad map key hex"
        | _ => throw "bad kv"
      pure (.map h (some kv))
    | "slice" =>
      let els ← (optList j "el").toList.mapM parseGoVal
      pure (.slice h els)
    | _ => pure (.leaf h)

def mkCls (cls : Array (Nat × Nat)) : Cls :=
  { letter := fun c => if c < 128 then asciiLetter c else cls.any (fun (r, k) => r == c && k == 1)
    digit := fun c => if c < 128 then asciiDigit c else cls.any (fun (r, k) => r == c && k == 2) }

def parseBindObs (j : Json) : Except String BindObs := do
  let params ← (optList j "params").toList.mapM fun e => do
    match e with
    | .arr #[n, v] => pure ((← n.getStr?), (← v.getStr?))
    | _ => throw "bad param"
  pure { prepOk := ← getBool j "prepOk", prepErr := ← optHex j "prepErr",
         bindOk := (getBool j "bindOk").toOption.getD false, bindErr := ← optHex j "bindErr",
         sql := ← optHex j "sql", params := params,
         mode := (getStr j "mode").toOption.getD "none", events := (optNat j "events").getD 0 }

def exceptStr {α} : Except String α → String
  | .ok _ => "ok"
  | .error e => "err:" ++ e

def handleL2 (j : Json) : Except String Json := do
  let q ← optHex j "q"
  let segs ← (← getArr j "segs").toList.mapM parseOSeg
  let tt ← (← getArr j "tt").mapM parseTypeDesc
  let samples := (optList j "samples").toList.map fun s => s.getNat?.toOption
  let args ← (optList j "args").toList.mapM parseGoVal
  let C := mkCls (← parseCls j)
  let m := runModel C tt segs samples args
  let modelJson : List (String × Json) :=
    [("prep", Json.str (exceptStr m.prep)), ("bind", Json.str (exceptStr m.bind))] ++
    (match m.bind with
     | .ok pq => [("sql", Json.str (renderSQL pq.pieces).toHex),
                  ("params", Json.arr (pq.params.map fun (p : Nat × String) => Json.arr #[Json.str s!"sqlair_{p.1}", Json.str p.2]).toArray),
                  ("nouts", Json.num pq.outputs.length)]
     | .error _ => [])
  match j.getObjVal? "obs" with
  | .error _ => pure (Json.mkObj [("model", Json.mkObj modelJson)])
  | .ok oj =>
    let o ← parseBindObs oj
    -- C07, second sentence: arguments the model binds (one usable argument per input type)
    -- must not be rejected by a statement Prepare accepted
    let wrongReject : Bool := (match m.bind with | .ok _ => true | .error _ => false) && o.prepOk && !o.bindOk
    -- the layer is fed the implementation's parsed nodes; the parser model is asked as well:
    -- if the nodes differ, what is bound below is not what the query text names, and the
    -- expansions of the kinds concerned are touched (C03 inputs, C04 inserts, C05 outputs)
    let qcls := (optList j "qcls").toList.filterMap fun e =>
      match e with
      | .arr #[r, k] => match r.getNat?, k.getNat? with
        | .ok r, .ok k => some (r, k)
        | _, _ => none
      | _ => none
    let parserAff : List String :=
      if (getBool j "noParserCheck").toOption.getD false then [] else
      match parse (mkEnv q qcls.toArray) with
      | .ok msegs =>
        let ms := msegs.map (Seg.toOSeg q)
        if ms == segs then [] else (kindProps ms ++ kindProps segs).eraseDups
      | .error _ => kindProps segs
    -- a Prepare that rejects what the model accepts (or the reverse) touches the expansions
    -- of the statement besides C07
    let prepDiffers : Bool := (match m.prep with | .ok _ => true | .error _ => false) != o.prepOk
    -- a statement the model prepares (the iff-theorems of `Typed`: it is well typed) that
    -- Prepare rejects: the expansions the properties promise for its expressions are not
    -- produced at all; this input fails the properties of the kinds of expression it holds
    -- a statement the model prepares (the iff-theorems of `Typed`: it is well typed) that
    -- Prepare rejects: the expansions the properties promise for its expressions are not
    -- produced at all; this input fails the properties of the kinds of expression it holds
    -- (`lostProps`, `inputsCounted`: Spec/DriverClauses.lean, sound by `lostProps_model`,
    -- `inputsCounted_model`)
    let lost : List String := lostProps m o segs
    -- every input expression the reference parser reads in the text got its argument
    -- (statements whose expressions are member inputs only)
    let inputsCounted : Bool :=
      if (getBool j "noParserCheck").toOption.getD false then true else
      match parse (mkEnv q qcls.toArray) with
      | .ok msegs => Sqlair.inputsCounted ((msegs.map (Seg.toOSeg q)).filter (·.kind != .bypass)) o
      | .error _ => true
    -- two values of one type were supplied (the model refuses: "provided more than once")
    -- and the statement ran all the same: whichever value won, the other one is not what
    -- its expression was bound to
    let dupLost : Bool := (match m.bind with | .error "type-provided-twice" => true | _ => false) &&
      o.prepOk && o.bindOk && o.mode != "none"
    -- C02 inside expressions: a function call written as an output column is kept verbatim,
    -- string literals and comments in its arguments included (whatever they contain)
    let callsVerbatim : Bool :=
      if !(o.prepOk && o.bindOk) || o.mode == "none" then true else
      segs.all fun sg => sg.kind != .output || sg.cols.all fun c =>
        !c.func || !(c.column.any fun b => b == 39 || b == 34 || b == 45 || b == 47) || (o.sql.findFrom c.column 0).isSome
    let aff := (affected m o ++ (if wrongReject then ["C07"] else []) ++ parserAff ++
      (if prepDiffers then kindProps segs else [])).eraseDups
    -- hypothesis of the no-panic theorems (C18): every argument tree has the shape its type
    -- descriptors promise (`ArgWF`: an untyped nil, or `ValWF`, decided by `valWF`)
    let argsWF := args.all fun a => (match a with | .invalid => true | _ => false) || valWF tt 64 a
    pure (Json.mkObj
      [("model", Json.mkObj modelJson),
       ("argsWF", Json.bool argsWF),
       ("agree", Json.bool aff.isEmpty),
       ("affects", Json.arr (aff.map Json.str).toArray),
       ("c01", Json.bool (holdsC01e2e q segs o && holdsC01exact segs o)),
       ("c03", Json.bool ((!tokensGuards tt segs || holdsC03 segs o) && (!c03valsGuards C tt segs args || holdsC03vals C tt segs args o) && holdsC03present args o && inputsCounted && !lost.contains "C03" && !dupLost)),
       ("c02", Json.bool (literalsVerbatim segs o && callsVerbatim)),
       -- (an insert accepted although a member of one of its rows cannot be read - it lies behind
       -- a nil embedded pointer - cannot be row-faithful: the rejection is C08's, the rows C04's)
       -- (`nilEmbAccepted`: `Spec/DriverClauses.lean`; `nilEmbAccepted_model`, `Props/L2Clauses.lean`)
       ("c04", Json.bool (!nilEmbAccepted m o segs &&
          holdsC04rej m o && literalsVerbatim segs o && (!c04rowsGuards tt segs || holdsC04rows C tt segs args o) && !lost.contains "C04")),
       -- (token predicates under `tokensGuards`: the witnesses of `Props/L2Tokens.lean` show they are
       -- false of the model without it; the mode half needs typed output nodes only)
       ("c05", Json.bool ((!tokensGuards tt segs || holdsC05 segs o) &&
          (!(o.prepOk && o.bindOk) || o.mode == "none" || !outputsTyped segs || holdsC05mode segs o) && !lost.contains "C05")),
       ("c07", Json.bool (holdsC07 m o && !wrongReject)),
       ("c08", Json.bool (holdsC08 m o))])

end Driver
