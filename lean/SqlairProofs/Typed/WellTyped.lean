/-
  Typed/WellTyped: the node loop of `bindTypes` and the characterisation of a successful
  Prepare as well-typedness of the parsed query against the samples (C07, part 3).
-/
import SqlairProofs.Typed.Samples
import SqlairProofs.Typed.Node

namespace Sqlair

/-- `NodeOK` depends on the used outputs only through membership -/
theorem NodeOK.congr {infos : List (Bytes × ArgInfo)} {u u' : List Bytes} {s : OSeg}
    (h : ∀ d, d ∈ u ↔ d ∈ u') : NodeOK infos u s ↔ NodeOK infos u' s := by
  unfold NodeOK
  cases s.kind <;> simp only []
  rw [Fresh.congr h]

/-- every node is well-typed with respect to the outputs used before it: those in `used0`
    and the destinations of the earlier nodes -/
def NodesOK (infos : List (Bytes × ArgInfo)) (used0 : List Bytes) (segs : List OSeg) : Prop :=
  ∀ pre s post, segs = pre ++ s :: post → NodeOK infos (used0 ++ pre.flatMap (nodeDests infos)) s

theorem NodesOK.cons_iff {infos : List (Bytes × ArgInfo)} {used0 : List Bytes} {s : OSeg} {rest : List OSeg} :
    NodesOK infos used0 (s :: rest) ↔
      NodeOK infos used0 s ∧ NodesOK infos (used0 ++ nodeDests infos s) rest := by
  unfold NodesOK
  constructor
  · intro h
    refine ⟨?_, ?_⟩
    · have := h [] s rest rfl
      simpa using this
    · intro pre s' post he
      have := h (s :: pre) s' post (by rw [he]; rfl)
      simpa [List.append_assoc] using this
  · rintro ⟨h1, h2⟩ pre s' post he
    cases pre with
    | nil =>
      simp only [List.nil_append, List.cons.injEq] at he
      obtain ⟨rfl, _⟩ := he
      simpa using h1
    | cons p pre' =>
      simp only [List.cons_append, List.cons.injEq] at he
      obtain ⟨rfl, he⟩ := he
      have := h2 pre' s' post he
      simpa [List.append_assoc] using this

theorem NodesOK.congr {infos : List (Bytes × ArgInfo)} {u u' : List Bytes} {segs : List OSeg}
    (h : ∀ d, d ∈ u ↔ d ∈ u') : NodesOK infos u segs ↔ NodesOK infos u' segs := by
  unfold NodesOK
  constructor
  · intro hh pre s post he
    exact (NodeOK.congr (by intro d; simp [h])).1 (hh pre s post he)
  · intro hh pre s post he
    exact (NodeOK.congr (by intro d; simp [h])).2 (hh pre s post he)

/-- the node loop: acceptance and growth of the state -/
theorem bindSegs_spec : ∀ (segs : List OSeg) (st : TEB),
    ((∃ st', bindSegs st segs = .ok st') ↔ NodesOK st.argInfos st.outputUsed segs) ∧
    ∀ st', bindSegs st segs = .ok st' →
      Grows st st' (segs.flatMap nodeTypes) (segs.flatMap (nodeDests st.argInfos)) := by
  intro segs
  induction segs with
  | nil =>
    intro st
    simp only [bindSegs, Except.ok.injEq, exists_eq', true_iff, List.flatMap_nil]
    refine ⟨?_, fun st' h => h ▸ Grows.refl st⟩
    intro pre s post he
    cases pre <;> simp at he
  | cons s rest ih =>
    intro st
    simp only [bindSegs, List.flatMap_cons]
    rw [NodesOK.cons_iff]
    obtain ⟨b1, b2⟩ := bindSeg_spec st s
    cases hb : bindSeg st s with
    | error e =>
      rw [hb] at b1
      simp only [reduceCtorEq, exists_false, false_iff] at b1
      simp only [reduceCtorEq, exists_false, false_iff, false_imp_iff, implies_true, and_true, not_and]
      intro h; exact absurd h b1
    | ok st1 =>
      rw [hb] at b1
      have hn : NodeOK st.argInfos st.outputUsed s := b1.1 ⟨_, rfl⟩
      have hg := b2 st1 hb
      obtain ⟨i1, i2⟩ := ih st1
      simp only
      rw [hg.infos] at i1 i2
      refine ⟨?_, fun st' h => hg.trans (i2 st' h)⟩
      rw [i1, NodesOK.congr (u := st1.outputUsed) (u' := st.outputUsed ++ nodeDests st.argInfos s)
        (by intro d; rw [hg.outs, List.mem_append])]
      simp [hn]

/-- C07: Declarative well-typedness of a parsed query against the samples: the sample list is
    valid and yields the infos; every node is well-typed with respect to the infos and the
    output destinations of the earlier nodes; every sample is named by some node. -/
def WellTyped (C : Cls) (tt : TypeTable) (segs : List OSeg) (samples : List (Option Nat)) : Prop :=
  ∃ infos, SamplesOK C tt samples infos ∧
    (∀ pre s post, segs = pre ++ s :: post → NodeOK infos (pre.flatMap (nodeDests infos)) s) ∧
    (∀ p ∈ infos, ∃ s ∈ segs, p.1 ∈ nodeTypes s)

/-- C07 part 3: Prepare succeeds iff the query is well-typed against the samples -/
theorem bindTypes_ok_iff_wellTyped_core {C : Cls} {tt : TypeTable} {segs : List OSeg}
    {samples : List (Option Nat)} :
    (∃ tes, bindTypes C tt segs samples = .ok tes) ↔ WellTyped C tt segs samples := by
  unfold bindTypes WellTyped
  cases hg : generateArgInfo C tt samples [] with
  | error e =>
    simp only [reduceCtorEq, exists_false, false_iff, not_exists, not_and]
    intro infos hs
    rw [← generateArgInfo_nil_ok_iff, hg] at hs
    cases hs
  | ok infos =>
    have hs : SamplesOK C tt samples infos := generateArgInfo_nil_ok_iff.1 hg
    have huniq : ∀ infos', SamplesOK C tt samples infos' → infos' = infos := by
      intro infos' h'
      have := generateArgInfo_nil_ok_iff.2 h'
      rw [hg] at this
      cases this; rfl
    obtain ⟨b1, b2⟩ := bindSegs_spec segs { argInfos := infos }
    simp only [] at b1 b2
    have hnodes : NodesOK infos [] segs ↔
        ∀ pre s post, segs = pre ++ s :: post → NodeOK infos (pre.flatMap (nodeDests infos)) s := by
      unfold NodesOK; simp
    simp only
    cases hb : bindSegs { argInfos := infos } segs with
    | error e =>
      rw [hb] at b1
      simp only [reduceCtorEq, exists_false, false_iff] at b1
      simp only [reduceCtorEq, exists_false, false_iff, not_exists, not_and]
      intro infos' hs' hn
      rw [huniq infos' hs'] at hn
      exact absurd (hnodes.2 hn) b1
    | ok st =>
      rw [hb] at b1
      have hn := hnodes.1 (b1.1 ⟨_, rfl⟩)
      have hgrow := b2 st hb
      have hused : ∀ n, n ∈ st.argUsed ↔ ∃ s ∈ segs, n ∈ nodeTypes s := by
        intro n
        rw [hgrow.used]
        simp [List.mem_flatMap]
      simp only
      by_cases hall : infos.all (fun p => st.argUsed.contains p.1) = true
      · simp only [hall, if_true, Except.ok.injEq, exists_eq', true_iff]
        refine ⟨infos, hs, hn, ?_⟩
        intro p hp
        have := List.all_eq_true.1 hall p hp
        exact (hused p.1).1 (by simpa using this)
      · simp only [hall, Bool.false_eq_true, if_false, reduceCtorEq, exists_false, false_iff, not_exists,
          not_and]
        intro infos' hs' _ hu
        rw [huniq infos' hs'] at hu
        apply hall
        rw [List.all_eq_true]
        intro p hp
        have := (hused p.1).2 (hu p hp)
        simpa using this

end Sqlair
