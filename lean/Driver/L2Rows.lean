/-
  Driver/L2Rows: C04, row faithfulness, stated on the implementation's observation
  without the model's bind function: for an insert expression fed from one `$T.*` source
  and run with a single argument (T, *T, []T, []*T, a map or a slice of maps) the values
  the driver receives form a rectangle, one row per element in order, and the columns (those written in the statement, or for `(*)` ONE increasing selection of the sorted db tags of T) are such that the value at row
  r, column c is the value of member c of element r.  The members are found by tag
  (`valueByTag`), never through the index paths the library computes.
-/
import SqlairModel.Spec.L2Rows

open Sqlair

namespace Driver

/-! the definitions live in `SqlairModel/Spec/L2Rows.lean` (namespace `Sqlair`), so that the
    proofs (`SqlairProofs/Props/L2Rows.lean`) do not import `Driver` -/
export Sqlair (tagsOfVal assignCols chunk holdsC04rows c04rowsGuards embPtrOK)

end Driver
