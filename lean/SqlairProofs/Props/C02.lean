/-
  Property C02: string literals / quoted identifiers and comments are opaque to expression
  parsing.

  * `c02_unclosed_rejected`: if the reference lexer reports an unclosed literal, `parse`
    rejects the input;
  * `c02_bounds_outside_regions`: if `parse` accepts, no node other than a bypass node starts
    or ends strictly inside a region of the reference lexer;
  * `c02_opaque`: `holdsC02 E (modelObs E) = true`.

  Assumptions (all proved here for the concrete instances): `DecOK` (decoder makes progress,
  newline is one byte), `AsciiDec` (an ASCII byte decodes to itself with size 1) and
  `ClassAscii` (quotes, `-`, `/`, blank, tab, CR, LF are not name characters).
-/
import SqlairProofs.Props.Parser
import SqlairProofs.Parser.LexMain

namespace Sqlair

/-! ### the assumptions hold of the concrete decoder and of ASCII-compatible classifiers -/

/-- Go's decoder (as ported in `decodeRune`) decodes an ASCII byte to itself, size 1 -/
theorem decodeRune_AsciiDec (inp : Bytes) (letter digit : Nat → Bool) :
    AsciiDec { inp := inp, dec := decodeRune, letter := letter, digit := digit } where
  ascii := fun p hp hb => by
    show decodeRune inp p = (bAt inp p, 1)
    change bAt inp p < 128 at hb
    rcases decodeRune_cases inp p hp with hd | hd | hd
    · exact hd.1
    · omega
    · have := hd.2.2.2 p (Nat.le_refl _) (by omega)
      omega

/-- every classifier that agrees with the ASCII tables below 128 (as `unicode.IsLetter` and
    `unicode.IsDigit` do) satisfies `ClassAscii` -/
theorem classAscii_of_agree (E : Env) (hl : ∀ c, c < 128 → E.letter c = asciiLetter c)
    (hd : ∀ c, c < 128 → E.digit c = asciiDigit c) : ClassAscii E := by
  have key : ∀ c, c < 128 → (asciiLetter c || asciiDigit c || c == 95) = false →
      isNameChar E c = false := by
    intro c hc hf
    unfold isNameChar
    rw [hl c hc, hd c hc]; exact hf
  exact ⟨key 34 (by decide) (by decide), key 39 (by decide) (by decide), key 45 (by decide) (by decide),
    key 47 (by decide) (by decide), key 32 (by decide) (by decide), key 9 (by decide) (by decide),
    key 13 (by decide) (by decide), key 10 (by decide) (by decide)⟩

theorem asciiEnv_AsciiDec (s : String) : AsciiDec (asciiEnv s) := decodeRune_AsciiDec _ _ _

theorem asciiEnv_ClassAscii (s : String) : ClassAscii (asciiEnv s) :=
  classAscii_of_agree _ (fun _ _ => rfl) (fun _ _ => rfl)

/-! ### the spans computed from the observation are the spans of the nodes -/

theorem SpansChain.le {a b : Nat} {l : List Seg} (hc : SpansChain a b l) : a ≤ b := by
  induction hc with
  | nil x => exact Nat.le_refl _
  | cons s rest to hle _ ih => omega

theorem spansOf_fold (inp : Bytes) {a b : Nat} {segs : List Seg} (hc : SpansChain a b segs)
    (hb : b ≤ inp.size) (acc : List (SegKind × Nat × Nat)) :
    (segs.map (Seg.toOSeg inp)).foldl (fun (acc : Nat × List (SegKind × Nat × Nat)) s =>
      (acc.1 + s.raw.size, (s.kind, acc.1, acc.1 + s.raw.size) :: acc.2)) (a, acc) =
    (b, (segs.map fun s => (s.kind, s.a, s.b)).reverse ++ acc) := by
  induction hc generalizing acc with
  | nil x => rfl
  | cons s rest to hle hrest ih =>
    have hto := hrest.le
    have hsize : (Seg.toOSeg inp s).raw.size = s.b - s.a := by
      show (inp.extract s.a s.b).size = _
      rw [Array.size_extract, Nat.min_eq_left (by omega)]
    simp only [List.map_cons, List.foldl_cons, hsize]
    rw [show s.a + (s.b - s.a) = s.b by omega]
    rw [ih hb]
    simp [Seg.toOSeg]

theorem spansOf_chain (inp : Bytes) {segs : List Seg} (hc : SpansChain 0 inp.size segs) :
    spansOf (segs.map (Seg.toOSeg inp)) = segs.map fun s => (s.kind, s.a, s.b) := by
  unfold spansOf
  rw [spansOf_fold inp hc (Nat.le_refl _) []]
  simp

/-! ### C02 -/

/-- (1) an input with an unclosed literal (according to the reference lexer) is rejected -/
theorem c02_unclosed_rejected (E : Env) (h : DecOK E) (ha : AsciiDec E) (hc : ClassAscii E)
    (q : Nat) (hq : lexRegions E = .error q) : ∃ e, parse E = .error e := by
  cases hp : parse E with
  | error e => exact ⟨e, rfl⟩
  | ok segs => exact (lexRegions_error hq (parse_lex h ha hc hp).1).elim

/-- (2), on the nodes: a node other than a bypass node neither starts nor ends strictly inside a
    literal or a comment -/
theorem c02_node_bounds (E : Env) (h : DecOK E) (ha : AsciiDec E) (hc : ClassAscii E)
    (regions : List Region) (hr : lexRegions E = .ok regions) (segs : List Seg)
    (hp : parse E = .ok segs) (seg : Seg) (hs : seg ∈ segs) (hk : seg.kind ≠ .bypass)
    (r : Region) (hm : r ∈ regions) :
    ¬ (r.a < seg.a ∧ seg.a < r.b) ∧ ¬ (r.a < seg.b ∧ seg.b < r.b) := by
  rcases (parse_lex h ha hc hp).2 seg hs with hb | ⟨hla, hlb⟩
  · exact (hk hb).elim
  · have h1 := lexRegions_ok h hr hm hla
    have h2 := lexRegions_ok h hr hm hlb
    unfold Region.strictlyInside at h1 h2
    rw [Bool.and_eq_false_iff, decide_eq_false_iff_not, decide_eq_false_iff_not] at h1 h2
    omega

/-- (2), as evaluated by `holdsC02` on the observation -/
theorem c02_bounds_outside_regions (E : Env) (h : DecOK E) (ha : AsciiDec E) (hc : ClassAscii E)
    (regions : List Region) (hr : lexRegions E = .ok regions) (segs : List Seg)
    (hp : parse E = .ok segs) :
    boundsOutsideRegions regions (spansOf (segs.map (Seg.toOSeg E.inp))) = true := by
  rw [spansOf_chain E.inp (c01_spans_chain E h segs hp)]
  unfold boundsOutsideRegions
  rw [List.all_eq_true]
  intro x hx
  obtain ⟨seg, hs, rfl⟩ := List.mem_map.mp hx
  show (seg.kind == SegKind.bypass || regions.all fun r =>
    !(r.strictlyInside seg.a) && !(r.strictlyInside seg.b)) = true
  rcases (parse_lex h ha hc hp).2 seg hs with hb | ⟨hla, hlb⟩
  · rw [hb]; rfl
  · rw [Bool.or_eq_true]
    right
    rw [List.all_eq_true]
    intro r hm
    rw [lexRegions_ok h hr hm hla, lexRegions_ok h hr hm hlb]
    rfl

/-- **C02.**  String literals, quoted identifiers and comments are opaque to expression
    parsing: an unclosed literal is rejected, and no expression node starts or ends strictly
    inside a literal or a comment. -/
theorem c02_opaque (E : Env) (h : DecOK E) (ha : AsciiDec E) (hc : ClassAscii E) :
    holdsC02 E (modelObs E) = true := by
  unfold holdsC02 modelObs
  cases hr : lexRegions E with
  | error q =>
    obtain ⟨e, he⟩ := c02_unclosed_rejected E h ha hc q hr
    rw [he]
  | ok regions =>
    cases hp : parse E with
    | error e => rfl
    | ok segs => exact c02_bounds_outside_regions E h ha hc regions hr segs hp

/-- C02 for the Go decoder and any classifier that agrees with the ASCII tables below 128 -/
theorem c02_opaque_go (inp : Bytes) (letter digit : Nat → Bool)
    (hl : ∀ c, c < 128 → letter c = asciiLetter c) (hd : ∀ c, c < 128 → digit c = asciiDigit c) :
    holdsC02 { inp := inp, dec := decodeRune, letter := letter, digit := digit }
      (modelObs { inp := inp, dec := decodeRune, letter := letter, digit := digit }) = true :=
  c02_opaque _ (decodeRune_DecOK _ _ _) (decodeRune_AsciiDec _ _ _) (classAscii_of_agree _ hl hd)

/-! ### non-vacuity -/

/-- decidable views of the lexer's result for the examples -/
def lexSpans (E : Env) : Option (List (RKind × Nat × Nat)) :=
  match lexRegions E with
  | .ok rs => some (rs.map fun r => (r.kind, r.a, r.b))
  | .error _ => none

def lexUnclosed (E : Env) : Option Nat :=
  match lexRegions E with
  | .ok _ => none
  | .error p => some p

/-- the lexer finds a literal (with a doubled quote), a block comment and a line comment; the
    parser accepts, and its output expression `&T.*` lies between the regions -/
example : lexSpans (asciiEnv "SELECT 'it''s' /* c */ &T.* -- x") =
      some [(.lit, 7, 14), (.comment, 15, 22), (.comment, 28, 32)] ∧
    parseNodes (asciiEnv "SELECT 'it''s' /* c */ &T.* -- x") =
      some [(.bypass, 0, 23), (.output, 23, 27), (.bypass, 27, 32)] := by
  decide +kernel

/-- expression syntax inside literals, quoted identifiers and comments is not parsed -/
example : lexSpans (asciiEnv "SELECT '&T.*', x AS &T.y -- $M.z\n FROM t /* &U.* */ WHERE \"a$b\" = $M.c") =
      some [(.lit, 7, 13), (.comment, 25, 32), (.comment, 41, 51), (.lit, 58, 63)] ∧
    parseNodes (asciiEnv "SELECT '&T.*', x AS &T.y -- $M.z\n FROM t /* &U.* */ WHERE \"a$b\" = $M.c") =
      some [(.bypass, 0, 15), (.output, 15, 24), (.bypass, 24, 66), (.member, 66, 70)] := by
  decide +kernel

/-- an unclosed literal: the lexer reports it at offset 7, the parser rejects the input -/
example : lexUnclosed (asciiEnv "SELECT 'abc") = some 7 ∧
    parseError (asciiEnv "SELECT 'abc") = some { line := 1, col := 8, kind := .missingQuote } := by
  decide +kernel

/-- the observation checked by `holdsC02` really is the `.ok`/`.ok` case with regions and nodes -/
example : (match lexRegions (asciiEnv "SELECT 'it''s' /* c */ &T.* -- x"),
      modelObs (asciiEnv "SELECT 'it''s' /* c */ &T.* -- x") with
    | .ok rs, .ok segs => (rs.length, (spansOf segs).length)
    | _, _ => (0, 0)) = (3, 3) := by
  decide +kernel

/-! ### the assumptions are needed

  Neither `ClassAscii` nor `AsciiDec` can be dropped from `c02_opaque` (the abstract `Env`
  allows classifiers and decoders that Go does not have). -/

/-- a classifier that calls the single quote a letter -/
def c02BadClassEnv : Env :=
  { inp := Bytes.ofString "&T.a' &U.b '", dec := decodeRune,
    letter := fun c => asciiLetter c || c == 39, digit := asciiDigit }

/-- Without `ClassAscii` C02 fails: the member name `a'` swallows the opening quote of the
    literal `' &U.b '`, and `&U.b` is parsed inside it. -/
theorem c02_needs_ClassAscii :
    ∃ E : Env, DecOK E ∧ AsciiDec E ∧ holdsC02 E (modelObs E) = false :=
  ⟨c02BadClassEnv, decodeRune_DecOK _ _ _, decodeRune_AsciiDec _ _ _, by decide +kernel⟩

example : lexSpans c02BadClassEnv = some [(.lit, 4, 12)] ∧
    parseNodes c02BadClassEnv =
      some [(.output, 0, 5), (.bypass, 5, 6), (.output, 6, 10), (.bypass, 10, 12)] := by
  decide +kernel

/-- a decoder that satisfies `DecOK` but decodes the three bytes `S/*` as one rune `S` -/
def weirdDec (inp : Bytes) (p : Nat) : Nat × Nat :=
  if bAt inp p = 83 ∧ bAt inp (p+1) = 47 ∧ bAt inp (p+2) = 42 ∧ p + 3 ≤ inp.size then (83, 3)
  else decodeRune inp p

theorem weirdDec_DecOK (inp : Bytes) (letter digit : Nat → Bool) :
    DecOK { inp := inp, dec := weirdDec, letter := letter, digit := digit } := by
  have hd := decodeRune_DecOK inp letter digit
  constructor
  · intro p hp
    show 1 ≤ (weirdDec inp p).2
    unfold weirdDec
    split
    · decide
    · exact hd.size_pos p hp
  · intro p hp
    show p + (weirdDec inp p).2 ≤ inp.size
    unfold weirdDec
    split
    · next hc => exact hc.2.2.2
    · exact hd.size_le p hp
  · intro p hp h10
    change (weirdDec inp p).1 = 10 at h10
    show (weirdDec inp p).2 = 1 ∧ bAt inp p = 10
    unfold weirdDec at h10 ⊢
    split
    · next hc => rw [if_pos hc] at h10; cases h10
    · next hc => rw [if_neg hc] at h10; exact hd.nl p hp h10
  · intro p hp hne i hi hi'
    change (weirdDec inp p).1 ≠ 10 at hne
    change i < p + (weirdDec inp p).2 at hi'
    show bAt inp i ≠ 10
    unfold weirdDec at hne hi'
    split at hi'
    · next hc =>
      have : i = p ∨ i = p + 1 ∨ i = p + 2 := by simp only [] at hi'; omega
      rcases this with rfl | rfl | rfl <;> omega
    · next hc =>
      rw [if_neg hc] at hne
      exact hd.no_nl p hp hne i hi hi'

def c02BadDecEnv : Env :=
  { inp := Bytes.ofString "x AS/*'*/&T.y''", dec := weirdDec, letter := asciiLetter, digit := asciiDigit }

/-- Without `AsciiDec` C02 fails: `skipString` matches `AS` byte-wise and lands inside the rune
    `S/*`; the parser then sees a comment `/*'*/` the lexer does not see, parses `x AS &T.y` and
    accepts the input, whereas for the lexer the quote at offset 6 opens a literal that never
    closes. -/
theorem c02_needs_AsciiDec :
    ∃ E : Env, DecOK E ∧ ClassAscii E ∧ holdsC02 E (modelObs E) = false :=
  ⟨c02BadDecEnv, weirdDec_DecOK _ _ _, classAscii_of_agree _ (fun _ _ => rfl) (fun _ _ => rfl),
    by decide +kernel⟩

example : lexUnclosed c02BadDecEnv = some 6 ∧
    parseNodes c02BadDecEnv = some [(.output, 0, 13), (.bypass, 13, 15)] := by
  decide +kernel

end Sqlair
