/-
  Spec/DriverClauses: three clauses the driver defines inline (`Driver/Rt.lean`: `rowsIffOutputs`;
  `Driver/L2.lean`: `kindProps`, `lost`, `inputsCounted`), restated verbatim in the model library
  so that `SqlairProofs` can state theorems about them without importing `Driver`.
-/
import SqlairModel.Spec.L2
import SqlairModel.Spec.L4

namespace Sqlair

/-- `Driver/L2.lean`, `kindProps`: the properties of the kinds of expression a statement holds -/
def kindProps (l : List OSeg) : List String :=
  (if l.any (fun s => s.kind == .member || s.kind == .slice) then ["C03"] else []) ++
  (if l.any (fun s => s.kind == .astInsert || s.kind == .colInsert || s.kind == .basicInsert) then ["C04"] else []) ++
  (if l.any (fun s => s.kind == .output) then ["C05"] else [])

/-- `Driver/L2.lean`, `lost`: a statement the model prepares that Prepare rejects fails the
    properties of the kinds of expression it holds -/
def lostProps (m : BindModel) (o : BindObs) (segs : List OSeg) : List String :=
  if (match m.prep with | .ok _ => true | .error _ => false) && !o.prepOk then kindProps segs else []

/-- `Driver/L2.lean`, `inputsCounted`, the clause evaluated once the reference parser has read
    the text (`exprs`: the non-bypass nodes it reads): for statements whose expressions are
    member inputs only, every input expression got its argument -/
def inputsCounted (exprs : List OSeg) (o : BindObs) : Bool :=
  if !(o.prepOk && o.bindOk) || o.mode == "none" || !exprs.all (·.kind == .member) then true
  else o.params.length == exprs.length

/-- `Driver/L2.lean`, C04: an insert the implementation accepts although the model rejects it
    because a member of one of its rows lies behind a nil embedded pointer cannot be
    row-faithful (the rejection itself is C08's subject) -/
def nilEmbAccepted (m : BindModel) (o : BindObs) (segs : List OSeg) : Bool :=
  (match m.bind with | .error cls => cls == "nil-embedded-pointer" | .ok _ => false) &&
    o.prepOk && o.bindOk && (kindProps segs).contains "C04"

namespace Rt

/-- `Driver/Rt.lean`, `rowsIffOutputs` (C05, last sentence, as Get and Run show it): a statement
    is treated as returning rows exactly when it has an output expression -/
def rowsIffOutputs (c : Case) (p : Pred) (o : Obs) : Bool :=
  if !(c.op == "run" || c.op == "get") then true else
  let pm := p.returns.headD ""
  let im := o.returns.headD ""
  !((pm == "noRows" && im == "") || (pm == "" && im == "noRows"))

/-- `Driver/Rt.lean`, `txEndFaithful` (C12, "Commit makes all of them take effect together,
    Rollback none of them"): what ends the transaction at the driver (the commit and rollback
    events, in order) is what the reference machine says the caller's Commit and Rollback calls
    amount to (with finishers racing each other the reference machine does not say which one
    wins) -/
def txEnds (l : List String) : List String := l.filter fun e => e == "commit" || e == "rollback"

def txEndFaithful (c : Case) (p : Pred) (o : Obs) : Bool :=
  if c.concurrent != 0 then true else
  txEnds (p.log.map Ev.render) == txEnds o.events

/-- `Driver/Rt.lean`, `getReadsFirstOnly` (C15, "Get stores the first row"): Get fetches no
    further than the reference machine does (what lies behind the first row - more rows, a
    failure - is none of its business) -/
def getReadsFirstOnly (c : Case) (p : Pred) (o : Obs) : Bool :=
  if c.op != "get" then true else
  (o.events.filter (· == "next")).length ≤ ((p.log.map Ev.render).filter (· == "next")).length

end Rt
end Sqlair
