/-
  Property C02, metamorphic form, byte level (2): the input with blanked literal and comment
  interiors satisfies the interface `OpqEnv` of the relational pass (`opq_blank_env`).
-/
import SqlairProofs.Opaque.Regions

namespace Sqlair

/-! ### the shape of a literal and of a comment (on the original input) -/

section
variable {E : Env}

/-- a closed literal ends with its quote byte, which is not doubled -/
theorem opq_litEnd_shape (hd : OpqDec E) {c : Nat} (hc : c < 128) : ∀ (f s e : Nat),
    litEnd E c f s = some e → s + 1 ≤ e ∧ bAt E.inp (e - 1) = c ∧ ¬ (e < E.len ∧ rn E e = c) := by
  have h := hd.decOK
  intro f
  induction f with
  | zero => intro s e he; rw [litEnd] at he; cases he
  | succ f ih =>
    intro s e he
    rw [litEnd_succ] at he
    by_cases hp : s ≥ E.len
    · rw [if_pos hp] at he; cases he
    · rw [if_neg hp] at he
      have hp : s < E.len := by omega
      have h1 := sz_pos h s hp
      by_cases hq : rn E s = c
      · rw [if_pos hq] at he
        obtain ⟨hs1, hb⟩ := hd.small' hp (by omega)
        by_cases hdb : s + sz E s < E.len ∧ rn E (s + sz E s) = c
        · rw [if_pos hdb] at he
          have := sz_pos h _ hdb.1
          have := ih _ _ he
          omega
        · rw [if_neg hdb] at he
          cases he
          rw [hs1] at hdb ⊢
          refine ⟨by omega, ?_, hdb⟩
          rw [Nat.add_sub_cancel, hb, hq]
      · rw [if_neg hq, max_sz h hp] at he
        have := ih _ _ he
        omega

/-- a line comment contains no newline byte and ends at a newline byte or at the end -/
theorem opq_lineCommentEnd_shape (h : DecOK E) : ∀ (f s : Nat), s ≤ E.len → E.len - s < f →
    (∀ i, s ≤ i → i < lineCommentEnd E f s → bAt E.inp i ≠ 10) ∧
    (lineCommentEnd E f s = E.len ∨ bAt E.inp (lineCommentEnd E f s) = 10) := by
  intro f
  induction f with
  | zero => intros; omega
  | succ f ih =>
    intro s hs hf
    rw [lineCommentEnd_succ]
    by_cases hge : s ≥ E.len
    · rw [if_pos hge]
      exact ⟨fun i _ _ => by omega, Or.inl rfl⟩
    · rw [if_neg hge]
      have hlt : s < E.len := by omega
      have h1 := sz_pos h s hlt
      have h2 := sz_le h s hlt
      by_cases hq : rn E s = 10
      · rw [if_pos hq]
        exact ⟨fun i _ _ => by omega, Or.inr (h.nl s hlt hq).2⟩
      · rw [if_neg hq, max_sz h hlt]
        obtain ⟨ih1, ih2⟩ := ih (s + sz E s) h2 (by omega)
        refine ⟨fun i hi hie => ?_, ih2⟩
        by_cases hin : i < s + sz E s
        · exact h.no_nl s hlt hq i hi hin
        · exact ih1 i (by omega) hie

/-- a block comment ends at the end of the input or with the bytes `*/` -/
theorem opq_blockCommentEnd_shape (hd : OpqDec E) : ∀ (f s : Nat), s ≤ E.len → E.len - s < f →
    blockCommentEnd E f s = E.len ∨
    (s + 2 ≤ blockCommentEnd E f s ∧ bAt E.inp (blockCommentEnd E f s - 2) = 42 ∧
      bAt E.inp (blockCommentEnd E f s - 1) = 47) := by
  have h := hd.decOK
  intro f
  induction f with
  | zero => intros; omega
  | succ f ih =>
    intro s hs hf
    rw [blockCommentEnd_succ]
    by_cases hge : s ≥ E.len
    · rw [if_pos hge]; exact Or.inl rfl
    · rw [if_neg hge]
      have hlt : s < E.len := by omega
      have h1 := sz_pos h s hlt
      have h2 := sz_le h s hlt
      by_cases hq : rn E s = 42 ∧ s + sz E s < E.len ∧ rn E (s + sz E s) = 47
      · rw [if_pos hq]
        obtain ⟨hs1, hb1⟩ := hd.small' hlt (by omega)
        rw [hs1] at hq ⊢
        obtain ⟨hs2, hb2⟩ := hd.small' hq.2.1 (by omega)
        rw [hs2]
        refine Or.inr ⟨by omega, ?_, ?_⟩
        · rw [show s + 1 + 1 - 2 = s by omega, hb1, hq.1]
        · rw [show s + 1 + 1 - 1 = s + 1 by omega, hb2, hq.2.2]
      · rw [if_neg hq, max_sz h hlt]
        rcases ih (s + sz E s) h2 (by omega) with ih | ⟨ih1, ih2⟩
        · exact Or.inl ih
        · exact Or.inr ⟨by omega, ih2⟩

end

/-! ### the lexer over a stretch of `x` and newline bytes (on any input) -/

section
variable {F : Env}

/-- an `x` or newline byte is a rune of size one that is neither a quote nor an asterisk -/
theorem opq_blank_rune (hd : OpqDec F) {p : Nat} (hp : p < F.len)
    (hb : bAt F.inp p = 120 ∨ bAt F.inp p = 10) : (rn F p = 120 ∨ rn F p = 10) ∧ sz F p = 1 := by
  obtain ⟨h1, h2⟩ := hd.ascii' hp (by omega)
  rw [h1]; exact ⟨hb, h2⟩

/-- a literal whose interior is blank ends at its closing quote -/
theorem opq_LE_run (hd : OpqDec F) {c : Nat} (hc : c ≠ 120) (hc10 : c ≠ 10) : ∀ (n s p' : Nat),
    s + n = p' → p' < F.len → (∀ i, s ≤ i → i < p' → bAt F.inp i = 120 ∨ bAt F.inp i = 10) →
    rn F p' = c → sz F p' = 1 → ¬ (p' + 1 < F.len ∧ rn F (p' + 1) = c) →
    LE F c s = some (p' + 1) := by
  have h := hd.decOK
  intro n
  induction n with
  | zero =>
    intro s p' hs hp' _ hr hsz hn
    have : s = p' := by omega
    subst this
    rw [LE_close hp' hr (by rw [hsz]; exact hn), hsz]
  | succ n ih =>
    intro s p' hs hp' hall hr hsz hn
    have hlt : s < F.len := by omega
    obtain ⟨hr1, hs1⟩ := opq_blank_rune hd hlt (hall s (Nat.le_refl _) (by omega))
    rw [LE_skip h hlt (by omega), hs1]
    exact ih (s + 1) p' (by omega) hp' (fun i hi hie => hall i (by omega) hie) hr hsz hn

/-- a line comment whose interior is `x`s ends where the `x`s end -/
theorem opq_LCE_run (hd : OpqDec F) : ∀ (n s e : Nat), s + n = e → e ≤ F.len →
    (∀ i, s ≤ i → i < e → bAt F.inp i = 120) → (e = F.len ∨ bAt F.inp e = 10) → LCE F s = e := by
  have h := hd.decOK
  intro n
  induction n with
  | zero =>
    intro s e hs he _ hend
    have : s = e := by omega
    subst this
    by_cases hlen : s = F.len
    · rw [LCE_eof (by omega), hlen]
    · have hlt : s < F.len := by omega
      have hb : bAt F.inp s = 10 := by
        rcases hend with h1 | h1
        · exact absurd h1 hlen
        · exact h1
      obtain ⟨h1, _⟩ := hd.ascii' hlt (by omega)
      exact LCE_nl hlt (by rw [h1, hb])
  | succ n ih =>
    intro s e hs he hall hend
    have hlt : s < F.len := by omega
    obtain ⟨hr1, hs1⟩ := opq_blank_rune hd hlt (Or.inl (hall s (Nat.le_refl _) (by omega)))
    have hb := hall s (Nat.le_refl _) (by omega)
    obtain ⟨h1, _⟩ := hd.ascii' hlt (by omega)
    rw [LCE_skip h hlt (by rw [h1, hb]; omega), hs1]
    exact ih (s + 1) e (by omega) he (fun i hi hie => hall i (by omega) hie) hend

/-- a block comment whose interior is blank ends after its `*/` -/
theorem opq_BCE_run_close (hd : OpqDec F) : ∀ (n s p' : Nat), s + n = p' → p' + 1 < F.len →
    (∀ i, s ≤ i → i < p' → bAt F.inp i = 120 ∨ bAt F.inp i = 10) →
    bAt F.inp p' = 42 → bAt F.inp (p' + 1) = 47 → BCE F s = p' + 2 := by
  have h := hd.decOK
  intro n
  induction n with
  | zero =>
    intro s p' hs hp' _ h42 h47
    have : s = p' := by omega
    subst this
    obtain ⟨h1, h2⟩ := hd.ascii' (p := s) (by omega) (by omega)
    obtain ⟨h3, h4⟩ := hd.ascii' hp' (by omega)
    rw [BCE_close (by omega) (by rw [h1, h42]) (by rw [h2]; exact hp') (by rw [h2, h3, h47]), h2, h4]
  | succ n ih =>
    intro s p' hs hp' hall h42 h47
    have hlt : s < F.len := by omega
    obtain ⟨hr1, hs1⟩ := opq_blank_rune hd hlt (hall s (Nat.le_refl _) (by omega))
    rw [BCE_skip h hlt (by omega), hs1]
    exact ih (s + 1) p' (by omega) hp' (fun i hi hie => hall i (by omega) hie) h42 h47

/-- a block comment whose interior is blank up to the end of the input ends there -/
theorem opq_BCE_run_eof (hd : OpqDec F) : ∀ (n s : Nat), s + n = F.len →
    (∀ i, s ≤ i → i < F.len → bAt F.inp i = 120 ∨ bAt F.inp i = 10) → BCE F s = F.len := by
  have h := hd.decOK
  intro n
  induction n with
  | zero =>
    intro s hs _
    exact BCE_eof (by omega)
  | succ n ih =>
    intro s hs hall
    have hlt : s < F.len := by omega
    obtain ⟨hr1, hs1⟩ := opq_blank_rune hd hlt (hall s (Nat.le_refl _) hlt)
    rw [BCE_skip h hlt (by omega), hs1]
    exact ih (s + 1) (by omega) (fun i hi hie => hall i (by omega) hie)

end

/-! ### the bytes of the openers -/

section
variable {E : Env}

theorem opq_line_bytes (hd : OpqDec E) {p : Nat} (hl : LineOpen E p) :
    sz E p = 1 ∧ bAt E.inp p = 45 ∧ p + 1 < E.len ∧ sz E (p + 1) = 1 ∧ bAt E.inp (p + 1) = 45 := by
  obtain ⟨h1, h2, h3⟩ := hl
  obtain ⟨hs1, hb1⟩ := hd.small' (p := p) (by omega) (by omega)
  rw [hs1] at h2 h3
  obtain ⟨hs2, hb2⟩ := hd.small' h2 (by omega)
  exact ⟨hs1, by omega, h2, hs2, by omega⟩

theorem opq_block_bytes (hd : OpqDec E) {p : Nat} (hl : BlockOpen E p) :
    sz E p = 1 ∧ bAt E.inp p = 47 ∧ p + 1 < E.len ∧ sz E (p + 1) = 1 ∧ bAt E.inp (p + 1) = 42 := by
  obtain ⟨h1, h2, h3⟩ := hl
  obtain ⟨hs1, hb1⟩ := hd.small' (p := p) (by omega) (by omega)
  rw [hs1] at h2 h3
  obtain ⟨hs2, hb2⟩ := hd.small' h2 (by omega)
  exact ⟨hs1, by omega, h2, hs2, by omega⟩

theorem opq_line_of_bytes (hd : OpqDec E) {p : Nat} (h1 : p + 1 < E.len) (hb1 : bAt E.inp p = 45)
    (hb2 : bAt E.inp (p + 1) = 45) : LineOpen E p := by
  obtain ⟨hr1, hs1⟩ := hd.ascii' (p := p) (by omega) (by omega)
  obtain ⟨hr2, _⟩ := hd.ascii' h1 (by omega)
  refine ⟨by omega, ?_, ?_⟩
  · rw [hs1]; exact h1
  · rw [hs1]; omega

theorem opq_block_of_bytes (hd : OpqDec E) {p : Nat} (h1 : p + 1 < E.len) (hb1 : bAt E.inp p = 47)
    (hb2 : bAt E.inp (p + 1) = 42) : BlockOpen E p := by
  obtain ⟨hr1, hs1⟩ := hd.ascii' (p := p) (by omega) (by omega)
  obtain ⟨hr2, _⟩ := hd.ascii' h1 (by omega)
  refine ⟨by omega, ?_, ?_⟩
  · rw [hs1]; exact h1
  · rw [hs1]; omega

theorem opq_interior_comment_fst (inp : Bytes) {r : Region} (hk : r.kind = .comment) :
    (r.interior inp).1 = r.a + 2 := by
  unfold Region.interior; rw [hk]
  simp only []
  split
  · rfl
  · split <;> rfl

end

/-! ### decoding at a code offset -/

section
variable {E : Env} {regions : List Region}

/-- the byte in front of an interior is an ASCII byte (of the opener) -/
theorem opq_lo_ascii (hd : OpqDec E) (R : OpqRegs E regions) {r : Region} (hr : r ∈ regions) :
    1 ≤ (r.interior E.inp).1 ∧ bAt E.inp ((r.interior E.inp).1 - 1) < 128 := by
  obtain ⟨_, hla, _, hk⟩ := (R.mem r).mp hr
  rcases hk with ⟨hk, hq⟩ | ⟨hk, _, hl | hb⟩
  · rw [opq_interior_lit _ hk]
    simp only []
    obtain ⟨_, hb⟩ := hd.small' hla (by omega)
    rw [Nat.add_sub_cancel, hb]
    omega
  · rw [opq_interior_comment_fst _ hk]
    obtain ⟨_, _, _, _, h5⟩ := opq_line_bytes hd hl
    rw [show r.a + 2 - 1 = r.a + 1 by omega, h5]
    omega
  · rw [opq_interior_comment_fst _ hk]
    obtain ⟨_, _, _, _, h5⟩ := opq_block_bytes hd hb
    rw [show r.a + 2 - 1 = r.a + 1 by omega, h5]
    omega

/-- an interior is only entered after an ASCII byte -/
theorem opq_outside_succ (hd : OpqDec E) (R : OpqRegs E regions) {i : Nat}
    (hout : ¬ opqInside E.inp regions i) (hb : 128 ≤ bAt E.inp i) :
    ¬ opqInside E.inp regions (i + 1) := by
  rintro ⟨r, hr, hlo, hhi⟩
  obtain ⟨h1, h2⟩ := opq_lo_ascii hd R hr
  by_cases hle : (r.interior E.inp).1 ≤ i
  · exact hout ⟨r, hr, hle, by omega⟩
  · have : (r.interior E.inp).1 - 1 = i := by omega
    rw [this] at h2
    omega

/-- from an offset outside the interiors up to the first ASCII byte nothing is blanked -/
theorem opq_window_search (hd : OpqDec E) (R : OpqRegs E regions) : ∀ (n p : Nat),
    E.inp.size ≤ p + n → ¬ opqInside E.inp regions p →
    ∃ q, p ≤ q ∧ (E.inp.size ≤ q ∨ bAt E.inp q < 128) ∧
      ∀ i, p ≤ i → i ≤ q → bAt E.inp i = bAt (blankRegions E.inp regions) i := by
  intro n
  induction n with
  | zero =>
    intro p hn hout
    refine ⟨p, Nat.le_refl _, Or.inl (by omega), fun i hi hiq => ?_⟩
    have : i = p := by omega
    subst this
    exact (opq_bAt_out _ _ _ hout).symm
  | succ n ih =>
    intro p hn hout
    by_cases hb : bAt E.inp p < 128
    · refine ⟨p, Nat.le_refl _, Or.inr hb, fun i hi hiq => ?_⟩
      have : i = p := by omega
      subst this
      exact (opq_bAt_out _ _ _ hout).symm
    · obtain ⟨q, hq, hend, hall⟩ := ih (p + 1) (by omega) (opq_outside_succ hd R hout (by omega))
      refine ⟨q, by omega, hend, fun i hi hiq => ?_⟩
      by_cases hip : i = p
      · subst hip
        exact (opq_bAt_out _ _ _ hout).symm
      · exact hall i (by omega) hiq

/-- at a code offset the two inputs decode alike -/
theorem opq_dec_eq (hd : OpqDec E) (R : OpqRegs E regions) {p : Nat} (hc : LexCode E p) :
    E.dec (blankRegions E.inp regions) p = E.dec E.inp p := by
  obtain ⟨q, hq, hend, hall⟩ := opq_window_search hd R E.inp.size p (by omega) (R.code_outside hc)
  exact (hd.window E.inp (blankRegions E.inp regions) p q (opq_blank_size _ _).symm hq hall hend).symm

end

/-! ### the three kinds of region steps, with their interiors -/

section
variable {E : Env} {regions : List Region}

theorem opq_region_ext {r r' : Region} (ha : r.a = r'.a) (hb : r.b = r'.b) (hk : r.kind = r'.kind) :
    r = r' := by
  cases r; cases r'
  simp only [] at ha hb hk
  subst ha hb hk
  rfl

/-- inside the step that is the region `r0`, the blanked offsets are the interior of `r0` -/
theorem OpqRegs.inside_iff (R : OpqRegs E regions) {r0 : Region} (hr0 : r0 ∈ regions) {i : Nat}
    (hi : r0.a ≤ i) (hie : i < r0.b) :
    opqInside E.inp regions i ↔ (r0.interior E.inp).1 ≤ i ∧ i < (r0.interior E.inp).2 := by
  obtain ⟨hca, hla, hna, hka⟩ := (R.mem r0).mp hr0
  constructor
  · rintro ⟨r, hr, hlo, hhi⟩
    obtain ⟨ha, hb, hk⟩ := R.inside_step hca hla hna hi hie hr hlo hhi
    have : r = r0 := opq_region_ext ha hb (opq_kind_unique ha hk hka)
    subst this
    exact ⟨hlo, hhi⟩
  · rintro ⟨hlo, hhi⟩
    exact ⟨r0, hr0, hlo, hhi⟩

/-- a literal step -/
theorem opq_lit_step (hd : OpqDec E) (R : OpqRegs E regions) {p : Nat} (hc : LexCode E p)
    (hlt : p < E.len) (hq : rn E p = 34 ∨ rn E p = 39) :
    ∃ e, lexNext E p = some e ∧ sz E p = 1 ∧ p + 2 ≤ e ∧ e ≤ E.len ∧
      bAt E.inp (e - 1) = rn E p ∧ ¬ (e < E.len ∧ rn E e = rn E p) ∧
      ∀ i, p ≤ i → i < e → (opqInside E.inp regions i ↔ p + 1 ≤ i ∧ i < e - 1) := by
  obtain ⟨e, he⟩ := R.total p hc hlt
  obtain ⟨hs1, _⟩ := hd.small' hlt (by omega)
  have hle := he
  rw [lexNext_lit R.dec hlt hq, hs1] at hle
  obtain ⟨h1, h2, h3⟩ := opq_litEnd_shape hd (c := rn E p) (by omega) _ _ _ hle
  have hbd := LE_bounds R.dec hle
  have hr0 : (⟨.lit, p, e⟩ : Region) ∈ regions := (R.mem _).mpr ⟨hc, hlt, he, Or.inl ⟨rfl, hq⟩⟩
  refine ⟨e, he, hs1, by omega, hbd.2, h2, h3, fun i hi hie => ?_⟩
  rw [R.inside_iff hr0 hi hie, opq_interior_lit _ rfl]

/-- a line comment step -/
theorem opq_line_step (hd : OpqDec E) (R : OpqRegs E regions) {p : Nat} (hc : LexCode E p)
    (hl : LineOpen E p) :
    ∃ e, lexNext E p = some e ∧ p + 2 ≤ e ∧ e ≤ E.len ∧
      (∀ i, p + 2 ≤ i → i < e → bAt E.inp i ≠ 10) ∧ (e = E.len ∨ bAt E.inp e = 10) ∧
      ∀ i, p ≤ i → i < e → (opqInside E.inp regions i ↔ p + 2 ≤ i) := by
  obtain ⟨hs1, hb1, hp1, hs2, hb2⟩ := opq_line_bytes hd hl
  have hlt : p < E.len := by omega
  have he := lexNext_line R.dec hlt hl.1 hl.2.1 hl.2.2
  rw [hs1, hs2] at he
  have hbd := LCE_bounds R.dec (p := p + 1 + 1) (by omega)
  obtain ⟨h1, h2⟩ := opq_lineCommentEnd_shape R.dec (E.len + 1) (p + 1 + 1) (by omega) (by omega)
  have hnq : ¬ (rn E p = 34 ∨ rn E p = 39) := by have := hl.1; omega
  have hr0 : (⟨.comment, p, LCE E (p + 1 + 1)⟩ : Region) ∈ regions :=
    (R.mem _).mpr ⟨hc, hlt, he, Or.inr ⟨rfl, hnq, Or.inl hl⟩⟩
  refine ⟨_, he, hbd.1, hbd.2, h1, h2, fun i hi hie => ?_⟩
  rw [R.inside_iff hr0 hi hie, opq_interior_line _ rfl hb1]
  simp only []
  constructor
  · intro h; exact h.1
  · intro h; exact ⟨h, hie⟩

/-- a block comment step: the interior ends at the closing `*/` or at the end of the input -/
theorem opq_block_step (hd : OpqDec E) (R : OpqRegs E regions) {p : Nat} (hc : LexCode E p)
    (hb : BlockOpen E p) :
    ∃ e hi, lexNext E p = some e ∧ p + 2 ≤ e ∧ e ≤ E.len ∧ p + 2 ≤ hi ∧
      (∀ i, p ≤ i → i < e → (opqInside E.inp regions i ↔ p + 2 ≤ i ∧ i < hi)) ∧
      ((hi = e ∧ e = E.len) ∨ (hi + 2 = e ∧ bAt E.inp hi = 42 ∧ bAt E.inp (hi + 1) = 47)) := by
  obtain ⟨hs1, hb1, hp1, hs2, hb2⟩ := opq_block_bytes hd hb
  have hlt : p < E.len := by omega
  have he := lexNext_block R.dec hlt hb.1 hb.2.1 hb.2.2
  rw [hs1, hs2] at he
  have hbd := BCE_bounds R.dec (p := p + 1 + 1) (by omega)
  have hsh : BCE E (p + 1 + 1) = E.len ∨ (p + 1 + 1 + 2 ≤ BCE E (p + 1 + 1) ∧
      bAt E.inp (BCE E (p + 1 + 1) - 2) = 42 ∧ bAt E.inp (BCE E (p + 1 + 1) - 1) = 47) :=
    opq_blockCommentEnd_shape hd (E.len + 1) (p + 1 + 1) (by omega) (by omega)
  have hnq : ¬ (rn E p = 34 ∨ rn E p = 39) := by have := hb.1; omega
  have hr0 : (⟨.comment, p, BCE E (p + 1 + 1)⟩ : Region) ∈ regions :=
    (R.mem _).mpr ⟨hc, hlt, he, Or.inr ⟨rfl, hnq, Or.inr hb⟩⟩
  generalize BCE E (p + 1 + 1) = e at he hbd hsh hr0
  have h45 : bAt E.inp p ≠ 45 := by omega
  by_cases hcond : p + 4 ≤ e ∧ bAt E.inp (e - 2) = 42 ∧ bAt E.inp (e - 1) = 47
  · refine ⟨e, e - 2, he, hbd.1, hbd.2, by omega, fun i hi hie => ?_, Or.inr ⟨by omega, hcond.2.1, ?_⟩⟩
    · rw [R.inside_iff hr0 hi hie,
        opq_interior_block_closed E.inp (r := ⟨.comment, p, e⟩) rfl h45 hcond.1 hcond.2.1 hcond.2.2]
    · rw [show e - 2 + 1 = e - 1 by omega]; exact hcond.2.2
  · have hlen : e = E.len := by
      rcases hsh with h | ⟨h1, h2, h3⟩
      · exact h
      · exact absurd ⟨by omega, h2, h3⟩ hcond
    refine ⟨e, e, he, hbd.1, hbd.2, hbd.1, fun i hi hie => ?_, Or.inl ⟨rfl, hlen⟩⟩
    rw [R.inside_iff hr0 hi hie, opq_interior_block_open E.inp (r := ⟨.comment, p, e⟩) rfl h45 hcond]

end

/-! ### the lexer on the blanked input -/

/-- the environment with the blanked input -/
abbrev opqBl (E : Env) (rs : List Region) : Env := opqEnv E (blankRegions E.inp rs)

section
variable {E : Env} {regions : List Region}

theorem opq_bl_len : (opqBl E regions).len = E.len := opq_blank_size _ _

theorem opq_bl_rn (hd : OpqDec E) (R : OpqRegs E regions) {p : Nat} (hc : LexCode E p) :
    rn (opqBl E regions) p = rn E p := congrArg Prod.fst (opq_dec_eq hd R hc)

theorem opq_bl_sz (hd : OpqDec E) (R : OpqRegs E regions) {p : Nat} (hc : LexCode E p) :
    sz (opqBl E regions) p = sz E p := congrArg Prod.snd (opq_dec_eq hd R hc)

/-- a byte of the blanked input other than `x` is the byte of the input -/
theorem opq_bl_byte_of_ne {i : Nat} (h : bAt (blankRegions E.inp regions) i ≠ 120) :
    bAt E.inp i = bAt (blankRegions E.inp regions) i := by
  rcases opq_bAt_cases E.inp regions i with h1 | ⟨h1, _⟩
  · exact h1.symm
  · exact absurd h1 h

theorem opq_bl_lineOpen (hd : OpqDec E) (R : OpqRegs E regions) {p : Nat} (hc : LexCode E p) :
    LineOpen (opqBl E regions) p ↔ LineOpen E p := by
  have hd' : OpqDec (opqBl E regions) := hd.env (blankRegions E.inp regions)
  constructor
  · intro hl
    obtain ⟨_, hb1, hp1, _, hb2⟩ := opq_line_bytes hd' hl
    have hb1 : bAt (blankRegions E.inp regions) p = 45 := hb1
    have hb2 : bAt (blankRegions E.inp regions) (p + 1) = 45 := hb2
    rw [opq_bl_len] at hp1
    have h1 := opq_bl_byte_of_ne (E := E) (regions := regions) (i := p) (by omega)
    have h2 := opq_bl_byte_of_ne (E := E) (regions := regions) (i := p + 1) (by omega)
    exact opq_line_of_bytes hd hp1 (by omega) (by omega)
  · intro hl
    obtain ⟨_, hb1, hp1, _, hb2⟩ := opq_line_bytes hd hl
    obtain ⟨e, _, h2e, _, _, _, hin⟩ := opq_line_step hd R hc hl
    have h1 := opq_bAt_out E.inp regions p
      (fun h => by have := (hin p (by omega) (by omega)).mp h; omega)
    have h2 := opq_bAt_out E.inp regions (p + 1)
      (fun h => by have := (hin (p + 1) (by omega) (by omega)).mp h; omega)
    refine opq_line_of_bytes hd' (by rw [opq_bl_len]; exact hp1) ?_ ?_
    · show bAt (blankRegions E.inp regions) p = 45
      omega
    · show bAt (blankRegions E.inp regions) (p + 1) = 45
      omega

theorem opq_bl_blockOpen (hd : OpqDec E) (R : OpqRegs E regions) {p : Nat} (hc : LexCode E p) :
    BlockOpen (opqBl E regions) p ↔ BlockOpen E p := by
  have hd' : OpqDec (opqBl E regions) := hd.env (blankRegions E.inp regions)
  constructor
  · intro hl
    obtain ⟨_, hb1, hp1, _, hb2⟩ := opq_block_bytes hd' hl
    have hb1 : bAt (blankRegions E.inp regions) p = 47 := hb1
    have hb2 : bAt (blankRegions E.inp regions) (p + 1) = 42 := hb2
    rw [opq_bl_len] at hp1
    have h1 := opq_bl_byte_of_ne (E := E) (regions := regions) (i := p) (by omega)
    have h2 := opq_bl_byte_of_ne (E := E) (regions := regions) (i := p + 1) (by omega)
    exact opq_block_of_bytes hd hp1 (by omega) (by omega)
  · intro hl
    obtain ⟨_, hb1, hp1, _, hb2⟩ := opq_block_bytes hd hl
    obtain ⟨e, hi, _, h2e, _, _, hin, _⟩ := opq_block_step hd R hc hl
    have h1 := opq_bAt_out E.inp regions p
      (fun h => by have := (hin p (by omega) (by omega)).mp h; omega)
    have h2 := opq_bAt_out E.inp regions (p + 1)
      (fun h => by have := (hin (p + 1) (by omega) (by omega)).mp h; omega)
    refine opq_block_of_bytes hd' (by rw [opq_bl_len]; exact hp1) ?_ ?_
    · show bAt (blankRegions E.inp regions) p = 47
      omega
    · show bAt (blankRegions E.inp regions) (p + 1) = 42
      omega

theorem opq_bl_next_lit (hd : OpqDec E) (R : OpqRegs E regions) {p : Nat} (hc : LexCode E p)
    (hlt : p < E.len) (hq : rn E p = 34 ∨ rn E p = 39) :
    lexNext (opqBl E regions) p = lexNext E p := by
  have hd' : OpqDec (opqBl E regions) := hd.env (blankRegions E.inp regions)
  obtain ⟨e, he, hs1, h2e, hele, hbe, hnd, hin⟩ := opq_lit_step hd R hc hlt hq
  have hq' : rn (opqBl E regions) p = 34 ∨ rn (opqBl E regions) p = 39 := by
    rw [opq_bl_rn hd R hc]; exact hq
  rw [he, lexNext_lit hd'.decOK (by rw [opq_bl_len]; exact hlt) hq', opq_bl_rn hd R hc,
    opq_bl_sz hd R hc, hs1]
  have hbyte : bAt (opqBl E regions).inp (e - 1) = rn E p := by
    show bAt (blankRegions E.inp regions) (e - 1) = rn E p
    rw [opq_bAt_out E.inp regions (e - 1)
      (fun h => by have := (hin (e - 1) (by omega) (by omega)).mp h; omega)]
    exact hbe
  obtain ⟨hr1, hs1'⟩ := hd'.ascii' (p := e - 1) (by rw [opq_bl_len]; omega) (by omega)
  have := opq_LE_run hd' (c := rn E p) (by omega) (by omega) (e - 1 - (p + 1)) (p + 1) (e - 1)
    (by omega) (by rw [opq_bl_len]; omega)
    (fun i hi hie => opq_bAt_in' E.inp regions i (by have : E.inp.size = E.len := rfl; omega)
      ((hin i (by omega) (by omega)).mpr ⟨hi, hie⟩))
    (by rw [hr1, hbyte]) hs1'
    (by
      rw [show e - 1 + 1 = e by omega, opq_bl_len]
      rintro ⟨h1, h2⟩
      rw [opq_bl_rn hd R (hc.next hlt he)] at h2
      exact hnd ⟨h1, h2⟩)
  rw [this, show e - 1 + 1 = e by omega]

theorem opq_bl_next_line (hd : OpqDec E) (R : OpqRegs E regions) {p : Nat} (hc : LexCode E p)
    (hl : LineOpen E p) : lexNext (opqBl E regions) p = lexNext E p := by
  have hd' : OpqDec (opqBl E regions) := hd.env (blankRegions E.inp regions)
  obtain ⟨e, he, h2e, hele, hnl, hend, hin⟩ := opq_line_step hd R hc hl
  have hl' := (opq_bl_lineOpen hd R hc).mpr hl
  obtain ⟨hs1, _, hp1, hs2, _⟩ := opq_line_bytes hd' hl'
  rw [he, lexNext_line hd'.decOK (by omega) hl'.1 hl'.2.1 hl'.2.2, hs1, hs2]
  have := opq_LCE_run hd' (e - (p + 1 + 1)) (p + 1 + 1) e (by omega) (by rw [opq_bl_len]; exact hele)
    (fun i hi hie => opq_bAt_in E.inp regions i (by have : E.inp.size = E.len := rfl; omega)
      ((hin i (by omega) hie).mpr (by omega)) (hnl i (by omega) hie))
    (by
      rcases hend with h | h
      · left; rw [opq_bl_len]; exact h
      · right; exact (opq_bAt_nl_iff E.inp regions e).mpr h)
  rw [this]

theorem opq_bl_next_block (hd : OpqDec E) (R : OpqRegs E regions) {p : Nat} (hc : LexCode E p)
    (hb : BlockOpen E p) : lexNext (opqBl E regions) p = lexNext E p := by
  have hd' : OpqDec (opqBl E regions) := hd.env (blankRegions E.inp regions)
  obtain ⟨e, hi, he, h2e, hele, h2hi, hin, hcase⟩ := opq_block_step hd R hc hb
  have hb' := (opq_bl_blockOpen hd R hc).mpr hb
  obtain ⟨hs1, _, hp1, hs2, _⟩ := opq_block_bytes hd' hb'
  rw [he, lexNext_block hd'.decOK (by omega) hb'.1 hb'.2.1 hb'.2.2, hs1, hs2]
  have hsize : E.inp.size = E.len := rfl
  rcases hcase with ⟨h1, h2⟩ | ⟨h1, h2, h3⟩
  · have := opq_BCE_run_eof hd' ((opqBl E regions).len - (p + 1 + 1)) (p + 1 + 1)
      (by rw [opq_bl_len]; omega)
      (fun i hi' hie => by
        rw [opq_bl_len] at hie
        exact opq_bAt_in' E.inp regions i (by omega) ((hin i (by omega) (by omega)).mpr (by omega)))
    rw [this, opq_bl_len, h2]
  · have hb1 : bAt (opqBl E regions).inp hi = 42 := by
      show bAt (blankRegions E.inp regions) hi = 42
      rw [opq_bAt_out E.inp regions hi
        (fun h => by have := (hin hi (by omega) (by omega)).mp h; omega)]
      exact h2
    have hb2 : bAt (opqBl E regions).inp (hi + 1) = 47 := by
      show bAt (blankRegions E.inp regions) (hi + 1) = 47
      rw [opq_bAt_out E.inp regions (hi + 1)
        (fun h => by have := (hin (hi + 1) (by omega) (by omega)).mp h; omega)]
      exact h3
    have := opq_BCE_run_close hd' (hi - (p + 1 + 1)) (p + 1 + 1) hi (by omega)
      (by rw [opq_bl_len]; omega)
      (fun i hi' hie => opq_bAt_in' E.inp regions i (by omega)
        ((hin i (by omega) (by omega)).mpr (by omega)))
      hb1 hb2
    rw [this, h1]

theorem opq_bl_next (hd : OpqDec E) (R : OpqRegs E regions) {p : Nat} (hc : LexCode E p)
    (hlt : p < E.len) : lexNext (opqBl E regions) p = lexNext E p := by
  have hd' : OpqDec (opqBl E regions) := hd.env (blankRegions E.inp regions)
  by_cases hq : rn E p = 34 ∨ rn E p = 39
  · exact opq_bl_next_lit hd R hc hlt hq
  by_cases hl : LineOpen E p
  · exact opq_bl_next_line hd R hc hl
  by_cases hb : BlockOpen E p
  · exact opq_bl_next_block hd R hc hb
  · have hl' : ¬ LineOpen (opqBl E regions) p := fun h => hl ((opq_bl_lineOpen hd R hc).mp h)
    have hb' : ¬ BlockOpen (opqBl E regions) p := fun h => hb ((opq_bl_blockOpen hd R hc).mp h)
    have hr := opq_bl_rn hd R hc
    rw [lexNext_plain R.dec hlt (by omega) (by omega) hl hb,
      lexNext_plain hd'.decOK (by rw [opq_bl_len]; exact hlt) (by omega) (by omega) hl' hb',
      opq_bl_sz hd R hc]

end

/-! ### the blanked input satisfies the interface of the relational pass -/

/-- The input with the interiors of all literals and comments blanked has the same length
    and the same newlines as the input, and at every code offset of the reference lexer the
    two inputs have the same byte, decode alike, open the same kind of comment, and the lexer
    makes the same step. -/
theorem opq_blank_env (E : Env) (hd : OpqDec E) (hc : ClassAscii E) (regions : List Region)
    (hr : lexRegions E = .ok regions) : OpqEnv E (blankRegions E.inp regions) := by
  have R := opq_regs hd.decOK hr
  have hnl := opq_bAt_nl_iff E.inp regions
  have hsize := opq_blank_size E.inp regions
  exact {
    decE := hd.decOK
    asciiE := hd.asciiDec
    cls := hc
    size := hsize
    decOK := hd.ok _
    lineCol := opq_lineColOf_eq hsize hnl
    hasNl := opq_hasNewline_eq hsize hnl
    byte := fun p hp => by
      have h := opq_bAt_out E.inp regions p (R.code_outside hp)
      unfold bAt at h
      exact UInt8.toNat_inj.mp h
    dec := fun p hp _ => opq_dec_eq hd R hp
    lineOpen := fun p hp _ => opq_bl_lineOpen hd R hp
    blockOpen := fun p hp _ => opq_bl_blockOpen hd R hp
    next := fun p hp hlt => opq_bl_next hd R hp hlt }

end Sqlair
