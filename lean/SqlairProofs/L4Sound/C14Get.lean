/-
  L4Sound, C14 on Get / GetAll: a driver failure while fetching a row the call reaches is
  reported — neither success nor ErrNoRows.
-/
import SqlairProofs.L4Sound.Diffs

namespace Sqlair.Rt

theorem l4s_cleanStart {c : Case} (h : c.cleanStart = true) :
    l4s_queryErr c = none ∧ c.l4s_td = false ∧ (c.script false).openErr = none := by
  unfold Case.cleanStart at h
  simp only [Bool.and_eq_true, Bool.not_eq_true', Bool.and_eq_false_iff, bne_eq_false_iff_eq] at h
  obtain ⟨⟨⟨⟨h1, h2⟩, h3⟩, h6⟩, _⟩ := h
  have hne : c.l4s_isEarly = false := by
    unfold Case.l4s_isEarly
    rcases h6 with h6 | h6
    · simp [h6]
    · simp [h6]
  refine ⟨?_, l4s_td_of_not_early hne, ?_⟩
  · unfold l4s_queryErr
    rcases h6 with h6 | h6 <;> simp [h6]
  · simp [Script.openErr, Case.script, h1, h2, h3]

theorem l4s_rows_scanOK {c : Case} (h : c.badRow = none) : ∀ r ∈ l4s_rows c, r.scanOK = true := by
  intro r hr
  unfold l4s_rows at hr
  obtain ⟨i, _, rfl⟩ := List.mem_map.1 hr
  simp [h]

/-- the result is an error other than ErrNoRows -/
def l4s_reported (r : String) : Bool := r != "" && r != "noRows"

theorem l4s_inj3_reported : l4s_reported (renderOpt (some (.inj 3))) = true := by
  unfold l4s_reported
  simp only [Bool.and_eq_true, bne_iff_ne, ne_eq, l4s_renderOpt_some]
  exact ⟨l4s_render_ne_empty _, fun h => by have := l4s_render_eq_noRows.1 h; cases this⟩

theorem l4s_holdsC14_get (win : String) {c : Case} (hop : c.op = "get") :
    holdsC14 c (predObsW win c (l4s_predictSingle c)) = true := by
  unfold holdsC14
  simp only [hop, beq_self_eq_true, Bool.true_or, if_true, Bool.or_eq_true, Bool.not_eq_true']
  by_cases hcond : (c.hasOutputs && c.cleanStart && !c.closeErr && c.badRow.isNone && !c.fewCols && c.extraSets == 0 &&
      ("get" == "getall" || c.fetchErrAt == some 0) && c.fetchErrAt.isSome && true) = true
  · right
    simp only [Bool.and_eq_true, Bool.not_eq_true', Bool.or_eq_true, beq_iff_eq, Bool.and_true] at hcond
    obtain ⟨⟨⟨⟨⟨⟨⟨ho, hcs⟩, hce⟩, hbr⟩, hfc⟩, _⟩, hfe⟩, _⟩ := hcond
    have hfe0 : c.fetchErrAt = some 0 := by
      rcases hfe with h | h
      · exact absurd h (by decide)
      · exact h
    obtain ⟨hq, htd, hoe⟩ := l4s_cleanStart hcs
    have hfetch : c.fetch = [.error (.inj 3)] := by rw [l4s_fetch_eq, hfe0]; simp
    have hret : (predObsW win c (l4s_predictSingle c)).returns.headD "" = renderOpt (some (.inj 3)) := by
      show (l4s_m c).1.returns.headD "" = _
      unfold l4s_m
      rw [l4s_mid_get hq hop, htd]
      show renderOpt (queryGet _ _ _).1.err = _
      have hops : (c.script false).opensRows = true := by
        simp [Script.opensRows, Script.runsOK, hoe]; exact ho
      rw [(get_fetch_error_reported (c.script false) _ _ (.inj 3) [] hops hfetch).1]
    rw [hret]
    exact l4s_inj3_reported
  · left
    simpa using hcond

theorem l4s_getAllArgs_valid {c : Case} (h : c.dests.startsWith "valid" = true) : l4s_getAllArgs c = [.ok] := by
  have hne : ∀ lit : String, lit.startsWith "valid" = false → c.dests ≠ lit := by
    intro lit hl heq; rw [heq, hl] at h; cases h
  unfold l4s_getAllArgs
  simp [hne "none" (by decide +kernel), hne "nonptr" (by decide +kernel), hne "nilptr" (by decide +kernel),
    hne "ptrnonslice" (by decide +kernel), hne "sliceint" (by decide +kernel), hne "sliceptrint" (by decide +kernel)]

theorem l4s_holdsC14_getall (win : String) {c : Case} (hop : c.op = "getall") :
    holdsC14 c (predObsW win c (l4s_predictSingle c)) = true := by
  unfold holdsC14
  simp only [hop, beq_self_eq_true, Bool.or_true, if_true, Bool.or_eq_true, Bool.not_eq_true']
  by_cases hcond : (c.hasOutputs && c.cleanStart && !c.closeErr && c.badRow.isNone && !c.fewCols && c.extraSets == 0 &&
      true && c.fetchErrAt.isSome && ("getall" == "get" || c.dests.startsWith "valid")) = true
  · right
    simp only [Bool.and_eq_true, Bool.not_eq_true', Bool.or_eq_true, beq_iff_eq, Bool.and_true,
      Option.isNone_iff_eq_none] at hcond
    obtain ⟨⟨⟨⟨⟨⟨⟨ho, hcs⟩, hce⟩, hbr⟩, hfc⟩, _⟩, hfe⟩, hdv⟩ := hcond
    have hdv' : c.dests.startsWith "valid" = true := by
      rcases hdv with h | h
      · exact absurd h (by decide)
      · exact h
    obtain ⟨k, hk⟩ := Option.isSome_iff_exists.1 hfe
    obtain ⟨hq, htd, hoe⟩ := l4s_cleanStart hcs
    have hfetch : (c.script false).fetch = ((l4s_rows c).take k).map .ok ++ .error (.inj 3) :: [] := by
      show c.fetch = _
      rw [l4s_fetch_eq, hk]
    have hret : (predObsW win c (l4s_predictSingle c)).returns.headD "" = renderOpt (some (.inj 3)) := by
      show (l4s_m c).1.returns.headD "" = _
      unfold l4s_m
      rw [l4s_mid_getall hq hop, htd]
      show renderOpt (queryGetAllArgs _ _ _ _).1.err = _
      have hops : (c.script false).opensRows = true := by
        simp [Script.opensRows, Script.runsOK, hoe]; exact ho
      rw [l4s_queryGetAllArgs_fst, l4s_getAllArgs_valid hdv']
      have hspec : l4s_getAllArgsSpec (c.script false) [.ok] (c.dests.startsWith "valid" && !c.fewCols) =
          getAllSpec (c.script false) 1 (c.dests.startsWith "valid" && !c.fewCols) := by
        have ho' : (c.script false).hasOutputs = true := ho
        simp [l4s_getAllArgsSpec, ho', SliceArg.rejectedUpFront]
      rw [hspec, ← queryGetAll_fst _ _ _ {}]
      rw [getAll_fetch_error_reported (c.script false) 1 _ {} ((l4s_rows c).take k) (.inj 3) [] hops hfetch
        (fun r hr => l4s_rows_scanOK hbr r (List.mem_of_mem_take hr)) (fun _ => by simp [hdv', hfc])]
    rw [hret]
    exact l4s_inj3_reported
  · left
    simpa using hcond

theorem l4s_holdsC14_other {c : Case} (o : Obs) (h1 : c.op ≠ "get") (h2 : c.op ≠ "getall") (h3 : c.op ≠ "iter") :
    holdsC14 c o = true := by
  unfold holdsC14
  simp [h1, h2, h3]

end Sqlair.Rt
