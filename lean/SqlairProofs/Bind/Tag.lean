import SqlairModel.Bind
import SqlairProofs.Utf8
/-
  Bind/Tag: structural facts about `bindTypes`.

  Task B (for C07): insert columns never get slice locators
    (`bindTypes_insert_locs`; invariant forms `bindSeg_noSliceInsert`,
     `bindSegs_noSliceInsert`, `bindTypes_noSliceInsert`).
  Task A (C05 no. 11): no generated output column is a wildcard
    (`parseTag_ok_cases`, `parseTag_ok_runes`, `parseTag_ok_noStarEnd`, `parseTag_ok_ne_star`,
     `generateArgInfo_validTags(End)`, `bindSeg_output`, `no_star_generated`,
     `bindSeg_no_wildcard`, `explicit_star_only_generating`, `bindTypes_no_wildcard`).
-/

namespace Sqlair

/-! ## Task B: insert columns never get slice locators -/

def Loc.isSlice : Loc → Bool
  | .slice _ _ => true
  | _ => false

def Loc.nonSlice (l : Loc) : Prop := l.isSlice = false

theorem Loc.nonSlice_iff (l : Loc) : l.nonSlice ↔ ∀ t n, l ≠ Loc.slice t n := by
  cases l <;> simp [Loc.nonSlice, Loc.isSlice]

def TColsNoSlice (cols : List TCol) : Prop :=
  ∀ loc column e, TCol.insert loc column e ∈ cols → loc.nonSlice

def TExprsNoSliceInsert (es : List TExpr) : Prop :=
  ∀ cols, TExpr.insert cols ∈ es → TColsNoSlice cols

theorem getArg_ok {st st' : TEB} {n : Bytes} {a : ArgInfo} (h : getArg st n = .ok (a, st')) :
    st'.exprs = st.exprs ∧ st'.argInfos = st.argInfos ∧ st'.outputUsed = st.outputUsed ∧
      ∃ k, (k, a) ∈ st.argInfos := by
  unfold getArg at h
  split at h
  · cases h
  · rename_i k a' hf
    cases h
    exact ⟨rfl, rfl, rfl, k, List.mem_of_find?_eq_some hf⟩

theorem getMember_nonSlice {a : ArgInfo} {m : Bytes} {l : Loc} (h : a.getMember m = .ok l) :
    l.nonSlice := by
  unfold ArgInfo.getMember at h
  split at h
  · split at h
    · cases h; rfl
    · cases h
  · cases h; rfl
  · cases h

theorem getAll_nonSlice {a : ArgInfo} {ms : List (Loc × Bytes)} (h : a.getAll = .ok ms) :
    ∀ p ∈ ms, p.1.nonSlice := by
  unfold ArgInfo.getAll at h
  split at h
  · split at h
    · cases h
    · cases h
      intro p hp
      simp only [List.mem_filterMap, Option.map_eq_some_iff] at hp
      obtain ⟨t, _, f, _, rfl⟩ := hp
      rfl
  · cases h
  · cases h

theorem inputMember_ok {st st' : TEB} {ty m : Bytes} {l : Loc}
    (h : inputMember st ty m = .ok (l, st')) :
    l.nonSlice ∧ st'.exprs = st.exprs ∧ st'.argInfos = st.argInfos := by
  unfold inputMember at h
  split at h
  · cases h
  · rename_i a st1 hg
    split at h
    · cases h
    · rename_i l' hm
      cases h
      have := getArg_ok hg
      exact ⟨getMember_nonSlice hm, this.1, this.2.1⟩

theorem allStructInputs_ok {st st' : TEB} {ty : Bytes} {ms : List (Loc × Bytes)}
    (h : allStructInputs st ty = .ok (ms, st')) :
    (∀ p ∈ ms, p.1.nonSlice) ∧ st'.exprs = st.exprs ∧ st'.argInfos = st.argInfos := by
  unfold allStructInputs at h
  split at h
  · cases h
  · rename_i a st1 hg
    split at h
    · cases h
    · rename_i l' hm
      cases h
      have := getArg_ok hg
      exact ⟨getAll_nonSlice hm, this.1, this.2.1⟩

theorem TColsNoSlice.nil : TColsNoSlice [] := by
  intro _ _ _ h; cases h

theorem TColsNoSlice.append {a b : List TCol} (ha : TColsNoSlice a) (hb : TColsNoSlice b) :
    TColsNoSlice (a ++ b) := by
  intro loc column e h
  rcases List.mem_append.1 h with h | h
  · exact ha _ _ _ h
  · exact hb _ _ _ h

theorem TColsNoSlice.single_insert {l : Loc} {c : Bytes} {e : Bool} (h : l.nonSlice) :
    TColsNoSlice [TCol.insert l c e] := by
  intro loc column e' hm
  simp only [List.mem_singleton, TCol.insert.injEq] at hm
  obtain ⟨rfl, _, _⟩ := hm
  exact h

theorem TColsNoSlice.single_literal {c t : Bytes} : TColsNoSlice [TCol.literal c t] := by
  intro loc column e' hm
  simp at hm

theorem astInsertCols_ok : ∀ (srcs : List Acc) (st st' : TEB) (cols cols' : List TCol),
    astInsertCols st srcs cols = .ok (cols', st') → TColsNoSlice cols →
    TColsNoSlice cols' ∧ st'.exprs = st.exprs ∧ st'.argInfos = st.argInfos := by
  intro srcs
  induction srcs with
  | nil =>
    intro st st' cols cols' h hc
    simp only [astInsertCols] at h
    cases h; exact ⟨hc, rfl, rfl⟩
  | cons src rest ih =>
    intro st st' cols cols' h hc
    simp only [astInsertCols] at h
    split at h
    · split at h
      · cases h
      · rename_i ms st1 ha
        have h1 := allStructInputs_ok ha
        have := ih _ _ _ _ h (hc.append (by
          intro loc column e hm
          simp only [List.mem_map] at hm
          obtain ⟨p, hp, hpe⟩ := hm
          cases hpe
          exact h1.1 p hp))
        exact ⟨this.1, this.2.1.trans h1.2.1, this.2.2.trans h1.2.2⟩
    · split at h
      · cases h
      · rename_i l st1 ha
        have h1 := inputMember_ok ha
        have := ih _ _ _ _ h (hc.append (.single_insert h1.1))
        exact ⟨this.1, this.2.1.trans h1.2.1, this.2.2.trans h1.2.2⟩

/-- provider-table invariant: every locator in the table is non-slice -/
def ProvNoSlice (m : List (Bytes × List Loc)) : Prop :=
  ∀ p ∈ m, ∀ l ∈ p.2, l.nonSlice

theorem provAssign_ok {m : List (Bytes × List Loc)} {k : Bytes} {l : Loc}
    (hm : ProvNoSlice m) (hl : l.nonSlice) : ProvNoSlice (provAssign m k l) := by
  unfold provAssign
  split
  · intro p hp l' hl'
    simp only [List.mem_map] at hp
    obtain ⟨q, hq, rfl⟩ := hp
    split at hl'
    · simp only [List.mem_singleton] at hl'; subst hl'; exact hl
    · exact hm q hq l' hl'
  · intro p hp l' hl'
    rcases List.mem_append.1 hp with hp | hp
    · exact hm p hp l' hl'
    · simp only [List.mem_singleton] at hp; subst hp
      simp only [List.mem_singleton] at hl'; subst hl'; exact hl

theorem provAppend_ok {m : List (Bytes × List Loc)} {k : Bytes} {l : Loc}
    (hm : ProvNoSlice m) (hl : l.nonSlice) : ProvNoSlice (provAppend m k l) := by
  unfold provAppend
  split
  · intro p hp l' hl'
    simp only [List.mem_map] at hp
    obtain ⟨q, hq, rfl⟩ := hp
    split at hl'
    · rcases List.mem_append.1 hl' with h | h
      · exact hm q hq l' h
      · simp only [List.mem_singleton] at h; subst h; exact hl
    · exact hm q hq l' hl'
  · intro p hp l' hl'
    rcases List.mem_append.1 hp with hp | hp
    · exact hm p hp l' hl'
    · simp only [List.mem_singleton] at hp; subst hp
      simp only [List.mem_singleton] at hl'; subst hl'; exact hl

theorem provAppend_foldl_ok : ∀ (ms : List (Loc × Bytes)) (m : List (Bytes × List Loc)),
    ProvNoSlice m → (∀ p ∈ ms, p.1.nonSlice) →
    ProvNoSlice (ms.foldl (fun pr (x : Loc × Bytes) => provAppend pr x.2 x.1) m) := by
  intro ms
  induction ms with
  | nil => intro m hm _; exact hm
  | cons x rest ih =>
    intro m hm h
    simp only [List.foldl_cons]
    exact ih _ (provAppend_ok hm (h x (by simp))) (fun p hp => h p (by simp [hp]))

theorem colInsertProviders_ok : ∀ (srcs : List Acc) (st st' : TEB) (prov prov' : List (Bytes × List Loc))
    (rem rem' : Option Bytes),
    colInsertProviders st srcs prov rem = .ok ((prov', rem'), st') → ProvNoSlice prov →
    ProvNoSlice prov' ∧ st'.exprs = st.exprs ∧ st'.argInfos = st.argInfos := by
  intro srcs
  induction srcs with
  | nil =>
    intro st st' prov prov' rem rem' h hp
    simp only [colInsertProviders] at h
    cases h; exact ⟨hp, rfl, rfl⟩
  | cons src rest ih =>
    intro st st' prov prov' rem rem' h hp
    simp only [colInsertProviders] at h
    split at h
    · split at h
      · cases h
      · rename_i hg
        have hg' := getArg_ok hg
        split at h
        · cases h
        · have := ih _ _ _ _ _ _ h hp
          exact ⟨this.1, this.2.1.trans hg'.1, this.2.2.trans hg'.2.1⟩
      · rename_i hg
        have hg' := getArg_ok hg
        split at h
        · cases h
        · rename_i ms st2 ha
          have h1 := allStructInputs_ok ha
          have := ih _ _ _ _ _ _ h (provAppend_foldl_ok ms prov hp h1.1)
          exact ⟨this.1, (this.2.1.trans h1.2.1).trans hg'.1, (this.2.2.trans h1.2.2).trans hg'.2.1⟩
    · split at h
      · cases h
      · rename_i l st1 ha
        have h1 := inputMember_ok ha
        have := ih _ _ _ _ _ _ h (provAssign_ok hp h1.1)
        exact ⟨this.1, this.2.1.trans h1.2.1, this.2.2.trans h1.2.2⟩

theorem colInsertCols_ok (prov : List (Bytes × List Loc)) (rem : Option Bytes)
    (hp : ProvNoSlice prov) : ∀ (cs : List Col) (st st' : TEB) (cols cols' : List TCol),
    colInsertCols prov rem st cs cols = .ok (cols', st') → TColsNoSlice cols →
    TColsNoSlice cols' ∧ st'.exprs = st.exprs ∧ st'.argInfos = st.argInfos := by
  intro cs
  induction cs with
  | nil =>
    intro st st' cols cols' h hc
    simp only [colInsertCols] at h
    cases h; exact ⟨hc, rfl, rfl⟩
  | cons c rest ih =>
    intro st st' cols cols' h hc
    simp only [colInsertCols] at h
    split at h
    · rename_i k l hf
      have hmem := List.mem_of_find?_eq_some hf
      exact ih _ _ _ _ h (hc.append (.single_insert (hp _ hmem l (by simp))))
    · cases h
    · split at h
      · cases h
      · rename_i l st1 ha
        have h1 := inputMember_ok ha
        have := ih _ _ _ _ h (hc.append (.single_insert h1.1))
        exact ⟨this.1, this.2.1.trans h1.2.1, this.2.2.trans h1.2.2⟩
    · cases h

theorem basicInsertCols_ok : ∀ (ps : List (Col × Val)) (st st' : TEB) (cols cols' : List TCol),
    basicInsertCols st ps cols = .ok (cols', st') → TColsNoSlice cols →
    TColsNoSlice cols' ∧ st'.exprs = st.exprs ∧ st'.argInfos = st.argInfos := by
  intro ps
  induction ps with
  | nil =>
    intro st st' cols cols' h hc
    simp only [basicInsertCols] at h
    cases h; exact ⟨hc, rfl, rfl⟩
  | cons p rest ih =>
    intro st st' cols cols' h hc
    obtain ⟨c, v⟩ := p
    simp only [basicInsertCols] at h
    split at h
    · exact ih _ _ _ _ h (hc.append .single_literal)
    · split at h
      · cases h
      · rename_i l st1 ha
        have h1 := inputMember_ok ha
        have := ih _ _ _ _ h (hc.append (.single_insert h1.1))
        exact ⟨this.1, this.2.1.trans h1.2.1, this.2.2.trans h1.2.2⟩

theorem TExprsNoSliceInsert.nil : TExprsNoSliceInsert [] := by
  intro _ h; cases h

theorem TExprsNoSliceInsert.add_insert {es : List TExpr} {cols : List TCol}
    (h : TExprsNoSliceInsert es) (hc : TColsNoSlice cols) :
    TExprsNoSliceInsert (es ++ [.insert cols]) := by
  intro cols' hm
  rcases List.mem_append.1 hm with hm | hm
  · exact h _ hm
  · simp only [List.mem_singleton, TExpr.insert.injEq] at hm; subst hm; exact hc

theorem TExprsNoSliceInsert.add_other {es : List TExpr} {e : TExpr}
    (h : TExprsNoSliceInsert es) (he : ∀ cols, e ≠ .insert cols) :
    TExprsNoSliceInsert (es ++ [e]) := by
  intro cols' hm
  rcases List.mem_append.1 hm with hm | hm
  · exact h _ hm
  · simp only [List.mem_singleton] at hm; exact absurd hm.symm (he _)

/-! ### output side: state preservation and provenance of generated column names -/

/-- the name part of `newOutputColumn` -/
def outColName (table column : Bytes) : Bytes :=
  if table.size == 0 then column else table ++ dot ++ column

theorem newOutputColumn_fst (table column : Bytes) (l : Loc) :
    (newOutputColumn table column l).1 = outColName table column := by
  unfold newOutputColumn outColName; split <;> rfl

/-- `x` is the tag of a field of some struct info of the table -/
def StructTag (infos : List (Bytes × ArgInfo)) (x : Bytes) : Prop :=
  ∃ k tid n fields tags, (k, ArgInfo.struct tid n fields tags) ∈ infos ∧ ∃ f ∈ fields, f.tag = x

theorem markOutput_ok {st st' : TEB} {l : Loc} (h : markOutput st l = .ok st') :
    st'.exprs = st.exprs ∧ st'.argInfos = st.argInfos := by
  unfold markOutput at h
  split at h
  · cases h
  · cases h; exact ⟨rfl, rfl⟩

theorem markOutputs_ok : ∀ (ms : List (Loc × Bytes)) (st st' : TEB),
    markOutputs st ms = .ok st' → st'.exprs = st.exprs ∧ st'.argInfos = st.argInfos := by
  intro ms
  induction ms with
  | nil => intro st st' h; simp only [markOutputs] at h; cases h; exact ⟨rfl, rfl⟩
  | cons p rest ih =>
    intro st st' h
    obtain ⟨l, t⟩ := p
    simp only [markOutputs] at h
    split at h
    · cases h
    · rename_i st1 hm
      have h1 := markOutput_ok hm
      have := ih _ _ h
      exact ⟨this.1.trans h1.1, this.2.trans h1.2⟩

theorem outputMember_ok {st st' : TEB} {ty m : Bytes} {l : Loc}
    (h : outputMember st ty m = .ok (l, st')) :
    st'.exprs = st.exprs ∧ st'.argInfos = st.argInfos := by
  unfold outputMember at h
  split at h
  · cases h
  · rename_i a st1 hg
    have hg' := getArg_ok hg
    split at h
    · cases h
    · split at h
      · cases h
      · rename_i st2 hm
        cases h
        have h1 := markOutput_ok hm
        exact ⟨h1.1.trans hg'.1, h1.2.trans hg'.2.1⟩

theorem getAll_tags {a : ArgInfo} {ms : List (Loc × Bytes)} (h : a.getAll = .ok ms) :
    ∃ tid n fields tags, a = .struct tid n fields tags ∧ ∀ p ∈ ms, ∃ f ∈ fields, f.tag = p.2 := by
  unfold ArgInfo.getAll at h
  split at h
  · rename_i tid n fields tags
    split at h
    · cases h
    · cases h
      refine ⟨tid, n, fields, tags, rfl, ?_⟩
      intro p hp
      simp only [List.mem_filterMap, Option.map_eq_some_iff] at hp
      obtain ⟨t, _, f, hf, rfl⟩ := hp
      refine ⟨f, List.mem_of_find?_eq_some hf, ?_⟩
      have := List.find?_some hf
      exact eq_of_beq this
  · cases h
  · cases h

theorem allStructOutputs_ok {st st' : TEB} {ty : Bytes} {ms : List (Loc × Bytes)}
    (h : allStructOutputs st ty = .ok (ms, st')) :
    st'.exprs = st.exprs ∧ st'.argInfos = st.argInfos ∧ ∀ p ∈ ms, StructTag st.argInfos p.2 := by
  unfold allStructOutputs at h
  split at h
  · cases h
  · rename_i a st1 hg
    have hg' := getArg_ok hg
    split at h
    · cases h
    · rename_i ms' ha
      split at h
      · cases h
      · rename_i st2 hm
        cases h
        have h1 := markOutputs_ok _ _ _ hm
        refine ⟨h1.1.trans hg'.1, h1.2.trans hg'.2.1, ?_⟩
        obtain ⟨tid, n, fields, tags, rfl, hall⟩ := getAll_tags ha
        obtain ⟨k, hk⟩ := hg'.2.2.2
        intro p hp
        exact ⟨k, tid, n, fields, tags, hk, hall p hp⟩

theorem outGenerated_ok (pref : Bytes) : ∀ (ts : List Acc) (st st' : TEB) (ocs ocs' : List (Bytes × Loc)),
    outGenerated pref st ts ocs = .ok (ocs', st') →
    st'.exprs = st.exprs ∧ st'.argInfos = st.argInfos ∧
    ∀ c ∈ ocs', c ∈ ocs ∨ ∃ x, c.1 = outColName pref x ∧
      (StructTag st.argInfos x ∨ ∃ a ∈ ts, a.member = x ∧ x ≠ star) := by
  intro ts
  induction ts with
  | nil =>
    intro st st' ocs ocs' h
    simp only [outGenerated] at h
    cases h; exact ⟨rfl, rfl, fun c hc => .inl hc⟩
  | cons t rest ih =>
    intro st st' ocs ocs' h
    simp only [outGenerated] at h
    split at h
    · split at h
      · cases h
      · rename_i ms st1 ha
        have h1 := allStructOutputs_ok ha
        have h2 := ih _ _ _ _ h
        refine ⟨h2.1.trans h1.1, h2.2.1.trans h1.2.1, ?_⟩
        intro c hc
        rcases h2.2.2 c hc with hc | ⟨x, hx, hx'⟩
        · rcases List.mem_append.1 hc with hc | hc
          · exact .inl hc
          · simp only [List.mem_map] at hc
            obtain ⟨p, hp, rfl⟩ := hc
            exact .inr ⟨p.2, newOutputColumn_fst _ _ _, .inl (h1.2.2 p hp)⟩
        · refine .inr ⟨x, hx, ?_⟩
          rcases hx' with hx' | ⟨a, ha, hax⟩
          · rw [h1.2.1] at hx'; exact .inl hx'
          · exact .inr ⟨a, List.mem_cons_of_mem _ ha, hax⟩
    · rename_i hne
      split at h
      · cases h
      · rename_i l st1 ha
        have h1 := outputMember_ok ha
        have h2 := ih _ _ _ _ h
        refine ⟨h2.1.trans h1.1, h2.2.1.trans h1.2, ?_⟩
        intro c hc
        rcases h2.2.2 c hc with hc | ⟨x, hx, hx'⟩
        · rcases List.mem_append.1 hc with hc | hc
          · exact .inl hc
          · simp only [List.mem_singleton] at hc
            subst hc
            refine .inr ⟨t.member, newOutputColumn_fst _ _ _, .inr ⟨t, by simp, rfl, ?_⟩⟩
            intro heq; exact hne (by rw [heq]; exact beq_self_eq_true _)
        · refine .inr ⟨x, hx, ?_⟩
          rcases hx' with hx' | ⟨a, ha, hax⟩
          · rw [h1.2] at hx'; exact .inl hx'
          · exact .inr ⟨a, List.mem_cons_of_mem _ ha, hax⟩

theorem outIntoStar_ok (ty : Bytes) : ∀ (cs : List Col) (st st' : TEB) (ocs ocs' : List (Bytes × Loc)),
    outIntoStar ty st cs ocs = .ok (ocs', st') →
    st'.exprs = st.exprs ∧ st'.argInfos = st.argInfos ∧
    ∀ c ∈ ocs', c ∈ ocs ∨ ∃ k ∈ cs, c.1 = outColName k.tableName k.column := by
  intro cs
  induction cs with
  | nil =>
    intro st st' ocs ocs' h
    simp only [outIntoStar] at h
    cases h; exact ⟨rfl, rfl, fun c hc => .inl hc⟩
  | cons k rest ih =>
    intro st st' ocs ocs' h
    simp only [outIntoStar] at h
    split at h
    · cases h
    · rename_i l st1 ha
      have h1 := outputMember_ok ha
      have h2 := ih _ _ _ _ h
      refine ⟨h2.1.trans h1.1, h2.2.1.trans h1.2, ?_⟩
      intro c hc
      rcases h2.2.2 c hc with hc | ⟨k', hk', hx⟩
      · rcases List.mem_append.1 hc with hc | hc
        · exact .inl hc
        · simp only [List.mem_singleton] at hc
          subst hc
          exact .inr ⟨k, by simp, newOutputColumn_fst _ _ _⟩
      · exact .inr ⟨k', List.mem_cons_of_mem _ hk', hx⟩

theorem outPairwise_ok : ∀ (ps : List (Col × Acc)) (st st' : TEB) (ocs ocs' : List (Bytes × Loc)),
    outPairwise st ps ocs = .ok (ocs', st') →
    st'.exprs = st.exprs ∧ st'.argInfos = st.argInfos ∧
    ∀ c ∈ ocs', c ∈ ocs ∨ ∃ p ∈ ps, c.1 = outColName p.1.tableName p.1.column := by
  intro ps
  induction ps with
  | nil =>
    intro st st' ocs ocs' h
    simp only [outPairwise] at h
    cases h; exact ⟨rfl, rfl, fun c hc => .inl hc⟩
  | cons p rest ih =>
    intro st st' ocs ocs' h
    obtain ⟨k, t⟩ := p
    simp only [outPairwise] at h
    split at h
    · cases h
    · rename_i l st1 ha
      have h1 := outputMember_ok ha
      have h2 := ih _ _ _ _ h
      refine ⟨h2.1.trans h1.1, h2.2.1.trans h1.2, ?_⟩
      intro c hc
      rcases h2.2.2 c hc with hc | ⟨k', hk', hx⟩
      · rcases List.mem_append.1 hc with hc | hc
        · exact .inl hc
        · simp only [List.mem_singleton] at hc
          subst hc
          exact .inr ⟨(k, t), by simp, newOutputColumn_fst _ _ _⟩
      · exact .inr ⟨k', List.mem_cons_of_mem _ hk', hx⟩

/-- provenance of a generated output column name: a struct field tag, a non-`*` member of
    the node's types, or a non-`*` column of the node -/
def OutName (infos : List (Bytes × ArgInfo)) (s : OSeg) (x : Bytes) : Prop :=
  StructTag infos x ∨ (∃ a ∈ s.types, a.member = x ∧ x ≠ star) ∨ (∃ c ∈ s.cols, c.column = x ∧ x ≠ star)

theorem starCountCols_zero {cs : List Col} (h : starCountCols cs = 0) :
    ∀ c ∈ cs, c.column ≠ star := by
  unfold starCountCols at h
  have h' := List.eq_nil_of_length_eq_zero h
  rw [List.filter_eq_nil_iff] at h'
  intro c hc heq
  exact h' c hc (by rw [heq]; exact beq_self_eq_true _)

theorem starCountCols_le (cs : List Col) : starCountCols cs ≤ cs.length :=
  List.length_filter_le _ _

theorem bindSeg_output {st st' : TEB} {s : OSeg} (hk : s.kind = .output)
    (h : bindSeg st s = .ok st') :
    ∃ cols, st'.exprs = st.exprs ++ [.output cols] ∧ st'.argInfos = st.argInfos ∧
      (∀ c ∈ cols, ∃ table x, c.1 = outColName table x ∧ OutName st.argInfos s x) ∧
      ((∃ c ∈ s.cols, c.column = star) → s.cols.length = 1) := by
  unfold bindSeg at h
  rw [hk] at h
  simp only [] at h
  have hle := starCountCols_le s.cols
  split at h
  · rename_i hc1
    split at h
    · cases h
    · rename_i ocs st1 hg
      cases h
      have h1 := outGenerated_ok _ _ _ _ _ _ hg
      refine ⟨ocs, ?_, h1.2.1, ?_, ?_⟩
      · show st1.exprs ++ _ = _
        rw [h1.1]
      · intro c hc
        rcases h1.2.2 c hc with hc | ⟨x, hx, hx'⟩
        · cases hc
        · refine ⟨_, x, hx, ?_⟩
          rcases hx' with hx' | hx'
          · exact .inl hx'
          · exact .inr (.inl hx')
      · rintro ⟨c, hc, _⟩
        have : s.cols.length ≠ 0 := by
          intro h0; rw [List.length_eq_zero_iff] at h0; rw [h0] at hc; cases hc
        simp only [Bool.or_eq_true, beq_iff_eq, Bool.and_eq_true] at hc1
        omega
  · rename_i hc1
    simp only [Bool.or_eq_true, beq_iff_eq, Bool.and_eq_true, not_or, not_and] at hc1
    split at h
    · cases h
    · rename_i hc2
      simp only [Bool.and_eq_true, decide_eq_true_eq, not_and, Nat.not_lt] at hc2
      have hz : starCountCols s.cols = 0 := by omega
      have hns := starCountCols_zero hz
      have hstar : (∃ c ∈ s.cols, c.column = star) → s.cols.length = 1 := by
        rintro ⟨c, hc, hcs⟩; exact absurd hcs (hns c hc)
      split at h
      · split at h
        · cases h
        · rename_i ocs st1 hg
          cases h
          have h1 := outIntoStar_ok _ _ _ _ _ _ hg
          refine ⟨ocs, ?_, h1.2.1, ?_, hstar⟩
          · show st1.exprs ++ _ = _
            rw [h1.1]
          · intro c hc
            rcases h1.2.2 c hc with hc | ⟨k, hk', hx⟩
            · cases hc
            · exact ⟨_, _, hx, .inr (.inr ⟨k, hk', rfl, hns k hk'⟩)⟩
      · split at h
        · cases h
        · split at h
          · split at h
            · cases h
            · rename_i ocs st1 hg
              cases h
              have h1 := outPairwise_ok _ _ _ _ _ hg
              refine ⟨ocs, ?_, h1.2.1, ?_, hstar⟩
              · show st1.exprs ++ _ = _
                rw [h1.1]
              · intro c hc
                rcases h1.2.2 c hc with hc | ⟨p, hp, hx⟩
                · cases hc
                · have hp1 : p.1 ∈ s.cols := (List.of_mem_zip (a := p.1) (b := p.2) hp).1
                  exact ⟨_, _, hx, .inr (.inr ⟨p.1, hp1, rfl, hns p.1 hp1⟩)⟩
          · cases h

theorem bindSeg_noSliceInsert {st st' : TEB} {s : OSeg} (h : bindSeg st s = .ok st')
    (hes : TExprsNoSliceInsert st.exprs) : TExprsNoSliceInsert st'.exprs := by
  by_cases hk : s.kind = .output
  · obtain ⟨cols, he, _⟩ := bindSeg_output hk h
    rw [he]
    exact hes.add_other (by intro _ hh; cases hh)
  unfold bindSeg at h
  split at h
  · -- bypass
    cases h
    exact hes.add_other (by intro _ hh; cases hh)
  · -- member
    split at h
    · split at h
      · cases h
      · rename_i l st1 ha
        cases h
        have h1 := inputMember_ok ha
        show TExprsNoSliceInsert (st1.exprs ++ _)
        rw [h1.2.1]
        exact hes.add_other (by intro _ hh; cases hh)
    · cases h
  · -- slice
    split at h
    · split at h
      · cases h
      · rename_i ai st1 hg
        split at h
        · cases h
        · cases h
          show TExprsNoSliceInsert (st1.exprs ++ _)
          rw [(getArg_ok hg).1]
          exact hes.add_other (by intro _ hh; cases hh)
    · cases h
  · -- astInsert
    split at h
    · cases h
    · rename_i cols st1 ha
      cases h
      have h1 := astInsertCols_ok _ _ _ _ _ ha .nil
      show TExprsNoSliceInsert (st1.exprs ++ _)
      rw [h1.2.1]
      exact hes.add_insert h1.1
  · -- colInsert
    split at h
    · cases h
    · rename_i prov rem st1 hp
      have h0 := colInsertProviders_ok _ _ _ _ _ _ _ hp (by intro p hp; cases hp)
      split at h
      · cases h
      · rename_i cols st2 ha
        cases h
        have h1 := colInsertCols_ok _ _ h0.1 _ _ _ _ _ ha .nil
        show TExprsNoSliceInsert (st2.exprs ++ _)
        rw [h1.2.1, h0.2.1]
        exact hes.add_insert h1.1
  · -- basicInsert
    split at h
    · cases h
    · split at h
      · cases h
      · rename_i cols st1 ha
        cases h
        have h1 := basicInsertCols_ok _ _ _ _ _ ha .nil
        show TExprsNoSliceInsert (st1.exprs ++ _)
        rw [h1.2.1]
        exact hes.add_insert h1.1
  · -- output
    rename_i hk'
    exact absurd hk' hk

theorem bindSegs_noSliceInsert : ∀ (segs : List OSeg) (st st' : TEB),
    bindSegs st segs = .ok st' → TExprsNoSliceInsert st.exprs → TExprsNoSliceInsert st'.exprs := by
  intro segs
  induction segs with
  | nil => intro st st' h hes; simp only [bindSegs] at h; cases h; exact hes
  | cons s rest ih =>
    intro st st' h hes
    simp only [bindSegs] at h
    split at h
    · cases h
    · rename_i st1 hs
      exact ih _ _ h (bindSeg_noSliceInsert hs hes)

/-- Task B in invariant form -/
theorem bindTypes_noSliceInsert {C : Cls} {tt : TypeTable} {segs : List OSeg}
    {samples : List (Option Nat)} {tes : List TExpr}
    (h : bindTypes C tt segs samples = .ok tes) : TExprsNoSliceInsert tes := by
  unfold bindTypes at h
  split at h
  · cases h
  · split at h
    · cases h
    · rename_i st hs
      split at h
      · cases h
        exact bindSegs_noSliceInsert _ _ _ hs .nil
      · cases h

/-- Task B (used for C07): insert columns never get slice locators -/
theorem bindTypes_insert_locs {C : Cls} {tt : TypeTable} {segs : List OSeg}
    {samples : List (Option Nat)} {tes : List TExpr}
    (h : bindTypes C tt segs samples = .ok tes) :
    ∀ cols, TExpr.insert cols ∈ tes → ∀ loc column e, TCol.insert loc column e ∈ cols →
      ∀ t n, loc ≠ Loc.slice t n := by
  intro cols hc loc column e hm
  exact (Loc.nonSlice_iff loc).1 (bindTypes_noSliceInsert h cols hc loc column e hm)

/-! ## Task A: no wildcard among the generated output columns -/

/-- bytes covered by a successful `allRunesFrom` scan: each is either a non-ASCII byte or an
    ASCII byte whose value (= its rune) satisfies `p` -/
theorem allRunesFrom_bytes (p : Nat → Bool) (b : Bytes) : ∀ (f pos : Nat),
    allRunesFrom p b f pos = true → b.size ≤ pos + f →
    ∀ i, pos ≤ i → i < b.size → 0x80 ≤ bAt b i ∨ p (bAt b i) = true := by
  intro f
  induction f with
  | zero => intro pos _ hsz i hi hi'; omega
  | succ f ih =>
    intro pos h hsz i hi hi'
    have hp : pos < b.size := by omega
    simp only [allRunesFrom, if_pos hp, Bool.and_eq_true] at h
    obtain ⟨h1, h2⟩ := h
    rcases decodeRune_cases b pos hp with hc | hc | hc
    · rw [hc.1] at h1 h2
      by_cases hip : i = pos
      · subst hip; exact .inr h1
      · exact ih _ h2 (by simp; omega) i (by simp; omega) hi'
    · rw [hc.1] at h1 h2
      by_cases hip : i = pos
      · subst hip; exact .inl hc.2
      · exact ih _ h2 (by simp; omega) i (by simp; omega) hi'
    · by_cases hip : i < pos + (decodeRune b pos).2
      · exact .inl (hc.2.2.2 i hi hip)
      · have : max (decodeRune b pos).2 1 = (decodeRune b pos).2 := by omega
        rw [this] at h2
        exact ih _ h2 (by omega) i (by omega) hi'

theorem firstRune_bytes (p q : Nat → Bool) (b : Bytes) (hsz : b.size ≠ 0)
    (h1 : q (decodeRune b 0).1 = true)
    (h2 : allRunesFrom p b b.size (decodeRune b 0).2 = true) :
    ∀ i, i < b.size → 0x80 ≤ bAt b i ∨ q (bAt b i) = true ∨ p (bAt b i) = true := by
  intro i hi
  have hp : 0 < b.size := Nat.pos_of_ne_zero hsz
  rcases decodeRune_cases b 0 hp with hc | hc | hc
  · rw [hc.1] at h1 h2
    by_cases hi0 : i = 0
    · subst hi0; exact .inr (.inl h1)
    · rcases allRunesFrom_bytes p b _ _ h2 (by omega) i (by simp; omega) hi with h | h
      · exact .inl h
      · exact .inr (.inr h)
  · rw [hc.1] at h2
    by_cases hi0 : i = 0
    · subst hi0; exact .inl hc.2
    · rcases allRunesFrom_bytes p b _ _ h2 (by omega) i (by simp; omega) hi with h | h
      · exact .inl h
      · exact .inr (.inr h)
  · by_cases hi0 : i < 0 + (decodeRune b 0).2
    · exact .inl (hc.2.2.2 i (by omega) hi0)
    · rcases allRunesFrom_bytes p b _ _ h2 (by omega) i (by omega) hi with h | h
      · exact .inl h
      · exact .inr (.inr h)

theorem parseTag_ok_cases {C : Cls} {tag name : Bytes} {om : Bool}
    (h : parseTag C tag = .ok (name, om)) :
    name.size ≠ 0 ∧
    (((name.getD 0 0 = 34 ∨ name.getD 0 0 = 39) ∧ name.getD (name.size - 1) 0 = name.getD 0 0) ∨
     (∀ i, i < name.size → 0x80 ≤ bAt name i ∨
        (C.letter (bAt name i) || C.digit (bAt name i) || bAt name i == 95) = true)) := by
  unfold parseTag at h
  simp only [] at h
  generalize (splitOn tag 44).headD #[] = nm at h
  split at h
  · cases h
  split at h
  · cases h
  rename_i hsz
  simp only [beq_iff_eq] at hsz
  split at h
  · rename_i hq
    split at h
    · cases h
    · rename_i hlast
      simp only [Except.ok.injEq, Prod.mk.injEq] at h
      obtain ⟨rfl, _⟩ := h
      refine ⟨hsz, .inl ?_⟩
      simp only [Bool.or_eq_true, beq_iff_eq] at hq
      simp only [bne_iff_ne, ne_eq, Decidable.not_not] at hlast
      exact ⟨hq, hlast⟩
  · refine ⟨?_, .inr ?_⟩
    · split at h
      · split at h
        · simp only [Except.ok.injEq, Prod.mk.injEq] at h; obtain ⟨rfl, _⟩ := h; exact hsz
        · cases h
      · split at h
        · split at h
          · simp only [Except.ok.injEq, Prod.mk.injEq] at h; obtain ⟨rfl, _⟩ := h; exact hsz
          · cases h
        · cases h
    · split at h
      · rename_i hd
        split at h
        · rename_i hall
          simp only [Except.ok.injEq, Prod.mk.injEq] at h; obtain ⟨rfl, _⟩ := h
          intro i hi
          rcases firstRune_bytes _ _ _ hsz hd hall i hi with h | h | h
          · exact .inl h
          · right; simp [h]
          · right; simp [h]
        · cases h
      · split at h
        · rename_i hd
          split at h
          · rename_i hall
            simp only [Except.ok.injEq, Prod.mk.injEq] at h; obtain ⟨rfl, _⟩ := h
            intro i hi
            rcases firstRune_bytes _ (fun c => C.letter c || c == 95) _ hsz hd hall i hi with h | h | h
            · exact .inl h
            · right
              simp only [Bool.or_eq_true, beq_iff_eq] at h ⊢
              rcases h with h | h
              · exact .inl (.inl h)
              · exact .inr h
            · exact .inr h
          · cases h
        · cases h

/-- `b` does not end with the byte `*` -/
def NoStarEnd (b : Bytes) : Prop := b.back? ≠ some 42

theorem NoStarEnd.ne_star {b : Bytes} (h : NoStarEnd b) : b ≠ star := by
  intro e; subst e; exact h (by decide)

theorem getD_of_back? {b : Bytes} {x : UInt8} (h : b.back? = some x) :
    b.getD (b.size - 1) 0 = x := by
  rw [Array.back?_eq_getElem?] at h
  simp [Array.getD_eq_getD_getElem?, h]

/-- with a classifier that does not class `*` as letter or digit, an accepted tag name
    does not end with the byte `*` -/
theorem parseTag_ok_noStarEnd {C : Cls} (hC : C.letter 42 = false ∧ C.digit 42 = false)
    {tag name : Bytes} {om : Bool} (h : parseTag C tag = .ok (name, om)) : NoStarEnd name := by
  obtain ⟨hsz, hcase⟩ := parseTag_ok_cases h
  intro hb
  have hg := getD_of_back? hb
  rcases hcase with ⟨hq, hlast⟩ | hall
  · rw [hg] at hlast
    rw [← hlast] at hq
    revert hq; decide
  · have hb42 : bAt name (name.size - 1) = 42 := by unfold bAt; rw [hg]; rfl
    rcases hall (name.size - 1) (by omega) with h | h
    · omega
    · rw [hb42, hC.1, hC.2] at h
      revert h; decide

theorem parseTag_ok_ne_star {C : Cls} (hC : C.letter 42 = false ∧ C.digit 42 = false)
    {tag name : Bytes} {om : Bool} (h : parseTag C tag = .ok (name, om)) : name ≠ star :=
  (parseTag_ok_noStarEnd hC h).ne_star

/-- `hC` is needed: a classifier that classes `*` as a letter accepts the tag `*` -/
example : parseTag { letter := fun c => c == 42, digit := fun _ => false } star = .ok (star, false) := by
  rfl


theorem allRunesFrom_mono {p q : Nat → Bool} (hpq : ∀ c, p c = true → q c = true) (b : Bytes) :
    ∀ (f pos : Nat), allRunesFrom p b f pos = true → allRunesFrom q b f pos = true := by
  intro f
  induction f with
  | zero => intro pos _; rfl
  | succ f ih =>
    intro pos h
    simp only [allRunesFrom] at h ⊢
    split
    · rename_i hp
      rw [if_pos hp] at h
      simp only [Bool.and_eq_true] at h ⊢
      exact ⟨hpq _ h.1, ih _ h.2⟩
    · rfl

theorem allRunesFrom_fuel_pred (p : Nat → Bool) (b : Bytes) :
    ∀ (f pos : Nat), allRunesFrom p b (f+1) pos = true → allRunesFrom p b f pos = true := by
  intro f
  induction f with
  | zero => intro pos _; rfl
  | succ f ih =>
    intro pos h
    rw [allRunesFrom] at h ⊢
    split
    · rename_i hp
      rw [if_pos hp] at h
      simp only [Bool.and_eq_true] at h ⊢
      exact ⟨h.1, ih _ h.2⟩
    · rfl

theorem allRunesFrom_zero_of_first {r p q : Nat → Bool} (hp : ∀ c, p c = true → r c = true)
    (hq : ∀ c, q c = true → r c = true) (b : Bytes) (hsz : b.size ≠ 0)
    (h1 : q (decodeRune b 0).1 = true)
    (h2 : allRunesFrom p b b.size (decodeRune b 0).2 = true) :
    allRunesFrom r b b.size 0 = true := by
  have hpos : 0 < b.size := Nat.pos_of_ne_zero hsz
  have hw : max (decodeRune b 0).2 1 = (decodeRune b 0).2 := by
    rcases decodeRune_cases b 0 hpos with hc | hc | hc
    · rw [hc.1]; rfl
    · rw [hc.1]; rfl
    · omega
  obtain ⟨f, hf⟩ : ∃ f, b.size = f + 1 := ⟨b.size - 1, by omega⟩
  rw [hf] at h2 ⊢
  rw [allRunesFrom, if_pos hpos]
  simp only [Bool.and_eq_true]
  refine ⟨hq _ h1, ?_⟩
  rw [Nat.zero_add, hw]
  exact allRunesFrom_mono hp _ _ _ (allRunesFrom_fuel_pred _ _ _ _ h2)

/-- rune-level form: an accepted unquoted tag name consists of letter/digit/underscore runes
    only (the scan from offset 0 with the checker loop `allRunesFrom` succeeds) -/
theorem parseTag_ok_runes {C : Cls} {tag name : Bytes} {om : Bool}
    (h : parseTag C tag = .ok (name, om)) (hq : name.getD 0 0 ≠ 34 ∧ name.getD 0 0 ≠ 39) :
    allRunesFrom (fun c => C.letter c || C.digit c || c == 95) name name.size 0 = true := by
  unfold parseTag at h
  simp only [] at h
  generalize (splitOn tag 44).headD #[] = nm at h
  split at h
  · cases h
  split at h
  · cases h
  rename_i hsz
  simp only [beq_iff_eq] at hsz
  split at h
  · rename_i hquote
    split at h
    · cases h
    · simp only [Except.ok.injEq, Prod.mk.injEq] at h
      obtain ⟨rfl, _⟩ := h
      simp only [Bool.or_eq_true, beq_iff_eq] at hquote
      rcases hquote with h | h
      · exact absurd h hq.1
      · exact absurd h hq.2
  · split at h
    · rename_i hd
      split at h
      · rename_i hall
        simp only [Except.ok.injEq, Prod.mk.injEq] at h; obtain ⟨rfl, _⟩ := h
        exact allRunesFrom_zero_of_first (p := C.digit) (q := C.digit)
          (fun c hc => by simp [hc]) (fun c hc => by simp [hc]) _ hsz hd hall
      · cases h
    · split at h
      · rename_i hd
        split at h
        · rename_i hall
          simp only [Except.ok.injEq, Prod.mk.injEq] at h; obtain ⟨rfl, _⟩ := h
          refine allRunesFrom_zero_of_first (q := fun c => C.letter c || c == 95)
            (fun c hc => hc) ?_ _ hsz hd hall
          intro c hc
          simp only [Bool.or_eq_true, beq_iff_eq] at hc ⊢
          rcases hc with hc | hc
          · exact .inl (.inl hc)
          · exact .inr hc
        · cases h
      · cases h

/-- an accepted unquoted tag name contains no ASCII byte that the classifier rejects
    (e.g. `*`, `.`) -/
theorem parseTag_ok_no_byte {C : Cls} {tag name : Bytes} {om : Bool}
    (h : parseTag C tag = .ok (name, om)) (hq : name.getD 0 0 ≠ 34 ∧ name.getD 0 0 ≠ 39)
    {x : UInt8} (hx : x.toNat < 128) (hx95 : x.toNat ≠ 95)
    (hC : C.letter x.toNat = false ∧ C.digit x.toNat = false) :
    ∀ i, i < name.size → name.getD i 0 ≠ x := by
  obtain ⟨_, hcase⟩ := parseTag_ok_cases h
  rcases hcase with ⟨hquote, _⟩ | hall
  · rcases hquote with h | h
    · exact absurd h hq.1
    · exact absurd h hq.2
  · intro i hi heq
    have hb : bAt name i = x.toNat := by unfold bAt; rw [heq]
    rcases hall i hi with h | h
    · omega
    · rw [hb, hC.1, hC.2] at h
      simp only [Bool.or_self, Bool.false_or, beq_iff_eq] at h
      exact hx95 h


/-! ### tags of generated struct infos -/

/-- every field tag, and every entry of the sorted tag list, of every struct info satisfies `P` -/
def TagsSat (P : Bytes → Prop) (infos : List (Bytes × ArgInfo)) : Prop :=
  ∀ k tid n fields tags, (k, ArgInfo.struct tid n fields tags) ∈ infos →
    (∀ f ∈ fields, P f.tag) ∧ (∀ t ∈ tags, P t)

/-- no struct tag is `*` -/
def ValidTags (infos : List (Bytes × ArgInfo)) : Prop := TagsSat (· ≠ star) infos

/-- no struct tag ends with the byte `*` (implies `ValidTags`) -/
def ValidTagsEnd (infos : List (Bytes × ArgInfo)) : Prop := TagsSat NoStarEnd infos

theorem TagsSat.mono {P Q : Bytes → Prop} (hPQ : ∀ b, P b → Q b) {infos : List (Bytes × ArgInfo)}
    (h : TagsSat P infos) : TagsSat Q infos := by
  intro k tid n fields tags hm
  have := h k tid n fields tags hm
  exact ⟨fun f hf => hPQ _ (this.1 f hf), fun t ht => hPQ _ (this.2 t ht)⟩

theorem ValidTagsEnd.validTags {infos : List (Bytes × ArgInfo)} (h : ValidTagsEnd infos) :
    ValidTags infos := TagsSat.mono (fun _ hb => NoStarEnd.ne_star hb) h

theorem TagsSat.structTag {P : Bytes → Prop} {infos : List (Bytes × ArgInfo)} (h : TagsSat P infos)
    {x : Bytes} (hx : StructTag infos x) : P x := by
  obtain ⟨k, tid, n, fields, tags, hm, f, hf, rfl⟩ := hx
  exact (h k tid n fields tags hm).1 f hf

theorem mem_insertSorted {t x : Bytes} : ∀ {l : List Bytes}, t ∈ insertSorted x l → t = x ∨ t ∈ l := by
  intro l
  induction l with
  | nil => intro h; simp only [insertSorted, List.mem_singleton] at h; exact .inl h
  | cons y ys ih =>
    intro h
    simp only [insertSorted] at h
    split at h
    · rcases List.mem_cons.1 h with h | h
      · exact .inr (by simp [h])
      · rcases ih h with h | h
        · exact .inl h
        · exact .inr (List.mem_cons_of_mem _ h)
    · rcases List.mem_cons.1 h with h | h
      · exact .inl h
      · exact .inr h

theorem mem_sortBytes_foldl {t : Bytes} : ∀ (l acc : List Bytes),
    t ∈ l.foldl (fun acc x => insertSorted x acc) acc → t ∈ acc ∨ t ∈ l := by
  intro l
  induction l with
  | nil => intro acc h; exact .inl h
  | cons x xs ih =>
    intro acc h
    simp only [List.foldl_cons] at h
    rcases ih _ h with h | h
    · rcases mem_insertSorted h with h | h
      · exact .inr (by simp [h])
      · exact .inl h
    · exact .inr (List.mem_cons_of_mem _ h)

theorem mem_sortBytes {t : Bytes} {l : List Bytes} (h : t ∈ sortBytes l) : t ∈ l := by
  rcases mem_sortBytes_foldl l [] h with h | h
  · cases h
  · exact h

section
variable {C : Cls} {tt : TypeTable} {P : Bytes → Prop}
  (hP : ∀ tag name om, parseTag C tag = .ok (name, om) → P name)
include hP

theorem fieldsLoop_tags (recur : Nat → Except String (List SField))
    (hrec : ∀ stid fs, recur stid = .ok fs → ∀ f ∈ fs, P f.tag) :
    ∀ (fds : List FieldDesc) (i : Nat) (acc res : List SField),
      fieldsLoop C tt recur fds i acc = .ok res → (∀ f ∈ acc, P f.tag) → ∀ f ∈ res, P f.tag := by
  intro fds
  induction fds with
  | nil => intro i acc res h hacc; simp only [fieldsLoop] at h; cases h; exact hacc
  | cons fd rest ih =>
    intro i acc res h hacc
    simp only [fieldsLoop] at h
    generalize (if ((tt.get fd.ty).kind == Kind.ptr) = true then (tt.get fd.ty).elem else fd.ty) = stid at h
    split at h
    · split at h
      · exact ih _ _ _ h hacc
      · split at h
        · exact ih _ _ _ h hacc
        · split at h
          · cases h
          · rename_i nested hr
            refine ih _ _ _ h ?_
            intro f hf
            rcases List.mem_append.1 hf with hf | hf
            · exact hacc f hf
            · simp only [List.mem_map] at hf
              obtain ⟨nf, hnf, rfl⟩ := hf
              exact hrec _ _ hr nf hnf
    · split at h
      · exact ih _ _ _ h hacc
      · split at h
        · cases h
        · split at h
          · cases h
          · rename_i tag om hpt
            refine ih _ _ _ h ?_
            intro f hf
            rcases List.mem_append.1 hf with hf | hf
            · exact hacc f hf
            · simp only [List.mem_singleton] at hf
              subst hf
              exact hP _ _ _ hpt

theorem getStructFields_tags : ∀ (fuel : Nat) (visiting : List Nat) (tid : Nat) (fs : List SField),
    getStructFields C tt fuel visiting tid = .ok fs → ∀ f ∈ fs, P f.tag := by
  intro fuel
  induction fuel with
  | zero => intro visiting tid fs h; simp only [getStructFields] at h; cases h
  | succ fuel ih =>
    intro visiting tid fs h
    simp only [getStructFields] at h
    split at h
    · cases h
    · exact fieldsLoop_tags hP _ (fun stid fs' hr => ih _ _ _ hr) _ _ _ _ h (by intro f hf; cases hf)

theorem getArgInfo_tags {tid : Nat} {info : ArgInfo} (h : getArgInfo C tt tid = .ok info) :
    ∀ tid' n fields tags, info = .struct tid' n fields tags →
      (∀ f ∈ fields, P f.tag) ∧ (∀ t ∈ tags, P t) := by
  unfold getArgInfo at h
  simp only [] at h
  split at h
  · split at h
    · cases h
    · cases h; intro _ _ _ _ he; cases he
  · split at h
    · cases h
    · rename_i fields hg
      split at h
      · cases h
      · cases h
        intro tid' n fields' tags he
        cases he
        have hf := getStructFields_tags hP _ _ _ _ hg
        refine ⟨hf, ?_⟩
        intro t ht
        have := mem_sortBytes ht
        simp only [List.mem_map] at this
        obtain ⟨f, hfm, rfl⟩ := this
        exact hf f hfm
  · cases h; intro _ _ _ _ he; cases he
  · cases h

theorem generateArgInfo_tagsSat : ∀ (samples : List (Option Nat)) (acc infos : List (Bytes × ArgInfo)),
    generateArgInfo C tt samples acc = .ok infos → TagsSat P acc → TagsSat P infos := by
  intro samples
  induction samples with
  | nil => intro acc infos h hacc; simp only [generateArgInfo] at h; cases h; exact hacc
  | cons smp rest ih =>
    intro acc infos h hacc
    cases smp with
    | none => simp only [generateArgInfo] at h; cases h
    | some tid =>
      simp only [generateArgInfo] at h
      split at h
      all_goals first | (cases h; done) | skip
      all_goals
        split at h
        · cases h
        · split at h
          · cases h
          · rename_i info hg
            split at h
            · cases h
            · refine ih _ _ h ?_
              intro k tid' n fields tags hm
              rcases List.mem_append.1 hm with hm | hm
              · exact hacc k tid' n fields tags hm
              · simp only [List.mem_singleton, Prod.mk.injEq] at hm
                exact getArgInfo_tags hP hg tid' n fields tags hm.2.symm
end

theorem TagsSat.nil {P : Bytes → Prop} : TagsSat P [] := by
  intro _ _ _ _ _ h; cases h

/-- struct tags produced by `generateArgInfo` never end with `*` -/
theorem generateArgInfo_validTagsEnd {C : Cls} (hC : C.letter 42 = false ∧ C.digit 42 = false)
    {tt : TypeTable} {samples : List (Option Nat)} {infos : List (Bytes × ArgInfo)}
    (h : generateArgInfo C tt samples [] = .ok infos) : ValidTagsEnd infos :=
  generateArgInfo_tagsSat (fun _ _ _ hp => parseTag_ok_noStarEnd hC hp) _ _ _ h .nil

/-- struct tags produced by `generateArgInfo` are never `*` -/
theorem generateArgInfo_validTags {C : Cls} (hC : C.letter 42 = false ∧ C.digit 42 = false)
    {tt : TypeTable} {samples : List (Option Nat)} {infos : List (Bytes × ArgInfo)}
    (h : generateArgInfo C tt samples [] = .ok infos) : ValidTags infos :=
  (generateArgInfo_validTagsEnd hC h).validTags

/-! ### no wildcard among the generated output columns -/

theorem wild_back? (t : Bytes) : (t ++ dot ++ star).back? = some 42 := by
  rw [Array.back?_append]; rfl

theorem outColName_ne_star {x : Bytes} (hx : x ≠ star) (table : Bytes) :
    outColName table x ≠ star := by
  unfold outColName
  split
  · exact hx
  · rename_i hne
    intro h
    have := congrArg Array.size h
    simp only [beq_iff_eq] at hne
    simp [dot, star] at this
    omega

theorem outColName_ne_wild {x : Bytes} (hx : NoStarEnd x) (table t : Bytes) :
    outColName table x ≠ t ++ dot ++ star := by
  intro h
  have h1 := congrArg Array.back? h
  rw [wild_back?] at h1
  unfold outColName at h1
  split at h1
  · exact hx h1
  · rw [Array.back?_append] at h1
    cases hxb : x.back? with
    | none =>
      rw [hxb, Array.back?_append] at h1
      have hd : Array.back? dot = some 46 := rfl
      rw [hd] at h1
      simp at h1
    | some b =>
      rw [hxb] at h1
      simp only [Option.some_or, Option.some.injEq] at h1
      subst h1; exact hx hxb

/-- C05, `*` part: with valid struct tags no generated output column is `*`
    (no hypothesis on the node) -/
theorem no_star_generated {st st' : TEB} {s : OSeg} (hk : s.kind = .output)
    (h : bindSeg st s = .ok st') (hv : ValidTags st.argInfos) :
    ∃ cols, st'.exprs = st.exprs ++ [.output cols] ∧ ∀ c ∈ cols, c.1 ≠ star := by
  obtain ⟨cols, he, _, hc, _⟩ := bindSeg_output hk h
  refine ⟨cols, he, ?_⟩
  intro c hcm
  obtain ⟨table, x, hx, hname⟩ := hc c hcm
  rw [hx]
  apply outColName_ne_star
  rcases hname with hs | ⟨_, _, _, hne⟩ | ⟨_, _, _, hne⟩
  · exact hv.structTag hs
  · exact hne
  · exact hne

/-- hypothesis on a parsed node (true of parser output, whose members and columns are
    identifiers, quoted names or `*`): members and columns other than `*` itself do not
    end with the byte `*` -/
def NodeNoStarEnd (s : OSeg) : Prop :=
  (∀ a ∈ s.types, a.member = star ∨ NoStarEnd a.member) ∧
  (∀ c ∈ s.cols, c.column = star ∨ NoStarEnd c.column)

/-- C05 no. 11: no generated output column is `*` or of the form `t.*` -/
theorem bindSeg_no_wildcard {st st' : TEB} {s : OSeg} (hk : s.kind = .output)
    (h : bindSeg st s = .ok st') (hv : ValidTagsEnd st.argInfos) (hn : NodeNoStarEnd s) :
    ∃ cols, st'.exprs = st.exprs ++ [.output cols] ∧
      ∀ c ∈ cols, c.1 ≠ star ∧ ∀ t, c.1 ≠ t ++ dot ++ star := by
  obtain ⟨cols, he, _, hc, _⟩ := bindSeg_output hk h
  refine ⟨cols, he, ?_⟩
  intro c hcm
  obtain ⟨table, x, hx, hname⟩ := hc c hcm
  have hxe : NoStarEnd x := by
    rcases hname with hs | ⟨a, ha, rfl, hne⟩ | ⟨k, hk', rfl, hne⟩
    · exact hv.structTag hs
    · exact (hn.1 a ha).resolve_left hne
    · exact (hn.2 k hk').resolve_left hne
  rw [hx]
  exact ⟨outColName_ne_star hxe.ne_star table, fun t => outColName_ne_wild hxe table t⟩

/-- an explicit `*` column is only accepted in the generating form (a single column) -/
theorem explicit_star_only_generating {st st' : TEB} {s : OSeg} (hk : s.kind = .output)
    (h : bindSeg st s = .ok st') (hstar : ∃ c ∈ s.cols, c.column = star) : s.cols.length = 1 := by
  obtain ⟨_, _, _, _, hc⟩ := bindSeg_output hk h
  exact hc hstar

/-! ### lifting to `bindSegs` / `bindTypes` -/

theorem mem_add_nonOutput {es : List TExpr} {e : TExpr} (he : ∀ cols, e ≠ .output cols)
    {cols : List (Bytes × Loc)} (h : TExpr.output cols ∈ es ++ [e]) : TExpr.output cols ∈ es := by
  rcases List.mem_append.1 h with h | h
  · exact h
  · simp only [List.mem_singleton] at h
    exact absurd h.symm (he _)

/-- a non-output node appends one non-output expression and keeps the infos -/
theorem bindSeg_nonOutput {st st' : TEB} {s : OSeg} (hk : s.kind ≠ .output)
    (h : bindSeg st s = .ok st') :
    st'.argInfos = st.argInfos ∧
      ∀ cols, TExpr.output cols ∈ st'.exprs → TExpr.output cols ∈ st.exprs := by
  unfold bindSeg at h
  split at h
  · cases h
    exact ⟨rfl, fun cols hm => mem_add_nonOutput (by intro _ hh; cases hh) hm⟩
  · split at h
    · split at h
      · cases h
      · rename_i l st1 ha
        cases h
        have h1 := inputMember_ok ha
        refine ⟨h1.2.2, fun cols hm => ?_⟩
        have hm' : TExpr.output cols ∈ st1.exprs ++ [_] := hm
        rw [h1.2.1] at hm'
        exact mem_add_nonOutput (by intro _ hh; cases hh) hm'
    · cases h
  · split at h
    · split at h
      · cases h
      · rename_i ai st1 hg
        split at h
        · cases h
        · cases h
          refine ⟨(getArg_ok hg).2.1, fun cols hm => ?_⟩
          have hm' : TExpr.output cols ∈ st1.exprs ++ [_] := hm
          rw [(getArg_ok hg).1] at hm'
          exact mem_add_nonOutput (by intro _ hh; cases hh) hm'
    · cases h
  · split at h
    · cases h
    · rename_i cols st1 ha
      cases h
      have h1 := astInsertCols_ok _ _ _ _ _ ha .nil
      refine ⟨h1.2.2, fun cols hm => ?_⟩
      have hm' : TExpr.output cols ∈ st1.exprs ++ [_] := hm
      rw [h1.2.1] at hm'
      exact mem_add_nonOutput (by intro _ hh; cases hh) hm'
  · split at h
    · cases h
    · rename_i prov rem st1 hp
      have h0 := colInsertProviders_ok _ _ _ _ _ _ _ hp (by intro p hp; cases hp)
      split at h
      · cases h
      · rename_i cols st2 ha
        cases h
        have h1 := colInsertCols_ok _ _ h0.1 _ _ _ _ _ ha .nil
        refine ⟨h1.2.2.trans h0.2.2, fun cols hm => ?_⟩
        have hm' : TExpr.output cols ∈ st2.exprs ++ [_] := hm
        rw [h1.2.1, h0.2.1] at hm'
        exact mem_add_nonOutput (by intro _ hh; cases hh) hm'
  · split at h
    · cases h
    · split at h
      · cases h
      · rename_i cols st1 ha
        cases h
        have h1 := basicInsertCols_ok _ _ _ _ _ ha .nil
        refine ⟨h1.2.2, fun cols hm => ?_⟩
        have hm' : TExpr.output cols ∈ st1.exprs ++ [_] := hm
        rw [h1.2.1] at hm'
        exact mem_add_nonOutput (by intro _ hh; cases hh) hm'
  · rename_i hk'
    exact absurd hk' hk

/-- `bindSeg` never changes the infos -/
theorem bindSeg_argInfos {st st' : TEB} {s : OSeg} (h : bindSeg st s = .ok st') :
    st'.argInfos = st.argInfos := by
  by_cases hk : s.kind = .output
  · obtain ⟨_, _, ha, _⟩ := bindSeg_output hk h; exact ha
  · exact (bindSeg_nonOutput hk h).1

theorem bindSegs_argInfos : ∀ (segs : List OSeg) (st st' : TEB),
    bindSegs st segs = .ok st' → st'.argInfos = st.argInfos := by
  intro segs
  induction segs with
  | nil => intro st st' h; simp only [bindSegs] at h; cases h; rfl
  | cons s rest ih =>
    intro st st' h
    simp only [bindSegs] at h
    split at h
    · cases h
    · rename_i st1 hs
      exact (ih _ _ h).trans (bindSeg_argInfos hs)

/-- every column name of every output expression satisfies `P` -/
def OutputsSat (P : Bytes → Prop) (es : List TExpr) : Prop :=
  ∀ cols, TExpr.output cols ∈ es → ∀ c ∈ cols, P c.1

/-- not `*` and not of the form `t.*` -/
def NotWildcard (b : Bytes) : Prop := b ≠ star ∧ ∀ t, b ≠ t ++ dot ++ star

theorem bindSeg_outputsSat {st st' : TEB} {s : OSeg} (h : bindSeg st s = .ok st')
    (hv : ValidTagsEnd st.argInfos) (hn : NodeNoStarEnd s)
    (hes : OutputsSat NotWildcard st.exprs) : OutputsSat NotWildcard st'.exprs := by
  by_cases hk : s.kind = .output
  · obtain ⟨cols, he, hc⟩ := bindSeg_no_wildcard hk h hv hn
    rw [he]
    intro cols' hm
    rcases List.mem_append.1 hm with hm | hm
    · exact hes _ hm
    · simp only [List.mem_singleton, TExpr.output.injEq] at hm
      subst hm; exact hc
  · intro cols' hm
    exact hes _ ((bindSeg_nonOutput hk h).2 _ hm)

theorem bindSegs_outputsSat : ∀ (segs : List OSeg) (st st' : TEB),
    bindSegs st segs = .ok st' → ValidTagsEnd st.argInfos → (∀ s ∈ segs, NodeNoStarEnd s) →
    OutputsSat NotWildcard st.exprs → OutputsSat NotWildcard st'.exprs := by
  intro segs
  induction segs with
  | nil => intro st st' h _ _ hes; simp only [bindSegs] at h; cases h; exact hes
  | cons s rest ih =>
    intro st st' h hv hn hes
    simp only [bindSegs] at h
    split at h
    · cases h
    · rename_i st1 hs
      refine ih _ _ h ?_ (fun s' hs' => hn s' (List.mem_cons_of_mem _ hs')) ?_
      · rw [bindSeg_argInfos hs]; exact hv
      · exact bindSeg_outputsSat hs hv (hn s (by simp)) hes

/-- C05 no. 11 at the level of `bindTypes`: no output column of the typed expression is
    `*` or `t.*`, for a classifier that does not class `*` as letter or digit and nodes
    whose members/columns are `*` or do not end with `*` (true of parser output) -/
theorem bindTypes_no_wildcard {C : Cls} (hC : C.letter 42 = false ∧ C.digit 42 = false)
    {tt : TypeTable} {segs : List OSeg} {samples : List (Option Nat)} {tes : List TExpr}
    (h : bindTypes C tt segs samples = .ok tes) (hn : ∀ s ∈ segs, NodeNoStarEnd s) :
    ∀ cols, TExpr.output cols ∈ tes → ∀ c ∈ cols, c.1 ≠ star ∧ ∀ t, c.1 ≠ t ++ dot ++ star := by
  unfold bindTypes at h
  split at h
  · cases h
  · rename_i infos hg
    split at h
    · cases h
    · rename_i st hs
      split at h
      · cases h
        exact bindSegs_outputsSat _ _ _ hs (generateArgInfo_validTagsEnd hC hg) hn
          (by intro _ hm; cases hm)
      · cases h

/-! ### examples: non-vacuity and counterexamples -/

/-- non-vacuity: `SELECT &T.*` with `T` having fields tagged `a`, `b` generates columns `a`, `b` -/
example :
    let fa : SField := { name := #[65], tag := #[97], omitEmpty := false, index := [0] }
    let fb : SField := { name := #[66], tag := #[98], omitEmpty := false, index := [1] }
    let st : TEB := { argInfos := [(#[84], .struct 0 #[84] [fa, fb] [#[97], #[98]])] }
    let s : OSeg := { kind := .output, raw := #[], types := [{ ty := #[84], member := star }] }
    (bindSeg st s).toOption.map (fun st' => st'.exprs.map fun e =>
      match e with | .output cols => cols.map (·.1) | _ => []) = some [[#[97], #[98]]] := by
  decide

/-- the node hypothesis `NodeNoStarEnd` is needed for the `t.*` part: for an arbitrary
    (non-parser) node with the map member `x.*`, the generated column is `x.*` -/
example :
    let st : TEB := { argInfos := [(#[77], .map 0 #[77])] }
    let s : OSeg := { kind := .output, raw := #[], types := [{ ty := #[77], member := #[120, 46, 42] }] }
    (bindSeg st s).toOption.map (fun st' => st'.exprs.map fun e =>
      match e with | .output cols => cols.map (·.1) | _ => []) = some [[#[120] ++ dot ++ star]] := by
  decide

/-- `hC` is needed end to end: with a classifier that classes `*` as a letter, a struct
    whose field is tagged `*` is accepted and `&T.*` generates the column `*` -/
example :
    let C : Cls := { letter := fun c => c == 42, digit := fun _ => false }
    let tt : TypeTable := #[
      { kind := .struct, kindStr := "struct", name := #[84],
        fields := [{ name := #[65], tag := star, exported := true, anon := false, ty := 1 }] },
      { kind := .string, kindStr := "string", name := #[] }]
    let s : OSeg := { kind := .output, raw := #[], types := [{ ty := #[84], member := star }] }
    (bindTypes C tt [s] [some 0]).toOption.map (fun es => es.map fun e =>
      match e with | .output cols => cols.map (·.1) | _ => []) = some [[star]] := by
  decide

end Sqlair
