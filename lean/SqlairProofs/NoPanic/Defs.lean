/-
  NoPanic/Defs: vocabulary of the no-panic theorems (property C18).

  * `ValWF tt v`: the value tree `v` has the shape its type descriptors promise (what Go's
    type system guarantees of every real `reflect.Value`); `valWF tt fuel v` is a Boolean
    checker with fuel, sound and complete for `ValWF` (`valWF_sound`, `ValWF.complete`).
  * `TableWF tt`: every `elem`/`key`/field type id of the table is `< tt.size`.
  * `PathOK tt sid path`: the reflect index path `path` follows existing fields from the
    struct type `sid`, stepping through (pointers to) struct types.
  * `IsPanic e`: the error class `e` stands for a Go panic (`"panic-…"`).
-/
import SqlairModel.Scan

namespace Sqlair

/-! ### panic classes -/

/-- the error class models a Go panic -/
def IsPanic (e : String) : Prop := e.startsWith "panic-" = true

instance (e : String) : Decidable (IsPanic e) := by unfold IsPanic; infer_instance

/-! ### well-formed values -/

/-- `ValWF tt v`: the shape of `v` is the shape its type descriptor promises.
    * kind struct: a `.struct` node with exactly one well-formed value per field descriptor,
      each of the field's type;
    * kind ptr: a `.ptr` node, nil or holding a well-formed value of the elem type;
    * kind slice: a `.slice` node whose elements are well-formed and of the elem type (so
      they are `.iface` nodes when the elem kind is interface);
    * kind map: a `.map` node, nil or with well-formed elements of the elem type (keys are
      byte strings in the model; nothing is required of the key type, so maps that
      `getArgInfo` rejects are covered too);
    * kind interface: an `.iface` node, nil or holding ANY well-formed value;
    * kinds string / other: a `.leaf`.
    `.invalid` (the zero `reflect.Value`, an untyped nil argument) is not well-formed. -/
inductive ValWF (tt : TypeTable) : GoVal → Prop
  | leaf (h : VH) (hk : (tt.get h.t).kind = .string ∨ (tt.get h.t).kind = .other) : ValWF tt (.leaf h)
  | struct (h : VH) (fs : List GoVal) (hk : (tt.get h.t).kind = .struct)
      (hlen : fs.length = (tt.get h.t).fields.length)
      (hty : ∀ (i : Nat) (f : GoVal) (fd : FieldDesc), fs[i]? = some f → (tt.get h.t).fields[i]? = some fd → f.tid = fd.ty)
      (hwf : ∀ f ∈ fs, ValWF tt f) : ValWF tt (.struct h fs)
  | ptrNil (h : VH) (hk : (tt.get h.t).kind = .ptr) : ValWF tt (.ptr h none)
  | ptr (h : VH) (p : GoVal) (hk : (tt.get h.t).kind = .ptr) (hty : p.tid = (tt.get h.t).elem)
      (hwf : ValWF tt p) : ValWF tt (.ptr h (some p))
  | mapNil (h : VH) (hk : (tt.get h.t).kind = .map) : ValWF tt (.map h none)
  | map (h : VH) (kv : List (Bytes × GoVal)) (hk : (tt.get h.t).kind = .map)
      (hty : ∀ e ∈ kv, e.2.tid = (tt.get h.t).elem) (hwf : ∀ e ∈ kv, ValWF tt e.2) :
      ValWF tt (.map h (some kv))
  | slice (h : VH) (els : List GoVal) (hk : (tt.get h.t).kind = .slice)
      (hty : ∀ e ∈ els, e.tid = (tt.get h.t).elem) (hwf : ∀ e ∈ els, ValWF tt e) :
      ValWF tt (.slice h els)
  | ifaceNil (h : VH) (hk : (tt.get h.t).kind = .iface) : ValWF tt (.iface h none)
  | iface (h : VH) (p : GoVal) (hk : (tt.get h.t).kind = .iface) (hwf : ValWF tt p) :
      ValWF tt (.iface h (some p))

/-- Boolean checker for `ValWF`; `fuel` bounds the height of the value tree -/
def valWF (tt : TypeTable) : Nat → GoVal → Bool
  | 0, _ => false
  | _+1, .invalid => false
  | _+1, .leaf h => (tt.get h.t).kind == .string || (tt.get h.t).kind == .other
  | n+1, .struct h fs =>
    (tt.get h.t).kind == .struct && fs.length == (tt.get h.t).fields.length &&
    (fs.zip (tt.get h.t).fields).all (fun p => p.1.tid == p.2.ty && valWF tt n p.1)
  | _+1, .ptr h none => (tt.get h.t).kind == .ptr
  | n+1, .ptr h (some p) => (tt.get h.t).kind == .ptr && p.tid == (tt.get h.t).elem && valWF tt n p
  | _+1, .map h none => (tt.get h.t).kind == .map
  | n+1, .map h (some kv) =>
    (tt.get h.t).kind == .map && kv.all (fun e => e.2.tid == (tt.get h.t).elem && valWF tt n e.2)
  | n+1, .slice h els =>
    (tt.get h.t).kind == .slice && els.all (fun e => e.tid == (tt.get h.t).elem && valWF tt n e)
  | _+1, .iface h none => (tt.get h.t).kind == .iface
  | n+1, .iface h (some p) => (tt.get h.t).kind == .iface && valWF tt n p

/-! ### well-formed type tables -/

/-- every `elem`, `key` and field type id of the table is an id of the table -/
def TableWF (tt : TypeTable) : Prop :=
  ∀ i, i < tt.size →
    (tt.get i).elem < tt.size ∧ (tt.get i).key < tt.size ∧ ∀ fd ∈ (tt.get i).fields, fd.ty < tt.size

instance (tt : TypeTable) : Decidable (TableWF tt) := by unfold TableWF; infer_instance

/-! ### index paths -/

/-- the struct type an embedded field of type `ty` stands for: `T` for `T` and for `*T` -/
def npEmbTarget (tt : TypeTable) (ty : Nat) : Nat :=
  if (tt.get ty).kind == .ptr then (tt.get ty).elem else ty

/-- the index path follows existing fields from the struct type `sid`; every step but the
    last goes through a field whose type is a struct type or a pointer to one -/
def PathOK (tt : TypeTable) : Nat → List Nat → Prop
  | _, [] => True
  | sid, i :: rest =>
    ∃ fd, (tt.get sid).fields[i]? = some fd ∧
      (rest = [] ∨ ((tt.get (npEmbTarget tt fd.ty)).kind = .struct ∧ PathOK tt (npEmbTarget tt fd.ty) rest))

/-- `fieldTypeOf` with the degenerate branch made visible: `none` when the path leaves the
    fields of the table -/
def fieldTypeOf? (tt : TypeTable) : Nat → List Nat → Bool → Option Nat
  | tid, [], _ => some tid
  | tid, i :: rest, first =>
    let td := tt.get tid
    let td := if !first && td.kind == .ptr then tt.get td.elem else td
    match td.fields[i]? with
    | some f => fieldTypeOf? tt f.ty rest false
    | none => none

end Sqlair
