"""Static configuration of the checks: which layers serve which property, sizes per tier."""

TRUSTED_BASE = [
    "Lean 4.33 kernel; axioms limited to propext, Classical.choice, Quot.sound (audited with #print axioms each run)",
    "the Go harness (/verif/harness: generators, fake database/sql driver, reflect->descriptor translator, canonicaliser), "
    "the Lean driver's JSON glue, this orchestrator",
    "the two verif-tagged read-only hooks in /repo (parsed segments, cache snapshot)",
    "correspondence is sampling: it bounds, not eliminates, divergence between model and code",
]

LAYERS = {
    'l1': {
        'n': {'quick': 4000, 'thorough': 60000},
        'shards': {'quick': 1, 'thorough': 12},
        'crash_props': ['C18'],
    },
}

PROPS = {
    'C01': {
        'layers': ['l1'],
        'modelled_not_verified': ["UTF-8 decoding is proved to satisfy the decoder assumptions (DecOK) but its equality with Go's "
                                  "utf8.DecodeRuneInString is checked by correspondence only",
                                  "strings.EqualFold on the two ASCII keywords is modelled as ASCII case folding",
                                  "unicode.IsLetter/IsDigit are parameters of every theorem (shipped from Go per case)"],
        'assumptions': ["prevExprEnd/currentExprStart/exprs are touched by the main loop only (frame property is by construction "
                        "of the model; validated by the segment correspondence)"],
    },
    'C02': {
        'layers': ['l1'],
        'modelled_not_verified': ["as C01"],
        'assumptions': ["the reference lexer in Lean (SqlairModel/Lexer.lean) is the specification of literal/comment regions"],
    },
    'C19': {
        'layers': ['l1'],
        'modelled_not_verified': ["as C01", "fmt formatting of the messages is ported by hand; %q of arbitrary text is compared by its fixed parts only"],
        'assumptions': [],
    },
}
