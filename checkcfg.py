"""Static configuration of the checks: which layers serve which property, sizes per tier."""

TRUSTED_BASE = [
    "Lean 4.33 kernel; axioms limited to propext, Classical.choice, Quot.sound (audited with #print axioms each run)",
    "the Go harness (/verif/harness: generators, fake database/sql driver, reflect->descriptor translator, canonicaliser), "
    "the Lean driver's JSON glue, this orchestrator",
    "the two verif-tagged read-only hooks in /repo (parsed segments, cache snapshot)",
    "correspondence is sampling: it bounds, not eliminates, divergence between model and code",
]

LAYERS = {
    'l1': {
        'n': {'quick': 4000, 'thorough': 60000},
        'shards': {'quick': 1, 'thorough': 12},
        'crash_props': ['C18'],
    },
    'l2': {
        'n': {'quick': 2500, 'thorough': 30000},
        'shards': {'quick': 1, 'thorough': 12},
        'extra': {'quick': [], 'thorough': ['-conc', '4']},
        'crash_props': ['C18'],
    },
    'l4': {
        'n': {'quick': 3000, 'thorough': 40000},
        'shards': {'quick': 1, 'thorough': 8},
        'crash_props': ['C18'],
    },
}

PROPS = {
    'C01': {
        'layers': ['l1', 'l2'],
        'modelled_not_verified': ["UTF-8 decoding is proved to satisfy the decoder assumptions (DecOK) but its equality with Go's "
                                  "utf8.DecodeRuneInString is checked by correspondence only",
                                  "strings.EqualFold on the two ASCII keywords is modelled as ASCII case folding",
                                  "unicode.IsLetter/IsDigit are parameters of every theorem (shipped from Go per case)"],
        'assumptions': ["prevExprEnd/currentExprStart/exprs are touched by the main loop only (frame property is by construction "
                        "of the model; validated by the segment correspondence)"],
    },
    'C02': {
        'layers': ['l1'],
        'modelled_not_verified': ["as C01"],
        'assumptions': ["the reference lexer in Lean (SqlairModel/Lexer.lean) is the specification of literal/comment regions"],
    },
    'C19': {
        'layers': ['l1'],
        'modelled_not_verified': ["as C01", "fmt formatting of the messages is ported by hand; %q of arbitrary text is compared by its fixed parts only"],
        'assumptions': [],
    },
}

PARSER_NOTE = ("Trusted: Lean kernel; model is a hand port of parser.go validated per run by the L1 correspondence (segments, raw text, "
               "error line/column/message) on generated queries; theorems assume DecOK of the decoder (proved for the model's decodeRune) and, "
               "where stated, ClassOK (newline is not a letter/digit); the decoder's equality with Go's utf8 and EqualFold->ASCII folding are "
               "checked by correspondence only")

CLAIMED = {
    'C01': {
        'text': "Proved in Lean for every byte string, decoder satisfying DecOK and classifier: the parser model's nodes tile the input "
                "(c01_parse_tiling, c01_spans_chain, restore discipline lemmas); the model is tied to parser.go by per-run differential "
                "correspondence (L1: nodes; L2: SQL at the driver, bypass chunks verbatim and in order). Proof is the right level because the property "
                "quantifies over all byte strings and the defect class (a helper that consumes without restoring) is invisible to sampled tests.",
        'note': PARSER_NOTE + "; the expansion side (render) is covered by the L2 model correspondence, its theorems are registered under C03-C05",
        'technique': 'Lean 4 proof over executable parser model (invariants, restore discipline) + differential correspondence',
        'design_ref': 'DESIGN.md section 5 C01, Appendix A',
    },
    'C19': {
        'text': "Proved in Lean for every input: every parse error of the model has a (line, column) that is the position of an offset inside the text "
                "and shows the line iff the input is multi-line (c19_error_position_partial under ClassOK, plus the classifier-free variant and a "
                "machine-checked counterexample showing ClassOK is needed); and for every k>0 the observation of newline^k ++ q is the observation of q "
                "moved by k lines (c19_newline_shift, c19_shift_accept_iff, c19_holds: the very predicate evaluated on the implementation). The implementation is "
                "compared with the model and checked against holdsC19 on every generated query and its k in {1,2,7} shifts.",
        'note': PARSER_NOTE,
        'technique': 'Lean 4 proof (line-bookkeeping invariant through every parse function) + differential correspondence on (q, newline-prefixed q)',
        'design_ref': 'DESIGN.md section 5 C19',
    },
}

NOT_CLAIMED_REASON = {}
