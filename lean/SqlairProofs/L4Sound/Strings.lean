/-
  L4Sound, strings: what the predicates of Spec/L4 can see of a rendered error, event or
  iterator result.  Rendered errors are told apart by their first character (the three
  parametric forms start with 'i', 's', 'w'); `String.splitOn` is evaluated on literals
  through a fuel-indexed copy of `String.splitOnAux`.
-/
import SqlairProofs.L4Sound.Defs
import SqlairProofs.Runtime.Tx

namespace Sqlair.Rt

/-! ### lists of characters -/

theorem l4s_ne_of_head {s lit : String} {ch ch' : Char} {rest rest' : List Char}
    (hs : s.toList = ch :: rest) (hl : lit.toList = ch' :: rest') (hne : ch ≠ ch') : s ≠ lit := by
  intro h
  rw [h, hl] at hs
  simp at hs
  exact hne hs.1.symm

theorem l4s_not_startsWith_of_head {s lit : String} {ch ch' : Char} {rest rest' : List Char}
    (hs : s.toList = ch :: rest) (hl : lit.toList = ch' :: rest') (hne : ch ≠ ch') :
    s.startsWith lit = false := by
  rw [String.startsWith_string_eq_false_iff, hs, hl]
  rintro ⟨t, ht⟩
  simp at ht
  exact hne ht.1.symm

theorem l4s_startsWith_append (p s : String) : (p ++ s).startsWith p = true := by
  rw [String.startsWith_string_iff, String.toList_append]
  exact List.prefix_append _ _

theorem l4s_append_ne_empty {p : String} (s : String) (hp : p ≠ "") : p ++ s ≠ "" := by
  intro h
  have h1 := congrArg String.toList h
  rw [String.toList_append] at h1
  have h2 : p.toList = [] := by
    have : "".toList = [] := by decide
    rw [this] at h1
    exact (List.append_eq_nil_iff.1 h1).1
  exact hp (String.toList_inj.1 (by rw [h2]; decide))

/-! ### rendered errors -/

theorem l4s_render_inj (n : Nat) : (Err.inj n).render = "inj:" ++ toString n := by
  simp [Err.render, toString]

/-- the parametric forms -/
def Err.l4s_param : Err → Bool
  | .inj _ | .sqlair _ | .wrapped _ => true
  | _ => false

theorem l4s_render_head (e : Err) (h : e.l4s_param = true) :
    ∃ ch rest, e.render.toList = ch :: rest ∧ (ch = 'i' ∨ ch = 's' ∨ ch = 'w') := by
  have l1 : "inj:".toList = ['i','n','j',':'] := by decide
  have l2 : "sqlair:".toList = ['s','q','l','a','i','r',':'] := by decide
  have l3 : "wrapped(".toList = ['w','r','a','p','p','e','d','('] := by decide
  cases e <;> simp [Err.l4s_param] at h
  · exact ⟨'i', _, by rw [l4s_render_inj, String.toList_append, l1]; rfl, by simp⟩
  · exact ⟨'s', _, by rw [Err.render, String.toList_append, l2]; rfl, by simp⟩
  · exact ⟨'w', _, by rw [Err.render, String.toList_append, String.toList_append, l3]; rfl, by simp⟩

/-- a parametric error is not rendered as a literal starting with another character -/
theorem l4s_render_ne_lit {e : Err} (h : e.l4s_param = true) {lit : String} (ch : Char) {rest : List Char}
    (hl : lit.toList = ch :: rest) (hc : ch ≠ 'i' ∧ ch ≠ 's' ∧ ch ≠ 'w') : e.render ≠ lit := by
  obtain ⟨ch', rest', h1, h2⟩ := l4s_render_head e h
  refine l4s_ne_of_head h1 hl ?_
  rcases h2 with rfl | rfl | rfl
  · exact fun h => hc.1 h.symm
  · exact fun h => hc.2.1 h.symm
  · exact fun h => hc.2.2 h.symm

theorem l4s_render_param_not_startsWith {e : Err} (h : e.l4s_param = true) {lit : String} (ch : Char)
    {rest : List Char} (hl : lit.toList = ch :: rest) (hc : ch ≠ 'i' ∧ ch ≠ 's' ∧ ch ≠ 'w') :
    e.render.startsWith lit = false := by
  obtain ⟨ch', rest', h1, h2⟩ := l4s_render_head e h
  refine l4s_not_startsWith_of_head h1 hl ?_
  rcases h2 with rfl | rfl | rfl
  · exact fun h => hc.1 h.symm
  · exact fun h => hc.2.1 h.symm
  · exact fun h => hc.2.2 h.symm

theorem l4s_render_ne_empty (e : Err) : e.render ≠ "" := by
  cases e
  case inj n => rw [l4s_render_inj]; exact l4s_append_ne_empty _ (by decide)
  case sqlair c => exact l4s_append_ne_empty _ (by decide)
  case wrapped e =>
    show "wrapped(" ++ e.render ++ ")" ≠ ""
    rw [String.append_assoc]; exact l4s_append_ne_empty _ (by decide)
  all_goals decide

theorem l4s_render_eq_noRows {e : Err} : e.render = "noRows" ↔ e = .noRows := by
  constructor
  · intro h
    cases e
    case noRows => rfl
    case inj n => exact absurd h (l4s_render_ne_lit rfl 'n' rfl (by decide))
    case sqlair c => exact absurd h (l4s_render_ne_lit rfl 'n' rfl (by decide))
    case wrapped e => exact absurd h (l4s_render_ne_lit rfl 'n' rfl (by decide))
    all_goals (revert h; decide)
  · rintro rfl; rfl

theorem l4s_render_eq_ctx {e : Err} : e.render = "ctx" ↔ e = .ctx := by
  constructor
  · intro h
    cases e
    case ctx => rfl
    case inj n => exact absurd h (l4s_render_ne_lit rfl 'c' rfl (by decide))
    case sqlair c => exact absurd h (l4s_render_ne_lit rfl 'c' rfl (by decide))
    case wrapped e => exact absurd h (l4s_render_ne_lit rfl 'c' rfl (by decide))
    all_goals (revert h; decide)
  · rintro rfl; rfl

theorem l4s_render_eq_txDone {e : Err} : e.render = "txDone" ↔ e = .txDone := by
  constructor
  · intro h
    cases e
    case txDone => rfl
    case inj n => exact absurd h (l4s_render_ne_lit rfl 't' rfl (by decide))
    case sqlair c => exact absurd h (l4s_render_ne_lit rfl 't' rfl (by decide))
    case wrapped e => exact absurd h (l4s_render_ne_lit rfl 't' rfl (by decide))
    all_goals (revert h; decide)
  · rintro rfl; rfl

/-- `"wrapped(" ++ r ++ ")"` is injective in `r` -/
theorem l4s_wrapped_inj {r r' : String} (h : "wrapped(" ++ r ++ ")" = "wrapped(" ++ r' ++ ")") : r = r' := by
  have h1 := congrArg String.toList h
  simp only [String.toList_append] at h1
  have h2 := List.append_cancel_right h1
  have h3 := List.append_cancel_left h2
  exact String.toList_inj.1 h3

theorem l4s_render_eq_wrapped {e : Err} (b : Err) (lit : String) (hlit : lit = "wrapped(" ++ b.render ++ ")")
    (hb : ∀ e', e'.render = b.render → e' = b) (hw : lit.toList.head? = some 'w') (hnl : ∀ e' : Err, e'.l4s_param = false → e'.render ≠ lit) :
    e.render = lit ↔ e = .wrapped b := by
  constructor
  · intro h
    cases e
    case wrapped e' =>
      have : e'.render = b.render := l4s_wrapped_inj (by rw [← hlit]; exact h)
      rw [hb e' this]
    case inj n =>
      exfalso
      have l1 : "inj:".toList = ['i','n','j',':'] := by decide
      have h1 := congrArg String.toList h
      rw [l4s_render_inj, String.toList_append, l1] at h1
      rw [← h1] at hw; simp at hw
    case sqlair c =>
      exfalso
      have l2 : "sqlair:".toList = ['s','q','l','a','i','r',':'] := by decide
      have h1 := congrArg String.toList h
      rw [Err.render, String.toList_append, l2] at h1
      rw [← h1] at hw; simp at hw
    case noRows => exact absurd h (hnl _ rfl)
    case txDone => exact absurd h (hnl _ rfl)
    case ctx => exact absurd h (hnl _ rfl)
    case rowsClosed => exact absurd h (hnl _ rfl)
    case scan => exact absurd h (hnl _ rfl)
  · rintro rfl; rw [hlit]; rfl

theorem l4s_render_eq_wrapped_ctx {e : Err} : e.render = "wrapped(ctx)" ↔ e = .wrapped .ctx :=
  l4s_render_eq_wrapped .ctx _ (by decide) (fun _ h => l4s_render_eq_ctx.1 h) (by decide)
    (by intro e' h; cases e' <;> simp [Err.l4s_param] at h <;> decide)

theorem l4s_render_eq_wrapped_txDone {e : Err} : e.render = "wrapped(txDone)" ↔ e = .wrapped .txDone :=
  l4s_render_eq_wrapped .txDone _ (by decide) (fun _ h => l4s_render_eq_txDone.1 h) (by decide)
    (by intro e' h; cases e' <;> simp [Err.l4s_param] at h <;> decide)

theorem l4s_render_not_row (e : Err) : e.render.startsWith "row:" = false := by
  cases e
  case inj n => exact l4s_render_param_not_startsWith rfl 'r' rfl (by decide)
  case sqlair c => exact l4s_render_param_not_startsWith rfl 'r' rfl (by decide)
  case wrapped e => exact l4s_render_param_not_startsWith rfl 'r' rfl (by decide)
  all_goals decide +kernel

theorem l4s_render_not_outcome (e : Err) : e.render.startsWith "outcome:" = false := by
  cases e
  case inj n => exact l4s_render_param_not_startsWith rfl 'o' rfl (by decide)
  case sqlair c => exact l4s_render_param_not_startsWith rfl 'o' rfl (by decide)
  case wrapped e => exact l4s_render_param_not_startsWith rfl 'o' rfl (by decide)
  all_goals decide +kernel

theorem l4s_render_sqlair_startsWith (c : String) : (Err.sqlair c).render.startsWith "sqlair:" = true :=
  l4s_startsWith_append _ _

theorem l4s_renderOpt_eq_empty {e : Option Err} : renderOpt e = "" ↔ e = none := by
  cases e with
  | none => simp [renderOpt]
  | some e => simp [renderOpt, l4s_render_ne_empty]

theorem l4s_renderOpt_some (e : Err) : renderOpt (some e) = e.render := rfl
theorem l4s_renderOpt_none : renderOpt none = "" := rfl

/-! ### rendered rows -/

/-- how `runCalls` prints a row -/
def l4s_rowStr (id : Nat) : String := s!"row:{id}"

theorem l4s_rowStr_eq (id : Nat) : l4s_rowStr id = "row:" ++ toString id := by
  simp [l4s_rowStr, toString]

theorem l4s_rowStr_startsWith (id : Nat) : (l4s_rowStr id).startsWith "row:" = true := by
  rw [l4s_rowStr_eq]; exact l4s_startsWith_append _ _

theorem l4s_rowStr_ne_empty (id : Nat) : l4s_rowStr id ≠ "" := by
  rw [l4s_rowStr_eq]; exact l4s_append_ne_empty _ (by decide)

/-! ### rendered events -/

theorem l4s_render_eq_rowsClose (e : Ev) : (e.render == "rowsClose") = (e == .rowsClose) := by
  cases e <;> decide
theorem l4s_render_eq_query (e : Ev) : (e.render == "query") = (e == .query) := by
  cases e <;> decide
theorem l4s_render_eq_exec (e : Ev) : (e.render == "exec") = (e == .exec) := by
  cases e <;> decide
theorem l4s_render_eq_next (e : Ev) : (e.render == "next") = (e == .next) := by
  cases e <;> decide
theorem l4s_isFinisher_render (e : Ev) : isFinisher e.render = e.isFin := by
  cases e <;> decide

/-! ### `String.splitOn` on literals -/

/-- `String.splitOnAux` with fuel: structurally recursive, hence evaluated by the kernel -/
def l4s_splitFuel : Nat → String → String → String.Pos.Raw → String.Pos.Raw → String.Pos.Raw →
    List String → Option (List String)
  | 0, _, _, _, _, _, _ => none
  | f+1, s, sep, b, i, j, r =>
    if i.atEnd s then
      some ((b.extract s i)::r).reverse
    else
      if i.get s == j.get sep then
        if (j.next sep).atEnd sep then
          l4s_splitFuel f s sep (i.next s) (i.next s) 0 (b.extract s ((i.next s).unoffsetBy (j.next sep))::r)
        else
          l4s_splitFuel f s sep b (i.next s) (j.next sep) r
      else
        l4s_splitFuel f s sep b ((i.unoffsetBy j).next s) 0 r

theorem l4s_splitFuel_sound (f : Nat) : ∀ (s sep : String) (b i j : String.Pos.Raw) (r l : List String),
    l4s_splitFuel f s sep b i j r = some l → String.splitOnAux s sep b i j r = l := by
  induction f with
  | zero => intro s sep b i j r l h; simp [l4s_splitFuel] at h
  | succ f ih =>
    intro s sep b i j r l h
    rw [String.splitOnAux]
    simp only [l4s_splitFuel] at h
    split at h
    · simp_all
    · rename_i h1
      simp only [h1, Bool.false_eq_true, if_false]
      split at h
      · rename_i h2
        simp only [h2, if_true]
        split at h
        · rename_i h3; simp only [h3, if_true]; exact ih _ _ _ _ _ _ _ h
        · rename_i h3; simp only [h3, Bool.false_eq_true, if_false]; exact ih _ _ _ _ _ _ _ h
      · rename_i h2
        simp only [h2, Bool.false_eq_true, if_false]; exact ih _ _ _ _ _ _ _ h

theorem l4s_splitOn_of_fuel (f : Nat) (s sep : String) (l : List String) (hsep : (sep == "") = false)
    (h : l4s_splitFuel f s sep 0 0 0 [] = some l) : s.splitOn sep = l := by
  unfold String.splitOn
  simp only [hsep, Bool.false_eq_true, if_false]
  exact l4s_splitFuel_sound f _ _ _ _ _ _ _ h

end Sqlair.Rt
