/-
  L2Sound/Defs: the observation the MODEL produces for a successful Prepare + Query
  (`modelBindObs`), and the vocabulary of the soundness theorems of the observation-level
  predicates of `Spec/L2.lean`:
  * `L2sIn v k a`: the value `v` is a node of the value tree `a`, `k` levels below its root;
  * `GoVal.l2s_fits d a`: the tree `a` has height at most `d` and no `.invalid` node
    (Boolean, structural on the fuel `d` like `GoVal.texts`).
-/
import SqlairModel.Spec.L2

namespace Sqlair

/-- the observation of a run that behaves exactly like the model: Prepare and Query succeed,
    the driver receives the rendered SQL and the parameters named `sqlair_<n>`, through
    `Query` iff there are outputs; two driver calls (prepare + query/exec) -/
def modelBindObs (pq : Primed) : BindObs :=
  { prepOk := true
    bindOk := true
    sql := renderSQL pq.pieces
    params := pq.params.map (fun (n, v) => (s!"sqlair_{n}", v))
    mode := if pq.outputs.isEmpty then "exec" else "query"
    events := 2 }

theorem l2s_mode_ne_none (pq : Primed) : ((modelBindObs pq).mode == "none") = false := by
  unfold modelBindObs
  simp only
  split <;> decide

theorem l2s_guard (pq : Primed) :
    (!((modelBindObs pq).prepOk && (modelBindObs pq).bindOk) || (modelBindObs pq).mode == "none") = false := by
  rw [l2s_mode_ne_none]; rfl

/-- `L2sIn v k a`: `v` is a node of the value tree `a`, `k` levels below the root, reached
    through struct fields, non-nil pointers, map values and slice elements (the only steps a
    value locator takes) -/
inductive L2sIn (v : GoVal) : Nat → GoVal → Prop
  | root : L2sIn v 0 v
  | field {k : Nat} {h : VH} {fs : List GoVal} {f : GoVal} (hf : f ∈ fs) (hin : L2sIn v k f) :
      L2sIn v (k + 1) (.struct h fs)
  | deref {k : Nat} {h : VH} {p : GoVal} (hin : L2sIn v k p) : L2sIn v (k + 1) (.ptr h (some p))
  | mapVal {k : Nat} {h : VH} {kv : List (Bytes × GoVal)} {e : Bytes × GoVal} (he : e ∈ kv)
      (hin : L2sIn v k e.2) : L2sIn v (k + 1) (.map h (some kv))
  | elem {k : Nat} {h : VH} {els : List GoVal} {e : GoVal} (he : e ∈ els) (hin : L2sIn v k e) :
      L2sIn v (k + 1) (.slice h els)

/-- the tree has height at most `d` (a single node has height 1, as for `GoVal.texts`) and
    contains no `.invalid` node -/
def GoVal.l2s_fits : Nat → GoVal → Bool
  | 0, _ => false
  | _+1, .invalid => false
  | _+1, .leaf _ => true
  | n+1, .struct _ fs => fs.all (GoVal.l2s_fits n)
  | _+1, .ptr _ none => true
  | n+1, .ptr _ (some p) => GoVal.l2s_fits n p
  | _+1, .map _ none => true
  | n+1, .map _ (some kv) => kv.all (fun e => GoVal.l2s_fits n e.2)
  | n+1, .slice _ els => els.all (GoVal.l2s_fits n)
  | _+1, .iface _ none => true
  | n+1, .iface _ (some p) => GoVal.l2s_fits n p

end Sqlair
