package main

import (
	"bytes"
	"context"
	"database/sql"
	"encoding/json"
	"errors"
	"flag"
	"fmt"
	"reflect"
	"strings"
	"time"

	"github.com/canonical/sqlair"
	_ "github.com/mattn/go-sqlite3"

	"verifharness/internal/rng"
)

// Types of the round-trip layer (C17): integer, text, real, blob, bool, nullable via
// pointers and sql.Null*, embedded, omitempty.
type SPerson struct {
	ID     int64   `db:"id"`
	Name   string  `db:"name"`
	Score  float64 `db:"score"`
	Data   []byte  `db:"data"`
	Active bool    `db:"active"`
}

type SNullable struct {
	ID   int64          `db:"id"`
	Nick *string        `db:"nick"`
	Age  *int64         `db:"age"`
	NS   sql.NullString `db:"ns"`
	NI   sql.NullInt64  `db:"ni"`
}

type SOmit struct {
	ID    int64   `db:"id,omitempty"`
	Name  string  `db:"name,omitempty"`
	Score float64 `db:"score,omitempty"`
}

type SOmit2 struct {
	ID   int64  `db:"id"`
	Note string `db:"note,omitempty"`
	Cnt  int64  `db:"cnt,omitempty"`
}

type SOmitPtr struct {
	ID    int64   `db:"id"`
	Cnt   *int64  `db:"cnt,omitempty"`
	Label *string `db:"label,omitempty"`
}

type SEmb struct {
	SPerson
	Extra string `db:"extra"`
}

// SDeep: embedding four levels deep with several members at the deeper levels (index
// paths of length 4 and 5).
type SDGeo struct {
	Zone string `db:"zone"`
	Code int64  `db:"code"`
}

type SDCoords struct {
	Lat float64 `db:"lat"`
	Lon float64 `db:"lon"`
	Alt int64   `db:"alt,omitempty"`
	SDGeo
}

type SDLocation struct {
	City string `db:"city"`
	SDCoords
}

type SDContact struct {
	Email string `db:"email"`
	SDLocation
}

type SDeep struct {
	ID int64 `db:"id"`
	SDContact
}

// SBlob: byte slices, unnamed and of a named type; nil is stored as NULL and read back as nil.
type SRaw []byte

type SBlob struct {
	ID   int64  `db:"id"`
	Raw  []byte `db:"raw"`
	Body SRaw   `db:"body"`
}

type SIDs []int64

type sqliteType struct {
	t    reflect.Type
	cols []string // db tags in sorted order = column names
	ddl  string
}

var sqliteTypes = []sqliteType{
	{reflect.TypeOf(SPerson{}), []string{"active", "data", "id", "name", "score"}, "id INTEGER, name TEXT, score REAL, data BLOB, active BOOLEAN"},
	{reflect.TypeOf(SNullable{}), []string{"age", "id", "ni", "nick", "ns"}, "id INTEGER, nick TEXT, age INTEGER, ns TEXT, ni INTEGER"},
	{reflect.TypeOf(SOmit{}), []string{"id", "name", "score"}, "id INTEGER, name TEXT, score REAL"},
	{reflect.TypeOf(SOmit2{}), []string{"cnt", "id", "note"}, "id INTEGER, note TEXT, cnt INTEGER"},
	{reflect.TypeOf(SOmitPtr{}), []string{"cnt", "id", "label"}, "id INTEGER, cnt INTEGER, label TEXT"},
	{reflect.TypeOf(SEmb{}), []string{"active", "data", "extra", "id", "name", "score"}, "id INTEGER, name TEXT, score REAL, data BLOB, active BOOLEAN, extra TEXT"},
	{reflect.TypeOf(SBlob{}), []string{"body", "id", "raw"}, "id INTEGER, raw BLOB, body BLOB"},
	{reflect.TypeOf(SDeep{}), []string{"alt", "city", "code", "email", "id", "lat", "lon", "zone"}, "id INTEGER, email TEXT, city TEXT, lat REAL, lon REAL, alt INTEGER, zone TEXT, code INTEGER"},
}

func fillSQLite(r *rng.R, v reflect.Value, id int64) {
	t := v.Type()
	for i := 0; i < t.NumField(); i++ {
		f := v.Field(i)
		sf := t.Field(i)
		if sf.Anonymous {
			fillSQLite(r, f, id)
			continue
		}
		zero := r.Chance(1, 4)
		tag := strings.Split(sf.Tag.Get("db"), ",")[0]
		switch f.Kind() {
		case reflect.Int64:
			if tag == "id" {
				if !(zero && strings.Contains(sf.Tag.Get("db"), "omitempty")) {
					f.SetInt(id)
				}
			} else if !zero {
				f.SetInt(int64(r.Intn(100000)) - 500)
			}
		case reflect.String:
			if !zero {
				f.SetString(r.Pick([]string{"alice", "bob", "it's", "a\"b", "名前", "x y", "-- c", "$T.x", "", "NULL"}) + fmt.Sprint(r.Intn(50)))
			}
		case reflect.Float64:
			if !zero {
				f.SetFloat(float64(r.Intn(4000))/8 - 100)
			}
		case reflect.Bool:
			f.SetBool(r.Chance(1, 2))
		case reflect.Slice:
			if !zero {
				f.SetBytes([]byte{byte(r.Intn(256)), 0, byte(r.Intn(256))})
			} else if r.Chance(1, 2) {
				f.SetBytes([]byte{})
			}
		case reflect.Pointer:
			if !zero {
				p := reflect.New(f.Type().Elem())
				if r.Chance(1, 3) {
					// a non-nil pointer to the zero value
				} else if p.Elem().Kind() == reflect.String {
					p.Elem().SetString(fmt.Sprintf("n%d", r.Intn(99)))
				} else {
					p.Elem().SetInt(int64(r.Intn(99)))
				}
				f.Set(p)
			}
		case reflect.Struct:
			switch x := f.Addr().Interface().(type) {
			case *sql.NullString:
				if !zero {
					*x = sql.NullString{String: fmt.Sprintf("ns%d", r.Intn(99)), Valid: true}
				}
			case *sql.NullInt64:
				if !zero {
					*x = sql.NullInt64{Int64: int64(r.Intn(99)), Valid: true}
				}
			}
		}
	}
}

// normalise makes nil and empty byte slices equal.
func normalise(v reflect.Value) {
	switch v.Kind() {
	case reflect.Struct:
		for i := 0; i < v.NumField(); i++ {
			if v.Field(i).CanSet() {
				normalise(v.Field(i))
			}
		}
	case reflect.Slice:
		if v.Type().Elem().Kind() == reflect.Uint8 && v.Len() == 0 {
			v.Set(reflect.Zero(v.Type()))
		}
	}
}

func dumpTable(db *sql.DB, tbl string, cols []string) ([]string, error) {
	rows, err := db.Query("SELECT " + strings.Join(cols, ", ") + " FROM " + tbl + " ORDER BY rowid")
	if err != nil {
		return nil, err
	}
	defer rows.Close()
	var out []string
	for rows.Next() {
		vals := make([]any, len(cols))
		ptrs := make([]any, len(cols))
		for i := range vals {
			ptrs[i] = &vals[i]
		}
		if err := rows.Scan(ptrs...); err != nil {
			return nil, err
		}
		for i, v := range vals {
			if b, ok := v.([]byte); ok {
				vals[i] = fmt.Sprintf("blob:%x", b)
			}
		}
		out = append(out, fmt.Sprint(vals...))
	}
	return out, rows.Err()
}

func fieldByTag(v reflect.Value, tag string) reflect.Value {
	t := v.Type()
	for i := 0; i < t.NumField(); i++ {
		sf := t.Field(i)
		if sf.Anonymous {
			if r := fieldByTag(v.Field(i), tag); r.IsValid() {
				return r
			}
			continue
		}
		if strings.Split(sf.Tag.Get("db"), ",")[0] == tag {
			return v.Field(i)
		}
	}
	return reflect.Value{}
}

func omitEmptyTag(t reflect.Type, tag string) bool {
	for i := 0; i < t.NumField(); i++ {
		sf := t.Field(i)
		if sf.Anonymous {
			if omitEmptyTag(sf.Type, tag) {
				return true
			}
			continue
		}
		parts := strings.Split(sf.Tag.Get("db"), ",")
		if parts[0] == tag && len(parts) > 1 {
			return true
		}
	}
	return false
}

func engineRejections(cr *rng.R, fail func(prop string, c map[string]any, detail, sig string), dist map[string]int) {
	sqldb, err := sql.Open("sqlite3", ":memory:")
	if err != nil {
		fatalf("sqlite open: %v", err)
	}
	defer sqldb.Close()
	sqldb.SetMaxOpenConns(1)
	if _, err := sqldb.Exec("CREATE TABLE u (id INTEGER PRIMARY KEY, name TEXT NOT NULL, score REAL, data BLOB, active BOOLEAN)"); err != nil {
		fatalf("create table: %v", err)
	}
	db := sqlair.NewDB(sqldb)
	ctx := context.Background()
	ins := sqlair.MustPrepare("INSERT INTO u (*) VALUES ($SPerson.*) RETURNING &SPerson.*", SPerson{})
	first := SPerson{ID: 1 + int64(cr.Intn(50)), Name: "first"}
	var got SPerson
	if err := db.Query(ctx, ins, first).Get(&got); err != nil || got.ID != first.ID {
		fail("C17", map[string]any{"scenario": "insert returning", "row": fmt.Sprintf("%+v", first)}, fmt.Sprintf("INSERT ... RETURNING &T.* of a fresh row: %v, returned %+v", err, got), "")
		return
	}
	dup := SPerson{ID: first.ID, Name: "dup"}
	_, want := sqldb.Exec("INSERT INTO u (id, name) VALUES (?, ?)", dup.ID, dup.Name)
	if want == nil {
		fatalf("the engine accepted a duplicate key")
	}
	method := cr.Pick([]string{"get", "getall", "iter", "run"})
	dist["engine-rejection:"+method]++
	var gerr error
	q := db.Query(ctx, ins, dup)
	switch method {
	case "get":
		gerr = q.Get(&got)
	case "getall":
		var all []SPerson
		gerr = q.GetAll(&all)
	case "run":
		gerr = q.Run()
	default:
		it := q.Iter()
		for it.Next() {
		}
		gerr = it.Close()
	}
	if gerr == nil || gerr == sqlair.ErrNoRows || !strings.Contains(gerr.Error(), "UNIQUE") {
		fail("C17", map[string]any{"scenario": "insert returning, duplicate key", "method": method, "row": fmt.Sprintf("%+v", dup)},
			fmt.Sprintf("the engine rejects the statement (%v through database/sql) but SQLair's %s reported %v", want, method, gerr), "")
	}
	var cnt int
	sqldb.QueryRow("SELECT count(*) FROM u").Scan(&cnt)
	if cnt != 1 {
		fail("C17", map[string]any{"scenario": "insert returning, duplicate key", "method": method}, fmt.Sprintf("the table holds %d rows, expected 1", cnt), "")
	}
}

func runSQLite(args []string) {
	fs := flag.NewFlagSet("sqlite", flag.ExitOnError)
	n := fs.Int("n", 300, "number of generated scenarios")
	seed := fs.Uint64("seed", 1, "seed")
	tier := fs.String("tier", "quick", "tier")
	fs.String("driver", "", "unused")
	out := fs.String("out", "", "report file")
	fs.String("repo", "/repo", "repository")
	fs.String("replay", "", "unused")
	fs.Parse(args)

	rep := newReport("sqlite", *seed, *tier)
	rep.Rule = "scenarios against in-memory SQLite: a table per struct type (integer, text, real, blob, bool, nullable pointers, sql.Null*, embedded, omitempty), rows inserted with a " +
		"random SQLair insert form (single/bulk []T/[]*T, (*) VALUES, explicit columns with asterisk, explicit columns with members), the same rows inserted with hand-written SQL " +
		"into a twin table; both tables dumped through plain database/sql and compared; rows read back with &T.* via GetAll and compared with what was inserted; then UPDATE/DELETE " +
		"with member and slice inputs mirrored by hand-written SQL; a quarter of the inserts behind a common table expression with inputs of its own, half of the single-row inserts built as Query objects before any is run, " +
		"rows read back into maps and pointers as well, a cached DELETE issued through a transaction (rolled back or committed); non-trivial = at least one row inserted; distinct by hash of type, form and values"
	r := rng.New(*seed)
	dist := map[string]int{}
	ctx := context.Background()

	fail := func(prop string, c map[string]any, detail, sig string) {
		f := Finding{Case: c, Kind: "holds", Detail: detail, Signature: sig}
		rep.addHolds(prop, f)
	}

	// statements the engine rejects while stepping them (constraint violations of an INSERT
	// ... RETURNING, which go-sqlite3 only steps on the first Next): every retrieval method
	// reports the failure, as the hand-written statement through database/sql does
	for k := 0; k < 6; k++ {
		engineRejections(r.Fork(), fail, dist)
	}
	// directed: rows read one by one into the same destination variable
	for _, w := range sqliteReuse() {
		fail("C17", map[string]any{"directed": "rows read back into one reused destination variable"}, w, "")
	}
	dist["reused-destination"]++
	for i := 0; i < *n; i++ {
		cr := r.Fork()
		st := sqliteTypes[cr.Intn(len(sqliteTypes))]
		tn := st.t.Name()
		sqldb, err := sql.Open("sqlite3", ":memory:")
		if err != nil {
			fatalf("sqlite open: %v", err)
		}
		sqldb.SetMaxOpenConns(1)
		for _, tbl := range []string{"t1", "t2"} {
			if _, err := sqldb.Exec("CREATE TABLE " + tbl + " (" + st.ddl + ")"); err != nil {
				fatalf("create table: %v", err)
			}
		}
		db := sqlair.NewDB(sqldb)
		nrows := 1 + cr.Intn(4)
		rowsV := reflect.MakeSlice(reflect.SliceOf(st.t), nrows, nrows)
		for k := 0; k < nrows; k++ {
			fillSQLite(cr, rowsV.Index(k), int64(k+1))
		}
		form := cr.Pick([]string{"single(*)", "bulk(*)", "bulkptr(*)", "single(cols)*", "bulk(cols)*", "single(cols)members"})
		// with omitempty types bulk rows must agree on zero-ness; harmonise on the first row
		harmonise := cr.Chance(3, 4)
		if strings.HasPrefix(form, "bulk") && harmonise {
			for _, c := range st.cols {
				if omitEmptyTag(st.t, c) {
					z := fieldByTag(rowsV.Index(0), c).IsZero()
					for k := 1; k < nrows; k++ {
						f := fieldByTag(rowsV.Index(k), c)
						if z {
							f.Set(reflect.Zero(f.Type()))
						} else if f.IsZero() {
							f.Set(fieldByTag(rowsV.Index(0), c))
						}
					}
				}
			}
		}
		caseJSON := map[string]any{"type": tn, "form": form, "rows": fmt.Sprintf("%+v", rowsV.Interface())}
		kb, _ := json.Marshal(caseJSON)
		rep.countCase(string(kb), true)
		dist["type:"+tn]++
		dist["form:"+form]++

		// insert through SQLair
		var q string
		var explicitCols []string
		switch {
		case strings.HasSuffix(form, "(*)"):
			q = "INSERT INTO t1 (*) VALUES ($" + tn + ".*)"
		case strings.HasSuffix(form, "(cols)*"):
			explicitCols = append([]string{}, st.cols...)
			for i := range explicitCols {
				j := cr.Intn(i + 1)
				explicitCols[i], explicitCols[j] = explicitCols[j], explicitCols[i]
			}
			explicitCols = explicitCols[:1+cr.Intn(len(explicitCols))]
			q = "INSERT INTO t1 (" + strings.Join(explicitCols, ", ") + ") VALUES ($" + tn + ".*)"
		default:
			explicitCols = append([]string{}, st.cols...)
			explicitCols = explicitCols[:1+cr.Intn(len(explicitCols))]
			var vals []string
			for _, c := range explicitCols {
				vals = append(vals, "$"+tn+"."+c)
			}
			q = "INSERT INTO t1 (" + strings.Join(explicitCols, ", ") + ") VALUES (" + strings.Join(vals, ", ") + ")"
		}
		// a quarter of the inserts are preceded by a common table expression holding inputs of
		// its own (unused by the insert: the hand-written twin needs nothing for it)
		withCTE := cr.Chance(1, 4)
		samplesI := []any{reflect.Zero(st.t).Interface()}
		argsI := func(a any) []any { return []any{a} }
		if withCTE {
			q = "WITH c(v) AS (SELECT 1 WHERE 7 IN ($SIDs[:])) " + q
			samplesI = append(samplesI, SIDs{})
			argsI = func(a any) []any { return []any{SIDs{7, 8}, a} }
			dist["insert-after-cte-with-inputs"]++
		}
		stmt, err := sqlair.Prepare(q, samplesI...)
		if err != nil {
			fail("C17", caseJSON, "Prepare rejected a well-typed insert: "+err.Error()+" / "+q, "")
			sqldb.Close()
			continue
		}
		var insErr error
		explicitZeroOmit := false
		switch {
		case strings.HasPrefix(form, "bulkptr"):
			ps := reflect.MakeSlice(reflect.SliceOf(reflect.PointerTo(st.t)), nrows, nrows)
			for k := 0; k < nrows; k++ {
				ps.Index(k).Set(rowsV.Index(k).Addr())
			}
			insErr = db.Query(ctx, stmt, argsI(ps.Interface())...).Run()
		case strings.HasPrefix(form, "bulk"):
			insErr = db.Query(ctx, stmt, argsI(rowsV.Interface())...).Run()
		default:
			if cr.Chance(1, 2) {
				// every Query is built first, then they are run in order: each still carries the
				// row it was built with
				var qs []*sqlair.Query
				for k := 0; k < nrows; k++ {
					qs = append(qs, db.Query(ctx, stmt, argsI(rowsV.Index(k).Interface())...))
				}
				for k := 0; k < nrows && insErr == nil; k++ {
					insErr = qs[k].Run()
				}
				dist["queries-built-before-run"]++
				break
			}
			for k := 0; k < nrows && insErr == nil; k++ {
				insErr = db.Query(ctx, stmt, argsI(rowsV.Index(k).Interface())...).Run()
			}
		}
		// expected rejections: an explicitly referenced omitempty member that is zero
		if explicitCols != nil {
			// listing a column makes it explicit, also when the value comes from $T.*
			for k := 0; k < nrows; k++ {
				for _, c := range explicitCols {
					if omitEmptyTag(st.t, c) && fieldByTag(rowsV.Index(k), c).IsZero() {
						explicitZeroOmit = true
					}
				}
			}
		}
		// a bulk insert whose rows disagree on the zero-ness of an omitempty member cannot be
		// written with one column list: it must be rejected
		mixed := false
		if strings.HasPrefix(form, "bulk") {
			used := st.cols
			if explicitCols != nil {
				used = explicitCols // only the listed columns are read from the rows
			}
			for _, c := range used {
				if omitEmptyTag(st.t, c) {
					z := fieldByTag(rowsV.Index(0), c).IsZero()
					for k := 1; k < nrows; k++ {
						if fieldByTag(rowsV.Index(k), c).IsZero() != z {
							mixed = true
						}
					}
				}
			}
		}
		if mixed && insErr == nil {
			fail("C17", caseJSON, "a bulk insert whose rows mix zero and non-zero values of an omitempty member was accepted: no single column list represents these rows, some row loses or gains a value / "+q, "")
			sqldb.Close()
			continue
		}
		if insErr != nil {
			msg := insErr.Error()
			switch {
			case mixed && strings.Contains(msg, "mix of zero"):
				dist["rejected:omitempty-mix"]++
			case explicitZeroOmit && strings.Contains(msg, "omitempty"):
				dist["rejected:explicit-zero-omitempty"]++
			case strings.Contains(msg, `near ")": syntax error`):
				// every column omitted: "() VALUES ()"
				dist["engine-rejected:all-columns-omitted"]++
				fail("C17", caseJSON, "the engine rejected a generated statement: "+msg, "insert_all_columns_omitted")
			default:
				fail("C17", caseJSON, "insert failed: "+msg+" / "+q, "")
			}
			sqldb.Close()
			continue
		}
		dist["inserted"]++
		// the same rows by hand: the columns SQLair must have written
		for k := 0; k < nrows; k++ {
			row := rowsV.Index(k)
			var cols []string
			var vals []any
			cand := st.cols
			if explicitCols != nil {
				cand = explicitCols
			}
			for _, c := range cand {
				f := fieldByTag(row, c)
				omitted := omitEmptyTag(st.t, c) && f.IsZero()
				if strings.HasPrefix(form, "bulk") {
					omitted = omitEmptyTag(st.t, c) && fieldByTag(rowsV.Index(0), c).IsZero()
				}
				if explicitCols != nil {
					omitted = false
				}
				if omitted {
					continue
				}
				cols = append(cols, c)
				vals = append(vals, f.Interface())
			}
			hq := "INSERT INTO t2 (" + strings.Join(cols, ", ") + ") VALUES (" + strings.TrimSuffix(strings.Repeat("?, ", len(cols)), ", ") + ")"
			if len(cols) == 0 {
				hq = "INSERT INTO t2 DEFAULT VALUES"
			}
			if _, err := sqldb.Exec(hq, vals...); err != nil {
				fatalf("hand-written insert failed: %v / %s", err, hq)
			}
		}
		d1, e1 := dumpTable(sqldb, "t1", st.cols)
		d2, e2 := dumpTable(sqldb, "t2", st.cols)
		if e1 != nil || e2 != nil {
			fatalf("dump: %v %v", e1, e2)
		}
		if fmt.Sprint(d1) != fmt.Sprint(d2) {
			fail("C17", caseJSON, fmt.Sprintf("database state differs from hand-written SQL: sqlair %v vs plain %v (%s)", d1, d2, q), "")
		}
		// read back with &T.*
		sel, err := sqlair.Prepare("SELECT &"+tn+".* FROM t1 ORDER BY rowid", reflect.Zero(st.t).Interface())
		if err != nil {
			fail("C17", caseJSON, "Prepare rejected the select: "+err.Error(), "")
			sqldb.Close()
			continue
		}
		got := reflect.New(reflect.SliceOf(st.t))
		if err := db.Query(ctx, sel).GetAll(got.Interface()); err != nil {
			fail("C17", caseJSON, "select failed: "+err.Error(), "")
			sqldb.Close()
			continue
		}
		// expected: inserted rows, with columns that were not written read back as zero
		want := reflect.MakeSlice(reflect.SliceOf(st.t), nrows, nrows)
		reflect.Copy(want, rowsV)
		if explicitCols != nil {
			for k := 0; k < nrows; k++ {
				for _, c := range st.cols {
					keep := false
					for _, ec := range explicitCols {
						if ec == c {
							keep = true
						}
					}
					if !keep {
						f := fieldByTag(want.Index(k), c)
						f.Set(reflect.Zero(f.Type()))
					}
				}
			}
		}
		for k := 0; k < nrows; k++ {
			normalise(want.Index(k))
		}
		g := got.Elem()
		for k := 0; k < g.Len(); k++ {
			normalise(g.Index(k))
		}
		if !reflect.DeepEqual(want.Interface(), g.Interface()) {
			eq := false
			if wb, err := json.Marshal(want.Interface()); err == nil {
				if gb, err := json.Marshal(g.Interface()); err == nil {
					eq = bytes.Equal(wb, gb)
				}
			}
			if !eq {
				fail("C17", caseJSON, fmt.Sprintf("round trip changed values: inserted %+v, read back %+v", want.Interface(), g.Interface()), "")
			}
		}
		dist["roundtrip-compared"]++
		// the same rows read back into maps and into pointers, one element per row, each with
		// the values of its own row (compared with the plain dump)
		if msel, err := sqlair.Prepare("SELECT ("+strings.Join(st.cols, ", ")+") AS (&M.*) FROM t1 ORDER BY rowid", sqlair.M{}); err == nil {
			var ms []sqlair.M
			if err := db.Query(ctx, msel).GetAll(&ms); err != nil {
				fail("C17", caseJSON, "select into maps failed: "+err.Error(), "")
			} else {
				var md []string
				for _, m := range ms {
					vals := make([]any, len(st.cols))
					for i, c := range st.cols {
						v, present := m[c]
						vals[i] = v
						if !present {
							vals[i] = "<key missing>" // a NULL is a key holding nil, not an absent key
						}
						if b, ok := vals[i].([]byte); ok {
							vals[i] = fmt.Sprintf("blob:%x", b)
						}
					}
					md = append(md, fmt.Sprint(vals...))
				}
				if fmt.Sprint(md) != fmt.Sprint(d1) {
					fail("C17", caseJSON, fmt.Sprintf("rows read back into a slice of maps differ from the table: %v vs %v", md, d1), "")
				}
				dist["roundtrip-maps"]++
			}
		} else {
			fail("C17", caseJSON, "Prepare rejected the select into maps: "+err.Error(), "")
		}
		gotP := reflect.New(reflect.SliceOf(reflect.PointerTo(st.t)))
		if err := db.Query(ctx, sel).GetAll(gotP.Interface()); err != nil {
			fail("C17", caseJSON, "select into pointers failed: "+err.Error(), "")
		} else if gp := gotP.Elem(); gp.Len() != g.Len() {
			fail("C17", caseJSON, fmt.Sprintf("read back %d pointers for %d rows", gp.Len(), g.Len()), "")
		} else {
			for k := 0; k < gp.Len(); k++ {
				e := gp.Index(k).Elem()
				normalise(e)
				if !reflect.DeepEqual(e.Interface(), g.Index(k).Interface()) {
					wb, _ := json.Marshal(g.Index(k).Interface())
					gb, _ := json.Marshal(e.Interface())
					if !bytes.Equal(wb, gb) {
						fail("C17", caseJSON, fmt.Sprintf("row %d read back through a pointer differs: %+v vs %+v", k, e.Interface(), g.Index(k).Interface()), "")
					}
				}
			}
		}
		// update / delete with member and slice inputs, mirrored by hand
		ids := SIDs{}
		for k := 0; k < nrows; k++ {
			if cr.Chance(1, 2) {
				ids = append(ids, int64(k+1))
			}
		}
		first := rowsV.Index(0)
		if nameF := fieldByTag(first, "name"); nameF.IsValid() && nameF.Kind() == reflect.String && !omitEmptyTag(st.t, "name") {
			up, err := sqlair.Prepare("UPDATE t1 SET name = $"+tn+".name WHERE id IN ($SIDs[:])", reflect.Zero(st.t).Interface(), SIDs{})
			if err == nil {
				err = db.Query(ctx, up, first.Interface(), ids).Run()
			}
			if err != nil {
				fail("C17", caseJSON, "update failed: "+err.Error(), "")
			} else {
				hargs := []any{nameF.Interface()}
				for _, id := range ids {
					hargs = append(hargs, id)
				}
				hq := "UPDATE t2 SET name = ? WHERE id IN (" + strings.TrimSuffix(strings.Repeat("?, ", len(ids)), ", ") + ")"
				if _, err := sqldb.Exec(hq, hargs...); err != nil {
					fatalf("hand-written update failed: %v / %s", err, hq)
				}
				dist["update-mirrored"]++
			}
		}
		if idF := fieldByTag(first, "id"); idF.IsValid() && !(omitEmptyTag(st.t, "id") && idF.IsZero()) && cr.Chance(1, 2) {
			del, err := sqlair.Prepare("DELETE FROM t1 WHERE id = $"+tn+".id", reflect.Zero(st.t).Interface())
			if err == nil {
				err = db.Query(ctx, del, first.Interface()).Run()
			}
			if err != nil {
				fail("C17", caseJSON, "delete failed: "+err.Error(), "")
			} else {
				if _, err := sqldb.Exec("DELETE FROM t2 WHERE id = ?", idF.Interface()); err != nil {
					fatalf("hand-written delete failed: %v", err)
				}
				dist["delete-mirrored"]++
			}
		}
		d1, _ = dumpTable(sqldb, "t1", st.cols)
		d2, _ = dumpTable(sqldb, "t2", st.cols)
		if fmt.Sprint(d1) != fmt.Sprint(d2) {
			fail("C17", caseJSON, fmt.Sprintf("after UPDATE/DELETE the state differs from hand-written SQL: sqlair %v vs plain %v", d1, d2), "")
		}
		// transactions: commit makes all visible, rollback none (observation for C12)
		// (the options are hints to the driver; a driver that accepts writes under them
		// must see them committed)
		tx, err := db.Begin(ctx, []*sqlair.TXOptions{nil, {}, {ReadOnly: true}}[cr.Intn(3)])
		if err == nil {
			ins, perr := sqlair.Prepare("INSERT INTO t1 (*) VALUES ($"+tn+".*)", reflect.Zero(st.t).Interface())
			if perr == nil {
				e := tx.Query(ctx, ins, rowsV.Index(0).Interface()).Run()
				commit := cr.Chance(1, 2)
				if commit {
					tx.Commit()
				} else {
					tx.Rollback()
				}
				after, _ := dumpTable(sqldb, "t1", st.cols)
				if e == nil {
					if commit && len(after) != len(d1)+1 {
						fail("C12", caseJSON, "a committed TX insert is not visible", "")
					}
					if !commit && len(after) != len(d1) {
						fail("C12", caseJSON, "a rolled back TX insert is visible", "")
					}
					dist["tx-observed"]++
				}
			} else {
				tx.Rollback()
			}
		}
		// a statement already cached on the DB, then issued through a transaction that is
		// rolled back (or committed): as with hand-written database/sql, the row is back (or gone)
		if del, derr := sqlair.Prepare("DELETE FROM t1 WHERE rowid IN ($SIDs[:])", SIDs{}); derr == nil {
			before, _ := dumpTable(sqldb, "t1", st.cols)
			var firstID int64
			if len(before) > 0 && sqldb.QueryRow("SELECT min(rowid) FROM t1").Scan(&firstID) == nil {
				// (deletes nothing; the statement is now cached - in half of the cases with
				// another number of elements than the transaction will pass: other SQL)
				warm := SIDs{-12345}
				if cr.Chance(1, 2) {
					warm = SIDs{-12345, -12346, -12347}
				}
				db.Query(ctx, del, warm).Run()
				if tx2, berr := db.Begin(ctx, nil); berr == nil {
					// (one pooled connection: a statement that leaves the transaction would wait
					// for ever; the deadline turns that into an error)
					c2, cancel2 := context.WithTimeout(ctx, 2*time.Second)
					e := tx2.Query(c2, del, SIDs{firstID}).Run()
					cancel2()
					commit := cr.Chance(1, 2)
					if commit {
						tx2.Commit()
					} else {
						tx2.Rollback()
					}
					after, _ := dumpTable(sqldb, "t1", st.cols)
					switch {
					case errors.Is(e, context.DeadlineExceeded):
						fail("C17", caseJSON, "a cached statement issued through a transaction did not run on the transaction's connection (it waited for another one)", "")
					case e != nil:
						fail("C17", caseJSON, fmt.Sprintf("DELETE ... IN ($SIDs[:]) with one element through a transaction, after the Statement had run on the DB with %d element(s), failed: %v; hand-written SQL succeeds", len(warm), e), "")
					case e == nil && commit && len(after) != len(before)-1:
						fail("C17", caseJSON, fmt.Sprintf("DELETE through a committed transaction: %d rows before, %d after; hand-written SQL leaves %d", len(before), len(after), len(before)-1), "")
					case e == nil && !commit && fmt.Sprint(after) != fmt.Sprint(before):
						fail("C17", caseJSON, fmt.Sprintf("DELETE through a rolled back transaction changed the table: %v vs %v", after, before), "")
					}
					dist["tx-cached-delete"]++
				}
			}
		}
		if len(rep.Samples) < 4 && cr.Chance(1, 15) {
			rep.Samples = append(rep.Samples, map[string]any{"case": caseJSON, "insert": q, "state": d1})
		}
		sqldb.Close()
	}
	rep.Distribution["scenarios"] = dist
	if *out != "" {
		if err := rep.write(*out); err != nil {
			fatalf("write report: %v", err)
		}
	} else {
		b, _ := json.MarshalIndent(rep, "", " ")
		fmt.Println(string(b))
	}
}
