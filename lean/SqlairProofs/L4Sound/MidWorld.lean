/-
  L4Sound, what the operation proper of a case does to the world: nothing, or the events of
  `Query.Iter` followed by row events; the result set is closed once and the connection
  released when the operation is complete (Get / GetAll / Run; an iteration with a Close).
-/
import SqlairProofs.L4Sound.World
import SqlairProofs.Props.Runtime

namespace Sqlair.Rt

/-- the effect of an operation running script `s` from world `w1`, `evs` being the events
    after those of `Query.Iter`; `closed`: the operation ends with the result set closed -/
structure l4s_RanWith (s : Script) (closed : Prop) (w1 w2 : World) (evs : List Ev) : Prop where
  log : w2.log = w1.log ++ s.openEvents ++ evs
  rows : evs.all Ev.l4s_isRow = true
  none : s.opensRows = false → evs = [] ∧ w2.inUse = w1.inUse
  bal : closed → w2.inUse = w1.inUse ∧ evs.count .rowsClose = if s.opensRows then 1 else 0
  most : evs.count .rowsClose ≤ 1

/-- nothing happened, or the statement ran -/
def l4s_Effect (s : Script) (closed : Prop) (w1 w2 : World) : Prop :=
  w2 = w1 ∨ ∃ evs, l4s_RanWith s closed w1 w2 evs

theorem l4s_iterOpen_rows_none {s : Script} (h : s.opensRows = false) (w : World) : (iterOpen s w).1.rows = none := by
  rw [iterOpen_rows]; exact Script.openRows_of_not_opensRows h

theorem l4s_iterOpen_inUse_none {s : Script} (h : s.opensRows = false) (w : World) :
    (iterOpen s w).2.inUse = w.inUse := by
  rw [l4s_iterOpen_inUse, h]; simp

theorem l4s_ran_of_ext {s : Script} {closed : Prop} {w1 w2 : World}
    (hext : l4s_RowExt (iterOpen s w1).2 w2)
    (hnone : s.opensRows = false → w2 = (iterOpen s w1).2)
    (hmost : w2.closes ≤ w1.closes + 1)
    (hbal : closed → w2.inUse = w1.inUse ∧ w2.closes = w1.closes + if s.opensRows then 1 else 0) :
    ∃ evs, l4s_RanWith s closed w1 w2 evs := by
  obtain ⟨evs, hlog, hrows⟩ := hext
  rw [l4s_iterOpen_log] at hlog
  have hcl : w2.closes = w1.closes + evs.count .rowsClose := by
    simp only [World.closes, hlog, List.count_append, l4s_openEvents_rowsClose]; omega
  refine ⟨evs, hlog, hrows, ?_, ?_, by omega⟩
  · intro h
    have h2 := hnone h
    constructor
    · have h3 : w2.log = w1.log ++ s.openEvents := by rw [h2, l4s_iterOpen_log]
      rw [h3] at hlog
      have h4 : (w1.log ++ s.openEvents) ++ [] = (w1.log ++ s.openEvents) ++ evs := by simpa using hlog
      exact (List.append_cancel_left h4).symm
    · rw [h2, l4s_iterOpen_inUse_none h]
  · intro hc
    obtain ⟨h1, h2⟩ := hbal hc
    exact ⟨h1, by omega⟩

theorem l4s_effect_of {s : Script} {closed : Prop} {w1 w2 : World}
    (hext : w2 = w1 ∨ l4s_RowExt (iterOpen s w1).2 w2)
    (hnone : s.opensRows = false → w2 = w1 ∨ w2 = (iterOpen s w1).2)
    (hmost : w2.closes ≤ w1.closes + 1)
    (hbal : closed → w2.inUse = w1.inUse ∧ w2.closes = w1.closes + if s.opensRows then 1 else 0) :
    l4s_Effect s closed w1 w2 := by
  cases hop : s.opensRows
  · rcases hnone hop with h | h
    · exact .inl h
    · exact .inr (l4s_ran_of_ext (l4s_RowExt.of_eq h) (fun _ => h) hmost hbal)
  · rcases hext with h | h
    · exact .inl h
    · exact .inr (l4s_ran_of_ext h (fun hn => by simp [hop] at hn) hmost hbal)

/-! ### Get / Run -/

theorem l4s_queryGet_effect (s : Script) (c : GetCall) (closed : Prop) (w : World) :
    l4s_Effect s closed w (queryGet s c w).2 := by
  obtain ⟨h1, h2⟩ := queryGet_bal s c w
  refine l4s_effect_of ?_ ?_ (by rw [h2]; split <;> omega) (fun _ => ⟨h1, h2⟩)
  · rcases l4s_queryGet_ext s c w with ⟨h, _⟩ | h
    · exact .inl h
    · exact .inr h
  · intro hn
    exact queryGet_world_of_rows_none (l4s_iterOpen_rows_none hn w) c

/-! ### GetAll -/

theorem l4s_queryGetAll_effect (s : Script) (n : Nat) (dv : Bool) (closed : Prop) (w : World) :
    l4s_Effect s closed w (queryGetAll s n dv w).2 := by
  obtain ⟨h1, h2⟩ := queryGetAll_bal s n dv w
  refine l4s_effect_of ?_ ?_ (by rw [h2]; split <;> omega) (fun _ => ⟨h1, h2⟩)
  · rcases l4s_queryGetAll_ext s n dv w with ⟨h, _⟩ | h
    · exact .inl h
    · exact .inr h
  · intro hn
    exact queryGetAll_world_of_rows_none (l4s_iterOpen_rows_none hn w) n dv

/-- the world after `GetAll` with an argument of a bad element kind -/
def l4s_badElemWorld (s : Script) (w : World) : World :=
  (((iterOpen s w).1.next (iterOpen s w).2).1.close ((iterOpen s w).1.next (iterOpen s w).2).2.1).2.1

theorem l4s_queryGetAllArgs_snd (s : Script) (args : List SliceArg) (dv : Bool) (w : World) :
    (queryGetAllArgs s args dv w).2 = w ∨ (queryGetAllArgs s args dv w).2 = l4s_badElemWorld s w ∨
    (queryGetAllArgs s args dv w).2 = (queryGetAll s args.length dv w).2 := by
  unfold queryGetAllArgs
  split
  · exact .inl rfl
  · split
    · exact .inl rfl
    · split
      · right; left
        simp only [l4s_badElemWorld]
        cases hb : ((iterOpen s w).1.next (iterOpen s w).2).2.2
        · simp only [Bool.false_eq_true, if_false]
          split
          · rfl
          · split <;> rfl
        · rfl
      · exact .inr (.inr rfl)

theorem l4s_badElem_effect (s : Script) (closed : Prop) (w : World) :
    l4s_Effect s closed w (l4s_badElemWorld s w) := by
  have hb := Iter.close_bal (Iter.next_bal (iterOpen_bal s w))
  obtain ⟨h1, h2⟩ := hb.of_rows_none (by simp)
  refine l4s_effect_of (.inr ?_) ?_ (by show (l4s_badElemWorld s w).closes ≤ _; unfold l4s_badElemWorld; rw [h2]; split <;> omega)
    (fun _ => ⟨h1, h2⟩)
  · exact (l4s_Iter_next_ext _ _).trans (l4s_Iter_close_ext _ _)
  · intro hn
    right
    unfold l4s_badElemWorld
    rw [Iter.next_of_rows_none (l4s_iterOpen_rows_none hn w),
      Iter.close_of_rows_none (by simpa using l4s_iterOpen_rows_none hn w)]

theorem l4s_queryGetAllArgs_effect (s : Script) (args : List SliceArg) (dv : Bool) (closed : Prop) (w : World) :
    l4s_Effect s closed w (queryGetAllArgs s args dv w).2 := by
  rcases l4s_queryGetAllArgs_snd s args dv w with h | h | h <;> rw [h]
  · exact .inl rfl
  · exact l4s_badElem_effect s closed w
  · exact l4s_queryGetAll_effect s _ dv closed w

/-! ### Iter -/

theorem l4s_callOf_eq_close (x : String) : callOf x = .close ↔ x = "close" := by
  unfold callOf
  by_cases h1 : x = "next"
  · subst h1; simp
  · by_cases h2 : x = "close"
    · simp [h2]
    · simp [h1, h2]

theorem l4s_callOf_ne_cancel (x : String) : callOf x ≠ .cancel := by
  unfold callOf
  split
  · simp
  · split <;> simp

theorem l4s_close_mem_expand (ca : Option Nat) (i : Nat) (calls : List String) :
    Call.close ∈ expandCalls ca i calls ↔ "close" ∈ calls := by
  induction calls generalizing i with
  | nil => simp [expandCalls]
  | cons x rest ih =>
    simp only [expandCalls, List.mem_append, List.mem_cons, ih]
    constructor
    · rintro (h | h | h)
      · split at h <;> simp at h
      · exact .inl ((l4s_callOf_eq_close x).1 h.symm).symm
      · exact .inr h
    · rintro (h | h)
      · exact .inr (.inl ((l4s_callOf_eq_close x).2 h.symm).symm)
      · exact .inr (.inr h)

theorem l4s_close_mem_calls (c : Case) : "close" ∈ l4s_calls c ↔ "close" ∈ c.calls := by
  unfold l4s_calls
  split
  · simp only [List.mem_map]
    constructor
    · rintro ⟨x, hx, h⟩
      by_cases hg : x = "get"
      · subst hg; simp at h
      · have : (x == "get") = false := by simpa using hg
        simp only [this, Bool.false_eq_true, if_false] at h
        exact h ▸ hx
    · intro h
      exact ⟨"close", h, by decide⟩
  · rfl

/-- the model's iterator after the calls of an `iter` case, as a `run` -/
def l4s_iterCalls (c : Case) : List Call := expandCalls c.cancelAt 0 (l4s_calls c)

theorem l4s_iterRun_eq (c : Case) (s : Script) (w1 : World) :
    l4s_iterRun c s w1 =
      ((run (iterOpen s w1).1 (iterOpen s w1).2 (l4s_iterCalls c)).1,
       (run (iterOpen s w1).1 (iterOpen s w1).2 (l4s_iterCalls c)).2.1,
       (run (iterOpen s w1).1 (iterOpen s w1).2 (l4s_iterCalls c)).2.2.filterMap Out.render?) := by
  unfold l4s_iterRun l4s_iterCalls
  rw [runCalls_eq_run]

theorem l4s_midIter_effect (c : Case) (s : Script) (w1 : World) :
    l4s_Effect s ("close" ∈ c.calls) w1 (l4s_midIter c s w1).2 := by
  have hb := run_bal (iterOpen_bal s w1) (l4s_iterCalls c)
  have hx := l4s_run_ext (iterOpen s w1).1 (iterOpen s w1).2 (l4s_iterCalls c)
  have hw : (l4s_midIter c s w1).2 =
      match (run (iterOpen s w1).1 (iterOpen s w1).2 (l4s_iterCalls c)).1.rows with
      | some rows => if c.onTx then (rows.close (run (iterOpen s w1).1 (iterOpen s w1).2 (l4s_iterCalls c)).2.1).2.1
          else (run (iterOpen s w1).1 (iterOpen s w1).2 (l4s_iterCalls c)).2.1
      | none => (run (iterOpen s w1).1 (iterOpen s w1).2 (l4s_iterCalls c)).2.1 := by
    unfold l4s_midIter
    rw [l4s_iterRun_eq]
    rfl
  rw [hw]
  generalize hrun : run (iterOpen s w1).1 (iterOpen s w1).2 (l4s_iterCalls c) = R at hb hx
  have hk : R.2.1.closes + R.1.nOpen = w1.closes + if s.opensRows then 1 else 0 := hb.closes
  refine l4s_effect_of (.inr ?_) ?_ ?_ ?_
  · split
    · split
      · exact hx.trans (l4s_Rows_close_ext _ _)
      · exact hx
    · exact hx
  · intro hn
    right
    obtain ⟨g1, _, g3⟩ := run_of_rows_none (l4s_iterOpen_rows_none hn w1) (iterOpen s w1).2 (l4s_iterCalls c)
    rw [hrun] at g1 g3
    simp only [g1, g3]
  · split
    · rename_i rows hr
      split
      · have h1 := hb.inUse
        simp only [Iter.nHeld, hr] at h1
        have h2 := (Rows.close_effect h1).2
        simp only [Iter.nOpen, hr] at hk
        rw [h2]; split at hk <;> omega
      · split at hk <;> omega
    · split at hk <;> omega
  · intro hc
    have hmem : Call.close ∈ l4s_iterCalls c :=
      (l4s_close_mem_expand _ _ _).2 ((l4s_close_mem_calls c).2 hc)
    have hr : R.1.rows = none := by rw [← hrun]; exact run_rows_none_of_close _ _ _ hmem
    simp only [hr]
    exact hb.of_rows_none hr

end Sqlair.Rt
