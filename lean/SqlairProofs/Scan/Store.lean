/-
  Algebra of the flattened destination store of `SqlairModel/Scan.lean`:
  `setField` / `setKey` / `updDest` / `Pending.apply` — look-up after write, commutation of
  writes to different locations, invariants (length, form, type id, set of field paths).
-/
import SqlairModel.Scan

namespace Sqlair

/-! ### reading the store -/

/-- value of the leaf field with index path `idx`: `none` = the struct has no such leaf,
    `some none` = the leaf is unreachable (nil embedded pointer), `some (some txt)` = its text -/
def Dest.fieldVal (d : Dest) (idx : List Nat) : Option (Option String) :=
  (d.fields.find? (·.1 == idx)).map (·.2)

/-- value of the map key `k` (`none` = absent) -/
def Dest.keyVal (d : Dest) (k : Bytes) : Option String :=
  (d.keys.find? (·.1 == k)).map (·.2)

/-- a member of a destination: a leaf field (by index path) or a map key -/
inductive Slot where
  | field (idx : List Nat)
  | key (k : Bytes)
deriving DecidableEq, Repr

/-- uniform view of `fieldVal` / `keyVal` -/
def Dest.slotVal (d : Dest) : Slot → Option (Option String)
  | .field idx => d.fieldVal idx
  | .key k => (d.keyVal k).map some

/-- value stored at member `s` of destination number `di` -/
def valAt (ds : List Dest) (loc : Nat × Slot) : Option (Option String) :=
  ds[loc.1]?.bind (·.slotVal loc.2)

/-- a write to `loc` takes effect: the destination exists and, for a field, has that leaf -/
def Writable (ds : List Dest) (loc : Nat × Slot) : Prop :=
  match loc.2 with
  | .field idx => ∃ d, ds[loc.1]? = some d ∧ (d.fieldVal idx).isSome
  | .key _ => loc.1 < ds.length

/-! ### setField -/

@[simp] theorem setField_form (d : Dest) (i : List Nat) (v : String) : (setField d i v).form = d.form := rfl
@[simp] theorem setField_tid (d : Dest) (i : List Nat) (v : String) : (setField d i v).tid = d.tid := rfl
@[simp] theorem setField_keys (d : Dest) (i : List Nat) (v : String) : (setField d i v).keys = d.keys := rfl

theorem setField_fields_fst (d : Dest) (i : List Nat) (v : String) :
    (setField d i v).fields.map (·.1) = d.fields.map (·.1) := by
  unfold setField
  simp only [List.map_map]
  apply List.map_congr_left
  intro p _
  simp only [Function.comp]
  by_cases h : p.1 = i <;> simp [h]

theorem find_update {κ β} [BEq κ] [LawfulBEq κ] (l : List (κ × β)) (i j : κ) (b : β) :
    (l.map fun p => if p.1 == i then (i, b) else p).find? (·.1 == j) =
      if j == i then (l.find? (·.1 == j)).map (fun _ => (i, b)) else l.find? (·.1 == j) := by
  induction l with
  | nil => simp
  | cons p rest ih =>
    rw [List.map_cons, List.find?_cons, List.find?_cons, ih]
    by_cases hpi : p.1 = i
    · have e1 : (p.1 == i) = true := by simp [hpi]
      rw [e1, if_pos rfl]
      by_cases hji : j = i
      · subst hji
        have e2 : (p.1 == j) = true := e1
        simp [e2]
      · have e2 : (p.1 == j) = false := by
          rw [hpi]; exact beq_false_of_ne (fun e => hji e.symm)
        have e3 : (i == j) = false := beq_false_of_ne (fun e => hji e.symm)
        have e4 : (j == i) = false := beq_false_of_ne hji
        simp only [e2, e3, e4, Bool.false_eq_true, if_false]
    · have e1 : (p.1 == i) = false := beq_false_of_ne hpi
      rw [e1]
      simp only [Bool.false_eq_true, if_false]
      by_cases hji : j = i
      · subst hji
        simp only [e1, beq_self_eq_true, if_true]
      · have e4 : (j == i) = false := beq_false_of_ne hji
        simp only [e4, Bool.false_eq_true, if_false]

theorem fieldVal_setField_same (d : Dest) (i : List Nat) (v : String) :
    (setField d i v).fieldVal i = (d.fieldVal i).map (fun _ => some v) := by
  unfold Dest.fieldVal setField
  simp only [find_update, beq_self_eq_true, if_true]
  cases d.fields.find? (·.1 == i) <;> simp

theorem fieldVal_setField_ne (d : Dest) {i j : List Nat} (v : String) (h : j ≠ i) :
    (setField d i v).fieldVal j = d.fieldVal j := by
  unfold Dest.fieldVal setField
  simp only [find_update, beq_false_of_ne h, Bool.false_eq_true, if_false]

@[simp] theorem keyVal_setField (d : Dest) (i : List Nat) (v : String) (k : Bytes) :
    (setField d i v).keyVal k = d.keyVal k := rfl

theorem setField_comm (d : Dest) {i j : List Nat} (v w : String) (h : i ≠ j) :
    setField (setField d i v) j w = setField (setField d j w) i v := by
  unfold setField
  simp only [List.map_map]
  congr 1
  apply List.map_congr_left
  intro p _
  simp only [Function.comp]
  by_cases hpi : p.1 = i
  · have hpj : ¬ p.1 = j := fun e => h (hpi.symm.trans e)
    have hij : ¬ i = j := h
    simp [hpi, hij]
  · by_cases hpj : p.1 = j
    · have hji : ¬ j = i := fun e => h e.symm
      simp [hpj, hji]
    · simp [hpi, hpj]

/-! ### setKey -/

@[simp] theorem setKey_form (d : Dest) (k : Bytes) (v : String) : (setKey d k v).form = d.form := rfl
@[simp] theorem setKey_tid (d : Dest) (k : Bytes) (v : String) : (setKey d k v).tid = d.tid := rfl
@[simp] theorem setKey_fields (d : Dest) (k : Bytes) (v : String) : (setKey d k v).fields = d.fields := rfl
@[simp] theorem fieldVal_setKey (d : Dest) (k : Bytes) (v : String) (i : List Nat) :
    (setKey d k v).fieldVal i = d.fieldVal i := rfl

theorem setKey_setField_comm (d : Dest) (k : Bytes) (v : String) (i : List Nat) (w : String) :
    setKey (setField d i w) k v = setField (setKey d k v) i w := rfl

theorem any_key_iff (l : List (Bytes × String)) (k : Bytes) :
    l.any (·.1 == k) = (l.find? (·.1 == k)).isSome := by
  induction l with
  | nil => rfl
  | cons p rest ih =>
    simp only [List.any_cons, List.find?_cons]
    cases hb : (p.1 == k) <;> simp [ih]

theorem keyVal_setKey_same (d : Dest) (k : Bytes) (v : String) :
    (setKey d k v).keyVal k = some v := by
  unfold Dest.keyVal setKey
  simp only
  by_cases h : d.keys.any (·.1 == k) = true
  · rw [if_pos h, find_update, if_pos (by simp)]
    rw [any_key_iff] at h
    cases hf : d.keys.find? (·.1 == k) with
    | none => rw [hf] at h; cases h
    | some p => rfl
  · rw [if_neg h, List.find?_append]
    rw [any_key_iff] at h
    cases hf : d.keys.find? (·.1 == k) with
    | none => simp
    | some p => rw [hf] at h; simp at h

theorem keyVal_setKey_ne (d : Dest) {k j : Bytes} (v : String) (h : j ≠ k) :
    (setKey d k v).keyVal j = d.keyVal j := by
  unfold Dest.keyVal setKey
  simp only
  by_cases ha : d.keys.any (·.1 == k) = true
  · rw [if_pos ha, find_update, if_neg (by simp [h])]
  · rw [if_neg ha, List.find?_append]
    have : ¬ k = j := fun e => h e.symm
    cases hf : d.keys.find? (·.1 == j) <;> simp [this]

/-! ### updDest -/

theorem updDest_length (ds : List Dest) (i : Nat) (f : Dest → Dest) : (updDest ds i f).length = ds.length := by
  simp [updDest]

theorem updDest_getElem? (ds : List Dest) (i : Nat) (f : Dest → Dest) (j : Nat) :
    (updDest ds i f)[j]? = ds[j]?.map (fun d => if j = i then f d else d) := by
  unfold updDest
  rw [List.getElem?_map]
  by_cases hj : j < ds.length
  · have : ((List.range ds.length).zip ds)[j]? = some (j, ds[j]) := by
      rw [List.getElem?_zip_eq_some]; simp [hj]
    rw [this, List.getElem?_eq_getElem hj]; simp
  · have : ((List.range ds.length).zip ds)[j]? = none := by
      apply List.getElem?_eq_none; simp; omega
    rw [this, List.getElem?_eq_none (Nat.le_of_not_lt hj)]; rfl

theorem updDest_comm (ds : List Dest) (i j : Nat) (f g : Dest → Dest)
    (h : i = j → ∀ d, f (g d) = g (f d)) :
    updDest (updDest ds i f) j g = updDest (updDest ds j g) i f := by
  apply List.ext_getElem?
  intro n
  simp only [updDest_getElem?, Option.map_map]
  cases ds[n]? with
  | none => rfl
  | some d =>
    simp only [Option.map_some, Function.comp, Option.some.injEq]
    by_cases hi : n = i
    · subst hi
      by_cases hj : n = j
      · subst hj; simp only [if_true]; exact (h rfl d).symm
      · simp only [if_neg hj, if_true]
    · by_cases hj : n = j
      · subst hj; simp only [if_neg hi, if_true]
      · simp only [if_neg hi, if_neg hj]

/-! ### Pending.apply -/

/-- where a deferred (or direct) write goes -/
def Pending.loc : Pending → Nat × Slot
  | .field di idx _ => (di, .field idx)
  | .key di k _ => (di, .key k)

def Pending.val : Pending → String
  | .field _ _ v => v
  | .key _ _ v => v

def Pending.isField : Pending → Bool
  | .field .. => true
  | .key .. => false

/-- the per-destination update of a write -/
def Pending.upd : Pending → Dest → Dest
  | .field _ idx v => fun d => setField d idx v
  | .key _ k v => fun d => setKey d k v

theorem Pending.apply_eq (ds : List Dest) (w : Pending) : w.apply ds = updDest ds w.loc.1 w.upd := by
  cases w <;> rfl

theorem apply_length (ds : List Dest) (w : Pending) : (w.apply ds).length = ds.length := by
  rw [Pending.apply_eq, updDest_length]

theorem apply_getElem? (ds : List Dest) (w : Pending) (j : Nat) :
    (w.apply ds)[j]? = ds[j]?.map (fun d => if j = w.loc.1 then w.upd d else d) := by
  rw [Pending.apply_eq, updDest_getElem?]

@[simp] theorem upd_form (w : Pending) (d : Dest) : (w.upd d).form = d.form := by cases w <;> rfl
@[simp] theorem upd_tid (w : Pending) (d : Dest) : (w.upd d).tid = d.tid := by cases w <;> rfl
theorem upd_fields_fst (w : Pending) (d : Dest) : (w.upd d).fields.map (·.1) = d.fields.map (·.1) := by
  cases w with
  | field _ i v => exact setField_fields_fst d i v
  | key _ k v => rfl

/-- reading a member other than the written one -/
theorem slotVal_upd_ne (w : Pending) (d : Dest) {s : Slot} (h : s ≠ w.loc.2) :
    (w.upd d).slotVal s = d.slotVal s := by
  cases w with
  | field di i v =>
    cases s with
    | field j =>
      have : j ≠ i := fun e => h (by simp [Pending.loc, e])
      exact fieldVal_setField_ne d v this
    | key k => rfl
  | key di k v =>
    cases s with
    | field j => rfl
    | key j =>
      have : j ≠ k := fun e => h (by simp [Pending.loc, e])
      simp only [Pending.upd, Dest.slotVal, keyVal_setKey_ne d v this]

theorem slotVal_upd_same (w : Pending) (d : Dest) :
    (w.upd d).slotVal w.loc.2 =
      match w.loc.2 with
      | .field idx => (d.fieldVal idx).map (fun _ => some w.val)
      | .key _ => some (some w.val) := by
  cases w with
  | field di i v => exact fieldVal_setField_same d i v
  | key di k v => simp only [Pending.upd, Pending.loc, Dest.slotVal, keyVal_setKey_same]; rfl

theorem valAt_apply_ne (ds : List Dest) (w : Pending) {loc : Nat × Slot} (h : loc ≠ w.loc) :
    valAt (w.apply ds) loc = valAt ds loc := by
  unfold valAt
  rw [apply_getElem?]
  cases hd : ds[loc.1]? with
  | none => rfl
  | some d =>
    simp only [Option.map_some, Option.bind_some]
    by_cases h1 : loc.1 = w.loc.1
    · rw [if_pos h1]
      apply slotVal_upd_ne
      intro h2; exact h (Prod.ext h1 h2)
    · rw [if_neg h1]

theorem writable_apply (ds : List Dest) (w : Pending) (loc : Nat × Slot) :
    Writable (w.apply ds) loc ↔ Writable ds loc := by
  obtain ⟨di, s⟩ := loc
  cases s with
  | key k => simp only [Writable, apply_length]
  | field idx =>
    simp only [Writable, apply_getElem?]
    cases hd : ds[di]? with
    | none => simp
    | some d =>
      simp only [Option.map_some, Option.some.injEq, exists_eq_left']
      by_cases h1 : di = w.loc.1
      · rw [if_pos h1]
        by_cases h2 : Slot.field idx = w.loc.2
        · have := slotVal_upd_same w d
          rw [← h2] at this
          simp only [Dest.slotVal] at this
          rw [this]; simp
        · have := slotVal_upd_ne w d h2
          simp only [Dest.slotVal] at this
          rw [this]
      · rw [if_neg h1]

theorem valAt_apply_same (ds : List Dest) (w : Pending) (h : Writable ds w.loc) :
    valAt (w.apply ds) w.loc = some (some w.val) := by
  unfold valAt
  rw [apply_getElem?]
  unfold Writable at h
  cases hs : w.loc.2 with
  | field idx =>
    rw [hs] at h
    obtain ⟨d, hd, hv⟩ := h
    rw [hd]
    simp only [Option.map_some, if_true, Option.bind_some]
    have := slotVal_upd_same w d
    rw [hs] at this
    rw [this]
    dsimp only
    cases hf : d.fieldVal idx with
    | none => rw [hf] at hv; cases hv
    | some _ => rfl
  | key k =>
    rw [hs] at h
    have hlt : w.loc.1 < ds.length := h
    rw [List.getElem?_eq_getElem hlt]
    simp only [Option.map_some, if_true, Option.bind_some]
    have := slotVal_upd_same w ds[w.loc.1]
    rw [hs] at this
    exact this

/-- writes to different locations commute exactly as soon as one of them is a field write -/
theorem apply_comm (ds : List Dest) (p q : Pending) (h : p.loc ≠ q.loc)
    (hf : p.isField = true ∨ q.isField = true) :
    q.apply (p.apply ds) = p.apply (q.apply ds) := by
  rw [Pending.apply_eq, Pending.apply_eq, Pending.apply_eq ds q, Pending.apply_eq _ p]
  apply updDest_comm
  intro hij d
  cases p with
  | field di i v =>
    cases q with
    | field dj j w =>
      have : i ≠ j := by
        intro e; apply h
        simp only [Pending.loc] at hij ⊢
        rw [hij, e]
      exact (setField_comm d v w this).symm
    | key dj k w => rfl
  | key di k v =>
    cases q with
    | field dj j w => rfl
    | key dj j w => simp [Pending.isField] at hf

/-! ### folds of writes -/

/-- apply a list of writes in order -/
def applyWrites (ds : List Dest) (ws : List Pending) : List Dest := ws.foldl Pending.apply ds

@[simp] theorem applyWrites_nil (ds : List Dest) : applyWrites ds [] = ds := rfl
@[simp] theorem applyWrites_cons (ds : List Dest) (w : Pending) (ws : List Pending) :
    applyWrites ds (w :: ws) = applyWrites (w.apply ds) ws := rfl
theorem applyWrites_append (ds : List Dest) (ws ws' : List Pending) :
    applyWrites ds (ws ++ ws') = applyWrites (applyWrites ds ws) ws' := by
  simp [applyWrites, List.foldl_append]

theorem applyWrites_length (ds : List Dest) (ws : List Pending) : (applyWrites ds ws).length = ds.length := by
  induction ws generalizing ds with
  | nil => rfl
  | cons w ws ih => rw [applyWrites_cons, ih, apply_length]

theorem writable_applyWrites (ds : List Dest) (ws : List Pending) (loc : Nat × Slot) :
    Writable (applyWrites ds ws) loc ↔ Writable ds loc := by
  induction ws generalizing ds with
  | nil => rfl
  | cons w ws ih => rw [applyWrites_cons, ih, writable_apply]

/-- a location no write goes to keeps its value -/
theorem valAt_applyWrites_of_not_mem (ds : List Dest) (ws : List Pending) (loc : Nat × Slot)
    (h : ∀ w ∈ ws, w.loc ≠ loc) : valAt (applyWrites ds ws) loc = valAt ds loc := by
  induction ws generalizing ds with
  | nil => rfl
  | cons w ws ih =>
    rw [applyWrites_cons, ih _ (fun w' hw' => h w' (List.mem_cons_of_mem _ hw')),
      valAt_apply_ne _ _ (fun e => h w List.mem_cons_self e.symm)]

/-- the last write to a location wins -/
theorem valAt_applyWrites_last (ds : List Dest) (ws1 ws2 : List Pending) (w : Pending)
    (hw : Writable ds w.loc) (h2 : ∀ w' ∈ ws2, w'.loc ≠ w.loc) :
    valAt (applyWrites ds (ws1 ++ w :: ws2)) w.loc = some (some w.val) := by
  rw [applyWrites_append, applyWrites_cons, valAt_applyWrites_of_not_mem _ _ _ h2]
  apply valAt_apply_same
  rw [writable_applyWrites]; exact hw

/-- invariants of the destinations other than member values -/
theorem applyWrites_getElem? (ds : List Dest) (ws : List Pending) (j : Nat) (d : Dest) (h : ds[j]? = some d) :
    ∃ d', (applyWrites ds ws)[j]? = some d' ∧ d'.form = d.form ∧ d'.tid = d.tid ∧
      d'.fields.map (·.1) = d.fields.map (·.1) := by
  induction ws generalizing ds d with
  | nil => exact ⟨d, h, rfl, rfl, rfl⟩
  | cons w ws ih =>
    rw [applyWrites_cons]
    have h1 : (w.apply ds)[j]? = some (if j = w.loc.1 then w.upd d else d) := by
      rw [apply_getElem?, h]; rfl
    obtain ⟨d', hd', hf, ht, hp⟩ := ih _ _ h1
    refine ⟨d', hd', ?_, ?_, ?_⟩
    · rw [hf]; split <;> simp
    · rw [ht]; split <;> simp
    · rw [hp]; split
      · exact upd_fields_fst w d
      · rfl

end Sqlair
