/-
  The value of a column lands in the member designated by the output it is the alias of
  (location form; the readable corollaries are in `SqlairProofs/Props/Scan.lean`).
-/
import SqlairProofs.Scan.Main

namespace Sqlair

theorem list_split_at {α} {l : List α} {j : Nat} {x : α} (h : l[j]? = some x) :
    l = l.take j ++ x :: l.drop (j + 1) := by
  obtain ⟨hlt, e⟩ := List.getElem?_eq_some_iff.mp h
  rw [← e, ← List.drop_eq_getElem_cons hlt, List.take_append_drop]

theorem mem_drop_succ {α} {l : List α} {j : Nat} {x : α} (h : x ∈ l.drop (j + 1)) :
    ∃ j', j < j' ∧ l[j']? = some x := by
  obtain ⟨i, hi, e⟩ := List.mem_drop_iff_getElem.mp h
  exact ⟨j + 1 + i, by omega, by rw [List.getElem?_eq_getElem (by omega), e]⟩

theorem tvs_getElem? {tt : TypeTable} {outputs : List Loc} {dests : List Dest} {m : List (Nat × Nat)}
    {cols : List Bytes} {row : List DV} {i : Nat} {tv : Target × DV}
    (h : (tvs tt outputs dests m (cols.zip row))[i]? = some tv) :
    ∃ c, cols[i]? = some c ∧ row[i]? = some tv.2 ∧ tv.1 = tgt tt outputs dests m c := by
  unfold tvs at h
  rw [List.getElem?_map] at h
  cases hz : (cols.zip row)[i]? with
  | none => rw [hz] at h; cases h
  | some cv =>
    rw [hz] at h
    simp only [Option.map_some, Option.some.injEq] at h
    subst h
    obtain ⟨h1, h2⟩ := List.getElem?_zip_eq_some.mp hz
    exact ⟨cv.1, h1, h2, rfl⟩

theorem target_write (tt : TypeTable) {l : Loc} {s : Slot} (di : Nat) (txt : String) (hs : l.slot? = some s) :
    ∃ w, (l.target tt di).write txt = some w ∧ w.loc = (di, s) ∧ w.val = txt := by
  cases l with
  | slice => cases hs
  | mapKey tid n k =>
    simp only [Loc.slot?, Option.some.injEq] at hs; subst hs
    exact ⟨_, rfl, rfl, rfl⟩
  | field tid n f =>
    simp only [Loc.slot?, Option.some.injEq] at hs; subst hs
    exact ⟨_, rfl, rfl, rfl⟩

/-- the main lemma behind `scan_by_alias`: the last column that is the alias of output `k`
    determines the content of the member designated by output `k` -/
theorem scan_by_alias_valAt {E : ScanEnv} {tt : TypeTable} {outputs : List Loc} {cols : List Bytes}
    {row : List DV} {dests dests' : List Dest}
    (hget : scanGet E tt outputs cols row dests = (dests', none))
    (hdist : outputs.Pairwise (fun a b => a.sameMember b = false))
    {k j : Nat} {l : Loc} {c : Bytes}
    (hk : outputs[k]? = some l) (hj : cols[j]? = some c) (hc : markerIndex c = some k)
    (hlast : ∀ j' c', j < j' → cols[j']? = some c' → markerIndex c' ≠ some k) :
    ∃ di d s v txt, dests[di]? = some d ∧ d.tid = l.tid ∧ l.slot? = some s ∧ row[j]? = some v ∧
      expectedText E tt l v = some txt ∧ valAt dests' (di, s) = some (some txt) := by
  obtain ⟨m, hv, _, hcols, _, _, hrow, htx, hfin⟩ := (scanGet_ok_unfold ..).mp hget
  have hm := validMap_of_ok hv
  have hcmem : c ∈ cols := List.mem_of_getElem? hj
  obtain ⟨t, hct⟩ := hcols c hcmem
  have hct' : locateTarget tt dests m l = .ok t := by
    unfold colTarget at hct
    simpa [hc, hk] using hct
  obtain ⟨di, d, s, hd, ht, hs, htl, hw⟩ := locateTarget_ok hm hct'
  subst htl
  have htg : tgt tt outputs dests m c = l.target tt di := by simp [tgt, hct]
  have hjlt : j < cols.length := (List.getElem?_eq_some_iff.mp hj).1
  have hjr : j < row.length := by omega
  have hcv : (cols.zip row)[j]? = some (c, row[j]) := by
    rw [List.getElem?_zip_eq_some]
    exact ⟨hj, List.getElem?_eq_getElem hjr⟩
  have hl0 : (tvs tt outputs dests m (cols.zip row))[j]? = some (l.target tt di, row[j]) := by
    unfold tvs
    rw [List.getElem?_map, hcv]
    simp [htg]
  have hsome := htx _ (List.mem_of_getElem? hl0)
  obtain ⟨txt, htxt⟩ := Option.isSome_iff_exists.mp hsome
  simp only at htxt
  obtain ⟨w, hwr, hwl, hwv⟩ := target_write tt di txt hs
  have haw : awrite E (l.target tt di, row[j]) = some w := by
    simp only [awrite, htxt, Option.bind_some, hwr]
  refine ⟨di, d, s, row[j], txt, hd, ht, hs, List.getElem?_eq_getElem hjr, ?_, ?_⟩
  · rw [← text_target E tt l di _ hs]; exact htxt
  -- a column whose target is the same member is an alias of output k
  have hkey : ∀ c', (tgt tt outputs dests m c').loc = some (di, s) →
      markerIndex c' = some k ∧ tgt tt outputs dests m c' = l.target tt di := by
    intro c' hloc
    obtain ⟨k', l', d', h1, h2, h3, h4, h5, h6, _⟩ := tgt_loc_spec hm hloc
    simp only at h3 h5 h6
    rw [hd] at h3
    simp only [Option.some.injEq] at h3
    subst h3
    have hsm : l.sameMember l' = true := Loc.sameMember_of (ht.symm.trans h4) hs h5
    have hkk := pairwise_sameMember_inj hdist hk h2 hsm
    subst hkk
    rw [hk] at h2
    simp only [Option.some.injEq] at h2
    subst h2
    exact ⟨h1, h6⟩
  rw [hfin, list_split_at hl0, ← hwl, ← hwv]
  apply valAt_writesOf_last E dests _ _ (l.target tt di) row[j] w haw
  · rw [hwl]; exact hw
  · intro tv htv hloc
    obtain ⟨j', hjj', hj'⟩ := mem_drop_succ htv
    obtain ⟨c', hc', _, htc'⟩ := tvs_getElem? hj'
    rw [htc', hwl] at hloc
    exact hlast j' c' hjj' hc' (hkey c' hloc).1
  · intro tv htv hloc
    have htv' : tv ∈ tvs tt outputs dests m (cols.zip row) := by
      rcases List.mem_append.mp htv with h | h
      · exact List.mem_of_mem_take h
      · exact List.mem_of_mem_drop h
    obtain ⟨c', _, htc'⟩ := mem_tvs htv'
    rw [htc', hwl] at hloc
    rw [htc', (hkey c' hloc).2]

/-- the last element of a list satisfying a predicate -/
theorem exists_last {α} (p : α → Prop) (l : List α) (h : ∃ x ∈ l, p x) :
    ∃ (j : Nat) (x : α), l[j]? = some x ∧ p x ∧ ∀ (j' : Nat) (x' : α), j < j' → l[j']? = some x' → ¬ p x' := by
  induction l with
  | nil => obtain ⟨x, hx, _⟩ := h; cases hx
  | cons a rest ih =>
    by_cases hr : ∃ x ∈ rest, p x
    · obtain ⟨j, x, h1, h2, h3⟩ := ih hr
      refine ⟨j + 1, x, by simpa using h1, h2, ?_⟩
      intro j' x' hlt hj'
      cases j' with
      | zero => omega
      | succ j'' => exact h3 j'' x' (by omega) (by simpa using hj')
    · obtain ⟨x, hx, hp⟩ := h
      rcases List.mem_cons.mp hx with rfl | hx'
      · refine ⟨0, x, rfl, hp, ?_⟩
        intro j' x' hlt hj' hp'
        cases j' with
        | zero => omega
        | succ j'' =>
          have : x' ∈ rest := List.mem_of_getElem? (by simpa using hj')
          exact hr ⟨x', this, hp'⟩
      · exact absurd ⟨x, hx', hp⟩ hr

/-- on success every output has a column and a unique destination of its type -/
theorem scan_output_dest {E : ScanEnv} {tt : TypeTable} {outputs : List Loc} {cols : List Bytes}
    {row : List DV} {dests dests' : List Dest}
    (hget : scanGet E tt outputs cols row dests = (dests', none)) {k : Nat} {l : Loc} (hk : outputs[k]? = some l) :
    (∃ c ∈ cols, markerIndex c = some k) ∧
    ∃ (di : Nat) (d : Dest), dests[di]? = some d ∧ d.tid = l.tid ∧
      ∀ (di' : Nat) (d' : Dest), dests[di']? = some d' → d'.tid = l.tid → di' = di := by
  obtain ⟨m, hv, _, hcols, hall, _, _, _, _⟩ := (scanGet_ok_unfold ..).mp hget
  have hm := validMap_of_ok hv
  obtain ⟨c, hc, hmi⟩ := hall k (List.getElem?_eq_some_iff.mp hk).1
  refine ⟨⟨c, hc, hmi⟩, ?_⟩
  obtain ⟨t, hct⟩ := hcols c hc
  have hct' : locateTarget tt dests m l = .ok t := by
    unfold colTarget at hct
    simpa [hmi, hk] using hct
  obtain ⟨di, d, s, hd, ht, _, _, _⟩ := locateTarget_ok hm hct'
  exact ⟨di, d, hd, ht, fun di' d' hd' ht' => hm.tid_inj hd' hd (ht'.trans ht.symm)⟩

end Sqlair
