/-
  L4Sound: the observation-level predicates of Spec/L4 are theorems of the model.

  For EVERY well-formed case `c` (all strings, all numbers, all call sequences) the observation
  the model itself predicts, `predObs c (predict c)`, satisfies `holdsC13`, `holdsC14`,
  `holdsC15`, `holdsC12`, `holdsC20`, `holdsC09tx`, and `diffs` reports no disagreement.
  Hence no predicate can raise a false alarm on an implementation that agrees with the model,
  and each predicate is a proved consequence of the model.

  `CaseWF` (SqlairProofs/L4Sound/Defs.lean) is far weaker than the image of the harness
  generator (`l4s_genWF`, shown to imply it): the operation is one of run / get / getall /
  iter / pair; a pair case is not on a transaction and its B operation refers to outputs only
  if the statement has some; a case on a transaction has txEnd ∈ {after, before-query,
  between}, at least one finisher (sequential or concurrent), and no beginCancel when
  sequential finishers end the transaction before the operation.  `holdsC15`, `holdsC09tx` and `diffs` need no
  well-formedness at all.

  Every clause of `CaseWF` is needed: the `…_counterexample_illformed…` theorems below give,
  for each clause, an ill-formed case (none of which the generator can produce) on which a
  predicate is FALSE of the model's own prediction.  No falsifying case that the generator can
  produce exists — that is `l4_model_passes_generated`; before the proofs, a native-code hunt
  over 24 million generator-shaped random cases, 32 million cases with every field chosen
  independently, and 3.2 thousand million exhaustively enumerated small cases (every
  combination of the string fields with 0–3 rows, bad row and fetch error at every position,
  all call sequences up to length 3 over the seven call names plus long ones, cancellation at
  every position) had found none either.

  Where the model leaves something open — with concurrent finishers it does not predict which
  one reaches the driver — the theorems hold for every admissible completion (`predObsW win`,
  `win` any finisher event); `predObs` is the completion with `commit`.
-/
import SqlairProofs.L4Sound.C14

namespace Sqlair.Rt

/-! ## the generator's image is well-formed -/

theorem l4s_genWF_caseWF (c : Case) (h : l4s_genWF c = true) : CaseWF c := by
  unfold l4s_genWF at h
  unfold CaseWF l4s_caseWF
  simp only [Bool.or_eq_true] at h
  rcases h with h | h
  · unfold l4s_genPair at h
    simp only [Bool.and_eq_true, and_assoc] at h
    obtain ⟨hop, hpath, _, _, hout, _⟩ := h
    simp only [beq_iff_eq] at hop hpath
    simp only [Bool.or_eq_true, beq_iff_eq] at hout
    have htx : c.onTx = false := by unfold Case.onTx; rw [hpath]; decide +kernel
    simp only [hop, beq_self_eq_true, if_true, htx, Bool.not_false, Bool.true_and, Bool.or_eq_true,
      Bool.and_eq_true, bne_iff_ne, ne_eq]
    rcases hout with h | h
    · exact .inl h
    · right; rw [h]; exact ⟨by decide, by decide⟩
  · unfold l4s_genSingle at h
    simp only [Bool.and_eq_true, and_assoc] at h
    obtain ⟨_, _, _, _, _, htx, hop, _, _, _, _, _, _, _, hbc, _⟩ := h
    simp only [Bool.or_eq_true, beq_iff_eq] at hop
    have hnp : (c.op == "pair") = false := by
      rcases hop with ((h | h) | h) | h <;> rw [h] <;> decide
    have hop' : (c.op == "run" || c.op == "get" || c.op == "getall" || c.op == "iter") = true := by
      rcases hop with ((h | h) | h) | h <;> rw [h] <;> decide
    simp only [hnp, Bool.false_eq_true, if_false, hop', Bool.true_and]
    cases hon : c.onTx
    · rfl
    · simp only [hon, if_true, Bool.and_eq_true, Bool.not_eq_true', bne_iff_ne, ne_eq, and_assoc] at htx
      obtain ⟨hte, hfin, _, _⟩ := htx
      simp only [Bool.not_true, Bool.false_or, Bool.and_eq_true]
      refine ⟨⟨hte, by simp [hfin]⟩, ?_⟩
      cases hb : c.beginCancel
      · rfl
      · simp only [hb, Bool.not_true, Bool.false_or, Bool.and_eq_true, and_assoc] at hbc
        simp only [Bool.not_true, Bool.false_or, Bool.or_eq_true]
        exact .inl hbc.2.1

/-! ## the predicates are theorems of the model

  General form: for every finisher event `win` completing what the model leaves open with
  concurrent finishers. -/

theorem holdsC13_modelW (win : String) (hwin : isFinisher win = true) (c : Case) (hwf : CaseWF c) :
    holdsC13 c (predObsW win c (predict c)) = true := l4s_holdsC13_all hwin hwf

theorem holdsC14_modelW (win : String) (hwin : isFinisher win = true) (c : Case) (hwf : CaseWF c) :
    holdsC14 c (predObsW win c (predict c)) = true := l4s_holdsC14_all hwin hwf

/-- C15 needs no well-formedness -/
theorem holdsC15_modelW (win : String) (c : Case) : holdsC15 c (predObsW win c (predict c)) = true :=
  l4s_holdsC15_all win c

theorem holdsC12_modelW (win : String) (hwin : isFinisher win = true) (c : Case) (hwf : CaseWF c) :
    holdsC12 c (predObsW win c (predict c)) = true := l4s_holdsC12_all hwin hwf

theorem holdsC20_modelW (win : String) (hwin : isFinisher win = true) (c : Case) (hwf : CaseWF c) :
    holdsC20 c (predObsW win c (predict c)) = true := l4s_holdsC20_all hwin hwf

/-- C09 (transaction half) needs no well-formedness -/
theorem holdsC09tx_modelW (win : String) (c : Case) : holdsC09tx c (predObsW win c (predict c)) = true :=
  l4s_holdsC09tx win c _

/-- the model agrees with the observation it predicts; no well-formedness needed -/
theorem diffs_modelW (win : String) (hwin : isFinisher win = true) (c : Case) :
    diffs c (predict c) (predObsW win c (predict c)) = [] := l4s_diffs_all hwin c

/-! ### the same for `predObs` -/

theorem holdsC13_model (c : Case) (hwf : CaseWF c) : holdsC13 c (predObs c (predict c)) = true :=
  holdsC13_modelW "commit" (by decide) c hwf

theorem holdsC14_model (c : Case) (hwf : CaseWF c) : holdsC14 c (predObs c (predict c)) = true :=
  holdsC14_modelW "commit" (by decide) c hwf

theorem holdsC15_model (c : Case) (_hwf : CaseWF c) : holdsC15 c (predObs c (predict c)) = true :=
  holdsC15_modelW "commit" c

theorem holdsC12_model (c : Case) (hwf : CaseWF c) : holdsC12 c (predObs c (predict c)) = true :=
  holdsC12_modelW "commit" (by decide) c hwf

theorem holdsC20_model (c : Case) (hwf : CaseWF c) : holdsC20 c (predObs c (predict c)) = true :=
  holdsC20_modelW "commit" (by decide) c hwf

theorem holdsC09tx_model (c : Case) (_hwf : CaseWF c) : holdsC09tx c (predObs c (predict c)) = true :=
  holdsC09tx_modelW "commit" c

theorem diffs_model (c : Case) : diffs c (predict c) (predObs c (predict c)) = [] :=
  diffs_modelW "commit" (by decide) c

/-- everything the harness evaluates on a case, at once: the model's own observation passes -/
theorem l4_model_passes (c : Case) (hwf : CaseWF c) :
    diffs c (predict c) (predObs c (predict c)) = [] ∧
    holdsC09tx c (predObs c (predict c)) = true ∧ holdsC12 c (predObs c (predict c)) = true ∧
    holdsC13 c (predObs c (predict c)) = true ∧ holdsC14 c (predObs c (predict c)) = true ∧
    holdsC15 c (predObs c (predict c)) = true ∧ holdsC20 c (predObs c (predict c)) = true :=
  ⟨diffs_model c, holdsC09tx_model c hwf, holdsC12_model c hwf, holdsC13_model c hwf, holdsC14_model c hwf,
    holdsC15_model c hwf, holdsC20_model c hwf⟩

/-- … in particular for every case the generator can produce -/
theorem l4_model_passes_generated (c : Case) (h : l4s_genWF c = true) :
    diffs c (predict c) (predObs c (predict c)) = [] ∧
    holdsC09tx c (predObs c (predict c)) = true ∧ holdsC12 c (predObs c (predict c)) = true ∧
    holdsC13 c (predObs c (predict c)) = true ∧ holdsC14 c (predObs c (predict c)) = true ∧
    holdsC15 c (predObs c (predict c)) = true ∧ holdsC20 c (predObs c (predict c)) = true :=
  l4_model_passes c (l4s_genWF_caseWF c h)

/-! ## well-formedness is needed: ill-formed cases on which a predicate fails of the model's
    own prediction (none of them can be generated) -/

def l4s_base : Case :=
  { hasOutputs := true, path := "db", ctx := "marker", nrows := 0, badRow := none, fetchErrAt := none,
    closeErr := false, prepareErr := false, runErr := false, txEnd := "", finishers := [], concurrent := 0,
    op := "run", dests := "", calls := [], cancelAt := none }

/-- a transaction nobody ends: the connection stays in use (C13) and there is no finisher
    event (C12).  The generator always gives a transaction 1–3 finishers. -/
def l4s_illNoFinisher : Case := { l4s_base with path := "tx", txEnd := "after" }

theorem holdsC13_counterexample_illformed :
    ¬ CaseWF l4s_illNoFinisher ∧ l4s_genWF l4s_illNoFinisher = false ∧
    holdsC13 l4s_illNoFinisher (predObs l4s_illNoFinisher (predict l4s_illNoFinisher)) = false ∧
    holdsC12 l4s_illNoFinisher (predObs l4s_illNoFinisher (predict l4s_illNoFinisher)) = false := by
  decide +kernel

/-- an operation name the model does not know is treated as an iteration that is never closed -/
def l4s_illOp : Case := { l4s_base with op := "bogus", nrows := 1 }

theorem holdsC13_counterexample_illformed_op :
    ¬ CaseWF l4s_illOp ∧ l4s_genWF l4s_illOp = false ∧
    holdsC13 l4s_illOp (predObs l4s_illOp (predict l4s_illOp)) = false := by
  decide +kernel

/-- beginCancel together with a transaction ended before the operation: the first finisher
    succeeds although C12 then expects every finisher to fail.  The generator sets beginCancel
    only with txEnd = "after". -/
def l4s_illBeginCancel : Case :=
  { l4s_base with
    path := "tx", txEnd := "between", finishers := ["commit"]
    beginCancel := true }

theorem holdsC12_counterexample_illformed :
    ¬ CaseWF l4s_illBeginCancel ∧ l4s_genWF l4s_illBeginCancel = false ∧
    holdsC12 l4s_illBeginCancel (predObs l4s_illBeginCancel (predict l4s_illBeginCancel)) = false := by
  decide +kernel

/-- a transaction whose end is not placed: the finishers are never called -/
def l4s_illTxEnd : Case := { l4s_base with path := "tx", finishers := ["commit"] }

theorem holdsC12_counterexample_illformed_txEnd :
    ¬ CaseWF l4s_illTxEnd ∧ l4s_genWF l4s_illTxEnd = false ∧
    holdsC12 l4s_illTxEnd (predObs l4s_illTxEnd (predict l4s_illTxEnd)) = false ∧
    holdsC13 l4s_illTxEnd (predObs l4s_illTxEnd (predict l4s_illTxEnd)) = false := by
  decide +kernel

/-- a pair case on a transaction path: the pair scenario has no transaction, C12 finds no
    `begin`.  The generator fixes the path of pair cases to "db". -/
def l4s_illPairTx : Case := { l4s_base with op := "pair", path := "tx", pairOp := "run", aEnd := "cancel" }

theorem holdsC12_counterexample_illformed_pair :
    ¬ CaseWF l4s_illPairTx ∧ l4s_genWF l4s_illPairTx = false ∧
    holdsC12 l4s_illPairTx (predObs l4s_illPairTx (predict l4s_illPairTx)) = false := by
  decide +kernel

/-- a pair case whose B is a Get on a statement without outputs: the Get is refused before
    anything runs, so B makes no driver call and C20 misses B's prepare / exec.  The generator
    turns B into a Run when the statement has no outputs. -/
def l4s_illPairGet : Case :=
  { l4s_base with op := "pair", hasOutputs := false, pairOp := "get", aEnd := "cancel" }

theorem holdsC20_counterexample_illformed_pair :
    ¬ CaseWF l4s_illPairGet ∧ l4s_genWF l4s_illPairGet = false ∧
    holdsC20 l4s_illPairGet (predObs l4s_illPairGet (predict l4s_illPairGet)) = false := by
  refine ⟨by decide +kernel, by decide +kernel, ?_⟩
  have hop : l4s_illPairGet.op = "pair" := rfl
  have hk := (l4s_pair_kindsWith "commit" hop).2
  have hevB : (predictPair l4s_illPairGet).evB = [] := by decide +kernel
  rw [hevB] at hk
  rw [l4s_predict_pair hop]
  unfold holdsC20
  have hk' : (predObs l4s_illPairGet (predictPair l4s_illPairGet)).kindsWith l4s_illPairGet.markB = [] := hk
  simp only [hop, beq_self_eq_true, if_true, hk']
  decide +kernel

/-! ## non-vacuity: concrete well-formed cases, and wrong observations the predicates reject -/

/-- GetAll over three rows with a fetch error at position 2 -/
def l4s_exGetAll : Case := { l4s_base with op := "getall", dests := "valid", nrows := 3, fetchErrAt := some 2 }

/-- an iterator call sequence next, get, next, getinvalid, close, close over two rows, the
    driver's Close failing -/
def l4s_exIter : Case :=
  { l4s_base with
    op := "iter", nrows := 2, closeErr := true
    calls := ["next", "get", "next", "getinvalid", "close", "close"] }

/-- a transaction with commit, rollback finishers after a cached Get -/
def l4s_exTx : Case :=
  { l4s_base with
    path := "txcached", op := "get", dests := "valid", nrows := 1, txEnd := "after"
    finishers := ["commit", "rollback"] }

/-- a Run with a context cancelled before -/
def l4s_exCtx : Case := { l4s_base with ctx := "cancelled-before", hasOutputs := false }

/-- a Get finding no row -/
def l4s_exNoRows : Case := { l4s_base with op := "get", dests := "valid" }

/-- a pair case: B is a GetAll under its own context while A's context is cancelled -/
def l4s_exPair : Case := { l4s_base with op := "pair", pairOp := "getall", aEnd := "cancel", nrows := 2 }

example : CaseWF l4s_exGetAll ∧ CaseWF l4s_exIter ∧ CaseWF l4s_exTx ∧ CaseWF l4s_exCtx ∧ CaseWF l4s_exNoRows ∧
    CaseWF l4s_exPair := by decide +kernel
example : l4s_genWF l4s_exGetAll = true ∧ l4s_genWF l4s_exIter = true ∧ l4s_genWF l4s_exTx = true ∧
    l4s_genWF l4s_exCtx = true ∧ l4s_genWF l4s_exNoRows = true ∧ l4s_genWF l4s_exPair = true := by decide +kernel

/-- what the model predicts for these cases -/
example : (predict l4s_exGetAll).returns = ["inj:3"] ∧ (predict l4s_exGetAll).appended = [] ∧
    (predict l4s_exGetAll).log = [.prepare, .query, .next, .next, .next, .rowsClose] := by decide +kernel
example : (predict l4s_exIter).returns =
    ["true", "row:1", "true", "wrapped(sqlair:scan-args)", "inj:4", "inj:4"] := by decide +kernel
example : (predict l4s_exTx).log = [.begin, .query, .next, .rowsClose, .commit] ∧
    (predict l4s_exTx).finish = ["", "txDone"] ∧ (predict l4s_exTx).stored = 1 := by decide +kernel

-- C13: a connection left in use is rejected
example : holdsC13 l4s_exGetAll (predObs l4s_exGetAll (predict l4s_exGetAll)) = true :=
  holdsC13_model _ (by decide +kernel)
example : holdsC13 l4s_exGetAll { predObs l4s_exGetAll (predict l4s_exGetAll) with inUse := 1 } = false := by
  decide +kernel
example : holdsC13 l4s_exGetAll
    { predObs l4s_exGetAll (predict l4s_exGetAll) with events := ["prepare", "query", "next", "next", "next"] } = false := by
  decide +kernel

-- C14: a second Close returning something else, a row out of order, a fetch error reported as success
example : holdsC14 l4s_exIter (predObs l4s_exIter (predict l4s_exIter)) = true :=
  holdsC14_model _ (by decide +kernel)
example : holdsC14 l4s_exIter { predObs l4s_exIter (predict l4s_exIter) with
    returns := ["true", "row:1", "true", "wrapped(sqlair:scan-args)", "inj:4", ""] } = false := by decide +kernel
example : holdsC14 l4s_exIter { predObs l4s_exIter (predict l4s_exIter) with
    returns := ["true", "row:2", "true", "wrapped(sqlair:scan-args)", "inj:4", "inj:4"] } = false := by decide +kernel
example : holdsC14 l4s_exGetAll { predObs l4s_exGetAll (predict l4s_exGetAll) with returns := [""] } = false := by
  decide +kernel

-- C15: an empty result reported as success; rows appended although GetAll failed
example : holdsC15 l4s_exNoRows (predObs l4s_exNoRows (predict l4s_exNoRows)) = true :=
  holdsC15_model _ (by decide +kernel)
example : holdsC15 l4s_exNoRows { predObs l4s_exNoRows (predict l4s_exNoRows) with returns := [""] } = false := by
  decide +kernel
example : holdsC15 l4s_exGetAll { predObs l4s_exGetAll (predict l4s_exGetAll) with appended := [1, 2] } = false := by
  decide +kernel

-- C12: two finisher events; a second finisher that succeeds
example : holdsC12 l4s_exTx (predObs l4s_exTx (predict l4s_exTx)) = true :=
  holdsC12_model _ (by decide +kernel)
example : holdsC12 l4s_exTx { predObs l4s_exTx (predict l4s_exTx) with
    events := ["begin", "query", "next", "rowsClose", "commit", "rollback"] } = false := by decide +kernel
example : holdsC12 l4s_exTx { predObs l4s_exTx (predict l4s_exTx) with finish := ["", ""] } = false := by
  decide +kernel

-- C09: an event on another connection
example : holdsC09tx l4s_exTx (predObs l4s_exTx (predict l4s_exTx)) = true :=
  holdsC09tx_model _ (by decide +kernel)
example : holdsC09tx l4s_exTx { predObs l4s_exTx (predict l4s_exTx) with eventConn := [1, 2, 2, 2, 1] } = false := by
  decide +kernel

-- C20: a statement executed although the context was done; B reporting A's context error
example : holdsC20 l4s_exCtx (predObs l4s_exCtx (predict l4s_exCtx)) = true :=
  holdsC20_model _ (by decide +kernel)
example : holdsC20 l4s_exCtx { predObs l4s_exCtx (predict l4s_exCtx) with events := ["prepare", "exec"] } = false := by
  decide +kernel
example : holdsC20 l4s_exCtx { predObs l4s_exCtx (predict l4s_exCtx) with returns := [""] } = false := by
  decide +kernel
example : holdsC20 l4s_exPair (predObs l4s_exPair (predict l4s_exPair)) = true :=
  holdsC20_model _ (by decide +kernel)
example : holdsC20 l4s_exPair { predObs l4s_exPair (predict l4s_exPair) with returns := ["ctx", "ctx"] } = false := by
  decide +kernel

-- diffs: any deviation is reported
example : diffs l4s_exTx (predict l4s_exTx) (predObs l4s_exTx (predict l4s_exTx)) = [] := diffs_model _
example : diffs l4s_exTx (predict l4s_exTx) { predObs l4s_exTx (predict l4s_exTx) with stored := 2 } ≠ [] := by
  decide +kernel
example : diffs l4s_exIter (predict l4s_exIter) { predObs l4s_exIter (predict l4s_exIter) with
    events := ["prepare", "query", "next", "next", "rowsClose", "rowsClose"] } ≠ [] := by decide +kernel

end Sqlair.Rt
