/-
  Definitions shared by the parser proofs: decoder assumptions, scanner invariants.
-/
import SqlairModel.Spec.L1

namespace Sqlair

/-- What the parser proofs assume about the rune decoder.  Proved for the Go-faithful
    `decodeRune` in `SqlairProofs/Utf8.lean`. -/
structure DecOK (E : Env) : Prop where
  size_pos : ∀ p, p < E.len → 1 ≤ (E.dec E.inp p).2
  size_le : ∀ p, p < E.len → p + (E.dec E.inp p).2 ≤ E.len
  /-- the newline rune is exactly the newline byte -/
  nl : ∀ p, p < E.len → (E.dec E.inp p).1 = 10 → (E.dec E.inp p).2 = 1 ∧ bAt E.inp p = 10
  /-- no other rune's encoding contains a newline byte -/
  no_nl : ∀ p, p < E.len → (E.dec E.inp p).1 ≠ 10 →
    ∀ i, p ≤ i → i < p + (E.dec E.inp p).2 → bAt E.inp i ≠ 10

/-- What the error-position proof (C19) assumes about the rune classifier: the newline is
    neither a letter nor a digit, so a name never spans lines.  (True of `unicode.IsLetter`
    / `unicode.IsDigit`; without it C19 fails, see `SqlairProofs/Props/Parser.lean`.) -/
structure ClassOK (E : Env) : Prop where
  letter_nl : E.letter 10 = false
  digit_nl : E.digit 10 = false

/-- number of newline bytes in `inp[0:off)` -/
def nlCount (inp : Bytes) (off : Nat) : Nat := ((inp.extract 0 off).toList.filter (· == 10)).length

/-- Scanner consistency (`Cons`) and line bookkeeping (`Lines`) of DESIGN Appendix A. -/
structure Good (E : Env) (s : Sc) : Prop where
  pos_le : s.pos ≤ E.len
  next : s.pos < E.len → s.nextPos = s.pos + (E.dec E.inp s.pos).2 ∧ s.char = (E.dec E.inp s.pos).1
  next_eof : s.pos = E.len → s.nextPos = s.pos
  line : (s.lineNum, s.pos - s.lineStart + 1) = lineColOf E.inp s.pos
  lineStart_le : s.lineStart ≤ s.pos

/-- spans `[a,b)` of consecutive nodes starting at `from` and ending at `to` -/
inductive SpansChain : Nat → Nat → List Seg → Prop where
  | nil (x : Nat) : SpansChain x x []
  | cons (s : Seg) (rest : List Seg) (to : Nat) :
      s.a ≤ s.b → SpansChain s.b to rest → SpansChain s.a to (s :: rest)

end Sqlair
