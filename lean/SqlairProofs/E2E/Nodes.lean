/-
  E2E/Nodes: nodes, typed expressions and SQL pieces correspond one to one, kind by kind
  (the bind-layer half of C01 end to end).
-/
import SqlairProofs.Bind.Tag
import SqlairProofs.Bind.Fold

namespace Sqlair

/-- the typed expression a node of a given kind is bound to -/
def NodeExpr (s : OSeg) (e : TExpr) : Prop :=
  match s.kind with
  | .bypass => e = .bypass s.raw
  | .member | .slice => ∃ l, e = .input l
  | .astInsert | .colInsert | .basicInsert => ∃ cols, e = .insert cols
  | .output => ∃ cols, e = .output cols

/-- the SQL piece a typed expression expands to -/
def ExprPiece (e : TExpr) (p : Piece) : Prop :=
  match e with
  | .bypass chunk => p = .text chunk
  | .input _ => ∃ first num, p = .inputs first num
  | .insert _ => ∃ names rows, p = .insert names rows
  | .output cols => ∃ first, p = .outputs first (cols.map (·.1))

/-- the SQL piece generated for a node of kind `k` whose raw text is `raw` -/
def NodePiece (k : SegKind) (raw : Bytes) (p : Piece) : Prop :=
  match k with
  | .bypass => p = .text raw
  | .member | .slice => ∃ first num, p = .inputs first num
  | .astInsert | .colInsert | .basicInsert => ∃ names rows, p = .insert names rows
  | .output => ∃ first cols, p = .outputs first cols

def Piece.isText : Piece → Bool
  | .text _ => true
  | _ => false

theorem NodePiece.bypass {raw : Bytes} {p : Piece} (h : NodePiece .bypass raw p) : p = .text raw := h

theorem NodePiece.not_text {k : SegKind} {raw : Bytes} {p : Piece} (h : NodePiece k raw p)
    (hk : k ≠ .bypass) : p.isText = false := by
  cases k <;> simp only [NodePiece] at h
  · exact absurd rfl hk
  all_goals first
    | (obtain ⟨_, _, rfl⟩ := h; rfl)

theorem NodeExpr.piece {s : OSeg} {e : TExpr} {p : Piece} (h1 : NodeExpr s e) (h2 : ExprPiece e p) :
    NodePiece s.kind s.raw p := by
  unfold NodeExpr at h1
  unfold NodePiece
  cases hk : s.kind <;> simp only [hk] at h1 ⊢
  · subst h1; exact h2
  · obtain ⟨cols, rfl⟩ := h1; obtain ⟨f, hf⟩ := h2; exact ⟨f, _, hf⟩
  · obtain ⟨l, rfl⟩ := h1; exact h2
  · obtain ⟨l, rfl⟩ := h1; exact h2
  · obtain ⟨l, rfl⟩ := h1; exact h2
  · obtain ⟨l, rfl⟩ := h1; exact h2
  · obtain ⟨l, rfl⟩ := h1; exact h2

/-- one node appends exactly one typed expression, of the kind of the node -/
theorem bindSeg_expr {st st' : TEB} {s : OSeg} (h : bindSeg st s = .ok st') :
    ∃ e, st'.exprs = st.exprs ++ [e] ∧ NodeExpr s e := by
  by_cases hk : s.kind = .output
  · obtain ⟨cols, he, _⟩ := bindSeg_output hk h
    exact ⟨_, he, by unfold NodeExpr; rw [hk]; exact ⟨cols, rfl⟩⟩
  unfold bindSeg at h
  unfold NodeExpr
  split at h
  · rename_i hk'
    cases h
    exact ⟨_, rfl, by rw [hk']⟩
  · rename_i hk'
    split at h
    · split at h
      · cases h
      · rename_i l st1 ha
        cases h
        exact ⟨_, by show st1.exprs ++ _ = _; rw [(inputMember_ok ha).2.1], by rw [hk']; exact ⟨l, rfl⟩⟩
    · cases h
  · rename_i hk'
    split at h
    · split at h
      · cases h
      · rename_i ai st1 hg
        split at h
        · cases h
        · rename_i l _
          cases h
          exact ⟨_, by show st1.exprs ++ _ = _; rw [(getArg_ok hg).1], by rw [hk']; exact ⟨l, rfl⟩⟩
    · cases h
  · rename_i hk'
    split at h
    · cases h
    · rename_i cols st1 ha
      cases h
      have h1 := astInsertCols_ok _ _ _ _ _ ha .nil
      exact ⟨_, by show st1.exprs ++ _ = _; rw [h1.2.1], by rw [hk']; exact ⟨cols, rfl⟩⟩
  · rename_i hk'
    split at h
    · cases h
    · rename_i prov rem st1 hp
      have h0 := colInsertProviders_ok _ _ _ _ _ _ _ hp (by intro p hp; cases hp)
      split at h
      · cases h
      · rename_i cols st2 ha
        cases h
        have h1 := colInsertCols_ok _ _ h0.1 _ _ _ _ _ ha .nil
        exact ⟨_, by show st2.exprs ++ _ = _; rw [h1.2.1, h0.2.1], by rw [hk']; exact ⟨cols, rfl⟩⟩
  · rename_i hk'
    split at h
    · cases h
    · split at h
      · cases h
      · rename_i cols st1 ha
        cases h
        have h1 := basicInsertCols_ok _ _ _ _ _ ha .nil
        exact ⟨_, by show st1.exprs ++ _ = _; rw [h1.2.1], by rw [hk']; exact ⟨cols, rfl⟩⟩
  · rename_i hk'
    exact absurd hk' hk

/-- pointwise correspondence of two lists -/
def Corr {α β : Type} (R : α → β → Prop) (l : List α) (l' : List β) : Prop :=
  l'.length = l.length ∧ ∀ (i : Nat) (a : α), l[i]? = some a → ∃ b, l'[i]? = some b ∧ R a b

theorem Corr.nil {α β : Type} {R : α → β → Prop} : Corr R [] [] := ⟨rfl, by simp⟩

theorem Corr.cons {α β : Type} {R : α → β → Prop} {a : α} {b : β} {l : List α} {l' : List β}
    (h : R a b) (ht : Corr R l l') : Corr R (a :: l) (b :: l') := by
  refine ⟨by simp [ht.1], ?_⟩
  intro i x hx
  cases i with
  | zero => simp at hx; subst hx; exact ⟨b, by simp, h⟩
  | succ i => simp at hx; simpa using ht.2 i x hx

theorem Corr.trans {α β γ : Type} {R : α → β → Prop} {S : β → γ → Prop} {T : α → γ → Prop}
    (hRS : ∀ a b c, R a b → S b c → T a c) {l : List α} {l' : List β} {l'' : List γ}
    (h1 : Corr R l l') (h2 : Corr S l' l'') : Corr T l l'' := by
  refine ⟨h2.1.trans h1.1, ?_⟩
  intro i a ha
  obtain ⟨b, hb, hr⟩ := h1.2 i a ha
  obtain ⟨c, hc, hs⟩ := h2.2 i b hb
  exact ⟨c, hc, hRS a b c hr hs⟩

theorem Corr.getElem {α β : Type} {R : α → β → Prop} {l : List α} {l' : List β} (h : Corr R l l')
    (i : Nat) (hi : i < l.length) (hi' : i < l'.length) : R l[i] l'[i] := by
  obtain ⟨b, hb, hr⟩ := h.2 i l[i] (List.getElem?_eq_getElem hi)
  rw [List.getElem?_eq_getElem hi'] at hb
  cases hb; exact hr

theorem Corr.map_left {α α' β : Type} {R : α' → β → Prop} {f : α → α'} {l : List α} {l' : List β}
    (h : Corr R (l.map f) l') : Corr (fun a b => R (f a) b) l l' := by
  refine ⟨by simpa using h.1, ?_⟩
  intro i a ha
  exact h.2 i (f a) (by simp [ha])

/-- the node loop appends one typed expression per node, in order -/
theorem bindSegs_exprs : ∀ (segs : List OSeg) (st st' : TEB), bindSegs st segs = .ok st' →
    ∃ new, st'.exprs = st.exprs ++ new ∧ Corr NodeExpr segs new := by
  intro segs
  induction segs with
  | nil => intro st st' h; simp only [bindSegs] at h; cases h; exact ⟨[], by simp, .nil⟩
  | cons s rest ih =>
    intro st st' h
    simp only [bindSegs] at h
    split at h
    · cases h
    · rename_i st1 hs
      obtain ⟨e, he, hn⟩ := bindSeg_expr hs
      obtain ⟨new, hnew, hc⟩ := ih _ _ h
      exact ⟨e :: new, by rw [hnew, he]; simp, .cons hn hc⟩

theorem bindTypes_ok_unfold {C : Cls} {tt : TypeTable} {segs : List OSeg} {samples : List (Option Nat)}
    {tes : List TExpr} (h : bindTypes C tt segs samples = .ok tes) :
    ∃ infos st, generateArgInfo C tt samples [] = .ok infos ∧
      bindSegs { argInfos := infos } segs = .ok st ∧
      infos.all (fun p => st.argUsed.contains p.1) = true ∧ tes = st.exprs := by
  unfold bindTypes at h
  split at h
  · cases h
  · rename_i infos hg
    split at h
    · cases h
    · rename_i st hs
      split at h
      · rename_i hall; cases h; exact ⟨infos, st, hg, hs, hall, rfl⟩
      · cases h

/-- `bindTypes`: one typed expression per node, in order, of the kind of the node -/
theorem bindTypes_exprs {C : Cls} {tt : TypeTable} {segs : List OSeg} {samples : List (Option Nat)}
    {tes : List TExpr} (h : bindTypes C tt segs samples = .ok tes) : Corr NodeExpr segs tes := by
  obtain ⟨infos, st, _, hs, _, rfl⟩ := bindTypes_ok_unfold h
  obtain ⟨new, hnew, hc⟩ := bindSegs_exprs _ _ _ hs
  simp only [List.nil_append] at hnew
  rw [hnew]; exact hc

/-- one typed expression appends exactly one piece, of the kind of the expression -/
theorem addToQuery_piece {tt : TypeTable} {m : TypeToValue} {qb qb' : QB} {te : TExpr}
    (h : addToQuery tt m qb te = .ok qb') : ∃ p, qb'.pieces = qb.pieces ++ [p] ∧ ExprPiece te p := by
  cases te with
  | bypass chunk => simp [addToQuery] at h; subst h; exact ⟨_, rfl, rfl⟩
  | input loc =>
    obtain ⟨p, hs⟩ := addToQuery_input_spec h
    exact ⟨_, hs.pieces, _, _, rfl⟩
  | insert cols =>
    obtain ⟨bcs, numRows, hs⟩ := addToQuery_insert_spec h
    exact ⟨_, hs.pieces, _, _, rfl⟩
  | output cols => simp [addToQuery] at h; subst h; exact ⟨_, rfl, _, rfl⟩

theorem foldlM_addToQuery_pieces {tt : TypeTable} {m : TypeToValue} :
    ∀ (tes : List TExpr) (qb qb' : QB), tes.foldlM (addToQuery tt m) qb = .ok qb' →
    ∃ ps, qb'.pieces = qb.pieces ++ ps ∧ Corr ExprPiece tes ps := by
  intro tes
  induction tes with
  | nil => intro qb qb' h; cases h; exact ⟨[], by simp, .nil⟩
  | cons te rest ih =>
    intro qb qb' h
    rw [foldlM_except_cons] at h
    cases hs : addToQuery tt m qb te with
    | error e => rw [hs] at h; cases h
    | ok q1 =>
      rw [hs] at h
      obtain ⟨p, hp, he⟩ := addToQuery_piece hs
      obtain ⟨ps, hps, hc⟩ := ih q1 qb' h
      exact ⟨p :: ps, by rw [hps, hp]; simp, .cons he hc⟩

/-- `bindInputs`: one piece per typed expression, in order, of the kind of the expression -/
theorem bindInputs_pieces {tt : TypeTable} {tes : List TExpr} {args : List GoVal} {pq : Primed}
    (h : bindInputs tt tes args = .ok pq) : Corr ExprPiece tes pq.pieces := by
  obtain ⟨m, qb, _, hq, _, rfl⟩ := bindInputs_ok_unfold h
  obtain ⟨ps, hps, hc⟩ := foldlM_addToQuery_pieces _ _ _ hq
  simp only [List.nil_append] at hps
  rw [hps]; exact hc

end Sqlair
