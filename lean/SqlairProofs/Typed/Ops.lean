/-
  Typed/Ops: exact acceptance conditions and state effects of the primitive builder
  operations (`getArg`, `inputMember`, `allStructInputs`, `outputMember`, `allStructOutputs`).
-/
import SqlairProofs.Typed.NodeDefs

namespace Sqlair

/-- mark the sample `T` used -/
def TEB.use (st : TEB) (T : Bytes) : TEB :=
  { st with argUsed := if st.argUsed.contains T then st.argUsed else T :: st.argUsed }

theorem getArg_eq (st : TEB) (T : Bytes) :
    getArg st T = match lookupInfo st.argInfos T with
      | none => .error "type-missing"
      | some a => .ok (a, st.use T) := by
  unfold getArg lookupInfo TEB.use
  cases h : st.argInfos.find? (fun p => p.1 == T) with
  | none => rfl
  | some p => rfl

theorem Grows.use (st : TEB) (T : Bytes) : Grows st (st.use T) [T] [] := by
  refine ⟨rfl, ?_, by simp [TEB.use]⟩
  intro n
  unfold TEB.use
  simp only [List.mem_singleton]
  split
  · rename_i h
    have : T ∈ st.argUsed := by simpa using h
    constructor
    · exact Or.inl
    · rintro (h | rfl)
      · exact h
      · exact this
  · simp only [List.mem_cons]
    constructor
    · rintro (h | h)
      · exact Or.inr h
      · exact Or.inl h
    · rintro (h | h)
      · exact Or.inr h
      · exact Or.inl h

@[simp] theorem TEB.use_argInfos (st : TEB) (T : Bytes) : (st.use T).argInfos = st.argInfos := rfl
@[simp] theorem TEB.use_outputUsed (st : TEB) (T : Bytes) : (st.use T).outputUsed = st.outputUsed := rfl

/-! ### the infos -/

theorem getMember_ok_iff {a : ArgInfo} {m : Bytes} : (∃ l, a.getMember m = .ok l) ↔ a.HasMember m := by
  cases a with
  | struct tid n fields tags =>
    simp only [ArgInfo.getMember, ArgInfo.HasMember]
    cases hf : fields.find? (fun f => f.tag == m) with
    | none =>
      simp only [reduceCtorEq, exists_false, false_iff, not_exists, not_and]
      intro f hfm he
      have := List.find?_eq_none.1 hf f hfm
      simp [he] at this
    | some f =>
      simp only [Except.ok.injEq, exists_eq', true_iff]
      exact ⟨f, List.mem_of_find?_eq_some hf, by simpa using List.find?_some hf⟩
  | map tid n => simp [ArgInfo.getMember, ArgInfo.HasMember]
  | slice tid n => simp [ArgInfo.getMember, ArgInfo.HasMember]

theorem getMember_ident {a : ArgInfo} {m : Bytes} {l : Loc} (h : a.getMember m = .ok l) :
    l.ident = a.name ++ dot ++ m := by
  cases a with
  | struct tid n fields tags =>
    simp only [ArgInfo.getMember] at h
    split at h
    · rename_i f hf
      cases h
      have : f.tag = m := by simpa using List.find?_some hf
      simp [Loc.ident, ArgInfo.name, this]
    · cases h
  | map tid n => simp only [ArgInfo.getMember] at h; cases h; rfl
  | slice tid n => simp [ArgInfo.getMember] at h

theorem getAll_ok_iff {a : ArgInfo} :
    (∃ ms, a.getAll = .ok ms) ↔ ∃ tid n fields tags, a = .struct tid n fields tags ∧ tags ≠ [] := by
  cases a with
  | struct tid n fields tags =>
    simp only [ArgInfo.getAll]
    cases tags with
    | nil => simp
    | cons t ts =>
      simp only [List.isEmpty_cons, Bool.false_eq_true, if_false, Except.ok.injEq, exists_eq', true_iff]
      exact ⟨tid, n, fields, t :: ts, rfl, by simp⟩
  | map tid n => simp [ArgInfo.getAll]
  | slice tid n => simp [ArgInfo.getAll]

private theorem filterMap_idents (tid : Nat) (n : Bytes) (fields : List SField) : ∀ (tags : List Bytes),
    (tags.filterMap fun t => (fields.find? (fun f => f.tag == t)).map fun f => (Loc.field tid n f, t)).map
        (fun p => (p.1.ident, p.2)) =
      (tags.filter (fun t => fields.any (fun f => f.tag == t))).map (fun t => (n ++ dot ++ t, t)) := by
  intro tags
  induction tags with
  | nil => rfl
  | cons t ts ih =>
    rw [List.filterMap_cons, List.filter_cons]
    cases hf : fields.find? (fun f => f.tag == t) with
    | none =>
      have : fields.any (fun f => f.tag == t) = false := by
        rw [List.any_eq_false]
        intro f hfm
        exact List.find?_eq_none.1 hf f hfm
      simp only [Option.map_none, this, Bool.false_eq_true, if_false]
      exact ih
    | some f =>
      have ht : f.tag = t := by simpa using List.find?_some hf
      have : fields.any (fun f => f.tag == t) = true :=
        List.any_eq_true.2 ⟨f, List.mem_of_find?_eq_some hf, by simp [ht]⟩
      simp only [Option.map_some, this, if_true, List.map_cons]
      rw [ih]
      simp [Loc.ident, ht]

/-- the identifiers and tags of the members of `T.*` -/
theorem getAll_idents {a : ArgInfo} {ms : List (Loc × Bytes)} (h : a.getAll = .ok ms) :
    ms.map (·.1.ident) = a.starTags.map (fun t => a.name ++ dot ++ t) ∧ ms.map (·.2) = a.starTags := by
  cases a with
  | struct tid n fields tags =>
    simp only [ArgInfo.getAll] at h
    split at h
    · cases h
    · cases h
      have := filterMap_idents tid n fields tags
      constructor
      · have h1 := congrArg (List.map Prod.fst) this
        simpa [List.map_map, Function.comp_def, ArgInfo.starTags, ArgInfo.name] using h1
      · have h1 := congrArg (List.map Prod.snd) this
        simpa [List.map_map, Function.comp_def, ArgInfo.starTags] using h1
  | map tid n => simp [ArgInfo.getAll] at h
  | slice tid n => simp [ArgInfo.getAll] at h

/-! ### input side -/

theorem inputMember_ok_iff {st : TEB} {T m : Bytes} :
    (∃ r, inputMember st T m = .ok r) ↔ MemberOK st.argInfos T m := by
  unfold inputMember MemberOK
  rw [getArg_eq]
  cases hl : lookupInfo st.argInfos T with
  | none => simp
  | some a =>
    simp only [Option.some.injEq, exists_eq_left']
    rw [← getMember_ok_iff]
    cases a.getMember m with
    | error e => simp
    | ok l => simp

theorem inputMember_grows {st st' : TEB} {T m : Bytes} {l : Loc}
    (h : inputMember st T m = .ok (l, st')) : Grows st st' [T] [] := by
  unfold inputMember at h
  rw [getArg_eq] at h
  cases hl : lookupInfo st.argInfos T with
  | none => simp [hl] at h
  | some a =>
    simp only [hl] at h
    split at h
    · cases h
    · cases h; exact Grows.use st T

theorem allStructInputs_ok_iff {st : TEB} {T : Bytes} :
    (∃ r, allStructInputs st T = .ok r) ↔ StarOK st.argInfos T := by
  unfold allStructInputs StarOK
  rw [getArg_eq]
  cases hl : lookupInfo st.argInfos T with
  | none => simp
  | some a =>
    simp only [Option.some.injEq]
    have := getAll_ok_iff (a := a)
    cases hg : a.getAll with
    | error e =>
      rw [hg] at this
      have hno : ¬ ∃ tid n fields tags, a = .struct tid n fields tags ∧ tags ≠ [] := by
        rw [← this]; simp
      simp only [reduceCtorEq, exists_false, false_iff]
      exact hno
    | ok ms =>
      rw [hg] at this
      have hyes : ∃ tid n fields tags, a = .struct tid n fields tags ∧ tags ≠ [] := by
        rw [← this]; simp
      simp only [Except.ok.injEq, exists_eq', true_iff]
      exact hyes

theorem allStructInputs_grows {st st' : TEB} {T : Bytes} {ms : List (Loc × Bytes)}
    (h : allStructInputs st T = .ok (ms, st')) :
    Grows st st' [T] [] ∧ ms.map (·.2) = starTagsOf st.argInfos T := by
  unfold allStructInputs at h
  rw [getArg_eq] at h
  unfold starTagsOf
  cases hl : lookupInfo st.argInfos T with
  | none => simp [hl] at h
  | some a =>
    simp only [hl] at h
    split at h
    · cases h
    · rename_i ms' hg
      cases h
      exact ⟨Grows.use st T, (getAll_idents hg).2⟩

/-! ### output side -/

theorem markOutput_ok_iff {st : TEB} {l : Loc} :
    (∃ st', markOutput st l = .ok st') ↔ l.ident ∉ st.outputUsed := by
  unfold markOutput
  by_cases h : st.outputUsed.contains l.ident = true
  · simp only [h, if_true, reduceCtorEq, exists_false, false_iff, Classical.not_not]
    simpa using h
  · simp only [h, Bool.false_eq_true, if_false, Except.ok.injEq, exists_eq', true_iff]
    simpa using h

theorem markOutput_grows {st st' : TEB} {l : Loc} (h : markOutput st l = .ok st') :
    Grows st st' [] [l.ident] := by
  unfold markOutput at h
  split at h
  · cases h
  · cases h
    refine ⟨rfl, by simp, ?_⟩
    intro d
    simp only [List.mem_cons, List.not_mem_nil, or_false]
    exact or_comm

theorem markOutputs_spec : ∀ (ms : List (Loc × Bytes)) (st : TEB),
    ((∃ st', markOutputs st ms = .ok st') ↔ Fresh st.outputUsed (ms.map (·.1.ident))) ∧
    ∀ st', markOutputs st ms = .ok st' → Grows st st' [] (ms.map (·.1.ident)) := by
  intro ms
  induction ms with
  | nil =>
    intro st
    simp only [markOutputs, Except.ok.injEq, exists_eq', List.map_nil, true_iff]
    exact ⟨Fresh.nil _, fun st' h => h ▸ Grows.refl st⟩
  | cons p rest ih =>
    intro st
    obtain ⟨l, t⟩ := p
    simp only [markOutputs, List.map_cons]
    cases hm : markOutput st l with
    | error e =>
      simp only [reduceCtorEq, exists_false, false_iff, false_imp_iff, implies_true, and_true]
      intro hf
      have : l.ident ∉ st.outputUsed := hf.2 _ (by simp)
      rw [← markOutput_ok_iff, hm] at this
      simp at this
    | ok st1 =>
      simp only
      have hg := markOutput_grows hm
      have hfresh : l.ident ∉ st.outputUsed := markOutput_ok_iff.1 ⟨_, hm⟩
      obtain ⟨ih1, ih2⟩ := ih st1
      constructor
      · rw [ih1, show l.ident :: rest.map (·.1.ident) = [l.ident] ++ rest.map (·.1.ident) from rfl,
          Fresh.append (u' := st1.outputUsed) hg.outs, Fresh.singleton]
        simp [hfresh]
      · intro st' h
        have := hg.trans (ih2 st' h)
        simpa using this

theorem outputMember_ok_iff {st : TEB} {T m : Bytes} :
    (∃ r, outputMember st T m = .ok r) ↔
      MemberOK st.argInfos T m ∧ Fresh st.outputUsed (memDests st.argInfos T m) := by
  unfold outputMember MemberOK memDests
  rw [getArg_eq]
  cases hl : lookupInfo st.argInfos T with
  | none => simp
  | some a =>
    simp only [Option.some.injEq, exists_eq_left']
    rw [← getMember_ok_iff]
    cases hg : a.getMember m with
    | error e => simp
    | ok l =>
      simp only [Except.ok.injEq, exists_eq', true_and]
      rw [Fresh.singleton, ← getMember_ident hg]
      have := markOutput_ok_iff (st := st.use T) (l := l)
      simp only [TEB.use_outputUsed] at this
      rw [← this]
      cases markOutput (st.use T) l with
      | error e => simp
      | ok st2 => simp

theorem outputMember_grows {st st' : TEB} {T m : Bytes} {l : Loc}
    (h : outputMember st T m = .ok (l, st')) : Grows st st' [T] (memDests st.argInfos T m) := by
  unfold outputMember at h
  rw [getArg_eq] at h
  unfold memDests
  cases hl : lookupInfo st.argInfos T with
  | none => simp [hl] at h
  | some a =>
    simp only [hl] at h
    split at h
    · cases h
    · rename_i l' hg
      split at h
      · cases h
      · rename_i st2 hm
        cases h
        have := (Grows.use st T).trans (markOutput_grows hm)
        simpa [getMember_ident hg] using this

theorem allStructOutputs_ok_iff {st : TEB} {T : Bytes} :
    (∃ r, allStructOutputs st T = .ok r) ↔
      StarOK st.argInfos T ∧ Fresh st.outputUsed (starDests st.argInfos T) := by
  unfold allStructOutputs StarOK starDests
  rw [getArg_eq]
  cases hl : lookupInfo st.argInfos T with
  | none => simp
  | some a =>
    simp only [Option.some.injEq]
    have := getAll_ok_iff (a := a)
    cases hg : a.getAll with
    | error e =>
      rw [hg] at this
      have hno : ¬ ∃ tid n fields tags, a = .struct tid n fields tags ∧ tags ≠ [] := by
        rw [← this]; simp
      simp only [reduceCtorEq, exists_false, false_iff, not_and]
      intro h; exact absurd h hno
    | ok ms =>
      rw [hg] at this
      have h1 : (∃ tid n fields tags, a = ArgInfo.struct tid n fields tags ∧ tags ≠ []) := by
        rw [← this]; simp
      simp only [h1, true_and]
      rw [← (getAll_idents hg).1]
      have := (markOutputs_spec ms (st.use T)).1
      simp only [TEB.use_outputUsed] at this
      rw [← this]
      cases markOutputs (st.use T) ms with
      | error e => simp
      | ok st2 => simp

theorem allStructOutputs_grows {st st' : TEB} {T : Bytes} {ms : List (Loc × Bytes)}
    (h : allStructOutputs st T = .ok (ms, st')) : Grows st st' [T] (starDests st.argInfos T) := by
  unfold allStructOutputs at h
  rw [getArg_eq] at h
  unfold starDests
  cases hl : lookupInfo st.argInfos T with
  | none => simp [hl] at h
  | some a =>
    simp only [hl] at h
    split at h
    · cases h
    · rename_i ms' hg
      split at h
      · cases h
      · rename_i st2 hm
        cases h
        have := (Grows.use st T).trans ((markOutputs_spec ms (st.use T)).2 _ hm)
        simpa [(getAll_idents hg).1] using this

end Sqlair
