/-
  Typed/Loops: exact acceptance conditions and state effects of the loops of
  `expression.bindTypes` (asterisk insert, basic insert, the three output forms).
-/
import SqlairProofs.Typed.Ops

namespace Sqlair

theorem AccessorOK_star {infos : List (Bytes × ArgInfo)} {a : Acc} (h : a.member = star) :
    AccessorOK infos a ↔ StarOK infos a.ty := by
  simp [AccessorOK, h]

theorem AccessorOK_mem {infos : List (Bytes × ArgInfo)} {a : Acc} (h : a.member ≠ star) :
    AccessorOK infos a ↔ MemberOK infos a.ty a.member := by
  simp [AccessorOK, h]

theorem accDests_star {infos : List (Bytes × ArgInfo)} {a : Acc} (h : a.member = star) :
    accDests infos a = starDests infos a.ty := by
  simp [accDests, h]

theorem accDests_mem {infos : List (Bytes × ArgInfo)} {a : Acc} (h : a.member ≠ star) :
    accDests infos a = memDests infos a.ty a.member := by
  simp [accDests, h]

/-! ### input loops -/

theorem astInsertCols_spec : ∀ (srcs : List Acc) (st : TEB) (cols : List TCol),
    ((∃ r, astInsertCols st srcs cols = .ok r) ↔ ∀ a ∈ srcs, AccessorOK st.argInfos a) ∧
    ∀ r st', astInsertCols st srcs cols = .ok (r, st') → Grows st st' (srcs.map (·.ty)) [] := by
  intro srcs
  induction srcs with
  | nil =>
    intro st cols
    simp only [astInsertCols, Except.ok.injEq, exists_eq', List.not_mem_nil, false_imp_iff, implies_true,
      true_and, Prod.mk.injEq, List.map_nil]
    rintro r st' ⟨_, rfl⟩
    exact Grows.refl st
  | cons src rest ih =>
    intro st cols
    simp only [astInsertCols, List.forall_mem_cons, List.map_cons]
    by_cases hs : src.member = star
    · simp only [hs, beq_self_eq_true, if_true]
      rw [AccessorOK_star hs, ← allStructInputs_ok_iff]
      cases h : allStructInputs st src.ty with
      | error e => simp
      | ok r1 =>
        obtain ⟨ms, st1⟩ := r1
        have hg := (allStructInputs_grows h).1
        obtain ⟨ih1, ih2⟩ := ih st1 (cols ++ ms.map (fun (l, tag) => TCol.insert l tag false))
        simp only [Except.ok.injEq, exists_eq', true_and]
        rw [hg.infos] at ih1
        exact ⟨ih1, fun r st' h' => hg.trans (ih2 r st' h')⟩
    · have hs' : (src.member == star) = false := by simpa using hs
      simp only [hs', Bool.false_eq_true, if_false]
      rw [AccessorOK_mem hs, ← inputMember_ok_iff]
      cases h : inputMember st src.ty src.member with
      | error e => simp
      | ok r1 =>
        obtain ⟨l, st1⟩ := r1
        have hg := inputMember_grows h
        obtain ⟨ih1, ih2⟩ := ih st1 (cols ++ [TCol.insert l src.member true])
        simp only [Except.ok.injEq, exists_eq', true_and]
        rw [hg.infos] at ih1
        exact ⟨ih1, fun r st' h' => hg.trans (ih2 r st' h')⟩

/-- the accessors among a list of (column, value) pairs -/
def pairAccs (ps : List (Col × Val)) : List Acc :=
  ps.filterMap fun p => match p.2 with | .acc a => some a | .lit _ => none

theorem basicInsertCols_spec : ∀ (ps : List (Col × Val)) (st : TEB) (cols : List TCol),
    ((∃ r, basicInsertCols st ps cols = .ok r) ↔ ∀ a ∈ pairAccs ps, MemberOK st.argInfos a.ty a.member) ∧
    ∀ r st', basicInsertCols st ps cols = .ok (r, st') → Grows st st' ((pairAccs ps).map (·.ty)) [] := by
  intro ps
  induction ps with
  | nil =>
    intro st cols
    simp only [basicInsertCols, Except.ok.injEq, exists_eq', pairAccs, List.filterMap_nil,
      List.not_mem_nil, false_imp_iff, implies_true, true_and, Prod.mk.injEq, List.map_nil]
    rintro r st' ⟨_, rfl⟩
    exact Grows.refl st
  | cons p rest ih =>
    intro st cols
    obtain ⟨c, v⟩ := p
    cases v with
    | lit t =>
      have hp : pairAccs ((c, Val.lit t) :: rest) = pairAccs rest := by simp [pairAccs]
      simp only [basicInsertCols, hp]
      exact ih st _
    | acc a =>
      have hp : pairAccs ((c, Val.acc a) :: rest) = a :: pairAccs rest := by simp [pairAccs]
      simp only [basicInsertCols, hp, List.forall_mem_cons, List.map_cons]
      rw [← inputMember_ok_iff]
      cases h : inputMember st a.ty a.member with
      | error e => simp
      | ok r1 =>
        obtain ⟨l, st1⟩ := r1
        have hg := inputMember_grows h
        obtain ⟨ih1, ih2⟩ := ih st1 (cols ++ [TCol.insert l c.column true])
        simp only [Except.ok.injEq, exists_eq', true_and]
        rw [hg.infos] at ih1
        exact ⟨ih1, fun r st' h' => hg.trans (ih2 r st' h')⟩

/-! ### output loops -/

theorem outGenerated_spec (pref : Bytes) : ∀ (ts : List Acc) (st : TEB) (ocs : List (Bytes × Loc)),
    ((∃ r, outGenerated pref st ts ocs = .ok r) ↔
      (∀ a ∈ ts, AccessorOK st.argInfos a) ∧ Fresh st.outputUsed (ts.flatMap (accDests st.argInfos))) ∧
    ∀ r st', outGenerated pref st ts ocs = .ok (r, st') →
      Grows st st' (ts.map (·.ty)) (ts.flatMap (accDests st.argInfos)) := by
  intro ts
  induction ts with
  | nil =>
    intro st ocs
    simp only [outGenerated, Except.ok.injEq, exists_eq', List.not_mem_nil, false_imp_iff, implies_true,
      true_iff, true_and, Prod.mk.injEq, List.map_nil, List.flatMap_nil]
    refine ⟨Fresh.nil _, ?_⟩
    rintro r st' ⟨_, rfl⟩
    exact Grows.refl st
  | cons t rest ih =>
    intro st ocs
    simp only [outGenerated, List.forall_mem_cons, List.map_cons, List.flatMap_cons]
    by_cases hs : t.member = star
    · simp only [hs, beq_self_eq_true, if_true]
      rw [AccessorOK_star hs, accDests_star hs]
      cases h : allStructOutputs st t.ty with
      | error e =>
        simp only [reduceCtorEq, exists_false, false_iff, false_imp_iff, implies_true, and_true]
        rintro ⟨⟨h1, _⟩, h2⟩
        have : ∃ r, allStructOutputs st t.ty = .ok r := allStructOutputs_ok_iff.2
          ⟨h1, ((Fresh.append (u' := st.outputUsed ++ starDests st.argInfos t.ty) (by simp)).1 h2).1⟩
        rw [h] at this; simp at this
      | ok r1 =>
        obtain ⟨ms, st1⟩ := r1
        have hg := allStructOutputs_grows h
        have hok := allStructOutputs_ok_iff.1 ⟨_, h⟩
        obtain ⟨ih1, ih2⟩ := ih st1 (ocs ++ ms.map (fun (l, tag) => newOutputColumn pref tag l))
        simp only
        rw [hg.infos] at ih1 ih2
        refine ⟨?_, fun r st' h' => hg.trans (ih2 r st' h')⟩
        rw [ih1, Fresh.append hg.outs]
        simp only [hok.1, hok.2, true_and]
    · have hs' : (t.member == star) = false := by simpa using hs
      simp only [hs', Bool.false_eq_true, if_false]
      rw [AccessorOK_mem hs, accDests_mem hs]
      cases h : outputMember st t.ty t.member with
      | error e =>
        simp only [reduceCtorEq, exists_false, false_iff, false_imp_iff, implies_true, and_true]
        rintro ⟨⟨h1, _⟩, h2⟩
        have : ∃ r, outputMember st t.ty t.member = .ok r := outputMember_ok_iff.2
          ⟨h1, ((Fresh.append (u' := st.outputUsed ++ memDests st.argInfos t.ty t.member) (by simp)).1 h2).1⟩
        rw [h] at this; simp at this
      | ok r1 =>
        obtain ⟨l, st1⟩ := r1
        have hg := outputMember_grows h
        have hok := outputMember_ok_iff.1 ⟨_, h⟩
        obtain ⟨ih1, ih2⟩ := ih st1 (ocs ++ [newOutputColumn pref t.member l])
        simp only
        rw [hg.infos] at ih1 ih2
        refine ⟨?_, fun r st' h' => hg.trans (ih2 r st' h')⟩
        rw [ih1, Fresh.append hg.outs]
        simp only [hok.1, hok.2, true_and]

theorem outIntoStar_spec (ty : Bytes) : ∀ (cs : List Col) (st : TEB) (ocs : List (Bytes × Loc)),
    ((∃ r, outIntoStar ty st cs ocs = .ok r) ↔
      (∀ c ∈ cs, MemberOK st.argInfos ty c.column) ∧
        Fresh st.outputUsed (cs.flatMap (fun c => memDests st.argInfos ty c.column))) ∧
    ∀ r st', outIntoStar ty st cs ocs = .ok (r, st') →
      Grows st st' (cs.map (fun _ => ty)) (cs.flatMap (fun c => memDests st.argInfos ty c.column)) := by
  intro cs
  induction cs with
  | nil =>
    intro st ocs
    simp only [outIntoStar, Except.ok.injEq, exists_eq', List.not_mem_nil, false_imp_iff, implies_true,
      true_iff, true_and, Prod.mk.injEq, List.map_nil, List.flatMap_nil]
    refine ⟨Fresh.nil _, ?_⟩
    rintro r st' ⟨_, rfl⟩
    exact Grows.refl st
  | cons c rest ih =>
    intro st ocs
    simp only [outIntoStar, List.forall_mem_cons, List.map_cons, List.flatMap_cons]
    cases h : outputMember st ty c.column with
    | error e =>
      simp only [reduceCtorEq, exists_false, false_iff, false_imp_iff, implies_true, and_true]
      rintro ⟨⟨h1, _⟩, h2⟩
      have : ∃ r, outputMember st ty c.column = .ok r := outputMember_ok_iff.2
        ⟨h1, ((Fresh.append (u' := st.outputUsed ++ memDests st.argInfos ty c.column) (by simp)).1 h2).1⟩
      rw [h] at this; simp at this
    | ok r1 =>
      obtain ⟨l, st1⟩ := r1
      have hg := outputMember_grows h
      have hok := outputMember_ok_iff.1 ⟨_, h⟩
      obtain ⟨ih1, ih2⟩ := ih st1 (ocs ++ [newOutputColumn c.tableName c.column l])
      simp only
      rw [hg.infos] at ih1 ih2
      refine ⟨?_, fun r st' h' => hg.trans (ih2 r st' h')⟩
      rw [ih1, Fresh.append hg.outs]
      simp only [hok.1, hok.2, true_and]

theorem outPairwise_spec : ∀ (ps : List (Col × Acc)) (st : TEB) (ocs : List (Bytes × Loc)),
    ((∃ r, outPairwise st ps ocs = .ok r) ↔
      (∀ p ∈ ps, MemberOK st.argInfos p.2.ty p.2.member) ∧
        Fresh st.outputUsed (ps.flatMap (fun p => memDests st.argInfos p.2.ty p.2.member))) ∧
    ∀ r st', outPairwise st ps ocs = .ok (r, st') →
      Grows st st' (ps.map (·.2.ty)) (ps.flatMap (fun p => memDests st.argInfos p.2.ty p.2.member)) := by
  intro ps
  induction ps with
  | nil =>
    intro st ocs
    simp only [outPairwise, Except.ok.injEq, exists_eq', List.not_mem_nil, false_imp_iff, implies_true,
      true_iff, true_and, Prod.mk.injEq, List.map_nil, List.flatMap_nil]
    refine ⟨Fresh.nil _, ?_⟩
    rintro r st' ⟨_, rfl⟩
    exact Grows.refl st
  | cons p rest ih =>
    intro st ocs
    obtain ⟨c, t⟩ := p
    simp only [outPairwise, List.forall_mem_cons, List.map_cons, List.flatMap_cons]
    cases h : outputMember st t.ty t.member with
    | error e =>
      simp only [reduceCtorEq, exists_false, false_iff, false_imp_iff, implies_true, and_true]
      rintro ⟨⟨h1, _⟩, h2⟩
      have : ∃ r, outputMember st t.ty t.member = .ok r := outputMember_ok_iff.2
        ⟨h1, ((Fresh.append (u' := st.outputUsed ++ memDests st.argInfos t.ty t.member) (by simp)).1 h2).1⟩
      rw [h] at this; simp at this
    | ok r1 =>
      obtain ⟨l, st1⟩ := r1
      have hg := outputMember_grows h
      have hok := outputMember_ok_iff.1 ⟨_, h⟩
      obtain ⟨ih1, ih2⟩ := ih st1 (ocs ++ [newOutputColumn c.tableName c.column l])
      simp only
      rw [hg.infos] at ih1 ih2
      refine ⟨?_, fun r st' h' => hg.trans (ih2 r st' h')⟩
      rw [ih1, Fresh.append hg.outs]
      simp only [hok.1, hok.2, true_and]

end Sqlair
