/-
  Preservation of the invariant by the steps that do not close anything:
  newS, newD, dropS, dropD, query, lookup, prepare, exec.
-/
import SqlairProofs.Cache.Steps

namespace Sqlair.Cache

theorem inv_dropS {st st' : St} {s : Nat} (hi : Inv st) (h : step st (.dropS s) = some st') : Inv st' := by
  obtain ⟨_, rfl⟩ := step_dropS h
  exact { hi with live := ⟨fun s' hs' => hi.live.liveS s' (List.mem_filter.1 hs').1, hi.live.liveD⟩ }

theorem inv_dropD {st st' : St} {d : Nat} (hi : Inv st) (h : step st (.dropD d) = some st') : Inv st' := by
  obtain ⟨_, rfl⟩ := step_dropD h
  exact { hi with live := ⟨hi.live.liveS, fun s' hs' => hi.live.liveD s' (List.mem_filter.1 hs').1⟩ }

theorem alook_append_isSome {β : Type} {m : List (Nat × β)} {k : Nat} (m' : List (Nat × β))
    (h : (alook m k).isSome) : (alook (m ++ m') k).isSome := by
  rw [alook_append]; cases h' : alook m k <;> simp_all

theorem inv_newS {st st' : St} (hi : Inv st) (h : step st .newS = some st') : Inv st' := by
  have e := step_newS h; subst e
  have hlk := lookup2_append_empty st.stmtDB st.nextS
  refine { hi with maps := ?_, cache := ?_, live := ?_, ops := ?_, noLeak := ?_ }
  · have hm := hi.maps
    constructor
    · intro p hp
      rcases List.mem_append.1 hp with hp | hp
      · have := hm.sKeys_lt p hp; simp; omega
      · simp at hp; subst hp; simp
    · exact hm.dKeys_lt
    · simp only [List.map_append, List.map_cons, List.map_nil]
      rw [List.nodup_append]
      refine ⟨hm.sKeys_nodup, by simp, ?_⟩
      intro a ha b hb
      simp at hb; subst hb
      obtain ⟨p, hp, rfl⟩ := List.mem_map.1 ha
      have := hm.sKeys_lt p hp; omega
    · exact hm.dKeys_nodup
    · intro p hp
      rcases List.mem_append.1 hp with hp | hp
      · exact hm.row_nodup p hp
      · simp at hp; subst hp; simp
    · exact hm.idx_nodup
    · intro s d; simp only [hlk]; exact hm.index s d
  · have hc := hi.cache
    constructor
    · intro s d id; simp only [hlk]; exact hc.ok s d id
    · intro s d s' d' id; simp only [hlk]; exact hc.inj s d s' d' id
  · constructor
    · intro s hs
      rcases List.mem_append.1 hs with hs | hs
      · exact alook_append_isSome _ (hi.live.liveS s hs)
      · simp at hs; subst hs
        rw [alook_append]; cases alook st.stmtDB st.nextS <;> simp [alook_cons]
    · exact hi.live.liveD
  · have ho := hi.ops
    constructor
    · exact ho.nodup
    · intro t o hm hpc
      exact ⟨alook_append_isSome _ (ho.keys t o hm hpc).1, (ho.keys t o hm hpc).2⟩
    · intro t o id hm hpc; simp only [hlk]; exact ho.prepared t o id hm hpc
    · intro t o id hm hpc; simp only [hlk]; exact ho.ready t o id hm hpc
  · intro id x hx; simp only [hlk]; exact hi.noLeak id x hx

theorem inv_newD {st st' : St} (hi : Inv st) (h : step st .newD = some st') : Inv st' := by
  have e := step_newD h; subst e
  refine { hi with maps := ?_, live := ?_, ops := ?_ }
  · have hm := hi.maps
    constructor
    · exact hm.sKeys_lt
    · intro p hp
      rcases List.mem_append.1 hp with hp | hp
      · have := hm.dKeys_lt p hp; simp; omega
      · simp at hp; subst hp; simp
    · exact hm.sKeys_nodup
    · simp only [List.map_append, List.map_cons, List.map_nil]
      rw [List.nodup_append]
      refine ⟨hm.dKeys_nodup, by simp, ?_⟩
      intro a ha b hb
      simp at hb; subst hb
      obtain ⟨p, hp, rfl⟩ := List.mem_map.1 ha
      have := hm.dKeys_lt p hp; omega
    · exact hm.row_nodup
    · intro p hp
      rcases List.mem_append.1 hp with hp | hp
      · exact hm.idx_nodup p hp
      · simp at hp; subst hp; simp
    · intro s d; simp only [getIdx_append_empty]; exact hm.index s d
  · constructor
    · exact hi.live.liveS
    · intro s hs
      rcases List.mem_append.1 hs with hs | hs
      · exact alook_append_isSome _ (hi.live.liveD s hs)
      · simp at hs; subst hs
        rw [alook_append]; cases alook st.dbStmt st.nextD <;> simp [alook_cons]
  · have ho := hi.ops
    constructor
    · exact ho.nodup
    · intro t o hm hpc
      exact ⟨(ho.keys t o hm hpc).1, alook_append_isSome _ (ho.keys t o hm hpc).2⟩
    · exact ho.prepared
    · exact ho.ready


/-! ### updating one operation -/

def Op.holds (o : Op) (id : Nat) : Prop := o.pc = .prepared id ∨ o.pc = .ready id

theorem OpsOK.set {ops : List (Nat × Op)} {sm : List (Nat × List (Nat × Nat))} {dm : List (Nat × List Nat)}
    {ds : List DStmt} (h : OpsOK ops sm dm ds) (t : Nat) (o' : Op)
    (hk : o'.pc ≠ .done → (alook sm o'.s).isSome ∧ (alook dm o'.d).isSome)
    (hp : ∀ id, o'.pc = .prepared id →
      ∃ x, dsGet ds id = some x ∧ x.db = o'.d ∧ x.sql = o'.sql ∧ x.closeCalled = false ∧ x.finalizer = false ∧
        (∀ s d, lookup2 sm s d ≠ some id) ∧
        (∀ t'' o'', (t'', o'') ∈ ops → t'' ≠ t → o''.pc ≠ .prepared id ∧ o''.pc ≠ .ready id))
    (hr : ∀ id, o'.pc = .ready id →
      ∃ x, dsGet ds id = some x ∧ x.db = o'.d ∧ x.sql = o'.sql ∧ x.closeCalled = false ∧
        (∀ s d, lookup2 sm s d = some id → s = o'.s ∧ d = o'.d) ∧
        (∀ t'' o'', (t'', o'') ∈ ops → t'' ≠ t → o''.pc ≠ .prepared id)) :
    OpsOK (ainsert ops t o') sm dm ds := by
  constructor
  · exact keys_ainsert_nodup h.nodup
  · intro t1 o1 hm hpc
    rcases mem_ainsert.1 hm with e | ⟨hm, hne⟩
    · cases e; exact hk hpc
    · exact h.keys t1 o1 hm hpc
  · intro t1 o1 id hm hpc
    rcases mem_ainsert.1 hm with e | ⟨hm, hne⟩
    · cases e
      obtain ⟨x, h1, h2, h3, h4, h5, h6, h7⟩ := hp id hpc
      refine ⟨x, h1, h2, h3, h4, h5, h6, ?_⟩
      intro t2 o2 hm2 hh
      rcases mem_ainsert.1 hm2 with e | ⟨hm2, hne2⟩
      · cases e; rfl
      · have := h7 t2 o2 hm2 hne2; grind
    · obtain ⟨x, h1, h2, h3, h4, h5, h6, h7⟩ := h.prepared t1 o1 id hm hpc
      refine ⟨x, h1, h2, h3, h4, h5, h6, ?_⟩
      intro t2 o2 hm2 hh
      rcases mem_ainsert.1 hm2 with e | ⟨hm2, hne2⟩
      · cases e
        exfalso
        rcases hh with hh | hh
        · obtain ⟨_, _, _, _, _, _, _, h8⟩ := hp id hh
          exact (h8 t1 o1 hm hne).1 hpc
        · obtain ⟨_, _, _, _, _, _, h8⟩ := hr id hh
          exact h8 t1 o1 hm hne hpc
      · exact h7 t2 o2 hm2 hh
  · intro t1 o1 id hm hpc
    rcases mem_ainsert.1 hm with e | ⟨hm, hne⟩
    · cases e
      obtain ⟨x, h1, h2, h3, h4, h5, _⟩ := hr id hpc
      exact ⟨x, h1, h2, h3, h4, h5⟩
    · exact h.ready t1 o1 id hm hpc

theorem NoLeak.set {ops : List (Nat × Op)} {sm : List (Nat × List (Nat × Nat))} {ds : List DStmt}
    (h : NoLeak ds sm ops) (t : Nat) (o' : Op)
    (hn : ∀ o id, (t, o) ∈ ops → o.pc = .prepared id → o'.pc = .prepared id) :
    NoLeak ds sm (ainsert ops t o') := by
  intro id x hx
  rcases h id x hx with h | h | h | ⟨t1, o1, hm, hpc⟩
  · exact Or.inl h
  · exact Or.inr (Or.inl h)
  · exact Or.inr (Or.inr (Or.inl h))
  · right; right; right
    by_cases e : t1 = t
    · subst e
      exact ⟨t1, o', mem_ainsert.2 (Or.inl rfl), hn o1 id hm hpc⟩
    · exact ⟨t1, o1, mem_ainsert.2 (Or.inr ⟨hm, e⟩), hpc⟩

theorem OpsOK.mem_of_alook {ops : List (Nat × Op)} {t : Nat} {o : Op} (h : alook ops t = some o) : (t, o) ∈ ops :=
  alook_some_mem h

theorem OpsOK.eq_of_mem {ops : List (Nat × Op)} {sm : List (Nat × List (Nat × Nat))} {dm : List (Nat × List Nat)}
    {ds : List DStmt} (h : OpsOK ops sm dm ds) {t : Nat} {o o' : Op} (h1 : alook ops t = some o) (h2 : (t, o') ∈ ops) :
    o' = o := by
  have := alook_of_mem_nodup h.nodup h2
  rw [h1] at this; cases this; rfl

theorem inv_query {st st' : St} {t s d q : Nat} (hi : Inv st) (h : step st (.query t s d q) = some st') : Inv st' := by
  obtain ⟨hs, hd, hno, rfl⟩ := step_query h
  refine { hi with ops := ?_, noLeak := ?_ }
  · apply hi.ops.set
    · intro _; exact ⟨hi.live.liveS s hs, hi.live.liveD d hd⟩
    · intro id hpc; cases hpc
    · intro id hpc; cases hpc
  · apply hi.noLeak.set
    intro o id hm
    have := alook_none_iff.1 hno _ hm
    simp at this

theorem inv_lookup {st st' : St} {t : Nat} (hi : Inv st) (h : step st (.lookup t) = some st') : Inv st' := by
  obtain ⟨o, ho, hpc, h⟩ := step_lookup h
  have hm := alook_some_mem ho
  have hkeys := hi.ops.keys t o hm (by simp [hpc])
  rcases h with ⟨id, x, hl, hx, hsql, rfl⟩ | rfl
  · refine { hi with ops := ?_, noLeak := ?_ }
    · apply hi.ops.set
      · intro _; exact hkeys
      · intro id' hpc'; cases hpc'
      · intro id' hpc'; cases hpc'
        obtain ⟨y, hy, hdb, hcc, hfin⟩ := hi.cache.ok _ _ _ hl
        rw [hx] at hy; cases hy
        refine ⟨x, hx, hdb, hsql, hcc, ?_, ?_⟩
        · intro s d hl'; have := hi.cache.inj _ _ _ _ _ hl' hl; exact this
        · intro t2 o2 hm2 _ hpc2
          obtain ⟨_, _, _, _, _, _, h6, _⟩ := hi.ops.prepared t2 o2 id hm2 hpc2
          exact h6 _ _ hl
    · apply hi.noLeak.set
      intro o2 id2 hm2 hpc2
      have := hi.ops.eq_of_mem ho hm2; subst this
      rw [hpc] at hpc2; cases hpc2
  · refine { hi with ops := ?_, noLeak := ?_ }
    · apply hi.ops.set
      · intro _; exact hkeys
      · intro id' hpc'; cases hpc'
      · intro id' hpc'; cases hpc'
    · apply hi.noLeak.set
      intro o2 id2 hm2 hpc2
      have := hi.ops.eq_of_mem ho hm2; subst this
      rw [hpc] at hpc2; cases hpc2


/-! ### the log -/

theorem exec_append {log : List Ev}
    (h : ∀ (i id d q : Nat), log[i]? = some (Ev.exec id d q) → ∃ j : Nat, j < i ∧ log[j]? = some (Ev.prepare id d q))
    (e : Ev) (he : ∀ id d q, e = Ev.exec id d q → Ev.prepare id d q ∈ log) :
    ∀ (i id d q : Nat), (log ++ [e])[i]? = some (Ev.exec id d q) →
      ∃ j : Nat, j < i ∧ (log ++ [e])[j]? = some (Ev.prepare id d q) := by
  intro i id d q hi
  rw [List.getElem?_append] at hi
  split at hi
  · rename_i hlt
    obtain ⟨j, hj, hj'⟩ := h i id d q hi
    refine ⟨j, hj, ?_⟩
    rw [List.getElem?_append_left (by omega)]; exact hj'
  · rename_i hge
    have : e = Ev.exec id d q := by
      cases hk : i - log.length with
      | zero => simpa [hk] using hi
      | succ n => simp [hk] at hi
    obtain ⟨j, hj⟩ := List.mem_iff_getElem?.1 (he id d q this)
    have hlt : j < log.length := by
      rcases Nat.lt_or_ge j log.length with h | h
      · exact h
      · rw [List.getElem?_eq_none h] at hj; cases hj
    refine ⟨j, by omega, ?_⟩
    rw [List.getElem?_append_left hlt]; exact hj

theorem LogOK.append_exec {log : List Ev} {ds : List DStmt} (h : LogOK log ds) {id d q : Nat}
    (hp : Ev.prepare id d q ∈ log) : LogOK (log ++ [Ev.exec id d q]) ds := by
  constructor
  · intro id x hx; exact List.mem_append_left _ (h.prep id x hx)
  · apply exec_append h.exec
    intro id' d' q' e; cases e; exact hp
  · intro id' hm
    rcases List.mem_append.1 hm with hm | hm
    · exact h.noEC id' hm
    · simp at hm
  · intro id' hm
    rcases List.mem_append.1 hm with hm | hm
    · exact h.close id' hm
    · simp at hm
  · intro id'
    rw [List.count_append]
    have := h.close1 id'
    simp; exact this
  · intro id' x hx hdc; exact List.mem_append_left _ (h.logged id' x hx hdc)

theorem dsGet_append_of_some {ds : List DStmt} {id : Nat} {x : DStmt} (y : DStmt) (h : dsGet ds id = some x) :
    dsGet (ds ++ [y]) id = some x := by
  rw [dsGet_append, h]; rfl

theorem dsGet_append_inv {ds : List DStmt} {id : Nat} {x y : DStmt} (h : dsGet (ds ++ [y]) id = some x) :
    dsGet ds id = some x ∨ (dsGet ds id = none ∧ y.id = id ∧ x = y) := by
  rw [dsGet_append] at h
  cases h' : dsGet ds id with
  | some z => left; simpa [h'] using h
  | none =>
    right
    rw [h'] at h
    simp only [Option.none_or] at h
    split at h
    · rename_i e; cases h; exact ⟨rfl, e, rfl⟩
    · cases h

theorem inv_exec {st st' : St} {t : Nat} {iter : Option Nat} (hi : Inv st)
    (h : step st (.exec t iter) = some st') : Inv st' := by
  obtain ⟨o, id, x, ho, hpc, hx, h⟩ := step_exec h
  have hm := alook_some_mem ho
  obtain ⟨y, hy, hdb, hsql, hcc, hslot⟩ := hi.ops.ready t o id hm hpc
  rw [hx] at hy; cases hy
  have hops : OpsOK (ainsert st.ops t { o with pc := .done }) st.stmtDB st.dbStmt st.ds := by
    apply hi.ops.set
    · intro hh; exact absurd rfl hh
    · intro id' hpc'; cases hpc'
    · intro id' hpc'; cases hpc'
  have hnl : NoLeak st.ds st.stmtDB (ainsert st.ops t { o with pc := .done }) := by
    apply hi.noLeak.set
    intro o2 id2 hm2 hpc2
    have := hi.ops.eq_of_mem ho hm2; subst this
    rw [hpc] at hpc2; cases hpc2
  have hlog : LogOK (st.log ++ [.exec id x.db x.sql]) st.ds := hi.log.append_exec (hi.log.prep id x hx)
  rcases h with ⟨hc, _⟩ | ⟨_, ⟨_, rfl⟩ | ⟨hd, _, hfresh, rfl⟩⟩
  · rw [hcc] at hc; cases hc
  · exact { hi with ops := hops, noLeak := hnl, log := hlog }
  · refine { hi with ops := hops, noLeak := hnl, log := hlog, iters := ?_ }
    constructor
    · simp only [List.map_append, List.map_cons, List.map_nil]
      rw [List.nodup_append]
      refine ⟨hi.iters.nodup, by simp, ?_⟩
      intro a ha b hb
      simp at hb; subst hb
      obtain ⟨p, hp, rfl⟩ := List.mem_map.1 ha
      exact hfresh p hp
    · intro h' id' hm'
      rcases List.mem_append.1 hm' with hm' | hm'
      · exact hi.iters.isOpen h' id' hm'
      · simp at hm'; obtain ⟨rfl, rfl⟩ := hm'
        refine ⟨x, hx, ?_⟩
        cases hdc : x.driverClosed with
        | false => rfl
        | true => have := hi.dsOK.dclosed _ x hx hdc; rw [hcc] at this; cases this
    · intro id' x' hx' h1 h2
      obtain ⟨h', hm'⟩ := hi.iters.waiting id' x' hx' h1 h2
      exact ⟨h', List.mem_append_left _ hm'⟩

theorem inv_prepare {st st' : St} {t : Nat} (hi : Inv st) (h : step st (.prepare t) = some st') : Inv st' := by
  obtain ⟨o, ho, hpc, rfl⟩ := step_prepare h
  have hm := alook_some_mem ho
  have hfresh := hi.dsOK.ids.fresh
  have hkeys := hi.ops.keys t o hm (by simp [hpc])
  constructor
  · -- DsOK
    have hd := hi.dsOK
    constructor
    · exact hd.ids.append rfl
    · intro id x hx hf
      rcases dsGet_append_inv hx with hx | ⟨_, _, rfl⟩
      · exact hd.fin_open id x hx hf
      · rfl
    · intro id x hx
      rcases dsGet_append_inv hx with hx | ⟨_, _, rfl⟩
      · exact hd.calls id x hx
      · rfl
    · intro id x hx hf
      rcases dsGet_append_inv hx with hx | ⟨_, _, rfl⟩
      · exact hd.dclosed id x hx hf
      · cases hf
  · exact hi.maps
  · -- CacheOK
    constructor
    · intro s d id hl
      obtain ⟨x, hx, h⟩ := hi.cache.ok s d id hl
      exact ⟨x, dsGet_append_of_some _ hx, h⟩
    · exact hi.cache.inj
  · exact hi.live
  · -- OpsOK
    have hops : OpsOK st.ops st.stmtDB st.dbStmt
        (st.ds ++ [({ id := st.ds.length + 1, db := o.d, sql := o.sql } : DStmt)]) := by
      constructor
      · exact hi.ops.nodup
      · exact hi.ops.keys
      · intro t1 o1 id hm1 hpc1
        obtain ⟨x, hx, h⟩ := hi.ops.prepared t1 o1 id hm1 hpc1
        exact ⟨x, dsGet_append_of_some _ hx, h⟩
      · intro t1 o1 id hm1 hpc1
        obtain ⟨x, hx, h⟩ := hi.ops.ready t1 o1 id hm1 hpc1
        exact ⟨x, dsGet_append_of_some _ hx, h⟩
    apply hops.set
    · intro _; exact hkeys
    · intro id' hpc'; cases hpc'
      refine ⟨({ id := st.ds.length + 1, db := o.d, sql := o.sql } : DStmt),
        by rw [dsGet_append, hfresh]; simp, rfl, rfl, rfl, rfl, ?_, ?_⟩
      · intro s d hl
        obtain ⟨x, hx, _⟩ := hi.cache.ok s d _ hl
        rw [hfresh] at hx; cases hx
      · intro t2 o2 hm2 _
        constructor
        · intro hpc2
          obtain ⟨x, hx, _⟩ := hi.ops.prepared t2 o2 _ hm2 hpc2
          rw [hfresh] at hx; cases hx
        · intro hpc2
          obtain ⟨x, hx, _⟩ := hi.ops.ready t2 o2 _ hm2 hpc2
          rw [hfresh] at hx; cases hx
    · intro id' hpc'; cases hpc'
  · -- ItersOK
    constructor
    · exact hi.iters.nodup
    · intro h' id' hm'
      obtain ⟨x, hx, h⟩ := hi.iters.isOpen h' id' hm'
      exact ⟨x, dsGet_append_of_some _ hx, h⟩
    · intro id x hx h1 h2
      rcases dsGet_append_inv hx with hx | ⟨_, _, rfl⟩
      · exact hi.iters.waiting id x hx h1 h2
      · cases h1
  · -- NoLeak
    intro id x hx
    rcases dsGet_append_inv hx with hx | ⟨_, e, rfl⟩
    · have : NoLeak st.ds st.stmtDB (ainsert st.ops t { o with pc := .prepared (st.ds.length + 1) }) := by
        apply hi.noLeak.set
        intro o2 id2 hm2 hpc2
        have := hi.ops.eq_of_mem ho hm2; subst this
        rw [hpc] at hpc2; cases hpc2
      exact this id x hx
    · right; right; right
      exact ⟨t, _, mem_ainsert.2 (Or.inl rfl), by simp at e; simp [e]⟩
  · -- LogOK
    have hl := hi.log
    constructor
    · intro id x hx
      rcases dsGet_append_inv hx with hx | ⟨_, e, rfl⟩
      · exact List.mem_append_left _ (hl.prep id x hx)
      · simp at e; subst e; simp
    · apply exec_append hl.exec
      intro id' d' q' e; cases e
    · intro id' hm'
      rcases List.mem_append.1 hm' with hm' | hm'
      · exact hl.noEC id' hm'
      · simp at hm'
    · intro id' hm'
      rcases List.mem_append.1 hm' with hm' | hm'
      · obtain ⟨x, hx, h⟩ := hl.close id' hm'
        exact ⟨x, dsGet_append_of_some _ hx, h⟩
      · simp at hm'
    · intro id'
      rw [List.count_append]
      have := hl.close1 id'
      simp; exact this
    · intro id' x hx hdc
      rcases dsGet_append_inv hx with hx | ⟨_, _, rfl⟩
      · exact List.mem_append_left _ (hl.logged id' x hx hdc)
      · cases hdc

end Sqlair.Cache
