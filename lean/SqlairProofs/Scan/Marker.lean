/-
  `markerIndex` recognises exactly the generated aliases `_sqlair_<n>` (n < 2^63).
-/
import SqlairModel.Scan

namespace Sqlair

/-- `markerName` of the Go code: the alias generated for output column number `n` -/
def markerName (n : Nat) : Bytes := ("_sqlair_" ++ toString n).toUTF8.data

theorem markerName_eq (n : Nat) : markerName n = markerPrefix ++ (toString n).toUTF8.data := by
  unfold markerName markerPrefix String.toUTF8
  rw [String.toByteArray_append, ByteArray.data_append]

/-- only the generated names are markers -/
theorem markerIndex_eq_some {col : Bytes} {n : Nat} (h : markerIndex col = some n) : col = markerName n := by
  unfold markerIndex at h
  split at h
  · rename_i h1
    simp only at h
    split at h
    · split at h
      · rename_i h3
        simp only [Option.some.injEq] at h
        simp only [Bool.and_eq_true, beq_iff_eq, decide_eq_true_eq] at h1 h3
        rw [h] at h3
        have hp8 : markerPrefix.size = 8 := rfl
        rw [hp8] at h1 h3
        have hsplit : col = col.extract 0 8 ++ col.extract 8 col.size := by
          rw [Array.extract_append_extract, Nat.max_eq_right (by omega), Nat.zero_min, Array.extract_size]
        rw [markerName_eq, h3.1, ← h1.2]
        exact hsplit
      · cases h
    · cases h
  · cases h

/-! ### the bytes of `toString n` -/

theorem utf8Encode_ascii (l : List Char) (h : ∀ c ∈ l, c.val ≤ 127) :
    l.utf8Encode.data = (l.map (·.val.toUInt8)).toArray := by
  induction l with
  | nil => rfl
  | cons c rest ih =>
    rw [List.utf8Encode_cons, ByteArray.data_append, ih (fun c hc => h c (List.mem_cons_of_mem _ hc)),
      List.utf8Encode_singleton,
      String.utf8EncodeChar_eq_singleton (Char.utf8Size_eq_one_iff.mpr (h c List.mem_cons_self)),
      List.data_toByteArray]
    simp

theorem digit_val {n : Nat} {c : Char} (hc : c ∈ Nat.toDigits 10 n) : 48 ≤ c.val.toNat ∧ c.val.toNat ≤ 57 := by
  have := Nat.isDigit_of_mem_toDigits (by decide) (by decide) hc
  simp only [Char.isDigit, ge_iff_le, Bool.and_eq_true, decide_eq_true_eq, UInt32.le_iff_toNat_le] at this
  exact this

theorem repr_bytes (n : Nat) :
    (toString n).toUTF8.data = ((Nat.toDigits 10 n).map (·.val.toUInt8)).toArray := by
  rw [Nat.toString_eq_ofList_toDigits]
  unfold String.toUTF8
  rw [String.toByteArray_ofList]
  apply utf8Encode_ascii
  intro c hc
  have := (digit_val hc).2
  rw [UInt32.le_iff_toNat_le]
  exact Nat.le_trans this (by decide)

theorem natOfDigits_map (l : List Char) (h : ∀ c ∈ l, c.val.toNat ≤ 57) (init : Nat) :
    (l.map (·.val.toUInt8)).foldl (fun n d => n * 10 + (d.toNat - 48)) init = Nat.ofDigitChars 10 l init := by
  induction l generalizing init with
  | nil => rfl
  | cons c rest ih =>
    rw [List.map_cons, List.foldl_cons, Nat.ofDigitChars_cons, ih (fun c hc => h c (List.mem_cons_of_mem _ hc))]
    have hc := h c List.mem_cons_self
    have e1 : c.val.toUInt8.toNat = c.val.toNat := by
      rw [UInt32.toNat_toUInt8]; omega
    have e2 : c.toNat = c.val.toNat := rfl
    have e3 : '0'.toNat = 48 := rfl
    rw [e1, e2, e3, Nat.mul_comm]

theorem natOfDigits_repr (n : Nat) : natOfDigits (toString n).toUTF8.data.toList = n := by
  rw [repr_bytes]
  unfold natOfDigits
  rw [natOfDigits_map _ (fun c hc => (digit_val hc).2)]
  exact Nat.ofDigitChars_ten_toDigits

theorem repr_all_digits (n : Nat) :
    (toString n).toUTF8.data.toList.all (fun d => 48 ≤ d && d ≤ 57) = true := by
  rw [repr_bytes, List.all_eq_true]
  intro d hd
  simp only [List.mem_map] at hd
  obtain ⟨c, hc, rfl⟩ := hd
  obtain ⟨h1, h2⟩ := digit_val hc
  have e1 : c.val.toUInt8.toNat = c.val.toNat := by
    rw [UInt32.toNat_toUInt8]; omega
  simp only [Bool.and_eq_true, decide_eq_true_eq, UInt8.le_iff_toNat_le, e1]
  exact ⟨h1, h2⟩

theorem repr_size_pos (n : Nat) : 0 < (toString n).toUTF8.data.size := by
  rw [repr_bytes]
  simp only [List.size_toArray, List.length_map]
  exact Nat.length_toDigits_pos

/-- the generated alias of output `n` is recognised as marker `n` -/
theorem markerIndex_markerName_aux (n : Nat) (h : n < 9223372036854775808) :
    markerIndex (markerName n) = some n := by
  rw [markerName_eq]
  have hsz : (markerPrefix ++ (toString n).toUTF8.data).size = markerPrefix.size + (toString n).toUTF8.data.size :=
    Array.size_append
  have hpos := repr_size_pos n
  have e1 : (markerPrefix ++ (toString n).toUTF8.data).extract 0 markerPrefix.size = markerPrefix := by
    rw [Array.extract_append_left, Array.extract_size]
  have e2 : (markerPrefix ++ (toString n).toUTF8.data).extract markerPrefix.size
      (markerPrefix ++ (toString n).toUTF8.data).size = (toString n).toUTF8.data := by
    rw [hsz, Array.extract_append_right, Array.extract_size]
  unfold markerIndex
  rw [e1, e2]
  have c1 : (decide ((markerPrefix ++ (toString n).toUTF8.data).size > markerPrefix.size) &&
      markerPrefix == markerPrefix) = true := by
    simp only [Bool.and_eq_true, decide_eq_true_eq, beq_self_eq_true, and_true]
    omega
  rw [if_pos c1]
  simp only
  rw [if_pos (repr_all_digits n), natOfDigits_repr]
  rw [if_pos (by simp only [beq_self_eq_true, Bool.true_and, decide_eq_true_eq]; exact h)]

theorem markerIndex_lt {col : Bytes} {n : Nat} (h : markerIndex col = some n) : n < 9223372036854775808 := by
  unfold markerIndex at h
  split at h
  · simp only at h
    split at h
    · split at h
      · rename_i h3
        simp only [Option.some.injEq] at h
        simp only [Bool.and_eq_true, beq_iff_eq, decide_eq_true_eq] at h3
        rw [h] at h3
        exact h3.2
      · cases h
    · cases h
  · cases h

/-- a column is marker `n` iff it is the generated alias of `n` (and `n` fits a Go `int`) -/
theorem markerIndex_iff (col : Bytes) (n : Nat) :
    markerIndex col = some n ↔ col = markerName n ∧ n < 9223372036854775808 :=
  ⟨fun h => ⟨markerIndex_eq_some h, markerIndex_lt h⟩, fun ⟨h1, h2⟩ => h1 ▸ markerIndex_markerName_aux n h2⟩

end Sqlair
