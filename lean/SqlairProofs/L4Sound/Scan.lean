/-
  L4Sound: the recursive checks of `holdsC14` (`chk`, `ended`, `live`) as instances of one
  scan over the (call, result) pairs, and induction over `runCalls` for such scans.
-/
import SqlairProofs.L4Sound.C14Get

namespace Sqlair.Rt

/-- a check walking the (call, result) pairs with an accumulator: `g` is the local check,
    `n` the next accumulator -/
def l4s_scan {σ : Type} (g : String → String → σ → Bool) (n : String → String → σ → σ) :
    List (String × String) → σ → Bool
  | [], _ => true
  | (call, r) :: rest, a => g call r a && l4s_scan g n rest (n call r a)

/-! ### `chk` -/

def l4s_chkG (call r : String) (k : Nat) : Bool :=
  if call == "next" then true
  else if call == "get" && r.startsWith "row:" then r == l4s_rowStr k else true

def l4s_chkN (call r : String) (k : Nat) : Nat :=
  if call == "next" then (if r == "true" then k + 1 else k) else k

theorem l4s_chk_eq (l : List (String × String)) (k : Nat) :
    holdsC14.chk l k = l4s_scan l4s_chkG l4s_chkN l k := by
  induction l generalizing k with
  | nil => rfl
  | cons p rest ih =>
    obtain ⟨call, r⟩ := p
    simp only [holdsC14.chk, l4s_scan, l4s_chkG, l4s_chkN, ih]
    split
    · simp
    · split
      · rfl
      · simp

/-! ### `ended` -/

def l4s_endedG (call r : String) (over : Bool) : Bool :=
  if call == "next" then true else if call == "close" then true
  else (!over || (r != "" && !r.startsWith "row:" && !r.startsWith "outcome:"))

def l4s_endedN (call r : String) (over : Bool) : Bool :=
  if call == "next" then over || r == "false" else if call == "close" then true else over

theorem l4s_ended_eq (l : List (String × String)) (over : Bool) :
    holdsC14.ended l over = l4s_scan l4s_endedG l4s_endedN l over := by
  induction l generalizing over with
  | nil => rfl
  | cons p rest ih =>
    obtain ⟨call, r⟩ := p
    simp only [holdsC14.ended, l4s_scan, l4s_endedG, l4s_endedN, ih]
    split
    · simp
    · split
      · simp
      · rfl

/-! ### `live` -/

def l4s_liveG (c : Case) (call r : String) (a : Nat × Bool) : Bool :=
  if call == "next" then true else if call == "close" then true
  else if call == "get" && a.2 && some (a.1 - 1) != c.badRow then r == l4s_rowStr a.1 else true

def l4s_liveN (call r : String) (a : Nat × Bool) : Nat × Bool :=
  if call == "next" then ((if r == "true" then a.1 + 1 else a.1), r == "true")
  else if call == "close" then (a.1, false) else a

theorem l4s_live_eq (c : Case) (l : List (String × String)) (k : Nat) (cur : Bool) :
    holdsC14.live c l k cur = l4s_scan (l4s_liveG c) l4s_liveN l (k, cur) := by
  induction l generalizing k cur with
  | nil => rfl
  | cons p rest ih =>
    obtain ⟨call, r⟩ := p
    simp only [holdsC14.live, l4s_scan, l4s_liveG, l4s_liveN, ih]
    split
    · simp
    · split
      · simp
      · split
        · rfl
        · simp

/-! ### induction over `runCalls` -/

theorem l4s_scan_runCalls {σ : Type} (g : String → String → σ → Bool) (n : String → String → σ → σ)
    (f : String → String) (cancelAt : Option Nat) (Inv : σ → Iter → World → Prop)
    (hcancel : ∀ a i it w, Inv a it w → Inv a (preCancel cancelAt i it w).1 (preCancel cancelAt i it w).2)
    (hstep : ∀ a call it w, Inv a it w →
      g call (callStep (f call) it w).2.2 a = true ∧
      Inv (n call (callStep (f call) it w).2.2 a) (callStep (f call) it w).1 (callStep (f call) it w).2.1)
    (cs : List String) : ∀ (l : List String) (i : Nat) (it : Iter) (w : World) (a : σ), Inv a it w →
      l4s_scan g n (l.zip (runCalls cs cancelAt i it w (l.map f)).2.2) a = true := by
  intro l
  induction l with
  | nil => intro i it w a _; rfl
  | cons call rest ih =>
    intro i it w a hinv
    rw [List.map_cons, runCalls_cons]
    simp only [List.zip_cons_cons, l4s_scan]
    have h1 := hcancel a i it w hinv
    obtain ⟨h2, h3⟩ := hstep a call _ _ h1
    rw [h2, Bool.true_and]
    exact ih _ _ _ _ h3

end Sqlair.Rt
