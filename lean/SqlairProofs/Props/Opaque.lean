/-
  Property C02, metamorphic form: what a literal or a comment contains does not matter.

  `blankRegions inp regions` overwrites the interior of every literal / comment region of the
  reference lexer with the letter `x` (newline bytes are kept).  The parser model produces
  the same node kinds and node sizes — or rejects at the same line and column — on the
  query and on the blanked query:

  * `c02_blank_invariant`: `holdsC02opaque (modelObs E) (modelObs { E with inp := blankRegions … }) = true`
    for every environment whose decoder is a UTF-8 style decoder on every input (`OpqDec`)
    and whose classifier satisfies `ClassAscii`;
  * `c02_blank_invariant_go`: the same for the Go-faithful decoder `decodeRune` and every
    classifier that agrees with the ASCII tables below 128 — no decoder assumption left;
  * `c02_opaque_relational`: the relational statement behind both (any two inputs related by
    `OpqEnv`);
  * `c02_blank_regions`: blanking does not change the regions the reference lexer finds;
  * `c02_blank_needs_OpqDec`: with the per-input assumptions `DecOK`, `AsciiDec`, `ClassAscii`
    alone the statement is FALSE for the abstract decoder of `Env` (kernel-checked witness):
    these assumptions speak about the decoder on `E.inp` only, and blanking changes the input.

  Error columns are byte offsets from the start of the line (`colNum`), not rune counts, so
  replacing a multi-byte rune by several `x` bytes does not move them.
-/
import SqlairProofs.Props.C02
import SqlairProofs.Opaque.Obs
import SqlairProofs.Opaque.Lex
import SqlairProofs.Opaque.Blank
import SqlairProofs.Opaque.Utf8

namespace Sqlair

/-! ### the theorems -/

/-- **C02, relational form.**  For two inputs related by `OpqEnv` (same length, same newlines,
    same bytes and same lexer steps at the code offsets of the reference lexer) `parse` yields
    nodes of the same kinds and spans, or errors at the same line and column. -/
theorem c02_opaque_relational (E : Env) (inp' : Bytes) (R : OpqEnv E inp') :
    OpqParse (parse E) (parse { E with inp := inp' }) :=
  opq_parse R

/-- **C02, metamorphic form.**  The model's observation on the query and on the query with the
    interiors of its literals and comments blanked have the same shape: the same node kinds
    and node sizes, or an error at the same line and column. -/
theorem c02_blank_invariant (E : Env) (hd : OpqDec E) (hc : ClassAscii E)
    (regions : List Region) (hr : lexRegions E = .ok regions) :
    holdsC02opaque (modelObs E) (modelObs { E with inp := blankRegions E.inp regions }) = true :=
  opq_holds (opq_blank_env E hd hc regions hr)

/-- Blanking the interiors of the regions does not change the regions: the reference lexer
    finds the same literals and comments in the blanked query. -/
theorem c02_blank_regions (E : Env) (hd : OpqDec E) (hc : ClassAscii E)
    (regions : List Region) (hr : lexRegions E = .ok regions) :
    lexRegions { E with inp := blankRegions E.inp regions } = .ok regions := by
  rw [← hr]
  exact opq_lexRegions (opq_blank_env E hd hc regions hr)

/-- the same with the per-input assumptions of the other C02 theorems spelled out (they
    follow from `OpqDec`) -/
theorem c02_blank_invariant' (E : Env) (_h : DecOK E) (_ha : AsciiDec E) (hc : ClassAscii E)
    (hd : OpqDec E) (regions : List Region) (hr : lexRegions E = .ok regions) :
    holdsC02opaque (modelObs E) (modelObs { E with inp := blankRegions E.inp regions }) = true :=
  c02_blank_invariant E hd hc regions hr

/-- C02, metamorphic form, for the Go decoder and any classifier that agrees with the ASCII
    tables below 128 -/
theorem c02_blank_invariant_go (inp : Bytes) (letter digit : Nat → Bool)
    (hl : ∀ c, c < 128 → letter c = asciiLetter c) (hd : ∀ c, c < 128 → digit c = asciiDigit c)
    (regions : List Region)
    (hr : lexRegions { inp := inp, dec := decodeRune, letter := letter, digit := digit } = .ok regions) :
    holdsC02opaque (modelObs { inp := inp, dec := decodeRune, letter := letter, digit := digit })
      (modelObs { inp := blankRegions inp regions, dec := decodeRune, letter := letter, digit := digit }) = true :=
  c02_blank_invariant _ (decodeRune_OpqDec _ _ _) (classAscii_of_agree _ hl hd) regions hr

/-! ### non-vacuity -/

theorem asciiEnv_OpqDec (s : String) : OpqDec (asciiEnv s) := decodeRune_OpqDec _ _ _

/-- decidable view of a shape (`Except` has no `DecidableEq`) -/
def opqView {ε α : Type} : Except ε α → Sum ε α
  | .ok a => .inr a
  | .error e => .inl e

/-- the blanked input (for the examples) -/
def opqBlanked (E : Env) : Option Bytes :=
  match lexRegions E with
  | .ok rs => some (blankRegions E.inp rs)
  | .error _ => none

/-- the shape of the model's observation on the blanked input -/
def opqBlankedShape (E : Env) : Option (Sum (Option Nat × Option Nat) (List (SegKind × Nat))) :=
  match lexRegions E with
  | .ok rs => some (opqView (modelObs { E with inp := blankRegions E.inp rs }).shape)
  | .error _ => none

/-- `lexRegions E = .ok regions` from a decidable check -/
theorem opq_lexRegions_of_check {E : Env} {regions : List Region}
    (h : (match lexRegions E with | .ok rs => decide (rs = regions) | .error _ => false) = true) :
    lexRegions E = .ok regions := by
  split at h
  · next rs heq => rw [heq, of_decide_eq_true h]
  · cases h

/-- a literal containing expression-like text and a comment containing an output expression:
    the lexer finds both regions, blanking overwrites `a$T.x` and ` &T.* `, and both runs
    yield a bypass node of 41 bytes and the member expression `$T.c` -/
example :
    lexSpans (asciiEnv "SELECT 'a$T.x' /* &T.* */ FROM t WHERE c=$T.c") =
      some [(.lit, 7, 14), (.comment, 15, 25)] ∧
    opqBlanked (asciiEnv "SELECT 'a$T.x' /* &T.* */ FROM t WHERE c=$T.c") =
      some (Bytes.ofString "SELECT 'xxxxx' /*xxxxxx*/ FROM t WHERE c=$T.c") ∧
    opqView (modelObs (asciiEnv "SELECT 'a$T.x' /* &T.* */ FROM t WHERE c=$T.c")).shape =
      .inr [(.bypass, 41), (.member, 4)] ∧
    opqBlankedShape (asciiEnv "SELECT 'a$T.x' /* &T.* */ FROM t WHERE c=$T.c") =
      some (.inr [(.bypass, 41), (.member, 4)]) := by
  decide +kernel

/-- the hypotheses of `c02_blank_invariant` are satisfiable (and the conclusion above is about
    two non-empty shapes) -/
example : ∃ regions, lexRegions (asciiEnv "SELECT 'a$T.x' /* &T.* */ FROM t WHERE c=$T.c") = .ok regions ∧
    regions.length = 2 ∧
    holdsC02opaque (modelObs (asciiEnv "SELECT 'a$T.x' /* &T.* */ FROM t WHERE c=$T.c"))
      (modelObs { asciiEnv "SELECT 'a$T.x' /* &T.* */ FROM t WHERE c=$T.c" with
        inp := blankRegions (asciiEnv "SELECT 'a$T.x' /* &T.* */ FROM t WHERE c=$T.c").inp regions }) = true :=
  ⟨[⟨.lit, 7, 14⟩, ⟨.comment, 15, 25⟩], opq_lexRegions_of_check (by decide +kernel), rfl,
    c02_blank_invariant _ (asciiEnv_OpqDec _) (asciiEnv_ClassAscii _) _
      (opq_lexRegions_of_check (by decide +kernel))⟩

/-- a multi-byte rune inside a literal (replaced by two `x` bytes), a line comment, a block
    comment with a quote inside, and a rejected query: both runs report the error at line 2,
    column 46 (columns are byte offsets, so the rune count inside the literal is irrelevant) -/
example :
    opqBlanked (asciiEnv "SELECT 'é$T.x' -- &T.*\n, (a, b) AS (&T.*) /* 'q */ FROM t WHERE c = $T") =
      some (Bytes.ofString "SELECT 'xxxxxx' --xxxxx\n, (a, b) AS (&T.*) /*xxxx*/ FROM t WHERE c = $T") ∧
    opqView (modelObs (asciiEnv "SELECT 'é$T.x' -- &T.*\n, (a, b) AS (&T.*) /* 'q */ FROM t WHERE c = $T")).shape =
      .inl (some 2, some 46) ∧
    opqBlankedShape (asciiEnv "SELECT 'é$T.x' -- &T.*\n, (a, b) AS (&T.*) /* 'q */ FROM t WHERE c = $T") =
      some (.inl (some 2, some 46)) := by
  decide +kernel

/-! ### the decoder assumption is needed

  `DecOK` and `AsciiDec` constrain the abstract decoder on the input `E.inp` only.  Blanking
  produces another input, on which such a decoder may behave differently. -/

/-- a decoder that decodes the byte 0x80 as `$` when the input contains the letter `a`
    somewhere, and is Go's decoder otherwise -/
def opqFarDec (inp : Bytes) (p : Nat) : Nat × Nat :=
  if bAt inp p = 128 ∧ inp.any (· == 97) = true then (36, 1) else decodeRune inp p

theorem opqFarDec_DecOK (inp : Bytes) (letter digit : Nat → Bool) :
    DecOK { inp := inp, dec := opqFarDec, letter := letter, digit := digit } := by
  have hd := decodeRune_DecOK inp letter digit
  constructor
  · intro p hp
    show 1 ≤ (opqFarDec inp p).2
    unfold opqFarDec
    split
    · decide
    · exact hd.size_pos p hp
  · intro p hp
    show p + (opqFarDec inp p).2 ≤ inp.size
    unfold opqFarDec
    split
    · exact hp
    · exact hd.size_le p hp
  · intro p hp h10
    change (opqFarDec inp p).1 = 10 at h10
    show (opqFarDec inp p).2 = 1 ∧ bAt inp p = 10
    unfold opqFarDec at h10 ⊢
    split
    · next hc => rw [if_pos hc] at h10; cases h10
    · next hc => rw [if_neg hc] at h10; exact hd.nl p hp h10
  · intro p hp hne i hi hi'
    change (opqFarDec inp p).1 ≠ 10 at hne
    change i < p + (opqFarDec inp p).2 at hi'
    show bAt inp i ≠ 10
    unfold opqFarDec at hne hi'
    split at hi'
    · next hc =>
      have : i = p := by simp only [] at hi'; omega
      subst this; omega
    · next hc =>
      rw [if_neg hc] at hne
      exact hd.no_nl p hp hne i hi hi'

theorem opqFarDec_AsciiDec (inp : Bytes) (letter digit : Nat → Bool) :
    AsciiDec { inp := inp, dec := opqFarDec, letter := letter, digit := digit } where
  ascii := fun p hp hb => by
    show opqFarDec inp p = (bAt inp p, 1)
    change bAt inp p < 128 at hb
    unfold opqFarDec
    rw [if_neg (fun hc => by omega)]
    exact (decodeRune_AsciiDec inp letter digit).ascii p hp hb

/-- the byte 0x80, then `T.x 'a'` -/
def c02BlankBadEnv : Env :=
  { inp := #[128] ++ Bytes.ofString "T.x 'a'", dec := opqFarDec, letter := asciiLetter, digit := asciiDigit }

/-- Without an assumption about the decoder on *other* inputs the metamorphic form of C02
    fails: on the query the byte 0x80 decodes as `$` (the literal `'a'` contains an `a`) and
    `$T.x` is a member expression; blanking the literal to `'x'` removes the only `a`, the
    byte 0x80 becomes an invalid byte and the whole blanked query is one bypass node. -/
theorem c02_blank_needs_OpqDec :
    ∃ (E : Env) (regions : List Region), DecOK E ∧ AsciiDec E ∧ ClassAscii E ∧
      lexRegions E = .ok regions ∧
      holdsC02opaque (modelObs E) (modelObs { E with inp := blankRegions E.inp regions }) = false :=
  ⟨c02BlankBadEnv, [⟨.lit, 5, 8⟩], opqFarDec_DecOK _ _ _, opqFarDec_AsciiDec _ _ _,
    classAscii_of_agree _ (fun _ _ => rfl) (fun _ _ => rfl),
    opq_lexRegions_of_check (by decide +kernel), by decide +kernel⟩

example : opqView (modelObs c02BlankBadEnv).shape = .inr [(.member, 4), (.bypass, 4)] ∧
    opqBlankedShape c02BlankBadEnv = some (.inr [(.bypass, 8)]) := by
  decide +kernel

end Sqlair
