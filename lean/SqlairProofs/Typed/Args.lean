/-
  Typed/Args: declarative acceptance of the arguments of Query (`ArgsOK`) and its equivalence
  with `bindInputs` (C08, part 4).
-/
import SqlairProofs.Typed.Locate
import SqlairProofs.Bind.Insert

namespace Sqlair

/-! ### declarative conditions -/

/-- an insert column can be bound: a literal always; a locator column finds parameters, a
    non-bulk one at most one value, and an explicitly referenced member (`$T.m`, not `$T.*`)
    is not an omitted (zero, omitempty) one -/
def InsertColOK (tt : TypeTable) (m : TypeToValue) : TCol → Prop
  | .literal _ _ => True
  | .insert l _ explicit =>
    ∃ p, Located tt m l p ∧ (p.bulk = false → p.vals.length ≤ 1) ∧ (p.om = true → explicit = false)

/-- a typed expression can locate its parameters:
    * a standalone input finds them in a non-bulk argument, and the member is not an omitted one;
    * all columns of an insert can be bound and all bulk columns have the same number of rows. -/
def TExprOK (tt : TypeTable) (m : TypeToValue) : TExpr → Prop
  | .bypass _ => True
  | .output _ => True
  | .input l => ∃ p, Located tt m l p ∧ p.om = false ∧ p.bulk = false
  | .insert cols =>
    (∀ c ∈ cols, InsertColOK tt m c) ∧
    ∃ n, ∀ l ∈ cols.filterMap TCol.loc?, ∀ p, Located tt m l p → p.bulk = true → p.vals.length = n

/-- the typed expression uses the argument of type `t`: one of its locators finds its
    parameters in it -/
def UsesType (tt : TypeTable) (m : TypeToValue) (te : TExpr) (t : Nat) : Prop :=
  ∃ l ∈ te.inputLocs, ∃ p, Located tt m l p ∧ p.argType = t

/-- C08: Declarative acceptance of the arguments of Query: `validateInputs` accepts them
    (`Accepts`: the exact condition of `validateInputs_ok_iff`: every argument is non-nil, of a
    supported named kind, and no type is provided twice or both as `T` and `[]T`); every typed
    expression can locate its parameters in them; every argument is used by some expression. -/
def ArgsOK (tt : TypeTable) (tes : List TExpr) (args : List GoVal) : Prop :=
  Accepts tt args ∧
  (∀ te ∈ tes, TExprOK tt (args.map argEntry) te) ∧
  (∀ a ∈ args, ∃ te ∈ tes, UsesType tt (args.map argEntry) te (argKey a))

/-! ### one column -/

theorem TCol.bind_ok_iff {tt : TypeTable} {m : TypeToValue} {c : TCol} {ic : Nat} :
    (∃ r, c.bind tt m ic = .ok r) ↔ InsertColOK tt m c := by
  cases c with
  | literal column lit => simp [TCol.bind, InsertColOK]
  | insert l column explicit =>
    simp only [TCol.bind, InsertColOK]
    cases hl : locateParams tt m l with
    | error e =>
      simp only [reduceCtorEq, exists_false, false_iff, not_exists, not_and]
      intro p hp
      rw [← locateParams_ok_iff, hl] at hp; cases hp
    | ok p =>
      have hp := locateParams_ok_iff.1 hl
      have hex : (∃ p', Located tt m l p' ∧ (p'.bulk = false → p'.vals.length ≤ 1) ∧ (p'.om = true → explicit = false)) ↔
          ((p.bulk = false → p.vals.length ≤ 1) ∧ (p.om = true → explicit = false)) := by
        constructor
        · rintro ⟨p', h1, h2⟩
          rw [hp.unique h1]; exact h2
        · intro h; exact ⟨p, hp, h⟩
      rw [hex]
      simp only
      by_cases h1 : (!p.bulk && decide (p.vals.length > 1)) = true
      · simp only [h1, if_true, reduceCtorEq, exists_false, false_iff, not_and]
        simp only [Bool.and_eq_true, Bool.not_eq_true', decide_eq_true_eq] at h1
        intro h; have := h h1.1; omega
      · simp only [h1, Bool.false_eq_true, if_false]
        have h1' : p.bulk = false → p.vals.length ≤ 1 := by
          intro hb
          simp only [hb, Bool.not_false, Bool.true_and, decide_eq_true_eq] at h1
          omega
        by_cases h2 : (p.om && explicit) = true
        · simp only [h2, if_true, reduceCtorEq, exists_false, false_iff, not_and]
          simp only [Bool.and_eq_true] at h2
          intro _ h; rw [h h2.1] at h2; simp at h2
        · simp only [h2, Bool.false_eq_true, if_false]
          have h2' : p.om = true → explicit = false := by
            intro ho
            simpa [ho] using h2
          constructor
          · intro _; exact ⟨h1', h2'⟩
          · intro _; split <;> exact ⟨_, rfl⟩

/-- the number of rows a column contributes if it is bulk -/
def bulkLen (tt : TypeTable) (m : TypeToValue) : TCol → Option Nat
  | .literal _ _ => none
  | .insert l _ _ =>
    match locateParams tt m l with
    | .ok p => if p.bulk then some p.vals.length else none
    | .error _ => none

/-- the argument type a column uses -/
def argTypeOf (tt : TypeTable) (m : TypeToValue) : TCol → Option Nat
  | .literal _ _ => none
  | .insert l _ _ =>
    match locateParams tt m l with
    | .ok p => some p.argType
    | .error _ => none

theorem TCol.bind_bulkLen {tt : TypeTable} {m : TypeToValue} {c : TCol} {ic ic' : Nat} {bc : BCol}
    (h : c.bind tt m ic = .ok (bc, ic')) :
    bulkLen tt m c = (if bc.bulk then some bc.vals.length else none) ∧ bc.argType = argTypeOf tt m c := by
  have hs := (TCol.bind_spec h).1
  cases c with
  | literal column lit =>
    simp only [ColBound] at hs
    simp [bulkLen, argTypeOf, hs.2.2.1, hs.2.2.2.2.2]
  | insert l column explicit =>
    simp only [ColBound] at hs
    obtain ⟨p, hp, h1, _, h3, _, h5, _⟩ := hs
    simp [bulkLen, argTypeOf, hp, h1, h3, h5]

/-! ### the column loop -/

theorem bindCols_ok_iff_core {tt : TypeTable} {m : TypeToValue} :
    ∀ (cols : List TCol) (qb : QB) (acc : List BCol) (bulk : Bool) (numRows : Nat),
    (∃ r, bindCols tt m cols qb acc bulk numRows = .ok r) ↔
      (∀ c ∈ cols, InsertColOK tt m c) ∧
      ∃ n, (bulk = true → n = numRows) ∧ ∀ c ∈ cols, ∀ k, bulkLen tt m c = some k → k = n := by
  intro cols
  induction cols with
  | nil =>
    intro qb acc bulk numRows
    simp only [bindCols, Except.ok.injEq, exists_eq', List.not_mem_nil, false_imp_iff, implies_true,
      and_true, true_and, true_iff]
    exact ⟨numRows, fun _ => rfl⟩
  | cons c rest ih =>
    intro qb acc bulk numRows
    simp only [bindCols, List.forall_mem_cons]
    rw [← TCol.bind_ok_iff (ic := qb.inputCount)]
    cases hb : c.bind tt m qb.inputCount with
    | error e => simp
    | ok r =>
      obtain ⟨bc, ic⟩ := r
      obtain ⟨hbl, _⟩ := TCol.bind_bulkLen hb
      simp only [Except.ok.injEq, exists_eq', true_and]
      by_cases h1 : bc.bulk = true
      · simp only [h1, if_true] at hbl
        by_cases h2 : bulk = true
        · subst h2
          by_cases h3 : bc.vals.length = numRows
          · have h3' : (bc.vals.length != numRows) = false := by simpa using h3
            simp only [h1, Bool.and_self, h3', Bool.and_false, Bool.false_eq_true, if_false, Bool.not_true]
            rw [ih]
            simp only [true_imp_iff]
            constructor
            · rintro ⟨ha, n, rfl, hn⟩
              refine ⟨ha, n, rfl, ?_, hn⟩
              intro k hk; rw [hbl] at hk; cases hk; exact h3
            · rintro ⟨ha, n, rfl, _, hn⟩
              exact ⟨ha, n, rfl, hn⟩
          · have h3' : (bc.vals.length != numRows) = true := by simpa using h3
            simp only [h1, Bool.and_self, h3', if_true, reduceCtorEq, exists_false, false_iff, not_and,
              not_exists, true_imp_iff]
            rintro _ n rfl hc _
            exact h3 (hc _ hbl)
        · have h2' : bulk = false := by simpa using h2
          subst h2'
          simp only [h1, Bool.and_false, Bool.false_and, Bool.false_eq_true, if_false, Bool.not_false,
            Bool.and_self, if_true]
          rw [ih]
          simp only [true_imp_iff, false_imp_iff, true_and]
          constructor
          · rintro ⟨ha, n, rfl, hn⟩
            refine ⟨ha, bc.vals.length, ?_, hn⟩
            intro k hk; rw [hbl] at hk; cases hk; rfl
          · rintro ⟨ha, n, hc, hn⟩
            have : bc.vals.length = n := hc _ hbl
            exact ⟨ha, n, this.symm, hn⟩
      · have h1' : bc.bulk = false := by simpa using h1
        simp only [h1', Bool.false_eq_true, if_false] at hbl
        simp only [h1', Bool.false_and, Bool.false_eq_true, if_false]
        rw [ih]
        constructor
        · rintro ⟨ha, n, h0, hn⟩
          refine ⟨ha, n, h0, ?_, hn⟩
          intro k hk; rw [hbl] at hk; cases hk
        · rintro ⟨ha, n, h0, _, hn⟩
          exact ⟨ha, n, h0, hn⟩

theorem exists_mem_cons_and {α : Type} {p : α → Prop} {a : α} {l : List α} :
    (∃ x, x ∈ a :: l ∧ p x) ↔ p a ∨ ∃ x, x ∈ l ∧ p x := by simp

theorem mem_markUsed_iff {used : List Nat} {t x : Nat} : x ∈ markUsed used t ↔ x = t ∨ x ∈ used := by
  unfold markUsed
  split
  · rename_i h
    have : t ∈ used := by simpa using h
    constructor
    · exact Or.inr
    · rintro (rfl | h)
      · exact this
      · exact h
  · simp

theorem bindCols_argUsed {tt : TypeTable} {m : TypeToValue} :
    ∀ (cols : List TCol) (qb : QB) (acc : List BCol) (bulk : Bool) (numRows : Nat)
      (qb' : QB) (bcs : List BCol) (n' : Nat),
    bindCols tt m cols qb acc bulk numRows = .ok (qb', bcs, n') →
    ∀ t, t ∈ qb'.argUsed ↔ t ∈ qb.argUsed ∨ ∃ c ∈ cols, argTypeOf tt m c = some t := by
  intro cols
  induction cols with
  | nil =>
    intro qb acc bulk numRows qb' bcs n' h t
    simp only [bindCols, Except.ok.injEq, Prod.mk.injEq] at h
    obtain ⟨rfl, _, _⟩ := h
    simp
  | cons c rest ih =>
    intro qb acc bulk numRows qb' bcs n' h t
    simp only [bindCols] at h
    split at h
    · cases h
    · rename_i bc ic hb
      obtain ⟨_, hat⟩ := TCol.bind_bulkLen hb
      split at h
      · cases h
      · rw [ih _ _ _ _ _ _ _ h t]
        simp only [exists_mem_cons_and, ← hat]
        cases hbt : bc.argType with
        | none => simp
        | some x =>
          simp only [mem_markUsed_iff, Option.some.injEq]
          constructor
          · rintro ((rfl | h) | h)
            · exact Or.inr (Or.inl rfl)
            · exact Or.inl h
            · exact Or.inr (Or.inr h)
          · rintro (h | rfl | h)
            · exact Or.inl (Or.inr h)
            · exact Or.inl (Or.inl rfl)
            · exact Or.inr h

/-! ### from the computational to the relational vocabulary -/

theorem bulkLen_iff {tt : TypeTable} {m : TypeToValue} {cols : List TCol} {n : Nat} :
    (∀ c ∈ cols, ∀ k, bulkLen tt m c = some k → k = n) ↔
      ∀ l ∈ cols.filterMap TCol.loc?, ∀ p, Located tt m l p → p.bulk = true → p.vals.length = n := by
  simp only [List.mem_filterMap]
  constructor
  · rintro h l ⟨c, hc, hl⟩ p hp hb
    cases c with
    | literal _ _ => simp [TCol.loc?] at hl
    | insert l' col ex =>
      simp only [TCol.loc?, Option.some.injEq] at hl
      subst hl
      exact h _ hc _ (by simp [bulkLen, locateParams_ok_iff.2 hp, hb])
  · intro h c hc k hk
    cases c with
    | literal _ _ => simp [bulkLen] at hk
    | insert l col ex =>
      simp only [bulkLen] at hk
      split at hk
      · rename_i p hp
        split at hk
        · rename_i hb
          cases hk
          exact h l ⟨_, hc, rfl⟩ p (locateParams_ok_iff.1 hp) hb
        · cases hk
      · cases hk

theorem argTypeOf_iff {tt : TypeTable} {m : TypeToValue} {cols : List TCol} {t : Nat} :
    (∃ c ∈ cols, argTypeOf tt m c = some t) ↔
      ∃ l ∈ cols.filterMap TCol.loc?, ∃ p, Located tt m l p ∧ p.argType = t := by
  simp only [List.mem_filterMap]
  constructor
  · rintro ⟨c, hc, h⟩
    cases c with
    | literal _ _ => simp [argTypeOf] at h
    | insert l col ex =>
      simp only [argTypeOf] at h
      split at h
      · rename_i p hp
        cases h
        exact ⟨l, ⟨_, hc, rfl⟩, p, locateParams_ok_iff.1 hp, rfl⟩
      · cases h
  · rintro ⟨l, ⟨c, hc, hl⟩, p, hp, rfl⟩
    cases c with
    | literal _ _ => simp [TCol.loc?] at hl
    | insert l' col ex =>
      simp only [TCol.loc?, Option.some.injEq] at hl
      subst hl
      exact ⟨_, hc, by simp [argTypeOf, locateParams_ok_iff.2 hp]⟩

/-! ### one typed expression -/

theorem addInsert_argUsed_eq {qb qb' : QB} {cols : List BCol} {n : Nat}
    (h : addInsert qb cols n = .ok qb') : qb'.argUsed = qb.argUsed := by
  unfold addInsert at h
  split at h
  · cases h
  · cases h; rfl

theorem addInsert_total {tt : TypeTable} {m : TypeToValue} {qb qb1 : QB}
    {cols : List TCol} {bcs : List BCol} {numRows : Nat}
    (hb : bindCols tt m cols qb [] false 1 = .ok (qb1, bcs, numRows)) :
    ∃ qb', addInsert qb1 bcs numRows = .ok qb' := by
  obtain ⟨new, hbcs, _, _, _, _, h1, h2, _, _, _⟩ := bindCols_spec _ _ _ _ _ _ _ _ hb
  simp only [List.nil_append] at hbcs
  subst hbcs
  apply addInsert_ok
  intro bc hbc _
  cases hbk : bc.bulk
  · exact Or.inl (h1 bc hbc hbk)
  · exact Or.inr (h2 bc hbc hbk)

theorem addToQuery_ok_iff {tt : TypeTable} {m : TypeToValue} {qb : QB} {te : TExpr} :
    (∃ qb', addToQuery tt m qb te = .ok qb') ↔ TExprOK tt m te := by
  cases te with
  | bypass chunk => simp [addToQuery, TExprOK]
  | output cols => simp [addToQuery, TExprOK]
  | input l =>
    simp only [addToQuery, TExprOK]
    cases hl : locateParams tt m l with
    | error e =>
      simp only [reduceCtorEq, exists_false, false_iff, not_exists, not_and]
      intro p hp
      rw [← locateParams_ok_iff, hl] at hp; cases hp
    | ok p =>
      have hp := locateParams_ok_iff.1 hl
      have hex : (∃ p', Located tt m l p' ∧ p'.om = false ∧ p'.bulk = false) ↔
          (p.om = false ∧ p.bulk = false) := by
        constructor
        · rintro ⟨p', h1, h2⟩
          rw [hp.unique h1]; exact h2
        · intro h; exact ⟨p, hp, h⟩
      rw [hex]
      simp only
      cases p.om <;> cases p.bulk <;> simp
  | insert cols =>
    simp only [addToQuery, TExprOK]
    have hcore := bindCols_ok_iff_core (tt := tt) (m := m) cols qb [] false 1
    simp only [Bool.false_eq_true, false_imp_iff, true_and] at hcore
    have hbl : (∃ n, ∀ c ∈ cols, ∀ k, bulkLen tt m c = some k → k = n) ↔
        ∃ n, ∀ l ∈ cols.filterMap TCol.loc?, ∀ p, Located tt m l p → p.bulk = true → p.vals.length = n :=
      exists_congr (fun n => bulkLen_iff)
    rw [← hbl, ← hcore]
    cases hb : bindCols tt m cols qb [] false 1 with
    | error e => simp
    | ok r =>
      obtain ⟨qb1, bcs, numRows⟩ := r
      obtain ⟨qb', h'⟩ := addInsert_total hb
      simp only [h', Except.ok.injEq, exists_eq']

theorem addToQuery_argUsed {tt : TypeTable} {m : TypeToValue} {qb qb' : QB} {te : TExpr}
    (h : addToQuery tt m qb te = .ok qb') :
    ∀ t, t ∈ qb'.argUsed ↔ t ∈ qb.argUsed ∨ UsesType tt m te t := by
  intro t
  cases te with
  | bypass chunk =>
    simp only [addToQuery, Except.ok.injEq] at h
    subst h
    simp [UsesType, TExpr.inputLocs]
  | output cols =>
    simp only [addToQuery, Except.ok.injEq] at h
    subst h
    simp [UsesType, TExpr.inputLocs]
  | input l =>
    simp only [addToQuery] at h
    split at h
    · cases h
    · rename_i p hl
      have hp := locateParams_ok_iff.1 hl
      split at h
      · cases h
      · split at h
        · cases h
        · cases h
          simp only [mem_markUsed_iff, UsesType, TExpr.inputLocs, List.mem_singleton, exists_eq_left]
          constructor
          · rintro (rfl | h)
            · exact Or.inr ⟨p, hp, rfl⟩
            · exact Or.inl h
          · rintro (h | ⟨p', hp', rfl⟩)
            · exact Or.inr h
            · rw [hp.unique hp']; exact Or.inl rfl
  | insert cols =>
    simp only [addToQuery] at h
    split at h
    · cases h
    · rename_i qb1 bcs numRows hb
      rw [addInsert_argUsed_eq h, bindCols_argUsed _ _ _ _ _ _ _ _ hb t, argTypeOf_iff]
      rfl

/-! ### the fold -/

theorem foldlM_addToQuery_spec {tt : TypeTable} {m : TypeToValue} : ∀ (tes : List TExpr) (qb : QB),
    ((∃ qb', tes.foldlM (addToQuery tt m) qb = .ok qb') ↔ ∀ te ∈ tes, TExprOK tt m te) ∧
    ∀ qb', tes.foldlM (addToQuery tt m) qb = .ok qb' →
      ∀ t, t ∈ qb'.argUsed ↔ t ∈ qb.argUsed ∨ ∃ te ∈ tes, UsesType tt m te t := by
  intro tes
  induction tes with
  | nil =>
    intro qb
    refine ⟨by simp [List.foldlM, pure, Except.pure], ?_⟩
    intro qb' h t
    simp only [List.foldlM, pure, Except.pure, Except.ok.injEq] at h
    subst h; simp
  | cons te rest ih =>
    intro qb
    rw [foldlM_except_cons, List.forall_mem_cons, ← addToQuery_ok_iff (qb := qb)]
    cases hs : addToQuery tt m qb te with
    | error e => simp
    | ok q1 =>
      obtain ⟨i1, i2⟩ := ih q1
      simp only [Except.ok.injEq, exists_eq', true_and]
      refine ⟨i1, ?_⟩
      intro qb' h t
      rw [i2 qb' h t, addToQuery_argUsed hs t, exists_mem_cons_and, or_assoc]

/-! ### `bindInputs` -/

/-- C08 part 4: Query accepts the arguments iff they are `ArgsOK` (for ALL typed expressions,
    in particular those produced by `bindTypes`) -/
theorem bindInputs_ok_iff_argsOK_core {tt : TypeTable} {tes : List TExpr} {args : List GoVal} :
    (∃ pq, bindInputs tt tes args = .ok pq) ↔ ArgsOK tt tes args := by
  unfold bindInputs ArgsOK
  cases hv : validateInputs tt args [] with
  | error e =>
    simp only [reduceCtorEq, exists_false, false_iff, not_and]
    intro ha
    have := (validateInputs_nil_ok_iff tt args _).2 ⟨rfl, ha⟩
    rw [hv] at this; cases this
  | ok m =>
    obtain ⟨rfl, hacc⟩ := (validateInputs_nil_ok_iff tt args m).1 hv
    obtain ⟨f1, f2⟩ := foldlM_addToQuery_spec (tt := tt) (m := args.map argEntry) tes {}
    simp only [hacc, true_and]
    rw [← f1]
    cases hf : tes.foldlM (addToQuery tt (args.map argEntry)) ({} : QB) with
    | error e => simp
    | ok qb =>
      have hu := f2 qb hf
      simp only [List.not_mem_nil, false_or] at hu
      simp only [Except.ok.injEq, exists_eq', true_and]
      have hall : (args.map argEntry).all (fun p => qb.argUsed.contains p.1) = true ↔
          ∀ a ∈ args, ∃ te ∈ tes, UsesType tt (args.map argEntry) te (argKey a) := by
        rw [List.all_eq_true]
        simp only [List.mem_map, forall_exists_index, and_imp, forall_apply_eq_imp_iff₂,
          List.contains_eq_mem, decide_eq_true_eq]
        constructor
        · intro h a ha; exact (hu _).1 (h a ha)
        · intro h a ha; exact (hu _).2 (h a ha)
      by_cases hc : (args.map argEntry).all (fun p => qb.argUsed.contains p.1) = true
      · simp only [hc, if_true, Except.ok.injEq, exists_eq', true_iff]
        exact hall.1 hc
      · simp only [hc, Bool.false_eq_true, if_false, reduceCtorEq, exists_false, false_iff]
        exact fun h => hc (hall.2 h)

/-! ### reading the validated map in terms of the argument list -/

private theorem eq_of_fst_eq_of_nodup : ∀ {m : TypeToValue}, (m.map (·.1)).Nodup →
    ∀ {e e' : Nat × GoVal}, e ∈ m → e' ∈ m → e.1 = e'.1 → e = e' := by
  intro m
  induction m with
  | nil => intro _ e e' h; cases h
  | cons x rest ih =>
    intro hn e e' he he' hk
    rw [List.map_cons, List.nodup_cons] at hn
    rcases List.mem_cons.1 he with h1 | h1
    · rcases List.mem_cons.1 he' with h2 | h2
      · rw [h1, h2]
      · subst h1
        exact absurd (List.mem_map.2 ⟨e', h2, hk.symm⟩ : e.1 ∈ rest.map (·.1)) hn.1
    · rcases List.mem_cons.1 he' with h2 | h2
      · subst h2
        exact absurd (List.mem_map.2 ⟨e, h1, hk⟩ : e'.1 ∈ rest.map (·.1)) hn.1
      · exact ih hn.2 h1 h2 hk

/-- "the argument of type `t`": among accepted arguments, the validated map holds `v` under `t`
    iff some argument, dereferenced (`T` or `*T`), is `v` and has type `t` -/
theorem ttvGet_args_iff {tt : TypeTable} {args : List GoVal} (h : Accepts tt args) (t : Nat) (v : GoVal) :
    ttvGet (args.map argEntry) t = some v ↔ ∃ a ∈ args, argKey a = t ∧ indirect a = v := by
  unfold ttvGet
  constructor
  · intro hg
    obtain ⟨e, he, rfl⟩ := Option.map_eq_some_iff.1 hg
    have hm := List.mem_of_find?_eq_some he
    have hk : e.1 = t := by simpa using List.find?_some he
    obtain ⟨a, ha, rfl⟩ := List.mem_map.1 hm
    exact ⟨a, ha, hk, rfl⟩
  · rintro ⟨a, ha, rfl, rfl⟩
    have hm : argEntry a ∈ args.map argEntry := List.mem_map.2 ⟨a, ha, rfl⟩
    cases hf : (args.map argEntry).find? (fun x => x.1 == argKey a) with
    | none =>
      have := List.find?_eq_none.1 hf _ hm
      simp [argEntry, argKey] at this
    | some e =>
      have hm' := List.mem_of_find?_eq_some hf
      have hk : e.1 = argKey a := by simpa using List.find?_some hf
      have := eq_of_fst_eq_of_nodup h.nodup_keys hm' hm hk
      subst this
      rfl

/-- no argument has type `t` -/
theorem ttvGet_args_none_iff {args : List GoVal} (t : Nat) :
    ttvGet (args.map argEntry) t = none ↔ ∀ a ∈ args, argKey a ≠ t := by
  unfold ttvGet
  rw [Option.map_eq_none_iff, List.find?_eq_none]
  simp only [List.mem_map, forall_exists_index, and_imp, forall_apply_eq_imp_iff₂]
  constructor
  · intro h a ha; simpa [argEntry, argKey] using h a ha
  · intro h a ha; simpa [argEntry, argKey] using h a ha

/-- "the bulk argument for `t`": it is one of the arguments and its type is `[]t` or `[]*t` -/
theorem locateBulk_args {tt : TypeTable} {args : List GoVal} {t : Nat} {v : GoVal}
    (h : locateBulk tt (args.map argEntry) t = some v) :
    ∃ a ∈ args, indirect a = v ∧ (isSliceOf tt (argKey a) t = true ∨ isSliceOfPtr tt (argKey a) t = true) := by
  unfold locateBulk at h
  split at h
  · rename_i p hf
    cases h
    obtain ⟨a, ha, rfl⟩ := List.mem_map.1 (List.mem_of_find?_eq_some hf)
    have := List.find?_some hf
    exact ⟨a, ha, rfl, Or.inl this⟩
  · obtain ⟨p, hf, rfl⟩ := Option.map_eq_some_iff.1 h
    obtain ⟨a, ha, rfl⟩ := List.mem_map.1 (List.mem_of_find?_eq_some hf)
    have := List.find?_some hf
    exact ⟨a, ha, rfl, Or.inr this⟩

/-- where a locator finds its parameters, in terms of the argument list: a non-bulk reading
    comes from the argument whose (dereferenced) type is the located type; a bulk reading from
    an argument of type `[]T` / `[]*T`, and then no argument has the located type itself -/
theorem Located.arg {tt : TypeTable} {args : List GoVal} {l : Loc} {p : Params}
    (h : Located tt (args.map argEntry) l p) :
    (p.bulk = false ∧ p.argType = l.tid ∧ ∃ a ∈ args, argKey a = l.tid) ∨
    (p.bulk = true ∧ (∀ b ∈ args, argKey b ≠ l.tid) ∧
      ∃ a ∈ args, argKey a = p.argType ∧
        (isSliceOf tt (argKey a) l.tid = true ∨ isSliceOfPtr tt (argKey a) l.tid = true)) := by
  have direct : ∀ {t : Nat} {v : GoVal}, ttvGet (args.map argEntry) t = some v → ∃ a ∈ args, argKey a = t := by
    intro t v hg
    unfold ttvGet at hg
    obtain ⟨e, he, _⟩ := Option.map_eq_some_iff.1 hg
    have hm := List.mem_of_find?_eq_some he
    have hk : e.1 = t := by simpa using List.find?_some he
    obtain ⟨a, ha, rfl⟩ := List.mem_map.1 hm
    exact ⟨a, ha, hk⟩
  have bulk : ∀ {t : Nat} {hd : VH} {els : List GoVal},
      locateBulk tt (args.map argEntry) t = some (.slice hd els) →
      ∃ a ∈ args, argKey a = hd.t ∧ (isSliceOf tt (argKey a) t = true ∨ isSliceOfPtr tt (argKey a) t = true) := by
    intro t hd els hb
    obtain ⟨a, ha, hv, hs⟩ := locateBulk_args hb
    refine ⟨a, ha, ?_, hs⟩
    simp [argKey, hv, GoVal.tid, GoVal.h]
  cases h with
  | slice hg => exact Or.inl ⟨rfl, rfl, direct hg⟩
  | mapKey hg hk => exact Or.inl ⟨rfl, rfl, direct hg⟩
  | field hg hv => exact Or.inl ⟨rfl, rfl, direct hg⟩
  | mapKeyBulk hg hb hne hall => exact Or.inr ⟨rfl, (ttvGet_args_none_iff _).1 hg, bulk hb⟩
  | fieldBulk hg hb hne hall hom => exact Or.inr ⟨rfl, (ttvGet_args_none_iff _).1 hg, bulk hb⟩

/-- C08 (⇒, in the words of the property): if Query accepts the arguments, then
    (1) every argument passes the per-argument checks (non-nil, supported named kind),
    (2) no two arguments have the same type (`T` and `*T` count as the same),
    (3) every standalone input finds an argument of exactly its type (never a bulk one),
    (4) every locator of an insert expression finds an argument of its type, or a bulk
        argument `[]T` / `[]*T` when no argument has the type itself,
    (5) every argument is used by a locator that reads from it. -/
theorem query_ok_reading_core {tt : TypeTable} {tes : List TExpr} {args : List GoVal} {pq : Primed}
    (h : bindInputs tt tes args = .ok pq) :
    (∀ a ∈ args, argOK tt a = true) ∧
    (args.map argKey).Nodup ∧
    (∀ l, TExpr.input l ∈ tes → ∃ a ∈ args, argKey a = l.tid) ∧
    (∀ cols, TExpr.insert cols ∈ tes → ∀ l ∈ cols.filterMap TCol.loc?,
      (∃ a ∈ args, argKey a = l.tid) ∨
      ((∀ b ∈ args, argKey b ≠ l.tid) ∧
        ∃ a ∈ args, isSliceOf tt (argKey a) l.tid = true ∨ isSliceOfPtr tt (argKey a) l.tid = true)) ∧
    (∀ a ∈ args, ∃ te ∈ tes, ∃ l ∈ te.inputLocs,
      argKey a = l.tid ∨ isSliceOf tt (argKey a) l.tid = true ∨ isSliceOfPtr tt (argKey a) l.tid = true) := by
  obtain ⟨hacc, hte, hused⟩ := bindInputs_ok_iff_argsOK_core.1 ⟨pq, h⟩
  refine ⟨hacc.1, ?_, ?_, ?_, ?_⟩
  · have := hacc.nodup_keys
    rw [List.map_map] at this
    exact this
  · intro l hl
    obtain ⟨p, hp, _, hb⟩ := hte _ hl
    rcases hp.arg with h1 | h1
    · exact h1.2.2
    · rw [hb] at h1; cases h1.1
  · intro cols hc l hl
    obtain ⟨c, hcm, hcl⟩ := List.mem_filterMap.1 hl
    cases c with
    | literal _ _ => simp [TCol.loc?] at hcl
    | insert l' col ex =>
      simp only [TCol.loc?, Option.some.injEq] at hcl
      subst hcl
      obtain ⟨p, hp, _⟩ := (hte _ hc).1 _ hcm
      rcases hp.arg with h1 | h1
      · exact Or.inl h1.2.2
      · obtain ⟨_, hn, a, ha, _, hs⟩ := h1
        exact Or.inr ⟨hn, a, ha, hs⟩
  · intro a ha
    obtain ⟨te, hte', l, hl, p, hp, hk⟩ := hused a ha
    refine ⟨te, hte', l, hl, ?_⟩
    rcases hp.arg with h1 | h1
    · left; rw [← hk, h1.2.1]
    · obtain ⟨_, _, b, hb, hbk, hs⟩ := h1
      have : argKey a = argKey b := by rw [hbk, hk]
      rw [this]; exact Or.inr hs

end Sqlair
