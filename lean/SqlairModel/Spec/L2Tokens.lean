/-
  Spec/L2Tokens: the guard under which the token predicates of the bind layer (`holdsC03`,
  `holdsC05`, `Spec/L2.lean`) are evaluated on the implementation's observation.  Without it
  they are false of the model's own observation for statements the parser really produces
  (`c03_false_alarm_tag_completes`, `c03_false_alarm_empty_slice`, `c05_false_alarm_…`,
  `SqlairProofs/Props/L2Tokens.lean`, kernel-checked): a generated name completed across the
  border of two texts (`@sqlair` + a tag `_9`, or an empty slice expansion gluing `@sqlair`
  to `_9`).  Definitions only; the lemmas are in `SqlairProofs/L2Sound/Tokens.lean`.
-/
import SqlairModel.Spec.L2

namespace Sqlair

/-! ## the guard -/

/-- the text does not contain the word `sqlair` (without the underscore) -/
def tokNoWord (b : Bytes) : Bool := !(containsSub b "sqlair")

/-- last byte of a non-empty text -/
def tokEndsWith (b : Bytes) (x : UInt8) : Bool := b.size != 0 && b.getD (b.size - 1) 0 == x

/-- a column / member name an alias may follow: `*` itself (expanded, never printed), or a
    non-empty text that does not end in `*` -/
def tokColOK (b : Bytes) : Bool := b == star || (b.size != 0 && !tokEndsWith b 42)

/-- the guard of the token predicates:
    (G0) what the driver checks today;
    (G1) NO text the user controls — bypass chunks, raw texts, column and table names, member
         names / map keys, literal values, db tags — contains the word `sqlair` at all (so a
         generated name cannot be completed across the border of two texts: `@sqlair` + `_9`),
         and no db tag contains `*`;
    (G2) an output node has at least one type, and none of its column / member names is empty
         or ends in `*` (so ` AS _sqlair_N` never follows a `*` of the user's, and
         `hasOutputSeg` means "has an output column") -/
def tokensGuards (tt : TypeTable) (segs : List OSeg) : Bool :=
  (cleanForTokens segs && tagsClean tt) &&
  (tt.all fun td => td.fields.all fun f => tokNoWord f.tag && !(f.tag.contains 42)) &&
  (segs.all fun s => tokNoWord s.raw &&
    s.cols.all (fun c => tokNoWord c.column && tokNoWord c.table) &&
    s.types.all (fun t => tokNoWord t.member) &&
    s.vals.all (fun v => match v with | .lit b => tokNoWord b | .acc a => tokNoWord a.member)) &&
  (segs.all fun s => s.kind != .output ||
    (!s.types.isEmpty && s.cols.all (fun c => tokColOK c.column) && s.types.all (fun t => tokColOK t.member)))

/-- the part of the guard the mode half of `holdsC05` needs -/
def outputsTyped (segs : List OSeg) : Bool := segs.all fun s => s.kind != .output || !s.types.isEmpty

/-- the mode half of `holdsC05` (it does not scan the text): Query iff an output node -/
def holdsC05mode (segs : List OSeg) (o : BindObs) : Bool := (o.mode == "query") == hasOutputSeg segs

end Sqlair
