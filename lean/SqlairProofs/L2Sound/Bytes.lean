/-
  L2Sound/Bytes: byte-string lemmas for the scanners of `Spec/L2.lean`
  (`Bytes.hasPrefixAt`, `Bytes.findFrom`, `placeholderAt`, `placeholderListEnds`) and for the
  renderer (`joinComma`, `natBytes`, `Piece.render`).
-/
import SqlairModel.Spec.L2
import SqlairProofs.Scan.Marker
import SqlairProofs.E2E.Render

namespace Sqlair

/-! ### `hasPrefixAt` and `findFrom` -/

theorem l2s_extract_mid (a w c : Bytes) : (a ++ w ++ c).extract a.size (a.size + w.size) = w := by
  apply Array.ext'
  simp

/-- a word is found where it stands -/
theorem l2s_hasPrefixAt_mid (a w c : Bytes) : (a ++ w ++ c).hasPrefixAt a.size w = true := by
  unfold Bytes.hasPrefixAt
  rw [l2s_extract_mid]
  simp [Array.size_append]

theorem l2s_hasPrefixAt_mid' {sql a w c : Bytes} {off : Nat} (h : sql = a ++ w ++ c) (ho : off = a.size) :
    sql.hasPrefixAt off w = true := by
  subst h ho; exact l2s_hasPrefixAt_mid a w c

/-- `b` occurs in `s` -/
def L2sInfix (b s : Bytes) : Prop := ∃ p q, s = p ++ b ++ q

theorem L2sInfix.refl (b : Bytes) : L2sInfix b b := ⟨#[], #[], by simp⟩

theorem L2sInfix.append_left {b s : Bytes} (h : L2sInfix b s) (x : Bytes) : L2sInfix b (x ++ s) := by
  obtain ⟨p, q, rfl⟩ := h
  exact ⟨x ++ p, q, by simp [Array.append_assoc]⟩

theorem L2sInfix.append_right {b s : Bytes} (h : L2sInfix b s) (x : Bytes) : L2sInfix b (s ++ x) := by
  obtain ⟨p, q, rfl⟩ := h
  exact ⟨p, q ++ x, by simp [Array.append_assoc]⟩

theorem L2sInfix.trans {a b c : Bytes} (h1 : L2sInfix a b) (h2 : L2sInfix b c) : L2sInfix a c := by
  obtain ⟨p, q, rfl⟩ := h2
  exact (h1.append_left p).append_right q

/-- `Bytes.findFrom` finds a word that is present -/
theorem l2s_findFrom_isSome_of_infix {b s : Bytes} (h : L2sInfix b s) : (s.findFrom b 0).isSome = true := by
  obtain ⟨p, q, rfl⟩ := h
  unfold Bytes.findFrom
  rw [List.findSome?_isSome_iff]
  refine ⟨p.size, ?_, ?_⟩
  · simp [Array.size_append]; omega
  · simp only [Nat.zero_add, l2s_hasPrefixAt_mid]; rfl

/-! ### `joinComma` -/

theorem l2s_joinFold (sep : Bytes) : ∀ (xs : List Bytes) (p x : Bytes),
    xs.foldl (fun acc y => acc ++ sep ++ y) (p ++ x) = p ++ xs.foldl (fun acc y => acc ++ sep ++ y) x := by
  intro xs
  induction xs with
  | nil => intro p x; rfl
  | cons y ys ih =>
    intro p x
    simp only [List.foldl_cons]
    rw [Array.append_assoc, Array.append_assoc, ih, ← Array.append_assoc (xs := x)]

theorem l2s_joinComma_single (x : Bytes) : joinComma [x] = x := rfl

theorem l2s_joinComma_cons_cons (x y : Bytes) (ys : List Bytes) :
    joinComma (x :: y :: ys) = x ++ bs ", " ++ joinComma (y :: ys) := by
  show ys.foldl _ (x ++ bs ", " ++ y) = x ++ bs ", " ++ ys.foldl _ y
  exact l2s_joinFold (bs ", ") ys (x ++ bs ", ") y

theorem l2s_infix_joinComma {b : Bytes} : ∀ {l : List Bytes}, b ∈ l → L2sInfix b (joinComma l) := by
  intro l
  induction l with
  | nil => intro h; cases h
  | cons x xs ih =>
    intro h
    cases xs with
    | nil =>
      rw [List.mem_singleton] at h
      subst h; exact .refl _
    | cons y ys =>
      rw [l2s_joinComma_cons_cons]
      rcases List.mem_cons.1 h with rfl | h
      · exact ((L2sInfix.refl _).append_right _).append_right _
      · exact (ih h).append_left _

theorem l2s_infix_joinComma_of {b : Bytes} {l : List Bytes} {x : Bytes} (hx : x ∈ l) (hb : L2sInfix b x) :
    L2sInfix b (joinComma l) := hb.trans (l2s_infix_joinComma hx)

theorem l2s_infix_concat {b : Bytes} : ∀ {l : List Bytes} {x : Bytes}, x ∈ l → L2sInfix b x →
    L2sInfix b (concatBytes l) := by
  intro l
  induction l with
  | nil => intro x h; cases h
  | cons y ys ih =>
    intro x h hb
    rw [concatBytes_cons]
    rcases List.mem_cons.1 h with rfl | h
    · exact hb.append_right _
    · exact (ih h hb).append_left _

/-! ### digits -/

theorem l2s_natBytes_digits (n : Nat) : ∀ d ∈ (natBytes n).toList, isDigitB d = true := by
  have := repr_all_digits n
  rw [List.all_eq_true] at this
  exact this

theorem l2s_natBytes_pos (n : Nat) : 0 < (natBytes n).size := repr_size_pos n

/-- the byte string is empty or starts with a byte that is not a digit -/
def L2sNoDigitStart (c : Bytes) : Prop := isDigitB (c.getD 0 0) = false

theorem l2s_noDigitStart_empty : L2sNoDigitStart #[] := by unfold L2sNoDigitStart; decide

theorem l2s_noDigitStart_append {x y : Bytes} (hx : L2sNoDigitStart x) (hy : L2sNoDigitStart y) :
    L2sNoDigitStart (x ++ y) := by
  unfold L2sNoDigitStart at *
  by_cases h : 0 < x.size
  · have : (x ++ y).getD 0 0 = x.getD 0 0 := by
      simp [Array.getD, Array.size_append, h, Array.getElem_append_left h]
      intro hx0; subst hx0; simp at h
    rw [this]; exact hx
  · have hx0 : x = #[] := by
      apply Array.eq_empty_of_size_eq_zero; omega
    subst hx0
    simpa using hy

theorem l2s_noDigitStart_append_of_pos {x y : Bytes} (hx : L2sNoDigitStart x) (hpos : 0 < x.size) :
    L2sNoDigitStart (x ++ y) := by
  unfold L2sNoDigitStart at *
  have : (x ++ y).getD 0 0 = x.getD 0 0 := by
    simp [Array.getD, Array.size_append, hpos, Array.getElem_append_left hpos]
    intro hx0; subst hx0; simp at hpos
  rw [this]; exact hx

theorem l2s_noDigitStart_concat : ∀ (l : List Bytes), (∀ b ∈ l, L2sNoDigitStart b) →
    L2sNoDigitStart (concatBytes l) := by
  intro l
  induction l with
  | nil => intro _; exact l2s_noDigitStart_empty
  | cons x xs ih =>
    intro h
    rw [concatBytes_cons]
    exact l2s_noDigitStart_append (h x List.mem_cons_self) (ih fun b hb => h b (List.mem_cons_of_mem _ hb))

theorem l2s_takeWhile_noDigitStart {c : Bytes} (h : L2sNoDigitStart c) : c.toList.takeWhile isDigitB = [] := by
  obtain ⟨l⟩ := c
  cases l with
  | nil => rfl
  | cons x xs =>
    have : isDigitB x = false := by simpa [L2sNoDigitStart] using h
    simp [List.takeWhile, this]

theorem l2s_takeWhile_digits {ds : List UInt8} {c : Bytes} (hd : ∀ d ∈ ds, isDigitB d = true)
    (hc : L2sNoDigitStart c) : (ds ++ c.toList).takeWhile isDigitB = ds := by
  induction ds with
  | nil => simpa using l2s_takeWhile_noDigitStart hc
  | cons d rest ih =>
    simp only [List.cons_append, List.takeWhile, hd d List.mem_cons_self]
    rw [ih fun x hx => hd x (List.mem_cons_of_mem _ hx)]

/-! ### `placeholderAt` -/

theorem l2s_extract_tail (x y : Bytes) : (x ++ y).extract x.size (x ++ y).size = y := by
  apply Array.ext'
  simp

/-- a rendered placeholder followed by something that does not start with a digit is read
    back exactly -/
theorem l2s_placeholderAt (a c : Bytes) (n : Nat) (hc : L2sNoDigitStart c) :
    placeholderAt (a ++ (bs "@sqlair_" ++ natBytes n) ++ c) a.size =
      some (a.size + (bs "@sqlair_" ++ natBytes n).size) := by
  unfold placeholderAt
  simp only
  have hsql : a ++ (bs "@sqlair_" ++ natBytes n) ++ c = a ++ bs "@sqlair_" ++ (natBytes n ++ c) := by
    simp [Array.append_assoc]
  have hpre : (a ++ (bs "@sqlair_" ++ natBytes n) ++ c).hasPrefixAt a.size (bs "@sqlair_") = true := by
    rw [hsql]; exact l2s_hasPrefixAt_mid _ _ _
  rw [if_pos hpre]
  have hex : (a ++ (bs "@sqlair_" ++ natBytes n) ++ c).extract (a.size + (bs "@sqlair_").size)
      (a ++ (bs "@sqlair_" ++ natBytes n) ++ c).size = natBytes n ++ c := by
    rw [hsql]
    have := l2s_extract_tail (a ++ bs "@sqlair_") (natBytes n ++ c)
    rwa [Array.size_append] at this
  rw [hex, Array.toList_append, l2s_takeWhile_digits (l2s_natBytes_digits n) hc]
  have hne : (natBytes n).toList.isEmpty = false := by
    have := l2s_natBytes_pos n
    cases h : (natBytes n).toList with
    | nil => rw [← Array.length_toList, h] at this; cases this
    | cons _ _ => rfl
  rw [hne]
  simp [Array.size_append, Nat.add_assoc]

end Sqlair
