/-
  Store: a toy relational store (DESIGN §5 C17) that executes the structured pieces the
  query builder generates: `(cols) VALUES (..), (..)` with named parameters appends rows,
  `col AS alias, …` reads them back.  SQLite itself is not modelled; that the engine
  accepts every generated statement and agrees with hand-written SQL is observed by the
  `sqlite` layer.
-/
import SqlairModel.Bind

namespace Sqlair

/-- a stored row: column ↦ value text -/
abbrev SRow := List (Bytes × String)

def paramValue (params : List (Nat × String)) (n : Nat) : Option String :=
  (params.find? (·.1 == n)).map (·.2)

/-- the value a cell stands for; literal SQL text is outside the store's language -/
def cellValue (params : List (Nat × String)) : Cell → Option String
  | .ph n => paramValue params n
  | .lit _ => none

/-- one tuple of an insert: pairs the column list with the cell values -/
def insertTuple (params : List (Nat × String)) : List Bytes → List Cell → Option SRow
  | [], [] => some []
  | c :: cs, x :: xs =>
    match cellValue params x, insertTuple params cs xs with
    | some v, some rest => some ((c, v) :: rest)
    | _, _ => none
  | _, _ => none          -- not rectangular: the engine rejects the statement

/-- `INSERT INTO t (cols) VALUES rows` with the named parameters -/
def execInsert (cols : List Bytes) (rows : List (List Cell)) (params : List (Nat × String)) : Option (List SRow) :=
  rows.mapM (insertTuple params cols)

def rowGet (r : SRow) (c : Bytes) : Option String := (r.find? (·.1 == c)).map (·.2)

/-- `SELECT col AS alias, …`: per requested column the stored value, `none` = NULL for a
    column the insert did not write -/
def selectRow (cols : List Bytes) (r : SRow) : List (Option String) := cols.map (rowGet r)

end Sqlair
