/-
  Typed/ColInsert: exact acceptance condition of the two steps of
  `columnsInsertExpr.bindTypes` in terms of the declarative provider rule `providers`.
-/
import SqlairProofs.Typed.Loops

namespace Sqlair

/-! ### the provider table as a function -/

/-- the provider list of column `k` in the table -/
def provGet (prov : List (Bytes × List Loc)) (k : Bytes) : List Loc :=
  match prov.find? (·.1 == k) with
  | some p => p.2
  | none => []

def ProvNoEmpty (prov : List (Bytes × List Loc)) : Prop := ∀ p ∈ prov, p.2 ≠ []

theorem provGet_nil (k : Bytes) : provGet [] k = [] := rfl

theorem provGet_cons (p : Bytes × List Loc) (m : List (Bytes × List Loc)) (k : Bytes) :
    provGet (p :: m) k = if p.1 = k then p.2 else provGet m k := by
  unfold provGet
  rw [List.find?_cons]
  by_cases h : p.1 = k
  · simp [h]
  · have : (p.1 == k) = false := by simpa using h
    simp [this, h]

private theorem provGet_map (k : Bytes) (g : List Loc → List Loc) (k' : Bytes) :
    ∀ (m : List (Bytes × List Loc)),
    provGet (m.map fun p => if p.1 == k then (k, g p.2) else p) k' =
      if k' = k then (if m.any (·.1 == k) then g (provGet m k) else []) else provGet m k' := by
  intro m
  induction m with
  | nil => simp [provGet_nil]
  | cons p rest ih =>
    rw [List.map_cons, provGet_cons, ih, List.any_cons, provGet_cons, provGet_cons]
    by_cases hpk : p.1 = k
    · by_cases hkk : k' = k
      · subst hkk; simp [hpk]
      · have : ¬ k = k' := fun h => hkk h.symm
        simp [hpk, hkk, this]
    · have hpk' : (p.1 == k) = false := by simpa using hpk
      by_cases hkk : k' = k
      · subst hkk; rw [hpk', Bool.false_or]; simp [hpk]
      · simp [hpk', hkk]

private theorem provGet_snoc (m : List (Bytes × List Loc)) (k : Bytes) (ls : List Loc) (k' : Bytes)
    (h : m.any (·.1 == k) = false) :
    provGet (m ++ [(k, ls)]) k' = if k' = k then ls else provGet m k' := by
  induction m with
  | nil =>
    rw [List.nil_append, provGet_cons, provGet_nil]
    by_cases hkk : k' = k
    · simp [hkk]
    · have : ¬ k = k' := fun h => hkk h.symm
      simp [hkk, this]
  | cons p rest ih =>
    rw [List.any_cons, Bool.or_eq_false_iff] at h
    rw [List.cons_append, provGet_cons, provGet_cons, ih h.2]
    have hpk : ¬ p.1 = k := by simpa using h.1
    by_cases hkk : k' = k
    · subst hkk; simp [hpk]
    · simp [hkk]

private theorem provGet_of_any_false {m : List (Bytes × List Loc)} {k : Bytes}
    (h : m.any (·.1 == k) = false) : provGet m k = [] := by
  unfold provGet
  have : m.find? (·.1 == k) = none := by
    rw [List.find?_eq_none]
    intro p hp
    have := List.any_eq_false.1 h p hp
    simpa using this
  rw [this]

theorem provGet_assign (m : List (Bytes × List Loc)) (k : Bytes) (l : Loc) (k' : Bytes) :
    provGet (provAssign m k l) k' = if k' = k then [l] else provGet m k' := by
  unfold provAssign
  by_cases h : m.any (·.1 == k) = true
  · rw [if_pos h]
    have := provGet_map k (fun _ => [l]) k' m
    simp only [h, if_true] at this
    exact this
  · have h' : m.any (·.1 == k) = false := Bool.eq_false_iff.2 h
    rw [if_neg h, provGet_snoc m k [l] k' h']

theorem provGet_append (m : List (Bytes × List Loc)) (k : Bytes) (l : Loc) (k' : Bytes) :
    provGet (provAppend m k l) k' = if k' = k then provGet m k ++ [l] else provGet m k' := by
  unfold provAppend
  by_cases h : m.any (·.1 == k) = true
  · rw [if_pos h]
    have := provGet_map k (fun ls => ls ++ [l]) k' m
    simp only [h, if_true] at this
    exact this
  · have h' : m.any (·.1 == k) = false := Bool.eq_false_iff.2 h
    rw [if_neg h, provGet_snoc m k [l] k' h', provGet_of_any_false h']
    rfl

theorem ProvNoEmpty.assign {m : List (Bytes × List Loc)} (h : ProvNoEmpty m) (k : Bytes) (l : Loc) :
    ProvNoEmpty (provAssign m k l) := by
  unfold provAssign
  intro p hp
  split at hp
  · obtain ⟨q, hq, rfl⟩ := List.mem_map.1 hp
    split
    · simp
    · exact h q hq
  · rcases List.mem_append.1 hp with hp | hp
    · exact h p hp
    · simp only [List.mem_singleton] at hp; subst hp; simp

theorem ProvNoEmpty.append {m : List (Bytes × List Loc)} (h : ProvNoEmpty m) (k : Bytes) (l : Loc) :
    ProvNoEmpty (provAppend m k l) := by
  unfold provAppend
  intro p hp
  split at hp
  · obtain ⟨q, hq, rfl⟩ := List.mem_map.1 hp
    split
    · simp
    · exact h q hq
  · rcases List.mem_append.1 hp with hp | hp
    · exact h p hp
    · simp only [List.mem_singleton] at hp; subst hp; simp

/-- appending all members of an asterisk struct -/
theorem provAppend_foldl_spec : ∀ (ms : List (Loc × Bytes)) (m : List (Bytes × List Loc)),
    ProvNoEmpty m →
    ProvNoEmpty (ms.foldl (fun pr (l, tag) => provAppend pr tag l) m) ∧
    ∀ k, (provGet (ms.foldl (fun pr (l, tag) => provAppend pr tag l) m) k).length =
      (provGet m k).length + ((ms.map (·.2)).filter (· == k)).length := by
  intro ms
  induction ms with
  | nil => intro m h; exact ⟨h, by simp⟩
  | cons p rest ih =>
    intro m h
    obtain ⟨l, tag⟩ := p
    rw [List.foldl_cons]
    obtain ⟨ih1, ih2⟩ := ih (provAppend m tag l) (h.append tag l)
    refine ⟨ih1, ?_⟩
    intro k
    rw [ih2 k, provGet_append, List.map_cons, List.filter_cons]
    by_cases hk : k = tag
    · subst hk; simp; omega
    · have : (tag == k) = false := by simpa using fun h => hk h.symm
      simp [hk, this]

theorem find?_none_iff_provGet {prov : List (Bytes × List Loc)} (h : ProvNoEmpty prov) (k : Bytes) :
    prov.find? (·.1 == k) = none ↔ provGet prov k = [] := by
  unfold provGet
  cases hf : prov.find? (·.1 == k) with
  | none => simp
  | some p =>
    simp only [reduceCtorEq, false_iff]
    exact h p (List.mem_of_find?_eq_some hf)

/-! ### step 1: the providers -/

theorem starMaps_cons (infos : List (Bytes × ArgInfo)) (a : Acc) (rest : List Acc) :
    starMaps infos (a :: rest) =
      if a.member = star ∧ isMapInfo (lookupInfo infos a.ty) = true then a :: starMaps infos rest
      else starMaps infos rest := by
  unfold starMaps
  rw [List.filter_cons]
  by_cases h : a.member = star ∧ isMapInfo (lookupInfo infos a.ty) = true
  · simp [h]
  · rw [if_neg h, if_neg]
    simpa using h

theorem isMapInfo_false_of_starOK {infos : List (Bytes × ArgInfo)} {T : Bytes} (h : StarOK infos T) :
    isMapInfo (lookupInfo infos T) = false := by
  obtain ⟨tid, n, fields, tags, hl, _⟩ := h
  rw [hl]; rfl

theorem colInsertProviders_spec : ∀ (srcs : List Acc) (st : TEB) (prov : List (Bytes × List Loc))
    (rem : Option Bytes) (g : Bytes → List Acc),
    ProvNoEmpty prov → (∀ k, (provGet prov k).length = (g k).length) →
    ((∃ r, colInsertProviders st srcs prov rem = .ok r) ↔
      (∀ a ∈ srcs, SrcOK st.argInfos a) ∧
        (starMaps st.argInfos srcs).length + (if rem.isSome then 1 else 0) ≤ 1) ∧
    ∀ prov' rem' st', colInsertProviders st srcs prov rem = .ok ((prov', rem'), st') →
      Grows st st' (srcs.map (·.ty)) [] ∧ ProvNoEmpty prov' ∧
      (∀ k, (provGet prov' k).length = (srcs.foldl (provStep st.argInfos k) (g k)).length) ∧
      (rem' = none ↔ rem = none ∧ starMaps st.argInfos srcs = []) ∧
      (∀ m, rem' = some m → isMapInfo (lookupInfo st.argInfos m) = true ∧ m ∈ srcs.map (·.ty) ∨ rem = some m) := by
  intro srcs
  induction srcs with
  | nil =>
    intro st prov rem g hne hlen
    simp only [colInsertProviders, Except.ok.injEq, exists_eq', List.not_mem_nil, false_imp_iff, implies_true,
      true_and, Prod.mk.injEq, List.map_nil, starMaps, List.filter_nil, List.length_nil, Nat.zero_add,
      List.foldl_nil, true_iff, and_true]
    refine ⟨by split <;> omega, ?_⟩
    rintro prov' rem' st' ⟨⟨rfl, rfl⟩, rfl⟩
    exact ⟨Grows.refl st, hne, hlen, Iff.rfl, fun m hm => Or.inr hm⟩
  | cons src rest ih =>
    intro st prov rem g hne hlen
    simp only [colInsertProviders, List.forall_mem_cons, List.map_cons, List.foldl_cons]
    rw [starMaps_cons]
    by_cases hs : src.member = star
    · simp only [hs, beq_self_eq_true, if_true, true_and]
      rw [getArg_eq]
      have hsrc : SrcOK st.argInfos src ↔
          (isMapInfo (lookupInfo st.argInfos src.ty) = true ∨ StarOK st.argInfos src.ty) := by
        simp [SrcOK, hs]
      rw [hsrc]
      cases hl : lookupInfo st.argInfos src.ty with
      | none =>
        simp only [isMapInfo, Bool.false_eq_true, false_or, reduceCtorEq, exists_false, false_iff,
          false_imp_iff, implies_true, and_true, not_and]
        intro h
        obtain ⟨_, _, _, _, h', _⟩ := h.1
        rw [hl] at h'; cases h'
      | some ai =>
        have hgrow := Grows.use st src.ty
        -- the new accumulator of the specification
        have hstep : ∀ (k : Bytes), provStep st.argInfos k (g k) src =
            g k ++ ((starTagsOf st.argInfos src.ty).filter (· == k)).map (fun _ => src) := by
          intro k; simp [provStep, hs]
        cases ai with
        | map tid n =>
          simp only [isMapInfo, true_or, true_and, if_true]
          have htags : starTagsOf st.argInfos src.ty = [] := by simp [starTagsOf, hl, ArgInfo.starTags]
          by_cases hr : rem.isSome = true
          · simp only [hr, if_true, reduceCtorEq, exists_false, false_iff, false_imp_iff, implies_true,
              and_true, List.length_cons, not_and]
            intro _; omega
          · simp only [hr, Bool.false_eq_true, if_false]
            have hrn : rem = none := by simpa using hr
            obtain ⟨ih1, ih2⟩ := ih (st.use src.ty) prov (some src.ty) g hne hlen
            simp only [TEB.use_argInfos, Option.isSome_some, if_true] at ih1 ih2
            refine ⟨?_, ?_⟩
            · rw [ih1]; simp only [List.length_cons, Nat.add_zero]
            · intro prov' rem' st' h
              obtain ⟨h1, h2, h3, h4, h5⟩ := ih2 prov' rem' st' h
              refine ⟨by simpa using hgrow.trans h1, h2, ?_, ?_, ?_⟩
              · intro k; rw [h3 k, hstep k, htags]; simp
              · simp only [reduceCtorEq, false_and, iff_false] at h4
                simp [h4]
              · intro m hm
                rcases h5 m hm with h5 | h5
                · exact Or.inl ⟨h5.1, List.mem_cons_of_mem _ h5.2⟩
                · cases h5
                  refine Or.inl ⟨by rw [hl], by simp⟩
        | struct tid n fields tags =>
          simp only [isMapInfo, Bool.false_eq_true, false_or, if_false]
          have hinfos : (st.use src.ty).argInfos = st.argInfos := rfl
          have hiff := allStructInputs_ok_iff (st := st.use src.ty) (T := src.ty)
          rw [hinfos] at hiff
          rw [← hiff]
          cases ha : allStructInputs (st.use src.ty) src.ty with
          | error e => simp
          | ok r1 =>
            obtain ⟨ms, st2⟩ := r1
            obtain ⟨hg2, hms⟩ := allStructInputs_grows ha
            rw [hinfos] at hms
            obtain ⟨hne1, hlen1⟩ := provAppend_foldl_spec ms prov hne
            obtain ⟨ih1, ih2⟩ := ih st2 _ rem (fun k => provStep st.argInfos k (g k) src) hne1 (by
              intro k
              rw [hlen1 k, hstep k, hms, hlen k]; simp)
            have hi2 : st2.argInfos = st.argInfos := hg2.infos
            rw [hi2] at ih1 ih2
            simp only [Except.ok.injEq, exists_eq', true_and]
            refine ⟨ih1, ?_⟩
            intro prov' rem' st' h
            obtain ⟨h1, h2, h3, h4, h5⟩ := ih2 prov' rem' st' h
            refine ⟨((hgrow.trans hg2).trans h1).congr (by simp) (by simp), h2, h3, h4, ?_⟩
            intro m hm
            rcases h5 m hm with h5 | h5
            · exact Or.inl ⟨h5.1, List.mem_cons_of_mem _ h5.2⟩
            · exact Or.inr h5
        | slice tid n =>
          simp only [isMapInfo, Bool.false_eq_true, false_or, if_false]
          have hinfos : (st.use src.ty).argInfos = st.argInfos := rfl
          have hiff := allStructInputs_ok_iff (st := st.use src.ty) (T := src.ty)
          rw [hinfos] at hiff
          rw [← hiff]
          cases ha : allStructInputs (st.use src.ty) src.ty with
          | error e => simp
          | ok r1 =>
            exfalso
            obtain ⟨_, _, _, _, h', _⟩ := hiff.1 ⟨_, ha⟩
            rw [hl] at h'; cases h'
    · have hs' : (src.member == star) = false := by simpa using hs
      simp only [hs', Bool.false_eq_true, if_false, hs, false_and]
      have hsrc : SrcOK st.argInfos src ↔ MemberOK st.argInfos src.ty src.member := by
        simp [SrcOK, hs]
      rw [hsrc, ← inputMember_ok_iff]
      cases h : inputMember st src.ty src.member with
      | error e => simp
      | ok r1 =>
        obtain ⟨l, st1⟩ := r1
        have hg := inputMember_grows h
        obtain ⟨ih1, ih2⟩ := ih st1 (provAssign prov src.member l) rem
          (fun k => provStep st.argInfos k (g k) src) (hne.assign _ _) (by
            intro k
            rw [provGet_assign]
            simp only [provStep, hs, if_false]
            by_cases hk : k = src.member
            · subst hk; simp
            · have : ¬ src.member = k := fun h => hk h.symm
              simp [hk, this, hlen k])
        rw [hg.infos] at ih1 ih2
        simp only [Except.ok.injEq, exists_eq', true_and]
        refine ⟨ih1, ?_⟩
        intro prov' rem' st' h'
        obtain ⟨h1, h2, h3, h4, h5⟩ := ih2 prov' rem' st' h'
        refine ⟨hg.trans h1, h2, h3, h4, ?_⟩
        intro m hm
        rcases h5 m hm with h5 | h5
        · exact Or.inl ⟨h5.1, List.mem_cons_of_mem _ h5.2⟩
        · exact Or.inr h5

/-! ### step 2: the listed columns -/

theorem colInsertCols_spec (prov : List (Bytes × List Loc)) (rem : Option Bytes) (hne : ProvNoEmpty prov) :
    ∀ (cs : List Col) (st : TEB) (cols : List TCol),
    (∀ m, rem = some m → isMapInfo (lookupInfo st.argInfos m) = true) →
    ((∃ r, colInsertCols prov rem st cs cols = .ok r) ↔
      ∀ c ∈ cs, (provGet prov c.str).length = 1 ∨ (provGet prov c.str = [] ∧ rem ≠ none)) ∧
    ∀ r st', colInsertCols prov rem st cs cols = .ok (r, st') →
      st'.argInfos = st.argInfos ∧ st'.outputUsed = st.outputUsed ∧
      (∀ n, n ∈ st'.argUsed ↔ n ∈ st.argUsed ∨ (n ∈ st'.argUsed ∧ rem = some n)) := by
  intro cs
  induction cs with
  | nil =>
    intro st cols hrem
    simp only [colInsertCols, Except.ok.injEq, exists_eq', List.not_mem_nil, false_imp_iff, implies_true,
      true_and, Prod.mk.injEq]
    rintro r st' ⟨_, rfl⟩
    exact ⟨rfl, rfl, fun n => ⟨Or.inl, fun h => h.elim id (·.1)⟩⟩
  | cons c rest ih =>
    intro st cols hrem
    simp only [colInsertCols, List.forall_mem_cons]
    cases hf : prov.find? (·.1 == c.str) with
    | some p =>
      obtain ⟨k, ls⟩ := p
      have hget : provGet prov c.str = ls := by simp [provGet, hf]
      have hls : ls ≠ [] := hne _ (List.mem_of_find?_eq_some hf)
      rw [hget]
      cases ls with
      | nil => exact absurd rfl hls
      | cons l tl =>
        cases tl with
        | nil =>
          simp only [List.length_cons, List.length_nil, Nat.zero_add, true_or, true_and]
          exact ih st _ hrem
        | cons l2 tl2 =>
          simp only [reduceCtorEq, exists_false, List.length_cons, false_iff, false_imp_iff, implies_true,
            and_true, not_and]
          intro h
          rcases h with h | h
          · omega
          · cases h.1
    | none =>
      have hget : provGet prov c.str = [] := (find?_none_iff_provGet hne _).1 hf
      rw [hget]
      cases rem with
      | none => simp
      | some m =>
        simp only [List.length_nil, Nat.zero_ne_one, false_or, ne_eq, reduceCtorEq, not_false_eq_true,
          and_self, true_and]
        have hmap := hrem m rfl
        have hok : ∃ r, inputMember st m c.str = .ok r := by
          rw [inputMember_ok_iff]
          cases hl : lookupInfo st.argInfos m with
          | none => rw [hl] at hmap; cases hmap
          | some ai =>
            cases ai with
            | map tid n => exact ⟨_, hl, trivial⟩
            | struct => rw [hl] at hmap; cases hmap
            | slice => rw [hl] at hmap; cases hmap
        obtain ⟨⟨l, st1⟩, h1⟩ := hok
        have hg := inputMember_grows h1
        simp only [h1]
        obtain ⟨ih1, ih2⟩ := ih st1 (cols ++ [TCol.insert l c.str true]) (by rw [hg.infos]; exact hrem)
        refine ⟨by simpa using ih1, ?_⟩
        intro r st' h'
        obtain ⟨h2, h3, h4⟩ := ih2 r st' h'
        refine ⟨h2.trans hg.infos, h3.trans ?_, ?_⟩
        · have := hg.outs
          -- outputUsed is untouched by `inputMember`
          unfold inputMember at h1
          rw [getArg_eq] at h1
          cases hl : lookupInfo st.argInfos m with
          | none => simp [hl] at h1
          | some a =>
            simp only [hl] at h1
            split at h1
            · cases h1
            · cases h1; rfl
        · intro n
          constructor
          · intro hn
            rcases (h4 n).1 hn with h | h
            · rcases (hg.used n).1 h with h | h
              · exact Or.inl h
              · simp only [List.mem_singleton] at h
                subst h
                exact Or.inr ⟨hn, rfl⟩
            · exact Or.inr h
          · rintro (h | h)
            · exact (h4 n).2 (Or.inl ((hg.used n).2 (Or.inl h)))
            · exact h.1

end Sqlair
