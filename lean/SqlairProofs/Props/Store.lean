/-
  C17 (store half): what an insert expansion writes is what a select of the same columns
  reads back, row by row, column by column; columns not written read back as NULL.
-/
import SqlairModel.Store

namespace Sqlair

theorem insertTuple_length {params : List (Nat × String)} :
    ∀ {cols : List Bytes} {cells : List Cell} {r : SRow},
      insertTuple params cols cells = some r → cells.length = cols.length ∧ r.map (·.1) = cols := by
  intro cols
  induction cols with
  | nil =>
    intro cells r h
    cases cells with
    | nil => simp [insertTuple] at h; subst h; simp
    | cons x xs => simp [insertTuple] at h
  | cons c cs ih =>
    intro cells r h
    cases cells with
    | nil => simp [insertTuple] at h
    | cons x xs =>
      unfold insertTuple at h
      split at h
      · next v rest hv hrest =>
        injection h with h; subst h
        have := ih hrest
        simp [this.1, this.2]
      · cases h

/-- the engine model accepts an insert tuple only if it is rectangular (C04's theorem
    `insert_rectangular` says the generated ones are) -/
theorem execInsert_rectangular {cols : List Bytes} {rows : List (List Cell)} {params : List (Nat × String)}
    {stored : List SRow} (h : execInsert cols rows params = some stored) :
    ∀ r ∈ rows, r.length = cols.length := by
  unfold execInsert at h
  intro r hr
  induction rows generalizing stored with
  | nil => cases hr
  | cons x xs ih =>
    rw [List.mapM_cons] at h
    cases hx : insertTuple params cols x with
    | none => simp [hx] at h
    | some rx =>
      cases hxs : xs.mapM (insertTuple params cols) with
      | none => simp [hx, hxs] at h
      | some rest =>
        cases hr with
        | head => exact (insertTuple_length hx).1
        | tail _ hr' => exact ih hxs hr'

theorem rowGet_cons_self (c : Bytes) (v : String) (rest : SRow) : rowGet ((c, v) :: rest) c = some v := by
  simp [rowGet, List.find?]

theorem rowGet_cons_ne {c c' : Bytes} (v : String) (rest : SRow) (h : c' ≠ c) :
    rowGet ((c', v) :: rest) c = rowGet rest c := by
  have : (c' == c) = false := by simpa using h
  simp [rowGet, List.find?, this]

/-- reading back the columns of one inserted tuple gives the cell values, in column order -/
theorem selectRow_insertTuple {params : List (Nat × String)} :
    ∀ {cols : List Bytes} {cells : List Cell} {r : SRow}, cols.Nodup →
      insertTuple params cols cells = some r →
      selectRow cols r = cells.map (cellValue params) := by
  intro cols
  induction cols with
  | nil =>
    intro cells r _ h
    cases cells with
    | nil => simp [selectRow]
    | cons x xs => simp [insertTuple] at h
  | cons c cs ih =>
    intro cells r hnd h
    cases cells with
    | nil => simp [insertTuple] at h
    | cons x xs =>
      unfold insertTuple at h
      split at h
      · next v rest hv hrest =>
        injection h with h; subst h
        have hnd' := List.nodup_cons.mp hnd
        have ihr := ih hnd'.2 hrest
        have hkeys := (insertTuple_length hrest).2
        simp only [selectRow, List.map_cons, rowGet_cons_self, hv]
        congr 1
        -- the remaining columns differ from c, so the head entry is skipped
        have : ∀ c' ∈ cs, rowGet ((c, v) :: rest) c' = rowGet rest c' := by
          intro c' hc'
          apply rowGet_cons_ne
          intro heq; subst heq; exact hnd'.1 hc'
        rw [← ihr]
        simp only [selectRow]
        exact List.map_congr_left this
      · cases h

/-- C17, store half: every inserted tuple reads back as written -/
theorem store_roundtrip {cols : List Bytes} {rows : List (List Cell)} {params : List (Nat × String)}
    {stored : List SRow} (hnd : cols.Nodup) (h : execInsert cols rows params = some stored) :
    stored.map (selectRow cols) = rows.map (fun r => r.map (cellValue params)) := by
  unfold execInsert at h
  induction rows generalizing stored with
  | nil => simp at h; subst h; rfl
  | cons x xs ih =>
    rw [List.mapM_cons] at h
    cases hx : insertTuple params cols x with
    | none => simp [hx] at h
    | some rx =>
      cases hxs : xs.mapM (insertTuple params cols) with
      | none => simp [hx, hxs] at h
      | some rest =>
        simp [hx, hxs] at h
        subst h
        simp only [List.map_cons]
        rw [selectRow_insertTuple hnd hx, ih hxs]

/-- a column the insert did not write reads back as NULL -/
theorem unwritten_column_is_null {params : List (Nat × String)} {cols : List Bytes} {cells : List Cell} {r : SRow}
    (h : insertTuple params cols cells = some r) {c : Bytes} (hc : c ∉ cols) : rowGet r c = none := by
  have hk := (insertTuple_length h).2
  unfold rowGet
  have : r.find? (·.1 == c) = none := by
    rw [List.find?_eq_none]
    intro p hp
    have : p.1 ∈ cols := by rw [← hk]; exact List.mem_map_of_mem hp
    intro heq
    have : p.1 = c := by simpa using heq
    subst this; exact hc ‹_›
  simp [this]

/-- non-vacuity: a two-row insert of two columns with three parameters round-trips -/
example :
    let cols : List Bytes := [#[97], #[98]]
    let rows : List (List Cell) := [[.ph 0, .ph 1], [.ph 0, .ph 2]]
    let params := [(0, "int64:1"), (1, "string:x"), (2, "string:y")]
    (execInsert cols rows params).map (fun st => st.map (selectRow cols)) =
      some [[some "int64:1", some "string:x"], [some "int64:1", some "string:y"]] := by
  decide

end Sqlair
