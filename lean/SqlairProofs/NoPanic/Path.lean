/-
  NoPanic/Path: the index paths computed by `getStructFields` follow the type table
  (`getStructFields_paths`), and `fieldByIndex` along such a path on a well-formed value
  never panics (`fieldByIndex_wf`): it finds a well-formed value or stops at a nil
  embedded pointer.
-/
import SqlairProofs.NoPanic.ValWF

namespace Sqlair

/-! ### `getStructFields` computes paths of the table -/

theorem fieldsLoop_paths {C : Cls} {tt : TypeTable} (sid : Nat) (recur : Nat → Except String (List SField))
    (hrec : ∀ stid fs, recur stid = .ok fs → ∀ f ∈ fs, PathOK tt stid f.index) :
    ∀ (fds : List FieldDesc) (i : Nat) (acc res : List SField),
      (∀ k fd, fds[k]? = some fd → (tt.get sid).fields[i + k]? = some fd) →
      fieldsLoop C tt recur fds i acc = .ok res →
      (∀ f ∈ acc, PathOK tt sid f.index) → ∀ f ∈ res, PathOK tt sid f.index := by
  intro fds
  induction fds with
  | nil => intro i acc res _ h hacc; simp only [fieldsLoop] at h; cases h; exact hacc
  | cons fd rest ih =>
    intro i acc res hpos h hacc
    have hfd : (tt.get sid).fields[i]? = some fd := by simpa using hpos 0 fd (by simp)
    have hpos' : ∀ k fd', rest[k]? = some fd' → (tt.get sid).fields[i + 1 + k]? = some fd' := by
      intro k fd' hk
      have := hpos (k + 1) fd' (by simpa using hk)
      rwa [show i + (k + 1) = i + 1 + k by omega] at this
    simp only [fieldsLoop] at h
    change (if (fd.anon && fd.tag.size == 0) = true then
        if (!fd.exported) = true then fieldsLoop C tt recur rest (i + 1) acc
        else if ((tt.get (npEmbTarget tt fd.ty)).kind != Kind.struct) = true then
          fieldsLoop C tt recur rest (i + 1) acc
        else match recur (npEmbTarget tt fd.ty) with
          | .error e => .error e
          | .ok nested =>
            fieldsLoop C tt recur rest (i + 1)
              (acc ++ nested.map (fun nf => { nf with index := i :: nf.index }))
      else _) = _ at h
    split at h
    · split at h
      · exact ih _ _ _ hpos' h hacc
      · split at h
        · exact ih _ _ _ hpos' h hacc
        · rename_i hks
          have hks' : (tt.get (npEmbTarget tt fd.ty)).kind = .struct := by simpa using hks
          split at h
          · cases h
          · rename_i nested hr
            refine ih _ _ _ hpos' h ?_
            intro f hf
            rcases List.mem_append.1 hf with hf | hf
            · exact hacc f hf
            · simp only [List.mem_map] at hf
              obtain ⟨nf, hnf, rfl⟩ := hf
              exact ⟨fd, hfd, Or.inr ⟨hks', hrec _ _ hr nf hnf⟩⟩
    · split at h
      · exact ih _ _ _ hpos' h hacc
      · split at h
        · cases h
        · split at h
          · cases h
          · refine ih _ _ _ hpos' h ?_
            intro f hf
            rcases List.mem_append.1 hf with hf | hf
            · exact hacc f hf
            · simp only [List.mem_singleton] at hf
              subst hf
              exact ⟨fd, hfd, Or.inl rfl⟩

/-- every index path computed by `getStructFields` for the type `tid` follows the table
    from `tid` -/
theorem getStructFields_paths {C : Cls} {tt : TypeTable} :
    ∀ (fuel : Nat) (visiting : List Nat) (tid : Nat) (fs : List SField),
      getStructFields C tt fuel visiting tid = .ok fs → ∀ f ∈ fs, PathOK tt tid f.index := by
  intro fuel
  induction fuel with
  | zero => intro visiting tid fs h; simp only [getStructFields] at h; cases h
  | succ n ih =>
    intro visiting tid fs h
    simp only [getStructFields] at h
    split at h
    · cases h
    · exact fieldsLoop_paths tid _ (fun stid fs' hr => ih _ _ _ hr) _ _ _ _
        (fun k fd hk => by simpa using hk) h (by intro f hf; cases hf)

/-! ### `fieldByIndex` on well-formed values -/

/-- the second half of one step of `fieldByIndex` (after the optional dereference) -/
def fbiStep (i : Nat) (rest : List Nat) (v1 : Except String GoVal) : Except String GoVal :=
  match v1 with
  | .error e => .error e
  | .ok (.struct _ fs) =>
    match fs[i]? with
    | some f => fieldByIndex f rest false
    | none => .error "panic-field-index"
  | .ok _ => .error "panic-field-of-non-struct"

/-- the first half: dereference an embedded pointer, except at the first step -/
def fbiDeref (v : GoVal) (first : Bool) : Except String GoVal :=
  if first then .ok v else
  match v with
  | .ptr _ none => .error "nil-embedded-pointer"
  | .ptr _ (some p) => .ok p
  | v => .ok v

theorem fieldByIndex_cons (v : GoVal) (i : Nat) (rest : List Nat) (first : Bool) :
    fieldByIndex v (i :: rest) first = fbiStep i rest (fbiDeref v first) := by
  cases v with
  | ptr h p => cases p <;> rfl
  | _ => rfl

/-- `fieldByIndex` along a path of the table, on a well-formed value whose type is the struct
    type `sid` or (not at the first step) a pointer to it: a well-formed value, or the
    nil-embedded-pointer error -/
theorem fieldByIndex_wf_aux {tt : TypeTable} : ∀ (path : List Nat) (v : GoVal) (sid : Nat) (first : Bool),
    ValWF tt v → npEmbTarget tt v.tid = sid → (first = true → (tt.get v.tid).kind ≠ .ptr) →
    (path ≠ [] → (tt.get sid).kind = .struct) → PathOK tt sid path →
    (∃ r, fieldByIndex v path first = .ok r ∧ ValWF tt r) ∨
      fieldByIndex v path first = .error "nil-embedded-pointer" := by
  intro path
  induction path with
  | nil => intro v sid first hv _ _ _ _; exact Or.inl ⟨v, by simp [fieldByIndex], hv⟩
  | cons i rest ih =>
    intro v sid first hv hemb hfirst hks hpath
    have hks := hks (by simp)
    obtain ⟨fd, hfd, hrest⟩ := hpath
    -- the struct node reached after the optional dereference
    have key : ∀ (s : GoVal), ValWF tt s → s.tid = sid →
        (∃ r, fbiStep i rest (.ok s) = .ok r ∧ ValWF tt r) ∨
        fbiStep i rest (.ok s) = .error "nil-embedded-pointer" := by
      intro s hs hst
      obtain ⟨hd, fs, rfl, hlen, hty, hwf⟩ := hs.struct_inv (by rw [hst]; exact hks)
      have hst' : hd.t = sid := hst
      have hi : i < fs.length := by
        rw [hlen, hst']; exact (List.getElem?_eq_some_iff.1 hfd).1
      have hf : fs[i]? = some fs[i] := List.getElem?_eq_getElem hi
      simp only [fbiStep, hf]
      have hfty : (fs[i]).tid = fd.ty := hty i _ fd hf (by rw [hst']; exact hfd)
      have hfwf : ValWF tt fs[i] := hwf _ (List.getElem_mem hi)
      rcases hrest with rfl | ⟨hk2, hp2⟩
      · exact Or.inl ⟨fs[i], by simp [fieldByIndex], hfwf⟩
      · exact ih fs[i] (npEmbTarget tt fd.ty) false hfwf (by rw [hfty]) (by simp) (fun _ => hk2) hp2
    rw [fieldByIndex_cons]
    by_cases hkp : (tt.get v.tid).kind = .ptr
    · -- a pointer: only after the first step
      have hf : first = false := by
        cases first
        · rfl
        · exact absurd hkp (hfirst rfl)
      subst hf
      have hsid : (tt.get v.tid).elem = sid := by
        simpa [npEmbTarget, hkp] using hemb
      rcases hv.ptr_inv hkp with ⟨hd, rfl⟩ | ⟨hd, p, rfl, hpt, hpw⟩
      · exact Or.inr (by simp [fbiDeref, fbiStep])
      · have : fbiDeref (.ptr hd (some p)) false = .ok p := by simp [fbiDeref]
        rw [this]
        exact key p hpw (by rw [hpt]; exact hsid)
    · have hsid : v.tid = sid := by simpa [npEmbTarget, hkp] using hemb
      have hv1 : fbiDeref v first = .ok v := by
        unfold fbiDeref
        split
        · rfl
        · split
          · exact absurd hv.kind_of_ptr hkp
          · exact absurd hv.kind_of_ptr hkp
          · rfl
      rw [hv1]
      exact key v hv hsid

/-- `fieldByIndex_wf`: on a well-formed value of the struct type `sid`, following a path of
    the table from `sid` yields a well-formed value or the nil-embedded-pointer error -/
theorem fieldByIndex_wf {tt : TypeTable} {v : GoVal} {sid : Nat} {path : List Nat}
    (hv : ValWF tt v) (ht : v.tid = sid) (hk : (tt.get sid).kind = .struct) (hp : PathOK tt sid path) :
    (∃ r, fieldByIndex v path true = .ok r ∧ ValWF tt r) ∨
      fieldByIndex v path true = .error "nil-embedded-pointer" := by
  have hnp : (tt.get v.tid).kind ≠ .ptr := by rw [ht, hk]; simp
  exact fieldByIndex_wf_aux path v sid true hv (by rw [← ht]; simp [npEmbTarget, hnp]) (fun _ => hnp) (fun _ => hk) hp

end Sqlair
