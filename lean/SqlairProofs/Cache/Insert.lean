/-
  Preservation of the invariant by `insert` (insert/evict under the write lock).
-/
import SqlairProofs.Cache.Simple

namespace Sqlair.Cache

def markFin (x : DStmt) : DStmt := { x with finalizer := true }

theorem dsGet_evictDs (st : St) (s d id' : Nat) :
    dsGet (evictDs st s d) id' =
      if lookup2 st.stmtDB s d = some id' then (dsGet st.ds id').map markFin else dsGet st.ds id' := by
  unfold evictDs
  cases h : lookup2 st.stmtDB s d with
  | none => simp
  | some old =>
    simp only [Option.some.injEq]
    rw [dsGet_upd (by intro x; rfl)]
    by_cases e : id' = old
    · subst e; simp; rfl
    · have : ¬ old = id' := fun h => e h.symm
      simp [e, this]

theorem ids_evictDs {st : St} (h : IdsOK st.ds) (s d : Nat) : IdsOK (evictDs st s d) := by
  unfold evictDs
  cases lookup2 st.stmtDB s d with
  | none => exact h
  | some old => exact h.upd (by intro x; rfl)

theorem alook_set2_isSome (m : List (Nat × List (Nat × Nat))) (s d v k : Nat) :
    (alook (set2 m s d v) k).isSome = (alook m k).isSome := by
  rw [set2_eq, alook_modify m s (fun row => ainsert row d v)]
  split
  · rename_i e; subst e; cases alook m k <;> rfl
  · rfl

theorem alook_addIdx_isSome (m : List (Nat × List Nat)) (d s k : Nat) :
    (alook (addIdx m d s) k).isSome = (alook m k).isSome := by
  rw [addIdx_eq, alook_modify m d (fun l => if l.contains s then l else l ++ [s])]
  split
  · rename_i e; subst e; cases alook m k <;> rfl
  · rfl

theorem inv_insert {st st' : St} {t : Nat} (hi : Inv st) (h : step st (.insert t) = some st') : Inv st' := by
  obtain ⟨o, id, ho, hpc, rfl⟩ := step_insert h
  have hm := alook_some_mem ho
  obtain ⟨⟨row, hrow⟩, ⟨l, hl⟩⟩ : (∃ row, alook st.stmtDB o.s = some row) ∧ (∃ l, alook st.dbStmt o.d = some l) := by
    have := hi.ops.keys t o hm (by simp [hpc])
    exact ⟨Option.isSome_iff_exists.1 this.1, Option.isSome_iff_exists.1 this.2⟩
  obtain ⟨x, hx, hdb, hsql, hcc, hfin, hnc, huniq⟩ := hi.ops.prepared t o id hm hpc
  have hG := dsGet_evictDs st o.s o.d
  have hL : ∀ s' d', lookup2 (set2 st.stmtDB o.s o.d id) s' d' =
      if s' = o.s ∧ d' = o.d then some id else lookup2 st.stmtDB s' d' := by
    intro s' d'; rw [lookup2_set2, hrow]; rfl
  have hcok := hi.cache.ok
  have hcinj := hi.cache.inj
  -- the operation table after the update, still in the old cache
  have hops1 : OpsOK (ainsert st.ops t { o with pc := .ready id }) st.stmtDB st.dbStmt st.ds := by
    apply hi.ops.set
    · intro _; exact hi.ops.keys t o hm (by simp [hpc])
    · intro id' hpc'; cases hpc'
    · intro id' hpc'; cases hpc'
      refine ⟨x, hx, hdb, hsql, hcc, ?_, ?_⟩
      · intro s d hl'; exact absurd hl' (hnc s d)
      · intro t2 o2 hm2 hne hpc2
        exact hne (huniq t2 o2 hm2 (Or.inl hpc2))
  have hhold : ∀ t1 o1, (t1, o1) ∈ ainsert st.ops t { o with pc := .ready id } →
      o1.pc ≠ .prepared id ∧ (o1.pc = .ready id → o1.s = o.s ∧ o1.d = o.d) := by
    intro t1 o1 hm1
    rcases mem_ainsert.1 hm1 with e | ⟨hm1, hne⟩
    · cases e; simp
    · constructor
      · intro hh; exact hne (huniq t1 o1 hm1 (Or.inl hh))
      · intro hh; exact absurd (huniq t1 o1 hm1 (Or.inr hh)) hne
  constructor
  · -- DsOK
    have hd := hi.dsOK
    constructor
    · exact ids_evictDs hd.ids _ _
    · intro id' x' hx' hf
      rw [hG] at hx'
      split at hx'
      · rename_i hold
        obtain ⟨y, hy, _, hycc, _⟩ := hcok _ _ _ hold
        rw [hy] at hx'; cases hx'; exact hycc
      · exact hd.fin_open id' x' hx' hf
    · intro id' x' hx'
      rw [hG] at hx'
      split at hx'
      · obtain ⟨y, hy, rfl⟩ := Option.map_eq_some_iff.1 hx'
        exact hd.calls id' y hy
      · exact hd.calls id' x' hx'
    · intro id' x' hx' hf
      rw [hG] at hx'
      split at hx'
      · obtain ⟨y, hy, rfl⟩ := Option.map_eq_some_iff.1 hx'
        exact hd.dclosed id' y hy hf
      · exact hd.dclosed id' x' hx' hf
  · -- MapsOK
    have hmp := hi.maps
    constructor
    · intro p hp
      rw [set2_eq] at hp
      obtain ⟨p0, hp0, rfl⟩ := List.mem_map.1 hp
      have := hmp.sKeys_lt p0 hp0
      split <;> exact this
    · intro p hp
      rw [addIdx_eq] at hp
      obtain ⟨p0, hp0, rfl⟩ := List.mem_map.1 hp
      have := hmp.dKeys_lt p0 hp0
      split <;> exact this
    · show ((set2 st.stmtDB o.s o.d id).map (·.1)).Nodup
      rw [keys_set2]; exact hmp.sKeys_nodup
    · show ((addIdx st.dbStmt o.d o.s).map (·.1)).Nodup
      rw [keys_addIdx]; exact hmp.dKeys_nodup
    · intro p hp
      rw [set2_eq] at hp
      obtain ⟨p0, hp0, rfl⟩ := List.mem_map.1 hp
      have := hmp.row_nodup p0 hp0
      split
      · exact keys_ainsert_nodup this
      · exact this
    · intro p hp
      rw [addIdx_eq] at hp
      obtain ⟨p0, hp0, rfl⟩ := List.mem_map.1 hp
      have := hmp.idx_nodup p0 hp0
      split
      · simp only
        split
        · exact this
        · rename_i hc
          rw [List.nodup_append]
          refine ⟨this, by simp, ?_⟩
          intro a ha b hb
          simp at hb; subst hb
          intro e; subst e
          apply hc; simpa using ha
      · exact this
    · intro s' d'
      rw [mem_getIdx_addIdx, hL, hl, hmp.index]
      by_cases e : s' = o.s ∧ d' = o.d
      · simp [e]
      · simp only [e, if_false]
        constructor
        · rintro (h | ⟨rfl, rfl, _⟩)
          · exact h
          · exact absurd ⟨rfl, rfl⟩ e
        · exact Or.inl
  · -- CacheOK
    constructor
    · intro s' d' id' hl'
      rw [hL] at hl'
      split at hl'
      · rename_i e
        cases hl'
        refine ⟨x, ?_, by rw [hdb, e.2], hcc, hfin⟩
        rw [hG, if_neg (hnc _ _)]; exact hx
      · obtain ⟨y, hy, h1, h2, h3⟩ := hcok _ _ _ hl'
        refine ⟨y, ?_, h1, h2, h3⟩
        rw [hG, if_neg]; exact hy
        intro hold
        rename_i e
        exact e (hcinj _ _ _ _ _ hl' hold)
    · intro s1 d1 s2 d2 id' h1 h2
      rw [hL] at h1 h2
      split at h1 <;> split at h2
      · rename_i e1 e2; exact ⟨e1.1.trans e2.1.symm, e1.2.trans e2.2.symm⟩
      · cases h1; exact absurd h2 (hnc _ _)
      · cases h2; exact absurd h1 (hnc _ _)
      · exact hcinj _ _ _ _ _ h1 h2
  · -- LiveOK
    constructor
    · intro s hs; rw [alook_set2_isSome]; exact hi.live.liveS s hs
    · intro d hd; rw [alook_addIdx_isSome]; exact hi.live.liveD d hd
  · -- OpsOK
    constructor
    · exact hops1.nodup
    · intro t1 o1 hm1 hpc1
      rw [alook_set2_isSome, alook_addIdx_isSome]
      exact hops1.keys t1 o1 hm1 hpc1
    · intro t1 o1 id1 hm1 hpc1
      obtain ⟨y, hy, h1, h2, h3, h4, h5, h6⟩ := hops1.prepared t1 o1 id1 hm1 hpc1
      refine ⟨y, ?_, h1, h2, h3, h4, ?_, h6⟩
      · rw [hG, if_neg (h5 _ _)]; exact hy
      · intro s' d' hl'
        rw [hL] at hl'
        split at hl'
        · cases hl'; exact (hhold t1 o1 hm1).1 hpc1
        · exact h5 _ _ hl'
    · intro t1 o1 id1 hm1 hpc1
      obtain ⟨y, hy, h1, h2, h3, h4⟩ := hops1.ready t1 o1 id1 hm1 hpc1
      have hslot : ∀ s' d', lookup2 (set2 st.stmtDB o.s o.d id) s' d' = some id1 → s' = o1.s ∧ d' = o1.d := by
        intro s' d' hl'
        rw [hL] at hl'
        split at hl'
        · rename_i e
          cases hl'
          have := (hhold t1 o1 hm1).2 hpc1
          exact ⟨e.1.trans this.1.symm, e.2.trans this.2.symm⟩
        · exact h4 _ _ hl'
      rw [hG]
      split
      · exact ⟨markFin y, by rw [hy]; rfl, h1, h2, h3, hslot⟩
      · exact ⟨y, hy, h1, h2, h3, hslot⟩
  · -- ItersOK
    constructor
    · exact hi.iters.nodup
    · intro h' id' hm'
      obtain ⟨y, hy, hyc⟩ := hi.iters.isOpen h' id' hm'
      rw [hG]
      split
      · exact ⟨markFin y, by rw [hy]; rfl, hyc⟩
      · exact ⟨y, hy, hyc⟩
    · intro id' x' hx' h1 h2
      rw [hG] at hx'
      split at hx'
      · obtain ⟨y, hy, rfl⟩ := Option.map_eq_some_iff.1 hx'
        exact hi.iters.waiting id' y hy h1 h2
      · exact hi.iters.waiting id' x' hx' h1 h2
  · -- NoLeak
    intro id' x' hx'
    rw [hG] at hx'
    split at hx'
    · obtain ⟨y, hy, rfl⟩ := Option.map_eq_some_iff.1 hx'
      right; left; rfl
    · rename_i hnold
      rcases hi.noLeak id' x' hx' with h | h | ⟨s', d', hl'⟩ | ⟨t1, o1, hm1, hpc1⟩
      · exact Or.inl h
      · exact Or.inr (Or.inl h)
      · right; right; left
        refine ⟨s', d', ?_⟩
        rw [hL, if_neg]; exact hl'
        rintro ⟨rfl, rfl⟩; exact hnold hl'
      · by_cases e : t1 = t
        · subst e
          have := hi.ops.eq_of_mem ho hm1; subst this
          rw [hpc] at hpc1; cases hpc1
          right; right; left
          exact ⟨o1.s, o1.d, by rw [hL]; simp⟩
        · right; right; right
          exact ⟨t1, o1, mem_ainsert.2 (Or.inr ⟨hm1, e⟩), hpc1⟩
  · -- LogOK
    have hlg := hi.log
    constructor
    · intro id' x' hx'
      rw [hG] at hx'
      split at hx'
      · obtain ⟨y, hy, rfl⟩ := Option.map_eq_some_iff.1 hx'
        exact hlg.prep id' y hy
      · exact hlg.prep id' x' hx'
    · exact hlg.exec
    · exact hlg.noEC
    · intro id' hm'
      obtain ⟨y, hy, hyc⟩ := hlg.close id' hm'
      rw [hG]
      split
      · exact ⟨markFin y, by rw [hy]; rfl, hyc⟩
      · exact ⟨y, hy, hyc⟩
    · exact hlg.close1
    · intro id' x' hx' hdc
      rw [hG] at hx'
      split at hx'
      · obtain ⟨y, hy, rfl⟩ := Option.map_eq_some_iff.1 hx'
        exact hlg.logged id' y hy hdc
      · exact hlg.logged id' x' hx' hdc

end Sqlair.Cache
