/-
  L4Sound, C13: on the predicted observation every result set is closed exactly once and no
  connection stays in use.
-/
import SqlairProofs.L4Sound.Scenario

namespace Sqlair.Rt

/-! ### from rendered events back to events -/

theorem l4s_isFinisher_exists {fe : String} (h : isFinisher fe = true) :
    ∃ fev : Ev, fev.isFin = true ∧ fe = fev.render := by
  simp only [isFinisher, Bool.or_eq_true, beq_iff_eq] at h
  rcases h with rfl | rfl
  · exact ⟨.commit, rfl, rfl⟩
  · exact ⟨.rollback, rfl, rfl⟩

theorem l4s_count_render (l : List Ev) (name : String) (e0 : Ev)
    (h : ∀ e : Ev, (e.render == name) = (e == e0)) :
    ((l.map Ev.render).filter (· == name)).length = l.count e0 := by
  induction l with
  | nil => rfl
  | cons e rest ih =>
    simp only [List.map_cons, List.filter_cons, h e, List.count_cons]
    cases he : (e == e0) <;> simp [ih]

theorem l4s_count_rowsClose (l : List Ev) :
    ((l.map Ev.render).filter (· == "rowsClose")).length = l.count .rowsClose :=
  l4s_count_render l _ _ l4s_render_eq_rowsClose

theorem l4s_count_query (l : List Ev) :
    ((l.map Ev.render).filter (· == "query")).length = l.count .query :=
  l4s_count_render l _ _ l4s_render_eq_query

theorem l4s_count_next (l : List Ev) :
    ((l.map Ev.render).filter (· == "next")).length = l.count .next :=
  l4s_count_render l _ _ l4s_render_eq_next

theorem l4s_count_execq (l : List Ev) :
    ((l.map Ev.render).filter (fun e => e == "exec" || e == "query")).length = l.count .exec + l.count .query := by
  induction l with
  | nil => rfl
  | cons e rest ih =>
    simp only [List.map_cons, List.filter_cons, l4s_render_eq_exec, l4s_render_eq_query, List.count_cons]
    cases e <;> simp [ih] <;> omega

/-- the last conjunct of `holdsC13`, on events -/
def l4s_c13Ev (runErr hasOutputs : Bool) (l : List Ev) : Bool :=
  l.count .rowsClose == l.count .query -
    (if runErr && hasOutputs && decide (l.count .exec + l.count .query > 0) then 1 else 0)

theorem l4s_count_row_of_isRow {evs : List Ev} (h : evs.all Ev.l4s_isRow = true) :
    evs.count .query = 0 ∧ evs.count .exec = 0 ∧ evs.count .begin = 0 ∧ evs.count .commit = 0 ∧
      evs.count .rollback = 0 ∧ evs.count .prepare = 0 := by
  induction evs with
  | nil => simp
  | cons e rest ih =>
    simp only [List.all_cons, Bool.and_eq_true] at h
    obtain ⟨h1, h2, h3, h4, h5, h6⟩ := ih h.2
    have := h.1
    cases e <;> simp_all [Ev.l4s_isRow]

/-- counts of the events of `Query.Iter` followed by the row events of a complete operation -/
theorem l4s_c13Ev_ran {s : Script} {evs : List Ev} (hrows : evs.all Ev.l4s_isRow = true)
    (hbal : evs.count .rowsClose = if s.opensRows then 1 else 0) :
    l4s_c13Ev s.runErr.isSome s.hasOutputs (s.openEvents ++ evs) = true := by
  obtain ⟨h1, h2, _⟩ := l4s_count_row_of_isRow hrows
  unfold l4s_c13Ev
  simp only [List.count_append, h1, h2, hbal, l4s_openEvents_rowsClose, Nat.add_zero, Nat.zero_add]
  clear hbal hrows h1 h2
  obtain ⟨ho, ca, tx, td, cd, pe, re, fe, ce, res⟩ := s
  cases ho <;> cases ca <;> cases tx <;> cases td <;> cases cd <;> cases pe <;> cases re <;>
    simp [Script.openEvents, Script.opensRows, Script.runsOK, Script.openErr]

theorem l4s_script_runErr (c : Case) (td : Bool) : (c.script td).runErr.isSome = c.runErr := by
  cases h : c.runErr <;> simp [Case.script, h]

theorem l4s_script_hasOutputs (c : Case) (td : Bool) : (c.script td).hasOutputs = c.hasOutputs := rfl

/-- a complete operation: connections as before, and the events added satisfy C13's count -/
theorem l4s_c13Ev_effect {c : Case} {td : Bool} {w1 w2 : World}
    (h : l4s_Effect (c.script td) c.l4s_complete w1 w2) (hc : c.l4s_complete) :
    w2.inUse = w1.inUse ∧ ∃ evsOp, w2.log = w1.log ++ evsOp ∧ l4s_c13Ev c.runErr c.hasOutputs evsOp = true := by
  rcases h with h | ⟨evs, h⟩
  · subst h; exact ⟨rfl, [], by simp, by simp [l4s_c13Ev]⟩
  · obtain ⟨h1, h2⟩ := h.bal hc
    refine ⟨h1, (c.script td).openEvents ++ evs, by rw [h.log, List.append_assoc], ?_⟩
    have := l4s_c13Ev_ran h.rows h2
    rwa [l4s_script_runErr, l4s_script_hasOutputs] at this

theorem l4s_c13Ev_frame (a b : Bool) (l : List Ev) {fev : Ev} (hf : fev.isFin = true) :
    l4s_c13Ev a b (.begin :: l ++ [fev]) = l4s_c13Ev a b l := by
  unfold l4s_c13Ev
  cases fev <;> simp [Ev.isFin] at hf <;> simp [List.count_append]

theorem l4s_c13Ev_early (a b : Bool) {fev : Ev} (hf : fev.isFin = true) :
    l4s_c13Ev a b [.begin, fev] = true := by
  have := l4s_c13Ev_frame a b [] hf
  simp only [List.nil_append, List.cons_append] at this
  rw [this]; simp [l4s_c13Ev]

theorem l4s_holdsC13_of_events {c : Case} {o : Obs} {L : List Ev} (hev : o.events = L.map Ev.render)
    (h0 : o.openRows = 0) (h1 : o.doubleClose = 0) (h2 : o.inUse = 0)
    (h3 : l4s_c13Ev c.runErr c.hasOutputs L = true) : holdsC13 c o = true := by
  unfold holdsC13
  split
  · rfl
  · unfold l4s_c13Ev at h3
    simp only [execEvents, hev, l4s_count_rowsClose, l4s_count_query, l4s_count_execq, h0, h1, h2]
    simpa using h3

/-- a well-formed single-operation case: its operation, and its scenario -/
theorem l4s_wf_single {c : Case} (hwf : CaseWF c) (hp : c.op ≠ "pair") :
    (c.op = "run" ∨ c.op = "get" ∨ c.op = "getall" ∨ c.op = "iter") ∧
    (c.onTx = false ∨
     (c.l4s_isEarly = true ∧ (c.concurrent > 0 ∨ c.finishers ≠ []) ∧
       (c.concurrent > 0 ∨ c.beginCancel = false)) ∨
     (c.l4s_isLate = true ∧ (c.concurrent > 0 ∨ c.finishers ≠ []))) := by
  unfold CaseWF l4s_caseWF at hwf
  have hp' : (c.op == "pair") = false := by simpa using hp
  simp only [hp', Bool.false_eq_true, if_false, Bool.and_eq_true, Bool.or_eq_true, beq_iff_eq,
    Bool.not_eq_true', decide_eq_true_eq] at hwf
  obtain ⟨hop, htx⟩ := hwf
  refine ⟨by rcases hop with ((h | h) | h) | h <;> simp [h], ?_⟩
  rcases htx with htx | ⟨⟨hte, hfin⟩, hbc⟩
  · exact .inl htx
  · cases hon : c.onTx
    · exact .inl rfl
    · right
      have hfin' : c.concurrent > 0 ∨ c.finishers ≠ [] := by
        rcases hfin with h | h
        · exact .inl h
        · right; intro h'; simp [h'] at h
      rcases hte with (h | h) | h
      · right; exact ⟨by simp [Case.l4s_isLate, hon, h], hfin'⟩
      · left
        refine ⟨by simp [Case.l4s_isEarly, hon, h], hfin', ?_⟩
        rcases hbc with (hbc | hbc) | hbc
        · exact .inr hbc
        · rw [h] at hbc; simp at hbc
        · exact .inl hbc
      · left
        refine ⟨by simp [Case.l4s_isEarly, hon, h], hfin', ?_⟩
        rcases hbc with (hbc | hbc) | hbc
        · exact .inr hbc
        · rw [h] at hbc; simp at hbc
        · exact .inl hbc

/-- the events of the predicted observation of a well-formed single-operation case are the
    rendering of an event list of one of three shapes -/
theorem l4s_obs_shape {win : String} (hwin : isFinisher win = true) {c : Case} (hwf : CaseWF c)
    (hp : c.op ≠ "pair") :
    ∃ evsOp : List Ev,
      (l4s_m c).2.log = (l4s_w1 c).log ++ evsOp ∧
      ((c.onTx = false ∧ c.l4s_td = false ∧ l4s_w1 c = {} ∧
        (predObsW win c (l4s_predictSingle c)).events = evsOp.map Ev.render ∧
        (predObsW win c (l4s_predictSingle c)).inUse = (l4s_m c).2.inUse) ∨
       (c.onTx = true ∧ c.l4s_isEarly = true ∧ c.l4s_td = true ∧ evsOp = [] ∧ ∃ fev : Ev, fev.isFin = true ∧
        (predObsW win c (l4s_predictSingle c)).events = [Ev.begin, fev].map Ev.render ∧
        (predObsW win c (l4s_predictSingle c)).inUse = 0 ∧
        l4s_finishOK c (predObsW win c (l4s_predictSingle c)).finish = true) ∨
       (c.onTx = true ∧ c.l4s_isLate = true ∧ c.l4s_td = false ∧ l4s_w1 c = { log := [.begin], inUse := 1 } ∧
        ∃ fev : Ev, fev.isFin = true ∧
        (predObsW win c (l4s_predictSingle c)).events = (Ev.begin :: evsOp ++ [fev]).map Ev.render ∧
        (predObsW win c (l4s_predictSingle c)).inUse = (l4s_m c).2.inUse - 1 ∧
        l4s_finishOK c (predObsW win c (l4s_predictSingle c)).finish = true)) := by
  have heff := l4s_mid_effect c c.l4s_td (l4s_w1 c)
  have hlog : ∃ evsOp, (l4s_m c).2.log = (l4s_w1 c).log ++ evsOp := by
    rcases heff with h | ⟨evs, h⟩
    · exact ⟨[], by unfold l4s_m; rw [h]; simp⟩
    · exact ⟨(c.script c.l4s_td).openEvents ++ evs, by unfold l4s_m; rw [h.log, List.append_assoc]⟩
  obtain ⟨evsOp, hlog⟩ := hlog
  refine ⟨evsOp, hlog, ?_⟩
  rcases (l4s_wf_single hwf hp).2 with h | ⟨h, hw, hbc⟩ | ⟨h, hw⟩
  · left
    obtain ⟨h1, h2, h3, h4⟩ := l4s_obs_notTx win h
    refine ⟨h, h1, h2, ?_, h4⟩
    rw [h3, hlog, h2]; rfl
  · right; left
    have htx : c.onTx = true := by
      unfold Case.l4s_isEarly at h; simp only [Bool.and_eq_true] at h; exact h.1
    obtain ⟨h1, fe, h2, h3, h4, h5⟩ := l4s_obs_early hwin hp h hw hbc
    obtain ⟨fev, hf1, rfl⟩ := l4s_isFinisher_exists h2
    have hm := (l4s_mid_txDone htx (l4s_w1 c)).1
    have : evsOp = [] := by
      unfold l4s_m at hlog
      rw [h1, hm] at hlog
      have : (l4s_w1 c).log ++ [] = (l4s_w1 c).log ++ evsOp := by simpa using hlog
      exact (List.append_cancel_left this).symm
    exact ⟨htx, h, h1, this, fev, hf1, by rw [h3]; rfl, h4, h5⟩
  · right; right
    have htx : c.onTx = true := by
      unfold Case.l4s_isLate at h; simp only [Bool.and_eq_true] at h; exact h.1
    obtain ⟨h1, h2, fe, h3, h4, h5, h6⟩ := l4s_obs_late hwin hp h hw
    obtain ⟨fev, hf1, rfl⟩ := l4s_isFinisher_exists h3
    refine ⟨htx, h, h1, h2, fev, hf1, ?_, h5, h6⟩
    rw [h4, hlog, h2]; simp

theorem l4s_holdsC13_single {win : String} (hwin : isFinisher win = true) {c : Case} (hwf : CaseWF c)
    (hp : c.op ≠ "pair") : holdsC13 c (predObsW win c (l4s_predictSingle c)) = true := by
  by_cases hcomp : c.l4s_complete
  · have heff := l4s_mid_effect c c.l4s_td (l4s_w1 c)
    obtain ⟨hin, evs', hlog', hc13⟩ := l4s_c13Ev_effect heff hcomp
    obtain ⟨evsOp, hlog, hshape⟩ := l4s_obs_shape hwin hwf hp
    have hevs : evs' = evsOp := by
      have : (l4s_w1 c).log ++ evs' = (l4s_w1 c).log ++ evsOp := by rw [← hlog', ← hlog]; rfl
      exact List.append_cancel_left this
    subst hevs
    rcases hshape with ⟨_, _, hw1, hev, hiu⟩ | ⟨_, _, _, _, fev, hf, hev, hiu, _⟩ | ⟨_, _, _, hw1, fev, hf, hev, hiu, _⟩
    · refine l4s_holdsC13_of_events hev rfl rfl ?_ hc13
      rw [hiu]; unfold l4s_m; rw [hin, hw1]
    · exact l4s_holdsC13_of_events hev rfl rfl hiu (l4s_c13Ev_early _ _ hf)
    · refine l4s_holdsC13_of_events hev rfl rfl ?_ (by rw [l4s_c13Ev_frame _ _ _ hf]; exact hc13)
      rw [hiu]; unfold l4s_m; rw [hin, hw1]; rfl
  · have hop := (l4s_wf_single hwf hp).1
    have hiter : c.op = "iter" := by
      rcases hop with h | h | h | h
      · exact absurd (.inl h) hcomp
      · exact absurd (.inr (.inl h)) hcomp
      · exact absurd (.inr (.inr (.inl h))) hcomp
      · exact h
    have hcl : "close" ∉ c.calls := fun h => hcomp (.inr (.inr (.inr h)))
    unfold holdsC13
    simp [hiter, hcl]

end Sqlair.Rt
