import SqlairModel.Bind

/-!
# C08 "perm": argument-order invariance of `bindInputs`

Sketched property: for `args.Perm args'`,
`(bindInputs tt tes args).toOption = (bindInputs tt tes args').toOption`.

**The sketched property is FALSE for arbitrary type tables / arguments.**  Two independent gaps
(machine-checked counterexamples at the end of this file):

* Gap A (asymmetric "type-and-slice" check of `validateInputs`; REALISTIC in Go).  When a slice
  argument of anonymous type `s = []P` with `P` of kind pointer is validated, the check is
  `(ttvGet m P.elem).isSome`; it looks neither at `P.name` nor at the kind of `P.elem`.  In the
  other order (the value of type `t = P.elem` validated after the slice) the clash is only detected
  when `t` is a struct/map, and through `isSliceOfPtr tt s t`, which also wants `P` anonymous.
  So `(S{..}, []*S{..})` with `type S []int` (`bindInputs_perm_counterexample_named_slice`) and
  `(T{..}, []P{..})` with `type P *T` (`bindInputs_perm_counterexample_named_ptr`) are rejected with
  "type-and-slice" in one order and accepted in the other.
  Excluded by the hypothesis `PtrSliceSym tt args`: a condition on the types of the ARGUMENTS only,
  invariant under permutation, decidable.

* Gap B (non-canonical type table; an artefact of the model, `reflect.Type`s are canonical).
  `locateBulk` returns the FIRST entry whose key is `[]t` (resp. `[]*t`); if the table has two
  distinct ids for `[]t` and values of both are provided, the result depends on the order
  (`bindInputs_perm_counterexample_noncanonical`).
  Excluded by `SliceCanonOn tt (args.map argKey)` (implied by the table-only `SliceCanon tt`).

Main results:

* `validateInputs_ok_iff`  exact characterisation of success of `validateInputs` (no hypothesis)
* `validateInputs_perm`    acceptance is order-invariant (under `PtrSliceSym`), the results are
                           permutations of each other and have pairwise distinct keys
* `addToQuery_perm`        `addToQuery` does not depend on the order of the validated map
                           (distinct keys + `SliceCanonOn`); `addToQuery_perm_eq`: full equality
* `bindInputs_perm_invariant_partial`  the C08 statement under `PtrSliceSym` and `SliceCanonOn`
* `bindInputs_perm_eq_of_accepted_partial`  (bonus) once `validateInputs` accepts, even the error
  class of `bindInputs` is order-invariant: the two results are EQUAL
-/

namespace Sqlair

/-! ## vocabulary -/

/-- the key (type id after `indirect`) under which `validateInputs` stores an argument -/
def argKey (a : GoVal) : Nat := (indirect a).tid

/-- the entry `validateInputs` appends for an argument -/
def argEntry (a : GoVal) : Nat × GoVal := ((indirect a).tid, indirect a)

/-- the part of the per-argument kind/name check that does not look at the other arguments -/
def typeOK (tt : TypeTable) (t : Nat) : Bool :=
  let td := tt.get t
  match td.kind with
  | .map | .struct => td.name.size != 0
  | .slice =>
    match (tt.get td.elem).kind with
    | .map | .struct | .ptr => true
    | _ => td.name.size != 0
  | _ => false

/-- `ArgOK`: all per-argument checks of `validateInputs` (`validateValue`, kind, anonymous names) -/
def argOK (tt : TypeTable) (a : GoVal) : Bool := (validateValue a).isOk && typeOK tt (argKey a)

/-- DIRECTED clash, exactly as `validateInputs` tests it: an argument of type `n` is rejected
    ("type-provided-twice" / "type-and-slice") when a value of type `o` was provided EARLIER -/
def clashD (tt : TypeTable) (o n : Nat) : Bool :=
  o == n ||
  (let td := tt.get n
   match td.kind with
   | .map | .struct => isSliceOf tt o n || isSliceOfPtr tt o n
   | .slice =>
     let ed := tt.get td.elem
     match ed.kind with
     | .map | .struct => td.name.size == 0 && td.elem == o
     | .ptr => td.name.size == 0 && ed.elem == o
     | _ => false
   | _ => false)

/-- the SYMMETRIC clash relation on type ids -/
def clash (tt : TypeTable) (t1 t2 : Nat) : Bool := clashD tt t1 t2 || clashD tt t2 t1

theorem clash_symm (tt : TypeTable) (t1 t2 : Nat) : clash tt t1 t2 = clash tt t2 t1 := by
  simp [clash, Bool.or_comm]

/-- one iteration of `validateInputs` succeeds -/
def stepOK (tt : TypeTable) (m : TypeToValue) (a : GoVal) : Bool :=
  argOK tt a && m.all (fun p => !clashD tt p.1 (argKey a))

/-- acceptance condition of `validateInputs tt args []` (order dependent: `clashD` is directed) -/
def Accepts (tt : TypeTable) (args : List GoVal) : Prop :=
  (∀ a ∈ args, argOK tt a = true) ∧ args.Pairwise (fun a b => clashD tt (argKey a) (argKey b) = false)

/-- order independent acceptance condition -/
def AcceptsSym (tt : TypeTable) (args : List GoVal) : Prop :=
  (∀ a ∈ args, argOK tt a = true) ∧ args.Pairwise (fun a b => clash tt (argKey a) (argKey b) = false)

/-! ## hypotheses -/

/-- Gap-A side condition on two argument types `t` and `s`: if `s` is an anonymous slice `[]P`
    whose element type `P` has kind pointer and `P.elem = t`, then `t` is not itself a slice type,
    and if `t` is a struct or map type then `P` is the anonymous pointer type `*t`.
    (Nothing is required when `typeOK tt t` fails: such an argument is rejected in any order.) -/
def PtrSliceOK (tt : TypeTable) (t s : Nat) : Prop :=
  typeOK tt t = true → (tt.get s).kind = .slice → (tt.get s).name.size = 0 →
  (tt.get (tt.get s).elem).kind = .ptr → (tt.get (tt.get s).elem).elem = t →
    (tt.get t).kind ≠ .slice ∧
    (((tt.get t).kind = .struct ∨ (tt.get t).kind = .map) → (tt.get (tt.get s).elem).name.size = 0)

instance (tt : TypeTable) (t s : Nat) : Decidable (PtrSliceOK tt t s) := by
  unfold PtrSliceOK; infer_instance

/-- Gap-A hypothesis: `PtrSliceOK` for all pairs of argument types (after `indirect`).
    A condition on the arguments only; invariant under permutation (`PtrSliceSym.perm`). -/
def PtrSliceSym (tt : TypeTable) (args : List GoVal) : Prop :=
  ∀ a ∈ args, ∀ b ∈ args, PtrSliceOK tt (argKey a) (argKey b)

instance (tt : TypeTable) (args : List GoVal) : Decidable (PtrSliceSym tt args) := by
  unfold PtrSliceSym; infer_instance

theorem PtrSliceSym.perm {tt : TypeTable} {args args' : List GoVal} (hp : args.Perm args')
    (h : PtrSliceSym tt args) : PtrSliceSym tt args' :=
  fun a ha b hb => h a (hp.mem_iff.2 ha) b (hp.mem_iff.2 hb)

/-- the simpler (stronger) sufficient condition: whenever the arguments contain a value of type `t`
    and an anonymous slice `[]P` with `P` a pointer type to `t`, then `P` is the anonymous `*t`
    and `t` is a struct or map type -/
theorem PtrSliceSym.of_strong {tt : TypeTable} {args : List GoVal}
    (h : ∀ a ∈ args, ∀ b ∈ args,
      (tt.get (argKey b)).kind = .slice → (tt.get (argKey b)).name.size = 0 →
      (tt.get (tt.get (argKey b)).elem).kind = .ptr → (tt.get (tt.get (argKey b)).elem).elem = argKey a →
        (tt.get (tt.get (argKey b)).elem).name.size = 0 ∧
        ((tt.get (argKey a)).kind = .struct ∨ (tt.get (argKey a)).kind = .map)) :
    PtrSliceSym tt args := by
  intro a ha b hb _ h1 h2 h3 h4
  obtain ⟨h5, h6⟩ := h a ha b hb h1 h2 h3 h4
  exact ⟨by rcases h6 with h6 | h6 <;> simp [h6], fun _ => h5⟩

/-- Gap-B hypothesis, restricted to a list of keys: among `keys` there is at most one id for the
    anonymous slice type `[]t` and at most one for `[]*t`, for every `t`.  (Stated without a
    quantifier over `t`, hence decidable: `isSliceOf tt s t` forces `t = (tt.get s).elem`.) -/
def SliceCanonOn (tt : TypeTable) (keys : List Nat) : Prop :=
  (∀ s ∈ keys, ∀ s' ∈ keys,
    isSliceOf tt s (tt.get s).elem = true → isSliceOf tt s' (tt.get s).elem = true → s = s') ∧
  (∀ s ∈ keys, ∀ s' ∈ keys,
    isSliceOfPtr tt s (tt.get (tt.get s).elem).elem = true →
    isSliceOfPtr tt s' (tt.get (tt.get s).elem).elem = true → s = s')

instance (tt : TypeTable) (keys : List Nat) : Decidable (SliceCanonOn tt keys) := by
  unfold SliceCanonOn; infer_instance

/-- Gap-B hypothesis on the type table only: slice types are canonical -/
def SliceCanon (tt : TypeTable) : Prop :=
  (∀ s s' t, isSliceOf tt s t = true → isSliceOf tt s' t = true → s = s') ∧
  (∀ s s' t, isSliceOfPtr tt s t = true → isSliceOfPtr tt s' t = true → s = s')

theorem SliceCanon.on {tt : TypeTable} (h : SliceCanon tt) (keys : List Nat) : SliceCanonOn tt keys :=
  ⟨fun s _ s' _ => h.1 s s' _, fun s _ s' _ => h.2 s s' _⟩

theorem SliceCanonOn.perm {tt : TypeTable} {keys keys' : List Nat} (hp : keys.Perm keys')
    (h : SliceCanonOn tt keys) : SliceCanonOn tt keys' :=
  ⟨fun s hs s' hs' => h.1 s (hp.mem_iff.2 hs) s' (hp.mem_iff.2 hs'),
   fun s hs s' hs' => h.2 s (hp.mem_iff.2 hs) s' (hp.mem_iff.2 hs')⟩

private theorem isSliceOf_elem {tt : TypeTable} {s t : Nat} (h : isSliceOf tt s t = true) : (tt.get s).elem = t := by
  simp [isSliceOf] at h; exact h.2

private theorem isSliceOfPtr_elem {tt : TypeTable} {s t : Nat} (h : isSliceOfPtr tt s t = true) :
    (tt.get (tt.get s).elem).elem = t := by
  simp [isSliceOfPtr] at h; exact h.2

private theorem TypeTable.get_of_size_le {tt : TypeTable} {s : Nat} (h : tt.size ≤ s) : tt.get s = default := by
  simp [TypeTable.get, Array.getD, Nat.not_lt.2 h]

private theorem default_kind : (default : TypeDesc).kind = Kind.struct := rfl

private theorem lt_size_of_isSliceOf {tt : TypeTable} {s t : Nat} (h : isSliceOf tt s t = true) : s < tt.size := by
  apply Classical.byContradiction
  intro hn
  simp [isSliceOf, TypeTable.get_of_size_le (Nat.not_lt.1 hn), default_kind] at h

private theorem lt_size_of_isSliceOfPtr {tt : TypeTable} {s t : Nat} (h : isSliceOfPtr tt s t = true) :
    s < tt.size := by
  apply Classical.byContradiction
  intro hn
  simp [isSliceOfPtr, TypeTable.get_of_size_le (Nat.not_lt.1 hn), default_kind] at h

/-- the table-only hypothesis `SliceCanon tt` is a finite (decidable) check over the ids of `tt` -/
theorem sliceCanon_iff_range (tt : TypeTable) : SliceCanon tt ↔ SliceCanonOn tt (List.range tt.size) := by
  constructor
  · intro h; exact h.on _
  · rintro ⟨h1, h2⟩
    constructor
    · intro s s' t hs hs'
      have e := isSliceOf_elem hs
      subst e
      exact h1 s (List.mem_range.2 (lt_size_of_isSliceOf hs)) s'
        (List.mem_range.2 (lt_size_of_isSliceOf hs')) hs hs'
    · intro s s' t hs hs'
      have e := isSliceOfPtr_elem hs
      subst e
      exact h2 s (List.mem_range.2 (lt_size_of_isSliceOfPtr hs)) s'
        (List.mem_range.2 (lt_size_of_isSliceOfPtr hs')) hs hs'

/-! ## 1. `validateInputs` -/

private theorem ttvGet_isSome (m : TypeToValue) (t : Nat) : (ttvGet m t).isSome = m.any (·.1 == t) := by
  unfold ttvGet
  rw [Option.isSome_map, Bool.eq_iff_iff, List.find?_isSome, List.any_eq_true]

private theorem any_fst_eq_false {m : TypeToValue} {e : Nat} (h : ∀ p ∈ m, ¬ e = p.1) :
    m.any (fun x => x.1 == e) = false := by
  rw [List.any_eq_false]; intro p hp; simpa using Ne.symm (h p hp)

theorem validateInputs_cons_of_stepOK (tt : TypeTable) (m : TypeToValue) (a : GoVal) (rest : List GoVal)
    (h : stepOK tt m a = true) :
    validateInputs tt (a :: rest) m = validateInputs tt rest (m ++ [argEntry a]) := by
  rw [validateInputs]
  simp only [stepOK, argOK, Bool.and_eq_true] at h
  obtain ⟨⟨hv, ht⟩, hc⟩ := h
  cases hvv : validateValue a with
  | error e => simp [hvv, Except.isOk, Except.toBool] at hv
  | ok u =>
    simp only [ttvGet_isSome]
    simp only [typeOK, argKey] at ht
    simp only [clashD, argKey] at hc
    generalize hk : (tt.get (indirect a).tid).kind = k at *
    cases k <;> simp at ht hc ⊢
    · have h1 : (List.any m fun p => isSliceOf tt p.fst (indirect a).tid) = false := by
        rw [List.any_eq_false]; intro p hp; simpa using (hc p.1 p.2 hp).2.1
      have h2 : (List.any m fun p => isSliceOfPtr tt p.fst (indirect a).tid) = false := by
        rw [List.any_eq_false]; intro p hp; simpa using (hc p.1 p.2 hp).2.2
      have h3 : (List.any m fun p => p.fst == (indirect a).tid) = false := by
        rw [List.any_eq_false]; intro p hp; simpa using (hc p.1 p.2 hp).1
      simp [h1, h2, h3, ht, argEntry]
    · have h1 : (List.any m fun p => isSliceOf tt p.fst (indirect a).tid) = false := by
        rw [List.any_eq_false]; intro p hp; simpa using (hc p.1 p.2 hp).2.1
      have h2 : (List.any m fun p => isSliceOfPtr tt p.fst (indirect a).tid) = false := by
        rw [List.any_eq_false]; intro p hp; simpa using (hc p.1 p.2 hp).2.2
      have h3 : (List.any m fun p => p.fst == (indirect a).tid) = false := by
        rw [List.any_eq_false]; intro p hp; simpa using (hc p.1 p.2 hp).1
      simp [h1, h2, h3, ht, argEntry]
    · have h3 : (List.any m fun p => p.fst == (indirect a).tid) = false := by
        rw [List.any_eq_false]; intro p hp; simpa using (hc p.1 p.2 hp).1
      generalize hk2 : (tt.get (tt.get (indirect a).tid).elem).kind = k2 at *
      cases k2 <;> simp at ht hc ⊢ <;> simp [h3, argEntry]
      all_goals first
        | done
        | (by_cases hn : (tt.get (indirect a).tid).name = #[]
           · rw [any_fst_eq_false (fun p hp => (hc p.1 p.2 hp).2 hn)]
             simp
           · simp [hn])
        | simp [ht]

theorem stepOK_of_validateInputs_cons (tt : TypeTable) (m m' : TypeToValue) (a : GoVal) (rest : List GoVal)
    (h : validateInputs tt (a :: rest) m = .ok m') : stepOK tt m a = true := by
  rw [validateInputs] at h
  simp only [stepOK, argOK, typeOK, clashD, argKey, Bool.and_eq_true]
  simp only [ttvGet_isSome] at h
  cases hvv : validateValue a with
  | error e => simp [hvv] at h
  | ok u =>
    simp only [hvv] at h
    generalize hk : (tt.get (indirect a).tid).kind = k at *
    cases k <;> simp at h ⊢
    · by_cases hn : (tt.get (indirect a).tid).name = #[]
      · simp [hn] at h
      · by_cases h1 : (List.any m fun p => isSliceOf tt p.fst (indirect a).tid) = true
        · simp [hn, h1] at h
        · by_cases h2 : (List.any m fun p => isSliceOfPtr tt p.fst (indirect a).tid) = true
          · simp [hn, h1, h2] at h
          · by_cases h3 : (List.any m fun p => p.fst == (indirect a).tid) = true
            · simp [hn, h1, h2, h3] at h
            · refine ⟨⟨rfl, hn⟩, ?_⟩
              intro x b hxb
              simp only [List.any_eq_true, not_exists, not_and, Bool.not_eq_true] at h1 h2 h3
              exact ⟨by simpa using h3 _ hxb, h1 _ hxb, h2 _ hxb⟩
    · by_cases hn : (tt.get (indirect a).tid).name = #[]
      · simp [hn] at h
      · by_cases h1 : (List.any m fun p => isSliceOf tt p.fst (indirect a).tid) = true
        · simp [hn, h1] at h
        · by_cases h2 : (List.any m fun p => isSliceOfPtr tt p.fst (indirect a).tid) = true
          · simp [hn, h1, h2] at h
          · by_cases h3 : (List.any m fun p => p.fst == (indirect a).tid) = true
            · simp [hn, h1, h2, h3] at h
            · refine ⟨⟨rfl, hn⟩, ?_⟩
              intro x b hxb
              simp only [List.any_eq_true, not_exists, not_and, Bool.not_eq_true] at h1 h2 h3
              exact ⟨by simpa using h3 _ hxb, h1 _ hxb, h2 _ hxb⟩
    · by_cases h3 : (List.any m fun p => p.fst == (indirect a).tid) = true
      · simp only [h3, if_true] at h
        split at h <;> cases h
      · generalize hk2 : (tt.get (tt.get (indirect a).tid).elem).kind = k2 at *
        cases k2 <;> simp [h3] at h ⊢
        all_goals
          have h3' : ∀ (x : Nat) (b : GoVal), (x, b) ∈ m → ¬ x = (indirect a).tid := by
            intro x b hxb
            simp only [List.any_eq_true, not_exists, not_and, Bool.not_eq_true] at h3
            simpa using h3 _ hxb
        all_goals by_cases hn : (tt.get (indirect a).tid).name = #[]
        all_goals first
          | (simp [hn] at h; done)
          | exact ⟨⟨rfl, hn⟩, h3'⟩
          | exact ⟨rfl, fun x b hxb => ⟨h3' x b hxb, fun hn' => absurd hn' hn⟩⟩
          | skip
        all_goals
          refine ⟨rfl, fun x b hxb => ⟨h3' x b hxb, fun _ hE => ?_⟩⟩
          have hany : (List.any m fun y => y.fst == x) = true :=
            List.any_eq_true.2 ⟨(x, b), hxb, by simp⟩
          subst hE
          simp [hn, hany] at h

/-- EXACT characterisation of success of `validateInputs` (no hypothesis on `tt`): the result is
    the start map followed by the entries of the arguments in order, every argument passes the
    per-argument checks, and no argument clashes (directed!) with an earlier entry. -/
theorem validateInputs_ok_iff (tt : TypeTable) : ∀ (args : List GoVal) (m0 m : TypeToValue),
    validateInputs tt args m0 = .ok m ↔
      (m = m0 ++ args.map argEntry ∧ (∀ a ∈ args, argOK tt a = true) ∧
       (∀ p ∈ m0, ∀ a ∈ args, clashD tt p.1 (argKey a) = false) ∧
       args.Pairwise (fun a b => clashD tt (argKey a) (argKey b) = false))
  | [], m0, m => by
    rw [validateInputs]
    constructor
    · intro h; cases h; simp
    · rintro ⟨rfl, _⟩; simp
  | a :: rest, m0, m => by
    by_cases hs : stepOK tt m0 a = true
    · rw [validateInputs_cons_of_stepOK tt m0 a rest hs, validateInputs_ok_iff tt rest]
      simp only [stepOK, Bool.and_eq_true, List.all_eq_true, Bool.not_eq_true'] at hs
      obtain ⟨ha, hc⟩ := hs
      constructor
      · rintro ⟨rfl, h1, h2, h3⟩
        refine ⟨by simp, ?_, ?_, ?_⟩
        · intro x hx
          rcases List.mem_cons.1 hx with rfl | hx
          · exact ha
          · exact h1 x hx
        · intro p hp x hx
          rcases List.mem_cons.1 hx with rfl | hx
          · exact hc p hp
          · exact h2 p (List.mem_append_left _ hp) x hx
        · rw [List.pairwise_cons]
          refine ⟨fun x hx => ?_, h3⟩
          exact h2 (argEntry a) (by simp) x hx
      · rintro ⟨rfl, h1, h2, h3⟩
        rw [List.pairwise_cons] at h3
        refine ⟨by simp, fun x hx => h1 x (List.mem_cons_of_mem _ hx), ?_, h3.2⟩
        intro p hp x hx
        rcases List.mem_append.1 hp with hp | hp
        · exact h2 p hp x (List.mem_cons_of_mem _ hx)
        · rw [List.mem_singleton] at hp
          subst hp
          exact h3.1 x hx
    · constructor
      · intro h; exact absurd (stepOK_of_validateInputs_cons tt m0 m a rest h) hs
      · rintro ⟨_, hok, hcl, _⟩
        exfalso; apply hs
        simp only [stepOK, Bool.and_eq_true, List.all_eq_true, Bool.not_eq_true']
        exact ⟨hok a (by simp), fun p hp => hcl p hp a (by simp)⟩

theorem validateInputs_nil_ok_iff (tt : TypeTable) (args : List GoVal) (m : TypeToValue) :
    validateInputs tt args [] = .ok m ↔ m = args.map argEntry ∧ Accepts tt args := by
  rw [validateInputs_ok_iff]
  simp [Accepts]

private theorem Except.isOk_iff_exists {ε α : Type} (e : Except ε α) : e.isOk = true ↔ ∃ x, e = .ok x := by
  cases e <;> simp [Except.isOk, Except.toBool]

theorem validateInputs_isOk_iff (tt : TypeTable) (args : List GoVal) :
    (validateInputs tt args []).isOk = true ↔ Accepts tt args := by
  rw [Except.isOk_iff_exists]
  constructor
  · rintro ⟨m, hm⟩; exact ((validateInputs_nil_ok_iff tt args m).1 hm).2
  · intro h; exact ⟨_, (validateInputs_nil_ok_iff tt args _).2 ⟨rfl, h⟩⟩

/-- `clashD` is symmetric on a pair of types as soon as the EARLIER one passes `typeOK` and the
    pair satisfies the gap-A side condition (the only asymmetric case is `n = []P`, `P.elem = o`). -/
theorem clashD_symm (tt : TypeTable) (o n : Nat) (ho : typeOK tt o = true) (hp : PtrSliceOK tt o n)
    (h : clashD tt o n = true) : clashD tt n o = true := by
  simp only [clashD, Bool.or_eq_true, beq_iff_eq] at h ⊢
  rcases h with h | h
  · exact Or.inl h.symm
  · right
    have hp := hp ho
    simp only [typeOK] at ho
    generalize hkn : (tt.get n).kind = kn at *
    generalize hko : (tt.get o).kind = ko at *
    cases kn <;> cases ko <;> simp [isSliceOf, isSliceOfPtr, hkn, hko] at h hp ho ⊢
    · rcases h with ⟨h1, rfl⟩ | ⟨⟨⟨h1, h2⟩, h3⟩, rfl⟩
      · simp [hkn, h1]
      · simp [h2, h1]
    · rcases h with ⟨h1, rfl⟩ | ⟨⟨⟨h1, h2⟩, h3⟩, rfl⟩
      · simp [hkn, h1]
      · simp [h2, h1]
    · generalize hk2 : (tt.get (tt.get n).elem).kind = k2 at *
      cases k2 <;> simp at h hp ⊢ <;> simp [h, hp]
    · generalize hk2 : (tt.get (tt.get n).elem).kind = k2 at *
      cases k2 <;> simp at h hp ⊢ <;> simp [h, hp]
    · generalize hk2 : (tt.get (tt.get n).elem).kind = k2 at *
      cases k2 <;> simp at h hp ⊢
      · obtain ⟨_, rfl⟩ := h; simp [hk2] at hko
      · obtain ⟨_, rfl⟩ := h; simp [hk2] at hko
      · exact absurd h.2 (hp h.1)

theorem accepts_iff_acceptsSym (tt : TypeTable) (args : List GoVal) (hs : PtrSliceSym tt args) :
    Accepts tt args ↔ AcceptsSym tt args := by
  constructor
  · rintro ⟨h1, h2⟩
    refine ⟨h1, h2.imp_of_mem ?_⟩
    intro a b ha hb hab
    simp only [clash, Bool.or_eq_false_iff]
    refine ⟨hab, ?_⟩
    cases hba : clashD tt (argKey b) (argKey a) with
    | false => rfl
    | true =>
      have hob : typeOK tt (argKey b) = true := by
        have := h1 b hb; simp only [argOK, Bool.and_eq_true] at this; exact this.2
      rw [clashD_symm tt (argKey b) (argKey a) hob (hs b hb a ha) hba] at hab
      cases hab
  · rintro ⟨h1, h2⟩
    refine ⟨h1, h2.imp ?_⟩
    intro a b hab
    simp only [clash, Bool.or_eq_false_iff] at hab
    exact hab.1

theorem acceptsSym_perm (tt : TypeTable) {args args' : List GoVal} (hp : args.Perm args') :
    AcceptsSym tt args ↔ AcceptsSym tt args' := by
  unfold AcceptsSym
  rw [hp.pairwise_iff (R := fun a b => clash tt (argKey a) (argKey b) = false)
    (fun {x y} h => by rw [clash_symm]; exact h)]
  constructor
  · rintro ⟨h1, h2⟩; exact ⟨fun a ha => h1 a (hp.mem_iff.2 ha), h2⟩
  · rintro ⟨h1, h2⟩; exact ⟨fun a ha => h1 a (hp.mem_iff.1 ha), h2⟩

theorem Accepts.nodup_keys {tt : TypeTable} {args : List GoVal} (h : Accepts tt args) :
    ((args.map argEntry).map (·.1)).Nodup := by
  rw [List.map_map, List.nodup_iff_pairwise_ne, List.pairwise_map]
  refine h.2.imp ?_
  intro a b hab heq
  have : argKey a = argKey b := heq
  simp [clashD, this] at hab

/-- acceptance by `validateInputs` is order-invariant under the gap-A hypothesis -/
theorem validateInputs_accepts_perm (tt : TypeTable) {args args' : List GoVal}
    (hs : PtrSliceSym tt args) (hp : args.Perm args') :
    (∃ m, validateInputs tt args [] = .ok m) ↔ (∃ m', validateInputs tt args' [] = .ok m') := by
  rw [← Except.isOk_iff_exists, ← Except.isOk_iff_exists, validateInputs_isOk_iff,
    validateInputs_isOk_iff, accepts_iff_acceptsSym tt args hs,
    accepts_iff_acceptsSym tt args' (hs.perm hp)]
  exact acceptsSym_perm tt hp

/-- **Key lemma.**  Under the gap-A hypothesis `PtrSliceSym tt args`, for `args ~ args'`:
    `validateInputs` accepts `args` iff it accepts `args'`; and whenever both succeed (in fact no
    hypothesis is needed for this part) the resulting maps are permutations of each other and the
    keys are pairwise distinct. -/
theorem validateInputs_perm (tt : TypeTable) {args args' : List GoVal}
    (hs : PtrSliceSym tt args) (hp : args.Perm args') :
    (validateInputs tt args []).isOk = (validateInputs tt args' []).isOk ∧
    ∀ m m', validateInputs tt args [] = .ok m → validateInputs tt args' [] = .ok m' →
      m.Perm m' ∧ (m.map (·.1)).Nodup := by
  constructor
  · rw [Bool.eq_iff_iff, validateInputs_isOk_iff, validateInputs_isOk_iff,
      accepts_iff_acceptsSym tt args hs, accepts_iff_acceptsSym tt args' (hs.perm hp)]
    exact acceptsSym_perm tt hp
  · intro m m' hm hm'
    obtain ⟨rfl, hacc⟩ := (validateInputs_nil_ok_iff tt args m).1 hm
    obtain ⟨rfl, _⟩ := (validateInputs_nil_ok_iff tt args' m').1 hm'
    exact ⟨hp.map _, hacc.nodup_keys⟩

/-! ## 2. `addToQuery` -/

/-- `find?` is invariant under permutation when at most one element satisfies the predicate -/
private theorem find?_perm_of_unique {α : Type} {l l' : List α} (p : α → Bool) (h : l.Perm l')
    (hu : ∀ a ∈ l, ∀ b ∈ l, p a = true → p b = true → a = b) : l.find? p = l'.find? p := by
  cases h1 : l.find? p with
  | none =>
    rw [List.find?_eq_none] at h1
    symm; rw [List.find?_eq_none]; intro x hx; exact h1 x (h.mem_iff.2 hx)
  | some a =>
    have ha := List.mem_of_find?_eq_some h1
    have hpa := List.find?_some h1
    cases h2 : l'.find? p with
    | none => rw [List.find?_eq_none] at h2; exact absurd hpa (h2 a (h.mem_iff.1 ha))
    | some b =>
      have hb := h.mem_iff.2 (List.mem_of_find?_eq_some h2)
      rw [hu a ha b hb hpa (List.find?_some h2)]

private theorem eq_of_fst_eq_of_nodup_keys : ∀ {m : TypeToValue}, (m.map (·.1)).Nodup →
    ∀ a ∈ m, ∀ b ∈ m, a.1 = b.1 → a = b
  | [], _, a, ha, _, _, _ => by cases ha
  | x :: m, hn, a, ha, b, hb, hab => by
    rw [List.map_cons, List.nodup_cons] at hn
    rcases List.mem_cons.1 ha with rfl | ha' <;> rcases List.mem_cons.1 hb with rfl | hb'
    · rfl
    · exact absurd (show a.1 ∈ m.map (·.1) from List.mem_map.2 ⟨b, hb', hab.symm⟩) hn.1
    · exact absurd (show b.1 ∈ m.map (·.1) from List.mem_map.2 ⟨a, ha', hab⟩) hn.1
    · exact eq_of_fst_eq_of_nodup_keys hn.2 a ha' b hb' hab

section
variable {tt : TypeTable} {m m' : TypeToValue}

theorem ttvGet_perm (hp : m.Perm m') (hn : (m.map (·.1)).Nodup) (t : Nat) : ttvGet m t = ttvGet m' t := by
  unfold ttvGet
  rw [find?_perm_of_unique _ hp]
  intro a ha b hb h1 h2
  exact eq_of_fst_eq_of_nodup_keys hn a ha b hb (by simp at h1 h2; rw [h1, h2])

theorem locateBulk_perm (hp : m.Perm m') (hn : (m.map (·.1)).Nodup)
    (hc : SliceCanonOn tt (m.map (·.1))) (t : Nat) : locateBulk tt m t = locateBulk tt m' t := by
  unfold locateBulk
  rw [find?_perm_of_unique (fun p => isSliceOf tt p.1 t) hp,
    find?_perm_of_unique (fun p => isSliceOfPtr tt p.1 t) hp]
  · intro a ha b hb h1 h2
    have e := isSliceOfPtr_elem h1
    subst e
    exact eq_of_fst_eq_of_nodup_keys hn a ha b hb
      (hc.2 a.1 (List.mem_map.2 ⟨a, ha, rfl⟩) b.1 (List.mem_map.2 ⟨b, hb, rfl⟩) h1 h2)
  · intro a ha b hb h1 h2
    have e := isSliceOf_elem h1
    subst e
    exact eq_of_fst_eq_of_nodup_keys hn a ha b hb
      (hc.1 a.1 (List.mem_map.2 ⟨a, ha, rfl⟩) b.1 (List.mem_map.2 ⟨b, hb, rfl⟩) h1 h2)

theorem valueNotFound_perm (hp : m.Perm m') (t : Nat) : valueNotFound tt m t = valueNotFound tt m' t := by
  unfold valueNotFound
  rw [hp.any_eq]

theorem locateParams_congr (hg : ∀ t, ttvGet m t = ttvGet m' t)
    (hb : ∀ t, locateBulk tt m t = locateBulk tt m' t)
    (hv : ∀ t, valueNotFound tt m t = valueNotFound tt m' t) (l : Loc) :
    locateParams tt m l = locateParams tt m' l := by
  cases l <;> simp only [locateParams, ← hg, ← hb, ← hv]

theorem TCol.bind_congr (hl : ∀ l, locateParams tt m l = locateParams tt m' l)
    (c : TCol) (ic : Nat) : c.bind tt m ic = c.bind tt m' ic := by
  cases c <;> simp only [TCol.bind, hl]

theorem bindCols_congr (hl : ∀ l, locateParams tt m l = locateParams tt m' l) :
    ∀ (cols : List TCol) (qb : QB) (acc : List BCol) (bulk : Bool) (numRows : Nat),
      bindCols tt m cols qb acc bulk numRows = bindCols tt m' cols qb acc bulk numRows
  | [], qb, acc, bulk, numRows => rfl
  | c :: rest, qb, acc, bulk, numRows => by
    simp only [bindCols, TCol.bind_congr hl]
    split
    · rfl
    · split
      · rfl
      · exact bindCols_congr hl rest _ _ _ _

theorem addToQuery_congr (hl : ∀ l, locateParams tt m l = locateParams tt m' l)
    (qb : QB) (te : TExpr) : addToQuery tt m qb te = addToQuery tt m' qb te := by
  cases te <;> simp only [addToQuery, hl, bindCols_congr hl]

theorem locateParams_perm (hp : m.Perm m') (hn : (m.map (·.1)).Nodup)
    (hc : SliceCanonOn tt (m.map (·.1))) (l : Loc) : locateParams tt m l = locateParams tt m' l :=
  locateParams_congr (ttvGet_perm hp hn) (locateBulk_perm hp hn hc) (valueNotFound_perm hp) l

end

/-- `addToQuery` does not depend on the order of the entries of the validated map `m`, provided
    its keys are pairwise distinct and canonical in the sense of `SliceCanonOn` (gap B).
    Full equality, including the error class. -/
theorem addToQuery_perm_eq (tt : TypeTable) {m m' : TypeToValue} (hp : m.Perm m')
    (hn : (m.map (·.1)).Nodup) (hc : SliceCanonOn tt (m.map (·.1))) (qb : QB) (te : TExpr) :
    addToQuery tt m qb te = addToQuery tt m' qb te :=
  addToQuery_congr (locateParams_perm hp hn hc) qb te

/-- the statement of `addToQuery_perm_eq` up to the error class, as sketched -/
theorem addToQuery_perm (tt : TypeTable) {m m' : TypeToValue} (hp : m.Perm m')
    (hn : (m.map (·.1)).Nodup) (hc : SliceCanonOn tt (m.map (·.1))) (qb : QB) (te : TExpr) :
    (addToQuery tt m qb te).toOption = (addToQuery tt m' qb te).toOption := by
  rw [addToQuery_perm_eq tt hp hn hc]

theorem foldlM_addToQuery_perm_eq (tt : TypeTable) {m m' : TypeToValue} (hp : m.Perm m')
    (hn : (m.map (·.1)).Nodup) (hc : SliceCanonOn tt (m.map (·.1))) (tes : List TExpr) (qb : QB) :
    tes.foldlM (addToQuery tt m) qb = tes.foldlM (addToQuery tt m') qb := by
  have : addToQuery tt m = addToQuery tt m' := by
    funext qb te; exact addToQuery_perm_eq tt hp hn hc qb te
  rw [this]

/-! ## 3. `bindInputs` -/

private theorem map_fst_map_argEntry (args : List GoVal) : (args.map argEntry).map (·.1) = args.map argKey := by
  rw [List.map_map]; rfl

/-- (bonus) Once `validateInputs` accepts `args`, the whole result of `bindInputs` -- INCLUDING the
    error class -- is invariant under permutation of the arguments.  `_partial`: needs the gap-A
    hypothesis `PtrSliceSym` and the gap-B hypothesis `SliceCanonOn`; both are necessary in general
    (see the counterexamples below). -/
theorem bindInputs_perm_eq_of_accepted_partial (tt : TypeTable) (tes : List TExpr) {args args' : List GoVal}
    (hA : PtrSliceSym tt args) (hB : SliceCanonOn tt (args.map argKey)) (hp : args.Perm args')
    (hacc : (validateInputs tt args []).isOk = true) :
    bindInputs tt tes args = bindInputs tt tes args' := by
  obtain ⟨m, hm⟩ := (Except.isOk_iff_exists _).1 hacc
  obtain ⟨m', hm'⟩ := (Except.isOk_iff_exists _).1 ((validateInputs_perm tt hA hp).1 ▸ hacc)
  obtain ⟨hmm, hn⟩ := (validateInputs_perm tt hA hp).2 m m' hm hm'
  have hkeys : m.map (·.1) = args.map argKey := by
    rw [((validateInputs_nil_ok_iff tt args m).1 hm).1, map_fst_map_argEntry]
  have hc : SliceCanonOn tt (m.map (·.1)) := hkeys ▸ hB
  simp only [bindInputs, hm, hm', foldlM_addToQuery_perm_eq tt hmm hn hc, hmm.all_eq]

/-- **C08 (partial).**  Under the gap-A hypothesis `PtrSliceSym tt args` and the gap-B hypothesis
    `SliceCanonOn tt (args.map argKey)` (both are conditions on the types of the arguments, both are
    permutation invariant, both are decidable), acceptance and the whole result of `bindInputs` do
    not depend on the order of the arguments.

    `_partial` because the unconditional statement is FALSE: see
    `bindInputs_perm_counterexample_named_slice`, `bindInputs_perm_counterexample_named_ptr` (gap A)
    and `bindInputs_perm_counterexample_noncanonical` (gap B).  `toOption` because the error class
    of a rejected argument list does depend on the order (the first failing argument wins). -/
theorem bindInputs_perm_invariant_partial (tt : TypeTable) (tes : List TExpr) {args args' : List GoVal}
    (hA : PtrSliceSym tt args) (hB : SliceCanonOn tt (args.map argKey)) (hp : args.Perm args') :
    (bindInputs tt tes args).toOption = (bindInputs tt tes args').toOption := by
  cases hacc : (validateInputs tt args []).isOk with
  | true => rw [bindInputs_perm_eq_of_accepted_partial tt tes hA hB hp hacc]
  | false =>
    have hacc' : (validateInputs tt args' []).isOk = false := (validateInputs_perm tt hA hp).1 ▸ hacc
    have h1 : ∀ {as : List GoVal}, (validateInputs tt as []).isOk = false →
        (bindInputs tt tes as).toOption = none := by
      intro as h
      unfold bindInputs
      cases hv : validateInputs tt as [] with
      | error e => rfl
      | ok m => simp [hv, Except.isOk, Except.toBool] at h
    rw [h1 hacc, h1 hacc']

/-- the same with the table-only gap-B hypothesis `SliceCanon tt` -/
theorem bindInputs_perm_invariant_partial' (tt : TypeTable) (tes : List TExpr) {args args' : List GoVal}
    (hA : PtrSliceSym tt args) (hB : SliceCanon tt) (hp : args.Perm args') :
    (bindInputs tt tes args).toOption = (bindInputs tt tes args').toOption :=
  bindInputs_perm_invariant_partial tt tes hA (hB.on _) hp

/-! ## 4. counterexamples: both hypotheses are needed -/

/-- gap A, type table: `type S []int`, `*S`, `[]*S`, `int` -/
def cxA_tt : TypeTable :=
  #[ { kind := .slice, kindStr := "slice", name := #[83], elem := 3 },   -- 0: S  (NAMED slice of int)
     { kind := .ptr,   kindStr := "ptr",   name := #[],   elem := 0 },   -- 1: *S
     { kind := .slice, kindStr := "slice", name := #[],   elem := 1 },   -- 2: []*S
     { kind := .other, kindStr := "int",   name := #[105, 110, 116] } ]  -- 3: int
/-- `S{7}` -/
def cxA_A : GoVal := .slice { t := 0, zero := false, r := "S" } [.leaf { t := 3, zero := false, r := "7" }]
/-- `[]*S{nil}` -/
def cxA_B : GoVal := .slice { t := 2, zero := false, r := "PS" } [.ptr { t := 1, zero := true, r := "nil" } none]
/-- two slice inputs, `$S[:]` and one of type `[]*S` -/
def cxA_tes : List TExpr := [.input (.slice 0 #[83]), .input (.slice 2 #[])]

/-- **Gap A, realistic in Go** (`type S []int`; arguments `S{7}` and `[]*S{nil}`):
    `(S, []*S)` is rejected with "type-and-slice", `([]*S, S)` is accepted.
    The table is canonical (`SliceCanon`-style hypothesis holds), only `PtrSliceSym` fails. -/
theorem bindInputs_perm_counterexample_named_slice :
    [cxA_A, cxA_B].Perm [cxA_B, cxA_A] ∧
    bindInputs cxA_tt cxA_tes [cxA_A, cxA_B] = .error "type-and-slice" ∧
    bindInputs cxA_tt cxA_tes [cxA_B, cxA_A] =
      .ok { pieces := [.inputs 0 1, .inputs 1 1], params := [(0, "7"), (1, "nil")], outputs := [] } ∧
    (bindInputs cxA_tt cxA_tes [cxA_A, cxA_B]).toOption ≠
      (bindInputs cxA_tt cxA_tes [cxA_B, cxA_A]).toOption ∧
    SliceCanonOn cxA_tt ([cxA_A, cxA_B].map argKey) ∧ ¬ PtrSliceSym cxA_tt [cxA_A, cxA_B] := by
  refine ⟨List.Perm.swap _ _ _, rfl, rfl, ?_, by decide +kernel, by decide +kernel⟩
  intro h
  have h' : (none : Option Primed) = some _ := h
  cases h'

/-- gap A, second shape: `type T struct{ X int "db:x" }`, `type P *T`, `[]P`, `int` -/
def cxA2_tt : TypeTable :=
  #[ { kind := .struct, kindStr := "struct", name := #[84],
       fields := [{ name := #[88], tag := #[120], exported := true, anon := false, ty := 3 }] },  -- 0: T
     { kind := .ptr,   kindStr := "ptr",   name := #[80], elem := 0 },   -- 1: P  (NAMED pointer to T)
     { kind := .slice, kindStr := "slice", name := #[],   elem := 1 },   -- 2: []P
     { kind := .other, kindStr := "int",   name := #[105, 110, 116] } ]  -- 3: int
def cxT_f : SField := { name := #[88], tag := #[120], omitEmpty := false, index := [0] }
/-- `T{X: 7}` -/
def cxA2_A : GoVal := .struct { t := 0, zero := false, r := "T" } [.leaf { t := 3, zero := false, r := "7" }]
/-- `[]P{nil}` -/
def cxA2_B : GoVal := .slice { t := 2, zero := false, r := "PS" } [.ptr { t := 1, zero := true, r := "nil" } none]
def cxA2_tes : List TExpr := [.input (.field 0 #[84] cxT_f), .input (.slice 2 #[])]

/-- **Gap A, named pointer type** (`type P *T`; arguments `T{..}` and `[]P{..}`):
    `(T, []P)` is rejected with "type-and-slice", `([]P, T)` is accepted. -/
theorem bindInputs_perm_counterexample_named_ptr :
    [cxA2_A, cxA2_B].Perm [cxA2_B, cxA2_A] ∧
    bindInputs cxA2_tt cxA2_tes [cxA2_A, cxA2_B] = .error "type-and-slice" ∧
    bindInputs cxA2_tt cxA2_tes [cxA2_B, cxA2_A] =
      .ok { pieces := [.inputs 0 1, .inputs 1 1], params := [(0, "7"), (1, "nil")], outputs := [] } ∧
    SliceCanonOn cxA2_tt ([cxA2_A, cxA2_B].map argKey) ∧ ¬ PtrSliceSym cxA2_tt [cxA2_A, cxA2_B] :=
  ⟨List.Perm.swap _ _ _, rfl, rfl, by decide +kernel, by decide +kernel⟩

/-- gap B: a NON-canonical type table with two ids for `[]T` -/
def cxB_tt : TypeTable :=
  #[ { kind := .struct, kindStr := "struct", name := #[84],
       fields := [{ name := #[88], tag := #[120], exported := true, anon := false, ty := 3 }] },  -- 0: T
     { kind := .slice, kindStr := "slice", name := #[],   elem := 0 },   -- 1: []T
     { kind := .slice, kindStr := "slice", name := #[],   elem := 0 },   -- 2: []T  (second id!)
     { kind := .other, kindStr := "int",   name := #[105, 110, 116] } ]  -- 3: int
/-- `[]T{{X: 1}}` with type id 1 -/
def cxB_A : GoVal := .slice { t := 1, zero := false, r := "A" }
  [.struct { t := 0, zero := false, r := "T" } [.leaf { t := 3, zero := false, r := "1" }]]
/-- `[]T{{X: 2}}` with type id 2 -/
def cxB_B : GoVal := .slice { t := 2, zero := false, r := "B" }
  [.struct { t := 0, zero := false, r := "T" } [.leaf { t := 3, zero := false, r := "2" }]]
/-- `INSERT INTO t (x) VALUES ($T.x)` (bulk) followed by slice inputs using both arguments -/
def cxB_tes : List TExpr :=
  [.insert [.insert (.field 0 #[84] cxT_f) #[120] false], .input (.slice 1 #[]), .input (.slice 2 #[])]

/-- **Gap B** (artefact: needs a non-canonical type table).  Both orders are accepted but the bulk
    insert takes its rows from whichever `[]T` comes first: parameter 0 is "1" resp. "2".
    `PtrSliceSym` holds here, only `SliceCanonOn` fails. -/
theorem bindInputs_perm_counterexample_noncanonical :
    [cxB_A, cxB_B].Perm [cxB_B, cxB_A] ∧
    bindInputs cxB_tt cxB_tes [cxB_A, cxB_B] =
      .ok { pieces := [.insert [#[120]] [[.ph 0]], .inputs 1 1, .inputs 2 1],
            params := [(0, "1"), (1, "T"), (2, "T")], outputs := [] } ∧
    bindInputs cxB_tt cxB_tes [cxB_B, cxB_A] =
      .ok { pieces := [.insert [#[120]] [[.ph 0]], .inputs 1 1, .inputs 2 1],
            params := [(0, "2"), (1, "T"), (2, "T")], outputs := [] } ∧
    (bindInputs cxB_tt cxB_tes [cxB_A, cxB_B]).toOption ≠
      (bindInputs cxB_tt cxB_tes [cxB_B, cxB_A]).toOption ∧
    PtrSliceSym cxB_tt [cxB_A, cxB_B] ∧ ¬ SliceCanonOn cxB_tt ([cxB_A, cxB_B].map argKey) := by
  refine ⟨List.Perm.swap _ _ _, rfl, rfl, ?_, by decide +kernel, by decide +kernel⟩
  intro h
  have h2 := congrArg (Option.map Primed.params) h
  revert h2
  decide +kernel

/-! ## 5. non-vacuity -/

/-- `type T struct{ X int "db:x" }`, `type S []int`, `int`, `[]T`, `*T`, `[]*T` -/
def nvTT : TypeTable :=
  #[ { kind := .struct, kindStr := "struct", name := #[84],
       fields := [{ name := #[88], tag := #[120], exported := true, anon := false, ty := 2 }] },  -- 0: T
     { kind := .slice, kindStr := "slice", name := #[83], elem := 2 },   -- 1: S
     { kind := .other, kindStr := "int",   name := #[105, 110, 116] },   -- 2: int
     { kind := .slice, kindStr := "slice", name := #[],   elem := 0 },   -- 3: []T
     { kind := .ptr,   kindStr := "ptr",   name := #[],   elem := 0 },   -- 4: *T
     { kind := .slice, kindStr := "slice", name := #[],   elem := 4 } ]  -- 5: []*T
/-- `&T{X: 7}` (a pointer, dereferenced by `indirect`) -/
def nvA : GoVal := .ptr { t := 4, zero := false, r := "&T" }
  (some (.struct { t := 0, zero := false, r := "T" } [.leaf { t := 2, zero := false, r := "7" }]))
/-- `S{1, 2}` -/
def nvB : GoVal := .slice { t := 1, zero := false, r := "S" }
  [.leaf { t := 2, zero := false, r := "1" }, .leaf { t := 2, zero := false, r := "2" }]
def nvTes : List TExpr := [.input (.field 0 #[84] cxT_f), .input (.slice 1 #[83])]

/-- non-vacuity: the hypotheses of `bindInputs_perm_invariant_partial` hold for a realistic pair of
    arguments, and `bindInputs` succeeds -- with the same result -- in both orders -/
example :
    PtrSliceSym nvTT [nvA, nvB] ∧ SliceCanonOn nvTT ([nvA, nvB].map argKey) ∧
    bindInputs nvTT nvTes [nvA, nvB] =
      .ok { pieces := [.inputs 0 1, .inputs 1 2], params := [(0, "7"), (1, "1"), (2, "2")], outputs := [] } ∧
    bindInputs nvTT nvTes [nvB, nvA] =
      .ok { pieces := [.inputs 0 1, .inputs 1 2], params := [(0, "7"), (1, "1"), (2, "2")], outputs := [] } :=
  ⟨by decide +kernel, by decide +kernel, rfl, rfl⟩

/-- the theorem applied to the non-vacuity data -/
example : (bindInputs nvTT nvTes [nvA, nvB]).toOption = (bindInputs nvTT nvTes [nvB, nvA]).toOption :=
  bindInputs_perm_invariant_partial nvTT nvTes (by decide +kernel) (by decide +kernel)
    (List.Perm.swap _ _ _)

/-- the whole-table hypothesis `SliceCanon` of `bindInputs_perm_invariant_partial'` holds for `nvTT` -/
example : SliceCanon nvTT := (sliceCanon_iff_range nvTT).2 (by decide +kernel)

end Sqlair

/-
Output of `#print axioms` (Lean 4.33.0), run in a scratch copy of this file:

#print axioms Sqlair.validateInputs_ok_iff
  'Sqlair.validateInputs_ok_iff' depends on axioms: [propext, Classical.choice, Quot.sound]
#print axioms Sqlair.validateInputs_perm
  'Sqlair.validateInputs_perm' depends on axioms: [propext, Classical.choice, Quot.sound]
#print axioms Sqlair.addToQuery_perm
  'Sqlair.addToQuery_perm' depends on axioms: [propext, Quot.sound]
#print axioms Sqlair.addToQuery_perm_eq
  'Sqlair.addToQuery_perm_eq' depends on axioms: [propext, Quot.sound]
#print axioms Sqlair.bindInputs_perm_eq_of_accepted_partial
  'Sqlair.bindInputs_perm_eq_of_accepted_partial' depends on axioms: [propext, Classical.choice, Quot.sound]
#print axioms Sqlair.bindInputs_perm_invariant_partial
  'Sqlair.bindInputs_perm_invariant_partial' depends on axioms: [propext, Classical.choice, Quot.sound]
#print axioms Sqlair.bindInputs_perm_invariant_partial'
  'Sqlair.bindInputs_perm_invariant_partial'' depends on axioms: [propext, Classical.choice, Quot.sound]
#print axioms Sqlair.bindInputs_perm_counterexample_named_slice
  'Sqlair.bindInputs_perm_counterexample_named_slice' depends on axioms: [propext]
#print axioms Sqlair.bindInputs_perm_counterexample_named_ptr
  'Sqlair.bindInputs_perm_counterexample_named_ptr' depends on axioms: [propext]
#print axioms Sqlair.bindInputs_perm_counterexample_noncanonical
  'Sqlair.bindInputs_perm_counterexample_noncanonical' depends on axioms: [propext]
#print axioms Sqlair.sliceCanon_iff_range
  'Sqlair.sliceCanon_iff_range' depends on axioms: [propext, Classical.choice, Quot.sound]
-/
