/-
  Typed/Samples: declarative validity of the sample list of Prepare (`SamplesOK`) and its
  equivalence with `generateArgInfo` (C07, part 1).
-/
import SqlairModel.Bind

namespace Sqlair

/-! ### duplicate tags -/

theorem firstDupTag_false_iff : ∀ (fs : List SField) (seen : List Bytes),
    firstDupTag fs seen = false ↔ (fs.map (·.tag)).Nodup ∧ ∀ f ∈ fs, f.tag ∉ seen := by
  intro fs
  induction fs with
  | nil => intro seen; simp [firstDupTag]
  | cons f rest ih =>
    intro seen
    simp only [firstDupTag]
    by_cases hc : seen.contains f.tag = true
    · simp only [hc, if_true]
      constructor
      · intro h; cases h
      · rintro ⟨_, h2⟩
        exact absurd (by simpa using hc) (h2 f (by simp))
    · simp only [hc, Bool.false_eq_true, if_false]
      rw [ih]
      have hc' : f.tag ∉ seen := by simpa using hc
      simp only [List.map_cons, List.nodup_cons, List.mem_map, List.mem_cons, not_exists, not_and,
        not_or]
      constructor
      · rintro ⟨h1, h2⟩
        refine ⟨⟨fun x hx he => (h2 x hx).1 he, h1⟩, ?_⟩
        intro x hx
        rcases hx with rfl | hx
        · exact hc'
        · exact (h2 x hx).2
      · rintro ⟨⟨h1, h2⟩, h3⟩
        exact ⟨h2, fun x hx => ⟨fun he => h1 x hx he, h3 x (Or.inr hx)⟩⟩

/-! ### one sample -/

/-- Declarative description of the info Prepare derives from ONE sample type `tid`:
    * a map type needs a string-kind key;
    * a slice type needs nothing more;
    * a struct type must be structurally valid (`getStructFields` succeeds: every tag parses,
      tagged fields are exported, no embedding cycle) and no two (possibly embedded) fields
      carry the same db tag; its tags are the sorted field tags.
    `getStructFields` is taken as the definition of "the tagged fields of `T`". -/
def SampleInfo (C : Cls) (tt : TypeTable) (tid : Nat) (info : ArgInfo) : Prop :=
  ((tt.get tid).kind = .map ∧ (tt.get (tt.get tid).key).kind = .string ∧
      info = .map tid (tt.get tid).name) ∨
  ((tt.get tid).kind = .slice ∧ info = .slice tid (tt.get tid).name) ∨
  ((tt.get tid).kind = .struct ∧ ∃ fields, getStructFields C tt (tt.size + 1) [] tid = .ok fields ∧
      (fields.map (·.tag)).Nodup ∧
      info = .struct tid (tt.get tid).name fields (sortBytes (fields.map (·.tag))))

theorem getArgInfo_ok_iff {C : Cls} {tt : TypeTable} {tid : Nat} {info : ArgInfo} :
    getArgInfo C tt tid = .ok info ↔ SampleInfo C tt tid info := by
  unfold getArgInfo SampleInfo
  simp only []
  generalize hk : (tt.get tid).kind = k
  cases k
  · -- struct
    simp only [reduceCtorEq, false_and, true_and, false_or]
    cases hg : getStructFields C tt (tt.size + 1) [] tid with
    | error e => simp
    | ok fields =>
      simp only [Except.ok.injEq, exists_eq_left']
      by_cases hd : firstDupTag fields [] = true
      · simp only [hd, if_true, reduceCtorEq, false_iff, not_and]
        intro hn
        have := (firstDupTag_false_iff fields []).2 ⟨hn, by simp⟩
        rw [this] at hd; cases hd
      · simp only [hd, Bool.false_eq_true, if_false, Except.ok.injEq]
        have hd' : firstDupTag fields [] = false := by simpa using hd
        have := ((firstDupTag_false_iff fields []).1 hd').1
        constructor
        · intro h; exact ⟨this, h.symm⟩
        · intro h; exact h.2.symm
  · -- map
    simp only [reduceCtorEq, false_and, true_and, or_false]
    by_cases hs : (tt.get (tt.get tid).key).kind = .string
    · simp [hs, eq_comm]
    · simp [hs]
  · simp [eq_comm]
  all_goals simp

/-! ### the sample list -/

/-- the unqualified name of a sample type -/
def sampleName (tt : TypeTable) (tid : Nat) : Bytes := (tt.get tid).name

/-- Declarative validity of the sample list of Prepare, and the table `infos`
    (type name ↦ info) it yields: no sample is nil (`samples = tids.map some`); every sample
    type has kind struct, map or slice (in particular: is not a pointer) and is named; the
    names are pairwise distinct; `infos` lists, in sample order, each name with the info
    described by `SampleInfo`. -/
def SamplesOK (C : Cls) (tt : TypeTable) (samples : List (Option Nat))
    (infos : List (Bytes × ArgInfo)) : Prop :=
  ∃ tids : List Nat, samples = tids.map some ∧
    (∀ tid ∈ tids, ((tt.get tid).kind = .struct ∨ (tt.get tid).kind = .map ∨ (tt.get tid).kind = .slice) ∧
      (sampleName tt tid).size ≠ 0) ∧
    (tids.map (sampleName tt)).Nodup ∧
    infos.length = tids.length ∧
    ∀ x ∈ tids.zip infos, x.2.1 = sampleName tt x.1 ∧ SampleInfo C tt x.1 x.2.2

theorem SampleInfo.kind {C : Cls} {tt : TypeTable} {tid : Nat} {info : ArgInfo}
    (h : SampleInfo C tt tid info) :
    (tt.get tid).kind = .struct ∨ (tt.get tid).kind = .map ∨ (tt.get tid).kind = .slice := by
  rcases h with h | h | h
  · exact Or.inr (Or.inl h.1)
  · exact Or.inr (Or.inr h.1)
  · exact Or.inl h.1

/-- one step of `generateArgInfo` -/
theorem generateArgInfo_cons_some {C : Cls} {tt : TypeTable} (tid : Nat) (rest : List (Option Nat))
    (acc infos : List (Bytes × ArgInfo)) :
    generateArgInfo C tt (some tid :: rest) acc = .ok infos ↔
      ∃ info, SampleInfo C tt tid info ∧ (sampleName tt tid).size ≠ 0 ∧
        (∀ p ∈ acc, p.1 ≠ sampleName tt tid) ∧
        generateArgInfo C tt rest (acc ++ [(sampleName tt tid, info)]) = .ok infos := by
  have key : ∀ (hk : (tt.get tid).kind = .struct ∨ (tt.get tid).kind = .map ∨ (tt.get tid).kind = .slice),
      generateArgInfo C tt (some tid :: rest) acc =
        if (tt.get tid).name.size == 0 then .error "sample-anonymous" else
        match getArgInfo C tt tid with
        | .error e => .error e
        | .ok info =>
          if acc.any (fun p => p.1 == (tt.get tid).name) then .error "sample-duplicate-name"
          else generateArgInfo C tt rest (acc ++ [((tt.get tid).name, info)]) := by
    intro hk
    rw [generateArgInfo]
    rcases hk with hk | hk | hk <;> simp only [hk] <;> rfl
  by_cases hk : (tt.get tid).kind = .struct ∨ (tt.get tid).kind = .map ∨ (tt.get tid).kind = .slice
  · rw [key hk]
    unfold sampleName
    by_cases hn : (tt.get tid).name.size = 0
    · simp [hn]
    · simp only [beq_iff_eq, hn, if_false]
      cases hg : getArgInfo C tt tid with
      | error e =>
        simp only [reduceCtorEq, false_iff, not_exists, not_and]
        intro info hi
        rw [← getArgInfo_ok_iff, hg] at hi; cases hi
      | ok info =>
        simp only
        by_cases hd : acc.any (fun p => p.1 == (tt.get tid).name) = true
        · simp only [hd, if_true, reduceCtorEq, false_iff, not_exists, not_and]
          intro _ _ _ hall
          simp only [List.any_eq_true, beq_iff_eq] at hd
          obtain ⟨p, hp, he⟩ := hd
          exact absurd he (hall p hp)
        · simp only [hd, Bool.false_eq_true, if_false]
          have hd' : ∀ p ∈ acc, p.1 ≠ (tt.get tid).name := by
            intro p hp he
            exact hd (List.any_eq_true.2 ⟨p, hp, by simpa using he⟩)
          constructor
          · intro h
            exact ⟨info, getArgInfo_ok_iff.1 hg, hn, hd', h⟩
          · rintro ⟨info', hi, _, _, h⟩
            rw [← getArgInfo_ok_iff, hg] at hi
            cases hi; exact h
  · have : generateArgInfo C tt (some tid :: rest) acc ≠ .ok infos := by
      rw [generateArgInfo]
      generalize hkk : (tt.get tid).kind = k at hk
      cases k <;> simp at hk ⊢
    simp only [this, false_iff, not_exists, not_and]
    intro info hi
    exact absurd hi.kind hk

/-- `generateArgInfo` with an accumulator: the result extends the accumulator by one entry per
    sample -/
theorem generateArgInfo_acc_ok_iff {C : Cls} {tt : TypeTable} :
    ∀ (samples : List (Option Nat)) (acc infos : List (Bytes × ArgInfo)),
    generateArgInfo C tt samples acc = .ok infos ↔
      ∃ (tids : List Nat) (new : List (Bytes × ArgInfo)), samples = tids.map some ∧ infos = acc ++ new ∧
        (∀ tid ∈ tids, (sampleName tt tid).size ≠ 0) ∧
        (tids.map (sampleName tt)).Nodup ∧
        (∀ tid ∈ tids, ∀ p ∈ acc, p.1 ≠ sampleName tt tid) ∧
        new.length = tids.length ∧
        ∀ x ∈ tids.zip new, x.2.1 = sampleName tt x.1 ∧ SampleInfo C tt x.1 x.2.2 := by
  intro samples
  induction samples with
  | nil =>
    intro acc infos
    simp only [generateArgInfo, Except.ok.injEq]
    constructor
    · rintro rfl; exact ⟨[], [], by simp⟩
    · rintro ⟨tids, new, h1, h2, _, _, _, h6, _⟩
      have : tids = [] := by simpa using h1.symm
      subst this
      have : new = [] := by simpa using h6
      subst this
      simp [h2]
  | cons smp rest ih =>
    intro acc infos
    cases smp with
    | none =>
      simp only [generateArgInfo, reduceCtorEq, false_iff, not_exists, not_and]
      intro tids new h1
      cases tids <;> simp at h1
    | some tid =>
      rw [generateArgInfo_cons_some]
      constructor
      · rintro ⟨info, hi, hn, hacc, hrest⟩
        obtain ⟨tids, new, h1, h2, h3, h4, h5, h6, h7⟩ := (ih _ _).1 hrest
        refine ⟨tid :: tids, (sampleName tt tid, info) :: new, by simp [h1], by simp [h2], ?_, ?_, ?_, by simp [h6], ?_⟩
        · intro t ht
          rcases List.mem_cons.1 ht with rfl | ht
          · exact hn
          · exact h3 t ht
        · rw [List.map_cons, List.nodup_cons]
          refine ⟨?_, h4⟩
          intro hm
          obtain ⟨t, ht, he⟩ := List.mem_map.1 hm
          exact h5 t ht (sampleName tt tid, info) (by simp) he.symm
        · intro t ht p hp
          rcases List.mem_cons.1 ht with rfl | ht
          · exact hacc p hp
          · exact h5 t ht p (List.mem_append_left _ hp)
        · intro x hx
          rw [List.zip_cons_cons, List.mem_cons] at hx
          rcases hx with rfl | hx
          · exact ⟨rfl, hi⟩
          · exact h7 x hx
      · rintro ⟨tids, new, h1, h2, h3, h4, h5, h6, h7⟩
        cases tids with
        | nil => simp at h1
        | cons t tids =>
          simp only [List.map_cons, List.cons.injEq, Option.some.injEq] at h1
          obtain ⟨rfl, h1⟩ := h1
          cases new with
          | nil => simp at h6
          | cons p new =>
            have hp := h7 (tid, p) (by simp)
            obtain ⟨pn, pi⟩ := p
            simp only at hp
            obtain ⟨rfl, hi⟩ := hp
            rw [List.map_cons, List.nodup_cons] at h4
            refine ⟨pi, hi, h3 tid (by simp), fun p hp => h5 tid (by simp) p hp, ?_⟩
            rw [ih]
            refine ⟨tids, new, h1, by simp [h2], fun t ht => h3 t (List.mem_cons_of_mem _ ht), h4.2, ?_,
              by simpa using h6, fun x hx => h7 x (by rw [List.zip_cons_cons]; exact List.mem_cons_of_mem _ hx)⟩
            intro t ht p hp
            rcases List.mem_append.1 hp with hp | hp
            · exact h5 t (List.mem_cons_of_mem _ ht) p hp
            · simp only [List.mem_singleton] at hp
              subst hp
              intro he
              exact h4.1 (List.mem_map.2 ⟨t, ht, he.symm⟩)

/-- C07 part 1: `generateArgInfo` succeeds with `infos` iff the sample list is valid and yields
    `infos` -/
theorem generateArgInfo_nil_ok_iff {C : Cls} {tt : TypeTable} {samples : List (Option Nat)}
    {infos : List (Bytes × ArgInfo)} :
    generateArgInfo C tt samples [] = .ok infos ↔ SamplesOK C tt samples infos := by
  rw [generateArgInfo_acc_ok_iff]
  unfold SamplesOK
  constructor
  · rintro ⟨tids, new, h1, h2, h3, h4, _, h6, h7⟩
    simp only [List.nil_append] at h2
    subst h2
    refine ⟨tids, h1, ?_, h4, h6, h7⟩
    intro tid ht
    refine ⟨?_, h3 tid ht⟩
    -- the kind follows from `SampleInfo`
    obtain ⟨i, hi, rfl⟩ := List.getElem_of_mem ht
    have hi' : i < infos.length := by omega
    have := h7 (tids[i], infos[i]) (by
      rw [List.mem_iff_getElem]
      exact ⟨i, by simp [List.length_zip]; omega, by simp⟩)
    exact this.2.kind
  · rintro ⟨tids, h1, h2, h3, h4, h5⟩
    exact ⟨tids, infos, h1, by simp, fun t ht => (h2 t ht).2, h3, by simp, h4, h5⟩

/-! ### consequences -/

/-- the names (keys) of the info table are the sample names, in order -/
theorem SamplesOK.keys {C : Cls} {tt : TypeTable} {samples : List (Option Nat)}
    {infos : List (Bytes × ArgInfo)} (h : SamplesOK C tt samples infos) :
    ∃ tids : List Nat, samples = tids.map some ∧ infos.map (·.1) = tids.map (sampleName tt) := by
  obtain ⟨tids, h1, _, _, h4, h5⟩ := h
  refine ⟨tids, h1, ?_⟩
  apply List.ext_getElem (by simp [h4])
  intro i hi1 hi2
  simp only [List.length_map] at hi1 hi2
  simp only [List.getElem_map]
  exact (h5 (tids[i], infos[i]) (by
    rw [List.mem_iff_getElem]
    exact ⟨i, by simp [List.length_zip]; omega, by simp⟩)).1

/-- the keys of the info table are pairwise distinct -/
theorem SamplesOK.nodup_keys {C : Cls} {tt : TypeTable} {samples : List (Option Nat)}
    {infos : List (Bytes × ArgInfo)} (h : SamplesOK C tt samples infos) :
    (infos.map (·.1)).Nodup := by
  obtain ⟨tids, h0, hk⟩ := h.keys
  obtain ⟨tids', h1, _, h3, _⟩ := h
  rw [hk]
  have : tids = tids' := by
    rw [h0] at h1
    exact (List.map_inj_right (f := some) (by intro a b h; cases h; rfl)).1 h1
  subst this
  exact h3

end Sqlair
