/-
  Driver/Rt: JSON glue for the runtime layers (L4 scripted operations, L5 cache histories,
  L3 scans).
-/
import Lean.Data.Json
import SqlairModel.Spec.L4
import Driver.Json

open Lean Sqlair Sqlair.Rt

namespace Driver

def optInt (j : Json) (k : String) : Option Nat :=
  match j.getObjVal? k with
  | .ok v => match v.getInt? with
    | .ok i => if i < 0 then none else some i.toNat
    | .error _ => none
  | .error _ => none

def strList (j : Json) (k : String) : List String :=
  (optList j k).toList.filterMap fun x => x.getStr?.toOption

def natList (j : Json) (k : String) : List Nat :=
  (optList j k).toList.filterMap fun x => x.getNat?.toOption

def gb (j : Json) (k : String) : Bool := (getBool j k).toOption.getD false
def gs (j : Json) (k : String) : String := (getStr j k).toOption.getD ""
def gn (j : Json) (k : String) : Nat := (optNat j k).getD 0

def parseL4Case (j : Json) : Rt.Case :=
  { hasOutputs := gb j "hasOutputs", path := gs j "path", ctx := gs j "ctx", nrows := gn j "nrows",
    badRow := optInt j "badRow", fetchErrAt := optInt j "fetchErrAt", closeErr := gb j "closeErr",
    prepareErr := gb j "prepareErr", runErr := gb j "runErr", txEnd := gs j "txEnd",
    finishers := strList j "finishers", concurrent := gn j "concurrent", op := gs j "op",
    dests := gs j "dests", calls := strList j "calls", cancelAt := optInt j "cancelAt" }

def parseL4Obs (j : Json) : Rt.Obs :=
  { returns := strList j "returns", events := strList j "events", eventCtx := strList j "eventCtx",
    eventConn := natList j "eventConn", inUse := gn j "inUse", openRows := gn j "openRows",
    doubleClose := gn j "doubleClose", closedUse := gn j "closedUse", stored := gn j "stored",
    priorKept := gb j "priorKept", appended := natList j "appended", outcome := gs j "outcome",
    finish := strList j "finish", winners := gn j "winners" }

def predJson (p : Rt.Pred) : Json :=
  Json.mkObj [("returns", Json.arr (p.returns.map Json.str).toArray),
    ("events", Json.arr (p.log.map (fun e => Json.str e.render)).toArray),
    ("inUse", (p.inUse : Json)), ("stored", (p.stored : Json)),
    ("appended", Json.arr (p.appended.map (fun (n : Nat) => (n : Json))).toArray),
    ("outcome", Json.str p.outcome), ("finish", Json.arr (p.finish.map Json.str).toArray)]

def handleL4 (j : Json) : Except String Json := do
  let c := parseL4Case (← j.getObjVal? "case")
  let o := parseL4Obs (← j.getObjVal? "obs")
  let p := predict c
  let ds := diffs c p o
  pure (Json.mkObj
    [("model", predJson p),
     ("agree", Json.bool ds.isEmpty),
     ("affects", Json.arr (ds.map (fun d => Json.str d.1)).eraseDups.toArray),
     ("diff", Json.str (String.intercalate "; " (ds.map (·.2)))),
     ("c12", Json.bool (holdsC12 c o)), ("c13", Json.bool (holdsC13 c o)),
     ("c14", Json.bool (holdsC14 c o)), ("c15", Json.bool (holdsC15 c o)),
     ("c20", Json.bool (holdsC20 c o))])

def handleRt (j : Json) : Except String Json := do
  match gs j "sub" with
  | "l4" => handleL4 j
  | s => throw s!"unknown runtime sub-layer {s}"

end Driver
