/-
  Props/E2E: end-to-end compositions of the layer theorems.

  A. C01 end to end (parse → bindTypes → bindInputs → renderSQL): every byte that is not part
     of a SQLair expression is preserved exactly once and in order; a query without SQLair
     expressions is sent unchanged.
  B. C17 composition (bindInputs → execInsert → selectRow → scanGet): what is inserted through
     `(*) VALUES ($T.*)` comes back through `&T.*`, omitted members come back as zero values.
  C. C07, declarative piece: what a successful `bindTypes` says about samples and nodes.
  Helper lemmas live in `SqlairProofs/E2E/*.lean`.
-/
import SqlairProofs.E2E.C01
import SqlairProofs.E2E.RoundTrip
import SqlairProofs.E2E.Prepared
import SqlairProofs.E2E.Uses
import SqlairProofs.E2E.NodeShape
import SqlairProofs.Props.Bind

namespace Sqlair

/-! ## fixture of the non-vacuity examples of part A

  `SELECT &U.* FROM t WHERE c=$U.c` against `PrepExample.tt` (struct `U` with field `C`
  tagged `c`), sample `U`, argument `U{C: "c"}`. -/
namespace E2EEx

-- decidable equality of results, for the `decide +kernel` evaluations of the fixtures only
-- (declared in this namespace so that the instance names cannot clash)
deriving instance DecidableEq for Except
deriving instance DecidableEq for Loc, Piece, Primed

def E : Env := asciiEnv "SELECT &U.* FROM t WHERE c=$U.c"

def segs : List Seg := [
  { kind := .bypass, a := 0, b := 7 },
  { kind := .output, a := 7, b := 11, types := [{ ty := #[85], member := star }] },
  { kind := .bypass, a := 11, b := 27 },
  { kind := .member, a := 27, b := 31, types := [{ ty := #[85], member := #[99] }] } ]

theorem parse_E : parse E = .ok segs := by decide +kernel

def args : List GoVal := [.struct { t := 2, zero := false, r := "" } [.leaf { t := 3, zero := false, r := "c" }]]

def pq : Primed :=
  { pieces := [.text (Bytes.ofString "SELECT "), .outputs 0 [#[99]],
      .text (Bytes.ofString " FROM t WHERE c="), .inputs 0 1],
    params := [(0, "c")],
    outputs := [.field 2 #[85] PrepExample.fc] }

theorem prepare_E : prepareAndBind E PrepExample.C PrepExample.tt [some 2] args = some pq := by
  decide +kernel

/-- a query without expressions -/
def E0 : Env := asciiEnv "SELECT 'a$b' FROM t -- &T.*\n"

theorem parse_E0 : parseNodes E0 = some [(.bypass, 0, 28)] := by decide +kernel

end E2EEx

/-! ## A1 -/

/-- A1: the SQL text is the in-order concatenation of the renderings of the pieces
    (`concatBytes l = l.foldl (· ++ ·) #[]`) -/
theorem sql_is_concat_of_piece_renders (ps : List Piece) :
    renderSQL ps = (ps.map Piece.render).foldl (· ++ ·) #[] :=
  renderSQL_eq_concat ps

/-- A1, flatten form: as a list of bytes the SQL is the flattening of the rendered pieces -/
theorem sql_is_flatten_of_piece_renders (ps : List Piece) :
    (renderSQL ps).toList = (ps.map fun p => p.render.toList).flatten := by
  rw [renderSQL_eq_concat, concatBytes_toList, List.map_map]; rfl

example : renderSQL E2EEx.pq.pieces = Bytes.ofString "SELECT c AS _sqlair_0 FROM t WHERE c=@sqlair_0" := by
  decide +kernel

/-! ## A2 -/

/-- A2: the pieces of the generated SQL correspond one to one, in order, to the nodes of the
    parse: a bypass node becomes the text piece carrying its raw text `inp[a:b)` verbatim, an
    input node (`$T.m`, `$S[:]`) an `.inputs` piece, an insert node an `.insert` piece, an
    output node an `.outputs` piece (`NodePiece`); in particular no expression node becomes a
    text piece. -/
theorem c01_sql_structure {E : Env} {C : Cls} {tt : TypeTable} {samples : List (Option Nat)}
    {args : List GoVal} {pq : Primed} {segs : List Seg}
    (h : prepareAndBind E C tt samples args = some pq) (hp : parse E = .ok segs) :
    pq.pieces.length = segs.length ∧
    ∀ (i : Nat) (hi : i < segs.length) (hi' : i < pq.pieces.length),
      NodePiece segs[i].kind (E.inp.extract segs[i].a segs[i].b) pq.pieces[i] ∧
      (segs[i].kind = .bypass → pq.pieces[i] = .text (E.inp.extract segs[i].a segs[i].b)) ∧
      (segs[i].kind ≠ .bypass → pq.pieces[i].isText = false) := by
  obtain ⟨segs', tes, hp', hb, hq⟩ := prepareAndBind_some h
  rw [hp] at hp'; cases hp'
  have hc := parse_bind_pieces hb hq
  refine ⟨hc.1, fun i hi hi' => ?_⟩
  have := hc.getElem i hi hi'
  exact ⟨this, fun hk => by rw [hk] at this; exact this.bypass, fun hk => this.not_text hk⟩

/-- non-vacuity: the fixture goes through the whole pipeline, and the theorem applies -/
example : E2EEx.pq.pieces.length = 4 ∧
    E2EEx.pq.pieces[2]? = some (.text (E2EEx.E.inp.extract 11 27)) :=
  ⟨(c01_sql_structure E2EEx.prepare_E E2EEx.parse_E).1, by
    have := ((c01_sql_structure E2EEx.prepare_E E2EEx.parse_E).2 2 (by decide) (by decide)).2.1 rfl
    rw [List.getElem?_eq_getElem (by decide), this]; rfl⟩

/-- A2 + C01 (parser part): end to end.
    1. the nodes tile the input: consecutive spans from `0` to `len`, and the input is the
       in-order concatenation of the raw texts `inp[a_i:b_i)`;
    2. the SQL is the *same* concatenation with the raw text of every expression node replaced
       by the rendering of the piece at the same position, every bypass text kept verbatim
       (`expansion`);
    3. an offset of the input lies in a bypass span iff it lies in no expression span: the
       bypass spans are exactly the complement of the expression spans in `[0, len)`. -/
theorem c01_end_to_end {E : Env} (hd : DecOK E) {C : Cls} {tt : TypeTable} {samples : List (Option Nat)}
    {args : List GoVal} {pq : Primed} {segs : List Seg}
    (h : prepareAndBind E C tt samples args = some pq) (hp : parse E = .ok segs) :
    SpansChain 0 E.len segs ∧
    E.inp = concatBytes (segs.map fun s => E.inp.extract s.a s.b) ∧
    pq.pieces.length = segs.length ∧
    renderSQL pq.pieces = concatBytes ((segs.zip pq.pieces).map fun sp =>
      if sp.1.kind = .bypass then E.inp.extract sp.1.a sp.1.b else sp.2.render) ∧
    (∀ x, x < E.len →
      ((∃ s ∈ segs, s.kind = .bypass ∧ s.a ≤ x ∧ x < s.b) ↔
        ¬ ∃ s ∈ segs, s.kind ≠ .bypass ∧ s.a ≤ x ∧ x < s.b)) := by
  obtain ⟨segs', tes, hp', hb, hq⟩ := prepareAndBind_some h
  rw [hp] at hp'; cases hp'
  have hchain := c01_spans_chain E hd segs hp
  have hc := parse_bind_pieces hb hq
  refine ⟨hchain, (concat_spans hchain (Nat.le_refl _)).symm, hc.1, ?_, hchain.bypass_complement⟩
  rw [renderSQL_eq_concat, expansion_eq hc]; rfl

example : renderSQL E2EEx.pq.pieces = concatBytes
    [E2EEx.E.inp.extract 0 7, (Piece.outputs 0 [#[99]]).render, E2EEx.E.inp.extract 11 27,
      (Piece.inputs 0 1).render] :=
  (c01_end_to_end (asciiEnv_DecOK _) E2EEx.prepare_E E2EEx.parse_E).2.2.2.1

/-! ## A3 -/

/-- A3: a query whose parse contains no SQLair expression (every node is a bypass node)
    prepares with no type samples and binds with no arguments, and the SQL sent to the
    database is the query text, unchanged; there are no parameters and no outputs. -/
theorem c01_no_expression_unchanged {E : Env} (hd : DecOK E) (C : Cls) (tt : TypeTable) {segs : List Seg}
    (hp : parse E = .ok segs) (hall : ∀ s ∈ segs, s.kind = .bypass) :
    ∃ tes pq, bindTypes C tt (segs.map (Seg.toOSeg E.inp)) [] = .ok tes ∧
      bindInputs tt tes [] = .ok pq ∧ prepareAndBind E C tt [] [] = some pq ∧
      renderSQL pq.pieces = E.inp ∧ pq.params = [] ∧ pq.outputs = [] := by
  have hall' : ∀ s ∈ segs.map (Seg.toOSeg E.inp), s.kind = .bypass := by
    intro s hs
    obtain ⟨s0, hs0, rfl⟩ := List.mem_map.1 hs
    exact hall s0 hs0
  have hb : bindTypes C tt (segs.map (Seg.toOSeg E.inp)) [] =
      .ok ((segs.map fun s => E.inp.extract s.a s.b).map TExpr.bypass) := by
    rw [bindTypes_all_bypass C tt _ hall']
    simp [List.map_map, Function.comp_def, Seg.toOSeg]
  have hq := bindInputs_all_bypass tt (segs.map fun s => E.inp.extract s.a s.b)
  refine ⟨_, _, hb, hq, prepareAndBind_of hp hb hq, ?_, rfl, rfl⟩
  show renderSQL (List.map Piece.text _) = _
  rw [renderSQL_texts]
  exact concat_spans (c01_spans_chain E hd segs hp) (Nat.le_refl _)

/-- A3, as a statement about any successful preparation without samples: the result of
    `bindInputs` without arguments is determined and renders to the input -/
theorem c01_no_expression_unchanged' {E : Env} (hd : DecOK E) {C : Cls} {tt : TypeTable} {segs : List Seg}
    {tes : List TExpr} (hp : parse E = .ok segs) (hall : ∀ s ∈ segs, s.kind = .bypass)
    (hb : bindTypes C tt (segs.map (Seg.toOSeg E.inp)) [] = .ok tes) :
    ∃ pq, bindInputs tt tes [] = .ok pq ∧ renderSQL pq.pieces = E.inp ∧ pq.params = [] ∧ pq.outputs = [] := by
  obtain ⟨tes', pq, hb', hq, _, h1, h2, h3⟩ := c01_no_expression_unchanged hd C tt hp hall
  rw [hb] at hb'; cases hb'
  exact ⟨pq, hq, h1, h2, h3⟩

/-- non-vacuity: a query with a `$` inside a string literal and a `&T.*` inside a comment
    parses into a single bypass node, so it is sent unchanged -/
example : ∃ pq, prepareAndBind E2EEx.E0 PrepExample.C PrepExample.tt [] [] = some pq ∧
    renderSQL pq.pieces = E2EEx.E0.inp := by
  have hp : ∃ segs, parse E2EEx.E0 = .ok segs ∧ ∀ s ∈ segs, s.kind = .bypass := by
    have h := E2EEx.parse_E0
    unfold parseNodes at h
    split at h
    · rename_i segs hs
      refine ⟨segs, hs, ?_⟩
      intro s hs
      have h' : segs.map (fun s => (s.kind, s.a, s.b)) = [(.bypass, 0, 28)] := by simpa using h
      have : (s.kind, s.a, s.b) ∈ segs.map (fun s => (s.kind, s.a, s.b)) := List.mem_map_of_mem hs
      rw [h'] at this
      simp at this
      exact this.1
    · cases h
  obtain ⟨segs, hp, hall⟩ := hp
  obtain ⟨_, pq, _, _, h3, h4, _⟩ := c01_no_expression_unchanged (asciiEnv_DecOK _) PrepExample.C PrepExample.tt hp hall
  exact ⟨pq, h3, h4⟩

/-! ## B. C17: insert → store → select → scan

  Interfaces composed:
  * bind layer: `insert_omit_spec`, `insert_cell_spec`, `insert_row_count`, `params_nodup`
    (Props/Bind.lean) through `insert_store_bindInputs` (E2E/InsertStore.lean);
  * store: `store_roundtrip`, `unwritten_column_is_null` (Props/Store.lean);
  * scan: `scan_by_alias`, `scan_every_output_assigned`, `untouched_members` (Props/Scan.lean)
    through `scan_fields` (E2E/RoundTrip.lean).

  `fieldCols tid n fields` are the typed columns of `(*) VALUES ($T.*)` (one
  `TCol.insert (.field tid n f) f.tag false` per field), `fieldOutputs tid n fields` the outputs
  of `&T.*` (the locators of the same fields in the same order), `aliasCols k` the result
  columns `_sqlair_0 … _sqlair_(k-1)`, `selectRow tags srow` the values the engine model
  returns for `SELECT tag_0 AS _sqlair_0, …` on stored row `srow`, `p.rowVal r` row `r` of the
  values `locateParams` produced (element `r` of a bulk slice, the single value otherwise). -/

/-- C17 (partial): composition of the bind, store and scan layers.  If `bindInputs` accepts a
    query whose typed expressions contain the insert expression of `(*) VALUES ($T.*)` for a
    struct with pairwise distinct tags, then its piece is an `.insert names rows` with at least
    one row, every field has located values `p`, `names` are the tags of the members that are
    not omitted, and for every store state `stored` produced by executing that piece with the
    parameters of the query: there is one stored row per tuple, and for every stored row `r`
    and every *successful* `Get` of the row that the select of all tags returns for it, with a
    conversion that is the identity on non-NULL values, the destination of type `T` holds
    * for every member that was not omitted: exactly `p.rowVal r`, the text inserted for that
      member and row;
    * for every omitted member: the zero value (plain field), nil (pointer field) or the
      Scanner's conversion of NULL.
    What remains assumed (the gaps): (1) the typed columns/outputs are given in the shape
    `bindTypes` produces for `(*) VALUES ($T.*)` / `&T.*` (`fieldCols` / `fieldOutputs`: the
    same fields in the same order; closed for prepared statements by
    `c17_roundtrip_prepared_partial` below); (2) the
    engine is the toy store: it returns the columns in select order under their aliases;
    (3) `Get` succeeds and the destinations are well formed (`WFOut`: distinct field paths);
    (4) the conversion is the identity on non-NULL texts. -/
theorem c17_roundtrip_partial {tt : TypeTable} {tid : Nat} {n : Bytes} {fields : List SField}
    {pre post : List TExpr} {args : List GoVal} {pq : Primed}
    (htags : (fields.map (·.tag)).Nodup)
    (hq : bindInputs tt (pre ++ .insert (fieldCols tid n fields) :: post) args = .ok pq) :
    ∃ m names rows, validateInputs tt args [] = .ok m ∧
      pq.pieces[pre.length]? = some (.insert names rows) ∧ 1 ≤ rows.length ∧
      (∀ f ∈ fields, ∃ p, locateParams tt m (.field tid n f) = .ok p ∧
        (p.bulk = true → p.vals.length = rows.length) ∧ (f.tag ∈ names ↔ p.om = false)) ∧
      ∀ stored, execInsert names rows pq.params = some stored →
        stored.length = rows.length ∧
        ∀ (r : Nat) (srow : SRow), stored[r]? = some srow →
        ∀ (E : ScanEnv) (dests dests' : List Dest) (di : Nat) (d : Dest),
          (∀ v t, E.conv (some v) t = some v) →
          scanGet E tt (fieldOutputs tid n fields) (aliasCols fields.length)
            (selectRow (fields.map (·.tag)) srow) dests = (dests', none) →
          WFOut (fieldOutputs tid n fields) dests → dests[di]? = some d → d.tid = tid →
          ∃ d', dests'[di]? = some d' ∧
            ∀ f ∈ fields, ∀ p, locateParams tt m (.field tid n f) = .ok p →
              (p.om = false → ∃ v, p.rowVal r = some v ∧ d'.fieldVal f.index = some (some v)) ∧
              (p.om = true →
                match fieldCat tt (fieldTypeOf tt tid f.index true) with
                | .proxy => d'.fieldVal f.index = some (some (E.zeroText (fieldTypeOf tt tid f.index true)))
                | .directPtr _ => d'.fieldVal f.index = some (some E.nilText)
                | .directScanner => ∃ txt, E.conv none (fieldTypeOf tt tid f.index true) = some txt ∧
                    d'.fieldVal f.index = some (some txt)) := by
  obtain ⟨m, names, rows, hm, hpiece, hst⟩ := insert_store_bindInputs htags hq
  refine ⟨m, names, rows, hm, hpiece, hst.rows_pos, hst.located, ?_⟩
  intro stored hexec
  obtain ⟨hlen, hrows⟩ := hst.stored stored hexec
  refine ⟨hlen, ?_⟩
  intro r srow hr E dests dests' di d hconv hget hwf hd htid
  obtain ⟨d', hd', hscan⟩ := scan_fields hget hwf hd htid
  refine ⟨d', hd', ?_⟩
  intro f hf p hp
  obtain ⟨k, hkl, hfk⟩ := List.mem_iff_getElem.1 hf
  have hk : fields[k]? = some f := by rw [List.getElem?_eq_getElem hkl, hfk]
  obtain ⟨v, txt, hv, hex, hval⟩ := hscan k f hk
  rw [selectRow_getElem? _ _ k f.tag (by simp [hk])] at hv
  cases hv
  obtain ⟨hkept, hom⟩ := hrows r srow hr f hf p hp
  constructor
  · intro hp0
    obtain ⟨v, hv, hg⟩ := hkept hp0
    rw [hg, expectedText_field_some hconv] at hex
    injection hex with hex
    rw [← hex] at hval
    exact ⟨v, hv, hval⟩
  · intro hp1
    rw [hom hp1] at hex
    simp only [expectedText] at hex
    cases hcat : fieldCat tt (fieldTypeOf tt tid f.index true) with
    | proxy => simp only [hcat, Option.some.injEq] at hex ⊢; rw [hval, hex]
    | directPtr e => simp only [hcat, Option.some.injEq] at hex ⊢; rw [hval, hex]
    | directScanner => simp only [hcat] at hex ⊢; exact ⟨txt, hex, hval⟩

/-- C17 for a struct whose fields are all plain (scanned through a proxy): omitted members
    come back as the zero value of their type -/
theorem c17_roundtrip_proxy_partial {tt : TypeTable} {tid : Nat} {n : Bytes} {fields : List SField}
    {pre post : List TExpr} {args : List GoVal} {pq : Primed}
    (htags : (fields.map (·.tag)).Nodup)
    (hproxy : ∀ f ∈ fields, fieldCat tt (fieldTypeOf tt tid f.index true) = .proxy)
    (hq : bindInputs tt (pre ++ .insert (fieldCols tid n fields) :: post) args = .ok pq) :
    ∃ m names rows, validateInputs tt args [] = .ok m ∧
      pq.pieces[pre.length]? = some (.insert names rows) ∧ 1 ≤ rows.length ∧
      (∀ f ∈ fields, ∃ p, locateParams tt m (.field tid n f) = .ok p ∧
        (p.bulk = true → p.vals.length = rows.length) ∧ (f.tag ∈ names ↔ p.om = false)) ∧
      ∀ stored, execInsert names rows pq.params = some stored →
        stored.length = rows.length ∧
        ∀ (r : Nat) (srow : SRow), stored[r]? = some srow →
        ∀ (E : ScanEnv) (dests dests' : List Dest) (di : Nat) (d : Dest),
          (∀ v t, E.conv (some v) t = some v) →
          scanGet E tt (fieldOutputs tid n fields) (aliasCols fields.length)
            (selectRow (fields.map (·.tag)) srow) dests = (dests', none) →
          WFOut (fieldOutputs tid n fields) dests → dests[di]? = some d → d.tid = tid →
          ∃ d', dests'[di]? = some d' ∧
            ∀ f ∈ fields, ∀ p, locateParams tt m (.field tid n f) = .ok p →
              (p.om = false → ∃ v, p.rowVal r = some v ∧ d'.fieldVal f.index = some (some v)) ∧
              (p.om = true →
                d'.fieldVal f.index = some (some (E.zeroText (fieldTypeOf tt tid f.index true)))) := by
  obtain ⟨m, names, rows, h1, h2, h3, h4, h5⟩ := c17_roundtrip_partial htags hq
  refine ⟨m, names, rows, h1, h2, h3, h4, ?_⟩
  intro stored hexec
  obtain ⟨h6, h7⟩ := h5 stored hexec
  refine ⟨h6, ?_⟩
  intro r srow hr E dests dests' di d hconv hget hwf hd htid
  obtain ⟨d', hd', h8⟩ := h7 r srow hr E dests dests' di d hconv hget hwf hd htid
  refine ⟨d', hd', ?_⟩
  intro f hf p hp
  obtain ⟨h9, h10⟩ := h8 f hf p hp
  refine ⟨h9, fun hp1 => ?_⟩
  have := h10 hp1
  rw [hproxy f hf] at this
  exact this

/-- reading of `p.rowVal r` in `c17_roundtrip_partial` in terms of the Go argument values:
    either the argument of type `T` itself is given, and `p.rowVal r` is the text of member `f`
    of that value (the member is omitted iff it is zero and tagged `omitempty`); or a bulk
    slice `[]T` / `[]*T` is given, and `p.rowVal r` is the text of member `f` of its element
    `r`.  So "what comes back in row `r`" is member `f` of the `r`-th inserted struct. -/
theorem c17_rowVal_is_argument_member {tt : TypeTable} {m : TypeToValue} {tid : Nat} {n : Bytes} {f : SField}
    {p : Params} (hp : locateParams tt m (.field tid n f) = .ok p) :
    (∃ s v, ttvGet m tid = some s ∧ fieldByIndex s f.index true = .ok v ∧ p.bulk = false ∧
      p.om = (v.h.zero && f.omitEmpty) ∧ ∀ r, p.rowVal r = some v.h.r) ∨
    (∃ h els, ttvGet m tid = none ∧ locateBulk tt m tid = some (.slice h els) ∧ p.bulk = true ∧
      ∀ (r : Nat) (e : GoVal), els[r]? = some e → ∃ s v, bulkElem e = .ok s ∧
        fieldByIndex s f.index true = .ok v ∧ p.rowVal r = some v.h.r) :=
  locateParams_field_rowVal hp

/-- C17 for *prepared* statements (gap (1) of `c17_roundtrip_partial` closed): an INSERT
    statement whose node `i` is `(*) VALUES ($T.*)` and a SELECT statement whose only output
    node is `&T.*`, both prepared by `bindTypes` with the same type `tid` among their samples.
    Then `T` is a struct; with `fs = starFieldsOf fields tags` its members in tag order:
    the SELECT's column list (`pqS.pieces.flatMap Piece.outCols`) is the tags of `fs`, its
    aliases are `0 … fs.length-1`, and for every store state produced by executing the insert
    piece with the parameters of the INSERT, every stored row `r` and every successful `Get`
    of the row the engine model returns for the SELECT (columns named by the aliases, values
    `selectRow` of the column list) into well-formed destinations, with a conversion that is
    the identity on non-NULL values: every member that was not omitted holds the text
    inserted for it in row `r`, every omitted member its zero value / nil / conversion of NULL.
    The distinctness of the tags is proved (`starFields_tags_nodup`), not assumed. -/
theorem c17_roundtrip_prepared_partial {C : Cls} {tt : TypeTable} {tid : Nat}
    {segsI segsS : List OSeg} {samplesI samplesS : List (Option Nat)} {tesI tesS : List TExpr}
    (hbI : bindTypes C tt segsI samplesI = .ok tesI) (hbS : bindTypes C tt segsS samplesS = .ok tesS)
    (hsI : some tid ∈ samplesI) (hsS : some tid ∈ samplesS)
    {i j : Nat} {sI sS : OSeg}
    (hi : segsI[i]? = some sI) (hkI : sI.kind = .astInsert)
    (htI : sI.types = [{ ty := (tt.get tid).name, member := star }])
    (hj : segsS[j]? = some sS) (hkS : sS.kind = .output)
    (htS : sS.types = [{ ty := (tt.get tid).name, member := star }]) (hcS : sS.cols = [])
    (honly : ∀ j' s', segsS[j']? = some s' → s'.kind = .output → j' = j)
    {argsI argsS : List GoVal} {pqI pqS : Primed}
    (hqI : bindInputs tt tesI argsI = .ok pqI) (hqS : bindInputs tt tesS argsS = .ok pqS) :
    ∃ fields tags m names rows,
      getArgInfo C tt tid = .ok (.struct tid (tt.get tid).name fields tags) ∧
      validateInputs tt argsI [] = .ok m ∧
      pqI.pieces[i]? = some (.insert names rows) ∧ 1 ≤ rows.length ∧
      (∀ f ∈ starFieldsOf fields tags, ∃ p, locateParams tt m (.field tid (tt.get tid).name f) = .ok p ∧
        (p.bulk = true → p.vals.length = rows.length) ∧ (f.tag ∈ names ↔ p.om = false)) ∧
      pqS.pieces.flatMap Piece.outCols = (starFieldsOf fields tags).map (·.tag) ∧
      aliasesOf pqS.pieces = List.range (starFieldsOf fields tags).length ∧
      ∀ stored, execInsert names rows pqI.params = some stored →
        stored.length = rows.length ∧
        ∀ (r : Nat) (srow : SRow), stored[r]? = some srow →
        ∀ (E : ScanEnv) (dests dests' : List Dest) (di : Nat) (d : Dest),
          (∀ v t, E.conv (some v) t = some v) →
          scanGet E tt pqS.outputs ((aliasesOf pqS.pieces).map markerName)
            (selectRow (pqS.pieces.flatMap Piece.outCols) srow) dests = (dests', none) →
          WFOut pqS.outputs dests → dests[di]? = some d → d.tid = tid →
          ∃ d', dests'[di]? = some d' ∧
            ∀ f ∈ starFieldsOf fields tags, ∀ p,
              locateParams tt m (.field tid (tt.get tid).name f) = .ok p →
              (p.om = false → ∃ v, p.rowVal r = some v ∧ d'.fieldVal f.index = some (some v)) ∧
              (p.om = true →
                match fieldCat tt (fieldTypeOf tt tid f.index true) with
                | .proxy => d'.fieldVal f.index = some (some (E.zeroText (fieldTypeOf tt tid f.index true)))
                | .directPtr _ => d'.fieldVal f.index = some (some E.nilText)
                | .directScanner => ∃ txt, E.conv none (fieldTypeOf tt tid f.index true) = some txt ∧
                    d'.fieldVal f.index = some (some txt)) := by
  obtain ⟨fields, tags, ha, heI⟩ := prepared_insert_shape hbI hsI hi hkI htI
  obtain ⟨fields', tags', ha', _, hflat⟩ := prepared_output_shape hbS hsS hj hkS htS hcS honly
  rw [ha] at ha'; cases ha'
  have htags := starFields_tags_nodup ha
  have hil : i < tesI.length := (List.getElem?_eq_some_iff.1 heI).1
  rw [list_split_at heI] at hqI
  obtain ⟨m, names, rows, h1, h2, h3, h4, h5⟩ := c17_roundtrip_partial htags hqI
  rw [List.length_take, Nat.min_eq_left (Nat.le_of_lt hil)] at h2
  obtain ⟨hal, _, _, hcolsS, houtS⟩ := aliases_dense hqS
  rw [hflat] at hcolsS houtS
  rw [fieldOutCols_fst] at hcolsS
  rw [fieldOutCols_snd] at houtS
  have hal' : aliasesOf pqS.pieces = List.range (starFieldsOf fields tags).length := by
    rw [hal, houtS]; simp [fieldOutputs]
  refine ⟨fields, tags, m, names, rows, ha, h1, h2, h3, h4, hcolsS, hal', ?_⟩
  intro stored hexec
  obtain ⟨h6, h7⟩ := h5 stored hexec
  refine ⟨h6, ?_⟩
  intro r srow hr E dests dests' di d hconv hget hwf hd htid
  rw [houtS, hal', hcolsS] at hget
  rw [houtS] at hwf
  exact h7 r srow hr E dests dests' di d hconv hget hwf hd htid

/-! ### non-vacuity of C17: a two-column, two-row instance

  Struct `T` (`PrepExample.tt`: fields `A` tagged `a`, `B` tagged `b,omitempty`, both strings),
  bulk argument `[]T` with two rows.  First instance: both members non-zero, both columns are
  written and come back.  Second instance: `B` zero in both rows, the column `b` is omitted
  from the INSERT, reads back NULL and scans as the zero value. -/
namespace C17Ex
open PrepExample

def fields : List SField := [fa, fb]
def tes : List TExpr := [.bypass #[73], .insert (fieldCols 0 #[84] fields)]
def args : List GoVal := [.slice { t := 1, zero := false, r := "" } [row "a0" "b0", row "a1" "b1"]]

def pq : Primed :=
  { pieces := [.text #[73], .insert [#[97], #[98]] [[.ph 0, .ph 2], [.ph 1, .ph 3]]],
    params := [(0, "a0"), (2, "b0"), (1, "a1"), (3, "b1")], outputs := [] }

theorem bind : bindInputs tt (([.bypass #[73]] : List TExpr) ++ .insert (fieldCols 0 #[84] fields) :: []) args = .ok pq := by
  decide +kernel

def stored : List SRow := [[(#[97], "a0"), (#[98], "b0")], [(#[97], "a1"), (#[98], "b1")]]

theorem exec : execInsert [#[97], #[98]] [[.ph 0, .ph 2], [.ph 1, .ph 3]] pq.params = some stored := by
  decide +kernel

/-- identity conversion on non-NULL values -/
def E : ScanEnv := { conv := fun v _ => v, zeroText := fun _ => "<zero>" }

def dests : List Dest := [{ form := .ptrStruct, tid := 0, fields := [([0], some "old"), ([1], some "old")] }]
def dests1 : List Dest := [{ form := .ptrStruct, tid := 0, fields := [([0], some "a1"), ([1], some "b1")] }]

theorem get1 : scanGet E tt (fieldOutputs 0 #[84] fields) (aliasCols fields.length)
    (selectRow (fields.map (·.tag)) [(#[97], "a1"), (#[98], "b1")]) dests = (dests1, none) := by
  decide +kernel

theorem wf : WFOut (fieldOutputs 0 #[84] fields) dests := by decide +kernel

theorem tags : (fields.map (·.tag)).Nodup := by decide

theorem proxy : ∀ f ∈ fields, fieldCat tt (fieldTypeOf tt 0 f.index true) = .proxy := by decide +kernel

/-- the theorem applied: every hypothesis is discharged, and the conclusion says that after
    scanning stored row 1 member `b` (path `[1]`) holds `"b1"`, the text inserted for row 1 -/
example : ∃ d', dests1[0]? = some d' ∧ d'.fieldVal [1] = some (some "b1") := by
  obtain ⟨m, names, rows, hm, hpiece, _, _, hst⟩ := c17_roundtrip_proxy_partial tags proxy bind
  -- the existential witnesses are determined by the computation
  have hm' : validateInputs tt args [] = .ok [(1, args[0]!)] := rfl
  rw [hm'] at hm; cases hm
  have hpiece' : pq.pieces[1]? = some (.insert [#[97], #[98]] [[.ph 0, .ph 2], [.ph 1, .ph 3]]) := rfl
  rw [show ([TExpr.bypass #[73]] : List TExpr).length = 1 from rfl, hpiece'] at hpiece
  cases hpiece
  obtain ⟨_, hrow⟩ := hst stored exec
  obtain ⟨d', hd', hf⟩ := hrow 1 _ rfl E dests dests1 0 _ (fun _ _ => rfl) get1 wf rfl rfl
  refine ⟨d', hd', ?_⟩
  have hp : locateParams tt [(1, args[0]!)] (.field 0 #[84] fb) =
      .ok { vals := ["b0", "b1"], om := false, bulk := true, argType := 1 } := rfl
  obtain ⟨v, hv, hval⟩ := (hf fb (by simp [fields]) _ hp).1 rfl
  have : v = "b1" := by
    have : (some "b1" : Option String) = some v := hv
    exact (Option.some.inj this).symm
  rw [this] at hval; exact hval

/-- `c17_rowVal_is_argument_member` on the fixture: the bulk case, element 1, member `B` -/
example : ∃ s v, bulkElem (row "a1" "b1") = .ok s ∧ fieldByIndex s fb.index true = .ok v ∧
    (Params.rowVal { vals := ["b0", "b1"], om := false, bulk := true, argType := 1 } 1) = some v.h.r := by
  have hp : locateParams tt [(1, args[0]!)] (.field 0 #[84] fb) =
      .ok { vals := ["b0", "b1"], om := false, bulk := true, argType := 1 } := rfl
  rcases c17_rowVal_is_argument_member hp with ⟨s, v, hs, _⟩ | ⟨h, els, _, hb, _, hrow⟩
  · cases hs
  · have : locateBulk tt [(1, args[0]!)] 0 =
        some (.slice { t := 1, zero := false, r := "" } [row "a0" "b0", row "a1" "b1"]) := rfl
    rw [this] at hb
    cases hb
    exact hrow 1 _ rfl

/-! second instance: `B` is zero in both rows -/

def rowz (a : String) : GoVal :=
  .struct { t := 0, zero := false, r := "" }
    [.leaf { t := 3, zero := false, r := a }, .leaf { t := 3, zero := true, r := "" }]
def argsz : List GoVal := [.slice { t := 1, zero := false, r := "" } [rowz "a0", rowz "a1"]]

def pqz : Primed :=
  { pieces := [.text #[73], .insert [#[97]] [[.ph 0], [.ph 1]]], params := [(0, "a0"), (1, "a1")], outputs := [] }

theorem bindz : bindInputs tt (([.bypass #[73]] : List TExpr) ++ .insert (fieldCols 0 #[84] fields) :: []) argsz = .ok pqz := by
  decide +kernel

def storedz : List SRow := [[(#[97], "a0")], [(#[97], "a1")]]

theorem execz : execInsert [#[97]] [[.ph 0], [.ph 1]] pqz.params = some storedz := by decide +kernel

def dests1z : List Dest := [{ form := .ptrStruct, tid := 0, fields := [([0], some "a1"), ([1], some "<zero>")] }]

theorem get1z : scanGet E tt (fieldOutputs 0 #[84] fields) (aliasCols fields.length)
    (selectRow (fields.map (·.tag)) [(#[97], "a1")]) dests = (dests1z, none) := by
  decide +kernel

/-- the omitted member `b` comes back as the zero value, member `a` as inserted -/
example : ∃ d', dests1z[0]? = some d' ∧ d'.fieldVal [1] = some (some "<zero>") ∧
    d'.fieldVal [0] = some (some "a1") := by
  obtain ⟨m, names, rows, hm, hpiece, _, _, hst⟩ := c17_roundtrip_proxy_partial tags proxy bindz
  have hm' : validateInputs tt argsz [] = .ok [(1, argsz[0]!)] := rfl
  rw [hm'] at hm; cases hm
  have hpiece' : pqz.pieces[1]? = some (.insert [#[97]] [[.ph 0], [.ph 1]]) := rfl
  rw [show ([TExpr.bypass #[73]] : List TExpr).length = 1 from rfl, hpiece'] at hpiece
  cases hpiece
  obtain ⟨_, hrow⟩ := hst storedz execz
  obtain ⟨d', hd', hf⟩ := hrow 1 _ rfl E dests dests1z 0 _ (fun _ _ => rfl) get1z wf rfl rfl
  refine ⟨d', hd', ?_, ?_⟩
  · have hp : locateParams tt [(1, argsz[0]!)] (.field 0 #[84] fb) =
        .ok { vals := ["", ""], om := true, bulk := true, argType := 1 } := rfl
    exact (hf fb (by simp [fields]) _ hp).2 rfl
  · have hp : locateParams tt [(1, argsz[0]!)] (.field 0 #[84] fa) =
        .ok { vals := ["a0", "a1"], om := false, bulk := true, argType := 1 } := rfl
    obtain ⟨v, hv, hval⟩ := (hf fa (by simp [fields]) _ hp).1 rfl
    have : v = "a1" := by
      have : (some "a1" : Option String) = some v := hv
      exact (Option.some.inj this).symm
    rw [this] at hval; exact hval

/-! third instance, from the query texts: `INSERT INTO t (*) VALUES ($T.*)` and
    `SELECT &T.* FROM t` are parsed, prepared with the sample `T` and bound; the theorem for
    prepared statements applies to the results -/

def EI : Env := asciiEnv "INSERT INTO t (*) VALUES ($T.*)"
def ES : Env := asciiEnv "SELECT &T.* FROM t"

def segsI : List Seg := [
  { kind := .bypass, a := 0, b := 14 },
  { kind := .astInsert, a := 14, b := 31, types := [{ ty := #[84], member := star }] } ]

def segsS : List Seg := [
  { kind := .bypass, a := 0, b := 7 },
  { kind := .output, a := 7, b := 11, types := [{ ty := #[84], member := star }] },
  { kind := .bypass, a := 11, b := 18 } ]

theorem parse_EI : parse EI = .ok segsI := by decide +kernel
theorem parse_ES : parse ES = .ok segsS := by decide +kernel

def pqI : Primed :=
  { pieces := [.text (Bytes.ofString "INSERT INTO t "), .insert [#[97], #[98]] [[.ph 0, .ph 2], [.ph 1, .ph 3]]],
    params := [(0, "a0"), (2, "b0"), (1, "a1"), (3, "b1")], outputs := [] }

def pqS : Primed :=
  { pieces := [.text (Bytes.ofString "SELECT "), .outputs 0 [#[97], #[98]], .text (Bytes.ofString " FROM t")],
    params := [], outputs := [.field 0 #[84] fa, .field 0 #[84] fb] }

theorem prepI : prepareAndBind EI C tt [some 0] args = some pqI := by decide +kernel
theorem prepS : prepareAndBind ES C tt [some 0] [] = some pqS := by decide +kernel

theorem getS : scanGet E tt pqS.outputs ((aliasesOf pqS.pieces).map markerName)
    (selectRow (pqS.pieces.flatMap Piece.outCols) [(#[97], "a1"), (#[98], "b1")]) dests = (dests1, none) := by
  decide +kernel

theorem wfS : WFOut pqS.outputs dests := by decide +kernel

example : ∃ d', dests1[0]? = some d' ∧ d'.fieldVal [1] = some (some "b1") := by
  obtain ⟨sI, tesI, hpI, hbI, hqI⟩ := prepareAndBind_some prepI
  obtain ⟨sS, tesS, hpS, hbS, hqS⟩ := prepareAndBind_some prepS
  rw [parse_EI] at hpI; cases hpI
  rw [parse_ES] at hpS; cases hpS
  obtain ⟨fields, tags, m, names, rows, ha, hm, hpiece, _, _, _, _, hst⟩ :=
    c17_roundtrip_prepared_partial (tid := 0) (i := 1) (j := 1)
      (sI := { kind := .astInsert, raw := EI.inp.extract 14 31, types := [{ ty := #[84], member := star }] })
      (sS := { kind := .output, raw := ES.inp.extract 7 11, types := [{ ty := #[84], member := star }] })
      hbI hbS (by simp) (by simp) rfl rfl rfl rfl rfl rfl rfl
      (by
        intro j' s' hj' hk'
        match j', hj' with
        | 0, h => cases h; cases hk'
        | 1, _ => rfl
        | 2, h => cases h; cases hk'
        | n + 3, h => simp [segsS] at h)
      hqI hqS
  have ha' : getArgInfo C tt 0 = .ok (.struct 0 #[84] [fa, fb] [#[97], #[98]]) := rfl
  rw [ha'] at ha; cases ha
  have hm' : validateInputs tt args [] = .ok [(1, args[0]!)] := rfl
  rw [hm'] at hm; cases hm
  have hpiece' : pqI.pieces[1]? = some (.insert [#[97], #[98]] [[.ph 0, .ph 2], [.ph 1, .ph 3]]) := rfl
  rw [hpiece'] at hpiece; cases hpiece
  obtain ⟨_, hrow⟩ := hst stored exec
  obtain ⟨d', hd', hf⟩ := hrow 1 _ rfl E dests dests1 0 _ (fun _ _ => rfl) getS wfS rfl rfl
  refine ⟨d', hd', ?_⟩
  have hp : locateParams tt [(1, args[0]!)] (.field 0 #[84] fb) =
      .ok { vals := ["b0", "b1"], om := false, bulk := true, argType := 1 } := rfl
  obtain ⟨v, hv, hval⟩ := (hf fb (by decide) _ hp).1 rfl
  have : v = "b1" := by
    have : (some "b1" : Option String) = some v := hv
    exact (Option.some.inj this).symm
  rw [this] at hval; exact hval

end C17Ex

/-! ## C. C07: what a successful `bindTypes` implies

  `e2eSampleName tt smp` is `reflect.Type.Name()` of a sample; `s.typeNames` the type names node
  `s` refers to (none for a bypass node; for a basic insert `(c, …) VALUES ($T.m, …)` the types
  of its values, for every other expression its `types`). -/

theorem Corr.map_eq {α β γ : Type} {R : α → β → Prop} {f : α → γ} {g : β → γ} {l : List α} {l' : List β}
    (h : Corr R l l') (hR : ∀ a b, R a b → f a = g b) : l.map f = l'.map g := by
  apply List.ext_getElem
  · simp [h.1]
  · intro i h1 h2
    simp only [List.length_map] at h1 h2
    simp only [List.getElem_map]
    exact hR _ _ (h.getElem i h1 h2)

/-- C07: if `bindTypes` succeeds then
    (1) every sample is a type (not an untyped nil) of kind struct, map or slice with a
        non-empty name, and the names of the samples are pairwise distinct;
    (2) every type name a node refers to is the name of a sample;
    (3) every sample is referred to by some node (`checkAllArgsUsed`);
    (4) there is exactly one typed expression per node. -/
theorem bindTypes_ok_imp {C : Cls} {tt : TypeTable} {segs : List OSeg} {samples : List (Option Nat)}
    {tes : List TExpr} (h : bindTypes C tt segs samples = .ok tes) :
    (∀ smp ∈ samples, ∃ tid, smp = some tid ∧
      ((tt.get tid).kind = .struct ∨ (tt.get tid).kind = .map ∨ (tt.get tid).kind = .slice) ∧
      (tt.get tid).name.size ≠ 0) ∧
    (samples.map (e2eSampleName tt)).Nodup ∧
    (∀ s ∈ segs, ∀ ty ∈ s.typeNames, ∃ smp ∈ samples, e2eSampleName tt smp = ty) ∧
    (∀ smp ∈ samples, ∃ s ∈ segs, e2eSampleName tt smp ∈ s.typeNames) ∧
    tes.length = segs.length := by
  have hlen := (bindTypes_exprs h).1
  obtain ⟨infos, st, hg, hs, hall, rfl⟩ := bindTypes_ok_unfold h
  obtain ⟨new, hnew, hc, hnd⟩ := generateArgInfo_spec _ _ _ hg
  simp only [List.nil_append] at hnew
  subst hnew
  have hkeys : samples.map (e2eSampleName tt) = infos.map (·.1) :=
    hc.map_eq (by rintro a b ⟨tid, rfl, _, _, _, hn⟩; exact hn.symm)
  have huses := bindSegs_uses _ _ _ hs
  refine ⟨?_, by rw [hkeys]; exact hnd (by simp), ?_, ?_, hlen⟩
  · intro smp hsmp
    obtain ⟨i, hi, rfl⟩ := List.mem_iff_getElem.1 hsmp
    obtain ⟨p, _, tid, htid, hk, hsz, _⟩ := hc.2 i samples[i] (List.getElem?_eq_getElem hi)
    exact ⟨tid, htid, hk, hsz⟩
  · intro s hs' ty hty
    obtain ⟨p, hp, hpt⟩ := huses.known ty (List.mem_flatMap.2 ⟨s, hs', hty⟩)
    have : ty ∈ samples.map (e2eSampleName tt) := by
      rw [hkeys, ← hpt]; exact List.mem_map_of_mem hp
    obtain ⟨smp, hsmp, he⟩ := List.mem_map.1 this
    exact ⟨smp, hsmp, he⟩
  · intro smp hsmp
    have : e2eSampleName tt smp ∈ infos.map (·.1) := by rw [← hkeys]; exact List.mem_map_of_mem hsmp
    obtain ⟨p, hp, hpn⟩ := List.mem_map.1 this
    have hu : p.1 ∈ st.argUsed := by
      have := List.all_eq_true.1 hall p hp
      simpa using this
    rcases (huses.used p.1).1 hu with h0 | h0
    · cases h0
    · obtain ⟨s, hs', hty⟩ := List.mem_flatMap.1 h0
      exact ⟨s, hs', by rw [← hpn]; exact hty⟩

open PrepExample in
/-- non-vacuity: the fixture of Props/Bind.lean prepares; its nodes refer to `T` and `U` -/
example : (∀ s ∈ segs, ∀ ty ∈ s.typeNames, ∃ smp ∈ samples, e2eSampleName tt smp = ty) ∧
    (segs.flatMap OSeg.typeNames) = [#[84], #[85], #[85], #[85]] :=
  ⟨(bindTypes_ok_imp bindTypes_example).2.2.1, by decide⟩

/-- the *literal* reading of (2), "every type name occurring anywhere in a non-bypass node"
    (`allTypeNames`), is FALSE for hand-built nodes: a member node `$U.c` that also carries a
    stray value `$Z.x` prepares with the single sample `U`, although no sample is named `Z`
    (`bindSeg` looks only at the fields its kind uses).  `typeNames` (by kind) is the strongest
    true reading for arbitrary nodes; the parser never produces such a node (`parse_shape`), so
    for parsed queries the literal reading holds (`parse_bindTypes_ok_imp`). -/
theorem bindTypes_ok_imp_literal_counterexample :
    let s : OSeg := { kind := .member, raw := #[], types := [{ ty := #[85], member := #[99] }],
                      vals := [.acc { ty := #[90], member := #[120] }] }
    (bindTypes PrepExample.C PrepExample.tt [s] [some 2]).isOk = true ∧ s.kind ≠ .bypass ∧
      #[90] ∈ s.allTypeNames ∧ ∀ smp ∈ [some 2], e2eSampleName PrepExample.tt smp ≠ #[90] := by
  refine ⟨rfl, by decide, by decide, by decide⟩

/-- C07 for parsed queries: for the nodes the parser produces, `typeNames` is *every* type
    name occurring in the node (`allTypeNames`: in its `types` and in its values; parsed bypass
    nodes carry none), so (2) and (3) read: every type name occurring in the query's
    expressions is the name of a sample, and every sample is named by some expression. -/
theorem parse_bindTypes_ok_imp {E : Env} {C : Cls} {tt : TypeTable} {segs : List Seg}
    {samples : List (Option Nat)} {tes : List TExpr} (hp : parse E = .ok segs)
    (hb : bindTypes C tt (segs.map (Seg.toOSeg E.inp)) samples = .ok tes) :
    (∀ s ∈ segs, ∀ ty ∈ (s.toOSeg E.inp).allTypeNames, ∃ smp ∈ samples, e2eSampleName tt smp = ty) ∧
    (∀ smp ∈ samples, ∃ s ∈ segs, s.kind ≠ .bypass ∧ e2eSampleName tt smp ∈ (s.toOSeg E.inp).allTypeNames) := by
  obtain ⟨_, _, h2, h3, _⟩ := bindTypes_ok_imp hb
  have hsh := parse_shape hp
  constructor
  · intro s hs ty hty
    rw [← (hsh s hs).typeNames_eq] at hty
    exact h2 _ (List.mem_map_of_mem hs) ty hty
  · intro smp hsmp
    obtain ⟨os, hos, hty⟩ := h3 smp hsmp
    obtain ⟨s, hs, rfl⟩ := List.mem_map.1 hos
    refine ⟨s, hs, ?_, by rw [← (hsh s hs).typeNames_eq]; exact hty⟩
    intro hk
    have : (s.toOSeg E.inp).kind = .bypass := hk
    simp [OSeg.typeNames, this] at hty

/-- non-vacuity: the fixture of part A -/
example : ∀ s ∈ E2EEx.segs, ∀ ty ∈ (s.toOSeg E2EEx.E.inp).allTypeNames,
    ∃ smp ∈ [some 2], e2eSampleName PrepExample.tt smp = ty := by
  obtain ⟨segs', tes, hp', hb, _⟩ := prepareAndBind_some E2EEx.prepare_E
  rw [E2EEx.parse_E] at hp'; cases hp'
  exact (parse_bindTypes_ok_imp E2EEx.parse_E hb).1

/-- C07, converse (a): a node that refers to a type name that no sample has makes
    `bindTypes` fail -/
theorem bindTypes_missing_type {C : Cls} {tt : TypeTable} {segs : List OSeg} {samples : List (Option Nat)}
    {s : OSeg} {ty : Bytes} (hs : s ∈ segs) (hty : ty ∈ s.typeNames)
    (hno : ∀ smp ∈ samples, e2eSampleName tt smp ≠ ty) : ∃ e, bindTypes C tt segs samples = .error e := by
  cases h : bindTypes C tt segs samples with
  | error e => exact ⟨e, rfl⟩
  | ok tes =>
    obtain ⟨smp, hsmp, he⟩ := (bindTypes_ok_imp h).2.2.1 s hs ty hty
    exact absurd he (hno smp hsmp)

/-- C07, converse (b): a sample that no node refers to makes `bindTypes` fail -/
theorem bindTypes_unused_sample {C : Cls} {tt : TypeTable} {segs : List OSeg} {samples : List (Option Nat)}
    {smp : Option Nat} (hsmp : smp ∈ samples) (hno : ∀ s ∈ segs, e2eSampleName tt smp ∉ s.typeNames) :
    ∃ e, bindTypes C tt segs samples = .error e := by
  cases h : bindTypes C tt segs samples with
  | error e => exact ⟨e, rfl⟩
  | ok tes =>
    obtain ⟨s, hs, hty⟩ := (bindTypes_ok_imp h).2.2.2.1 smp hsmp
    exact absurd hty (hno s hs)

/-- C07, converse (c): an untyped nil, an unnamed type, a type of another kind or two samples
    with the same name make `bindTypes` fail -/
theorem bindTypes_bad_sample {C : Cls} {tt : TypeTable} {segs : List OSeg} {samples : List (Option Nat)}
    (hbad : (∃ smp ∈ samples, ∀ tid, smp = some tid →
        ¬ (((tt.get tid).kind = .struct ∨ (tt.get tid).kind = .map ∨ (tt.get tid).kind = .slice) ∧
          (tt.get tid).name.size ≠ 0)) ∨
      ¬ (samples.map (e2eSampleName tt)).Nodup) : ∃ e, bindTypes C tt segs samples = .error e := by
  cases h : bindTypes C tt segs samples with
  | error e => exact ⟨e, rfl⟩
  | ok tes =>
    obtain ⟨h1, h2, _⟩ := bindTypes_ok_imp h
    rcases hbad with ⟨smp, hsmp, hb⟩ | hb
    · obtain ⟨tid, htid, hk, hsz⟩ := h1 smp hsmp
      exact absurd ⟨hk, hsz⟩ (hb tid htid)
    · exact absurd h2 hb

open PrepExample in
/-- non-vacuity of the converses: without the sample `U` the error is "type-missing", with an
    extra sample `[]T`… (an unnamed slice) "sample-anonymous", with the sample `T` twice
    "sample-duplicate-name", with a sample nobody uses "sample-not-used" -/
example : bindTypes C tt segs [some 0] = .error "type-missing" ∧
    bindTypes C tt segs [some 0, some 2, some 1] = .error "sample-anonymous" ∧
    bindTypes C tt segs [some 0, some 2, some 0] = .error "sample-duplicate-name" ∧
    bindTypes C tt [{ kind := .bypass, raw := #[73] }] [some 0] = .error "sample-not-used" ∧
    bindTypes C tt segs [some 0, none] = .error "sample-nil" := ⟨rfl, rfl, rfl, rfl, rfl⟩

open PrepExample in
example : ∃ e, bindTypes C tt segs [some 0] = .error e :=
  bindTypes_missing_type (s := segs[2]) (ty := #[85]) (by decide) (by decide) (by decide)

open PrepExample in
example : ∃ e, bindTypes C tt [{ kind := .bypass, raw := #[73] }] [some 0] = .error e :=
  bindTypes_unused_sample (smp := some 0) (by decide) (by decide)

end Sqlair
