package main

// Directed scenarios added in response to the seeded changes of round 13.  They use their own
// small types and the scripted driver only; each returns the reasons (empty = fine).
//
//   concPrepare     (l2; C01, C16)  concurrent Prepare of different texts: each Statement
//                                   sends its own text (C01m: pooled parsers whose node
//                                   slice is still read by BindTypes)
//   buildBuildRun   (l2; C04, C16)  two bulk-insert Queries built before either runs: each
//                                   sends its own rectangle (C04m: pooled query builders)
//   iterAfterClose  (l4; C14)       a closed Iterator stays closed while other retrievals of
//                                   the Statement run (C14m: pooled Iterators)

import (
	"context"
	"database/sql"
	"database/sql/driver"
	"errors"
	"fmt"
	"reflect"
	"strings"
	"sync"
	"time"

	"github.com/canonical/sqlair"

	"verifharness/internal/fakedrv"
)

type ovIns struct {
	ID   int64  `db:"id"`
	Name string `db:"name"`
}

func firstSQL(st *fakedrv.State, kinds ...string) (string, []string, bool) {
	for _, e := range st.Events() {
		for _, k := range kinds {
			if e.Kind == k {
				return e.SQL, e.Args, true
			}
		}
	}
	return "", nil, false
}

// concPrepare: G goroutines prepare G different texts at the same moment (same number of
// nodes, so that a shared node buffer is never outgrown), `rounds` times.
func concPrepare(rounds, G int) []string {
	var why []string
	var mu sync.Mutex
	add := func(s string) {
		mu.Lock()
		if len(why) < 4 {
			why = append(why, s)
		}
		mu.Unlock()
	}
	for round := 0; round < rounds && len(why) == 0; round++ {
		var wg sync.WaitGroup
		start := make(chan struct{})
		for g := 0; g < G; g++ {
			wg.Add(1)
			go func(g int) {
				defer wg.Done()
				defer func() {
					if p := recover(); p != nil {
						add(fmt.Sprint("panic in a concurrent Prepare: ", p))
					}
				}()
				pre := fmt.Sprintf("SELECT c%d_%d AS x, ", round, g)
				mid := fmt.Sprintf(" FROM tab%d WHERE note = 'n%d''s' AND k = ", g, g)
				post := fmt.Sprintf(" /* g%d */ ORDER BY o%d", g, g)
				q := pre + "&ovRow.*" + mid + "$ovArg.k" + post
				want := pre + "id AS _sqlair_0, z AS _sqlair_1" + mid + "@sqlair_0" + post
				<-start
				s, err := sqlair.Prepare(q, ovRow{}, ovArg{})
				if err != nil {
					add(fmt.Sprintf("Prepare(%q) concurrently with other Prepare calls: %v", q, err))
					return
				}
				sqldb, st := fakedrv.Open()
				defer sqldb.Close()
				st.SetScript(fakedrv.Script{Columns: []string{"_sqlair_0", "_sqlair_1"}})
				var rows []ovRow
				err = sqlair.NewDB(sqldb).Query(context.Background(), s, ovArg{K: int64(g)}).GetAll(&rows)
				if err != nil && !errors.Is(err, sqlair.ErrNoRows) {
					add(fmt.Sprintf("running %q prepared concurrently with other texts: %v", q, err))
					return
				}
				got, args, ok := firstSQL(st, "query", "exec")
				if !ok {
					add(fmt.Sprintf("%q: nothing reached the driver", q))
					return
				}
				if got != want {
					add(fmt.Sprintf("a Statement prepared while other goroutines prepared other texts sent %q, its own text gives %q", got, want))
				} else if fmt.Sprint(args) != fmt.Sprintf("[int64:%d]", g) {
					add(fmt.Sprintf("%q: arguments at the driver %v, passed %d", q, args, g))
				}
			}(g)
		}
		close(start)
		wg.Wait()
	}
	return why
}

// buildBuildRun: Queries of one bulk-insert Statement built one after the other, run
// afterwards (in both orders): each execution carries its own rows.
func buildBuildRun() []string {
	var why []string
	s, err := sqlair.Prepare("INSERT INTO t (*) VALUES ($ovIns.*)", ovIns{})
	if err != nil {
		return []string{"prepare: " + err.Error()}
	}
	batches := [][]ovIns{
		{{1, "a1"}, {2, "a2"}, {3, "a3"}},
		{{101, "b1"}, {102, "b2"}},
		{{201, "c1"}},
		{{301, "d1"}, {302, "d2"}, {303, "d3"}},
	}
	wantArgs := func(b []ovIns) string {
		var l []string
		for _, r := range b {
			l = append(l, fmt.Sprintf("int64:%d", r.ID), "string:"+r.Name)
		}
		return fmt.Sprint(l)
	}
	for _, order := range [][]int{{0, 1}, {1, 0}, {0, 2, 1}, {2, 0}, {0, 3}, {3, 0}, {1, 2, 3, 0}} {
		sqldb, st := fakedrv.Open()
		db := sqlair.NewDB(sqldb)
		ctx := context.Background()
		// build all of them first, in the order 0..n-1 of `order`'s members
		qs := map[int]*sqlair.Query{}
		for _, b := range order {
			qs[b] = db.Query(ctx, s, batches[b])
		}
		// a single struct in between (another shape of the same Statement)
		qs[-1] = db.Query(ctx, s, ovIns{ID: 900, Name: "z"})
		for i := len(order) - 1; i >= 0; i-- { // run in reverse order of building
			b := order[i]
			st.Reset()
			if err := qs[b].Run(); err != nil {
				why = append(why, fmt.Sprintf("bulk insert built before another Query of the Statement: %v", err))
				continue
			}
			sql, args, ok := firstSQL(st, "exec")
			if !ok {
				why = append(why, "bulk insert: nothing executed")
				continue
			}
			if n := strings.Count(sql, "@sqlair_"); n != 2*len(batches[b]) {
				why = append(why, fmt.Sprintf("a bulk insert of %d rows built before other Queries of its Statement sent %d placeholders: %q", len(batches[b]), n, sql))
			} else if fmt.Sprint(args) != wantArgs(batches[b]) {
				why = append(why, fmt.Sprintf("a bulk insert built before other Queries of its Statement sent the values %v, its slice holds %s (row i of the statement must be element i of the slice it was built from)", args, wantArgs(batches[b])))
			}
		}
		sqldb.Close()
		if len(why) > 3 {
			break
		}
	}
	return why
}

// iterAfterClose: an Iterator that was closed (mid-way, after exhaustion, after a fetch
// failure) stays closed - Next false, Get an error, Close the same result - while and after
// other retrievals of the same Statement run, and those retrievals see all their rows.
func iterAfterClose() []string {
	var why []string
	s, err := sqlair.Prepare("SELECT &ovRow.* FROM t", ovRow{})
	if err != nil {
		return []string{"prepare: " + err.Error()}
	}
	rows := [][]driver.Value{{int64(1), int64(10)}, {int64(2), int64(20)}, {int64(3), int64(30)}}
	es := func(e error) string {
		if e == nil {
			return "<nil>"
		}
		return e.Error()
	}
	for _, first := range []string{"midway", "exhausted", "fetchfail"} {
		for _, other := range []string{"iter", "get", "getall"} {
			for rep := 0; rep < 6 && len(why) < 4; rep++ {
				sqldb, st := fakedrv.Open()
				db := sqlair.NewDB(sqldb)
				ctx := context.Background()
				st.SetScript(fakedrv.Script{Columns: []string{"_sqlair_0", "_sqlair_1"}, Rows: rows})
				it1 := db.Query(ctx, s).Iter()
				var r ovRow
				switch first {
				case "midway":
					if it1.Next() {
						it1.Get(&r)
					}
				case "exhausted":
					for it1.Next() {
						it1.Get(&r)
					}
				case "fetchfail":
					if it1.Next() {
						it1.Get(&r)
					}
					st.FailNext("next", errors.New("injected fetch failure"))
					it1.Next()
				}
				c1 := es(it1.Close())
				tag := fmt.Sprintf("Iterator closed %s, then %s on the same Statement: ", first, other)
				touch := func(when string) {
					if it1.Next() {
						why = append(why, tag+"Next on the closed Iterator returned true "+when)
					}
					var x ovRow
					if it1.Get(&x) == nil {
						why = append(why, tag+"Get on the closed Iterator succeeded "+when)
					}
					if c := es(it1.Close()); c != c1 {
						why = append(why, fmt.Sprintf("%sClose returned %q at first and %q %s", tag, c1, c, when))
					}
				}
				var got []int64
				var e2 error
				switch other {
				case "iter":
					it2 := db.Query(ctx, s).Iter()
					touch("while another Iterator of the Statement was open")
					for it2.Next() {
						var x ovRow
						if e2 = it2.Get(&x); e2 != nil {
							break
						}
						got = append(got, x.ID)
						touch("while another Iterator of the Statement was delivering rows")
					}
					if ce := it2.Close(); e2 == nil {
						e2 = ce
					}
				case "get":
					var x ovRow
					e2 = db.Query(ctx, s).Get(&x)
					got = []int64{x.ID, 2, 3}
				case "getall":
					var xs []ovRow
					e2 = db.Query(ctx, s).GetAll(&xs)
					for _, x := range xs {
						got = append(got, x.ID)
					}
				}
				touch("after another retrieval of the Statement")
				if e2 != nil {
					why = append(why, tag+"the other retrieval failed: "+e2.Error())
				} else if fmt.Sprint(got) != "[1 2 3]" {
					why = append(why, fmt.Sprintf("%sthe other retrieval delivered rows %v, the driver served [1 2 3]", tag, got))
				}
				sqldb.Close()
			}
		}
	}
	if len(why) > 4 {
		why = why[:4]
	}
	return why
}

// wrappedArgs (l2; C08): the whole argument list passed as ONE argument of type []any (the
// trailing "..." forgotten), also by pointer and also empty: an argument whose type the
// statement does not use as input; it is rejected and nothing reaches the driver (C08m: a
// convenience unpacking in DB.Query / TX.Query that skips the validation of the slice).
func wrappedArgs() []string {
	var why []string
	type tc struct {
		q       string
		samples []any
		args    []any
	}
	cases := []tc{
		{"SELECT x FROM t WHERE k = $ovArg.k", []any{ovArg{}}, []any{ovArg{K: 1}}},
		{"SELECT x FROM t WHERE k = $ovArg.k AND id = $ovIns.id", []any{ovArg{}, ovIns{}}, []any{ovArg{K: 1}, ovIns{ID: 2}}},
		{"SELECT x FROM t WHERE k = $ovArg.k", []any{ovArg{}}, []any{&ovArg{K: 1}}},
		{"INSERT INTO t (*) VALUES ($ovIns.*)", []any{ovIns{}}, []any{ovIns{ID: 1, Name: "n"}}},
		{"INSERT INTO t (*) VALUES ($ovIns.*)", []any{ovIns{}}, []any{[]ovIns{{1, "a"}, {2, "b"}}}},
		{"SELECT x FROM t", nil, nil},
		{"SELECT &ovRow.* FROM t", []any{ovRow{}}, nil},
	}
	for _, c := range cases {
		s, err := sqlair.Prepare(c.q, c.samples...)
		if err != nil {
			why = append(why, "prepare: "+err.Error())
			continue
		}
		wrapped := append([]any{}, c.args...)
		for _, form := range []string{"slice", "ptr"} {
			for _, path := range []string{"db", "tx"} {
				sqldb, st := fakedrv.Open()
				st.SetScript(fakedrv.Script{Columns: []string{"_sqlair_0", "_sqlair_1"}})
				db := sqlair.NewDB(sqldb)
				ctx := context.Background()
				var arg any = wrapped
				if form == "ptr" {
					arg = &wrapped
				}
				var q *sqlair.Query
				var tx *sqlair.TX
				if path == "db" {
					q = db.Query(ctx, s, arg)
				} else {
					tx, err = db.Begin(ctx, nil)
					if err != nil {
						sqldb.Close()
						continue
					}
					q = tx.Query(ctx, s, arg)
				}
				st.Reset()
				rerr := q.Run()
				n := 0
				for _, e := range st.Events() {
					if e.Kind == "prepare" || e.Kind == "exec" || e.Kind == "query" {
						n++
					}
				}
				if tx != nil {
					tx.Rollback()
				}
				sqldb.Close()
				what := fmt.Sprintf("%q run through %s with its %d argument(s) passed as one argument of type %T", c.q, path, len(c.args), arg)
				if rerr == nil {
					why = append(why, what+": accepted (the statement does not use that type as input)")
				}
				if n > 0 {
					why = append(why, fmt.Sprintf("%s: %d statement(s) prepared or executed on the database although the arguments are invalid", what, n))
				}
			}
		}
	}
	if len(why) > 4 {
		why = why[:4]
	}
	return why
}

// cancelDuringFetch (l4; C13): the caller's context is cancelled inside the driver while it
// fetches row k of a Get / GetAll / Iterator loop, and closing a result set takes the driver
// a moment (database/sql's own watcher then closes the rows in the background): when the
// call returns (for an Iterator: when Close returns) the result set it opened is closed - by
// the library, not some time later by the watcher (C13m: an early return on ctx.Err() inside
// GetAll's row loop that skips Close).
func cancelDuringFetch() []string {
	var why []string
	s, err := sqlair.Prepare("SELECT &ovRow.* FROM t", ovRow{})
	if err != nil {
		return []string{"prepare: " + err.Error()}
	}
	rows := [][]driver.Value{{int64(1), int64(10)}, {int64(2), int64(20)}, {int64(3), int64(30)}}
	for _, op := range []string{"getall", "get", "iter"} {
		for _, path := range []string{"db", "tx"} {
			for k := 0; k < 3; k++ {
				sqldb, st := fakedrv.Open()
				db := sqlair.NewDB(sqldb)
				ctx, cancel := context.WithCancel(context.Background())
				st.SetScript(fakedrv.Script{Columns: []string{"_sqlair_0", "_sqlair_1"}, Rows: rows, SlowClose: 40 * time.Millisecond,
					Faults: []fakedrv.Fault{{Kind: "next", N: k, Cancel: cancel}}})
				var q *sqlair.Query
				var tx *sqlair.TX
				if path == "db" {
					q = db.Query(ctx, s)
				} else {
					tx, err = db.Begin(context.Background(), nil)
					if err != nil {
						cancel()
						sqldb.Close()
						continue
					}
					q = tx.Query(ctx, s)
				}
				switch op {
				case "getall":
					var xs []ovRow
					q.GetAll(&xs)
				case "get":
					var x ovRow
					q.Get(&x)
				case "iter":
					it := q.Iter()
					for it.Next() {
						var x ovRow
						if it.Get(&x) != nil {
							break
						}
					}
					it.Close()
				}
				open := st.OpenRows()
				if open != 0 {
					why = append(why, fmt.Sprintf("%s through %s, context cancelled while the driver fetched row %d, the driver taking 40 ms to close a result set: %d result set(s) still open when the call returned", op, path, k, open))
				}
				if tx != nil {
					tx.Rollback()
				}
				cancel()
				sqldb.Close()
			}
		}
	}
	if len(why) > 4 {
		why = why[:4]
	}
	return why
}

// retryRejected (l2; C08, C16): an invalid argument list is rejected every time it is passed
// to the same Statement - a retry, or the same list after a valid run - and nothing reaches
// the driver (C08n: BindInputs remembers an argument-type list as checked before the check
// for superfluous arguments has run).
func retryRejected() []string {
	var why []string
	type tc struct {
		q       string
		samples []any
		good    []any
		bad     [][]any
	}
	cases := []tc{
		{"SELECT x FROM t WHERE k = $ovArg.k", []any{ovArg{}}, []any{ovArg{K: 1}},
			[][]any{{ovArg{K: 1}, ovIns{ID: 2}}, {ovIns{ID: 2}, ovArg{K: 1}}, {}, {ovArg{K: 1}, ovArg{K: 2}}, {ovIns{ID: 2}}, {(*ovArg)(nil)}}},
		{"INSERT INTO t (*) VALUES ($ovIns.*)", []any{ovIns{}}, []any{ovIns{ID: 1, Name: "n"}},
			[][]any{{ovIns{ID: 1}, ovArg{K: 1}}, {ovIns{ID: 1}, []ovIns{{2, "b"}}}, {ovArg{K: 1}}}},
		{"SELECT x FROM t", nil, nil, [][]any{{ovArg{K: 1}}}},
	}
	for _, c := range cases {
		for _, bad := range c.bad {
			for _, order := range []string{"bad-bad-bad", "good-bad-bad", "bad-good-bad"} {
				s, err := sqlair.Prepare(c.q, c.samples...)
				if err != nil {
					why = append(why, "prepare: "+err.Error())
					continue
				}
				sqldb, st := fakedrv.Open()
				db := sqlair.NewDB(sqldb)
				ctx := context.Background()
				for i, step := range strings.Split(order, "-") {
					args := bad
					if step == "good" {
						args = c.good
					}
					st.Reset()
					rerr := db.Query(ctx, s, args...).Run()
					n := 0
					for _, e := range st.Events() {
						if e.Kind == "prepare" || e.Kind == "exec" || e.Kind == "query" {
							n++
						}
					}
					if step == "good" {
						if rerr != nil {
							why = append(why, fmt.Sprintf("%q with valid arguments after an invalid call: %v", c.q, rerr))
						}
						continue
					}
					what := fmt.Sprintf("%q, call %d of the sequence %s on one Statement, invalid argument list %s", c.q, i+1, order, fmt.Sprintf("%T", bad))
					if len(bad) > 0 {
						ts := []string{}
						for _, a := range bad {
							ts = append(ts, fmt.Sprintf("%T", a))
						}
						what = fmt.Sprintf("%q, call %d of the sequence %s on one Statement, invalid argument list (%s)", c.q, i+1, order, strings.Join(ts, ", "))
					}
					if rerr == nil {
						why = append(why, what+": accepted")
					}
					if n > 0 {
						why = append(why, fmt.Sprintf("%s: %d statement(s) prepared or executed on the database", what, n))
					}
				}
				sqldb.Close()
			}
		}
	}
	if len(why) > 4 {
		why = why[:4]
	}
	return why
}

type OvEmb struct {
	Name string `db:"name"`
}

type ovOuter struct {
	ID int64 `db:"id"`
	*OvEmb
}

// iterSameDest (l4; C06): the rows of one Iterator are read into the same destination
// variable, and the caller replaces the struct behind an embedded pointer between rows (keeps
// the earlier one): each row lands in what the destination designates at the time of the
// call (C06n: Iterator.Get remembers the scan targets of the previous call when the same
// destination is passed again).
func iterSameDest() []string {
	var why []string
	s, err := sqlair.Prepare("SELECT &ovOuter.* FROM t", ovOuter{})
	if err != nil {
		return []string{"prepare: " + err.Error()}
	}
	sqldb, st := fakedrv.Open()
	defer sqldb.Close()
	db := sqlair.NewDB(sqldb)
	st.SetScript(fakedrv.Script{Columns: []string{"_sqlair_0", "_sqlair_1"},
		Rows: [][]driver.Value{{int64(1), "ann"}, {int64(2), "bob"}, {int64(3), "cy"}}})
	it := db.Query(context.Background(), s).Iter()
	defer it.Close()
	var d ovOuter
	var kept []*OvEmb
	var ids []int64
	for it.Next() {
		d.OvEmb = &OvEmb{}
		if err := it.Get(&d); err != nil {
			return []string{"Get into the same destination with a fresh embedded struct: " + err.Error()}
		}
		kept = append(kept, d.OvEmb)
		ids = append(ids, d.ID)
	}
	got := ""
	for i, e := range kept {
		got += fmt.Sprint(ids[i], ":", e.Name, " ")
	}
	if got != "1:ann 2:bob 3:cy " {
		why = append(why, fmt.Sprintf("rows read into one destination variable whose embedded struct pointer the caller replaces between rows: the structs designated at each call hold [%s], the driver served [1:ann 2:bob 3:cy ]", got))
	}
	return why
}

// cancelThenDrain (l4; C14): after a few rows the caller cancels the context and goes on
// calling Next at once (no waiting for database/sql to notice).  Next may still deliver rows;
// but if it returns false before all rows were delivered, Close reports an error - a
// cancellation never looks like the normal end of the result (C14n: Next returns false as
// soon as the context is done, Close then closes a result set database/sql still thinks fine).
func cancelThenDrain() []string {
	var why []string
	s, err := sqlair.Prepare("SELECT &ovRow.* FROM t", ovRow{})
	if err != nil {
		return []string{"prepare: " + err.Error()}
	}
	const total = 40
	var rows [][]driver.Value
	for i := 0; i < total; i++ {
		rows = append(rows, []driver.Value{int64(i), int64(i * 10)})
	}
	for trial := 0; trial < 30 && len(why) == 0; trial++ {
		for _, path := range []string{"db", "tx"} {
			sqldb, st := fakedrv.Open()
			db := sqlair.NewDB(sqldb)
			st.SetScript(fakedrv.Script{Columns: []string{"_sqlair_0", "_sqlair_1"}, Rows: rows})
			ctx, cancel := context.WithCancel(context.Background())
			var q *sqlair.Query
			var tx *sqlair.TX
			if path == "db" {
				q = db.Query(ctx, s)
			} else {
				tx, err = db.Begin(context.Background(), nil)
				if err != nil {
					cancel()
					sqldb.Close()
					continue
				}
				q = tx.Query(ctx, s)
			}
			it := q.Iter()
			delivered := 0
			for delivered < 1+trial%5 && it.Next() {
				var x ovRow
				if it.Get(&x) != nil {
					break
				}
				delivered++
			}
			cancel()
			for it.Next() {
				var x ovRow
				if it.Get(&x) != nil {
					break
				}
				delivered++
			}
			c1 := it.Close()
			c2 := it.Close()
			if delivered < total && c1 == nil {
				why = append(why, fmt.Sprintf("Iterator through %s over %d rows, context cancelled after %d: Next returned false after %d rows and Close returned nil - the cancellation looks like the normal end of the result", path, total, 1+trial%5, delivered))
			}
			if fmt.Sprint(c1) != fmt.Sprint(c2) {
				why = append(why, fmt.Sprintf("Close returned %v, then %v", c1, c2))
			}
			if tx != nil {
				tx.Rollback()
			}
			sqldb.Close()
		}
	}
	if len(why) > 3 {
		why = why[:3]
	}
	return why
}

// maps whose elements are pointers, Scanners or interfaces, as destinations of every
// retrieval method (zoo layer; C18): whatever the outcome, it is not a panic (C18n: a map
// element type that is itself a pointer dereferenced before SetMapIndex).
type OvPtrMap map[string]*string
type OvPtrIntMap map[string]*int64
type OvNullMap map[string]sql.NullString
type OvAnyPtrMap map[string]*any

func ptrElemMaps() []string {
	var why []string
	rowsets := [][][]driver.Value{
		{{"ann", "a"}},
		{{nil, "a"}, {"bob", nil}},
		{{int64(7), []byte("x")}},
	}
	try := func(what string, f func() error) {
		defer func() {
			if p := recover(); p != nil {
				why = append(why, fmt.Sprintf("%s: panic: %v", what, p))
			}
		}()
		f()
	}
	for _, sample := range []any{OvPtrMap{}, OvPtrIntMap{}, OvNullMap{}, OvAnyPtrMap{}} {
		tn := reflect.TypeOf(sample).Name()
		for _, q := range []string{"SELECT (name, nick) AS (&" + tn + ".*) FROM t", "SELECT &" + tn + ".name, &" + tn + ".nick FROM t"} {
			s, err := sqlair.Prepare(q, sample)
			if err != nil {
				continue
			}
			for ri, rs := range rowsets {
				sqldb, st := fakedrv.Open()
				db := sqlair.NewDB(sqldb)
				st.SetScript(fakedrv.Script{Columns: []string{"_sqlair_0", "_sqlair_1"}, Rows: rs})
				ctx := context.Background()
				what := fmt.Sprintf("%q read into %s, row set %d", q, tn, ri)
				try(what+", Get", func() error {
					d := reflect.MakeMap(reflect.TypeOf(sample)).Interface()
					return db.Query(ctx, s).Get(d)
				})
				try(what+", Get(&map)", func() error {
					d := reflect.New(reflect.TypeOf(sample))
					d.Elem().Set(reflect.MakeMap(reflect.TypeOf(sample)))
					return db.Query(ctx, s).Get(d.Interface())
				})
				try(what+", GetAll", func() error {
					d := reflect.New(reflect.SliceOf(reflect.TypeOf(sample)))
					return db.Query(ctx, s).GetAll(d.Interface())
				})
				try(what+", Iterator", func() error {
					it := db.Query(ctx, s).Iter()
					defer it.Close()
					for it.Next() {
						d := reflect.MakeMap(reflect.TypeOf(sample)).Interface()
						it.Get(d)
					}
					return nil
				})
				sqldb.Close()
			}
		}
	}
	if len(why) > 4 {
		why = why[:4]
	}
	return why
}
