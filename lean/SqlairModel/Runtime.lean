/-
  Runtime: port of /repo/sqlair.go (Query.Iter/Get/GetAll/Run, Iterator, TX) over a model
  of the parts of database/sql it talks to (DESIGN §3 and Appendix B): `sql.Rows`
  (auto-close on EOF/error, lasterr, Close/Err), statement execution events, `sql.Tx`
  done flag, context check in `DB.conn`.  Rows are abstract: a row is an id plus a flag
  saying whether it converts into the destinations supplied (scan model: Scan.lean).

  Everything is a pure function of a `World` (driver event log, connections in use).
-/
namespace Sqlair.Rt

/-- symbolic errors -/
inductive Err where
  | inj (n : Nat)           -- injected driver error number n
  | noRows                  -- sql.ErrNoRows
  | txDone                  -- sql.ErrTxDone
  | ctx                     -- the context's error (Canceled / DeadlineExceeded)
  | rowsClosed              -- "sql: Rows are closed"
  | scan                    -- conversion error reported by Rows.Scan
  | sqlair (cls : String)   -- an error raised by sqlair itself
  | wrapped (e : Err)       -- "cannot get result: " ++ e
deriving DecidableEq, Repr, Inhabited

/-- driver-level events -/
inductive Ev where
  | prepare | exec | query | next | rowsClose | stmtClose | begin | commit | rollback
deriving DecidableEq, Repr, Inhabited

structure Row where
  id : Nat
  scanOK : Bool := true
deriving DecidableEq, Repr, Inhabited

/-- `sql.Rows` -/
structure Rows where
  /-- results of the driver's successive Next calls; after them: io.EOF -/
  fetch : List (Except Err Row)
  closeErr : Option Err            -- error of the driver's Rows.Close
  closed : Bool := false
  lasterr : Option Err := none     -- none also stands for io.EOF (never reported)
  cur : Option Row := none         -- lastcols
  /-- the driver statement is closed with the rows (one-shot Tx.QueryContext) -/
  closeStmt : Bool := false
  /-- the rows hold a pooled connection of their own (false inside a transaction, whose
      connection is held by the Tx) -/
  holdsConn : Bool := true
deriving Repr, Inhabited

structure World where
  log : List Ev := []
  inUse : Nat := 0
deriving Repr, Inhabited

def World.emit (w : World) (e : Ev) : World := { w with log := w.log ++ [e] }

/-- `Rows.close(err)`: first effective close performs the driver close and releases the
    connection -/
def Rows.close (r : Rows) (w : World) : Rows × World × Option Err :=
  if r.closed then (r, w, none) else
  let w := w.emit .rowsClose
  let w := if r.closeStmt then w.emit .stmtClose else w
  let w := if r.holdsConn then { w with inUse := w.inUse - 1 } else w
  -- lasterr = lasterrOrErr(closeErr): a real fetch error is kept, otherwise the close error
  let lasterr := match r.lasterr with | some e => some e | none => r.closeErr
  ({ r with closed := true, lasterr := lasterr, cur := none }, w, r.closeErr)

/-- `Rows.Next` -/
def Rows.next (r : Rows) (w : World) : Rows × World × Bool :=
  if r.closed then (r, w, false) else
  let w := w.emit .next
  match r.fetch with
  | [] =>                                   -- io.EOF: auto-close
    let (r, w, _) := Rows.close { r with cur := none } w
    (r, w, false)
  | .error e :: rest =>                     -- driver failure: remember, auto-close
    let (r, w, _) := Rows.close { r with fetch := rest, lasterr := some e, cur := none } w
    (r, w, false)
  | .ok row :: rest => ({ r with fetch := rest, cur := some row }, w, true)

/-- cancellation of the query's context while the rows are open: database/sql closes
    them asynchronously and remembers the context's error -/
def Rows.cancel (r : Rows) (w : World) : Rows × World :=
  if r.closed then (r, w) else
  let (r, w, _) := Rows.close { r with lasterr := match r.lasterr with | some e => some e | none => some .ctx } w
  (r, w)

/-- `Rows.Err` -/
def Rows.err (r : Rows) : Option Err := r.lasterr

/-- `Rows.Scan` into destinations that accept rows with `scanOK` -/
def Rows.scan (r : Rows) : Except Err Row :=
  match r.lasterr with
  | some e => .error e
  | none =>
    if r.closed then .error .rowsClosed else
    match r.cur with
    | none => .error (.sqlair "scan-without-next")
    | some row => if row.scanOK then .ok row else .error .scan

/-- what one statement execution is scripted to do -/
structure Script where
  hasOutputs : Bool
  /-- DB path: a driver statement with this SQL is in the cache; TX path: same -/
  cached : Bool := false
  onTx : Bool := false
  txDone : Bool := false           -- the sql.Tx has already ended
  ctxDone : Bool := false          -- the query's context is done when it is run
  prepareErr : Option Err := none
  runErr : Option Err := none
  fetch : List (Except Err Row) := []
  closeErr : Option Err := none
  result : Nat := 0                -- rows affected reported by the driver
deriving Repr, Inhabited

/-- `sqlair.Iterator` -/
structure Iter where
  hasOutputs : Bool
  rows : Option Rows := none
  err : Option Err := none
  started : Bool := false
  result : Option Nat := none
deriving Repr, Inhabited

/-- `Query.Iter` for a Query without stored error: runs the statement -/
def iterOpen (s : Script) (w : World) : Iter × World :=
  let fail (e : Err) (w : World) : Iter × World := ({ hasOutputs := s.hasOutputs, err := some e }, w)
  -- cached TX path: Tx.Stmt on a finished transaction yields a statement with a sticky
  -- ErrTxDone, reported before the context is looked at
  if s.onTx && s.txDone && s.cached then fail .txDone w else
  if s.ctxDone then fail .ctx w else          -- DB.conn / Tx.grabConn check the context first
  if s.onTx && s.txDone then fail .txDone w else
  -- prepare: DB path on a cache miss; TX path without cached statement prepares one-shot
  let needPrepare := !s.cached
  let w1 := if needPrepare then w.emit .prepare else w
  match (if needPrepare then s.prepareErr else none) with
  | some e => fail e w1
  | none =>
    let oneShot := s.onTx && !s.cached
    if s.hasOutputs then
      let w2 := w1.emit .query
      match s.runErr with
      | some e => fail e (if oneShot then w2.emit .stmtClose else w2)
      | none =>
        ({ hasOutputs := true,
           rows := some { fetch := s.fetch, closeErr := s.closeErr, closeStmt := oneShot, holdsConn := !s.onTx } },
         if s.onTx then w2 else { w2 with inUse := w2.inUse + 1 })
    else
      let w2 := w1.emit .exec
      let w3 := if oneShot then w2.emit .stmtClose else w2
      match s.runErr with
      | some e => fail e w3
      | none => ({ hasOutputs := false, result := some s.result }, w3)

/-- `Iterator.Next` -/
def Iter.next (it : Iter) (w : World) : Iter × World × Bool :=
  let it := { it with started := true }
  match it.err, it.rows with
  | some _, _ => (it, w, false)
  | none, none => (it, w, false)
  | none, some r =>
    let (r, w, b) := r.next w
    ({ it with rows := some r }, w, b)

/-- kinds of argument lists given to `Iterator.Get` -/
inductive GetArgs where
  | valid          -- destinations matching the statement's outputs
  | outcome        -- a single *Outcome
  | nilOutcome     -- a single typed-nil *Outcome
  | invalid        -- destinations ScanArgs rejects (wrong type, missing, …)
deriving DecidableEq, Repr, Inhabited

/-- result of Get: the row stored, the outcome fetched, or an error -/
inductive GetOut where
  | row (id : Nat)
  | outcome (result : Option Nat)
  | err (e : Err)
deriving DecidableEq, Repr, Inhabited

/-- `Iterator.Get` -/
def Iter.get (it : Iter) (a : GetArgs) : GetOut :=
  match it.err with
  | some e => .err e
  | none =>
    if !it.started then
      match a with
      | .outcome => .outcome it.result
      | .nilOutcome => .err (.wrapped (.sqlair "nil-outcome"))
      | _ => .err (.wrapped (.sqlair "get-before-next"))
    else
      match it.rows with
      | none => .err (.wrapped (.sqlair "iteration-ended"))
      | some r =>
        match a with
        | .valid =>
          match r.scan with
          | .ok row => .row row.id
          | .error e => .err (.wrapped e)
        | .nilOutcome => .err (.wrapped (.sqlair "nil-outcome"))
        | _ => .err (.wrapped (.sqlair "scan-args"))

/-- `Iterator.Close` (repaired: consults Rows.Err, remembers its result) -/
def Iter.close (it : Iter) (w : World) : Iter × World × Option Err :=
  let it := { it with started := true }
  match it.rows with
  | none => (it, w, it.err)
  | some r =>
    let (r, w, cerr) := r.close w
    let err := match r.err with | some e => some e | none => cerr
    let it := { it with rows := none, err := match it.err with | some e => some e | none => err }
    (it, w, it.err)

/-! ### Query.Get / Query.Run -/

/-- argument lists of `Query.Get` -/
structure GetCall where
  outcome : Bool := false      -- first argument is a (non-nil) *Outcome
  nilOutcome : Bool := false   -- first argument is a typed nil *Outcome
  dests : Nat := 0             -- number of further destinations
  destsValid : Bool := true    -- ScanArgs accepts them
deriving Repr, Inhabited

structure GetResult where
  err : Option Err
  stored : Option Nat := none          -- row stored into the destinations
  outcome : Option (Option Nat) := none  -- outcome filled
deriving DecidableEq, Repr, Inhabited

/-- `Query.Get` for a Query without stored error -/
def queryGet (s : Script) (c : GetCall) (w : World) : GetResult × World :=
  let ndest := c.dests
  if !s.hasOutputs && ndest > 0 then ({ err := some (.sqlair "outputs-not-referenced") }, w) else
  let (it, w) := iterOpen s w
  -- a typed nil *Outcome is consumed and ignored
  let (err0, oc) : Option Err × Option (Option Nat) :=
    if c.outcome then
      match it.get .outcome with
      | .outcome r => (none, some r)
      | .err e => (some e, none)
      | .row _ => (none, none)
    else (none, none)
  match err0 with
  | some e =>
    let (_, w, _) := it.close w
    ({ err := some e, outcome := oc }, w)
  | none =>
    let (it, w, more) := it.next w
    if !more then
      let (_, w, cerr) := it.close w
      let err := match cerr with
        | some e => some e
        | none => if s.hasOutputs then some .noRows else none
      ({ err := err, outcome := oc }, w)
    else
      let g := it.get (if ndest == 0 then .invalid else if c.destsValid then .valid else .invalid)
      let (_, w, cerr) := it.close w
      match g with
      | .row id => ({ err := cerr, stored := some id, outcome := oc }, w)
      | .err e => ({ err := some e, outcome := oc }, w)
      | .outcome _ => ({ err := cerr, outcome := oc }, w)

/-! ### Query.GetAll -/

structure GetAllResult where
  err : Option Err
  appended : List Nat := []      -- ids appended to the caller's slices (empty on error)
deriving DecidableEq, Repr, Inhabited

/-- the row loop of GetAll: collects ids; the caller's slices are assigned only at the end -/
def getAllLoop : Nat → Iter → World → List Nat → Bool → (Iter × World × List Nat × Option Err)
  | 0, it, w, acc, _ => (it, w, acc, some (.sqlair "fuel"))
  | f+1, it, w, acc, destsValid =>
    let (it, w, more) := it.next w
    if !more then (it, w, acc, none) else
    match it.get (if destsValid then .valid else .invalid) with
    | .row id => getAllLoop f it w (acc ++ [id]) destsValid
    | .err e =>
      let (it, w, _) := it.close w
      (it, w, acc, some e)
    | .outcome _ => (it, w, acc, some (.sqlair "unreachable"))

/-- `Query.GetAll` with valid slice pointers (argument validation is the bind layer's) -/
def queryGetAll (s : Script) (nslices : Nat) (destsValid : Bool) (w : World) : GetAllResult × World :=
  if !s.hasOutputs && nslices > 0 then ({ err := some (.sqlair "outputs-not-referenced") }, w) else
  let (it, w) := iterOpen s w
  let (it, w, acc, lerr) := getAllLoop (s.fetch.length + 2) it w [] destsValid
  match lerr with
  | some e => ({ err := some e }, w)
  | none =>
    let (_, w, cerr) := it.close w
    match cerr with
    | some e => ({ err := some e }, w)
    | none =>
      if acc.isEmpty && s.hasOutputs then ({ err := some .noRows }, w)
      else ({ err := none, appended := acc }, w)

/-! ### TX -/

structure TX where
  done : Bool := false       -- sqlair's atomic flag
deriving Repr, Inhabited

/-- `TX.Commit` / `TX.Rollback`: compare-and-swap, the winner reaches the driver -/
def TX.finish (tx : TX) (commit : Bool) (ferr : Option Err) (w : World) : TX × World × Option Err :=
  if tx.done then (tx, w, some .txDone) else
  let w := w.emit (if commit then .commit else .rollback)
  ({ done := true }, { w with inUse := w.inUse - 1 }, ferr)

/-- `DB.Begin` -/
def txBegin (ctxDone : Bool) (berr : Option Err) (w : World) : Option TX × World × Option Err :=
  if ctxDone then (none, w, some .ctx) else
  let w := w.emit .begin
  match berr with
  | some e => (none, w, some e)
  | none => (some {}, { w with inUse := w.inUse + 1 }, none)

end Sqlair.Rt
