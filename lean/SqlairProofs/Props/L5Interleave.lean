/-
  L5 soundness for CONCURRENT runs: the Boolean predicates the Go harness evaluates on the
  driver log of concurrent runs - `holdsC09`, `holdsC10`, and the `doubleClose == 0` conjunct
  of `holdsC11` (Spec/L5) - hold of the observation the model produces from EVERY list of
  atomic steps, i.e. from every interleaving of any number of operations with reference
  drops, iterator closes and every placement of the three finalizers (`run {} steps`; steps
  that are not enabled are skipped).  `Props/L5Sound` has the same for sequential histories.

  Two renderings of the observation are covered and shown to agree on the events:
    * `execsOfSteps steps` (L5Sound/InterleaveDefs): the instrumented replay, reading DB and
      shape of the executed statement from the driver-statement table and the wanted pair
      from the operation that takes the `exec` step;
    * `l5s_execsOf (run {} steps).log (wantsOfSteps steps)`: the observation formed from the
      LOG exactly like the harness (and the sequential development) forms it - DB/shape of a
      statement from its `prepare` event, `closedBefore` from an earlier `close` event - with
      the wanted pair attached to the index of the event.
-/
import SqlairProofs.L5Sound.Interleave

namespace Sqlair.Cache

/-- the running example.  Four operations on one (Statement, DB) slot, their steps
    alternating: 1 (shape 0) and 2 (shape 1) both miss and both prepare; 1 inserts; 4
    (shape 0) hits statement 1; 2 inserts and thereby evicts statement 1 while 1 and 4 hold
    it; 3 (shape 1) hits statement 2; 1 executes with an iterator left open; the finalizer of
    the evicted statement is attempted while 4 still holds it (not enabled: skipped); 4
    executes the evicted statement; the iterator is closed, the finalizer runs (close 1); the
    handles are dropped and the Statement's finalizer closes statement 2; a last `exec` of the
    finished operation 4 is not enabled -/
def l5i_example : List Step :=
  [.newS, .newD, .query 1 1 1 0, .query 2 1 1 1, .query 3 1 1 1, .query 4 1 1 0,
   .lookup 1, .lookup 2, .prepare 1, .prepare 2, .insert 1, .lookup 4, .insert 2, .lookup 3,
   .exec 1 (some 7), .exec 3 none, .finDS 1, .exec 2 none, .exec 4 none, .iterClose 7, .finDS 1,
   .dropS 1, .dropD 1, .finS 1, .exec 4 none]

/-! ### (1) C09 -/

/-- C09 for every interleaving: every execution observed in the run of any step list ran a
    driver statement that lives on the DB, and was prepared from the SQL shape, that the
    operation executing it asked for -/
theorem holdsC09_interleaved (steps : List Step) : holdsC09 (execsOfSteps steps) = true := by
  unfold holdsC09
  rw [List.all_eq_true]
  intro e he
  obtain ⟨h1, h2, _⟩ := l5i_execsFrom_ok steps inv_init e he
  rw [h1, h2]
  simp

/-- the observation misses nothing and invents nothing: mapped back to events, it is the
    sequence of execution events (`exec`, `execClosed`) of the driver log, in order -/
theorem execsOfSteps_events (steps : List Step) :
    (run {} steps).log.filter l5i_isExecEv = (execsOfSteps steps).map l5i_evOf := by
  have := l5i_execsFrom_events steps inv_init
  simpa [execsOfSteps] using this

/-- the same predicate on the observation formed from the log the way the harness forms it -/
theorem holdsC09_interleaved_log (steps : List Step) :
    holdsC09 (l5s_execsOf (run {} steps).log (wantsOfSteps steps)) = true := by
  have hw := l5i_w_run steps (st := {}) (w := []) inv_init l5i_w_init
  rw [List.nil_append] at hw
  exact l5i_execsOf_c09 ⟨steps, rfl⟩ hw

/-- the two renderings are the same list: the instrumented replay observes exactly what the
    harness-style reading of the final log, with the wants attached to the event indices,
    observes -/
theorem execsOfSteps_eq_log (steps : List Step) :
    execsOfSteps steps = l5s_execsOf (run {} steps).log (wantsOfSteps steps) := by
  have hw := l5i_w_run steps (st := {}) (w := []) inv_init l5i_w_init
  rw [List.nil_append] at hw
  show l5i_execsFrom {} steps = l5s_execsOf (run {} steps).log (l5i_wantsFrom {} steps)
  rw [l5i_execsOf_canon ⟨steps, rfl⟩ hw, l5i_execsFrom_canon steps inv_init]
  rfl

/-- non-vacuity: in the example four executions are observed - two of statements prepared by
    the executing operation (misses), two of statements found in the cache (hits), the last
    one of a statement evicted meanwhile - and both renderings of the observation agree -/
example :
    (execsOfSteps l5i_example).map (fun e => (e.ds, e.db, e.shape, e.wantDb, e.wantShape, e.closedBefore)) =
      [(1, 1, 0, 1, 0, false), (2, 1, 1, 1, 1, false), (2, 1, 1, 1, 1, false), (1, 1, 0, 1, 0, false)] ∧
    (l5s_execsOf (run {} l5i_example).log (wantsOfSteps l5i_example)).map
        (fun e => (e.ds, e.db, e.shape, e.wantDb, e.wantShape, e.closedBefore)) =
      [(1, 1, 0, 1, 0, false), (2, 1, 1, 1, 1, false), (2, 1, 1, 1, 1, false), (1, 1, 0, 1, 0, false)] ∧
    wantsOfSteps l5i_example = [(2, 1, 0), (3, 1, 1), (4, 1, 1), (5, 1, 0)] ∧
    (run {} l5i_example).log =
      [.prepare 1 1 0, .prepare 2 1 1, .exec 1 1 0, .exec 2 1 1, .exec 2 1 1, .exec 1 1 0, .close 1, .close 2] :=
  ⟨by decide +kernel, by decide +kernel, by decide +kernel, by decide +kernel⟩

/-- non-vacuity: the interleaving is a real one - after 13 steps operations 1 and 4 hold the
    evicted statement 1, operation 2 holds statement 2 which is what the cache has; the
    finalizer of statement 1 is not enabled at step 16 and is at step 20 -/
example :
    (run {} (l5i_example.take 13)).ops.map (fun p => (p.1, p.2.pc)) =
      [(1, .ready 1), (2, .ready 2), (3, .start), (4, .ready 1)] ∧
    lookup2 (run {} (l5i_example.take 13)).stmtDB 1 1 = some 2 ∧
    ((run {} (l5i_example.take 13)).getDS 1).map (·.finalizer) = some true ∧
    (step (run {} (l5i_example.take 16)) (.finDS 1)).isSome = false ∧
    (step (run {} (l5i_example.take 20)) (.finDS 1)).isSome = true := by decide +kernel

/-- wrong observations: a statement prepared for shape 0 run for an operation that wanted
    shape 1 (what the hit of operation 3 would give had the look-up ignored the SQL), or on
    another DB; and the log rendering of the example with the wants of events 3 and 5 swapped -/
example :
    holdsC09 [{ ds := 1, db := 1, shape := 0, wantDb := 1, wantShape := 1, closedBefore := false }] = false ∧
    holdsC09 [{ ds := 1, db := 1, shape := 0, wantDb := 2, wantShape := 0, closedBefore := false }] = false ∧
    holdsC09 (l5s_execsOf (run {} l5i_example).log [(2, 1, 0), (3, 1, 0), (4, 1, 1), (5, 1, 1)]) = false := by
  decide +kernel

/-! ### (2) C10 -/

/-- C10 for every interleaving: no execution observed in the run of any step list is of a
    driver statement that had been closed, and the number of "statement is closed" errors
    read off the final log is 0 -/
theorem holdsC10_interleaved (steps : List Step) :
    holdsC10 (execsOfSteps steps) (l5s_closedErrs (run {} steps).log) = true := by
  unfold holdsC10
  rw [l5s_closedErrs_zero ⟨steps, rfl⟩, Bool.and_eq_true]
  refine ⟨?_, rfl⟩
  rw [List.all_eq_true]
  intro e he
  obtain ⟨_, _, h3⟩ := l5i_execsFrom_ok steps inv_init e he
  rw [h3]; rfl

/-- the same predicate on the observation formed from the log (for ANY attribution of wants:
    C10 does not read them) -/
theorem holdsC10_interleaved_log (steps : List Step) (w : List (Nat × Nat × Nat)) :
    holdsC10 (l5s_execsOf (run {} steps).log w) (l5s_closedErrs (run {} steps).log) = true :=
  l5s_execsOf_c10 ⟨steps, rfl⟩ w

/-- non-vacuity: the example has closes (statement 1 at event 6, after its last execution at
    event 5 by an operation that held it through the eviction; statement 2 at event 7), the
    observation is not empty, and no execution is flagged -/
example :
    (execsOfSteps l5i_example).length = 4 ∧
    (execsOfSteps l5i_example).map (·.closedBefore) = [false, false, false, false] ∧
    (run {} l5i_example).log.drop 5 = [.exec 1 1 0, .close 1, .close 2] ∧
    l5s_closedErrs (run {} l5i_example).log = 0 := by decide +kernel

/-- wrong observations: an execution flagged `closedBefore`; a "statement is closed" error;
    the log of the example had operation 4 executed after the finalizer of statement 1 -/
example :
    holdsC10 [{ ds := 1, db := 1, shape := 0, wantDb := 1, wantShape := 0, closedBefore := true }] 0 = false ∧
    holdsC10 [] 1 = false ∧
    holdsC10 (l5s_execsOf [.prepare 1 1 0, .exec 1 1 0, .close 1, .exec 1 1 0] [(1, 1, 0), (3, 1, 0)]) 0 = false ∧
    l5s_closedErrs [.prepare 1 1 0, .close 1, .execClosed 1] = 1 := by decide +kernel

/-! ### (3) C11: no driver statement is closed twice -/

/-- C11 (first conjunct) for every interleaving: in the log of the run of any step list no
    driver statement has two `close` events - counted on the log alone, counted over the
    driver-statement table (the `doubleClose` input of the sequential development), and per
    statement id -/
theorem no_double_close_interleaved (steps : List Step) :
    l5i_doubleCloseLog (run {} steps).log = 0 ∧ l5s_doubleClose (run {} steps) = 0 ∧
      ∀ id, l5s_closes (run {} steps).log id ≤ 1 := by
  refine ⟨l5i_doubleCloseLog_zero ⟨steps, rfl⟩, l5s_doubleClose_zero ⟨steps, rfl⟩, ?_⟩
  intro id
  rw [l5s_closes_eq_count]
  exact (close_at_most_once ⟨steps, rfl⟩).2 id

/-- so `holdsC11` on a concurrent run reduces to its other two conjuncts -/
theorem holdsC11_interleaved_doubleClose (steps : List Step) (openStmts cachedPairs conns : Nat)
    (allDropped : Bool) (cacheEntries : Nat) :
    holdsC11 (l5i_doubleCloseLog (run {} steps).log) openStmts cachedPairs conns allDropped cacheEntries =
      (decide (openStmts ≤ cachedPairs * conns) && (!allDropped || (openStmts == 0 && cacheEntries == 0))) := by
  unfold holdsC11
  rw [(no_double_close_interleaved steps).1]
  simp

/-- non-vacuity: both statements of the example are closed, each once; a log with a second
    close of statement 1 is counted, and fails `holdsC11` -/
example :
    l5s_closes (run {} l5i_example).log 1 = 1 ∧ l5s_closes (run {} l5i_example).log 2 = 1 ∧
    l5i_doubleCloseLog (run {} l5i_example).log = 0 ∧
    l5i_doubleCloseLog [.prepare 1 1 0, .close 1, .prepare 2 1 1, .close 1] = 2 ∧
    holdsC11 (l5i_doubleCloseLog [.prepare 1 1 0, .close 1, .prepare 2 1 1, .close 1]) 0 0 1 true 0 = false ∧
    holdsC11 (l5i_doubleCloseLog (run {} l5i_example).log) 0 0 1 true 0 = true := by decide +kernel

end Sqlair.Cache
