/-
  Exactness of expression spans, scanner level: the scanner primitives on the extracted text
  follow the run on the whole input as long as that run stays inside the range.
-/
import SqlairProofs.Exact.Defs

namespace Sqlair

/-- outcome of a `Sc × Bool` skipper on the extracted text: the same answer, corresponding
    states -/
def ExaB (E : Env) (a b : Nat) (r r' : Sc × Bool) : Prop := r'.2 = r.2 ∧ ExaSync E a b r.1 r'.1

section
variable {E : Env} {a b : Nat} {s s' : Sc}

/-! ### advanceChar, skipChar, skipString -/

theorem exa_advanceChar (C : ExaCtx E a b) (hs : ExaSync E a b s s') (hlt : s.pos < b) :
    ExaSync E a b (advanceChar E s) (advanceChar (exaEnv E a b) s') := by
  obtain ⟨hlen, _, _, hnp, hle, _⟩ := hs.lt C hlt
  refine ⟨advanceChar_good C.dok hs.good, advanceChar_good C.dok' hs.good', ?_, ?_, ?_⟩
  · rw [advanceChar_pos, advanceChar_pos]; exact hnp
  · rw [advanceChar_pos]; exact hle
  · rw [advanceChar_pos, (hs.good.next hlen).1]; exact hs.reach.snoc hlen

theorem exa_skipChar (C : ExaCtx E a b) (c : Nat) (hs : ExaSync E a b s s')
    (hb : (skipChar E c s).1.pos ≤ b) :
    ExaB E a b (skipChar E c s) (skipChar (exaEnv E a b) c s') := by
  unfold skipChar at hb ⊢
  by_cases hc : s.pos < E.len ∧ s.char = c
  · rw [if_pos hc] at hb ⊢
    have hb' : (advanceChar E s).pos ≤ b := hb
    have hlt : s.pos < b := by have := advanceChar_lt C.dok hs.good hc.1; omega
    obtain ⟨_, hlen', hch, _⟩ := hs.lt C hlt
    rw [if_pos ⟨hlen', by rw [hch]; exact hc.2⟩]
    exact ⟨rfl, exa_advanceChar C hs hlt⟩
  · rw [if_neg hc]
    have hc' : ¬ (s'.pos < (exaEnv E a b).len ∧ s'.char = c) := by
      intro hc'
      have hlt : s.pos < b := (hs.lt_iff C).mp hc'.1
      obtain ⟨hlen, _, hch, _⟩ := hs.lt C hlt
      exact hc ⟨hlen, by rw [← hch]; exact hc'.2⟩
    rw [if_neg hc']
    exact ⟨rfl, hs⟩

/-- a failed `skipChar` fails on the extracted text -/
theorem exa_skipChar_false (C : ExaCtx E a b) (c : Nat) (hs : ExaSync E a b s s')
    (hf : (skipChar E c s).2 = false) : skipChar (exaEnv E a b) c s' = (s', false) := by
  have hr := (skipChar_bok C.dok c hs.good).rest hf
  have hB := exa_skipChar C c hs (by rw [hr]; exact hs.le)
  have h2 : (skipChar (exaEnv E a b) c s').2 = false := by rw [hB.1, hf]
  exact Prod.ext ((skipChar_bok C.dok' c hs.good').rest h2) h2

theorem exa_skipChar_true (C : ExaCtx E a b) (c : Nat) (hs : ExaSync E a b s s')
    (ht : (skipChar E c s).2 = true) (hb : (skipChar E c s).1.pos ≤ b) :
    (skipChar (exaEnv E a b) c s').2 = true ∧
      ExaSync E a b (skipChar E c s).1 (skipChar (exaEnv E a b) c s').1 := by
  have hB := exa_skipChar C c hs hb
  exact ⟨by rw [hB.1, ht], hB.2⟩

theorem exa_skipString_true {kw : List Nat} (hc : s.pos + kw.length ≤ E.len ∧ foldEqAt E.inp s.pos kw = true) :
    (skipString E kw s).2 = true ∧ (skipString E kw s).1.pos = s.pos + kw.length := by
  unfold skipString; rw [if_pos hc]; exact ⟨rfl, rfl⟩

theorem exa_skipString_false {kw : List Nat} (hc : ¬ (s.pos + kw.length ≤ E.len ∧ foldEqAt E.inp s.pos kw = true)) :
    skipString E kw s = (s, false) := by
  unfold skipString; rw [if_neg hc]

theorem exa_skipString (C : ExaCtx E a b) (kw : List Nat) (hne : 0 < kw.length)
    (hkw10 : ∀ k, k ∈ kw → k ≠ 10) (hkw : ∀ k, k ∈ kw → k < 128) (hs : ExaSync E a b s s')
    (hb : (skipString E kw s).1.pos ≤ b) :
    ExaB E a b (skipString E kw s) (skipString (exaEnv E a b) kw s') := by
  have hp := hs.pos
  have hbl := C.blen
  by_cases hc : s.pos + kw.length ≤ E.len ∧ foldEqAt E.inp s.pos kw = true
  · obtain ⟨h2, hpos⟩ := exa_skipString_true hc
    rw [hpos] at hb
    have hc' : s'.pos + kw.length ≤ (exaEnv E a b).len ∧
        foldEqAt (exaEnv E a b).inp s'.pos kw = true := by
      refine ⟨by rw [C.len']; omega, ?_⟩
      rw [exaEnv_inp, exa_foldEqAt E.inp a b hbl kw s'.pos (by omega),
        show a + s'.pos = s.pos by omega]
      exact hc.2
    obtain ⟨h2', hpos'⟩ := exa_skipString_true hc'
    refine ⟨by rw [h2, h2'], (skipString_bok kw hne hkw10 hs.good).good,
      (skipString_bok kw hne hkw10 hs.good').good, by rw [hpos, hpos']; omega, by rw [hpos]; exact hb, ?_⟩
    rw [hpos]
    exact hs.reach.trans (exa_reach_kw C.asc kw hkw s.pos hc.1 hc.2)
  · have hc' : ¬ (s'.pos + kw.length ≤ (exaEnv E a b).len ∧
        foldEqAt (exaEnv E a b).inp s'.pos kw = true) := by
      intro hc'
      have h1 := hc'.1
      rw [C.len'] at h1
      have h2 := hc'.2
      rw [exaEnv_inp, exa_foldEqAt E.inp a b hbl kw s'.pos (by omega),
        show a + s'.pos = s.pos by omega] at h2
      exact hc ⟨by omega, h2⟩
    rw [exa_skipString_false hc, exa_skipString_false hc']
    exact ⟨rfl, hs⟩

theorem exa_kwAS_ascii : ∀ k, k ∈ kwAS → k < 128 := by decide
theorem exa_kwVALUES_ascii : ∀ k, k ∈ kwVALUES → k < 128 := by decide

theorem exa_skipString_AS (C : ExaCtx E a b) (hs : ExaSync E a b s s')
    (hb : (skipString E kwAS s).1.pos ≤ b) :
    ExaB E a b (skipString E kwAS s) (skipString (exaEnv E a b) kwAS s') :=
  exa_skipString C kwAS kwAS_ok.1 kwAS_ok.2 exa_kwAS_ascii hs hb

theorem exa_skipString_VALUES (C : ExaCtx E a b) (hs : ExaSync E a b s s')
    (hb : (skipString E kwVALUES s).1.pos ≤ b) :
    ExaB E a b (skipString E kwVALUES s) (skipString (exaEnv E a b) kwVALUES s') :=
  exa_skipString C kwVALUES kwVALUES_ok.1 kwVALUES_ok.2 exa_kwVALUES_ascii hs hb

/-! ### skipCharFind -/

theorem exa_skipCharFindLoop (C : ExaCtx E a b) (c : Nat) (f : Nat) :
    ∀ {s s' : Sc} (f' : Nat), ExaSync E a b s s' → E.len - s.pos < f →
      (exaEnv E a b).len - s'.pos < f' →
      (∀ t, skipCharFindLoop E c f s = some (some t) → t.pos ≤ b →
        ∃ t', skipCharFindLoop (exaEnv E a b) c f' s' = some (some t') ∧ ExaSync E a b t t') ∧
      (skipCharFindLoop E c f s = some none →
        skipCharFindLoop (exaEnv E a b) c f' s' = some none) := by
  induction f with
  | zero => intro s s' f' _ hf; omega
  | succ f ih =>
    intro s s' f' hs hf hf'
    cases f' with
    | zero => omega
    | succ f' =>
      have hadv := advanceChar_lt C.dok hs.good
      have hspec := fun hp : s.pos < E.len =>
        skipCharFindLoop_spec C.dok c f (advanceChar_good C.dok hs.good) (by have := hadv hp; omega)
      constructor
      · intro t ht hb
        unfold skipCharFindLoop at ht ⊢
        by_cases hp : s.pos < E.len
        · rw [if_pos hp] at ht
          have hadv := hadv hp
          by_cases hc : s.char = c
          · rw [if_pos hc] at ht
            cases ht
            have hlt : s.pos < b := by omega
            obtain ⟨_, hlen', hch, _⟩ := hs.lt C hlt
            rw [if_pos hlen', if_pos (by rw [hch]; exact hc)]
            exact ⟨_, rfl, exa_advanceChar C hs hlt⟩
          · rw [if_neg hc] at ht
            obtain ⟨r, hr, hr'⟩ := hspec hp
            rw [hr] at ht; cases ht
            have hlt2 := (hr' t rfl).2
            have hlt : s.pos < b := by omega
            obtain ⟨_, hlen', hch, _⟩ := hs.lt C hlt
            rw [if_pos hlen', if_neg (by rw [hch]; exact hc)]
            have hs1 := exa_advanceChar C hs hlt
            have := advanceChar_lt C.dok' hs.good' hlen'
            exact (ih f' hs1 (by omega) (by omega)).1 t hr hb
        · rw [if_neg hp] at ht; cases ht
      · intro ht
        unfold skipCharFindLoop at ht ⊢
        by_cases hlt : s.pos < b
        · obtain ⟨hlen, hlen', hch, _⟩ := hs.lt C hlt
          rw [if_pos hlen] at ht
          rw [if_pos hlen']
          by_cases hc : s.char = c
          · rw [if_pos hc] at ht; cases ht
          · rw [if_neg hc] at ht
            rw [if_neg (by rw [hch]; exact hc)]
            have hs1 := exa_advanceChar C hs hlt
            have := hadv hlen
            have := advanceChar_lt C.dok' hs.good' hlen'
            exact (ih f' hs1 (by omega) (by omega)).2 ht
        · rw [if_neg (hs.not_lt' C hlt)]

theorem exa_skipCharFind (C : ExaCtx E a b) (c : Nat) (hs : ExaSync E a b s s')
    (hb : (skipCharFind E c s).1.pos ≤ b) :
    ExaB E a b (skipCharFind E c s) (skipCharFind (exaEnv E a b) c s') := by
  have hl := exa_skipCharFindLoop C c (E.len + 1) ((exaEnv E a b).len + 1) hs (by omega) (by omega)
  obtain ⟨r, hr, _⟩ := skipCharFindLoop_spec C.dok c (E.len + 1) hs.good (by omega)
  unfold skipCharFind at hb ⊢
  rw [hr] at hb hl ⊢
  cases r with
  | none =>
    rw [hl.2 rfl]
    exact ⟨rfl, hs⟩
  | some t =>
    obtain ⟨t', ht', hst⟩ := hl.1 t rfl hb
    rw [ht']
    exact ⟨rfl, hst⟩

/-! ### skipComment -/

theorem exa_commentLoop (C : ExaCtx E a b) (endc : Nat) (f : Nat) :
    ∀ {s s' : Sc} (f' : Nat) (t : Sc), ExaSync E a b s s' → E.len - s.pos < f →
      (exaEnv E a b).len - s'.pos < f' → commentLoop E endc f s = some t → t.pos ≤ b →
      ∃ t', commentLoop (exaEnv E a b) endc f' s' = some t' ∧ ExaSync E a b t t' := by
  induction f with
  | zero => intro s s' f' _ _ hf; omega
  | succ f ih =>
    intro s s' f' t hs hf hf' ht hb
    cases f' with
    | zero => omega
    | succ f' =>
      unfold commentLoop at ht ⊢
      by_cases hlt : s.pos < b
      · obtain ⟨hlen, hlen', hch, _⟩ := hs.lt C hlt
        have hadv := advanceChar_lt C.dok hs.good hlen
        have hadv' := advanceChar_lt C.dok' hs.good' hlen'
        have hs1 := exa_advanceChar C hs hlt
        rw [if_pos hlen] at ht
        rw [if_pos hlen', hch]
        by_cases hc : s.char = endc
        · rw [if_pos hc] at ht
          rw [if_pos hc]
          by_cases he : endc = 42
          · rw [if_pos he] at ht
            rw [if_pos he]
            simp only [] at ht ⊢
            have hbk := skipChar_bok C.dok 47 hs1.good
            have hbk' := skipChar_bok C.dok' 47 hs1.good'
            by_cases h2 : (skipChar E 47 (advanceChar E s)).2 = true
            · rw [if_pos h2] at ht
              cases ht
              obtain ⟨h2', hs2⟩ := exa_skipChar_true C 47 hs1 h2 hb
              rw [if_pos h2']
              exact ⟨_, rfl, hs2⟩
            · rw [if_neg h2] at ht
              have h2f : (skipChar E 47 (advanceChar E s)).2 = false := by simpa using h2
              have hr := hbk.rest h2f
              rw [exa_skipChar_false C 47 hs1 h2f]
              rw [hr] at ht
              simp only [Bool.false_eq_true, if_false]
              exact ih f' t hs1 (by omega) (by omega) ht hb
          · rw [if_neg he] at ht
            rw [if_neg he]
            cases ht
            exact ⟨_, rfl, hs⟩
        · rw [if_neg hc] at ht
          rw [if_neg hc]
          exact ih f' t hs1 (by omega) (by omega) ht hb
      · rw [if_neg (hs.not_lt' C hlt)]
        refine ⟨_, rfl, ?_⟩
        obtain ⟨t2, ht2, hp2⟩ := commentLoop_spec C.dok endc (f+1) hs.good hf
        unfold commentLoop at ht2
        rw [ht] at ht2; cases ht2
        -- the run on `E` cannot have moved: it would have passed `b`
        by_cases hlen : s.pos < E.len
        · rw [if_pos hlen] at ht
          have hadv := advanceChar_lt C.dok hs.good hlen
          have hle := hs.le
          by_cases hc : s.char = endc
          · rw [if_pos hc] at ht
            by_cases he : endc = 42
            · rw [if_pos he] at ht
              simp only [] at ht
              have hbk := skipChar_bok C.dok 47 (advanceChar_good C.dok hs.good)
              by_cases h2 : (skipChar E 47 (advanceChar E s)).2 = true
              · rw [if_pos h2] at ht; cases ht
                have := hbk.mono; omega
              · rw [if_neg h2] at ht
                have := hbk.good.pos_le
                obtain ⟨t3, ht3, hp3⟩ := commentLoop_spec C.dok endc f hbk.good
                  (by have := hbk.mono; omega)
                rw [ht] at ht3; cases ht3
                have := hp3.mono; have := hbk.mono; omega
            · rw [if_neg he] at ht; cases ht; exact hs
          · rw [if_neg hc] at ht
            obtain ⟨t3, ht3, hp3⟩ := commentLoop_spec C.dok endc f (advanceChar_good C.dok hs.good)
              (by omega)
            rw [ht] at ht3; cases ht3
            have := hp3.mono; omega
        · rw [if_neg hlen] at ht; cases ht; exact hs

theorem exa_skipComment (C : ExaCtx E a b) (hs : ExaSync E a b s s')
    (hb : (skipComment E s).1.pos ≤ b) :
    ExaB E a b (skipComment E s) (skipComment (exaEnv E a b) s') := by
  have hbk := skipComment_bok C.dok hs.good
  have hbk' := skipComment_bok C.dok' hs.good'
  by_cases hlt : s.pos < b
  · obtain ⟨hlen, hlen', hch, _⟩ := hs.lt C hlt
    have hs1 := exa_advanceChar C hs hlt
    unfold skipComment at hb ⊢
    extract_lets c a0 r1 r2 at hb
    extract_lets c' a' r1' r2'
    have hcc : c' = c := hch
    have g1 : BOK E s r1 := by
      unfold r1; split
      · exact skipChar_bok C.dok 45 hs.good
      · exact skipChar_bok C.dok 47 hs.good
    -- the first character
    have h1 : ExaB E a b r1 r1' := by
      have ha : ExaB E a b a0 a' := by
        apply exa_skipChar C 45 hs
        by_cases ht : (skipChar E 45 s).2 = true
        · rw [(skipChar_true ht).2.2]; exact hs1.le
        · rw [(skipChar_bok C.dok 45 hs.good).rest (by simpa using ht)]; exact hs.le
      unfold r1 r1'
      rw [ha.1]
      split
      · exact ha
      · apply exa_skipChar C 47 hs
        by_cases ht : (skipChar E 47 s).2 = true
        · rw [(skipChar_true ht).2.2]; exact hs1.le
        · rw [(skipChar_bok C.dok 47 hs.good).rest (by simpa using ht)]; exact hs.le
    by_cases hr1 : r1.2 = true
    · have hr1' : r1'.2 = true := by rw [h1.1, hr1]
      rw [if_pos hr1] at hb
      rw [if_pos hr1, if_pos hr1']
      have g2 : Post E r1.1 r2.1 := by
        unfold r2; split
        · have := skipChar_bok C.dok 45 g1.good; exact ⟨this.good, this.mono⟩
        · split
          · have := skipChar_bok C.dok 42 g1.good; exact ⟨this.good, this.mono⟩
          · exact ⟨g1.good, Nat.le_refl _⟩
      by_cases hr2 : r2.2 = true
      · rw [if_pos hr2] at hb
        rw [if_pos hr2]
        obtain ⟨s3, hs3, hp3⟩ := commentLoop_spec C.dok (if c = 45 then 10 else 42) (E.len + 1)
          g2.good (by omega)
        rw [hs3] at hb ⊢
        simp only [] at hb ⊢
        have hle2 : r2.1.pos ≤ b := by have := hp3.mono; omega
        have h2 : ExaB E a b r2 r2' := by
          unfold r2 r2'
          rw [hcc]
          unfold r2 at hle2
          split
          · next h45 => rw [if_pos h45] at hle2; exact exa_skipChar C 45 h1.2 hle2
          · next h45 =>
            rw [if_neg h45] at hle2
            split
            · next h47 => rw [if_pos h47] at hle2; exact exa_skipChar C 42 h1.2 hle2
            · next h47 => unfold r2 at hr2; rw [if_neg h45, if_neg h47] at hr2; cases hr2
        rw [if_pos (by rw [h2.1, hr2])]
        obtain ⟨t', ht', hst⟩ := exa_commentLoop C _ (E.len + 1) ((exaEnv E a b).len + 1) s3 h2.2
          (by omega) (by omega) hs3 hb
        rw [hcc, ht']
        exact ⟨rfl, hst⟩
      · rw [if_neg hr2]
        have hr2f : r2.2 = false := by simpa using hr2
        have h2' : r2'.2 = false := by
          unfold r2'
          unfold r2 at hr2f
          rw [hcc]
          split
          · next h45 =>
            rw [if_pos h45] at hr2f
            rw [exa_skipChar_false C 45 h1.2 hr2f]
          · next h45 =>
            rw [if_neg h45] at hr2f
            split
            · next h47 =>
              rw [if_pos h47] at hr2f
              rw [exa_skipChar_false C 42 h1.2 hr2f]
            · rfl
        rw [if_neg (by rw [h2']; simp)]
        exact ⟨rfl, hs⟩
    · rw [if_neg hr1, if_neg (by rw [h1.1]; exact hr1)]
      exact ⟨rfl, hs⟩
  · -- at the end of the range: the run on `E` returns its entry state, the other one too
    have hlen' := hs.not_lt' C hlt
    have h45 : skipChar (exaEnv E a b) 45 s' = (s', false) := by
      unfold skipChar; rw [if_neg (fun hx => hlen' hx.1)]
    have h47 : skipChar (exaEnv E a b) 47 s' = (s', false) := by
      unfold skipChar; rw [if_neg (fun hx => hlen' hx.1)]
    have he' : skipComment (exaEnv E a b) s' = (s', false) := by
      unfold skipComment
      simp only [h45, h47, Bool.false_eq_true, if_false]
    rw [he']
    by_cases ht : (skipComment E s).2 = true
    · have := hbk.prog ht
      have := hs.le
      omega
    · have hf : (skipComment E s).2 = false := by simpa using ht
      have := hbk.rest hf
      exact ⟨hf.symm, by rw [this]; exact hs⟩

theorem exa_skipComment_false (C : ExaCtx E a b) (hs : ExaSync E a b s s')
    (hf : (skipComment E s).2 = false) : skipComment (exaEnv E a b) s' = (s', false) := by
  have hr := (skipComment_bok C.dok hs.good).rest hf
  have hB := exa_skipComment C hs (by rw [hr]; exact hs.le)
  have h2 : (skipComment (exaEnv E a b) s').2 = false := by rw [hB.1, hf]
  exact Prod.ext ((skipComment_bok C.dok' hs.good').rest h2) h2

/-! ### skipStringLiteral -/

theorem exa_peekChar (C : ExaCtx E a b) (c : Nat) (hs : ExaSync E a b s s') (hlt : s.pos < b) :
    peekChar (exaEnv E a b) c s' = peekChar E c s := by
  obtain ⟨hlen, hlen', hch, _⟩ := hs.lt C hlt
  unfold peekChar
  rw [hch]
  simp [hlen, hlen']

theorem exa_peekChar_eof (C : ExaCtx E a b) (c : Nat) (hs : ExaSync E a b s s') (hlt : ¬ s.pos < b) :
    peekChar (exaEnv E a b) c s' = false := by
  have := hs.not_lt' C hlt
  unfold peekChar
  simp [this]

theorem exa_strLitLoop (C : ExaCtx E a b) (c : Nat) (f : Nat) :
    ∀ {s s' : Sc} (f' : Nat) (mc : Bool) (t : Sc), ExaSync E a b s s' → E.len - s.pos < f →
      (exaEnv E a b).len - s'.pos < f' → strLitLoop E c f mc s = some (some t) → t.pos ≤ b →
      ∃ t', strLitLoop (exaEnv E a b) c f' mc s' = some (some t') ∧ ExaSync E a b t t' := by
  induction f with
  | zero => intro s s' f' _ _ _ hf; omega
  | succ f ih =>
    intro s s' f' mc t hs hf hf' ht hb
    cases f' with
    | zero => omega
    | succ f' =>
      unfold strLitLoop at ht ⊢
      simp only [] at ht ⊢
      have hbk := skipCharFind_bok C.dok c hs.good
      have hbk' := skipCharFind_bok C.dok' c hs.good'
      by_cases hr : (skipCharFind E c s).2 = true
      · rw [if_pos hr] at ht
        have hprog := hbk.prog hr
        have hpl := hbk.good.pos_le
        by_cases hcl : (mc && !peekChar E c (skipCharFind E c s).1) = true
        · rw [if_pos hcl] at ht
          cases ht
          have hB := exa_skipCharFind C c hs hb
          rw [if_pos (by rw [hB.1, hr])]
          have hcl' : (mc && !peekChar (exaEnv E a b) c (skipCharFind (exaEnv E a b) c s').1) = true := by
            by_cases hlt : (skipCharFind E c s).1.pos < b
            · rw [exa_peekChar C c hB.2 hlt]; exact hcl
            · rw [exa_peekChar_eof C c hB.2 hlt]
              rw [Bool.and_eq_true] at hcl
              simp [hcl.1]
          rw [if_pos hcl']
          exact ⟨_, rfl, hB.2⟩
        · rw [if_neg hcl] at ht
          obtain ⟨r, hr2, hr2'⟩ := strLitLoop_spec C.dok c f (!mc) hbk.good (by omega)
          rw [ht] at hr2; cases hr2
          have hlt2 := (hr2' t rfl).2
          have hle1 : (skipCharFind E c s).1.pos ≤ b := by omega
          have hB := exa_skipCharFind C c hs hle1
          have hr' : (skipCharFind (exaEnv E a b) c s').2 = true := by rw [hB.1, hr]
          rw [if_pos hr']
          have hprog' := hbk'.prog hr'
          have hpl' := hbk'.good.pos_le
          have hcl' : ¬ (mc && !peekChar (exaEnv E a b) c (skipCharFind (exaEnv E a b) c s').1) = true := by
            rw [exa_peekChar C c hB.2 (by omega)]; exact hcl
          rw [if_neg hcl']
          exact ih f' (!mc) t hB.2 (by omega) (by omega) ht hb
      · rw [if_neg hr] at ht; cases ht

/-- `skipStringLiteral` on the extracted text, for the two answers that are not errors -/
theorem exa_skipStringLiteral (C : ExaCtx E a b) (hs : ExaSync E a b s s') {t : Sc} {res : Res Unit}
    (he : skipStringLiteral E s = (t, res)) (hne : ∀ e, res ≠ .err e) (hb : t.pos ≤ b) :
    ∃ t', skipStringLiteral (exaEnv E a b) s' = (t', res) ∧ ExaSync E a b t t' := by
  unfold skipStringLiteral at he ⊢
  extract_lets c a0 r at he
  extract_lets c' a' r'
  have g1 : BOK E s r := by
    unfold r; split
    · exact skipChar_bok C.dok 34 hs.good
    · exact skipChar_bok C.dok 39 hs.good
  by_cases hr : r.2 = true
  · rw [if_pos hr] at he
    have hprog := g1.prog hr
    obtain ⟨x, hx, hx'⟩ := strLitLoop_spec C.dok c (E.len + 1) true g1.good (by omega)
    rw [hx] at he
    cases x with
    | none => simp only [] at he; cases he; exact (hne _ rfl).elim
    | some t0 =>
      simp only [] at he
      cases he
      have hlt2 := (hx' t rfl).2
      have hlt : s.pos < b := by omega
      obtain ⟨hlen, hlen', hch, _⟩ := hs.lt C hlt
      have hs1 := exa_advanceChar C hs hlt
      have hcc : c' = c := hch
      have h1 : ExaB E a b r r' := by
        have ha : ExaB E a b a0 a' := by
          apply exa_skipChar C 34 hs
          by_cases ht : (skipChar E 34 s).2 = true
          · rw [(skipChar_true ht).2.2]; exact hs1.le
          · rw [(skipChar_bok C.dok 34 hs.good).rest (by simpa using ht)]; exact hs.le
        unfold r r'
        rw [ha.1]
        split
        · exact ha
        · apply exa_skipChar C 39 hs
          by_cases ht : (skipChar E 39 s).2 = true
          · rw [(skipChar_true ht).2.2]; exact hs1.le
          · rw [(skipChar_bok C.dok 39 hs.good).rest (by simpa using ht)]; exact hs.le
      rw [if_pos (by rw [h1.1, hr])]
      obtain ⟨t', ht', hst⟩ := exa_strLitLoop C c (E.len + 1) ((exaEnv E a b).len + 1) true t h1.2
        (by omega) (by omega) hx hb
      rw [hcc, ht']
      exact ⟨t', rfl, hst⟩
  · rw [if_neg hr] at he
    cases he
    have hrf : r.2 = false := by simpa using hr
    have h34 : (skipChar E 34 s).2 = false := by
      unfold r at hrf
      by_cases h : (skipChar E 34 s).2 = true
      · rw [if_pos h] at hrf; rw [hrf] at h; cases h
      · simpa using h
    have h39 : (skipChar E 39 s).2 = false := by
      unfold r at hrf
      rw [if_neg (by rw [h34]; simp)] at hrf; exact hrf
    have hr' : r' = (s', false) := by
      unfold r' a'
      rw [exa_skipChar_false C 34 hs h34, exa_skipChar_false C 39 hs h39]
      simp
    rw [hr']
    simp only [Bool.false_eq_true, if_false]
    exact ⟨s', rfl, hs⟩

/-! ### skipBlanks -/

theorem exa_blanksLoop (C : ExaCtx E a b) (f : Nat) :
    ∀ {s s' : Sc} (f' : Nat) (t : Sc), ExaSync E a b s s' → E.len - s.pos < f →
      (exaEnv E a b).len - s'.pos < f' → blanksLoop E f s = some t → t.pos ≤ b →
      ∃ t', blanksLoop (exaEnv E a b) f' s' = some t' ∧ ExaSync E a b t t' := by
  induction f with
  | zero => intro s s' f' _ _ hf; omega
  | succ f ih =>
    intro s s' f' t hs hf hf' ht hb
    cases f' with
    | zero => omega
    | succ f' =>
      unfold blanksLoop at ht ⊢
      simp only [] at ht ⊢
      have hbk := skipComment_bok C.dok hs.good
      have hbk' := skipComment_bok C.dok' hs.good'
      by_cases hlt : s.pos < b
      · obtain ⟨hlen, hlen', hch, _⟩ := hs.lt C hlt
        rw [if_pos hlen] at ht
        rw [if_pos hlen']
        by_cases hr : (skipComment E s).2 = true
        · rw [if_pos hr] at ht
          have hprog := hbk.prog hr
          have hpl := hbk.good.pos_le
          obtain ⟨t2, ht2, hp2⟩ := blanksLoop_spec C.dok f hbk.good (by omega)
          rw [ht] at ht2; cases ht2
          have hB := exa_skipComment C hs (by have := hp2.mono; omega)
          have hr' : (skipComment (exaEnv E a b) s').2 = true := by rw [hB.1, hr]
          rw [if_pos hr']
          have := hbk'.prog hr'
          exact ih f' t hB.2 (by omega) (by omega) ht hb
        · rw [if_neg hr] at ht
          rw [exa_skipComment_false C hs (by simpa using hr)]
          simp only [Bool.false_eq_true, if_false]
          rw [hch]
          by_cases hbl : s.char = 32 ∨ s.char = 9 ∨ s.char = 13 ∨ s.char = 10
          · rw [if_pos hbl] at ht
            rw [if_pos hbl]
            have hadv := advanceChar_lt C.dok hs.good hlen
            have hadv' := advanceChar_lt C.dok' hs.good' hlen'
            exact ih f' t (exa_advanceChar C hs hlt) (by omega) (by omega) ht hb
          · rw [if_neg hbl] at ht
            rw [if_neg hbl]
            cases ht
            exact ⟨_, rfl, hs⟩
      · rw [if_neg (hs.not_lt' C hlt)]
        refine ⟨_, rfl, ?_⟩
        obtain ⟨t2, ht2, hp2⟩ := blanksLoop_spec C.dok (f+1) hs.good hf
        have hpos : t.pos = s.pos := by
          have : blanksLoop E (f+1) s = some t := by unfold blanksLoop; exact ht
          rw [this] at ht2; cases ht2
          have := hp2.mono; have := hs.le; omega
        -- the run on `E` cannot have moved
        by_cases hlen : s.pos < E.len
        · rw [if_pos hlen] at ht
          by_cases hr : (skipComment E s).2 = true
          · rw [if_pos hr] at ht
            have hprog := hbk.prog hr
            have hpl := hbk.good.pos_le
            obtain ⟨t3, ht3, hp3⟩ := blanksLoop_spec C.dok f hbk.good (by omega)
            rw [ht] at ht3; cases ht3
            have := hp3.mono; omega
          · rw [if_neg hr] at ht
            by_cases hbl : s.char = 32 ∨ s.char = 9 ∨ s.char = 13 ∨ s.char = 10
            · rw [if_pos hbl] at ht
              have hadv := advanceChar_lt C.dok hs.good hlen
              obtain ⟨t3, ht3, hp3⟩ := blanksLoop_spec C.dok f (advanceChar_good C.dok hs.good) (by omega)
              rw [ht] at ht3; cases ht3
              have := hp3.mono; omega
            · rw [if_neg hbl] at ht; cases ht; exact hs
        · rw [if_neg hlen] at ht; cases ht; exact hs

theorem exa_skipBlanks (C : ExaCtx E a b) (hs : ExaSync E a b s s') (hb : (skipBlanks E s).pos ≤ b) :
    ExaSync E a b (skipBlanks E s) (skipBlanks (exaEnv E a b) s') := by
  unfold skipBlanks at hb ⊢
  obtain ⟨t, ht, _⟩ := blanksLoop_spec C.dok (E.len + 1) hs.good (by omega)
  rw [ht] at hb ⊢
  obtain ⟨t', ht', hst⟩ := exa_blanksLoop C (E.len + 1) ((exaEnv E a b).len + 1) t hs (by omega)
    (by omega) ht hb
  rw [ht']
  exact hst

/-! ### names -/

/-- the name loop on the extracted text: in step with the run on `E` while that stays inside
    the range; once it leaves the range, the extracted text is at its end -/
theorem exa_nameLoop (C : ExaCtx E a b) (f : Nat) :
    ∀ {s s' : Sc} (f' : Nat) (t : Sc), ExaSync E a b s s' → E.len - s.pos < f →
      (exaEnv E a b).len - s'.pos < f' → nameLoop E f s = some t →
      ∃ t', nameLoop (exaEnv E a b) f' s' = some t' ∧ (t.pos ≤ b → ExaSync E a b t t') ∧
        (b < t.pos → ¬ t'.pos < (exaEnv E a b).len) := by
  induction f with
  | zero => intro s s' f' _ _ hf; omega
  | succ f ih =>
    intro s s' f' t hs hf hf' ht
    cases f' with
    | zero => omega
    | succ f' =>
      obtain ⟨t2, ht2, hp2, _⟩ := nameLoop_spec C.dok (f+1) hs.good hf
      rw [ht] at ht2; cases ht2
      unfold nameLoop at ht ⊢
      by_cases hlt : s.pos < b
      · obtain ⟨hlen, hlen', hch, _⟩ := hs.lt C hlt
        by_cases hc : s.pos < E.len ∧ isNameChar E s.char = true
        · rw [if_pos hc] at ht
          rw [if_pos ⟨hlen', by rw [hch]; exact hc.2⟩]
          have hadv := advanceChar_lt C.dok hs.good hlen
          have hadv' := advanceChar_lt C.dok' hs.good' hlen'
          exact ih f' t (exa_advanceChar C hs hlt) (by omega) (by omega) ht
        · rw [if_neg hc] at ht
          cases ht
          rw [if_neg (fun hx => hc ⟨hlen, by rw [← hch]; exact hx.2⟩)]
          exact ⟨_, rfl, fun _ => hs, fun h => by omega⟩
      · have hn := hs.not_lt' C hlt
        rw [if_neg (fun hx => hn hx.1)]
        refine ⟨_, rfl, fun hle => ?_, fun _ => hn⟩
        exact hs.of_pos_eq hp2.good hs.good' (by have := hp2.mono; have := hs.le; omega) rfl

theorem exa_ptn_eq (X : Env) (s : Sc) :
    parseTypeName X s = ((parseTypeName X s).1,
      if (parseTypeName X s).1.pos > s.pos then some (X.inp.extract s.pos (parseTypeName X s).1.pos)
      else none) := by
  unfold parseTypeName
  extract_lets s1
  split <;> rfl

/-- `parseTypeName` on the extracted text -/
theorem exa_parseTypeName (C : ExaCtx E a b) (hs : ExaSync E a b s s') :
    ((parseTypeName E s).1.pos ≤ b →
      (parseTypeName (exaEnv E a b) s').2 = (parseTypeName E s).2 ∧
      ExaSync E a b (parseTypeName E s).1 (parseTypeName (exaEnv E a b) s').1) ∧
    (b < (parseTypeName E s).1.pos → ¬ (parseTypeName (exaEnv E a b) s').1.pos < (exaEnv E a b).len) := by
  obtain ⟨hp, _, _⟩ := parseTypeName_post C.dok hs.good
  obtain ⟨hp', _, _⟩ := parseTypeName_post C.dok' hs.good'
  -- the result states
  have key : ((parseTypeName E s).1.pos ≤ b →
        ExaSync E a b (parseTypeName E s).1 (parseTypeName (exaEnv E a b) s').1) ∧
      (b < (parseTypeName E s).1.pos →
        ¬ (parseTypeName (exaEnv E a b) s').1.pos < (exaEnv E a b).len) := by
    by_cases hlt : s.pos < b
    · obtain ⟨hlen, hlen', hch, _⟩ := hs.lt C hlt
      have hfst : ∀ (X : Env) (u : Sc), (parseTypeName X u).1 =
          if isInitialNameChar X u.char = true
          then (nameLoop X (X.len + 1) (advanceChar X u)).getD (advanceChar X u) else u := by
        intro X u; unfold parseTypeName; extract_lets s1; split <;> rfl
      rw [hfst E s, hfst (exaEnv E a b) s', hch, exaEnv_isInitialNameChar]
      by_cases hi : isInitialNameChar E s.char = true
      · rw [if_pos hi, if_pos hi]
        have hs1 := exa_advanceChar C hs hlt
        obtain ⟨t, ht, _⟩ := nameLoop_spec C.dok (E.len + 1) hs1.good (by omega)
        obtain ⟨t', ht', h1, h2⟩ := exa_nameLoop C (E.len + 1) ((exaEnv E a b).len + 1) t hs1
          (by omega) (by omega) ht
        rw [ht, ht']
        exact ⟨h1, h2⟩
      · rw [if_neg hi, if_neg hi]
        exact ⟨fun _ => hs, fun h => by omega⟩
    · have hn := hs.not_lt' C hlt
      have hpl' := hp'.good.pos_le
      have hm' := hp'.mono
      refine ⟨fun hle => ?_, fun _ => by omega⟩
      exact hs.of_pos_eq hp.good hp'.good (by have := hp.mono; have := hs.le; omega) (by omega)
  refine ⟨fun hle => ⟨?_, key.1 hle⟩, key.2⟩
  have hsy := key.1 hle
  rw [exa_ptn_eq E s, exa_ptn_eq (exaEnv E a b) s']
  simp only []
  have h1 := hs.pos
  have h2 := hsy.pos
  by_cases hgt : (parseTypeName E s).1.pos > s.pos
  · rw [if_pos hgt, if_pos (by omega), hs.extract hsy]
  · rw [if_neg hgt, if_neg (by omega)]

end
end Sqlair
