/-
  L4Sound, C20 on single-operation cases: a cancelled preliminary run does not show in the
  results, a done context runs nothing and is reported, the driver sees the case's mark.
-/
import SqlairProofs.L4Sound.Free

namespace Sqlair.Rt

/-! ### the results of the operation are free of an error that nothing produces -/

theorem l4s_m_returns_free {b : Err} (hb : b.l4s_base) (c : Case) (hcancel : c.cancelAt = none)
    (h : (b = .ctx ∧ c.ctxDone = false) ∨ (b = .txDone ∧ (c.onTx && c.l4s_td) = false ∧ l4s_queryErr c = none)) :
    ∀ r ∈ (l4s_m c).1.returns, ¬ l4s_bad b r := by
  have hs : (c.script c.l4s_td).l4s_Free b := by
    apply l4s_script_free hb
    rcases h with h | ⟨h1, h2, _⟩
    · exact .inl h
    · exact .inr ⟨h1, h2⟩
  unfold l4s_m
  cases hq : l4s_queryErr c with
  | some e =>
    have he : e = .txDone := by
      rcases l4s_queryErr_cases c with h' | h' <;> rw [h'] at hq <;> cases hq; rfl
    subst he
    have hbctx : b = .ctx := by
      rcases h with ⟨h, _⟩ | ⟨_, _, h⟩
      · exact h
      · rw [h] at hq; cases hq
    subst hbctx
    rw [l4s_mid_of_err hq]
    by_cases hi : c.op = "iter"
    · rw [l4s_midErr_iter hi, hcancel]
      apply l4s_runCalls_free hb
      refine ⟨?_, by simp⟩
      intro e he; simp at he; subst he; exact ⟨by simp, by simp⟩
    · rw [l4s_midErr_other hi]
      intro r hr
      simp at hr; subst hr
      rintro (h' | h') <;> revert h' <;> decide
  | none =>
    by_cases h1 : c.op = "run"
    · rw [l4s_mid_run hq h1]
      intro r hr
      simp only [l4s_midRun, List.mem_singleton] at hr
      subst hr
      rw [queryGet_fst]
      exact l4s_renderOpt_free hb (l4s_getSpec_free hb hs _)
    · by_cases h2 : c.op = "get"
      · rw [l4s_mid_get hq h2]
        intro r hr
        simp only [l4s_midGet, List.mem_singleton] at hr
        subst hr
        rw [queryGet_fst]
        exact l4s_renderOpt_free hb (l4s_getSpec_free hb hs _)
      · by_cases h3 : c.op = "getall"
        · rw [l4s_mid_getall hq h3]
          intro r hr
          simp only [l4s_midGetAll, List.mem_singleton] at hr
          subst hr
          rw [l4s_queryGetAllArgs_fst]
          exact l4s_renderOpt_free hb (l4s_getAllArgsSpec_free hb hs _ _)
        · rw [l4s_mid_iter hq h1 h2 h3]
          show ∀ r ∈ (l4s_iterRun c _ _).2.2, _
          unfold l4s_iterRun
          rw [hcancel]
          exact l4s_runCalls_free hb _ _ _ (l4s_iterOpen_free hs _) _

/-! ### a done context -/

theorem l4s_queryErr_none_of {c : Case} (h : (c.onTx && c.txEnd == "before-query") = false) :
    l4s_queryErr c = none := by
  unfold l4s_queryErr; simp [h]

/-- the error of a script whose context is done -/
theorem l4s_ctxDone_openErr {c : Case} (h : c.ctxDone = true) (td : Bool) :
    (c.script td).openErr = some .ctx ∨ (c.script td).openErr = some .txDone := by
  rw [Script.openErr_of_ctxDone (s := c.script td) h]
  split <;> simp

theorem l4s_getSpec_of_openErr {s : Script} {e : Err} (h : s.openErr = some e) (call : GetCall) :
    (getSpec s call).err = some e ∨ (getSpec s call).err = some (.sqlair "outputs-not-referenced") := by
  unfold getSpec
  split
  · exact .inr rfl
  · left; simp [h]

theorem l4s_getAllArgsSpec_of_openErr {s : Script} {e : Err} (h : s.openErr = some e) (args : List SliceArg)
    (dv : Bool) :
    (l4s_getAllArgsSpec s args dv).err = some e ∨ ∃ x, (l4s_getAllArgsSpec s args dv).err = some (.sqlair x) := by
  unfold l4s_getAllArgsSpec
  split
  · exact .inr ⟨_, rfl⟩
  · split
    · exact .inr ⟨_, rfl⟩
    · split
      · left; simp [h]
      · unfold getAllSpec
        split
        · exact .inr ⟨_, rfl⟩
        · left; simp [h]

/-- Get / GetAll / Run with a done context report it (or ErrTxDone, or refuse the arguments) -/
theorem l4s_ctxDone_head {c : Case} (hd : c.ctxDone = true) (hq : l4s_queryErr c = none)
    (hop : c.op = "run" ∨ c.op = "get" ∨ c.op = "getall") :
    (l4s_m c).1.returns.headD "" = "ctx" ∨ (l4s_m c).1.returns.headD "" = "txDone" ∨
      ((l4s_m c).1.returns.headD "").startsWith "sqlair:" = true := by
  have hoe := l4s_ctxDone_openErr hd c.l4s_td
  have key : ∀ o : Option Err,
      (o = some .ctx ∨ o = some .txDone ∨ ∃ x, o = some (.sqlair x)) →
      renderOpt o = "ctx" ∨ renderOpt o = "txDone" ∨ (renderOpt o).startsWith "sqlair:" = true := by
    rintro o (rfl | rfl | ⟨x, rfl⟩)
    · exact .inl rfl
    · exact .inr (.inl rfl)
    · exact .inr (.inr (l4s_render_sqlair_startsWith x))
  unfold l4s_m
  rcases hop with h | h | h
  · rw [l4s_mid_run hq h]
    have hh : (l4s_midRun (c.script c.l4s_td) (l4s_w1 c)).1.returns.headD "" =
        renderOpt (queryGet (c.script c.l4s_td) {} (l4s_w1 c)).1.err := rfl
    rw [hh, queryGet_fst]
    apply key
    rcases hoe with hoe | hoe <;> rcases l4s_getSpec_of_openErr hoe {} with h' | h' <;> rw [h'] <;> simp
  · rw [l4s_mid_get hq h]
    have hh : (l4s_midGet c (c.script c.l4s_td) (l4s_w1 c)).1.returns.headD "" =
        renderOpt (queryGet (c.script c.l4s_td) (l4s_getCall c) (l4s_w1 c)).1.err := rfl
    rw [hh, queryGet_fst]
    apply key
    rcases hoe with hoe | hoe <;> rcases l4s_getSpec_of_openErr hoe (l4s_getCall c) with h' | h' <;> rw [h'] <;> simp
  · rw [l4s_mid_getall hq h]
    have hh : (l4s_midGetAll c (c.script c.l4s_td) (l4s_w1 c)).1.returns.headD "" =
        renderOpt (queryGetAllArgs (c.script c.l4s_td) (l4s_getAllArgs c)
          (c.dests.startsWith "valid" && !c.fewCols) (l4s_w1 c)).1.err := rfl
    rw [hh, l4s_queryGetAllArgs_fst]
    apply key
    rcases hoe with hoe | hoe <;>
      rcases l4s_getAllArgsSpec_of_openErr hoe (l4s_getAllArgs c) (c.dests.startsWith "valid" && !c.fewCols)
        with h' | ⟨x, h'⟩ <;> rw [h'] <;> simp

/-- one call on an iterator that carries an error and has no result set -/
theorem l4s_callStep_errIter {it : Iter} {e : Err} (hr : it.rows = none) (he : it.err = some e) (call : String)
    (w : World) :
    (callStep call it w).1.rows = none ∧ (callStep call it w).1.err = some e ∧
      (call = "close" → (callStep call it w).2.2 = e.render) := by
  by_cases h1 : call = "next"
  · subst h1; rw [l4s_callStep_next, Iter.next_of_rows_none hr]
    exact ⟨hr, he, by intro h; exact absurd h (by decide)⟩
  · by_cases h2 : call = "close"
    · subst h2; rw [l4s_callStep_close, Iter.close_of_rows_none hr]
      exact ⟨hr, he, fun _ => by simp [he, renderOpt]⟩
    · rw [l4s_callStep_get h1 h2]
      exact ⟨hr, he, fun h => absurd h h2⟩

theorem l4s_preCancel_rows_none {it : Iter} (hr : it.rows = none) (ca : Option Nat) (i : Nat) (w : World) :
    preCancel ca i it w = (it, w) := by
  rw [preCancel_eq]; split
  · exact Iter.cancel_of_rows_none hr w
  · rfl

/-- the `Close` results of an iteration whose `Query.Iter` failed -/
theorem l4s_closeResults_errIter {c : Case} {e : Err} {s : Script} (hoe : s.openErr = some e) (w1 : World) :
    ∀ p ∈ c.calls.zip (l4s_iterRun c s w1).2.2, p.1 = "close" → p.2 = e.render := by
  unfold l4s_iterRun
  rw [l4s_calls_eq]
  apply l4s_runCalls_zip_all (l4s_callMap c.fewCols) c.cancelAt (fun it _ => it.rows = none ∧ it.err = some e)
    (fun p => p.1 = "close" → p.2 = e.render)
  · intro i it w hinv; rw [l4s_preCancel_rows_none hinv.1]; exact hinv
  · intro call it w hinv
    obtain ⟨g1, g2, g3⟩ := l4s_callStep_errIter hinv.1 hinv.2 (l4s_callMap c.fewCols call) w
    exact ⟨⟨g1, g2⟩, fun h => g3 ((l4s_callMap_close _ _).2 h)⟩
  · constructor
    · rw [iterOpen_rows]
      exact Script.openRows_of_not_opensRows (Script.not_opensRows_of_openErr hoe)
    · rw [iterOpen_err, hoe]

theorem l4s_closeResults_all {c : Case} {o : Obs} {P : String → Bool}
    (h : ∀ p ∈ c.calls.zip o.returns, p.1 = "close" → P p.2 = true) : (closeResults c o).all P = true := by
  unfold closeResults
  rw [List.all_eq_true]
  intro r hr
  rw [List.mem_filterMap] at hr
  obtain ⟨p, hp, hpr⟩ := hr
  obtain ⟨call, r'⟩ := p
  by_cases hc : call = "close"
  · subst hc
    simp at hpr
    subst hpr
    exact h _ hp rfl
  · have : (call == "close") = false := by simpa using hc
    simp [this] at hpr

/-! ### the parts of `holdsC20` on a single-operation case -/

def l4s_c20a (c : Case) (o : Obs) : Bool :=
  if c.preCtx == "cancelled" && !c.ctxDone && c.cancelAt.isNone then
    o.preReturn == "ctx" && o.returns.all (fun r => r != "ctx" && r != "wrapped(ctx)") &&
    (!(c.onTx && c.txEnd == "after") || o.returns.all (fun r => r != "txDone" && r != "wrapped(txDone)"))
  else true

def l4s_c20b (c : Case) (o : Obs) : Bool :=
  if c.ctxDone && !(c.onTx && c.txEnd == "before-query") then
    execEvents o == 0 &&
    (if c.op == "iter" then (closeResults c o).all (fun r => r == "ctx" || r == "txDone")
     else (o.returns.headD "") == "ctx" || (o.returns.headD "") == "txDone" ||
          (o.returns.headD "").startsWith "sqlair:")
  else true

def l4s_c20c (c : Case) (o : Obs) : Bool :=
  if c.ctx == "nil" then o.eventCtx.all (· == "-")
  else if c.ctx == "marker" && c.cancelAt.isNone then o.eventCtx.all (· == "MARK")
  else o.eventCtx.all (fun x => x.startsWith "MARK")

theorem l4s_holdsC20_eq {c : Case} (h : c.op ≠ "pair") (o : Obs) :
    holdsC20 c o = (l4s_c20a c o && l4s_c20b c o && l4s_c20c c o) := by
  have : (c.op == "pair") = false := by simpa using h
  unfold holdsC20
  simp only [this, Bool.false_eq_true, if_false]
  rfl

theorem l4s_not_bad_ctx {r : String} (h : ¬ l4s_bad .ctx r) : (r != "ctx" && r != "wrapped(ctx)") = true := by
  simp only [Bool.and_eq_true, bne_iff_ne, ne_eq]
  exact ⟨fun h' => h (.inl h'), fun h' => h (.inr (by rw [l4s_wrapped_ctx_render]; exact h'))⟩

theorem l4s_not_bad_txDone {r : String} (h : ¬ l4s_bad .txDone r) :
    (r != "txDone" && r != "wrapped(txDone)") = true := by
  simp only [Bool.and_eq_true, bne_iff_ne, ne_eq]
  exact ⟨fun h' => h (.inl h'), fun h' => h (.inr (by rw [l4s_wrapped_txDone_render]; exact h'))⟩

theorem l4s_c20a_single (win : String) (c : Case) :
    l4s_c20a c (predObsW win c (l4s_predictSingle c)) = true := by
  unfold l4s_c20a
  split
  · rename_i hcond
    simp only [Bool.and_eq_true, beq_iff_eq, Bool.not_eq_true', Option.isNone_iff_eq_none] at hcond
    obtain ⟨⟨hpre, hctx⟩, hcan⟩ := hcond
    have h1 : (predObsW win c (l4s_predictSingle c)).preReturn = "ctx" := by
      show c.preReturn = "ctx"
      unfold Case.preReturn; simp [hpre]
    have h2 : (predObsW win c (l4s_predictSingle c)).returns.all (fun r => r != "ctx" && r != "wrapped(ctx)") = true := by
      rw [List.all_eq_true]
      intro r hr
      exact l4s_not_bad_ctx (l4s_m_returns_free (.inl rfl) c hcan (.inl ⟨rfl, hctx⟩) r hr)
    rw [h1, h2]
    simp only [beq_self_eq_true, Bool.and_self, Bool.true_and, Bool.or_eq_true, Bool.not_eq_true']
    cases hl : (c.onTx && c.txEnd == "after")
    · exact .inl rfl
    · right
      have hlate : c.l4s_isLate = true := hl
      have htd := l4s_td_of_not_early (l4s_late_not_early hlate)
      have hq : l4s_queryErr c = none := by
        apply l4s_queryErr_none_of
        simp only [Bool.and_eq_true, beq_iff_eq] at hl
        simp [hl.2]
      rw [List.all_eq_true]
      intro r hr
      exact l4s_not_bad_txDone (l4s_m_returns_free (.inr rfl) c hcan (.inr ⟨rfl, by simp [htd], hq⟩) r hr)
  · rfl

theorem l4s_all_map_const (l : List Ev) (m : String) (q : String → Bool) (h : q m = true) :
    (l.map fun _ => m).all q = true := by
  rw [List.all_eq_true]; intro x hx
  obtain ⟨_, _, rfl⟩ := List.mem_map.1 hx
  exact h

theorem l4s_c20c_single (win : String) {c : Case} (hp : c.op ≠ "pair") (p : Pred) :
    l4s_c20c c (predObsW win c p) = true := by
  have hev : (predObsW win c p).eventCtx = (p.log.filter ctxBearing).map fun _ => l4s_mark c := by
    show l4s_eventCtx c p = _
    have : (c.op == "pair") = false := by simpa using hp
    simp [l4s_eventCtx, this]
  unfold l4s_c20c
  rw [hev]
  by_cases hnil : c.ctx = "nil"
  · simp only [hnil, beq_self_eq_true, if_true]
    exact l4s_all_map_const _ _ _ (by simp [l4s_mark, hnil])
  · have hn : (c.ctx == "nil") = false := by simpa using hnil
    have hm : l4s_mark c = "MARK" := by simp [l4s_mark, hn]
    simp only [hn, Bool.false_eq_true, if_false, hm]
    split
    · exact l4s_all_map_const _ _ _ (by decide)
    · exact l4s_all_map_const _ _ _ (by decide +kernel)

/-- with a done context the operation adds no event -/
theorem l4s_ctxDone_no_events {c : Case} (hd : c.ctxDone = true) {evsOp : List Ev}
    (hlog : (l4s_m c).2.log = (l4s_w1 c).log ++ evsOp) : evsOp = [] := by
  have hoe : (c.script c.l4s_td).openEvents = [] := Script.openEvents_of_ctxDone hd
  have hop : (c.script c.l4s_td).opensRows = false :=
    Script.not_opensRows_of_openErr (Script.openErr_of_ctxDone (s := c.script c.l4s_td) hd)
  rcases l4s_mid_effect c c.l4s_td (l4s_w1 c) with h | ⟨evs, h⟩
  · unfold l4s_m at hlog; rw [h] at hlog
    have : (l4s_w1 c).log ++ [] = (l4s_w1 c).log ++ evsOp := by simpa using hlog
    exact (List.append_cancel_left this).symm
  · have h1 := (h.none hop).1
    unfold l4s_m at hlog
    rw [h.log, hoe, h1] at hlog
    have : (l4s_w1 c).log ++ [] = (l4s_w1 c).log ++ evsOp := by simpa using hlog
    exact (List.append_cancel_left this).symm

theorem l4s_c20b_single {win : String} (hwin : isFinisher win = true) {c : Case} (hwf : CaseWF c)
    (hp : c.op ≠ "pair") : l4s_c20b c (predObsW win c (l4s_predictSingle c)) = true := by
  unfold l4s_c20b
  split
  · rename_i hcond
    simp only [Bool.and_eq_true, Bool.not_eq_true'] at hcond
    obtain ⟨hd, hnq⟩ := hcond
    have hq := l4s_queryErr_none_of hnq
    -- no exec / query event
    have hexec : execEvents (predObsW win c (l4s_predictSingle c)) = 0 := by
      obtain ⟨evsOp, hlog, hshape⟩ := l4s_obs_shape hwin hwf hp
      have hnil := l4s_ctxDone_no_events hd hlog
      subst hnil
      unfold execEvents
      rcases hshape with ⟨_, _, _, hev, _⟩ | ⟨_, _, _, _, fev, hf, hev, _, _⟩ | ⟨_, _, _, _, fev, hf, hev, _, _⟩
      · rw [hev]; rfl
      · rw [hev, l4s_count_execq]; cases fev <;> simp [Ev.isFin] at hf <;> rfl
      · rw [hev, l4s_count_execq]; cases fev <;> simp [Ev.isFin] at hf <;> rfl
    rw [hexec]
    simp only [beq_self_eq_true, Bool.true_and]
    by_cases hi : c.op = "iter"
    · simp only [hi, beq_self_eq_true, if_true]
      apply l4s_closeResults_all
      intro p hp' hc
      have hm : (predObsW win c (l4s_predictSingle c)).returns = (l4s_iterRun c (c.script c.l4s_td) (l4s_w1 c)).2.2 := by
        show (l4s_m c).1.returns = _
        unfold l4s_m
        rw [l4s_mid_iter hq (by rw [hi]; decide) (by rw [hi]; decide) (by rw [hi]; decide)]
        rfl
      rw [hm] at hp'
      rcases l4s_ctxDone_openErr hd c.l4s_td with hoe | hoe
      · rw [l4s_closeResults_errIter hoe _ p hp' hc]; rfl
      · rw [l4s_closeResults_errIter hoe _ p hp' hc]; rfl
    · have hi' : (c.op == "iter") = false := by simpa using hi
      simp only [hi', Bool.false_eq_true, if_false]
      have hop : c.op = "run" ∨ c.op = "get" ∨ c.op = "getall" := by
        rcases (l4s_wf_single hwf hp).1 with h | h | h | h
        · exact .inl h
        · exact .inr (.inl h)
        · exact .inr (.inr h)
        · exact absurd h hi
      have := l4s_ctxDone_head hd hq hop
      show ((l4s_m c).1.returns.headD "" == "ctx" || (l4s_m c).1.returns.headD "" == "txDone" ||
        ((l4s_m c).1.returns.headD "").startsWith "sqlair:") = true
      rcases this with h | h | h
      · rw [h]; rfl
      · rw [h]; rfl
      · simp only [h, Bool.or_true]
  · rfl

theorem l4s_holdsC20_single {win : String} (hwin : isFinisher win = true) {c : Case} (hwf : CaseWF c)
    (hp : c.op ≠ "pair") : holdsC20 c (predObsW win c (l4s_predictSingle c)) = true := by
  rw [l4s_holdsC20_eq hp, l4s_c20a_single, l4s_c20b_single hwin hwf hp, l4s_c20c_single win hp]
  rfl

end Sqlair.Rt
