/-
  L4Sound, C14 on `iter` cases: Close results agree, Next stays false, the first call, a fetch
  failure that ended the iteration is reported by Close.
-/
import SqlairProofs.L4Sound.C14Scan

namespace Sqlair.Rt

/-! ### every Close returns the same -/

/-- the `close` results among (call, result) pairs -/
def l4s_cr (pairs : List (String × String)) : List String :=
  pairs.filterMap fun (call, r) => if call == "close" then some r else none

theorem l4s_closeResults_eq (c : Case) (o : Obs) : closeResults c o = l4s_cr (c.calls.zip o.returns) := rfl

theorem l4s_cr_cons_close (r : String) (rest : List (String × String)) :
    l4s_cr (("close", r) :: rest) = r :: l4s_cr rest := by
  simp [l4s_cr]

theorem l4s_cr_cons_other {call : String} (h : call ≠ "close") (r : String) (rest : List (String × String)) :
    l4s_cr ((call, r) :: rest) = l4s_cr rest := by
  simp [l4s_cr, h]

theorem l4s_cr_mem {pairs : List (String × String)} {r : String} (h : r ∈ l4s_cr pairs) :
    ("close", r) ∈ pairs := by
  unfold l4s_cr at h
  rw [List.mem_filterMap] at h
  obtain ⟨⟨call, r'⟩, hp, hpr⟩ := h
  by_cases hc : call = "close"
  · subst hc; simp at hpr; subst hpr; exact hp
  · have : (call == "close") = false := by simpa using hc
    simp [this] at hpr

/-- an iterator without result set: every Close returns its error, nothing changes -/
theorem l4s_close_of_rows_none {f : String → String} (hf : l4s_fmap f) (ca : Option Nat) (cs l : List String)
    (i : Nat) {it : Iter} (w : World) (hr : it.rows = none) :
    ∀ p ∈ l.zip (runCalls cs ca i it w (l.map f)).2.2, p.1 = "close" → p.2 = renderOpt it.err := by
  apply l4s_runCalls_zip_all f ca (fun it' _ => it'.rows = none ∧ it'.err = it.err)
    (fun p => p.1 = "close" → p.2 = renderOpt it.err)
  · intro i it' w' hinv; rw [l4s_preCancel_rows_none hinv.1]; exact hinv
  · intro call it' w' hinv
    by_cases hn : f call = "next"
    · rw [hn, l4s_callStep_next, Iter.next_of_rows_none hinv.1]
      refine ⟨hinv, ?_⟩
      intro hc; have := (hf.2 call).2 hc; rw [hn] at this; exact absurd this (by decide)
    · by_cases hc : f call = "close"
      · rw [hc, l4s_callStep_close, Iter.close_of_rows_none hinv.1]
        exact ⟨hinv, fun _ => by rw [hinv.2]⟩
      · rw [l4s_callStep_get hn hc]
        exact ⟨hinv, fun h => absurd ((hf.2 call).2 h) hc⟩
  · exact ⟨hr, rfl⟩

theorem l4s_cr_agree {f : String → String} (hf : l4s_fmap f) (ca : Option Nat) (cs : List String) :
    ∀ (l : List String) (i : Nat) (it : Iter) (w : World),
      (l4s_cr (l.zip (runCalls cs ca i it w (l.map f)).2.2)).all
        (fun r => some r == (l4s_cr (l.zip (runCalls cs ca i it w (l.map f)).2.2)).head?) = true := by
  intro l
  induction l with
  | nil => intro i it w; rfl
  | cons call rest ih =>
    intro i it w
    rw [List.map_cons, runCalls_cons]
    simp only [List.zip_cons_cons]
    by_cases hc : call = "close"
    · subst hc
      rw [(hf.2 "close").2 rfl, l4s_cr_cons_close]
      simp only [List.head?_cons, List.all_cons, beq_self_eq_true, Bool.true_and]
      rw [List.all_eq_true]
      intro r hr
      have := l4s_close_of_rows_none hf ca cs rest (i + 1)
        (it := (callStep "close" (preCancel ca i it w).1 (preCancel ca i it w).2).1)
        (callStep "close" (preCancel ca i it w).1 (preCancel ca i it w).2).2.1
        (by rw [l4s_callStep_close]; simp) _ (l4s_cr_mem hr) rfl
      simp only at this
      rw [this, l4s_callStep_close]
      simp
    · rw [l4s_cr_cons_other hc]
      exact ih _ _ _

/-! ### Next stays false -/

def l4s_nexts (pairs : List (String × String)) : List String :=
  pairs.filterMap fun (call, r) => if call == "next" then some r else none

theorem l4s_nexts_cons_next (r : String) (rest : List (String × String)) :
    l4s_nexts (("next", r) :: rest) = r :: l4s_nexts rest := by
  simp [l4s_nexts]

theorem l4s_nexts_cons_other {call : String} (h : call ≠ "next") (r : String) (rest : List (String × String)) :
    l4s_nexts ((call, r) :: rest) = l4s_nexts rest := by
  simp [l4s_nexts, h]

theorem l4s_nexts_mem {pairs : List (String × String)} {r : String} (h : r ∈ l4s_nexts pairs) :
    ("next", r) ∈ pairs := by
  unfold l4s_nexts at h
  rw [List.mem_filterMap] at h
  obtain ⟨⟨call, r'⟩, hp, hpr⟩ := h
  by_cases hc : call = "next"
  · subst hc; simp at hpr; subst hpr; exact hp
  · have : (call == "next") = false := by simpa using hc
    simp [this] at hpr

theorem l4s_callStep_ended {it : Iter} (h : it.ended = true) (call : String) (w : World) :
    (callStep call it w).1.ended = true := by
  obtain ⟨h1, _, _⟩ := callStep_eq call it w
  rw [h1]; exact step_ended h w _

theorem l4s_next_of_ended {f : String → String} (hf : l4s_fmap f) (ca : Option Nat) (cs l : List String)
    (i : Nat) {it : Iter} (w : World) (he : it.ended = true) :
    ∀ p ∈ l.zip (runCalls cs ca i it w (l.map f)).2.2, p.1 = "next" → p.2 = "false" := by
  apply l4s_runCalls_zip_all f ca (fun it' _ => it'.ended = true) (fun p => p.1 = "next" → p.2 = "false")
  · intro i it' w' hinv
    rw [preCancel_eq]; split
    · exact step_ended hinv w' .cancel
    · exact hinv
  · intro call it' w' hinv
    refine ⟨l4s_callStep_ended hinv _ _, ?_⟩
    intro hn
    have hn' : call = "next" := hn
    subst hn'
    rw [(hf.1 "next").2 rfl, l4s_callStep_next, Iter.next_of_ended hinv]
    rfl
  · exact he

theorem l4s_nexts_sticky {f : String → String} (hf : l4s_fmap f) (ca : Option Nat) (cs : List String) :
    ∀ (l : List String) (i : Nat) (it : Iter) (w : World),
      ((l4s_nexts (l.zip (runCalls cs ca i it w (l.map f)).2.2)).dropWhile (· == "true")).all (· == "false") = true := by
  intro l
  induction l with
  | nil => intro i it w; rfl
  | cons call rest ih =>
    intro i it w
    rw [List.map_cons, runCalls_cons]
    simp only [List.zip_cons_cons]
    by_cases hn : call = "next"
    · subst hn
      rw [(hf.1 "next").2 rfl, l4s_nexts_cons_next, l4s_callStep_next]
      cases hb : ((preCancel ca i it w).1.next (preCancel ca i it w).2).2.2
      · rw [List.dropWhile_cons, l4s_toString_false]
        simp only [Bool.false_eq_true, if_false, List.all_cons, l4s_toString_false', Bool.true_and]
        rw [List.all_eq_true]
        intro r hr
        have := l4s_next_of_ended hf ca cs rest (i + 1) _
          (Iter.ended_of_next_false _ _ hb) _ (l4s_nexts_mem hr) rfl
        simp only at this
        rw [this]; rfl
      · rw [List.dropWhile_cons, l4s_toString_true]
        simp only [if_true]
        exact ih _ _ _
    · rw [l4s_nexts_cons_other hn]
      exact ih _ _ _

/-! ### the first call -/

theorem l4s_preCancel_started (ca : Option Nat) (i : Nat) (it : Iter) (w : World) :
    (preCancel ca i it w).1.started = it.started := by
  rw [preCancel_eq]; split
  · exact l4s_cancel_started it w
  · rfl

theorem l4s_head_ok {f : String → String} (hf : l4s_fmap f)
    (hfg : l4s_argsOf (f "get") = .valid ∨ l4s_argsOf (f "get") = .invalid)
    (hfi : l4s_argsOf (f "getinvalid") = .invalid)
    (ca : Option Nat) (cs l : List String) (i : Nat) {it : Iter} (w : World) (hs : it.started = false) :
    (match (l.zip (runCalls cs ca i it w (l.map f)).2.2).head? with
      | some ("get", r) => !r.startsWith "row:"
      | some ("getinvalid", r) => r != ""
      | _ => true) = true := by
  cases l with
  | nil => rfl
  | cons call rest =>
    rw [List.map_cons, runCalls_cons]
    simp only [List.zip_cons_cons, List.head?_cons]
    have hs' := l4s_preCancel_started ca i it w
    rw [hs] at hs'
    split
    · rename_i r heq
      simp only [Option.some.injEq, Prod.mk.injEq] at heq
      obtain ⟨hc, hr⟩ := heq
      subst hc
      have h1 : f "get" ≠ "next" := fun h => absurd ((hf.1 _).1 h) (by decide)
      have h2 : f "get" ≠ "close" := fun h => absurd ((hf.2 _).1 h) (by decide)
      rw [l4s_callStep_get h1 h2] at hr
      obtain ⟨e, he⟩ := l4s_get_not_started hs' (l4s_argsOf (f "get")) hfg
      rw [← hr, he]
      show (!(e.render).startsWith "row:") = true
      rw [l4s_render_not_row]; rfl
    · rename_i r heq
      simp only [Option.some.injEq, Prod.mk.injEq] at heq
      obtain ⟨hc, hr⟩ := heq
      subst hc
      have h1 : f "getinvalid" ≠ "next" := fun h => absurd ((hf.1 _).1 h) (by decide)
      have h2 : f "getinvalid" ≠ "close" := fun h => absurd ((hf.2 _).1 h) (by decide)
      rw [l4s_callStep_get h1 h2] at hr
      obtain ⟨e, he⟩ := l4s_get_not_started hs' (l4s_argsOf (f "getinvalid")) (.inr hfi)
      rw [← hr, he]
      show (e.render != "") = true
      simpa using l4s_render_ne_empty e
    · rfl

/-! ### driver `next` events -/

/-- number of driver Next calls so far -/
def World.l4s_nexts (w : World) : Nat := w.log.count .next

theorem l4s_Rows_close_nexts (r : Rows) (w : World) : (r.close w).2.1.l4s_nexts = w.l4s_nexts := by
  cases hc : r.closed
  · rw [Rows.close_of_open hc]
    cases r.closeStmt <;> cases r.holdsConn <;> simp [World.l4s_nexts, World.emit, List.count_append]
  · rw [Rows.close_of_closed hc]

theorem l4s_Rows_cancel_nexts (r : Rows) (w : World) : (r.cancel w).2.l4s_nexts = w.l4s_nexts := by
  unfold Rows.cancel
  split
  · rfl
  · exact l4s_Rows_close_nexts _ _

theorem l4s_Iter_close_nexts (it : Iter) (w : World) : (it.close w).2.1.l4s_nexts = w.l4s_nexts := by
  cases hr : it.rows with
  | none => rw [Iter.close_of_rows_none hr]
  | some r => rw [Iter.close_of_rows hr]; exact l4s_Rows_close_nexts r w

theorem l4s_Iter_cancel_nexts (it : Iter) (w : World) : (it.cancel w).2.l4s_nexts = w.l4s_nexts := by
  cases hr : it.rows with
  | none => rw [Iter.cancel_of_rows_none hr]
  | some r => rw [Iter.cancel_of_rows hr]; exact l4s_Rows_cancel_nexts r w

theorem l4s_preCancel_nexts (ca : Option Nat) (i : Nat) (it : Iter) (w : World) :
    (preCancel ca i it w).2.l4s_nexts = w.l4s_nexts := by
  rw [preCancel_eq]; split
  · exact l4s_Iter_cancel_nexts it w
  · rfl

/-- an iteration that is over makes no driver Next call -/
theorem l4s_callStep_ended_nexts {it : Iter} (h : it.ended = true) (call : String) (w : World) :
    (callStep call it w).2.1.l4s_nexts = w.l4s_nexts := by
  by_cases hn : call = "next"
  · subst hn; rw [l4s_callStep_next, Iter.next_of_ended h]
  · by_cases hc : call = "close"
    · subst hc; rw [l4s_callStep_close]; exact l4s_Iter_close_nexts it w
    · rw [l4s_callStep_get hn hc]

theorem l4s_runCalls_ended_nexts (ca : Option Nat) (cs : List String) :
    ∀ (l : List String) (i : Nat) (it : Iter) (w : World), it.ended = true →
      (runCalls cs ca i it w l).2.1.l4s_nexts = w.l4s_nexts := by
  intro l
  induction l with
  | nil => intro i it w _; rfl
  | cons call rest ih =>
    intro i it w he
    rw [runCalls_cons]
    have h1 : (preCancel ca i it w).1.ended = true := by
      rw [preCancel_eq]; split
      · exact step_ended he w .cancel
      · exact he
    show (runCalls cs ca (i + 1) _ _ rest).2.1.l4s_nexts = _
    rw [ih _ _ _ (l4s_callStep_ended h1 _ _), l4s_callStep_ended_nexts h1, l4s_preCancel_nexts]

end Sqlair.Rt
