/-
  Cache properties: C09 (a cached prepared statement is only used for the SQL and DB it was
  prepared for), C10 (a prepared statement is never closed underneath a user that still
  holds it), C11 (prepared statements are released exactly once).

  All theorems quantify over `Reachable` states, i.e. over every list of atomic steps from
  the initial state: every interleaving of any number of operations with evictions by
  concurrent operations of a different shape, reference drops, and every placement of the
  three finalizers the GC reachability model allows.
-/
import SqlairProofs.Cache.IterClose
import SqlairProofs.Cache.Seq
import SqlairProofs.Cache.Gc
import SqlairProofs.Cache.Count

namespace Sqlair.Cache

/-! ### the running example: two concurrent operations with different shapes on the same
    (statement, DB) slot evict each other; the first keeps an iterator open -/

def exTrace : List Step :=
  [.newS, .newD, .query 1 1 1 0, .query 2 1 1 1, .lookup 1, .lookup 2, .prepare 1, .prepare 2,
   .insert 1, .insert 2, .exec 1 (some 7), .exec 2 none, .dropS 1, .finDS 1, .iterClose 7, .finDS 1]

theorem exTrace_reachable (n : Nat) : Reachable (run {} (exTrace.take n)) := ⟨_, rfl⟩

/-! ### C10 -/

/-- C10: no execution ever hits "sql: statement is closed", whatever the interleaving -/
theorem no_use_after_close {st : St} (h : Reachable st) : ∀ id, Ev.execClosed id ∉ st.log :=
  h.inv.log.noEC

/-- the same, spelled out over step lists -/
theorem no_use_after_close_run (steps : List Step) : ∀ id, Ev.execClosed id ∉ (run {} steps).log :=
  no_use_after_close ⟨steps, rfl⟩

/-- C10 (state form): the driver statement held by an in-flight operation (just prepared, or
    obtained from the cache and about to be executed) has not been closed -/
theorem held_stmt_not_closed {st : St} (h : Reachable st) {t id : Nat} {o : Op} (ho : st.getOp t = some o)
    (hh : o.pc = .prepared id ∨ o.pc = .ready id) :
    ∃ x, st.getDS id = some x ∧ x.closeCalled = false ∧ x.driverClosed = false := by
  have hm : (t, o) ∈ st.ops := alook_some_mem ho
  have hdc : ∀ x, dsGet st.ds id = some x → x.closeCalled = false → x.driverClosed = false := by
    intro x hx hc
    cases hd : x.driverClosed with
    | false => rfl
    | true => have := h.inv.dsOK.dclosed id x hx hd; rw [hc] at this; cases this
  rcases hh with hh | hh
  · obtain ⟨x, hx, _, _, hc, _⟩ := h.inv.ops.prepared t o id hm hh
    exact ⟨x, hx, hc, hdc x hx hc⟩
  · obtain ⟨x, hx, _, _, hc, _⟩ := h.inv.ops.ready t o id hm hh
    exact ⟨x, hx, hc, hdc x hx hc⟩

/-- C10: while an iterator is open on a driver statement, the driver-level close has not
    happened (a `Close` issued meanwhile waits for the rows) -/
theorem iter_keeps_driver_stmt_open {st : St} (h : Reachable st) {hd id : Nat} (hm : (hd, id) ∈ st.iters) :
    (∃ x, st.getDS id = some x ∧ x.driverClosed = false) ∧ Ev.close id ∉ st.log := by
  obtain ⟨x, hx, hdc⟩ := h.inv.iters.isOpen hd id hm
  refine ⟨⟨x, hx, hdc⟩, ?_⟩
  intro hc
  obtain ⟨y, hy, hyc⟩ := h.inv.log.close id hc
  rw [hx] at hy; cases hy; rw [hdc] at hyc; cases hyc

/-- non-vacuity: in the example both operations run to completion, each on its own
    statement (two prepares, two executions, no "statement is closed") -/
example : (run {} (exTrace.take 12)).log =
    [.prepare 1 1 0, .prepare 2 1 1, .exec 1 1 0, .exec 2 1 1] := by decide +kernel

/-- non-vacuity: operation 1 is `ready 1` while operation 2 evicts statement 1 -/
example : (run {} (exTrace.take 10)).getOp 1 = some { s := 1, d := 1, sql := 0, pc := .ready 1 } ∧
    lookup2 (run {} (exTrace.take 10)).stmtDB 1 1 = some 2 ∧
    ((run {} (exTrace.take 10)).getDS 1).map (·.finalizer) = some true := by decide +kernel

/-- non-vacuity: the finalizer of the evicted statement is not enabled while iterator 7 is
    open on it, and is enabled once the iterator is closed; `Close` reaches the driver once -/
example : (step (run {} (exTrace.take 13)) (.finDS 1)).isSome = false ∧
    (step (run {} (exTrace.take 15)) (.finDS 1)).isSome = true ∧
    (run {} (exTrace.take 13)).iters = [(7, 1)] ∧
    (run {} exTrace).log.count (.close 1) = 1 := by decide +kernel

/-- non-vacuity: the finalizer of the Statement calls `Close` on a cached statement while
    iterator 7 still reads from it: `closeCalled` but not `driverClosed`, nothing logged; the
    driver-level close happens when the iterator is closed -/
example :
    let pre := [Step.newS, .newD, .query 1 1 1 0, .lookup 1, .prepare 1, .insert 1, .exec 1 (some 7), .dropS 1, .finS 1]
    (run {} pre).iters = [(7, 1)] ∧
    ((run {} pre).getDS 1).map (fun x => (x.closeCalled, x.driverClosed)) = some (true, false) ∧
    (run {} pre).log = [.prepare 1 1 0, .exec 1 1 0] ∧
    (run {} (pre ++ [.iterClose 7])).log = [.prepare 1 1 0, .exec 1 1 0, .close 1] := by decide +kernel

/-! ### C09 -/

/-- C09: an enabled `exec` step of operation `o` executes a driver statement that was
    prepared from exactly this call's SQL on this call's DB; it is never the closed case -/
theorem exec_uses_matching_stmt {st st' : St} (h : Reachable st) {t : Nat} {iter : Option Nat} {o : Op}
    (ho : st.getOp t = some o) (hs : step st (.exec t iter) = some st') :
    ∃ id, o.pc = .ready id ∧ st'.log = st.log ++ [.exec id o.d o.sql] ∧ Ev.prepare id o.d o.sql ∈ st.log := by
  obtain ⟨o', id, x, ho', hpc, hx, hc⟩ := step_exec hs
  rw [getOp_eq, ho'] at ho; cases ho
  obtain ⟨y, hy, hdb, hsql, hcc, _⟩ := h.inv.ops.ready t o id (alook_some_mem ho') hpc
  rw [hx] at hy; cases hy
  refine ⟨id, hpc, ?_, ?_⟩
  · rcases hc with ⟨hc, _⟩ | ⟨_, ⟨_, rfl⟩ | ⟨_, _, _, rfl⟩⟩
    · rw [hcc] at hc; cases hc
    · rw [hdb, hsql]
    · rw [hdb, hsql]
  · have := h.inv.log.prep id x hx
    rw [hdb, hsql] at this; exact this

/-- C09 on logs: every execution in the log of a reachable state is preceded by the
    preparation of that driver statement with the same DB and the same SQL -/
theorem exec_preceded_by_prepare {st : St} (h : Reachable st) {pre post : List Ev} {id d q : Nat}
    (hl : st.log = pre ++ Ev.exec id d q :: post) : Ev.prepare id d q ∈ pre := by
  have : st.log[pre.length]? = some (Ev.exec id d q) := by rw [hl]; simp
  obtain ⟨j, hj, hj'⟩ := h.inv.log.exec _ _ _ _ this
  rw [hl, List.getElem?_append_left hj] at hj'
  exact List.mem_of_getElem? hj'

/-- C09: a cache hit returns a statement prepared from this call's SQL on this call's DB
    (and not closed) -/
theorem hit_sound {st st' : St} (h : Reachable st) {t id : Nat} {o o' : Op}
    (ho : st.getOp t = some o) (hs : step st (.lookup t) = some st')
    (ho' : st'.getOp t = some o') (hpc : o'.pc = .ready id) :
    lookup2 st.stmtDB o.s o.d = some id ∧
      ∃ x, st.getDS id = some x ∧ x.sql = o.sql ∧ x.db = o.d ∧ x.closeCalled = false := by
  obtain ⟨o1, ho1, _, hc⟩ := step_lookup hs
  rw [getOp_eq, ho1] at ho; cases ho
  rcases hc with ⟨id', x, hl, hx, hsql, rfl⟩ | rfl
  · rw [getOp_eq] at ho'
    simp only [alook_ainsert, if_true, Option.some.injEq] at ho'
    subst ho'
    cases hpc
    obtain ⟨y, hy, hdb, hcc, _⟩ := h.inv.cache.ok _ _ _ hl
    rw [hx] at hy; cases hy
    exact ⟨hl, x, hx, hsql, hdb, hcc⟩
  · rw [getOp_eq] at ho'
    simp only [alook_ainsert, if_true, Option.some.injEq] at ho'
    subst ho'
    cases hpc

/-- non-vacuity for `hit_sound`/`exec_uses_matching_stmt`: a third operation with shape 1
    hits statement 2 in the cache and executes it -/
example : (run {} (exTrace.take 12 ++ [.newS, .query 3 1 1 1, .lookup 3])).getOp 3 =
      some { s := 1, d := 1, sql := 1, pc := .ready 2 } ∧
    (run {} (exTrace.take 12 ++ [.newS, .query 3 1 1 1, .lookup 3, .exec 3 none])).log =
      [.prepare 1 1 0, .prepare 2 1 1, .exec 1 1 0, .exec 2 1 1, .exec 2 1 1] := by decide +kernel

/-! ### C11 -/

/-- C11: the index `dbStmt` and the cache `stmtDB` agree -/
theorem index_consistent {st : St} (h : Reachable st) (s d : Nat) :
    s ∈ getIdx st.dbStmt d ↔ lookup2 st.stmtDB s d ≠ none :=
  h.inv.maps.index s d

/-- `getIdx`/`finDBody`/`eraseD` are literally what the model's `finD` runs -/
theorem finD_unfold (st : St) (d : Nat) :
    step st (.finD d) =
      if st.dReachable d || !(st.dbStmt.any (·.1 == d)) then none
      else some (eraseD d ((getIdx st.dbStmt d).foldl (finDBody d) st)) := rfl

theorem finDBody_unfold (d : Nat) (st : St) (s : Nat) :
    finDBody d st s =
      match lookup2 st.stmtDB s d with
      | some id => { st.closeStmt id with stmtDB := del2 (st.closeStmt id).stmtDB s d }
      | none => st := rfl

theorem finDBody_lookup2 (d : Nat) (pre : List Nat) (st : St) (s' d' : Nat) :
    lookup2 (pre.foldl (finDBody d) st).stmtDB s' d' =
      if d' = d ∧ s' ∈ pre then none else lookup2 st.stmtDB s' d' := by
  induction pre generalizing st with
  | nil => simp
  | cons s pre ih =>
    simp only [List.foldl_cons]
    rw [ih]
    cases hl : lookup2 st.stmtDB s d with
    | none =>
      have e : finDBody d st s = st := by unfold finDBody; simp only [hl]
      rw [e]
      by_cases e1 : d' = d <;> by_cases e2 : s' = s <;> by_cases e3 : s' ∈ pre <;> simp [e1, e2, e3]
      all_goals simp_all
    | some id =>
      have e : (finDBody d st s).stmtDB = del2 st.stmtDB s d := by
        unfold finDBody; simp only [hl]
        obtain ⟨ds', log', e⟩ := closeStmt_frame st id
        rw [e]
      rw [e, lookup2_del2]
      by_cases e1 : d' = d <;> by_cases e2 : s' = s <;> by_cases e3 : s' ∈ pre <;> simp [e1, e2, e3]

/-- C11: the finalizer of a DB never takes the `none` branch (where Go would dereference a
    nil map entry): at every iteration of its loop the look-up succeeds -/
theorem finD_none_branch_unreachable {st : St} (h : Reachable st) (d : Nat) {pre post : List Nat} {s : Nat}
    (hsplit : getIdx st.dbStmt d = pre ++ s :: post) :
    lookup2 (pre.foldl (finDBody d) st).stmtDB s d ≠ none := by
  rw [finDBody_lookup2]
  have hmem : s ∈ getIdx st.dbStmt d := by rw [hsplit]; simp
  have hnd : (getIdx st.dbStmt d).Nodup := by
    unfold getIdx
    cases hl : alook st.dbStmt d with
    | none => simp
    | some l => exact h.inv.maps.idx_nodup (d, l) (alook_some_mem hl)
  have hnot : s ∉ pre := by
    rw [hsplit] at hnd
    have := (List.nodup_append.1 hnd).2.2
    intro hp
    exact this s hp s (by simp) rfl
  simp only [hnot, and_false, if_false]
  exact (index_consistent h s d).1 hmem

/-- C11: `Close` is called at most once on every driver statement, and the driver-level
    close of every driver statement happens at most once -/
theorem close_at_most_once {st : St} (h : Reachable st) :
    (∀ x ∈ st.ds, x.closeCalls ≤ 1) ∧ (∀ id, st.log.count (.close id) ≤ 1) := by
  refine ⟨?_, h.inv.log.close1⟩
  intro x hx
  have := h.inv.dsOK.calls x.id x (h.inv.dsOK.ids.get_of_mem hx)
  rw [this]; split <;> omega

/-- the driver-level close is logged exactly when the statement is `driverClosed` -/
theorem driverClosed_iff_logged {st : St} (h : Reachable st) {x : DStmt} (hx : x ∈ st.ds) :
    x.driverClosed = true ↔ st.log.count (.close x.id) = 1 := by
  have hg := h.inv.dsOK.ids.get_of_mem hx
  constructor
  · intro hd
    have h1 := h.inv.log.close1 x.id
    have h2 : 0 < st.log.count (.close x.id) := List.count_pos_iff.2 (h.inv.log.logged x.id x hg hd)
    omega
  · intro hc
    have : Ev.close x.id ∈ st.log := List.count_pos_iff.1 (by omega)
    obtain ⟨y, hy, hyc⟩ := h.inv.log.close x.id this
    rw [hg] at hy; cases hy; exact hyc

/-- non-vacuity: in the example state the finalizers of statement and DB run, the loop of
    `finD` finds what the index promises, and both statements end up closed exactly once -/
example : getIdx (run {} exTrace).dbStmt 1 = [1] ∧ lookup2 (run {} exTrace).stmtDB 1 1 = some 2 ∧
    (step (run {} (exTrace ++ [.dropD 1])) (.finD 1)).isSome = true ∧
    (run {} (exTrace ++ [.dropD 1, .finD 1])).log.count (.close 2) = 1 ∧
    (run {} (exTrace ++ [.dropD 1, .finD 1])).ds.map (·.closeCalls) = [1, 1] := by decide +kernel


/-! ### C09: sequential reuse -/

/-- C09: repeating a query whose generated SQL is what the cache holds for its
    (statement, DB) slot reuses the prepared statement: the complete sequential run of the
    operation emits exactly one event, the execution of the cached statement — no `prepare` —
    and leaves the cache and the driver statements untouched -/
theorem sequential_reuse {st : St} (h : Reachable st) {s d id q t : Nat} {x : DStmt}
    (hl : lookup2 st.stmtDB s d = some id) (hx : st.getDS id = some x) (hq : x.sql = q)
    (hs : s ∈ st.liveS) (hd : d ∈ st.liveD) (ht : st.getOp t = none) :
    let st' := run st [.query t s d q, .lookup t, .prepare t, .insert t, .exec t none]
    st'.log = st.log ++ [.exec id d q] ∧ st'.stmtDB = st.stmtDB ∧ st'.dbStmt = st.dbStmt ∧ st'.ds = st.ds := by
  simp only [sequential_reuse_run h.inv hl hx hq hs hd ht, and_self]

/-- non-vacuity: a second operation with shape 1 after the example reuses statement 2 -/
example : lookup2 (run {} (exTrace.take 12)).stmtDB 1 1 = some 2 ∧
    ((run {} (exTrace.take 12)).getDS 2).map (·.sql) = some 1 ∧
    1 ∈ (run {} (exTrace.take 12)).liveS ∧ 1 ∈ (run {} (exTrace.take 12)).liveD ∧
    (run {} (exTrace.take 12)).getOp 3 = none ∧
    (run (run {} (exTrace.take 12)) [.query 3 1 1 1, .lookup 3, .prepare 3, .insert 3, .exec 3 none]).log =
      (run {} (exTrace.take 12)).log ++ [.exec 2 1 1] := by decide +kernel

/-! ### C11: everything is released -/

/-- C11: once the caller has dropped every handle, closed every iterator and no operation is
    in flight, garbage collection (with the fuel `runHistory` gives it, or more) empties the
    cache and closes every driver statement — exactly once, at the driver — without losing
    any of them -/
theorem quiescent_closed {st : St} (h : Reachable st) (hq : Quiescent st) {fuel : Nat}
    (hf : st.ds.length + st.stmtDB.length + st.dbStmt.length + 1 ≤ fuel) :
    let st' := gc fuel st
    Reachable st' ∧ st'.stmtDB = [] ∧ st'.dbStmt = [] ∧ st'.ds.length = st.ds.length ∧
      ∀ x ∈ st'.ds, x.closeCalled = true ∧ x.closeCalls = 1 ∧ x.driverClosed = true ∧
        st'.log.count (.close x.id) = 1 := by
  intro st'
  have hm := gcMeasure_le st
  obtain ⟨steps, h1, h2, h3, h4, h5, h6, h7⟩ := gc_spec fuel st h.inv (by omega)
  have hr : Reachable st' := by
    show Reachable (gc fuel st)
    rw [h1]; exact h.runs steps
  have hq' : Quiescent st' := by
    refine ⟨h4.trans hq.1, h5.trans hq.2.1, h6.trans hq.2.2.1, ?_⟩
    intro p hp
    have : p ∈ st.ops := by rw [← h3]; exact hp
    exact hq.2.2.2 p this
  obtain ⟨hs, hd, hall⟩ := quiescent_final hr.inv hq' h2
  refine ⟨hr, hs, hd, h7, ?_⟩
  intro x hx
  obtain ⟨a, b, c, _⟩ := hall x hx
  exact ⟨a, b, c, (driverClosed_iff_logged hr hx).1 c⟩

/-- the fuel that is actually needed: evicted statements + keys of the two maps -/
theorem quiescent_closed_measure {st : St} (h : Reachable st) (hq : Quiescent st) {fuel : Nat}
    (hf : gcMeasure st ≤ fuel) :
    (gc fuel st).stmtDB = [] ∧ (gc fuel st).dbStmt = [] ∧
      ∀ x ∈ (gc fuel st).ds, x.closeCalled = true ∧ x.closeCalls = 1 ∧ x.driverClosed = true := by
  obtain ⟨steps, h1, h2, h3, h4, h5, h6, h7⟩ := gc_spec fuel st h.inv hf
  have hr : Reachable (gc fuel st) := by rw [h1]; exact h.runs steps
  have hq' : Quiescent (gc fuel st) := by
    refine ⟨h4.trans hq.1, h5.trans hq.2.1, h6.trans hq.2.2.1, ?_⟩
    intro p hp
    have : p ∈ st.ops := by rw [← h3]; exact hp
    exact hq.2.2.2 p this
  obtain ⟨hs, hd, hall⟩ := quiescent_final hr.inv hq' h2
  refine ⟨hs, hd, ?_⟩
  intro x hx
  obtain ⟨a, b, c, _⟩ := hall x hx
  exact ⟨a, b, c⟩

/-- without quiescence: `gc` with that fuel always reaches a state in which no finalizer is
    enabled, by enabled steps only -/
theorem gc_reaches_fixpoint {st : St} (h : Reachable st) {fuel : Nat}
    (hf : st.ds.length + st.stmtDB.length + st.dbStmt.length + 1 ≤ fuel) :
    Reachable (gc fuel st) ∧ enabledFinalizers (gc fuel st) = [] := by
  have hm := gcMeasure_le st
  obtain ⟨steps, h1, h2, _⟩ := gc_spec fuel st h.inv (by omega)
  exact ⟨by rw [h1]; exact h.runs steps, h2⟩

/-- non-vacuity: drop the DB handle after the example and collect: two statements, both
    closed at the driver, the cache empty; before the collection one was still open -/
example : Quiescent (run {} (exTrace ++ [.dropD 1])) ∧
    (run {} (exTrace ++ [.dropD 1])).stmtDB = [(1, [(1, 2)])] ∧
    (gc 5 (run {} (exTrace ++ [.dropD 1]))).stmtDB = [] ∧
    (gc 5 (run {} (exTrace ++ [.dropD 1]))).ds.map (·.driverClosed) = [true, true] ∧
    (gc 5 (run {} (exTrace ++ [.dropD 1]))).log.drop 4 = [.close 1, .close 2] := by
  refine ⟨⟨by decide +kernel, by decide +kernel, by decide +kernel, by decide +kernel⟩, ?_⟩
  decide +kernel

/-! ### C11: bound on open statements -/

/-- the bound as first sketched — open statements ≤ cache entries + evicted statements
    awaiting their finalizer — is FALSE between `prepare` and `insert`: the freshly prepared
    statement is neither cached nor evicted.  Counterexample: -/
example : let st := run {} [.newS, .newD, .query 1 1 1 0, .lookup 1, .prepare 1]
    openCount st = 1 ∧ entryCount st = 0 ∧ finCount st.ds = 0 ∧ preparedCount st = 1 := by decide +kernel

/-- C11 (strongest true variant; the gap to the sketched bound is the third summand): the
    driver statements on which `Close` has not been called are at most the cache entries plus
    the evicted statements awaiting their finalizer plus the operations that are between
    `prepare` and `insert` -/
theorem open_bound_partial {st : St} (h : Reachable st) :
    openCount st ≤ entryCount st + finCount st.ds + preparedCount st :=
  open_le h.inv

/-- C11: the sketched bound holds whenever no operation is between `prepare` and `insert`
    (in particular in every state of a sequential history) -/
theorem open_bound {st : St} (h : Reachable st) (hno : ∀ p ∈ st.ops, p.2.isPrepared = false) :
    openCount st ≤ entryCount st + finCount st.ds := by
  have := open_le h.inv
  have h0 : preparedCount st = 0 := by
    unfold preparedCount
    rw [List.length_eq_zero_iff, List.filter_eq_nil_iff]
    intro p hp; rw [hno p hp]; simp
  omega

/-- C11: the cache holds at most one entry per (Statement, DB) pair of live keys -/
theorem entries_bound {st : St} (h : Reachable st) :
    entryCount st ≤ st.stmtDB.length * st.dbStmt.length :=
  entries_le h.inv

/-- non-vacuity: in the example, after both inserts, two statements are open: one cached,
    one evicted and awaiting its finalizer (kept alive by operation 1) -/
example : let st := run {} (exTrace.take 10)
    openCount st = 2 ∧ entryCount st = 1 ∧ finCount st.ds = 1 ∧ preparedCount st = 0 ∧
    st.stmtDB.length * st.dbStmt.length = 1 := by decide +kernel

end Sqlair.Cache
