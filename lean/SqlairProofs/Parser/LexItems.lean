/-
  Property C02, item parsers: every item parser maps a state at a code offset of the
  reference lexer to a state at a code offset, whatever its outcome (`.ok`, not-this or
  error) — the moved state of a failed parser is sometimes used afterwards.
-/
import SqlairProofs.Parser.LexScan
import SqlairProofs.Parser.Items

namespace Sqlair

section
variable {E : Env}

theorem not_quote_of_no (h : DecOK E) {s s1 : Sc} (g : Good E s)
    (heq : skipStringLiteral E s = (s1, .no)) : ¬ (s.pos < E.len ∧ (s.char = 34 ∨ s.char = 39)) :=
  ((skipStringLiteral_eq_lexer h g).2.2 s1 heq).2

/-- after `skipStringLiteral` said not-this and `skipComment` failed, `advanceChar` steps over a
    plain rune -/
theorem advanceChar_lc_code (h : DecOK E) {s s1 : Sc} (l : LC E s)
    (heq : skipStringLiteral E s = (s1, .no)) (hf : ¬ (skipComment E s).2 = true) :
    LC E (advanceChar E s) :=
  advanceChar_lc h l
    (plainAt_of_noComment h l.good (Bool.eq_false_iff.mpr hf) (not_quote_of_no h l.good heq))

/-! ### skipEnclosedParentheses -/

theorem parenLoop_lc (h : DecOK E) {cp : Sc} (lcp : LC E cp) : ∀ (f count : Nat) {s : Sc}, LC E s →
    LC E (parenLoop E cp f count s).1 := by
  intro f
  induction f with
  | zero => intro count s l; unfold parenLoop; exact l
  | succ f ih =>
    intro count s l
    unfold parenLoop
    split
    · split
      · exact lcp
      · next heq => exact ih count ((skipStringLiteral_lc h l).of_eq heq)
      · next heq =>
        extract_lets r1 r2 r3
        split
        · exact ih count (skipComment_lc h l)
        next hf =>
        split
        · exact ih _ (skipChar_lc h (by decide) l)
        split
        · exact ih _ (skipChar_lc h (by decide) l)
        exact ih _ (advanceChar_lc_code h l heq hf)
    · split
      · exact lcp
      · exact l

theorem skipEnclosedParentheses_lc (h : DecOK E) {s : Sc} (l : LC E s) :
    LC E (skipEnclosedParentheses E s).1 := by
  unfold skipEnclosedParentheses
  extract_lets r
  split
  · exact parenLoop_lc h l _ _ (skipChar_lc h (by decide) l)
  · exact l

/-! ### skipLiteralInList -/

theorem litLoop_lc (h : DecOK E) : ∀ (f : Nat) {s : Sc}, LC E s → LC E (litLoop E f s).1 := by
  intro f
  induction f with
  | zero => intro s l; unfold litLoop; exact l
  | succ f ih =>
    intro s l
    unfold litLoop
    split
    · split
      · next heq => exact (skipStringLiteral_lc h l).of_eq heq
      · next heq => exact ih ((skipStringLiteral_lc h l).of_eq heq)
      · next heq =>
        split
        · next heq2 => exact (skipEnclosedParentheses_lc h l).of_eq heq2
        · next heq2 => exact ih ((skipEnclosedParentheses_lc h l).of_eq heq2)
        · extract_lets r1
          split
          · exact ih (skipComment_lc h l)
          next hf =>
          split
          · exact l
          · exact ih (advanceChar_lc_code h l heq hf)
    · exact l

theorem skipLiteralInList_lc (h : DecOK E) {s : Sc} (l : LC E s) : LC E (skipLiteralInList E s).1 :=
  litLoop_lc h _ l

/-! ### identifiers -/

theorem parseIdentifier_lc (h : DecOK E) (hc : ClassAscii E) {s : Sc} (l : LC E s) :
    LC E (parseIdentifier E s).1 := by
  unfold parseIdentifier
  split
  · next heq => exact (skipStringLiteral_lc h l).of_eq heq
  · next heq => exact (skipStringLiteral_lc h l).of_eq heq
  · extract_lets s2
    split <;> exact nameLoop_getD_lc h hc l

theorem parseIdentifierAsterisk_lc (h : DecOK E) (hc : ClassAscii E) {s : Sc} (l : LC E s) :
    LC E (parseIdentifierAsterisk E s).1 := by
  unfold parseIdentifierAsterisk
  extract_lets r
  split
  · exact skipChar_lc h (by decide) l
  · exact parseIdentifier_lc h hc l

theorem parseColumnAccessor_lc (h : DecOK E) (hc : ClassAscii E) {s : Sc} (l : LC E s) :
    LC E (parseColumnAccessor E s).1 := by
  unfold parseColumnAccessor
  extract_lets r
  split
  · exact skipChar_lc h (by decide) l
  split
  · exact l
  · exact l
  · next s1 id heq =>
    have l1 : LC E s1 := (parseIdentifier_lc h hc l).of_eq heq
    extract_lets r1
    have lr1 : LC E r1.1 := skipChar_lc h (by decide) l1
    split
    · split
      · next heq2 => exact (parseIdentifierAsterisk_lc h hc lr1).of_eq heq2
      · next heq2 => exact (parseIdentifierAsterisk_lc h hc lr1).of_eq heq2
      · exact l
    · split
      · exact l
      · next heq2 => exact (skipEnclosedParentheses_lc h l1).of_eq heq2
      · exact l1

/-! ### type accessors -/

theorem parseSliceAccessor_lc (h : DecOK E) (hc : ClassAscii E) {s : Sc} (l : LC E s) :
    LC E (parseSliceAccessor E s).1 := by
  unfold parseSliceAccessor
  split
  · next heq => exact (parseTypeName_lc h hc l).of_eq heq
  · next s1 id heq =>
    have l1 : LC E s1 := (parseTypeName_lc h hc l).of_eq heq
    extract_lets r1 s2 r2 s3 r3
    have lr1 : LC E r1.1 := skipChar_lc h (by decide) l1
    have l2 : LC E s2 := skipBlanks_lc h lr1
    have lr2 : LC E r2.1 := skipChar_lc h (by decide) l2
    have l3 : LC E s3 := skipBlanks_lc h lr2
    have lr3 : LC E r3.1 := skipChar_lc h (by decide) l3
    split
    · exact l
    split
    · exact lr2
    split
    · exact lr3
    · exact lr3

theorem parseTypeAndMember_lc (h : DecOK E) (hc : ClassAscii E) {s : Sc} (l : LC E s) :
    LC E (parseTypeAndMember E s).1 := by
  unfold parseTypeAndMember
  extract_lets identifierCol
  split
  · next s1 id heq =>
    have l1 : LC E s1 := (parseTypeName_lc h hc l).of_eq heq
    extract_lets r
    have lr : LC E r.1 := skipChar_lc h (by decide) l1
    split
    · exact lr
    · split
      · next heq2 => exact (parseIdentifierAsterisk_lc h hc lr).of_eq heq2
      · next heq2 => exact (parseIdentifierAsterisk_lc h hc lr).of_eq heq2
      · next heq2 => exact (parseIdentifierAsterisk_lc h hc lr).of_eq heq2
  · exact l

theorem parseTargetType_lc (h : DecOK E) (hc : ClassAscii E) {s : Sc} (l : LC E s) :
    LC E (parseTargetType E s).1 := by
  unfold parseTargetType
  extract_lets r
  have lr : LC E r.1 := skipChar_lc h (by decide) l
  split
  · split
    · next heq => exact (parseSliceAccessor_lc h hc lr).of_eq heq
    · next heq => exact (parseSliceAccessor_lc h hc lr).of_eq heq
    · next s1 heq =>
      have l1 : LC E s1 := (parseSliceAccessor_lc h hc lr).of_eq heq
      split
      · exact l
      · exact parseTypeAndMember_lc h hc l1
  · exact l

theorem parseInputMemberAccessor_lc (h : DecOK E) (hc : ClassAscii E) {s : Sc} (l : LC E s) :
    LC E (parseInputMemberAccessor E s).1 := by
  unfold parseInputMemberAccessor
  extract_lets r
  split
  · exact parseTypeAndMember_lc h hc (skipChar_lc h (by decide) l)
  · exact l

/-! ### lists -/

theorem listLoop_lc (h : DecOK E) {α : Type} {fn : Sc → Sc × Res α}
    (hfn : ∀ s, LC E s → LC E (fn s).1) {cp : Sc} (lcp : LC E cp) :
    ∀ (f : Nat) (first : Bool) (acc : List α) {s : Sc}, LC E s →
      LC E (listLoop E fn cp f first acc s).1 := by
  intro f
  induction f with
  | zero => intro first acc s l; unfold listLoop; exact l
  | succ f ih =>
    intro first acc s l
    unfold listLoop
    extract_lets s1
    have l1 : LC E s1 := skipBlanks_lc h l
    split
    · next s2 x heq =>
      have l2 : LC E s2 := (hfn s1 l1).of_eq heq
      extract_lets s3 r1 r2
      have l3 : LC E s3 := skipBlanks_lc h l2
      split
      · exact skipChar_lc h (by decide) l3
      split
      · exact ih _ _ (skipChar_lc h (by decide) l3)
      · exact lcp
    · next heq => exact (hfn s1 l1).of_eq heq
    · split
      · exact lcp
      · exact lcp

theorem parseList_lc (h : DecOK E) {α : Type} {fn : Sc → Sc × Res α}
    (hfn : ∀ s, LC E s → LC E (fn s).1) {s : Sc} (l : LC E s) : LC E (parseList E fn s).1 := by
  unfold parseList
  extract_lets r
  split
  · exact listLoop_lc h hfn l _ _ _ (skipChar_lc h (by decide) l)
  · exact l

theorem parseColumns_lc (h : DecOK E) (hc : ClassAscii E) {s : Sc} (l : LC E s) :
    LC E (parseColumns E s).1 := by
  unfold parseColumns
  split
  · next heq => exact (parseColumnAccessor_lc h hc l).of_eq heq
  · next s1 res _ heq =>
    have l1 : LC E s1 := (parseColumnAccessor_lc h hc l).of_eq heq
    have hl := parseList_lc h (fun s l => parseColumnAccessor_lc h hc l) l1
    split
    · next heq2 => exact hl.of_eq heq2
    · next heq2 => exact hl.of_eq heq2

theorem parseTargetTypes_lc (h : DecOK E) (hc : ClassAscii E) {s : Sc} (l : LC E s) :
    LC E (parseTargetTypes E s).1 := by
  unfold parseTargetTypes
  split
  · next heq => exact (parseTargetType_lc h hc l).of_eq heq
  · next heq => exact (parseTargetType_lc h hc l).of_eq heq
  · next s1 heq =>
    have l1 : LC E s1 := (parseTargetType_lc h hc l).of_eq heq
    have hl := parseList_lc h (fun s l => parseTargetType_lc h hc l) l1
    split
    · next heq2 => exact hl.of_eq heq2
    · next heq2 => exact hl.of_eq heq2
    · next heq2 => exact hl.of_eq heq2

end
end Sqlair
